-- root of the `CoolerModel` library
import CoolerModel.Basic
import CoolerModel.Model.Bins
import CoolerModel.Props
