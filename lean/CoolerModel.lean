-- root of the `CoolerModel` library
import CoolerModel.Basic
import CoolerModel.Model.Bins
import CoolerModel.Model.FileModel
import CoolerModel.Model.CSR
import CoolerModel.Model.Index
import CoolerModel.Model.Create
import CoolerModel.Model.Balanced
import CoolerModel.Model.Strings
import CoolerModel.Model.Rename
import CoolerModel.Model.Selectors
import CoolerModel.Model.Balance
import CoolerModel.Model.Split
import CoolerModel.Props
