import Lean
import CoolerModel.Props
/-!
Axiom audit: for every theorem declared in a `CoolerModel.Props.*` module print one JSON line
`{"module":…, "name":…, "axioms":[…]}`.  Run with `lake env lean Audit.lean`.
-/
open Lean Elab Command

run_cmd do
  let env ← getEnv
  let mods := env.header.moduleNames
  let mut out : Array String := #[]
  for (name, ci) in env.constants.map₁.toList do
    match ci with
    | .thmInfo _ =>
      match env.getModuleIdxFor? name with
      | some idx =>
        let m := mods[idx.toNat]!
        if (`CoolerModel.Props).isPrefixOf m && !name.isInternal then
          let axs ← Lean.collectAxioms name
          let j := Json.mkObj [("module", Json.str m.toString), ("name", Json.str name.toString),
            ("axioms", Json.arr (axs.map (fun a => Json.str a.toString)))]
          out := out.push j.compress
      | none => pure ()
    | _ => pure ()
  for l in out.qsort (· < ·) do
    IO.println l
