import CoolerModel.Drv.JsonUtil
import CoolerModel.Drv.C20
import CoolerModel.Drv.C04
import CoolerModel.Drv.C15
import CoolerModel.Drv.C03
import CoolerModel.Drv.C07
import CoolerModel.Drv.C07Compat
import CoolerModel.Drv.C01
import CoolerModel.Drv.C02
import CoolerModel.Drv.C12
import CoolerModel.Drv.C19
import CoolerModel.Drv.C18
import CoolerModel.Drv.C14
import CoolerModel.Drv.C10
import CoolerModel.Drv.C11
import CoolerModel.Drv.C13
import CoolerModel.Drv.C17
import CoolerModel.Drv.C05
import CoolerModel.Drv.C08
import CoolerModel.Drv.C16
import CoolerModel.Drv.C09
/-!
Correspondence driver: one JSON request per input line `{"op": "<Cxx.name>", "args": {…}}`,
one JSON answer per output line.  Executes the very definitions the theorems are about.
-/
open Lean Cooler.Drv

def handlers : List Handler := [Cooler.Drv.C20.handle, Cooler.Drv.C04.handle, Cooler.Drv.C15.handle, Cooler.Drv.C03.handle, Cooler.Drv.C07.handle, Cooler.Drv.C07Compat.handle, Cooler.Drv.C01.handle, Cooler.Drv.C02.handle, Cooler.Drv.C12.handle, Cooler.Drv.C19.handle, Cooler.Drv.C18.handle, Cooler.Drv.C14.handle, Cooler.Drv.C10.handle, Cooler.Drv.C11.handle, Cooler.Drv.C13.handle, Cooler.Drv.C17.handle, Cooler.Drv.C05.handle, Cooler.Drv.C08.handle, Cooler.Drv.C16.handle, Cooler.Drv.C09.handle]

def dispatch (op : String) (args : Json) : Json :=
  let rec go : List Handler → Json
    | [] => Json.mkObj [("driver_error", Json.str s!"unknown op {op}")]
    | h :: hs => match h op args with
      | some (.ok j) => j
      | some (.error e) => Json.mkObj [("driver_error", Json.str e)]
      | none => go hs
  go handlers

partial def loop (h : IO.FS.Stream) (out : IO.FS.Stream) : IO Unit := do
  let line ← h.getLine
  if line.isEmpty then return ()
  let ans := match Json.parse line with
    | .ok j => match j.getObjValAs? String "op", j.getObjVal? "args" with
      | .ok op, .ok args => dispatch op args
      | _, _ => Json.mkObj [("driver_error", Json.str "request needs op and args")]
    | .error e => Json.mkObj [("driver_error", Json.str e)]
  out.putStrLn ans.compress
  out.flush
  loop h out

def main : IO Unit := do
  loop (← IO.getStdin) (← IO.getStdout)
