import CoolerModel.Drv.JsonUtil
import CoolerModel.Model.Strings
open Lean
namespace Cooler.Drv.C19
open Cooler Cooler.Drv Cooler.Strings

def jStr (l : Str) : Json := Json.str (String.ofList l)
def jOptNat : Option Nat → Json := jOpt jNat

def jTriple (v : Str × Option Nat × Option Nat) : Json :=
  Json.arr #[jStr v.1, jOptNat v.2.1, jOptNat v.2.2]

/-- compact outcome: the value, or the string `"E"` -/
def jOutcome {α} (f : α → Json) : Except Err α → Json
  | .ok a => f a
  | .error _ => Json.str "E"

def getStrs (j : Json) (k : String) : R (List String) := fld j k >>= listOf strOf

/-- numeral given in parts: integer digits (may contain commas), optional fraction digits, unit text -/
structure NumParts where
  int : Str
  frac : Option Str
  unit : Str

def numPartsOf (j : Json) : R NumParts := do
  let i ← getStr j "int"
  let f ← fld j "frac" >>= optOf strOf
  let u ← getStr j "unit"
  return ⟨i.toList, f.map String.toList, u.toList⟩

def NumParts.text (p : NumParts) : Str :=
  p.int ++ (match p.frac with | some f => '.' :: f | none => []) ++ p.unit

/-- L0 meaning of the parts (none when the parts do not denote an integer) -/
def NumParts.meaning (p : NumParts) : Option Nat :=
  let i := p.int.filter (· != ',')
  let f := p.frac.getD []
  if i = [] ∨ !(i.all isDigit) ∨ !(f.all isDigit) then none else
  if p.unit = [] then (if p.frac.isSome then none else some (natOfDigits i))
  else match unitExp (p.unit.map upper) with
    | some u => if f.length ≤ u then some (denote i f u) else none
    | none => none

def regOf (j : Json) : R Reg :=
  match j with
  | .str s => pure (.str s.toList)
  | _ => do
    match ← arrOf j with
    | [c, a, b] => return .triple (← strOf c).toList (← optOf intOf a) (← optOf intOf b)
    | _ => throw "region: expected string or [chrom,start,end]"

def sizesOf (j : Json) : R (Option (List (Str × Nat))) :=
  optOf (listOf fun p => do
    match ← arrOf p with
    | [k, v] => return ((← strOf k).toList, ← natOf v)
    | _ => throw "chromsizes: expected [[name,len],…]") j

def handle : Handler := fun op a =>
  match op with
  | "C19.region_batch" => some do
      let ss ← getStrs a "strings"
      return Json.mkObj [("results", jList (fun (s : String) =>
        let l := s.toList
        Json.arr #[jOutcome jTriple (parseRegionString l),
                   jOpt jTriple (strictRegion l),
                   jOpt (fun (r : Refusal) => Json.str r.name) (refusedClass l)]) ss)]
  | "C19.humanized_batch" => some do
      let ss ← getStrs a "strings"
      return Json.mkObj [("results", jList (fun (s : String) =>
        let l := s.toList
        Json.arr #[jOutcome jNat (parseHumanized l), jOptNat (numeralValue l)]) ss)]
  | "C19.errclass" => some do
      let s ← getStr a "s"
      let fn ← getStr a "fn"
      let e : Option Err := match fn with
        | "parse_humanized" => (match parseHumanized s.toList with | .error e => some e | .ok _ => none)
        | "parse_cooler_uri" => (match parseCoolerUri s.toList with | .error e => some e | .ok _ => none)
        | _ => (match parseRegionString s.toList with | .error e => some e | .ok _ => none)
      return Json.mkObj [("err", jOpt (fun (e : Err) => Json.str e.name) e)]
  | "C19.tokenize" => some do
      let s ← getStr a "s"
      return Json.mkObj [("tokens", jList (fun (t : Tok) => Json.arr #[Json.str t.typ.name, jStr t.text])
        (tokenize s.toList))]
  | "C19.numeral" => some do
      let p ← numPartsOf a
      let t := p.text
      return Json.mkObj [("text", jStr t), ("model", jOutcome jNat (parseHumanized t)),
        ("l0", jOptNat p.meaning), ("l0_recognised", jOptNat (numeralValue t))]
  | "C19.region" => some do
      let c ← getStr a "chrom"
      let pa ← fld a "start" >>= numPartsOf
      let pb ← fld a "end" >>= optOf numPartsOf
      let t := c.toList ++ ':' :: pa.text ++ '-' :: (match pb with | some p => p.text | none => [])
      let l0 : Option (Str × Option Nat × Option Nat) :=
        match pa.meaning, pb with
        | some x, none => some (c.toList, some x, none)
        | some x, some p => (match p.meaning with
            | some y => if x ≤ y then some (c.toList, some x, some y) else none
            | none => none)
        | none, _ => none
      return Json.mkObj [("text", jStr t), ("model", jOutcome jTriple (parseRegionString t)),
        ("l0", jOpt jTriple l0), ("l0_recognised", jOpt jTriple (strictRegion t)),
        ("refused", jOpt (fun (r : Refusal) => Json.str r.name) (refusedClass t))]
  | "C19.format" => some do
      let c := (← getStr a "chrom").toList
      let s ← getNat a "start"
      let e ← getOptNat a "end"
      let t := match e with | some e => formatRegion c s e | none => formatRegionOpen c s
      let hyp : Bool := decide (c ≠ []) && decide (strip c = c) && !(c.any (· == ':')) &&
        (match e with | some e => decide (s ≤ e) | none => true)
      return Json.mkObj [("text", jStr t), ("model", jOutcome jTriple (parseRegionString t)),
        ("l0", jTriple (c, some s, e)), ("hyp", Json.bool hyp),
        ("l0_recognised", jOpt jTriple (strictRegion t))]
  | "C19.parse_region" => some do
      let reg ← fld a "reg" >>= regOf
      let cs ← fld a "chromsizes" >>= sizesOf
      let r := parseRegion reg cs
      -- L0 contract of an accepted region: 0 ≤ start ≤ end ≤ length of a known chromosome
      let contract : Bool := match r with
        | .ok (c, s, e) => decide (0 ≤ s ∧ s ≤ e) && (match cs with
            | some m => (match lookup m c with | some L => decide (e ≤ (L : Int)) | none => false)
            | none => true)
        | .error _ => true
      return Json.mkObj [("model", jOutcome (fun (v : Str × Int × Int) =>
          Json.arr #[jStr v.1, jInt v.2.1, jInt v.2.2]) r), ("contract", Json.bool contract)]
  | "C19.uri" => some do
      let s := (← getStr a "s").toList
      return Json.mkObj [("model", jOutcome (fun (v : Str × Str) => Json.arr #[jStr v.1, jStr v.2])
        (parseCoolerUri s)), ("has_dc", Json.bool (hasDC s))]
  | "C19.uri_parts" => some do
      let f := (← getStr a "file").toList
      let g := (← getStr a "group").toList
      -- hypotheses of `uri_slash`: no `::` in `f:` and none in `g`; `g` does not start with `/`
      let hyp := !(hasDC (f ++ [':'])) && !(hasDC g) && g.head? != some '/'
      let outc := jOutcome (fun (v : Str × Str) => Json.arr #[jStr v.1, jStr v.2])
      let bare := f ++ [':', ':'] ++ g
      let slash := f ++ [':', ':', '/'] ++ g
      return Json.mkObj [("hyp", Json.bool hyp),
        ("bare", jStr bare), ("slash", jStr slash),
        ("model_bare", outc (parseCoolerUri bare)), ("model_slash", outc (parseCoolerUri slash)),
        ("model_file_only", outc (parseCoolerUri f)),
        ("l0", Json.arr #[jStr f, jStr ('/' :: g)]), ("l0_file_only", Json.arr #[jStr f, jStr ['/']])]
  | "C19.digits" => some do
      let n ← getNat a "n"
      let s ← getStr a "s"
      return Json.mkObj [("digits", jStr (digitsOf n)), ("nat", jNat (natOfDigits s.toList)),
        ("all_digits", Json.bool (s.toList.all isDigit))]
  | "C19.chars" => some do
      -- character classes of the model, for the constants check
      let cs := (List.range 128).map Char.ofNat
      let pick (p : Char → Bool) := jNats ((cs.filter p).map Char.toNat)
      return Json.mkObj [("space", pick isSpace), ("letter", pick isLetter), ("digit", pick isDigit),
        ("newline", pick isNewline), ("upper", jNats (cs.map fun c => (upper c).toNat))]
  | _ => none

end Cooler.Drv.C19
