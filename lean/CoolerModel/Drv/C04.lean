import CoolerModel.Drv.JsonUtil
import CoolerModel.Model.Extent
open Lean
namespace Cooler.Drv.C04
open Cooler Cooler.Drv

def tripleOf (j : Json) : R (Nat × Nat × Nat) := do
  match ← listOf natOf j with
  | [a, b, c] => return (a, b, c)
  | _ => throw "region: expected [chrom,start,end]"

def pairOf (j : Json) : R (Nat × Nat) := do
  match ← listOf natOf j with
  | [a, b] => return (a, b)
  | _ => throw "pair: expected [a,b]"

def quadOf (j : Json) : R (Nat × Nat × Nat × Nat) := do
  match ← listOf natOf j with
  | [a, b, c, d] => return (a, b, c, d)
  | _ => throw "box: expected [lo1,hi1,lo2,hi2]"

def jExt (r : Int × Nat) : Json := Json.arr #[jInt r.1, jNat r.2]
def jPair (r : Nat × Nat) : Json := Json.arr #[jNat r.1, jNat r.2]

/-- one observation of the implementation, judged by the L0 verdicts of `Model/Extent.lean`, evaluated through their
one-pass forms (`C04.runOkF_eq`, `selOkF_eq`, `offsetOkF_eq`, `pxSelOkF_eq`: equal to `runOk`, `selOk`, `offsetOk`,
`pxSelOk` on every input; linear instead of quadratic in the number of bins) -/
def judge (bins : BinTable) (ps : Pixels) (o : Json) : R Bool := do
  let kind ← getStr o "k"
  let c ← getNat o "c"
  let s ← getNat o "s"
  let e ← getNat o "e"
  match kind with
  | "ext" =>
      -- a negative upper end (e.g. a wrapped machine integer) is not a bin id: verdict false
      let hi ← getInt o "hi"
      return decide (0 ≤ hi) && runOkF bins c s e (← getInt o "lo") hi.toNat
  | "ids" => return selOkF bins c s e (← getNats o "ids")
  | "off" => return offsetOkF bins c s e (← getInt o "o")
  | "px" => return pxSelOkF bins ps c s e (← getPixels o "rows")
  | _ => throw s!"judge: unknown kind {kind}"

def handle : Handler := fun op a =>
  match op with
  | "C04.table" => some do
      -- one bin table, a list of regions: L0 (`overlapping`), L1 (`regionToExtent` with the model's own
      -- `getBinsize`, `gsFetchAbs`), and the theorems re-evaluated (`ok`)
      let bins ← getBins a "bins"
      let n ← getNat a "nchroms"
      let regions ← fld a "regions" >>= listOf tripleOf
      -- `brief` (tables with 10^5 bins): leave the list of overlapping ids out of the answer
      let brief := getBoolD a "brief" false
      let bs := getBinsize bins
      let offs := chromOffsets bins n
      let starts := bins.map Bin.start
      let valid := validSegmentationB bins
      let res := regions.map fun (c, s, e) =>
        let l1 := regionToExtent bins bs c s e
        let gs := gsFetchAbs bins c s e
        let idx := regionToExtentIdx offs starts bs c s e
        let ok := runOkF bins c s e l1.1 l1.2 && selOkF bins c s e (runIds gs.1 gs.2)
          && offsetOkF bins c s e l1.1 && decide (idx = l1)
        Json.mkObj ((if brief then [] else [("l0", jNats (overlappingF bins c s e))]) ++ [("l1", jExt l1), ("gs", jPair gs),
          ("ok", Json.bool ok)])
      return Json.mkObj [
        ("valid", Json.bool valid), ("binsize", jOpt jNat bs), ("chrom_offsets", jNats offs),
        ("lens", jNats ((List.range n).map fun c => lastStop (groupOf bins c))),
        ("regions", Json.arr res.toArray)]
  | "C04.judge" => some do
      let bins ← getBins a "bins"
      let ps ← getPixels a "pixels"
      let obs ← fld a "obs" >>= arrOf
      let vs ← obs.mapM (judge bins ps)
      return Json.arr (vs.map Json.bool).toArray
  | "C04.explain" => some do
      let bins ← getBins a "bins"
      let ps ← getPixels a "pixels"
      let (c, s, e) ← fld a "region" >>= tripleOf
      let bs := getBinsize bins
      return Json.mkObj [
        ("overlapping", jNats (overlappingF bins c s e)),
        ("containing_position", jNats (containingF bins c s)),
        ("model_binsize", jOpt jNat bs),
        ("model_extent", jExt (regionToExtent bins bs c s e)),
        ("model_extent_variable_path", jExt (regionToExtent bins none c s e)),
        ("model_gs_fetch", jPair (gsFetchAbs bins c s e)),
        ("pixels_of_overlapping", jPixels (pxOfBins ps (overlappingF bins c s e)))]
  | "C04.unit" => some do
      -- `_region_to_extent` on the stored columns, bin size as given
      let offs ← getNats a "chrom_offset"
      let starts ← getNats a "starts"
      let bs ← getOptNat a "binsize"
      let qs ← fld a "queries" >>= listOf tripleOf
      return Json.arr (qs.map fun (c, s, e) => jExt (regionToExtentIdx offs starts bs c s e)).toArray
  | "C04.fixed" => some do
      let off ← getNat a "off"
      let b ← getNat a "b"
      let qs ← fld a "queries" >>= listOf pairOf
      return Json.arr (qs.map fun (s, e) => jPair (extentFixed off b s e)).toArray
  | "C04.matrix" => some do
      let ps ← getPixels a "pixels"
      let symm ← getBool a "symm"
      let boxes ← fld a "boxes" >>= listOf quadOf
      return Json.arr (boxes.map fun (a, b, c, d) =>
        jList jInts (specDense symm ps (fetchBox (a, b) (c, d)))).toArray
  | "C04.pixels" => some do
      -- L1: rows `bin1_offset[lo] : bin1_offset[hi]` of the pixel table (index as it must be: `csrIndex`)
      let ps ← getPixels a "pixels"
      let n ← getNat a "n"
      let rs ← fld a "ranges" >>= listOf pairOf
      let offs := csrIndex ps n
      return Json.arr (rs.map fun (lo, hi) =>
        Json.mkObj [("range", jPair (pixelsFetchRange offs lo hi)), ("rows", jPixels (pixelsFetch ps offs lo hi))]).toArray
  | "C04.parse" => some do
      let lens ← getNats a "lens"
      let qs ← fld a "queries" >>= arrOf
      let out ← qs.mapM fun q => do
        match ← arrOf q with
        | [c, s, e] =>
          let c ← optOf natOf c
          let s ← optOf intOf s
          let e ← optOf intOf e
          pure (jExcept (fun (r : Nat × Nat × Nat) => jNats [r.1, r.2.1, r.2.2]) (regionOfTriple lens c s e))
        | _ => throw "parse: expected [cid|null, start|null, end|null]"
      return Json.arr out.toArray
  | _ => none

end Cooler.Drv.C04
