import CoolerModel.Drv.JsonUtil
import CoolerModel.Model.CSR
open Lean
namespace Cooler.Drv.C03
open Cooler Cooler.Drv

def boxOf (j : Json) : R Box := do
  match ← listOf natOf j with
  | [a, b, c, d] => return ⟨a, b, c, d⟩
  | _ => throw "box: expected [i0,i1,j0,j1]"

def jBox (b : Box) : Json := jNats [b.i0, b.i1, b.j0, b.j1]

def pxLe (p q : Px) : Bool :=
  p.i < q.i || (p.i == q.i && (p.j < q.j || (p.j == q.j && p.v ≤ q.v)))

def sortPx (l : Pixels) : Pixels := (l.toArray.qsort pxLe).toList

def spanOf (j : Json) : R (Nat × Nat) := do
  match ← listOf natOf j with
  | [a, b] => return (a, b)
  | _ => throw "span: expected [lo,hi]"

def handle : Handler := fun op a =>
  match op with
  | "C03.query" => some do
      -- store + window → L0 (spec entries, dense) and L1 (model engine with its own spans)
      let ps ← getPixels a "pixels"
      let n ← getNat a "n"
      let symm ← getBool a "symm"
      let b ← fld a "box" >>= boxOf
      let offs := csrIndex ps n
      let spec := specWindow symm ps b
      let l1 : Option Pixels :=
        if symm then queryFill ps offs rowSpans b else some (queryDirect ps offs b (rowSpans b))
      let l1sorted := l1.map sortPx
      let agree := match l1sorted with
        | some o => decide (o = sortPx spec)
        | none => false
      let tasks := (fillLowerTasks b).map fun ts => ts.length
      return Json.mkObj [
        ("spec", jPixels (sortPx spec)),
        ("spec_stored_order", jPixels (ps.filter (inBox b))),
        ("dense", jList jInts (specDense symm ps b)),
        ("l1_agrees", Json.bool agree),
        ("l1_dense_agrees", Json.bool (match l1 with | some o => decide (denseOf o b = specDense symm ps b) | none => false)),
        ("ntasks", jOpt jNat tasks),
        ("transposed", Json.bool (decide (b.i1 > b.j1))),
        ("valid", Json.bool (strictSortedB ps && inRangeB n ps && (!symm || triuB ps)))]
  | "C03.windows" => some do
      -- batch: every window of [0,n]^4 (or the listed ones) for one store
      let ps ← getPixels a "pixels"
      let n ← getNat a "n"
      let symm ← getBool a "symm"
      let boxes ← fld a "boxes" >>= listOf boxOf
      let offs := csrIndex ps n
      let res := boxes.map fun b =>
        let spec := specWindow symm ps b
        let l1 : Option Pixels :=
          if symm then queryFill ps offs rowSpans b else some (queryDirect ps offs b (rowSpans b))
        let ok := match l1 with
          | some o => decide (sortPx o = sortPx spec) && decide (denseOf o b = specDense symm ps b)
          | none => false
        Json.mkObj [("spec", jPixels (sortPx spec)), ("stored", jPixels (ps.filter (inBox b))),
          ("dense", jList jInts (specDense symm ps b)), ("l1_ok", Json.bool ok)]
      return Json.arr res.toArray
  | "C03.csr_read" => some do
      let ps ← getPixels a "pixels"
      let offs ← getNats a "offs"
      let b ← fld a "box" >>= boxOf
      let s0 ← getNat a "s0"
      let s1 ← getNat a "s1"
      let reflect ← getBool a "reflect"
      return jPixels (csrRead ps offs b s0 s1 reflect)
  | "C03.valid_spans" => some do
      let offs ← getNats a "offs"
      let b ← fld a "box" >>= boxOf
      let spans ← fld a "spans" >>= listOf spanOf
      return Json.mkObj [("valid", Json.bool (validSpans offs b spans))]
  | "C03.tasks" => some do
      let b ← fld a "box" >>= boxOf
      return jOpt (jList fun (t : Task) => Json.arr #[Json.bool t.1, jBox t.2]) (fillLowerTasks b)
  | _ => none

end Cooler.Drv.C03
