import CoolerModel.Drv.JsonUtil
import CoolerModel.Model.Create
open Lean
namespace Cooler.Drv.C01
open Cooler Cooler.Drv Cooler.Create

def handle : Handler := fun op a =>
  match op with
  | "C01.array_loader" => some do
      let A ← fld a "A" >>= listOf (listOf intOf)
      let c ← getNat a "c"
      return Json.mkObj [("chunks", jList jPixels (arrayLoader A c)), ("spec", jPixels (triuNonzero A))]
  | "C01.frame" => some do
      let ps ← getPixels a "pixels"
      return Json.mkObj [("sorted", jPixels (sortByKey ps))]
  | "C01.checked_write" => some do
      let signed ← getBool a "signed"
      let bits ← getNat a "bits"
      let vs ← fld a "values" >>= listOf intOf
      return Json.mkObj [("stored", jOpt (jList jInt) (checkedWrite signed bits vs)),
        ("unchecked", jList jInt (vs.map (clipInt signed bits)))]
  | "C01.json_literal" => some do
      -- variant oracle of known finding D16: does the string parse as a JSON document, and to what
      let s ← getStr a "s"
      match Json.parse s with
      | .ok j => return Json.mkObj [("parses", Json.bool true), ("value", j)]
      | .error _ => return Json.mkObj [("parses", Json.bool false)]
  | _ => none

end Cooler.Drv.C01
