import CoolerModel.Drv.JsonUtil
import CoolerModel.Model.Create
import CoolerModel.Model.Unordered
open Lean
namespace Cooler.Drv.C01
open Cooler Cooler.Drv Cooler.Create

def handle : Handler := fun op a =>
  match op with
  | "C01.array_loader" => some do
      let A ← fld a "A" >>= listOf (listOf intOf)
      let c ← getNat a "c"
      return Json.mkObj [("chunks", jList jPixels (arrayLoader A c)), ("spec", jPixels (triuNonzero A))]
  | "C01.frame" => some do
      let ps ← getPixels a "pixels"
      return Json.mkObj [("sorted", jPixels (sortByKey ps))]
  | "C01.checked_write" => some do
      let signed ← getBool a "signed"
      let bits ← getNat a "bits"
      let vs ← fld a "values" >>= listOf intOf
      return Json.mkObj [("stored", jOpt (jList jInt) (checkedWrite signed bits vs)),
        ("unchecked", jList jInt (vs.map (clipInt signed bits)))]
  | "C01.unordered" => some do
      -- an iterable of chunks given without `ordered=True`: the external-sort path (one merge pass, or two over the
      -- given grouping) and its L0 (the key-sorted records: theorems unordered_eq_frame, unordered_roundtrip)
      let chunks ← fld a "chunks" >>= listOf (listOf pxOf)
      let edges ← fld a "edges" >>= optOf (listOf natOf)
      return Json.mkObj [("stored", jPixels (Unordered.createFromUnordered chunks edges)),
        ("sorted", jPixels (sortByKey chunks.flatten)),
        ("edges_valid", Json.bool (match edges with | none => true | some es => Unordered.validEdges chunks.length es))]
  | "C01.window" => some do
      -- L0 of the full-matrix view on windows, evaluated on the records handed in (for a large store: the records
      -- touching the window, theorems specWindow_local / specDense_local)
      let ps ← getPixels a "pixels"
      let symm ← getBool a "symm"
      let boxes ← fld a "boxes" >>= listOf (fun j => do
        match ← listOf natOf j with
        | [i0, i1, j0, j1] => return (⟨i0, i1, j0, j1⟩ : Box)
        | _ => throw "box: four naturals expected")
      return jList (fun (b : Box) => Json.mkObj [("spec", jPixels (specWindow symm ps b)),
        ("dense", jList jInts (specDense symm ps b))]) boxes
  | "C01.json_literal" => some do
      -- variant oracle of known finding D16: does the string parse as a JSON document, and to what
      let s ← getStr a "s"
      match Json.parse s with
      | .ok j => return Json.mkObj [("parses", Json.bool true), ("value", j)]
      | .error _ => return Json.mkObj [("parses", Json.bool false)]
  | _ => none

end Cooler.Drv.C01
