import CoolerModel.Drv.JsonUtil
import CoolerModel.Model.FileModel
open Lean
namespace Cooler.Drv.C15
open Cooler Cooler.Drv Cooler.FileModel

def pathStr (p : Path) : String := "/" ++ "/".intercalate p

def jOutcome : Outcome → Json
  | .ok => Json.str "ok"
  | .err c => Json.mkObj [("err", Json.str c.name)]
  | .corner w => Json.mkObj [("corner", Json.str w)]

def variantOf (j : Json) : Variant :=
  ⟨getBoolD j "d4" false, getBoolD j "d5" false⟩

def modeOf (s : String) : R Mode :=
  match s with
  | "w" => pure .w
  | "a" => pure .a
  | "r+" => pure .rplus
  | _ => throw s!"mode {s}"

def uriOf (s : String) : R (String × Path) :=
  match parseCoolerUri s with
  | .ok r => pure r
  | .error _ => throw s!"bad uri {s}"

def opOf (j : Json) : R Op := do
  let k ← getStr j "op"
  match k with
  | "create" =>
    let (f, p) ← uriOf (← getStr j "uri")
    return .create f p (← modeOf (← getStr j "mode")) (← getNat j "content")
  | "note" => return .note (← getStr j "file") (← getStr j "value")
  | "cp" | "mv" | "ln" | "lns" =>
    let (sf, sp) ← uriOf (← getStr j "src")
    let (df, dp) ← uriOf (← getStr j "dst")
    let o := getBoolD j "overwrite" false
    match k with
    | "cp" => return .cp sf sp df dp o
    | "mv" => return .mv sf sp df dp o
    | "ln" => return .ln sf sp df dp false o
    | _ => return .ln sf sp df dp true o
  | _ => throw s!"unknown history op {k}"

def jListing : Listing → Json
  | .ok ps => Json.mkObj [("ok", jList (fun p => Json.str (pathStr p)) ps)]
  | .err c => Json.mkObj [("err", Json.str c.name)]
  | .cyclic => Json.str "cyclic"

def sumAttr (fs : FS) (f : String) (p : Path) : Option String :=
  match resolve fs f p with
  | some (g, P) => match lookupE fs g P with
    | some (.group _ a) => attrGet a "sum"
    | _ => none
  | none => none

/-- everything the correspondence observes about one file -/
def observe (fs : FS) (v : Variant) (f : String) (cands : List String) : Json :=
  let ex := (getFile fs f).isSome
  let l := listing fs v f
  let listed : List Path := match l with | .ok ps => ps | _ => []
  let candPaths := cands.map splitPath
  let readable := (listed ++ candPaths.filter (fun p => isCoolerSpec fs f p)).eraseDups
  let note : Option String := match lookupE fs f [] with
    | some (.group _ a) => attrGet a "note"
    | _ => none
  Json.mkObj [
    ("exists", Json.bool ex),
    ("list", jListing l),
    ("is", Json.mkObj (cands.map fun c => (c, Json.bool (isCooler fs f (splitPath c))))),
    ("read", Json.mkObj (readable.map fun p =>
      (pathStr p, Json.arr #[jOpt jNat (readCollection fs f p), jOpt Json.str (sumAttr fs f p)]))),
    ("note", jOpt Json.str note)]

/-! state digest for case generation (glue; decides only *which* histories are enumerated) -/

def renum (seen : List Nat) (o : Nat) : List Nat × Nat :=
  match seen.idxOf? o with
  | some i => (seen, i)
  | none => (seen ++ [o], seen.length)

def digestFile (h : H5File) : String := Id.run do
  let es := h.entries.toArray.qsort (fun a b => pathStr a.1 < pathStr b.1)
  let mut seen : List Nat := []
  let mut out := ""
  for (k, e) in es do
    let d := match e with
      | .group o a =>
        let (s', i) := renum seen o
        (s', s!"G{i}{a}")
      | .dataset c => (seen, s!"D{c}")
      | .soft t => (seen, s!"S{pathStr t}")
      | .ext g t => (seen, s!"X{g}:{pathStr t}")
    seen := d.1
    out := out ++ pathStr k ++ "=" ++ d.2 ++ ";"
  return out

def digest (fs : FS) : String :=
  let fl := fs.toArray.qsort (fun a b => a.1 < b.1)
  fl.foldl (fun acc p => acc ++ p.1 ++ "{" ++ digestFile p.2 ++ "}") ""

/-- breadth-first enumeration of the op-index sequences (length ≤ `depth`) that reach pairwise
distinct model states through state-changing, non-corner steps -/
def explore (v : Variant) (alphabet : Array Op) (depth : Nat) (init : FS) : Array (Array Nat) := Id.run do
  let mut seen : Std.HashSet String := {}
  seen := seen.insert (digest init)
  let mut frontier : Array (Array Nat × FS) := #[(#[], init)]
  let mut out : Array (Array Nat) := #[#[]]
  for _ in [0:depth] do
    let mut next : Array (Array Nat × FS) := #[]
    for (pre, fs) in frontier do
      for i in [0:alphabet.size] do
        let (fs', oc) := step v fs alphabet[i]!
        match oc with
        | .corner _ => pure ()
        | _ =>
          let d := digest fs'
          if !seen.contains d then
            seen := seen.insert d
            next := next.push (pre.push i, fs')
            out := out.push (pre.push i)
    frontier := next
  return out

def handle : Handler := fun op a =>
  match op with
  | "C15.run" => some do
      let ops ← arrOf (← fld a "ops")
      let files ← fld a "files" >>= listOf strOf
      let cands ← fld a "cands" >>= listOf strOf
      let from_ := match getNat a "observe_from" with | .ok n => n | .error _ => 0
      let mut fs : FS := []
      let mut out : Array Json := #[]
      let mut idx := 0
      for j in ops do
        let o ← opOf j
        let v := match fld j "v" with | .ok jv => variantOf jv | .error _ => Variant.spec
        let (fs', oc) := step v fs o
        fs := fs'
        if idx ≥ from_ then
          out := out.push (Json.mkObj [
            ("outcome", jOutcome oc),
            ("obs", Json.mkObj (files.map fun f => (f, observe fs' v f cands)))])
        else
          out := out.push (Json.mkObj [("outcome", jOutcome oc)])
        idx := idx + 1
      return Json.mkObj [("steps", Json.arr out)]
  | "C15.explore" => some do
      let init ← arrOf (← fld a "init")
      let alpha ← arrOf (← fld a "alphabet")
      let depth ← getNat a "depth"
      let mut fs : FS := []
      for j in init do
        fs := (step Variant.spec fs (← opOf j)).1
      let ops ← alpha.mapM opOf
      let r := explore Variant.spec ops.toArray depth fs
      return Json.mkObj [("prefixes", Json.arr (r.map (fun p => Json.arr (p.map jNat))))]
  | "C15.parse" => some do
      let s ← getStr a "s"
      return match parseCoolerUriStr s with
        | .ok (f, g) => Json.mkObj [("ok", Json.arr #[Json.str f, Json.str g]),
            ("components", jList Json.str (splitPath g))]
        | .error c => Json.mkObj [("err", Json.str c.name)]
  | "C15.constants" => some do
      return Json.mkObj [("MAGIC", Json.str MAGIC)]
  | _ => none

end Cooler.Drv.C15
