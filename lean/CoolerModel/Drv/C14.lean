import CoolerModel.Drv.JsonUtil
import CoolerModel.Model.Selectors
/-! Driver glue for C14 (JSON in → model result out; no property logic). -/
open Lean
namespace Cooler.Drv.C14
open Cooler Cooler.Drv Cooler.Tbl

/-- cell: integer ↦ number, string ↦ string, NaN ↦ null, float ↦ `{"f": repr}` -/
def valOf (j : Json) : R Val :=
  match j with
  | .null => pure .nan
  | .str s => pure (.str s)
  | .num _ => do return .int (← intOf j)
  | _ => do return .flt (← getStr j "f")

def jVal : Val → Json
  | .int i => jInt i
  | .str s => Json.str s
  | .flt r => Json.mkObj [("f", Json.str r)]
  | .nan => Json.null

def rowOf (j : Json) : R Row := listOf valOf j
def jRow (r : Row) : Json := jList jVal r

/-- encoding: `"int"`, `"other"`, `{"enum": [[name, code], …]}` -/
def encOf (j : Json) : R Enc :=
  match j with
  | .str "int" => pure .int
  | .str _ => pure .other
  | _ => do
    let items ← fld j "enum" >>= arrOf
    let d ← items.mapM fun it => do
      match ← arrOf it with
      | [a, b] => return ((← strOf a), (← intOf b))
      | _ => throw "enum item: expected [name, code]"
    return .enum d

/-- `{"cols": [[name, enc], …], "rows": [[cell, …], …]}` -/
def storedOf (j : Json) : R Stored := do
  let cols ← (← fld j "cols" >>= arrOf).mapM fun c => do
    match ← arrOf c with
    | [a, b] => return ((← strOf a), (← encOf b))
    | _ => throw "col: expected [name, enc]"
  let rows ← fld j "rows" >>= listOf rowOf
  return ⟨cols, rows⟩

def frameOf (j : Json) : R Frame := do
  return ⟨← fld j "cols" >>= listOf strOf, ← getInts j "index", ← fld j "rows" >>= listOf rowOf,
          getBoolD j "series" false⟩

def jFrame (f : Frame) : Json :=
  Json.mkObj [("cols", jList Json.str f.cols), ("index", jInts f.index), ("rows", jList jRow f.rows),
              ("series", Json.bool f.series)]

def jRes : Except Err Frame → Json := jExcept jFrame

/-- `null` / `"name"` / `[names]` -/
def fieldsOf (j : Json) : R Fields :=
  match j with
  | .null => pure .default
  | .str s => pure (.one s)
  | _ => do return .many (← listOf strOf j)

/-- `{"slice": [lo, hi]}`, `{"slice": [lo, hi, step]}` or `{"scalar": k}` -/
def rowKeyOf (j : Json) : R RowKey :=
  match fld j "scalar" with
  | .ok k => do return .scalar (← intOf k)
  | .error _ => do
    match ← fld j "slice" >>= arrOf with
    | [a, b] => return .slice (← optOf intOf a) (← optOf intOf b) none
    | [a, b, c] => return .slice (← optOf intOf a) (← optOf intOf b) (← optOf intOf c)
    | _ => throw "slice: expected [lo, hi] or [lo, hi, step]"

def jPair (p : Int × Int) : Json := Json.arr #[jInt p.1, jInt p.2]

/-- is the key in the property's domain: slice bounds `None` or `≥ -n` (bounds beyond the end are
clipped like Python slices), not reversed, step 1; scalar in `[-n, n)` -/
def inDomain (n : Nat) : RowKey → Bool
  | .slice lo hi step =>
    decide (step = none ∨ step = some 1) && decide (InDomW n lo) && decide (InDomW n hi) &&
      decide ((pySliceIndices n lo hi).1 ≤ (pySliceIndices n lo hi).2)
  | .scalar k => decide (-(n : Int) ≤ k) && decide (k < (n : Int))

/-- the narrower domain `[-n, n] ∪ None` on which `_process_slice` itself equals `slice.indices` -/
def inNarrow (n : Nat) : RowKey → Bool
  | .slice lo hi _ => decide (InDom n lo) && decide (InDom n hi)
  | .scalar _ => false

def srcOf (a : Json) : R Src := do
  let t ← fld a "table" >>= storedOf
  match ← getStr a "src" with
  | "chroms" => return .chroms t
  | "bins" => return .bins t (← fld a "names" >>= listOf strOf)
  | "pixels" =>
    let join := getBoolD a "join" false
    let b ← if join then fld a "bins" >>= storedOf else pure ⟨[], []⟩
    return .pixels t b join
  | s => throw s!"unknown src {s}"

/-- L0 of a selection: the whole default-column table, projected, then the row range -/
def selectSpec (s : Selector) (fields : Fields) (k : RowKey) : Except Err Frame :=
  let base : Selector := { s with fields := .default }
  match base.slice 0 (s.nmax : Int) with
  | .error e => .error e
  | .ok whole =>
    let proj : Except Err Frame := match fields with
      | .default => .ok whole
      | .one f => (whole.project [f]).map fun fr => { fr with series := true }
      | .many fs => whole.project fs
    match proj, processKey s.nmax k with
    | .ok w, .ok (lo, hi) => .ok (framePart w lo.toNat hi.toNat)
    | .error e, _ => .error e
    | _, .error e => .error e

def formOf (j : Json) : R (Option (Option (Nat × Nat))) :=
  match j with
  | .str "whole" => pure (some none)
  | .str "selector" => pure none
  | _ => do
    match ← fld j "part" >>= arrOf with
    | [a, b] => return some (some ((← natOf a), (← natOf b)))
    | _ => throw "part: expected [b0, b1]"

def handle : Handler := fun op a =>
  match op with
  | "C14.process" => some do
      let n ← getNat a "n"
      let keys ← fld a "keys" >>= listOf rowKeyOf
      return jList (fun k =>
        let spec := match k with
          | .slice lo hi _ => let p := pySliceIndices n lo hi; Json.arr #[jNat p.1, jNat p.2]
          | .scalar _ => Json.null
        Json.mkObj [("model", jExcept jPair (processKey n k)), ("indices", spec),
                    ("in_domain", Json.bool (inDomain n k)), ("narrow", Json.bool (inNarrow n k))]) keys
  | "C14.select" => some do
      let src ← srcOf a
      let nmax ← getNat a "nmax"
      -- the column keys applied one after the other (`sel[k1][k2]…`), then every row key
      let colkeys ← fld a "colkeys" >>= listOf fieldsOf
      let keys ← fld a "keys" >>= listOf rowKeyOf
      let sel0 : Selector := ⟨src, .default, nmax⟩
      let sel := colkeys.foldl (fun s f => match f with
        | .one c => match selectorGetItem s (.col c) with | .ok (.inl s') => s' | _ => s
        | .many cs => match selectorGetItem s (.cols cs) with | .ok (.inl s') => s' | _ => s
        | .default => s) sel0
      return jList (fun k =>
        Json.mkObj [("model", jRes (sel.getRows k)), ("spec", jRes (selectSpec sel sel.fields k)),
                    ("tuple1", jRes (match selectorGetItem sel (.tuple [k]) with
                      | .ok (.inr f) => .ok f
                      | .ok (.inl _) => .error .other
                      | .error e => .error e)),
                    ("tuple2", jRes (match selectorGetItem sel (.tuple [k, k]) with
                      | .ok (.inr f) => .ok f
                      | .ok (.inl _) => .error .other
                      | .error e => .error e)),
                    ("in_domain", Json.bool (inDomain nmax k))]) keys
  | "C14.annotate" => some do
      let t ← fld a "table" >>= storedOf
      let names ← fld a "names" >>= listOf strOf
      let fields ← fld a "fields" >>= fieldsOf
      let px ← fld a "pixels" >>= frameOf
      let replace ← getBool a "replace"
      let forms ← fld a "forms" >>= listOf formOf
      let sel : BinsSel := ⟨t, names, fields, t.rows.length⟩
      -- `bins_df = c.bins()[fields][:]`
      let whole := sel.getRows (.slice none none none)
      return jList (fun form =>
        match whole with
        | .error e => Json.mkObj [("model", jErr e), ("spec", jErr e)]
        | .ok w =>
          let arg : BinsArg := match form with
            | none => .selector sel
            | some none => .frame w
            | some (some (b0, b1)) => .frame (framePart w b0 b1)
          Json.mkObj [("model", jRes (annotate px arg replace)),
                      ("spec", jRes (annotateSpec w.cols w.rows px replace))]) forms
  | "C14.project" => some do
      let f ← fld a "frame" >>= frameOf
      return match ← fld a "cols" >>= fieldsOf with
        | .one c => jRes ((f.project [c]).map fun fr => { fr with series := true })
        | .many cs => jRes (f.project cs)
        | .default => jRes (.ok f)
  | _ => none

end Cooler.Drv.C14
