import CoolerModel.Drv.JsonUtil
import CoolerModel.Model.Balanced
open Lean
namespace Cooler.Drv.C12
open Cooler Cooler.Bal Cooler.Drv

/-! Driver for C12: the model of `Model/Balanced.lean` instantiated at `α := Float` (IEEE-754
binary64; `*` and `/` correctly rounded).  Floats travel as the 16-digit big-endian hex of their bit
pattern, any NaN as `"nan"`. -/

def hexVal (c : Char) : R Nat :=
  if '0' ≤ c ∧ c ≤ '9' then pure (c.toNat - '0'.toNat)
  else if 'a' ≤ c ∧ c ≤ 'f' then pure (c.toNat - 'a'.toNat + 10)
  else if 'A' ≤ c ∧ c ≤ 'F' then pure (c.toNat - 'A'.toNat + 10)
  else throw s!"bad hex digit {c}"

def floatOf (j : Json) : R Float := do
  let s ← strOf j
  if s == "nan" then return Float.ofBits 0x7ff8000000000000
  if s.length != 16 then throw s!"float: expected 16 hex digits, got {s}"
  let n ← s.toList.foldlM (fun acc c => do return acc * 16 + (← hexVal c)) 0
  return Float.ofBits n.toUInt64

def hexDigit (n : Nat) : Char := if n < 10 then Char.ofNat ('0'.toNat + n) else Char.ofNat ('a'.toNat + n - 10)

def jFloat (x : Float) : Json :=
  if x.isNaN then Json.str "nan"
  else
    let b := x.toBits.toNat
    Json.str (String.ofList ((List.range 16).map fun k => hexDigit ((b >>> (4 * (15 - k))) % 16)))

/-- the code's arithmetic on float64 with an integer field (`count`): `a * b`, `1 / a`, int → float64 -/
def floatOpsInt : Ops Int Float := ⟨fun a b => a * b, fun a => 1.0 / a, Float.ofInt⟩
/-- the same with a float64 field -/
def floatOpsFloat : Ops Float Float := ⟨fun a b => a * b, fun a => 1.0 / a, id⟩

def colsOf (j : Json) : R (Cols Float) := do
  (← arrOf j).mapM fun e => do
    match ← arrOf e with
    | [n, v] => return (← strOf n, ← listOf floatOf v)
    | _ => throw "cols: expected [name, values]"

def balanceOf (j : Json) : R Balance :=
  match j with
  | .bool false => pure .off
  | .bool true => pure .on
  | .str s => pure (.named s)
  | _ => throw "balance: expected bool or string"

def configOf (j : Json) : R (Balance × Option Bool) := do
  match ← arrOf j with
  | [b, d] => return (← balanceOf b, ← optOf boolOf d)
  | _ => throw "config: expected [balance, divisive_weights]"

def entryOf {ρ} (f : Json → R ρ) (j : Json) : R (Nat × Nat × ρ) := do
  match ← arrOf j with
  | [a, b, c] => return (← natOf a, ← natOf b, ← f c)
  | _ => throw "entry: expected [r,c,v]"

def jEntry (e : Nat × Nat × Float) : Json := Json.arr #[jNat e.1, jNat e.2.1, jFloat e.2.2]

def jRead {R B} (f : B → Json) : Except Err (Read R B) → Json
  | .ok (.raw _) => Json.mkObj [("raw", Json.bool true)]
  | .ok (.balanced x) => Json.mkObj [("ok", f x)]
  | .error e => jErr e

def win (a : Json) : R (Nat × Nat × Nat × Nat) := do
  match ← getNats a "win" with
  | [i0, i1, j0, j1] => return (i0, i1, j0, j1)
  | _ => throw "win: expected [i0,i1,j0,j1]"

/-- per configuration: model answer (L1) and, when the column exists, the L0 answer -/
def denseAll {ρ} (o : Ops ρ Float) (cols : Cols Float) (cfgs : List (Balance × Option Bool))
    (i0 i1 j0 j1 : Nat) (raw : List (List ρ)) : Json :=
  jList (fun (c : Balance × Option Bool) =>
    let m := coolerDense o cols c.1 c.2 i0 i1 j0 j1 raw
    let spec : Json := match c.1.column.bind (cols.lookup ·) with
      | some w => jList (jList (jOpt jFloat)) (denseSpec o w (resolveDivisive c.1 c.2) i0 j0 raw)
      | none => Json.null
    Json.mkObj [("model", jRead (jList (jList jFloat)) m), ("spec", spec)]) cfgs

def sparseAll {ρ} (o : Ops ρ Float) (cols : Cols Float) (cfgs : List (Balance × Option Bool))
    (i0 i1 j0 j1 : Nat) (raw : List (Nat × Nat × ρ)) : Json :=
  jList (fun (c : Balance × Option Bool) =>
    let m := coolerSparse o cols c.1 c.2 i0 i1 j0 j1 raw
    let spec : Json := match c.1.column.bind (cols.lookup ·) with
      | some w => jExcept (jList jEntry) (sparseSpec o w (resolveDivisive c.1 c.2) i0 i1 j0 j1 raw)
      | none => Json.null
    Json.mkObj [("model", jRead (jList jEntry) m), ("spec", spec)]) cfgs

def pixelsAll {ρ} (o : Ops ρ Float) (cols : Cols Float) (cfgs : List (Balance × Option Bool))
    (raw : List (Nat × Nat × ρ)) : Json :=
  jList (fun (c : Balance × Option Bool) =>
    let m := coolerPixels o cols c.1 c.2 raw
    let spec : Json := match c.1.column.bind (cols.lookup ·) with
      | some w => jExcept (jList jFloat) (pixelsSpec o w (resolveDivisive c.1 c.2) raw)
      | none => Json.null
    Json.mkObj [("model", jRead (jList jFloat) m), ("spec", spec)]) cfgs

/-- equality of observed float64 values: same bit pattern, any NaN = any NaN -/
def feq (a b : Float) : Bool := (a.isNaN && b.isNaN) || (!a.isNaN && !b.isNaN && a.toBits == b.toBits)

/-- the property's contract on an observed result (`form` = dense | sparse | pixels) -/
def contractOn {ρ} (o : Ops ρ Float) (rawOf : Json → R ρ) (a : Json) (w : List Float) (div : Bool) : R Bool := do
  let form ← getStr a "form"
  match form with
  | "dense" =>
      let (i0, _, j0, _) ← win a
      let raw ← fld a "raw" >>= listOf (listOf rawOf)
      let out ← fld a "out" >>= listOf (listOf floatOf)
      return denseOk o feq w div i0 j0 raw out
  | "sparse" =>
      let (i0, _, j0, _) ← win a
      let raw ← fld a "raw" >>= listOf (entryOf rawOf)
      let out ← fld a "out" >>= listOf (entryOf floatOf)
      return sparseOk o feq w div i0 j0 raw out
  | "pixels" =>
      let raw ← fld a "raw" >>= listOf (entryOf rawOf)
      let out ← fld a "out" >>= listOf floatOf
      return pixelsOk o feq w div raw out
  | _ => throw s!"contract: unknown form {form}"

def handle : Handler := fun op a =>
  match op with
  | "C12.contract" => some do
      let cols ← fld a "cols" >>= colsOf
      let (bal, dw) ← fld a "config" >>= configOf
      match bal.column.bind (cols.lookup ·) with
      | none => return Json.mkObj [("holds", Json.null)]
      | some w =>
        let div := resolveDivisive bal dw
        let ok ← if getBoolD a "rawfloat" false then contractOn floatOpsFloat floatOf a w div
                 else contractOn floatOpsInt intOf a w div
        return Json.mkObj [("holds", Json.bool ok)]
  | "C12.dump_contract" => some do
      let cols ← fld a "cols" >>= colsOf
      match cols.lookup "weight" with
      | none => return Json.mkObj [("holds", Json.null)]
      | some w =>
        let raw ← fld a "raw" >>= listOf (entryOf intOf)
        let out ← fld a "out" >>= listOf floatOf
        return Json.mkObj [("holds", Json.bool (pixelsOk floatOpsInt feq w false raw out))]
  | "C12.constants" => some do
      return Json.mkObj [("divisive_names", jList Json.str divisiveNames),
        ("default_column", jOpt Json.str Balance.on.column),
        ("default_divisive", jList (fun s => Json.arr #[Json.str s, Json.bool (resolveDivisive (.named s) none)])
          (← fld a "names" >>= listOf strOf)),
        ("default_divisive_true", Json.bool (resolveDivisive .on none))]
  | "C12.dense" => some do
      let cols ← fld a "cols" >>= colsOf
      let cfgs ← fld a "configs" >>= listOf configOf
      let (i0, i1, j0, j1) ← win a
      if getBoolD a "rawfloat" false then
        return denseAll floatOpsFloat cols cfgs i0 i1 j0 j1 (← fld a "raw" >>= listOf (listOf floatOf))
      else
        return denseAll floatOpsInt cols cfgs i0 i1 j0 j1 (← fld a "raw" >>= listOf (listOf intOf))
  | "C12.sparse" => some do
      let cols ← fld a "cols" >>= colsOf
      let cfgs ← fld a "configs" >>= listOf configOf
      let (i0, i1, j0, j1) ← win a
      if getBoolD a "rawfloat" false then
        return sparseAll floatOpsFloat cols cfgs i0 i1 j0 j1 (← fld a "raw" >>= listOf (entryOf floatOf))
      else
        return sparseAll floatOpsInt cols cfgs i0 i1 j0 j1 (← fld a "raw" >>= listOf (entryOf intOf))
  | "C12.pixels" => some do
      let cols ← fld a "cols" >>= colsOf
      let cfgs ← fld a "configs" >>= listOf configOf
      if getBoolD a "rawfloat" false then
        return pixelsAll floatOpsFloat cols cfgs (← fld a "raw" >>= listOf (entryOf floatOf))
      else
        return pixelsAll floatOpsInt cols cfgs (← fld a "raw" >>= listOf (entryOf intOf))
  | "C12.dump" => some do
      let cols ← fld a "cols" >>= colsOf
      let raw ← fld a "raw" >>= listOf (entryOf intOf)
      let spec : Json := match cols.lookup "weight" with
        | some w => jExcept (jList jFloat) (pixelsSpec floatOpsInt w false raw)
        | none => Json.null
      return Json.mkObj [("model", jExcept (jList jFloat) (dumpBalanced floatOpsInt cols raw)), ("spec", spec)]
  | "C12.float" => some do
      -- marshalling self-test: echo, product, reciprocal, int conversion
      let x ← fld a "x" >>= floatOf
      let y ← fld a "y" >>= floatOf
      let n ← getInt a "n"
      return Json.mkObj [("x", jFloat x), ("mul", jFloat (x * y)), ("inv", jFloat (1.0 / x)),
        ("ofint", jFloat (Float.ofInt n))]
  | _ => none

end Cooler.Drv.C12
