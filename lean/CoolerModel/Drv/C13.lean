import CoolerModel.Drv.JsonUtil
import CoolerModel.Model.CreateSteps
open Lean
namespace Cooler.Drv.C13
open Cooler Cooler.Drv Cooler.CreateSteps

def recOf (j : Json) : R Rec := do
  match ← arrOf j with
  | [a, b, c] => return (← intOf a, ← intOf b, ← intOf c)
  | _ => throw "record: expected [bin1,bin2,count]"

def chunkOf (j : Json) : R Chunk := listOf recOf j

def jRec (r : Rec) : Json := Json.arr #[jInt r.1, jInt r.2.1, jInt r.2.2]
def jChunk (c : Chunk) : Json := jList jRec c
def jPath (p : Path) : Json := jList Json.str p
def pathOf (j : Json) : R Path := listOf strOf j

def jValidated : Except Err Chunk → Json
  | .ok c => Json.mkObj [("ok", jChunk c)]
  | .error e => Json.mkObj [("err", Json.str e.name)]

def bools4 : List (Bool × Bool × Bool × Bool) :=
  [false, true].flatMap fun b => [false, true].flatMap fun t => [false, true].flatMap fun d =>
    [false, true].map fun e => (b, t, d, e)

def evOf (j : Json) : R Ev := do
  match j.getObjVal? "chunk" with
  | .ok c => return .chunk (← chunkOf c)
  | .error _ => return .raise

def modeOf (s : String) : R Mode :=
  match s with
  | "w" => pure .w
  | "a" => pure .a
  | "r+" => pure .rplus
  | _ => throw s!"mode {s}"

def cfgOf (j : Json) : R Cfg := do
  let target ← fld j "target" >>= pathOf
  let mode ← getStr j "mode" >>= modeOf
  let n ← getNat j "n"
  let symm ← getBool j "symm"
  let d : Cfg := { target := target, mode := mode, n := n, symm := symm }
  return { d with
    boundscheck := getBoolD j "boundscheck" true,
    triucheck := getBoolD j "triucheck" true,
    dupcheck := getBoolD j "dupcheck" true,
    ensureSorted := getBoolD j "ensure_sorted" false,
    infoOk := getBoolD j "info_ok" true,
    countLo := (match getInt j "count_lo" with | .ok v => v | .error _ => d.countLo),
    countHi := (match getInt j "count_hi" with | .ok v => v | .error _ => d.countHi) }

/-- a group of the initial file: `id` non-null = a complete collection with that content id -/
def groupOf (j : Json) : R (Path × Coll) := do
  let p ← fld j "path" >>= pathOf
  let fmt ← fld j "fmt" >>= optOf strOf
  let other ← fld j "other" >>= listOf (fun x => do
    match ← arrOf x with
    | [a, b] => return (← strOf a, ← natOf b)
    | _ => throw "attr: expected [name,id]")
  let id ← getOptNat j "id"
  let c : Coll := match id with
    | some k => { fmt := fmt, info := some k, other := other, chroms := some k, bins := some k,
                  pixels := some ⟨[], []⟩, indexes := some k }
    | none => { fmt := fmt, other := other }
  return (p, c)

def fsOf (j : Json) : R FS := optOf (listOf groupOf) j

def jOther (l : List (String × Nat)) : Json := jList (fun (a : String × Nat) => Json.arr #[Json.str a.1, jNat a.2]) l

def jColl (c : Coll) : Json :=
  Json.mkObj [
    ("fmt", jOpt Json.str c.fmt),
    ("info", Json.bool c.info.isSome),
    ("other", jOther c.other),
    ("chroms", Json.bool c.chroms.isSome),
    ("bins", Json.bool c.bins.isSome),
    ("indexes", Json.bool c.indexes.isSome),
    ("pixels", jOpt (fun (p : Pix) => Json.mkObj [
      ("ids", jList (fun (k : Int × Int) => Json.arr #[jInt k.1, jInt k.2]) p.ids),
      ("counts", jInts p.counts)]) c.pixels)]

def jFault : Option Fault → Json
  | none => Json.null
  | some (.err e) => Json.str e.name
  | some .os => Json.str "OSError"
  | some .iter => Json.str "iter"
  | some .type => Json.str "TypeError"

/-- number of steps executed before the run stopped -/
def stepsDone (cfg : Cfg) : List PStep → Sys → Nat
  | [], _ => 0
  | s :: ss, y =>
    match s.fails cfg y with
    | some _ => 0
    | none => 1 + stepsDone cfg ss (s.eff cfg y)

structure Stage where
  cfg : Cfg
  evs : List Ev
  kind : String
  inputsOk : Bool
  optsOk : Bool

def stageOf (a : Json) : R Stage := do
  let cfg ← fld a "cfg" >>= cfgOf
  let evs ← fld a "events" >>= listOf evOf
  let kind ← getStr a "pipeline"
  return { cfg := cfg, evs := evs, kind := kind, inputsOk := getBoolD a "inputs_ok" true,
           optsOk := getBoolD a "opts_ok" true }

/-- one creation call run on the file state `fs0`: the report, the file state after it, did it raise -/
def runStage (st : Stage) (fs0 : FS) : Json × FS × Bool :=
  let cfg := st.cfg
  let evs := st.evs
  let tcfg : Nat → Cfg := fun i => { cfg with target := [toString i], mode := .a }
  let chunksOf : List Ev → List Chunk := fun l => l.filterMap fun e => match e with | .chunk c => some c | .raise => none
  -- the final pass of unordered ingestion merges the (validated, hence as given) chunks: one aggregated stream
  let finalEvs : List Ev := match st.kind with
    | "unordered" => [.chunk (aggAll (chunksOf evs))]
    | _ => evs
  let pre : List PStep := match st.kind with
    | "unordered" => if st.optsOk then unorderedPre tcfg 0 evs else unorderedPreBadOpts tcfg evs
    | "producer" => producerPre st.inputsOk ++ optsPre st.optsOk
    | _ => optsPre st.optsOk
  let steps := pipeline pre cfg finalEvs
  let npre := pre.length
  let y0 : Sys := ⟨fs0, none⟩
  let (y, fault) := runP cfg steps y0
  let k := stepsDone cfg steps y0
  let fs := y.dest
  let was := isCooler fs0 cfg.target
  let now := isCooler fs cfg.target
  let listed := listCoolers fs
  let paths : List Path := match fs0 with | none => [] | some f => (f.map (·.1)).eraseDups
  let groups := paths.map fun p =>
    (p, footprint cfg.target p, decide (lookupFS fs p = lookupFS fs0 p), isCooler fs p)
  -- what the theorems predict (partial_not_cooler / pipeline_*, frame_*, complete_is_cooler,
  -- pipeline_dest_untouched, bad_metadata_never_completes, bad_opts_dest_untouched): a disagreement
  -- contradicts a proved statement
  let l0 :=
    (fault.isNone || was || (!now && !listed.contains cfg.target)) &&
    (cfg.mode == .w || groups.all fun (_, fp, same, _) => fp || same) &&
    (fault.isSome || now || fs0.any (fun f => (lookup f []).isNone)) &&
    (fault.isNone || k ≥ npre || decide (fs = fs0)) &&
    (cfg.infoOk || fault.isSome) &&
    (st.optsOk || (fault.isSome && decide (fs = fs0)))
  (Json.mkObj [
    ("fault", jFault fault),
    ("steps_total", jNat steps.length), ("steps_done", jNat k), ("steps_pre", jNat npre),
    ("dest_exists", Json.bool fs.isSome),
    ("was_cooler", Json.bool was),
    ("is_cooler", Json.bool now),
    ("listed", jList jPath listed),
    ("groups", jList (fun (x : Path × Bool × Bool × Bool) => Json.mkObj [
      ("path", jPath x.1), ("footprint", Json.bool x.2.1), ("unchanged", Json.bool x.2.2.1),
      ("is_cooler", Json.bool x.2.2.2)]) groups),
    ("target", jOpt jColl (lookupFS fs cfg.target)),
    ("root_other", jOpt (fun (c : Coll) => jOther c.other) (lookupFS fs [])),
    ("dest_untouched", Json.bool (decide (fs = fs0))),
    ("l0_ok", Json.bool l0)], fs, fault.isSome)

def handle : Handler := fun op a =>
  match op with
  | "C13.constants" => some do
      return Json.mkObj [("magic", Json.str MAGIC), ("tables", jList Json.str tableNames),
        ("count_lo", jInt ({ target := [], mode := .w, n := 0, symm := true } : Cfg).countLo),
        ("count_hi", jInt ({ target := [], mode := .w, n := 0, symm := true } : Cfg).countHi)]
  | "C13.validate_batch" => some do
      -- every chunk × the 16 flag combinations (boundscheck, triucheck, dupcheck, ensure_sorted) of
      -- `_validate_pixels`; `l0_ok` re-evaluates validate_accepts_iff_flags / the symm plumbing
      let n ← getNat a "n"
      let chunks ← fld a "chunks" >>= listOf chunkOf
      let res := chunks.map fun c => bools4.map fun (b, t, d, e) => validateCore n b t d e c
      let l0 := chunks.all fun c => bools4.all fun (b, t, d, e) =>
        [false, true].all fun symm =>
          let r := validatePixels n symm b t d e c
          let acc := match r with | .ok _ => true | .error _ => false
          (acc == acceptsSpec n symm b t d c) &&
          (match r, validateCore n b (t && symm) d e c with
            | .ok x, .ok y => x == y
            | .error _, .error _ => true
            | _, _ => false)
      return Json.mkObj [("results", jList (jList jValidated) res), ("l0_ok", Json.bool l0),
        ("flags", jList (fun (x : Bool × Bool × Bool × Bool) =>
          Json.arr #[Json.bool x.1, Json.bool x.2.1, Json.bool x.2.2.1, Json.bool x.2.2.2]) bools4)]
  | "C13.run" => some do
      let st ← stageOf a
      let fs0 ← fld a "fs" >>= fsOf
      return (runStage st fs0).1
  | "C13.run_seq" => some do
      -- several creations into ONE destination file, one after the other (zoomify levels, the cells of a
      -- scool): the run stops at the first stage that raises; its report is relative to the file as the
      -- completed earlier stages left it
      let stages ← fld a "stages" >>= listOf stageOf
      let fs0 ← fld a "fs" >>= fsOf
      let rec go (i : Nat) (fs : FS) : List Stage → Json
        | [] => Json.mkObj [("stage", Json.null), ("fault", Json.null), ("l0_ok", Json.bool true),
                            ("listed", jList jPath (listCoolers fs)), ("dest_untouched", Json.bool true),
                            ("was_cooler", Json.bool false), ("is_cooler", Json.bool false)]
        | st :: rest =>
          let (j, fs', failed) := runStage st fs
          if failed || rest.isEmpty then j.setObjVal! "stage" (jNat i) else go (i + 1) fs' rest
      return go 0 fs0 stages
  | _ => none

end Cooler.Drv.C13
