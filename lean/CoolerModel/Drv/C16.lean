import CoolerModel.Drv.JsonUtil
import CoolerModel.Drv.C03
import CoolerModel.Drv.C12
import CoolerModel.Model.TextIO
open Lean
namespace Cooler.Drv.C16
open Cooler Cooler.Drv Cooler.TextIO

/-! Driver for C16: `Model/TextIO.lean` at `α := Float` (float64; marshalling of floats as in the C12
driver: 16 hex digits of the bit pattern, any NaN as "nan").

Cells travel as JSON: integer → number, string → string, float → `{"f": "<hex>"}`. -/

abbrev F := Float

def floatOps : Bal.Ops Int F := Cooler.Drv.C12.floatOpsInt

def jVal : Val F → Json
  | .int n => jInt n
  | .str s => Json.str s
  | .num x => Json.mkObj [("f", Cooler.Drv.C12.jFloat x)]

def valOf (j : Json) : R (Val F) :=
  match j with
  | .str s => pure (.str s)
  | .num _ => do return .int (← intOf j)
  | .obj _ => do return .num (← fld j "f" >>= Cooler.Drv.C12.floatOf)
  | _ => throw "cell: expected number, string or {f: hex}"

def jRow (r : Row F) : Json := Json.arr (r.map fun c => jVal c.2).toArray
def jNamedRow (r : Row F) : Json := Json.arr (r.map fun c => Json.arr #[Json.str c.1, jVal c.2]).toArray

def extentOf (j : Json) : R (Option (Nat × Nat)) :=
  optOf (fun x => do
    match ← listOf natOf x with
    | [a, b] => return (a, b)
    | _ => throw "extent: expected [lo,hi]") j

def storeOf (a : Json) : R (Store F) := do
  let px ← getPixels a "pixels"
  let bins ← getBins a "bins"
  let fcols ← fld a "fcols" >>= Cooler.Drv.C12.colsOf
  let icols ← fld a "icols" >>= listOf (fun e => do
    match ← arrOf e with
    | [n, v] => return (← strOf n, ← listOf intOf v)
    | _ => throw "icols: expected [name, values]")
  return { chromNames := ← fld a "chrom_names" >>= listOf strOf
           chromLens := ← getNats a "chrom_lens"
           bins := bins
           fcols := fcols
           icols := icols
           extraOrder := ← fld a "extra_order" >>= listOf strOf
           px := px
           offs := csrIndex px bins.length
           symm := ← getBool a "symm" }

def optsOf (j : Json) : R DumpOpts := do
  return { header := getBoolD j "header" false
           fillLower := getBoolD j "fill_lower" false
           balanced := getBoolD j "balanced" false
           join := getBoolD j "join" false
           annotate := ← (match fld j "annotate" with
             | .ok x => optOf (listOf strOf) x
             | .error _ => pure none)
           oneBasedIds := getBoolD j "one_based_ids" false
           oneBasedStarts := getBoolD j "one_based_starts" false
           range := ← (match fld j "range" with | .ok x => extentOf x | .error _ => pure none)
           range2 := ← (match fld j "range2" with | .ok x => extentOf x | .error _ => pure none) }

/-- acceptable values of the `balanced` cell of a record: every product of the three factors (the
property fixes the factors, not the bracketing; C12 `products3`) -/
def balAlts (s : Store F) (o : DumpOpts) (p : Px) : List F :=
  if o.balanced then
    match s.fcols.lookup "weight" with
    | some w =>
      match w[p.i]?, w[p.j]? with
      | some a, some b => Bal.products3 floatOps (floatOps.ofRaw p.v) a b
      | _, _ => []
    | none => []
  else []

def jAnnotated (s : Store F) (o : DumpOpts) (ps : Pixels) : Json :=
  match mapO (annotateRow floatOps s o) ps with
  | none => Json.null
  | some rows => Json.arr ((rows.zip ps).map fun rp =>
      Json.mkObj [("c", jRow rp.1), ("alts", jList Cooler.Drv.C12.jFloat (balAlts s o rp.2))]).toArray

def tokOf (j : Json) : R (List (Val F)) := listOf valOf j

def loadOptsOf (j : Json) : R LoadOpts := do
  return { oneBased := getBoolD j "one_based" false, symm := getBoolD j "symm" true,
           duplex := getBoolD j "duplex" false }

def fieldsOf (j : Json) : R (List (String × Nat)) :=
  listOf (fun e => do
    match ← arrOf e with
    | [n, c] => return (← strOf n, ← natOf c)
    | _ => throw "field: expected [name, column]") j

def jParsed {β} (f : β → Json) : Except Err (List (String × β)) → Json
  | .ok l => Json.mkObj [("ok", Json.arr (l.map fun nv => Json.arr #[Json.str nv.1, f nv.2]).toArray)]
  | .error e => jErr e

/-- numpy dtype spellings the driver's `isDtype` accepts (checked against numpy by the `constants` check) -/
def dtypeNames : List String :=
  ["int", "float", "int8", "int16", "int32", "int64", "uint8", "uint16", "uint32", "uint64",
   "float32", "float64", "bool", "i4", "i8", "f4", "f8", "u1", "str", "object", "double", "single"]

def isDtype (cs : List Char) : Bool := dtypeNames.contains (String.ofList cs)

def jChars (cs : List Char) : Json := Json.str (String.ofList cs)

def jFieldSpec : Except FErr FieldSpec → Json
  | .ok f => Json.mkObj [("ok", Json.arr #[jChars f.name, jOpt jNat f.colnum, jOpt jChars f.dtype, jOpt jChars f.agg])]
  | .error .badParameter => Json.mkObj [("err", Json.str "BadParameter")]
  | .error .typeError => Json.mkObj [("err", Json.str "TypeError")]

def handle : Handler := fun op a =>
  match op with
  | "C16.dump" => some do
      -- one store, one region, many option sets
      let s ← storeOf a
      let optsList ← fld a "opts" >>= listOf optsOf
      let lib ← (match fld a "lib" with
        | .ok x => optOf (listOf pxOf) x
        | .error _ => pure none)
      let libFill ← (match fld a "lib_fill" with
        | .ok x => optOf (listOf pxOf) x
        | .error _ => pure none)
      let valid := strictSortedB s.px && inRangeB s.nbins s.px && (!s.symm || triuB s.px)
      let res := optsList.map fun o =>
        let b := bbox s.nbins o
        let out := engineOut s rowSpans o
        let spec : Pixels := if useFill s o then specWindow true s.px b else s.px.filter (inBox b)
        let l1ok := match out with
          | some x => if useFill s o then decide (Cooler.Drv.C03.sortPx x = Cooler.Drv.C03.sortPx spec) else decide (x = spec)
          | none => false
        let rowsEq :=
          (jOpt (jList jRow) (dumpRows floatOps s rowSpans o)).compress ==
            (jOpt (jList jRow) (out.bind (mapO (annotateRow floatOps s o)))).compress
        let libRows := if useFill s o then libFill else lib
        Json.mkObj [
          ("box", jNats [b.i0, b.i1, b.j0, b.j1]),
          ("use_fill", Json.bool (useFill s o)),
          ("refuses", Json.bool (dumpRefuses s o)),
          ("model", match out with | some x => jAnnotated s o x | none => Json.null),
          ("spec", jAnnotated s o (if useFill s o then Cooler.Drv.C03.sortPx spec else spec)),
          ("lib", match libRows with | some x => jAnnotated s o x | none => Json.null),
          ("columns", jList Json.str (dumpColumns o)),
          ("header", jOpt (jList Json.str) (dumpHeader s rowSpans o)),
          ("l1_ok", Json.bool (l1ok && rowsEq))]
      return Json.mkObj [("valid", Json.bool valid), ("results", Json.arr res.toArray)]
  | "C16.table" => some do
      let s ← storeOf a
      let t ← getStr a "table"
      let cols ← fld a "columns" >>= optOf (listOf strOf)
      let tb ← (match t with
        | "chroms" => pure Table.chroms
        | "bins" => pure Table.bins
        | _ => throw "table: chroms|bins")
      return Json.mkObj [("rows", jOpt (jList jNamedRow) (dumpTable s tb cols))]
  | "C16.read_fields" => some do
      let fields ← fld a "fields" >>= fieldsOf
      let rows ← fld a "rows" >>= listOf tokOf
      return Json.arr (rows.map fun row => Json.mkObj [
        ("model", jParsed jVal (readFields fields row)),
        ("legacy", jParsed jVal (readFieldsLegacy fields row)),
        ("pandas", jParsed jVal (pandasReadCols (fields.map (·.2)) (fields.map (·.1)) row))]).toArray
  | "C16.load" => some do
      let fmt ← getStr a "format"
      let o ← fld a "opts" >>= loadOptsOf
      let bins ← getBins a "bins"
      let contigs ← fld a "contigs" >>= listOf strOf
      let fields ← fld a "fields" >>= fieldsOf
      let values ← fld a "values" >>= listOf strOf
      let chunks ← fld a "chunks" >>= listOf (listOf tokOf)
      let one := fun (v : String) =>
        if fmt == "coo" then loadCoo o bins.length fields v chunks
        else loadBg2 o bins contigs fields v chunks
      let res := Bal.mapE (fun v => match one v with
        | .error e => .error e
        | .ok t => .ok (v, t)) values
      return (match res with
        | .error e => jErr e
        | .ok ts => Json.mkObj [("ok", Json.arr (ts.map fun vt => Json.arr #[Json.str vt.1, jPixels vt.2]).toArray)])
  | "C16.pairs" => some do
      let bins ← getBins a "bins"
      let contigs ← fld a "contigs" >>= listOf strOf
      let value ← fld a "value" >>= optOf strOf
      let po : PairsOpts := { zeroBased := getBoolD a "zero_based" false, symm := getBoolD a "symm" true,
                              duplex := getBoolD a "duplex" false }
      -- several layouts of the SAME records: each entry = (fields, chunks of rows)
      let layouts ← fld a "layouts" >>= listOf (fun e => do
        return (← fld e "fields" >>= fieldsOf, ← fld e "chunks" >>= listOf (listOf tokOf)))
      let jRes := fun (r : Except Err (Pixels × Pixels)) => match r with
        | .error e => jErr e
        | .ok (c, sm) => Json.mkObj [("ok", Json.mkObj [("count", jPixels c), ("sum", jPixels sm)])]
      let res := layouts.map fun (fc : List (String × Nat) × List (List (List (Val F)))) =>
        let l1 := cloadPairs po bins contigs fc.1 value fc.2
        let recs := Bal.mapE (pairsRec contigs fc.1 value) fc.2.flatten
        let l0 : Except Err (Pixels × Pixels) := match recs with
          | .error e => .error e
          | .ok rs => pairsSpec po bins rs
        let atLen := match recs with
          | .ok rs => Sanitize.atLength bins po.sanitize rs
          | .error _ => false
        Json.mkObj [("l1", jRes l1), ("l0", jRes l0), ("at_len", Json.bool atLen),
          ("valid_bins", Json.bool (validSegmentationB bins))]
      return Json.arr res.toArray
  | "C16.field_param" => some do
      let args ← fld a "args" >>= listOf strOf
      let ic ← getBool a "includes_colnum"
      let ia ← getBool a "includes_agg"
      return Json.arr (args.map fun s => jFieldSpec (parseFieldParam isDtype ic ia s.toList)).toArray
  | "C16.resolutions" => some do
      let cur ← getNat a "curres"
      let glen ← getNat a "genome_length"
      let items ← fld a "items" >>= listOf strOf
      let mx := maxRes glen
      return (match expandResolutionSpec cur mx (items.map String.toList) with
        | .error e => jErr e
        | .ok rs => Json.mkObj [("ok", jNats rs), ("levels", jNats (zoomLevels cur rs)), ("maxres", jNat mx)])
  | "C16.constants" => some do
      return Json.mkObj [
        ("dtype_names", jList Json.str dtypeNames),
        ("coo_fields", Json.arr ((cooFields).map fun fc => Json.arr #[Json.str fc.1, jNat fc.2]).toArray),
        ("bg2_fields", Json.arr ((bg2Fields).map fun fc => Json.arr #[Json.str fc.1, jNat fc.2]).toArray),
        ("pairs_fields", jList Json.str ((pairsFields 0 1 2 3 []).map (·.1))),
        ("id_cols", jList Json.str idCols), ("start_cols", jList Json.str startCols),
        ("coord_fields", jList Json.str coordFields),
        ("tile_dim", jNat 256)]
  | _ => none

end Cooler.Drv.C16
