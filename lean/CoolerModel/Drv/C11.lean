import CoolerModel.Drv.JsonUtil
import CoolerModel.Model.Split
open Lean
namespace Cooler.Drv.C11
open Cooler Cooler.Drv Cooler.Split

def jSpan (s : Nat × Nat) : Json := Json.arr #[jNat s.1, jNat s.2]
def jSpans (l : List (Nat × Nat)) : Json := jList jSpan l

def spanOf (j : Json) : R (Nat × Nat) := do
  match ← arrOf j with
  | [a, b] => return (← natOf a, ← natOf b)
  | _ => throw "span: expected [lo,hi]"
def getSpans (j : Json) (k : String) : R (List (Nat × Nat)) := fld j k >>= listOf spanOf

/-- one pipe function of `_balance.py`, over the exact integer carrier -/
def filterOf (j : Json) : R (Chunk → List Int → List Int) := do
  match ← getStr j "f" with
  | "binarize" => return binarize intOps
  | "zero_diags" => return zeroDiags intOps (← getNat j "n")
  | "zero_trans" => return zeroTrans intOps
  | "zero_cis" => return zeroCis intOps
  | "times" => return timesOuter intOps (← getInts j "vec")
  | s => throw s!"unknown filter {s}"

/-- a step of a process history: `{"write": uri, "data": k}` (content number `k`) or `{"run": uri}` -/
def stepOf (j : Json) : R (Step Nat) :=
  match fld j "write" with
  | .ok u => do return .write (← natOf u) (← getNat j "data")
  | .error _ => do return .run (← getNat j "run")

def handle : Handler := fun op a =>
  match op with
  | "C11.spans" => some do
      let nnz ← getNat a "nnz"
      let cs ← getOptNat a "chunksize"
      let r := spans nnz cs
      let cov := match r with
        | .ok sp => coversOnceB nnz sp 0 nnz
        | .error _ => false
      return Json.mkObj [("spans", jExcept jSpans r), ("covers", Json.bool cov),
        ("cis_chunk", jNat (cisChunk nnz cs)),
        ("split_default", jOpt jSpans (cs.map (splitDefaultSpans nnz)))]
  | "C11.partition" => some do
      let lo ← getNat a "lo"
      let hi ← getNat a "hi"
      let step ← getNat a "step"
      let sp := partition lo hi step
      return Json.mkObj [("model", jSpans sp), ("covers", Json.bool (coversOnceB (hi + step + 1) sp lo hi))]
  | "C11.covers" => some do
      -- the contract `CoversOnce n spans lo hi`, evaluated on spans the implementation produced
      let n ← getNat a "n"
      let sp ← getSpans a "spans"
      let lo ← getNat a "lo"
      let hi ← getNat a "hi"
      return Json.mkObj [("covers", Json.bool (coversOnceB n sp lo hi)),
        ("visits", jNats ((List.range n).map (visits sp))),
        ("visited", jNats (visited n sp))]
  | "C11.cis" => some do
      -- per chromosome: the pixel-row range `(plo, phi)` and the spans of the cis-only pass
      let chrom ← getNats a "chrom"
      let px ← getPixels a "pixels"
      let nchroms ← getNat a "nchroms"
      let cs ← getOptNat a "chunksize"
      let rows := (List.range nchroms).map fun c =>
        let r := chromPixelRange chrom px c
        Json.mkObj [("range", jSpan r), ("spans", jExcept jSpans (cisSpans px.length cs r.1 r.2))]
      return Json.arr rows.toArray
  | "C11.marginal" => some do
      -- the reduction of one balancing pass over `Int`: per-chunk results, reduced under the given
      -- order, and the marginal of the rows [lo:hi) in one piece (L0)
      let n ← getNat a "n"
      let chrom ← getNats a "chrom"
      let px ← getPixels a "pixels"
      let fs ← (fld a "filters" >>= listOf filterOf)
      let sp ← getSpans a "spans"
      let perm ← getNats a "perm"
      let lo ← getNat a "lo"
      let hi ← getNat a "hi"
      let chunks := run (fs ++ [marginalize intOps n]) (init intOps) (chunkget chrom px) sp
      return Json.mkObj [
        ("reduced", jInts (balanceReduce intOps n chrom px fs sp perm)),
        ("whole", jInts (wholeMarginal intOps n chrom px fs lo hi)),
        ("chunks", jList jInts chunks),
        ("covers", Json.bool (coversOnceB px.length sp lo hi))]
  | "C11.history" => some do
      -- which content each run step of a process reads: the one stored at its URI at that moment
      let steps ← (fld a "steps" >>= listOf stepOf)
      return Json.mkObj [("reads", jList (jOpt jNat) (observe id steps))]
  | "C11.chunk" => some do
      -- what `chunkgetter(clr)(span)` returns: the chromosome id of every bin and the pixel rows of the span
      let chrom ← getNats a "chrom"
      let px ← getPixels a "pixels"
      let c := chunkget chrom px (← (fld a "span" >>= spanOf))
      return Json.mkObj [("chrom", jNats c.chrom), ("pixels", jPixels c.pixels)]
  | _ => none

end Cooler.Drv.C11
