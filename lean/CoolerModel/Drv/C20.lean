import CoolerModel.Drv.JsonUtil
import CoolerModel.Model.Bins
open Lean
namespace Cooler.Drv.C20
open Cooler Cooler.Drv

def handle : Handler := fun op a =>
  match op with
  | "C20.binnify" => some do
      let sizes ← getNats a "sizes"
      let b ← getNat a "b"
      return Json.mkObj [("model", jBins (binnify sizes b)), ("spec", jBins (binnifySpecFrom 0 sizes b))]
  | "C20.regrid" => some do
      -- binnify with b0, read the sizes back from the table, binnify those with b (theorem binnify_regrid: = `direct`)
      let sizes ← getNats a "sizes"
      let b0 ← getNat a "b0"
      let b ← getNat a "b"
      let bins0 := binnify sizes b0
      let back := (getChromsizes bins0).map Prod.snd
      return Json.mkObj [("bins0", jBins bins0), ("spec0", jBins (binnifySpecFrom 0 sizes b0)),
        ("sizes_back", jList jNat back),
        ("binsize0", jOpt jNat (getBinsize bins0)),
        ("uniform0", Json.bool ((groups bins0).all (fun g => decide (UniformChrom b0 g)))),
        ("regrid", jBins (binnify back b)), ("direct", jBins (binnify sizes b)),
        ("spec", jBins (binnifySpecFrom 0 sizes b))]
  | "C20.bininfo" => some do
      let bins ← getBins a "bins"
      let gs := groups bins
      let bs := getBinsize bins
      let valid := validSegmentationB bins
      let uniform := match bs with
        | some b => gs.all (fun g => decide (UniformChrom b g))
        | none => true
      -- is there a width for which the table is uniform (C20 wording) ?
      let cand := (gs.flatMap nonLastWidths).head?
      let uniformFor := match cand with
        | some b => gs.all (fun g => decide (UniformChrom b g))
        | none => false
      return Json.mkObj [
        ("binsize", jOpt jNat bs),
        ("legacy", jOpt jNat (getBinsizeLegacyG gs)),
        ("valid", Json.bool valid),
        ("truthful", Json.bool uniform),
        ("uniform_for_candidate", Json.bool uniformFor),
        ("candidate", jOpt jNat cand),
        ("chromsizes", jList (fun (p : Nat × Nat) => Json.arr #[jNat p.1, jNat p.2]) (getChromsizes bins)),
        ("group_last_stops", jList (fun g => Json.arr #[jNat ((g.head?.map Bin.chrom).getD 0), jNat (lastStop g)]) gs)]
  | "C20.uniform" => some do
      let bins ← getBins a "bins"
      let b ← getNat a "b"
      return Json.mkObj [("uniform", Json.bool ((groups bins).all (fun g => decide (UniformChrom b g)))),
        ("valid", Json.bool (validSegmentationB bins))]
  | _ => none

end Cooler.Drv.C20
