import CoolerModel.Drv.JsonUtil
import CoolerModel.Model.Zoomify
import CoolerModel.Model.LegacyZoom
import CoolerModel.Model.Index
open Lean
namespace Cooler.Drv.C09
open Cooler Cooler.Drv Cooler.Coarsen Cooler.Zoomify Cooler.Merge Cooler.LegacyZoom

def jOptNat : Option Nat → Json := jOpt jNat

def jMultSeq (ms : MultSeq) : Json :=
  Json.mkObj [("resn", jNats ms.resn), ("pred", jList jOptNat ms.pred), ("mult", jList jOptNat ms.mult)]

def levelOf (j : Json) : R (Nat × Level) := do
  let r ← getNat j "res"
  let bins ← getBins j "bins"
  let px ← getPixels j "pixels"
  return (r, (bins, px))

def jLevel (l : Level) : Json :=
  Json.mkObj [("bins", jBins l.1), ("pixels", jPixels l.2), ("total", jInt (total l.2))]

/-- `/resolutions/<digits>` is a resolution key, any other group path is kept as it is -/
def keyOfPath (p : String) : GKey :=
  let pre := "/resolutions/"
  if p.startsWith pre then
    match (p.drop pre.length).toNat? with
    | some r => .resolution r
    | none => .other p
  else .other p

/-- hypotheses of the theorems on a base level -/
def levelOkB (l : Level) : Bool :=
  validSegmentationB l.1 && wfB (groups l.1) && strictSortedB l.2 && inRangeB l.1.length l.2

def handle : Handler := fun op a =>
  match op with
  | "C09.multseq" => some do
      let resolutions ← getNats a "resolutions"
      let bases ← fld a "bases" >>= optOf (listOf natOf)
      let r := getMultiplierSequence resolutions bases
      let bs := match baseSet resolutions bases with | .ok b => b | .error _ => []
      -- the contract evaluated on the IMPLEMENTATION's output (if it returned one)
      let implV ← match a.getObjVal? "impl" with
        | .ok j =>
          if j.isNull then pure Json.null else do
            let resn ← getNats j "resn"
            let pred ← fld j "pred" >>= listOf (optOf natOf)
            let mult ← fld j "mult" >>= listOf (optOf natOf)
            let ms : MultSeq := ⟨resn, pred, mult⟩
            pure (Json.mkObj [("valid", Json.bool (validMultSeq bs ms)),
              ("resn_is_sorted_union", Json.bool (decide (resn = uniq (bs ++ resolutions))))])
        | .error _ => pure Json.null
      -- what the code decides: refusal iff some non-base member has no smaller member dividing it
      let resn := uniq (bs ++ resolutions)
      let underivable := resn.filter fun r => !bs.contains r && !(resn.any fun q => decide (q < r) && decide (r % q = 0))
      let notMultipleOfBase := resn.filter fun r => !bs.contains r && !(bs.any fun b => decide (r % b = 0))
      return Json.mkObj [
        ("model", match r with | .ok ms => Json.mkObj [("ok", jMultSeq ms)] | .error e => jErr e),
        ("model_valid", match r with | .ok ms => Json.bool (validMultSeq bs ms) | .error _ => Json.null),
        ("bases", jNats bs), ("underivable", jNats underivable), ("not_multiple_of_base", jNats notMultipleOfBase),
        ("impl", implV)]
  | "C09.zoomify" => some do
      let baseLevels ← fld a "bases" >>= listOf levelOf
      let resolutions ← getNats a "resolutions"
      let cs ← getNat a "chunksize"
      let bs := uniq (baseLevels.map (·.1))
      let baseOf := lookupBase baseLevels
      match getMultiplierSequence resolutions (some bs) with
      | .error e => return Json.mkObj [("err", Json.str e.name), ("bases_ok", Json.bool (baseLevels.all fun b => levelOkB b.2))]
      | .ok ms =>
        let levels := zoomify cs ms baseOf
        -- L0: every level directly from the base its chain ends in
        let direct : List (Option Level) := (List.range ms.resn.length).map fun i =>
          match chainOf bs ms (i + 1) i with
          | some (b, _) =>
            match baseOf (ms.resn.getD b 0) with
            | some l => if b = i then some l else some (specLevel (ms.resn.getD i 0 / ms.resn.getD b 0) l)
            | none => none
          | none => none
        let bidx : List (Option Nat) := (List.range ms.resn.length).map fun i => (chainOf bs ms (i + 1) i).map (·.1)
        -- the FILE at the output path after this run, given the collections an earlier run left there
        -- (optional "prior": their group paths; theorems zoomify_file / zoomify_file_prior)
        let prior : MFile := match (fld a "prior" >>= listOf strOf) with
          | .ok ps => ps.map fun p => (keyOfPath p, (([], []) : Level))
          | .error _ => []
        let file := zoomifyFile prior cs ms baseOf
        return Json.mkObj [
          ("ok", Json.mkObj [
            ("file_listing", jList Json.str (file.map fun e => keyPath e.1)),
            ("file_is_this_run", Json.bool (decide (file = zoomEntries cs ms baseOf))),
            ("multseq", jMultSeq ms),
            ("resn", jNats ms.resn),
            ("levels", jList (jOpt jLevel) direct),
            ("derived_from", jList (fun o => jOpt (fun b => jNat (ms.resn.getD b 0)) o) bidx),
            ("listing", jList Json.str (listing ms levels)),
            ("l1_agrees", Json.bool (decide (levels = direct))),
            ("multseq_valid", Json.bool (validMultSeq bs ms))]),
          ("bases_ok", Json.bool (baseLevels.all fun b => levelOkB b.2))]
  | "C09.level" => some do
      -- a level derived through the IMPLEMENTATION's own (pred, mult): coarsenSpec (r / base) base
      let bins ← getBins a "bins"
      let px ← getPixels a "pixels"
      let m ← getNat a "m"
      return jLevel (specLevel m (bins, px))
  | "C09.expand" => some do
      let spec ← getStr a "spec"
      let curres ← getNat a "curres"
      let glen ← getNat a "genome_length"
      let r := expandResolutionSpec curres (maxRes glen) spec.toList
      return Json.mkObj [("model", jExcept jNats r), ("maxres", jNat (maxRes glen))]
  | "C09.preferred" => some do
      let start ← getNat a "start"
      let stop ← getNat a "stop"
      let style ← getStr a "style"
      return Json.mkObj [("model", jNats (preferredSequence start stop (if style = "binary" then .binary else .nice)))]
  | "C09.legacy" => some do
      -- legacy_zoomify: depth from (total bp, base bin size, tile dimension); levels n … 0 through the L1 pipeline
      -- (repeated factor-2 coarsen_cooler) and, as L0, directly from the base by 2^k
      let bins ← getBins a "bins"
      let px ← getPixels a "pixels"
      let cs ← getNat a "chunksize"
      let binsize ← getNat a "binsize"
      let tile ← getNat a "tile"
      let total := ((groups bins).map lastStop).foldl (· + ·) 0
      let n := quadtreeDepth total binsize tile
      let base : Level := (bins, px)
      let l1 := legacyDown cs n base
      let l0 : List Level := (List.range (n + 1)).map fun k => if k = 0 then base else specLevel (2 ^ k) base
      return Json.mkObj [
        ("depth", jNat n), ("total_bp", jNat total),
        ("levels", jList jLevel l0),
        ("binsizes", jList (fun p => Json.arr #[jNat p.1, jNat p.2]) (legacyBinsizes n binsize)),
        ("l1_agrees", Json.bool (decide (l1 = l0))),
        ("base_ok", Json.bool (levelOkB base))]
  | _ => none

end Cooler.Drv.C09
