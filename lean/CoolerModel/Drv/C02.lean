import CoolerModel.Drv.JsonUtil
import CoolerModel.Model.Index
open Lean
namespace Cooler.Drv.C02
open Cooler Cooler.Drv

def pairOf (j : Json) : R (Nat × Nat) := do
  match ← listOf natOf j with
  | [a, b] => return (a, b)
  | _ => throw "pair: expected [a,b]"

def jPairs (l : List (Nat × Nat)) : Json := jList (fun (p : Nat × Nat) => jNats [p.1, p.2]) l

def handle : Handler := fun op a =>
  match op with
  | "C02.validate" => some do
      -- raw dump of a stored collection → failing schema clauses
      let s : Stored := {
        nbins := ← getNat a "nbins", nchroms := ← getNat a "nchroms", symm := ← getBool a "symm",
        binChrom := ← getNats a "bin_chrom", px := ← getPixels a "pixels",
        len1 := ← getNat a "len1", len2 := ← getNat a "len2", lenv := ← getNat a "lenv",
        bin1Offset := ← getNats a "bin1_offset", chromOffset := ← getNats a "chrom_offset",
        nnzAttr := ← getNat a "nnz", nbinsAttr := ← getNat a "nbins_attr",
        nchromsAttr := ← getNat a "nchroms_attr", sumAttr := ← getInt a "sum" }
      return Json.mkObj [("violations", jList Json.str (schemaViolations s))]
  | "C02.rle" => some do
      let xs ← getNats a "xs"
      let c ← getNat a "c"
      let runs ← fld a "impl_runs" >>= listOf pairOf
      return Json.mkObj [
        ("chunked", jPairs (rlencodeChunked c xs)),
        ("plain", jPairs (rlencode xs)),
        ("lengths", jNats (runLengths xs.length (rlencode xs))),
        ("impl_valid", Json.bool (runsSpell xs runs)), ("model_valid", Json.bool (runsSpell xs (rlencode xs)))]
  | "C02.index" => some do
      let xs ← getNats a "xs"
      let n ← getNat a "n"
      return Json.mkObj [("model", jNats (indexPixels n xs)), ("spec", jNats (countIndex n xs))]
  | "C02.create" => some do
      -- model of create() on a chunk stream: the stored table and indexes
      let nchroms ← getNat a "nchroms"
      let binChrom ← getNats a "bin_chrom"
      let symm ← getBool a "symm"
      let chunks ← fld a "chunks" >>= listOf (listOf pxOf)
      let s := createStore nchroms binChrom symm chunks
      return Json.mkObj [("pixels", jPixels s.px), ("nnz", jNat s.nnzAttr), ("sum", jInt s.sumAttr),
        ("bin1_offset", jNats s.bin1Offset), ("chrom_offset", jNats s.chromOffset),
        ("violations", jList Json.str (schemaViolations s))]
  | _ => none

end Cooler.Drv.C02
