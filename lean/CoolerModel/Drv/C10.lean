import CoolerModel.Drv.JsonUtil
import CoolerModel.Model.Balance
open Lean
namespace Cooler.Drv.C10
open Cooler Cooler.Drv Cooler.IC

/-- a rational travels as `[numerator, denominator]` (exact; floats are sent as their exact value) -/
def ratOf (j : Json) : R Rat := do
  match ← arrOf j with
  | [a, b] =>
    let d ← natOf b
    if d = 0 then throw "rational: zero denominator" else return ((← intOf a : Int) : Rat) / ((d : Nat) : Rat)
  | _ => throw "rational: expected [num,den]"

def jRat (r : Rat) : Json := Json.arr #[jInt r.num, jNat r.den]
def jRats (l : List Rat) : Json := jList jRat l
def jBools (l : List Bool) : Json := jList Json.bool l

def modeOf (s : String) : R Mode :=
  match s with
  | "genome" => pure .genome
  | "cis" => pure .cis
  | "trans" => pure .trans
  | _ => throw s!"unknown mode {s}"

def optsOf (a : Json) : R Opts := do
  let mode ← modeOf (← getStr a "mode")
  let x0 ← (fld a "x0" >>= optOf (listOf (optOf ratOf)))
  return {
    mode := mode
    ignoreDiags := ← getNat a "ignore_diags"
    minNnz := ← getNat a "min_nnz"
    minCount := ← getNat a "min_count"
    madMax := ← getNat a "mad_max"
    blacklist := ← getNats a "blacklist"
    x0 := x0
    tol := ← (fld a "tol" >>= ratOf)
    maxIters := ← getNat a "max_iters" }

def jExpect : Expect → Json
  | .nan => Json.str "nan"
  | .pos => Json.str "pos"
  | .free => Json.str "free"

def variantOf (s : String) : R Variant :=
  match s with
  | "spec" => pure .spec
  | "diag2" => pure .diag2
  | "cw" => pure .cw
  | _ => throw s!"unknown variant {s}"

def jMasks (m : Masks) : Json := Json.mkObj [
  ("x0", jBools m.x0), ("nnz", jBools m.nnz), ("count", jBools m.count), ("mad", jBools m.mad),
  ("black", jBools m.black), ("mad_gaps", jRats m.madGaps)]

def minOf (l : List Rat) : Option Rat := l.foldl (fun acc x => match acc with
  | none => some x
  | some a => some (if x < a then x else a)) none

def jVerdict (v : DomainVerdict) : Json := Json.mkObj [
  ("lo", jNat v.lo), ("hi", jNat v.hi), ("retained", jNats v.retained), ("sums", jRats v.sums),
  ("interval", jOpt (fun (t : Rat × Rat × Rat) => Json.arr #[jRat t.1, jRat t.2.1, jRat t.2.2]) v.interval),
  ("inside", Json.bool v.inside)]

def handle : Handler := fun op a =>
  match op with
  | "C10.balance" => some do
      let n ← getNat a "n"
      let offs ← getNats a "offsets"
      let ps ← getPixels a "pixels"
      let o ← optsOf a
      match balance n offs ps o with
      | .error e => return jErr e
      | .ok r =>
        return Json.mkObj [
          ("bias", jList (jOpt jRat) r.bias),
          ("scales", jList (jOpt jRat) r.scales),
          ("vars", jRats r.vars),
          ("converged", jBools r.converged),
          ("iters", jNats r.iters),
          ("masks", jMasks r.masks),
          ("min_gap", jOpt jRat (minOf r.gaps))]
  | "C10.expect" => some do
      let n ← getNat a "n"
      let offs ← getNats a "offsets"
      let ps ← getPixels a "pixels"
      let o ← optsOf a
      let l := pixelsOf ps
      let m0 := computeMasks (rowsumAt n) n offs l o
      let m1 := computeMasks marginalizeAt n offs l o
      return Json.mkObj [
        ("spec", jList jExpect (expectations n offs ps o (rowsumAt n))),
        ("code", jList jExpect (expectations n offs ps o marginalizeAt)),
        ("masks_spec", jMasks m0), ("masks_code", jMasks m1),
        ("min_gap", jOpt jRat (minOf (m0.madGaps ++ m1.madGaps)))]
  | "C10.verify" => some do
      let n ← getNat a "n"
      let offs ← getNats a "offsets"
      let ps ← getPixels a "pixels"
      let o ← optsOf a
      let w ← (fld a "weights" >>= listOf (optOf ratOf))
      let rescaled ← getBool a "rescaled"
      let slack ← (fld a "slack" >>= ratOf)
      let v ← variantOf (← getStr a "variant")
      -- per domain: `null` (not converged / NaN scale: nothing is claimed) or the reported scale
      let scales ← (fld a "scales" >>= listOf (optOf ratOf))
      let doms := domains n offs o
      if doms.length ≠ scales.length then throw "verify: one scale per domain expected" else
      let vs := (doms.zip scales).filterMap fun (lh, sc) =>
        sc.map fun s => verifyDomain n offs ps o w rescaled s slack v lh
      return Json.mkObj [("domains", jList jVerdict vs)]
  | "C10.interval" => some do
      let tol ← (fld a "tol" >>= ratOf)
      let N ← getNat a "N"
      let scale ← (fld a "scale" >>= ratOf)
      return jOpt (fun (t : Rat × Rat × Rat) => Json.arr #[jRat t.1, jRat t.2.1, jRat t.2.2])
        (provedInterval tol N scale)
  | "C10.marginalize" => some do
      -- unit: `_marginalize` after a chain of per-pixel filters, on integer data
      let n ← getNat a "n"
      let offs ← getNats a "offsets"
      let ps ← getPixels a "pixels"
      let fs ← (fld a "filters" >>= listOf strOf)
      let d ← getNat a "ignore_diags"
      let l : List (WPx Int) := ps.map fun p => ⟨p.i, p.j, p.v⟩
      let lf := fs.foldl (fun (acc : List (WPx Int)) f => match f with
        | "binarize" => binarize acc
        | "zero_diags" => zeroDiags d acc
        | "zero_trans" => zeroTrans offs acc
        | "zero_cis" => zeroCis offs acc
        | _ => acc) l
      return Json.mkObj [
        ("data", jInts (lf.map (·.w))),
        ("marg", jInts ((List.range n).map (marginalizeAt lf))),
        ("rowsum", jInts ((List.range n).map (rowsumAt n lf)))]
  | _ => none

end Cooler.Drv.C10
