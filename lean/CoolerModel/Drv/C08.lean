import CoolerModel.Drv.JsonUtil
import CoolerModel.Model.CoarsenAgg
import CoolerModel.Model.Index
open Lean
namespace Cooler.Drv.C08
open Cooler Cooler.Drv Cooler.Coarsen Cooler.Merge

/-- the hypotheses of the C08 theorems, evaluated on the harness's table: chromosome-sorted valid
segmentation, group `c` carries id `c`, one length per chromosome equal to the end of its last bin -/
def tableOk (bins : BinTable) (lens : List Nat) : Bool :=
  let gs := groups bins
  validSegmentationB bins && wfB gs && decide (gs.map lastStop = lens)

/-- the aggregation functions the correspondence requests by name (pandas `max`, `min`, `first`, `last`,
`count`, `sum` on a non-empty group of integers) -/
def aggOf (name : String) : R (List Int → Int) :=
  match name with
  | "sum" => pure listSum
  | "max" => pure (fun vs => match vs with | [] => 0 | v :: rest => rest.foldl max v)
  | "min" => pure (fun vs => match vs with | [] => 0 | v :: rest => rest.foldl min v)
  | "first" => pure (fun vs => vs.headD 0)
  | "last" => pure (fun vs => vs.getLastD 0)
  | "count" => pure (fun vs => (vs.length : Int))
  | _ => throw s!"unknown agg {name}"

def handle : Handler := fun op a =>
  match op with
  | "C08.coarsen_agg" => some do
      -- coarsening with a requested aggregation on the value column: L0 `coarsenSpecAgg`
      let bins ← getBins a "bins"
      let lens ← getNats a "lens"
      let px ← getPixels a "pixels"
      let k ← getNat a "k"
      let cs ← getNat a "chunksize"
      let agg ← getStr a "agg" >>= aggOf
      let spec := coarsenSpecAgg agg k bins px
      return Json.mkObj [
        ("table_ok", Json.bool (tableOk bins lens)),
        ("pixels", jPixels spec), ("bins", jBins (coarsenBinsSpec k bins)),
        ("l1_agrees", Json.bool (decide (coarsenAgg agg k cs lens bins px = spec)))]
  | "C08.coarsen" => some do
      let bins ← getBins a "bins"
      let lens ← getNats a "lens"
      let px ← getPixels a "pixels"
      let k ← getNat a "k"
      let cs ← getNat a "chunksize"
      let newBins := coarsenBins k lens bins
      let specBins := coarsenBinsSpec k bins
      let spec := coarsenSpec k bins px
      let edges := coarsenEdges k (chromOffsets bins lens.length) (csrIndex px bins.length)
      let es := greedyPrune edges cs
      let l1 := (coarsen k cs lens bins px).2
      return Json.mkObj [
        ("table_ok", Json.bool (tableOk bins lens)),
        ("bins", jBins specBins), ("pixels", jPixels spec), ("total", jInt (total spec)),
        ("new_binsize", jOpt jNat (getBinsize specBins)), ("old_binsize", jOpt jNat (getBinsize bins)),
        ("model_edges", jNats edges), ("model_pruned", jNats es),
        ("model_pruned_valid", Json.bool (validPrunedEdges edges es)),
        ("l1_agrees", Json.bool (decide (l1 = spec) && decide (newBins = specBins)))]
  | "C08.stream" => some do
      -- the model's stream driven by the IMPLEMENTATION's pruned edges (free unit → contract)
      let bins ← getBins a "bins"
      let lens ← getNats a "lens"
      let px ← getPixels a "pixels"
      let k ← getNat a "k"
      let implEdges ← getNats a "impl_edges"
      let edges := coarsenEdges k (chromOffsets bins lens.length) (csrIndex px bins.length)
      let seg := mkSeg lens (coarsenBins k lens bins)
      let out := (coarsenStream (rebinId seg bins) px implEdges).flatten
      return Json.mkObj [
        ("model_edges", jNats edges),
        ("impl_valid", Json.bool (validPrunedEdges edges implEdges)),
        ("stream_eq_spec", Json.bool (decide (out = coarsenSpec k bins px))),
        ("seg_binsize", jOpt jNat seg.binsize)]
  | "C08.prune" => some do
      let edges ← getNats a "edges"
      let maxlen ← getNat a "maxlen"
      let implOut ← getNats a "impl_out"
      let m := greedyPrune edges maxlen
      return Json.mkObj [
        ("model", jNats m), ("model_valid", Json.bool (validPrunedEdges edges m)),
        ("impl_valid", Json.bool (validPrunedEdges edges implOut))]
  | "C08.bins" => some do
      let bins ← getBins a "bins"
      let lens ← getNats a "lens"
      let k ← getNat a "k"
      return Json.mkObj [
        ("table_ok", Json.bool (tableOk bins lens)),
        ("model", jBins (coarsenBins k lens bins)), ("spec", jBins (coarsenBinsSpec k bins))]
  | "C08.rebin" => some do
      let bins ← getBins a "bins"
      let lens ← getNats a "lens"
      let k ← getNat a "k"
      let seg := mkSeg lens (coarsenBins k lens bins)
      let ids := List.range bins.length
      return Json.mkObj [
        ("rebin", jNats (ids.map (rebinId seg bins))), ("cmap", jNats (ids.map (cmap k bins))),
        ("seg_binsize", jOpt jNat seg.binsize), ("chrom_binoffset", jNats seg.chromBinoffset),
        ("chrom_abspos", jNats seg.chromAbspos), ("start_abspos", jNats seg.startAbspos)]
  | "C08.merge_coarsen" => some do
      -- coarsen(merge(inputs)) and merge(coarsen each) over a common table
      let bins ← getBins a "bins"
      let inputs ← fld a "inputs" >>= listOf (listOf pxOf)
      let k ← getNat a "k"
      let lhs := coarsenSpec k bins (mergeSpec inputs)
      let rhs := mergeSpec (inputs.map (coarsenSpec k bins))
      return Json.mkObj [
        ("pixels", jPixels lhs), ("commutes", Json.bool (decide (lhs = rhs))),
        ("bins", jBins (coarsenBinsSpec k bins)), ("total", jInt (total lhs))]
  | "C08.chain" => some do
      -- coarsen k1 then k2 (spec twice) and k1*k2 directly
      let bins ← getBins a "bins"
      let px ← getPixels a "pixels"
      let k1 ← getNat a "k1"
      let k2 ← getNat a "k2"
      let b1 := coarsenBinsSpec k1 bins
      let twice := coarsenSpec k2 b1 (coarsenSpec k1 bins px)
      let direct := coarsenSpec (k1 * k2) bins px
      return Json.mkObj [
        ("pixels", jPixels direct), ("bins", jBins (coarsenBinsSpec (k1 * k2) bins)),
        ("composes", Json.bool (decide (twice = direct) &&
          decide (coarsenBinsSpec k2 b1 = coarsenBinsSpec (k1 * k2) bins)))]
  | _ => none

end Cooler.Drv.C08
