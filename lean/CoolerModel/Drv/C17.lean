import CoolerModel.Drv.JsonUtil
import CoolerModel.Model.Scool
open Lean
namespace Cooler.Drv.C17
open Cooler Cooler.Drv Cooler.Scool

def pairOf {α β} (f : Json → R α) (g : Json → R β) (j : Json) : R (α × β) := do
  match ← arrOf j with
  | [a, b] => return (← f a, ← g b)
  | _ => throw "expected a pair"

def rowOf (j : Json) : R BinRow := do
  match ← arrOf j with
  | [c, s, e] => return ⟨← strOf c, ← natOf s, ← natOf e⟩
  | _ => throw "bin row: expected [chrom,start,end]"

def tableOf (j : Json) : R BinsIn := do
  return { rows := ← fld j "rows" >>= listOf rowOf
           extras := ← fld j "extras" >>= listOf (pairOf strOf (listOf strOf)) }

def jStr (s : String) : Json := Json.str s

def jAttr : AttrVal → Json
  | .str s => Json.str s
  | .nat n => jNat n
  | .int i => jInt i

def jAttrs (a : Attrs) : Json := Json.mkObj (a.map fun p => (p.1, jAttr p.2))

def jRow (r : Option String × Nat × Nat) : Json := Json.arr #[jOpt jStr r.1, jNat r.2.1, jNat r.2.2]

def dataStrs : Data → List String
  | .strs v => v
  | .nats v => v.map toString
  | .ints v => v.map toString

/-- every object of a table with the path it is reached by -/
def tableObjects (pfx : String) (name : String) (t : Table) : List (String × Nat) :=
  (pfx ++ name, t.id) :: t.cols.map fun c => (pfx ++ name ++ "/" ++ c.1, c.2.id)

def fileObjects (f : SFile) : List (String × Nat) :=
  f.tables.flatMap (fun p => tableObjects "/" p.1 p.2) ++
  (match f.cellsId with | some c => [("/cells", c)] | none => []) ++
  f.cells.flatMap fun p =>
    ("/cells/" ++ p.1, p.2.id) :: p.2.tables.flatMap fun q => tableObjects ("/cells/" ++ p.1 ++ "/") q.1 q.2

def jCell (f : SFile) (x : String) : Json :=
  Json.mkObj [
    ("name", jStr x),
    ("pixels", jOpt jPixels (readPixels f x)),
    ("bins", jOpt (jList jRow) (readBins f x)),
    ("extras", jOpt (jList fun p => Json.arr #[jStr p.1, jList jStr (dataStrs p.2.data)]) (readExtras f x)),
    ("info", match cell f x with | some c => jAttrs c.attrs | none => Json.null)]

def handle : Handler := fun op a =>
  match op with
  | "C17.create" => some do
      let form ← getStr a "form"
      let symm ← getBool a "symm"
      let cells ← fld a "cells" >>= listOf (pairOf strOf (listOf pxOf))
      let bins ← if form == "common" then BinsArg.common <$> (fld a "bins" >>= tableOf)
                 else BinsArg.perCell <$> (fld a "bins" >>= listOf (pairOf strOf tableOf))
      let dom := domB bins cells && extrasOk bins cells
      let common := (commonRows bins).map fun r => (some r.chrom, r.start, r.stop)
      match createScool bins cells symm with
      | .error e => return Json.mkObj [("err", jStr e.name), ("domain", Json.bool dom)]
      | .ok f =>
        let listing := match listScoolCells id f with
          | .ok l => jList jStr l
          | .error e => jErr e
        return Json.mkObj [
          ("domain", Json.bool dom),
          ("is_scool", Json.bool (isScoolFile f)),
          ("listing", listing),
          ("spec_listing", jList jStr (cells.map fun p => "/cells/" ++ p.1)),
          ("root_attrs", jAttrs f.attrs),
          ("common_bins", jList jRow common),
          ("cells", jList (fun p => jCell f p.1) cells),
          ("objects", jList (fun p => Json.arr #[jStr p.1, jNat p.2]) (fileObjects f)),
          ("sorted_keys", jList jStr (sortNames (cells.map Prod.fst)))]
  | _ => none

end Cooler.Drv.C17
