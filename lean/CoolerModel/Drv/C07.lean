import CoolerModel.Drv.JsonUtil
import CoolerModel.Model.Unordered
import CoolerModel.Model.GroupAgg
open Lean
namespace Cooler.Drv.C07
open Cooler Cooler.Drv Cooler.Merge Cooler.Unordered

def perInputDone (inputs : List Pixels) (part : List Nat) : Bool :=
  inputs.all fun ps => decide (off ps (part.getLast?.getD 0) = ps.length)

def handle : Handler := fun op a =>
  match op with
  | "C07.merge" => some do
      let inputs ← fld a "inputs" >>= listOf (listOf pxOf)
      let n ← getNat a "n"
      let buf ← getNat a "mergebuf"
      let comb := combinedIndex (inputs.map fun ps => csrIndex ps n)
      let part := mergeBreakpoints comb buf
      let spec := mergeSpec inputs
      let viaMerger := (merger inputs part).flatten
      return Json.mkObj [
        ("spec", jPixels spec), ("total", jInt (total spec)),
        ("model_partition", jNats part),
        ("model_partition_valid", Json.bool (validBreakpoints comb part && perInputDone inputs part)),
        ("l1_agrees", Json.bool (decide (viaMerger = spec))),
        ("nchunks", jNat (merger inputs part).length)]
  | "C07.merge_agg" => some do
      -- merge with a requested aggregation on the value column
      let inputs ← fld a "inputs" >>= listOf (listOf pxOf)
      let n ← getNat a "n"
      let buf ← getNat a "mergebuf"
      let name ← getStr a "agg"
      let agg : List Int → Int ← match name with
        | "sum" => pure listSum
        | "max" => pure (fun vs => match vs with | [] => 0 | v :: rest => rest.foldl max v)
        | "min" => pure (fun vs => match vs with | [] => 0 | v :: rest => rest.foldl min v)
        | "first" => pure (fun vs => vs.headD 0)
        | "last" => pure (fun vs => vs.getLastD 0)
        | "count" => pure (fun vs => (vs.length : Int))
        -- aggregates that are NOT the identity on a single value (custom callables on the Python side)
        | "range" => pure (fun vs => match vs with
            | [] => 0
            | v :: rest => rest.foldl max v - rest.foldl min v)
        | "twice" => pure (fun vs => 2 * listSum vs)
        | _ => throw s!"unknown agg {name}"
      let comb := combinedIndex (inputs.map fun ps => csrIndex ps n)
      let part := mergeBreakpoints comb buf
      let spec := mergeSpecAgg agg inputs
      return Json.mkObj [("spec", jPixels spec),
        ("l1_agrees", Json.bool (decide ((mergerAgg agg inputs part).flatten = spec)))]
  | "C07.breakpoints" => some do
      let indexes ← fld a "indexes" >>= listOf (listOf natOf)
      let buf ← getNat a "bufsize"
      let implPart ← getNats a "impl_partition"
      let comb := combinedIndex indexes
      return Json.mkObj [
        ("model", jNats (mergeBreakpoints comb buf)),
        ("impl_valid", Json.bool (validBreakpoints comb implPart)),
        ("combined", jNats comb)]
  | "C06.unordered" => some do
      let chunks ← fld a "chunks" >>= listOf (listOf pxOf)
      let edges ← fld a "edges" >>= optOf (listOf natOf)
      let r := createFromUnordered chunks edges
      return Json.mkObj [
        ("model", jPixels r), ("spec", jPixels (aggregateAll chunks)),
        ("edges_valid", Json.bool (match edges with | some es => validEdges chunks.length es | none => true)),
        ("total", jInt (total (aggregateAll chunks)))]
  | _ => none

end Cooler.Drv.C07
