import CoolerModel.Drv.JsonUtil
import CoolerModel.Model.Unordered
import CoolerModel.Model.GroupAgg
import CoolerModel.Model.MergeDtype
open Lean
namespace Cooler.Drv.C07
open Cooler Cooler.Drv Cooler.Merge Cooler.Unordered Cooler.MergeDtype

def perInputDone (inputs : List Pixels) (part : List Nat) : Bool :=
  inputs.all fun ps => decide (off ps (part.getLast?.getD 0) = ps.length)

/-- the aggregation functions by the name pandas knows them under (applied to a pixel's values in input order) -/
def aggOf (name : String) : R (List Int → Int) :=
  match name with
  | "sum" => pure listSum
  | "max" => pure (fun vs => match vs with | [] => 0 | v :: rest => rest.foldl max v)
  | "min" => pure (fun vs => match vs with | [] => 0 | v :: rest => rest.foldl min v)
  | "first" => pure (fun vs => vs.headD 0)
  | "last" => pure (fun vs => vs.getLastD 0)
  | "count" => pure (fun vs => (vs.length : Int))
  -- aggregates that are NOT the identity on a single value (custom callables on the Python side)
  | "range" => pure (fun vs => match vs with
      | [] => 0
      | v :: rest => rest.foldl max v - rest.foldl min v)
  | "twice" => pure (fun vs => 2 * listSum vs)
  | _ => throw s!"unknown agg {name}"

/-- a value dtype: `{"signed": b, "bits": n}` or `{"mant": n}` -/
def vtypeOf (j : Json) : R VType := do
  match fld j "mant" with
  | .ok m => return .float (← natOf m)
  | .error _ => return .int (← getBool j "signed") (← getNat j "bits")

def jVType : VType → Json
  | .int s b => Json.mkObj [("signed", Json.bool s), ("bits", jNat b)]
  | .float m => Json.mkObj [("mant", jNat m)]

def handle : Handler := fun op a =>
  match op with
  | "C07.merge" => some do
      let inputs ← fld a "inputs" >>= listOf (listOf pxOf)
      let n ← getNat a "n"
      let buf ← getNat a "mergebuf"
      let comb := combinedIndex (inputs.map fun ps => csrIndex ps n)
      let part := mergeBreakpoints comb buf
      let spec := mergeSpec inputs
      let viaMerger := (merger inputs part).flatten
      return Json.mkObj [
        ("spec", jPixels spec), ("total", jInt (total spec)),
        ("model_partition", jNats part),
        ("model_partition_valid", Json.bool (validBreakpoints comb part && perInputDone inputs part)),
        ("l1_agrees", Json.bool (decide (viaMerger = spec))),
        ("nchunks", jNat (merger inputs part).length)]
  | "C07.merge_agg" => some do
      -- merge with a requested aggregation on the value column
      let inputs ← fld a "inputs" >>= listOf (listOf pxOf)
      let n ← getNat a "n"
      let buf ← getNat a "mergebuf"
      let name ← getStr a "agg"
      let agg ← aggOf name
      let comb := combinedIndex (inputs.map fun ps => csrIndex ps n)
      let part := mergeBreakpoints comb buf
      let spec := mergeSpecAgg agg inputs
      return Json.mkObj [("spec", jPixels spec),
        ("l1_agrees", Json.bool (decide ((mergerAgg agg inputs part).flatten = spec)))]
  | "C07.merge_typed" => some do
      -- the dtype clause: inputs whose value columns are stored in `in_types`, output column `out` (null: omitted =
      -- the common type of the inputs), aggregation `agg`
      let inputs ← fld a "inputs" >>= listOf (listOf pxOf)
      let n ← getNat a "n"
      let buf ← getNat a "mergebuf"
      let name ← getStr a "agg"
      let agg ← aggOf name
      let ins ← fld a "in_types" >>= listOf vtypeOf
      let outReq ← fld a "out" >>= optOf vtypeOf
      let out := outReq.getD (common ins)
      let spec := mergeSpecAgg agg inputs
      let comb := combinedIndex (inputs.map fun ps => csrIndex ps n)
      let part := mergeBreakpoints comb buf
      let inputsOk := decide (ins.length = inputs.length) &&
        (List.zip ins inputs).all fun tp => tp.2.all fun p => tp.1.holds p.v
      let (stored, streamOk, unchecked) := match out with
        | .int s b => (mergeTyped agg s b inputs, decide (mergerTyped agg s b inputs part = mergeTyped agg s b inputs),
                       spec.map fun p => Create.clipInt s b p.v)
        | .float _ => (some spec, true, spec.map Px.v)
      let v := verdict agg (name == "sum") ins out inputs
      return Json.mkObj [
        ("spec", jPixels spec), ("total", jInt (total spec)), ("out", jVType out),
        ("verdict", Json.str (match v with | .exact => "exact" | .refuse => "refuse" | .unconstrained => "unconstrained")),
        ("stored", jOpt jPixels stored), ("unchecked", jInts unchecked),
        ("inputs_ok", Json.bool inputsOk), ("stream_agrees", Json.bool streamOk),
        ("model_partition_valid", Json.bool (validBreakpoints comb part && perInputDone inputs part)),
        ("total_safe", Json.bool (totalSafe ins out spec))]
  | "C07.merge_as_built" => some do
      -- variant oracle of the known findings D32 (64-bit accumulator wraps) and D33 (uint64 next to a signed dtype: float64
      -- arithmetic): what the implementation as built leaves in the output column, and which of the two deviations occurred
      let inputs ← fld a "inputs" >>= listOf (listOf pxOf)
      let n ← getNat a "n"
      let buf ← getNat a "mergebuf"
      let name ← getStr a "agg"
      let agg ← aggOf name
      let ins ← fld a "in_types" >>= listOf vtypeOf
      let outReq ← fld a "out" >>= optOf vtypeOf
      let out := outReq.getD (common ins)
      let comb := combinedIndex (inputs.map fun ps => csrIndex ps n)
      let part := mergeBreakpoints comb buf
      let chunks := match part with
        | [] => []
        | p0 :: rest => mergerAsBuiltFrom agg (name == "sum") (intsOf ins) inputs p0 rest
      let deviates := fun (c : Pixels × Pixels × AccPath) => decide (c.1 ≠ c.2.1)
      return Json.mkObj [
        ("applicable", Json.bool ((floatsOf ins).isEmpty && decide (ins.length = inputs.length))),
        ("outcome", jOpt jPixels (storeAsBuilt out (chunks.map fun c => c.1))),
        ("wrap", Json.bool (chunks.any fun c => deviates c && decide (c.2.2 ≠ AccPath.float64))),
        ("float", Json.bool (chunks.any fun c => deviates c && decide (c.2.2 = AccPath.float64)))]
  | "C07.breakpoints" => some do
      let indexes ← fld a "indexes" >>= listOf (listOf natOf)
      let buf ← getNat a "bufsize"
      let implPart ← getNats a "impl_partition"
      let comb := combinedIndex indexes
      return Json.mkObj [
        ("model", jNats (mergeBreakpoints comb buf)),
        ("impl_valid", Json.bool (validBreakpoints comb implPart)),
        ("combined", jNats comb)]
  | "C06.unordered" => some do
      let chunks ← fld a "chunks" >>= listOf (listOf pxOf)
      let edges ← fld a "edges" >>= optOf (listOf natOf)
      let r := createFromUnordered chunks edges
      return Json.mkObj [
        ("model", jPixels r), ("spec", jPixels (aggregateAll chunks)),
        ("edges_valid", Json.bool (match edges with | some es => validEdges chunks.length es | none => true)),
        ("total", jInt (total (aggregateAll chunks)))]
  | _ => none

end Cooler.Drv.C07
