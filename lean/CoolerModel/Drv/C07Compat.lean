import CoolerModel.Drv.JsonUtil
import CoolerModel.Model.MergeCompat
open Lean
namespace Cooler.Drv.C07Compat
open Cooler Cooler.Drv Cooler.MergeCompat

/-- `{"symm": bool, "names": [nat…], "bins": [[chrom,start,end]…]}`, optionally with the heads as READ
from the written file: `"stored_binsize": nat|null`, `"stored_chromsizes": [[name,length]…]` -/
structure InJ where
  derived : Input
  stored : Option Input

def pairOf (j : Json) : R (Option MergeCompat.Name × Nat) := do
  match ← arrOf j with
  | [a, b] => return (some (← natOf a), ← natOf b)
  | _ => throw "chromsizes entry: expected [name,length]"

def inputOf (j : Json) : R InJ := do
  let symm ← getBool j "symm"
  let names ← getNats j "names"
  let bins ← getBins j "bins"
  let d := mkInput symm names bins
  let stored : Option Input ← match fld j "stored_chromsizes" with
    | .ok cs => do
        let cs ← listOf pairOf cs
        let bs ← getOptNat j "stored_binsize"
        pure (some { d with binsize := bs, chromsizes := cs })
    | .error _ => pure none
  return ⟨d, stored⟩

def jVerdict : Except Err Unit → Json
  | .ok () => Json.str "ok"
  | .error e => Json.str e.name

def handle : Handler := fun op a =>
  match op with
  | "C07.compat" => some do
      let ins ← fld a "inputs" >>= listOf inputOf
      let derived := ins.map (·.derived)
      let l1 := mergeCompat derived
      let l0 := decide (allSame derived)
      let stored := ins.map fun x => x.stored.getD x.derived
      return Json.mkObj [
        ("compat", jVerdict l1),
        ("all_same", Json.bool l0),
        ("wf", Json.bool (derived.all fun x => decide (WF x))),
        ("decided_by", Json.str (decidedBy derived)),
        ("binsizes", jList (jOpt jNat) (derived.map (·.binsize))),
        -- diagnosis only: the same decision on the heads the files really carry
        ("heads_match", Json.bool (decide (stored = derived))),
        ("compat_stored", jVerdict (mergeCompat stored))]
  | _ => none

end Cooler.Drv.C07Compat
