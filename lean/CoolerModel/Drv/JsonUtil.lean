import Lean.Data.Json
import CoolerModel.Basic
/-! JSON marshalling helpers for the correspondence driver (glue; trusted, no property logic). -/
open Lean
namespace Cooler.Drv

abbrev R := Except String

def fld (j : Json) (k : String) : R Json := j.getObjVal? k
def natOf (j : Json) : R Nat := j.getNat?
def intOf (j : Json) : R Int := j.getInt?
def strOf (j : Json) : R String := j.getStr?
def boolOf (j : Json) : R Bool := j.getBool?
def arrOf (j : Json) : R (List Json) := do return (← j.getArr?).toList
def listOf {α} (f : Json → R α) (j : Json) : R (List α) := do (← arrOf j).mapM f
def optOf {α} (f : Json → R α) (j : Json) : R (Option α) :=
  if j.isNull then pure none else some <$> f j

def getNat (j : Json) (k : String) : R Nat := fld j k >>= natOf
def getInt (j : Json) (k : String) : R Int := fld j k >>= intOf
def getStr (j : Json) (k : String) : R String := fld j k >>= strOf
def getBool (j : Json) (k : String) : R Bool := fld j k >>= boolOf
def getNats (j : Json) (k : String) : R (List Nat) := fld j k >>= listOf natOf
def getInts (j : Json) (k : String) : R (List Int) := fld j k >>= listOf intOf
def getOptNat (j : Json) (k : String) : R (Option Nat) := fld j k >>= optOf natOf
def getOptInt (j : Json) (k : String) : R (Option Int) := fld j k >>= optOf intOf
def getBoolD (j : Json) (k : String) (d : Bool) : Bool :=
  match fld j k >>= boolOf with | .ok b => b | .error _ => d

/-- pixel `[i, j, v]` -/
def pxOf (j : Json) : R Px := do
  match ← arrOf j with
  | [a, b, c] => return ⟨← natOf a, ← natOf b, ← intOf c⟩
  | _ => throw "pixel: expected [i,j,v]"
def getPixels (j : Json) (k : String) : R Pixels := fld j k >>= listOf pxOf

/-- bin `[chrom, start, end]` -/
def binOf (j : Json) : R Bin := do
  match ← arrOf j with
  | [a, b, c] => return ⟨← natOf a, ← natOf b, ← natOf c⟩
  | _ => throw "bin: expected [chrom,start,end]"
def getBins (j : Json) (k : String) : R BinTable := fld j k >>= listOf binOf

def jNat (n : Nat) : Json := Json.num (JsonNumber.fromNat n)
def jInt (n : Int) : Json := Json.num (JsonNumber.fromInt n)
def jNats (l : List Nat) : Json := Json.arr (l.map jNat).toArray
def jInts (l : List Int) : Json := Json.arr (l.map jInt).toArray
def jList {α} (f : α → Json) (l : List α) : Json := Json.arr (l.map f).toArray
def jOpt {α} (f : α → Json) : Option α → Json | none => Json.null | some a => f a
def jPx (p : Px) : Json := Json.arr #[jNat p.i, jNat p.j, jInt p.v]
def jPixels (l : Pixels) : Json := jList jPx l
def jBin (b : Bin) : Json := Json.arr #[jNat b.chrom, jNat b.start, jNat b.stop]
def jBins (l : BinTable) : Json := jList jBin l
def jErr (e : Err) : Json := Json.mkObj [("err", Json.str e.name)]
def jExcept {α} (f : α → Json) : Except Err α → Json
  | .ok a => Json.mkObj [("ok", f a)]
  | .error e => jErr e

/-- a handler answers an op or declines (`none`) so that the next one is tried -/
abbrev Handler := String → Json → Option (R Json)

end Cooler.Drv
