import CoolerModel.Drv.JsonUtil
import CoolerModel.Model.Rename
open Lean
namespace Cooler.Drv.C18
open Cooler Cooler.Drv

def pairOf {α β} (f : Json → R α) (g : Json → R β) (j : Json) : R (α × β) := do
  match ← arrOf j with
  | [a, b] => return (← f a, ← g b)
  | _ => throw "expected a pair"

def getBlobs (j : Json) (k : String) : R (List (String × String)) := fld j k >>= listOf (pairOf strOf strOf)

def storeOf (j : Json) : R RStore := do
  let encJ ← fld j "enc"
  let enc ← if encJ.isNull then pure ChromEnc.plain
            else ChromEnc.enum <$> listOf (pairOf strOf natOf) encJ
  return { names := ← fld j "names" >>= listOf strOf
           nameWidth := ← getNat j "name_width"
           lengths := ← getNats j "lengths"
           enc := enc
           codes := ← getNats j "codes"
           starts := ← getNats j "starts"
           ends := ← getNats j "ends"
           chromOffset := ← getNats j "chrom_offset"
           binsize := ← getOptNat j "binsize"
           pixels := ← getBlobs j "pixels"
           bin1Offset := ← getStr j "bin1_offset"
           attrs := ← getBlobs j "attrs"
           extra := ← getBlobs j "extra" }

def jStr (s : String) : Json := Json.str s
def jPairSN (p : String × Nat) : Json := Json.arr #[jStr p.1, jNat p.2]
def jPairSS (p : String × String) : Json := Json.arr #[jStr p.1, jStr p.2]

def jObs (o : Obs) : Json := Json.mkObj [
  ("chromnames", jList jStr o.chromnames),
  ("chromsizes", jList jPairSN o.chromsizes),
  ("labels", jList (jOpt jStr) o.labels),
  ("starts", jNats o.starts), ("ends", jNats o.ends), ("codes", jNats o.codes),
  ("chrom_offset", jNats o.chromOffset), ("binsize", jOpt jNat o.binsize),
  ("pixels", jList jPairSS o.pixels), ("bin1_offset", jStr o.bin1Offset),
  ("attrs", jList jPairSS o.attrs), ("extra", jList jPairSS o.extra)]

def jExtent (r : Except Err (Int × Nat)) : Json :=
  match r with
  | .ok (lo, hi) => Json.mkObj [("ok", Json.arr #[jInt lo, jNat hi])]
  | .error e => jErr e

structure Probe where
  name : String
  a : Option Int
  b : Option Int

def probeOf (j : Json) : R Probe := do
  match ← arrOf j with
  | [n, a, b] => return ⟨← strOf n, ← optOf intOf a, ← optOf intOf b⟩
  | _ => throw "probe: expected [name, a, b]"

/-- L0 for lookups: the region goes to whatever the unique old chromosome carrying that name now
resolved to in the original store; a name nobody carries is not found -/
def specExtent (s0 : RStore) (ms : List (List (String × String))) (p : Probe) : Json :=
  let f := fun n => ms.foldl (fun n m => applyMap m n) n
  match s0.names.filter (fun c => f c == p.name) with
  | [c] => jExtent (extent (openCooler s0) s0 c p.a p.b)
  | [] => jErr .value
  | _ => Json.str "ambiguous"

def composedMap (names : List String) : List (List (String × String)) → List (String × String)
  | [] => composeMaps names [] []
  | m :: ms => ms.foldl (fun acc m' => composeMaps names acc m') (composeMaps names m [])

def handle : Handler := fun op a =>
  match op with
  | "C18.chain" => some do
      let s0 ← fld a "store" >>= storeOf
      let maps ← fld a "maps" >>= listOf (listOf (pairOf strOf strOf))
      let fits ← fld a "fits" >>= listOf boolOf
      let probes ← fld a "probes" >>= listOf probeOf
      let o0 := observe s0
      let mut s := s0
      let mut done : List (List (String × String)) := []
      let mut steps : Array Json := #[]
      for (m, ft) in maps.zip fits do
        let (s', h) := renameOnObject (fun _ => ft) s m
        s := s'
        done := done ++ [m]
        let f := fun n => done.foldl (fun n m => applyMap m n) n
        let one := renameChroms (fun _ => ft) s0 (composedMap s0.names done)
        steps := steps.push (Json.mkObj [
          ("names", jList jStr s'.names),
          ("name_width", jNat s'.nameWidth),
          ("lengths", jNats s'.lengths),
          ("enc", match s'.enc with
                  | .enum d => jList jPairSN d
                  | .plain => Json.null),
          ("handle_chromnames", jList jStr h.chromnames),
          ("handle_chromsizes", jList jPairSN h.chromsizes),
          ("handle_fresh", Json.bool (h == openCooler s')),
          ("obs", jObs (observe s')),
          ("spec_obs", jObs (o0.relabel f)),
          ("composed_obs", jObs (observe one)),
          ("injective", Json.bool (decide s'.names.Nodup)),
          ("valid", Json.bool (validStoreB s')),
          ("extents", jList (fun p => jExtent (extent h s' p.name p.a p.b)) probes),
          ("spec_extents", jList (specExtent s0 done) probes)])
      return Json.mkObj [("valid0", Json.bool (validStoreB s0)),
        ("injective0", Json.bool (decide s0.names.Nodup)),
        ("obs0", jObs o0),
        ("extents0", jList (fun p => jExtent (extent (openCooler s0) s0 p.name p.a p.b)) probes),
        ("steps", Json.arr steps)]
  | _ => none

end Cooler.Drv.C18
