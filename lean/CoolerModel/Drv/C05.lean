import CoolerModel.Drv.JsonUtil
import CoolerModel.Model.Sanitize
import CoolerModel.Model.Hiclib
open Lean
namespace Cooler.Drv.C05
open Cooler Cooler.Drv Cooler.Sanitize Cooler.Hiclib

def trilOf (j : Json) : R Tril := do
  if j.isNull then return .keep
  match ← strOf j with
  | "reflect" => return .reflect
  | "drop" => return .drop
  | "raise" => return .raise
  | "none" => return .keep
  | _ => return .bogus

def optsOf (j : Json) : R Opts := do
  return { oneBased := getBoolD j "one_based" false
           tril := ← (fld j "tril" >>= trilOf)
           validate := getBoolD j "validate" true
           sort := getBoolD j "sort" false
           sidedChrom := getBoolD j "sided_chrom" true
           sidedAnchor := getBoolD j "sided_anchor" true
           sidedExtra := match fld j "sided_extra" >>= listOf boolOf with | .ok l => l | .error _ => [] }

/-- record `[c1|null, p1, c2|null, p2, x1[], x2[], u[]]` -/
def recOf (j : Json) : R Rec := do
  match ← arrOf j with
  | [c1, p1, c2, p2, x1, x2, u] =>
    return ⟨← optOf natOf c1, ← intOf p1, ← optOf natOf c2, ← intOf p2,
      ← listOf intOf x1, ← listOf intOf x2, ← listOf intOf u⟩
  | [c1, p1, c2, p2] => return ⟨← optOf natOf c1, ← intOf p1, ← optOf natOf c2, ← intOf p2, [], [], []⟩
  | _ => throw "record: expected [c1,p1,c2,p2,x1,x2,u]"

/-- pre-binned record `[b1, b2, x1[], x2[], u[]]` -/
def pxRecOf (j : Json) : R PxRec := do
  match ← arrOf j with
  | [b1, b2, x1, x2, u] =>
    return ⟨← intOf b1, ← intOf b2, ← listOf intOf x1, ← listOf intOf x2, ← listOf intOf u⟩
  | _ => throw "pixel record: expected [b1,b2,x1,x2,u]"

def tbxRecOf (j : Json) : R TbxRec := do
  match ← arrOf j with
  | [c1, p1, c2, p2] => return ⟨← optOf natOf c1, ← intOf p1, ← optOf natOf c2, ← intOf p2⟩
  | _ => throw "tabix record: expected [c1,p1,c2,p2]"

def jOut (o : Out) : Json :=
  Json.arr #[jNat o.r.fc1, jInt o.r.fp1, jNat o.r.fc2, jInt o.r.fp2, jInts o.r.x1, jInts o.r.x2,
    jInts o.r.u, jInt o.bin1, jInt o.bin2]

def jPxRec (p : PxRec) : Json := Json.arr #[jInt p.b1, jInt p.b2, jInts p.x1, jInts p.x2, jInts p.u]

def jCell (c : Cell) : Json := Json.arr #[jInt c.k.1, jInt c.k.2, jNat c.n, jInt c.s]
def jCells (l : List Cell) : Json := jList jCell l

/-- weighted re-grouping (sum of counts and of sums per key): merging per-chunk tables -/
def regroup (cells : List Cell) : List Cell :=
  cells.foldr (fun c acc =>
    let rec ins : List Cell → List Cell
      | [] => [c]
      | d :: rest =>
        if klt c.k d.k then c :: d :: rest
        else if c.k = d.k then ⟨c.k, c.n + d.n, c.s + d.s⟩ :: rest
        else d :: ins rest
    ins acc) []

def cellOf (j : Json) : R Cell := do
  match ← arrOf j with
  | [a, b, n, s] => return ⟨(← intOf a, ← intOf b), ← natOf n, ← intOf s⟩
  | _ => throw "cell: expected [b1,b2,n,s]"

/-- per-chunk model runs merged: first error wins, else all rows together -/
def chunked (bins : BinTable) (o : Opts) (chunks : List (List Rec)) : Except Err (List Out) :=
  chunks.foldl (fun acc ch =>
    match acc with
    | .error e => .error e
    | .ok outs => match sanitizeRecords bins o ch with
      | .error e => .error e
      | .ok more => .ok (outs ++ more)) (.ok [])

def answer (bins : BinTable) (o : Opts) (chunks : List (List Rec)) : Json :=
  let all := chunks.flatten
  let nb := bins.length
  let l1 : Except Err (List Cell) := match chunked bins o chunks with
    | .error e => .error e
    | .ok outs => .ok (aggregateRecords true outs)
  Json.mkObj [
    ("valid", Json.bool (validSegmentationB bins)),
    ("binsize", jOpt jNat (getBinsize bins)),
    ("nbins", jNat nb),
    ("chunks", jList (fun ch => jExcept (jList jOut) (sanitizeRecords bins o ch)) chunks),
    ("l1", jExcept jCells l1),
    ("l1_whole", jExcept jCells (aggregated bins o all)),
    ("l1_rowlimited", jExcept jCells (rowLimited nb l1)),
    ("l1_boundschecked", jExcept jCells (boundsChecked nb l1)),
    ("l0", jExcept jCells (specCounts bins o all)),
    ("at_len", Json.bool (atLength bins o all)),
    ("chunk_info", jList (fun ch => Json.arr #[jNat ch.length, jNat (anchors o ch).length,
        Json.bool ((anchors o ch).any Anchor.lower)]) chunks),
    ("n_known", jNat (anchors o all).length),
    ("n_retained", jNat (retained o all).length)]


/-- hiclib read pair `[c1, p1, c2, p2]` (ids as stored: any integer) -/
def hrecOf (j : Json) : R HRec := do
  match ← arrOf j with
  | [c1, p1, c2, p2] => return ⟨← intOf c1, ← intOf p1, ← intOf c2, ← intOf p2⟩
  | _ => throw "hiclib record: expected [c1,p1,c2,p2]"

def boundOf (j : Json) : R (Nat × Nat) := do
  match ← arrOf j with
  | [a, b] => return (← natOf a, ← natOf b)
  | _ => throw "bound: expected [lo,hi]"

def jChunk (x : (Nat × Nat) × List Cell) : Json := Json.arr #[jNat x.1.1, jNat x.1.2, jCells x.2]

def handle : Handler := fun op a =>
  match op with
  | "C05.sanitize" => some do
      let bins ← getBins a "bins"
      let o ← fld a "opts" >>= optsOf
      let chunks ← fld a "chunks" >>= listOf (listOf recOf)
      return answer bins o chunks
  | "C05.sanitize_batch" => some do
      -- the same table and options, many independent inputs (each a list of chunks)
      let bins ← getBins a "bins"
      let o ← fld a "opts" >>= optsOf
      let batches ← fld a "batches" >>= listOf (listOf (listOf recOf))
      return Json.arr (batches.map (answer bins o)).toArray
  | "C05.pixels" => some do
      let o ← fld a "opts" >>= optsOf
      let batches ← fld a "batches" >>= listOf (listOf pxRecOf)
      let nb ← getNat a "nbins"
      return Json.arr (batches.map fun ps =>
        let l1 := sanitizePixels o ps
        let l1cells : Except Err (List Cell) := match l1 with
          | .error e => .error e
          | .ok out => .ok (groupCells (out.map fun p => (p.key, p.val)))
        Json.mkObj [
          ("l1", jExcept (jList jPxRec) l1),
          ("l1_cells", jExcept jCells l1cells),
          ("l0", jExcept jCells (specPixels o ps)),
          ("l0_boundschecked", jExcept jCells (boundsChecked nb (specPixels o ps)))]).toArray
  | "C05.aggregate" => some do
      let sort ← getBool a "sort"
      let rows ← fld a "rows" >>= listOf (fun j => do
        match ← arrOf j with
        | [b1, b2, v] => return (⟨⟨0, 0, 0, 0, 0, 0, 0, 0, [], [], [← intOf v]⟩, ← intOf b1, ← intOf b2⟩ : Out)
        | _ => throw "row: expected [bin1,bin2,value]")
      return jCells (aggregateRecords sort rows)
  | "C05.regroup" => some do
      let cells ← fld a "cells" >>= listOf cellOf
      return jCells (regroup cells)
  | "C05.tabix" => some do
      let bins ← getBins a "bins"
      let oneBased ← getBool a "one_based"
      let file ← fld a "file" >>= listOf tbxRecOf
      let recs : List Rec := tbxRecs oneBased file
      let o : Opts := { tril := .keep }
      return Json.mkObj [
        ("valid", Json.bool (validSegmentationB bins)),
        ("l1", jCells (tabixAggregate bins oneBased file)),
        ("l0", jExcept jCells (specCounts bins o recs)),
        ("upper", Json.bool (!(anchors o recs).any Anchor.lower))]
  | "C05.hiclib" => some do
      -- HDF5Aggregator: the model of the code for every chunksize asked, and the specification
      let bins ← getBins a "bins"
      let n ← getNat a "nchroms"
      let recs ← fld a "recs" >>= listOf hrecOf
      let css ← getNats a "chunksizes"
      let good := recs.all fun r => decide (Good bins n r)
      return Json.mkObj [
        ("valid", Json.bool (validSegmentationB bins)),
        ("binsize", jOpt jNat (getBinsize bins)),
        ("sorted", Json.bool (decide (SortedH recs))),
        ("blocksorted", Json.bool (decide (BlockSorted (recs.map HRec.c1)))),
        ("good", Json.bool good),
        ("upper", Json.bool (recs.all fun r => !(anchorH r).lower)),
        ("outside", Json.bool (outside bins n recs)),
        ("unlisted", Json.bool (unlisted n recs)),
        ("l0", jExcept jCells (hiclibSpec bins n recs)),
        ("runs", jList (fun cs =>
            let l1 := hiclibChunks bins n cs recs
            let flat : Except Err (List Cell) := match l1 with
              | .error e => .error e
              | .ok l => .ok (l.map (·.2)).flatten
            Json.mkObj [("chunksize", jNat cs),
              ("l1", jExcept (jList jChunk) l1),
              ("l1_flat", jExcept jCells flat),
              ("l1_bc", jExcept jCells (boundsChecked bins.length flat))]) css)]
  | "C05.hiclib_chunks" => some do
      -- contract of the chunk boundaries, evaluated on the boundaries the REAL loop used
      let bins ← getBins a "bins"
      let n ← getNat a "nchroms"
      let recs ← fld a "recs" >>= listOf hrecOf
      let runs ← fld a "runs" >>= listOf (fun j => do
        return (← getNat j "chunksize", ← fld j "bounds" >>= listOf boundOf))
      return Json.mkObj [
        ("valid", Json.bool (validSegmentationB bins)),
        ("wellformed", Json.bool (decide (SortedH recs) && (recs.all fun r => decide (Good bins n r)) &&
            (recs.all fun r => !(anchorH r).lower))),
        ("runs", jList (fun (x : Nat × List (Nat × Nat)) => Json.mkObj [
            ("chunksize", jNat x.1),
            ("chain", Json.bool (chainOK 0 x.2 recs.length)),
            ("sep", Json.bool (sepRows bins n (x.2.map (sliceOf recs)))),
            ("ok", Json.bool (chunksOK bins n recs x.2)),
            ("model", jExcept (jList fun b => Json.arr #[jNat b.1, jNat b.2]) (hiclibBounds bins n x.1 recs))]) runs)]
  | "C05.constants" => some do
      -- the presets the model's defaults stand for
      return Json.mkObj [
        ("pairs", Json.mkObj [("decode_chroms", Json.bool true), ("is_one_based", Json.bool false),
          ("tril_action", Json.str "reflect"), ("sort", Json.bool false), ("validate", Json.bool true)]),
        ("bg2", Json.mkObj [("decode_chroms", Json.bool true), ("is_one_based", Json.bool false),
          ("tril_action", Json.str "reflect"), ("sort", Json.bool true), ("validate", Json.bool true)])]
  | _ => none

end Cooler.Drv.C05
