import CoolerModel.Model.Balanced
/-!
# C12 — balanced reads equal raw value × the two bin weights

Every statement is about the definitions in `Model/Balanced.lean`, which the correspondence harness
executes (carrier `Float`, compared bit for bit) against `Cooler.matrix(balance=…)` and
`cooler dump -b`.  The carrier `α` and its operations `mul`, `inv`, `ofRaw` are arbitrary: no
algebraic law is used, so the theorems hold verbatim for IEEE-754 binary64.
-/
namespace Cooler.C12
open Cooler Cooler.Bal

variable {ρ α : Type}

/-! ## slices and the aliasing shortcut -/

theorem slice_get (w : List α) (a b k : Nat) :
    (slice w a b)[k]? = if k < b - a then w[a + k]? else none := by
  simp [slice, List.getElem?_take, List.getElem?_drop]

theorem slice_length_le (w : List α) (a b : Nat) : (slice w a b).length ≤ b - a := by
  simp [slice]; omega

theorem slice_length (w : List α) (a b : Nat) (hb : b ≤ w.length) : (slice w a b).length = b - a := by
  simp [slice]; omega

/-- **bias_alias_sound**: the shortcut `bias2 = bias1 if (i0, i1) == (j0, j1)` never changes the
column weights: they are always the slice of the weight vector over the *column* range. -/
theorem bias_alias_sound (w : List α) (i0 i1 j0 j1 : Nat) :
    bias2Of w i0 i1 j0 j1 (slice w i0 i1) = slice w j0 j1 := by
  unfold bias2Of
  split
  · next h =>
    have h0 : i0 = j0 := congrArg Prod.fst h
    have h1 : i1 = j1 := congrArg Prod.snd h
    rw [h0, h1]
  · rfl

/-- the model without the shortcut: both vectors are always sliced from the weight column -/
def biasesNoAlias (o : Ops ρ α) (w : List α) (div : Bool) (i0 i1 j0 j1 : Nat) : List α × List α :=
  if div then ((slice w i0 i1).map o.inv, (slice w j0 j1).map o.inv) else (slice w i0 i1, slice w j0 j1)

theorem biases_eq_noAlias (o : Ops ρ α) (w : List α) (div : Bool) (i0 i1 j0 j1 : Nat) :
    biases o w div i0 i1 j0 j1 = biasesNoAlias o w div i0 i1 j0 j1 := by
  simp only [biases, biasesNoAlias, bias_alias_sound]

/-- non-vacuity / sensitivity: aliasing on equal *starts* only (`if i0 == j0`) would be unsound -/
example : (if (1 : Nat) = 1 then slice [10, 20, 30] 1 2 else slice [10, 20, 30] 1 3) ≠ slice [10, 20, 30] 1 3 := by
  decide

example : bias2Of [10, 20, 30] 1 2 1 3 (slice [10, 20, 30] 1 2) = [20, 30] := by decide
example : bias2Of [10, 20, 30] 1 3 1 3 (slice [10, 20, 30] 1 3) = [20, 30] := by decide

/-- row weights: entry `r` of `bias1` is the (possibly inverted) weight of bin `i0 + r` -/
theorem biases_fst_get (o : Ops ρ α) (w : List α) (div : Bool) (i0 i1 j0 j1 r : Nat) :
    (biases o w div i0 i1 j0 j1).1[r]? = if r < i1 - i0 then wtAt o w div (i0 + r) else none := by
  rw [biases_eq_noAlias]
  unfold biasesNoAlias wtAt
  cases div <;> simp [slice_get] <;> split <;> simp

/-- column weights: entry `c` of `bias2` is the (possibly inverted) weight of bin `j0 + c`,
whether or not the two ranges coincide -/
theorem biases_snd_get (o : Ops ρ α) (w : List α) (div : Bool) (i0 i1 j0 j1 c : Nat) :
    (biases o w div i0 i1 j0 j1).2[c]? = if c < j1 - j0 then wtAt o w div (j0 + c) else none := by
  rw [biases_eq_noAlias]
  unfold biasesNoAlias wtAt
  cases div <;> simp [slice_get] <;> split <;> simp

theorem biases_fst_length (o : Ops ρ α) (w : List α) (div : Bool) (i0 i1 j0 j1 : Nat) (h : i1 ≤ w.length) :
    (biases o w div i0 i1 j0 j1).1.length = i1 - i0 := by
  rw [biases_eq_noAlias]; unfold biasesNoAlias
  cases div <;> simp [slice_length w i0 i1 h]

theorem biases_snd_length (o : Ops ρ α) (w : List α) (div : Bool) (i0 i1 j0 j1 : Nat) (h : j1 ≤ w.length) :
    (biases o w div i0 i1 j0 j1).2.length = j1 - j0 := by
  rw [biases_eq_noAlias]; unfold biasesNoAlias
  cases div <;> simp [slice_length w j0 j1 h]

/-! ## dense -/

/-- cell `(r, c)` of a doubly nested list -/
def cell {β : Type} (m : List (List β)) (r c : Nat) : Option β := m[r]?.bind (·[c]?)

theorem denseApply_cell (o : Ops ρ α) (raw : List (List ρ)) (b1 b2 : List α) (r c : Nat) :
    cell (denseApply o raw b1 b2) r c =
      match cell raw r c, b1[r]?, b2[c]? with
      | some x, some a, some b => some (o.mul (o.ofRaw x) (o.mul a b))
      | _, _, _ => none := by
  unfold cell denseApply outer
  rw [List.getElem?_zipWith, List.getElem?_map]
  cases hr : raw[r]? with
  | none => simp
  | some row =>
    cases ha : b1[r]? with
    | none => cases h : row[c]? <;> simp
    | some a =>
      simp only [Option.map_some, Option.bind_some]
      rw [List.getElem?_zipWith, List.getElem?_map]
      cases hx : row[c]? <;> cases hb : b2[c]? <;> simp

/-- **dense_spec**: for every store, weight column, window and raw array, cell `(r, c)` inside the
window of the balanced dense result is `raw(r,c) * (wt(i0+r) * wt(j0+c))` (in this association),
`wt = w` or `1 / w`; it is absent exactly when the raw cell or one of the two weights is. -/
theorem dense_spec (o : Ops ρ α) (cols : Cols α) (name : String) (w : List α)
    (hw : cols.lookup name = some w) (div : Bool) (i0 i1 j0 j1 : Nat) (raw : List (List ρ))
    (r c : Nat) (hr : r < i1 - i0) (hc : c < j1 - j0) :
    ∃ out, balancedDense o cols name div i0 i1 j0 j1 raw = .ok out ∧
      cell out r c = (cell raw r c).bind (denseCell o w div (i0 + r) (j0 + c)) := by
  refine ⟨_, by simp only [balancedDense, hw]; rfl, ?_⟩
  rw [denseApply_cell, biases_fst_get, biases_snd_get]
  simp only [hr, hc, if_true]
  unfold denseCell
  cases cell raw r c <;> cases wtAt o w div (i0 + r) <;> cases wtAt o w div (j0 + c) <;> simp

/-- readable corollary: with the weights present, the value is the product, explicitly -/
theorem dense_value (o : Ops ρ α) (cols : Cols α) (name : String) (w : List α)
    (hw : cols.lookup name = some w) (div : Bool) (i0 i1 j0 j1 : Nat) (raw : List (List ρ))
    (r c : Nat) (hr : r < i1 - i0) (hc : c < j1 - j0) (x : ρ) (a b : α)
    (hx : cell raw r c = some x) (ha : w[i0 + r]? = some a) (hb : w[j0 + c]? = some b) :
    ∃ out, balancedDense o cols name div i0 i1 j0 j1 raw = .ok out ∧
      cell out r c = some (o.mul (o.ofRaw x)
        (o.mul (if div then o.inv a else a) (if div then o.inv b else b))) := by
  obtain ⟨out, h1, h2⟩ := dense_spec o cols name w hw div i0 i1 j0 j1 raw r c hr hc
  refine ⟨out, h1, ?_⟩
  rw [h2, hx]
  simp [denseCell, wtAt, ha, hb]

/-- shape: a raw array of the window's shape, window inside the weight vector ⇒ same shape out -/
theorem dense_shape (o : Ops ρ α) (cols : Cols α) (name : String) (w : List α)
    (hw : cols.lookup name = some w) (div : Bool) (i0 i1 j0 j1 : Nat) (raw : List (List ρ))
    (hi : i1 ≤ w.length) (hj : j1 ≤ w.length)
    (hrows : raw.length = i1 - i0) (hcols : ∀ row ∈ raw, row.length = j1 - j0) :
    ∃ out, balancedDense o cols name div i0 i1 j0 j1 raw = .ok out ∧
      out.length = i1 - i0 ∧ ∀ row ∈ out, row.length = j1 - j0 := by
  refine ⟨_, by simp only [balancedDense, hw]; rfl, ?_, ?_⟩
  · simp [denseApply, outer, biases_fst_length o w div i0 i1 j0 j1 hi, hrows]
  · intro row hrow
    simp only [denseApply, outer] at hrow
    obtain ⟨k, hk, rfl⟩ := List.getElem_of_mem hrow
    simp only [List.getElem_zipWith, List.getElem_map, List.length_zipWith, List.length_map]
    rw [biases_snd_length o w div i0 i1 j0 j1 hj]
    have : raw[k]'(by simp at hk; omega) ∈ raw := List.getElem_mem _
    rw [hcols _ this]; omega

/-- L1 = L0 as whole arrays, under the shape conditions of a valid read -/
theorem dense_eq_spec (o : Ops ρ α) (cols : Cols α) (name : String) (w : List α)
    (hw : cols.lookup name = some w) (div : Bool) (i0 i1 j0 j1 : Nat) (raw : List (List ρ))
    (hi : i1 ≤ w.length) (hj : j1 ≤ w.length)
    (hrows : raw.length = i1 - i0) (hcols : ∀ row ∈ raw, row.length = j1 - j0) :
    ∃ out, balancedDense o cols name div i0 i1 j0 j1 raw = .ok out ∧
      out.map (·.map some) = denseSpec o w div i0 j0 raw := by
  obtain ⟨out, hout, hlen, hrowlen⟩ := dense_shape o cols name w hw div i0 i1 j0 j1 raw hi hj hrows hcols
  refine ⟨out, hout, ?_⟩
  apply List.ext_getElem
  · simp [denseSpec, hlen, hrows]
  · intro r h1 h2
    have hr : r < i1 - i0 := by simpa [hlen] using h1
    have hrr : r < raw.length := by omega
    have hor : r < out.length := by omega
    simp only [denseSpec, List.getElem_map, List.getElem_mapIdx]
    apply List.ext_getElem
    · simp [hrowlen _ (List.getElem_mem hor), hcols _ (List.getElem_mem hrr)]
    · intro c h3 h4
      have hc : c < j1 - j0 := by
        have := hrowlen _ (List.getElem_mem hor)
        simp at h3; omega
      have hcr : c < (raw[r]).length := by rw [hcols _ (List.getElem_mem hrr)]; exact hc
      have hco : c < (out[r]).length := by rw [hrowlen _ (List.getElem_mem hor)]; exact hc
      obtain ⟨out', hout', hcell⟩ := dense_spec o cols name w hw div i0 i1 j0 j1 raw r c hr hc
      have : out' = out := by rw [hout] at hout'; exact (Except.ok.inj hout').symm
      subst this
      simp only [List.getElem_map, List.getElem_mapIdx]
      have e1 : cell out' r c = some (out'[r][c]) := by
        simp [cell, List.getElem?_eq_getElem hor, List.getElem?_eq_getElem hco]
      have e2 : cell raw r c = some (raw[r][c]) := by
        simp [cell, List.getElem?_eq_getElem hrr, List.getElem?_eq_getElem hcr]
      rw [e1, e2] at hcell
      simpa using hcell

/-! ## sparse, pixels, dump -/

theorem mapE_congr {β γ : Type} (f g : β → Except Err γ) (l : List β) (h : ∀ x ∈ l, f x = g x) :
    mapE f l = mapE g l := by
  induction l with
  | nil => rfl
  | cons x xs ih =>
    simp only [mapE]
    rw [h x (by simp), ih (fun y hy => h y (by simp [hy]))]

/-- a successful `mapE` answers entry by entry -/
theorem mapE_ok_get {β γ : Type} (f : β → Except Err γ) (l : List β) (out : List γ)
    (h : mapE f l = .ok out) :
    out.length = l.length ∧ ∀ (k : Nat) x, l[k]? = some x → ∃ y, out[k]? = some y ∧ f x = .ok y := by
  induction l generalizing out with
  | nil =>
    simp only [mapE] at h
    cases h
    simp
  | cons a as ih =>
    simp only [mapE] at h
    cases hfa : f a with
    | error e => rw [hfa] at h; cases h
    | ok y =>
      rw [hfa] at h
      cases hrest : mapE f as with
      | error e => rw [hrest] at h; cases h
      | ok ys =>
        rw [hrest] at h
        cases h
        obtain ⟨hl, hk⟩ := ih ys hrest
        refine ⟨by simp [hl], ?_⟩
        intro k x hx
        cases k with
        | zero => simp at hx; subst hx; exact ⟨y, by simp, hfa⟩
        | succ k => simpa using hk k x (by simpa using hx)

/-- `mapE` succeeds when every element does -/
theorem mapE_isOk {β γ : Type} (f : β → Except Err γ) (l : List β)
    (h : ∀ x ∈ l, ∃ y, f x = .ok y) : ∃ out, mapE f l = .ok out := by
  induction l with
  | nil => exact ⟨[], rfl⟩
  | cons a as ih =>
    obtain ⟨y, hy⟩ := h a (by simp)
    obtain ⟨ys, hys⟩ := ih (fun x hx => h x (by simp [hx]))
    exact ⟨y :: ys, by simp [mapE, hy, hys]⟩

/-- **sparse_eq_spec** (L1 = L0, every input): the sparse branch multiplies each stored entry
`(r, c, x)` of the window by the weights of bins `i0 + r` and `j0 + c`: `(wt * wt) * x`. -/
theorem sparse_eq_spec (o : Ops ρ α) (cols : Cols α) (name : String) (w : List α)
    (hw : cols.lookup name = some w) (div : Bool) (i0 i1 j0 j1 : Nat) (raw : List (Nat × Nat × ρ)) :
    balancedSparse o cols name div i0 i1 j0 j1 raw = sparseSpec o w div i0 i1 j0 j1 raw := by
  simp only [balancedSparse, hw, sparseSpec]
  apply mapE_congr
  intro e _
  unfold sparseEntry
  rw [biases_fst_get, biases_snd_get]
  unfold entryCell
  by_cases h1 : e.1 < i1 - i0 <;> by_cases h2 : e.2.1 < j1 - j0 <;> simp [h1, h2] <;>
    cases wtAt o w div (i0 + e.1) <;> cases wtAt o w div (j0 + e.2.1) <;> simp

/-- **sparse_spec** (per entry): whenever the sparse branch answers, entry `k` of the answer keeps
its coordinates `(r, c)`, lies inside the window, and carries `(wt(i0+r) * wt(j0+c)) * raw`. -/
theorem sparse_spec (o : Ops ρ α) (cols : Cols α) (name : String) (w : List α)
    (hw : cols.lookup name = some w) (div : Bool) (i0 i1 j0 j1 : Nat) (raw : List (Nat × Nat × ρ))
    (out : List (Nat × Nat × α)) (h : balancedSparse o cols name div i0 i1 j0 j1 raw = .ok out) :
    out.length = raw.length ∧
    ∀ (k : Nat) r c x, raw[k]? = some (r, c, x) →
      r < i1 - i0 ∧ c < j1 - j0 ∧
      ∃ v, out[k]? = some (r, c, v) ∧ entryCell o w div (i0 + r) (j0 + c) x = some v := by
  rw [sparse_eq_spec o cols name w hw] at h
  obtain ⟨hl, hk⟩ := mapE_ok_get _ _ _ h
  refine ⟨hl, ?_⟩
  intro k r c x hx
  obtain ⟨y, hy, hf⟩ := hk k _ hx
  simp only at hf
  by_cases hwin : r < i1 - i0 ∧ c < j1 - j0
  · rw [if_pos hwin] at hf
    cases hcell : entryCell o w div (i0 + r) (j0 + c) x with
    | none => rw [hcell] at hf; cases hf
    | some v =>
      rw [hcell] at hf
      cases hf
      exact ⟨hwin.1, hwin.2, v, hy, rfl⟩
  · rw [if_neg hwin] at hf; cases hf

/-- the sparse branch does answer on every valid read: entries inside the window, window inside
the weight vector -/
theorem sparse_ok (o : Ops ρ α) (cols : Cols α) (name : String) (w : List α)
    (hw : cols.lookup name = some w) (div : Bool) (i0 i1 j0 j1 : Nat) (raw : List (Nat × Nat × ρ))
    (hi : i1 ≤ w.length) (hj : j1 ≤ w.length)
    (hin : ∀ e ∈ raw, e.1 < i1 - i0 ∧ e.2.1 < j1 - j0) :
    ∃ out, balancedSparse o cols name div i0 i1 j0 j1 raw = .ok out := by
  rw [sparse_eq_spec o cols name w hw]
  apply mapE_isOk
  intro e he
  have ⟨h1, h2⟩ := hin e he
  have ha : i0 + e.1 < w.length := by omega
  have hb : j0 + e.2.1 < w.length := by omega
  simp [h1, h2, entryCell, wtAt, List.getElem?_eq_getElem ha, List.getElem?_eq_getElem hb]

/-- **pixels_eq_spec** (L1 = L0, every input): the `balanced` column of the pixel form is, row by
row, `(wt(bin1) * wt(bin2)) * value`. -/
theorem pixels_eq_spec (o : Ops ρ α) (cols : Cols α) (name : String) (w : List α)
    (hw : cols.lookup name = some w) (div : Bool) (raw : List (Nat × Nat × ρ)) :
    balancedPixels o cols name div raw = pixelsSpec o w div raw := by
  simp only [balancedPixels, hw, pixelsSpec]
  apply mapE_congr
  intro e _
  unfold pixelEntry entryCell wtAt
  cases w[e.1]? <;> cases w[e.2.1]? <;> simp

/-- **pixels_spec** (per row) -/
theorem pixels_spec (o : Ops ρ α) (cols : Cols α) (name : String) (w : List α)
    (hw : cols.lookup name = some w) (div : Bool) (raw : List (Nat × Nat × ρ))
    (out : List α) (h : balancedPixels o cols name div raw = .ok out) :
    out.length = raw.length ∧
    ∀ (k : Nat) a b x, raw[k]? = some (a, b, x) →
      ∃ v, out[k]? = some v ∧ entryCell o w div a b x = some v := by
  rw [pixels_eq_spec o cols name w hw] at h
  obtain ⟨hl, hk⟩ := mapE_ok_get _ _ _ h
  refine ⟨hl, ?_⟩
  intro k a b x hx
  obtain ⟨y, hy, hf⟩ := hk k _ hx
  simp only at hf
  cases hcell : entryCell o w div a b x with
  | none => rw [hcell] at hf; cases hf
  | some v => rw [hcell] at hf; cases hf; exact ⟨_, hy, rfl⟩

theorem pixels_ok (o : Ops ρ α) (cols : Cols α) (name : String) (w : List α)
    (hw : cols.lookup name = some w) (div : Bool) (raw : List (Nat × Nat × ρ))
    (hin : ∀ e ∈ raw, e.1 < w.length ∧ e.2.1 < w.length) :
    ∃ out, balancedPixels o cols name div raw = .ok out := by
  rw [pixels_eq_spec o cols name w hw]
  apply mapE_isOk
  intro e he
  have ⟨h1, h2⟩ := hin e he
  simp [entryCell, wtAt, List.getElem?_eq_getElem h1, List.getElem?_eq_getElem h2]

/-- explicit value of `entryCell` when both weights exist -/
theorem entryCell_value (o : Ops ρ α) (w : List α) (div : Bool) (a b : Nat) (x : ρ) (wa wb : α)
    (ha : w[a]? = some wa) (hb : w[b]? = some wb) :
    entryCell o w div a b x = some (o.mul
      (o.mul (if div then o.inv wa else wa) (if div then o.inv wb else wb)) (o.ofRaw x)) := by
  simp [entryCell, wtAt, ha, hb]

/-- **dump_spec**: `cooler dump -b` is the pixel form on the column `weight`, multiplicative -/
theorem dump_spec (o : Ops ρ α) (cols : Cols α) (w : List α) (hw : cols.lookup "weight" = some w)
    (raw : List (Nat × Nat × ρ)) :
    dumpBalanced o cols raw = pixelsSpec o w false raw := by
  simp only [dumpBalanced, hw, pixelsSpec]
  apply mapE_congr
  intro e _
  unfold entryCell wtAt
  cases w[e.1]? <;> cases w[e.2.1]? <;> simp

/-! ## missing column, divisive default -/

/-- **missing_column_error**: asking for a weight column the bin table does not have is an error in
all three forms (and in `dump`), whatever the window and the data — never an unbalanced result. -/
theorem missing_column_error (o : Ops ρ α) (cols : Cols α) (name : String)
    (hw : cols.lookup name = none) (div : Bool) (i0 i1 j0 j1 : Nat)
    (rawD : List (List ρ)) (rawS rawP : List (Nat × Nat × ρ)) :
    balancedDense o cols name div i0 i1 j0 j1 rawD = .error .value ∧
    balancedSparse o cols name div i0 i1 j0 j1 rawS = .error .value ∧
    balancedPixels o cols name div rawP = .error .value := by
  simp [balancedDense, balancedSparse, balancedPixels, hw]

theorem dump_missing_error (o : Ops ρ α) (cols : Cols α) (hw : cols.lookup "weight" = none)
    (raw : List (Nat × Nat × ρ)) : dumpBalanced o cols raw = .error .other := by
  simp [dumpBalanced, hw]

/-- the same at the `Cooler.matrix` entry point: with balancing requested (`True` or a name) and
the column absent, all three forms fail -/
theorem cooler_missing_column_error (o : Ops ρ α) (cols : Cols α) (bal : Balance) (name : String)
    (hb : bal.column = some name) (hw : cols.lookup name = none) (dw : Option Bool)
    (i0 i1 j0 j1 : Nat) (rawD : List (List ρ)) (rawS rawP : List (Nat × Nat × ρ)) :
    coolerDense o cols bal dw i0 i1 j0 j1 rawD = .error .value ∧
    coolerSparse o cols bal dw i0 i1 j0 j1 rawS = .error .value ∧
    coolerPixels o cols bal dw rawP = .error .value := by
  simp only [coolerDense, coolerSparse, coolerPixels, hb, balancedDense, balancedSparse, balancedPixels, hw]
  exact ⟨rfl, rfl, rfl⟩

/-- `balance=False` returns the raw query result untouched -/
theorem cooler_off_raw (o : Ops ρ α) (cols : Cols α) (dw : Option Bool) (i0 i1 j0 j1 : Nat)
    (rawD : List (List ρ)) (rawS : List (Nat × Nat × ρ)) :
    coolerDense o cols .off dw i0 i1 j0 j1 rawD = .ok (.raw rawD) ∧
    coolerSparse o cols .off dw i0 i1 j0 j1 rawS = .ok (.raw rawS) ∧
    coolerPixels o cols .off dw rawS = .ok (.raw rawS) := by
  simp [coolerDense, coolerSparse, coolerPixels, Balance.column]

/-- **divisive_default_iff**: without an explicit flag, weights are divisive exactly for the
columns named `KR`, `VC`, `VC_SQRT`. -/
theorem divisive_default_iff (bal : Balance) :
    resolveDivisive bal none = true ↔
      ∃ s, bal = .named s ∧ (s = "KR" ∨ s = "VC" ∨ s = "VC_SQRT") := by
  cases bal with
  | off => simp [resolveDivisive]
  | on => simp [resolveDivisive]
  | named s => simp [resolveDivisive, divisiveNames]

/-- an explicit flag always wins -/
theorem divisive_explicit (bal : Balance) (d : Bool) : resolveDivisive bal (some d) = d := rfl

example : resolveDivisive (.named "KR") none = true := by decide
example : resolveDivisive (.named "weight") none = false := by decide
example : resolveDivisive .on none = false := by decide
example : resolveDivisive (.named "KR") (some false) = false := by decide

/-! ## non-vacuity: concrete reads over `Int` with a non-commutative, non-associative "product" -/

/-- a deliberately lawless carrier: `mul a b = 2a + 3b`, `inv a = 100 - a`, `ofRaw x = x + 1000` -/
def toyOps : Ops Int Int := ⟨fun a b => 2 * a + 3 * b, fun a => 100 - a, fun x => x + 1000⟩

def toyCols : Cols Int := [("weight", [1, 2, 3, 4]), ("KR", [5, 6, 7, 8])]

-- rectangular off-diagonal window rows [1,3) × cols [0,3), multiplicative
example : balancedDense toyOps toyCols "weight" false 1 3 0 3 [[7, 0, 9], [0, 5, 0]]
    = .ok [[2 * 1007 + 3 * (2 * 2 + 3 * 1), 2 * 1000 + 3 * (2 * 2 + 3 * 2), 2 * 1009 + 3 * (2 * 2 + 3 * 3)],
           [2 * 1000 + 3 * (2 * 3 + 3 * 1), 2 * 1005 + 3 * (2 * 3 + 3 * 2), 2 * 1000 + 3 * (2 * 3 + 3 * 3)]] := by
  rfl

-- the hypotheses of `dense_value` are satisfiable and its conclusion is the displayed number
example : ∃ out, balancedDense toyOps toyCols "KR" true 1 3 0 3 [[7, 0, 9], [0, 5, 0]] = .ok out ∧
    cell out 1 2 = some (2 * 1000 + 3 * (2 * (100 - 7) + 3 * (100 - 7))) :=
  dense_value toyOps toyCols "KR" [5, 6, 7, 8] (by decide) true 1 3 0 3 _ 1 2 (by decide) (by decide)
    0 7 7 (by decide) (by decide) (by decide)

-- windows with equal starts and different stops: the column weights are those of the column range
example : balancedDense toyOps toyCols "weight" false 1 2 1 3 [[1, 1]]
    = .ok [[2 * 1001 + 3 * (2 * 2 + 3 * 2), 2 * 1001 + 3 * (2 * 2 + 3 * 3)]] := by rfl

example : balancedSparse toyOps toyCols "weight" false 1 3 0 3 [(0, 0, 7), (0, 2, 9), (1, 1, 5)]
    = .ok [(0, 0, 2 * (2 * 2 + 3 * 1) + 3 * 1007), (0, 2, 2 * (2 * 2 + 3 * 3) + 3 * 1009),
           (1, 1, 2 * (2 * 3 + 3 * 2) + 3 * 1005)] := by rfl

example : balancedSparse toyOps toyCols "weight" false 1 3 0 3 [(2, 0, 7)] = .error .index := by rfl

example : balancedPixels toyOps toyCols "KR" true [(1, 0, 7), (1, 2, 9), (2, 1, 5)]
    = .ok [2 * (2 * (100 - 6) + 3 * (100 - 5)) + 3 * 1007, 2 * (2 * (100 - 6) + 3 * (100 - 7)) + 3 * 1009,
           2 * (2 * (100 - 7) + 3 * (100 - 6)) + 3 * 1005] := by rfl

example : dumpBalanced toyOps toyCols [(1, 0, 7)] = .ok [2 * (2 * 2 + 3 * 1) + 3 * 1007] := by rfl

example : balancedDense toyOps toyCols "missing" false 0 1 0 1 [[1]] = .error .value := by rfl
example : coolerPixels toyOps toyCols (.named "missing") none [(0, 0, 1)] = .error .value := by rfl
example : coolerPixels toyOps [("KR", [5, 6])] .on none [(0, 0, 1)] = .error .value := by rfl

/-! ## the model meets the property's contract

The contract (`cellOk`, `denseOk`, `sparseOk`, `pixelsOk` in the model file) accepts any bracketing of
the product of the three factors; the correspondence feeds the implementation's results to it.  These
theorems show that the bracketing the code uses today is accepted, for every input. -/

theorem denseCell_ok (o : Ops ρ α) (eqv : α → α → Bool) (hrefl : ∀ v, eqv v v = true)
    (w : List α) (div : Bool) (a b : Nat) (x : ρ) (v : α)
    (h : denseCell o w div a b x = some v) : cellOk o eqv w div a b x v = true := by
  unfold denseCell at h
  unfold cellOk
  cases ha : wtAt o w div a <;> cases hb : wtAt o w div b <;> simp [ha, hb] at h ⊢
  subst h
  simp [products3, hrefl]

theorem entryCell_ok (o : Ops ρ α) (eqv : α → α → Bool) (hrefl : ∀ v, eqv v v = true)
    (w : List α) (div : Bool) (a b : Nat) (x : ρ) (v : α)
    (h : entryCell o w div a b x = some v) : cellOk o eqv w div a b x v = true := by
  unfold entryCell at h
  unfold cellOk
  cases ha : wtAt o w div a <;> cases hb : wtAt o w div b <;> simp [ha, hb] at h ⊢
  subst h
  simp [products3, hrefl]

/-- a value accepted by the contract is a product of exactly the raw value, the weight of bin `a`
and the weight of bin `b` (so the contract is not vacuous: it pins the three factors) -/
theorem cellOk_factors (o : Ops ρ α) (eqv : α → α → Bool) (w : List α) (div : Bool) (a b : Nat) (x : ρ) (v : α)
    (h : cellOk o eqv w div a b x v = true) :
    ∃ wa wb, w[a]? = some wa ∧ w[b]? = some wb ∧
      ∃ p ∈ products3 o (o.ofRaw x) (if div then o.inv wa else wa) (if div then o.inv wb else wb), eqv v p = true := by
  unfold cellOk wtAt at h
  cases ha : w[a]? <;> cases hb : w[b]? <;> simp [ha, hb] at h
  rename_i wa wb
  exact ⟨wa, wb, rfl, rfl, by simpa using h⟩

/-- **dense_contract** -/
theorem dense_contract (o : Ops ρ α) (eqv : α → α → Bool) (hrefl : ∀ v, eqv v v = true)
    (cols : Cols α) (name : String) (w : List α)
    (hw : cols.lookup name = some w) (div : Bool) (i0 i1 j0 j1 : Nat) (raw : List (List ρ))
    (hi : i1 ≤ w.length) (hj : j1 ≤ w.length)
    (hrows : raw.length = i1 - i0) (hcols : ∀ row ∈ raw, row.length = j1 - j0) :
    ∃ out, balancedDense o cols name div i0 i1 j0 j1 raw = .ok out ∧
      denseOk o eqv w div i0 j0 raw out = true := by
  obtain ⟨out, hout, hlen, hrowlen⟩ := dense_shape o cols name w hw div i0 i1 j0 j1 raw hi hj hrows hcols
  refine ⟨out, hout, ?_⟩
  unfold denseOk
  simp only [Bool.and_eq_true, beq_iff_eq, List.all_eq_true, List.mem_range]
  refine ⟨by omega, ?_⟩
  intro r hr
  have hor : r < out.length := by omega
  rw [List.getElem?_eq_getElem hr, List.getElem?_eq_getElem hor]
  simp only [Bool.and_eq_true, beq_iff_eq, List.all_eq_true, List.mem_range]
  have hrl := hcols _ (List.getElem_mem hr)
  have hol := hrowlen _ (List.getElem_mem hor)
  refine ⟨by omega, ?_⟩
  intro c hc
  have hco : c < (out[r]).length := by omega
  rw [List.getElem?_eq_getElem hc, List.getElem?_eq_getElem hco]
  simp only
  apply denseCell_ok o eqv hrefl
  obtain ⟨out', hout', hcell⟩ := dense_spec o cols name w hw div i0 i1 j0 j1 raw r c (by omega) (by omega)
  have : out' = out := by rw [hout] at hout'; exact (Except.ok.inj hout').symm
  subst this
  have e1 : cell out' r c = some (out'[r][c]) := by
    simp [cell, List.getElem?_eq_getElem hor, List.getElem?_eq_getElem hco]
  have e2 : cell raw r c = some (raw[r][c]) := by
    simp [cell, List.getElem?_eq_getElem hr, List.getElem?_eq_getElem hc]
  rw [e1, e2] at hcell
  simpa using hcell.symm

/-- a successful `mapE` relates inputs and outputs pairwise -/
theorem mapE_zip_all {β γ : Type} (f : β → Except Err γ) (P : β × γ → Bool)
    (hP : ∀ x y, f x = .ok y → P (x, y) = true) (l : List β) (out : List γ)
    (h : mapE f l = .ok out) : out.length = l.length ∧ (l.zip out).all P = true := by
  induction l generalizing out with
  | nil =>
    simp only [mapE] at h
    cases h
    simp
  | cons a as ih =>
    simp only [mapE] at h
    cases hfa : f a with
    | error e => rw [hfa] at h; cases h
    | ok y =>
      rw [hfa] at h
      cases hrest : mapE f as with
      | error e => rw [hrest] at h; cases h
      | ok ys =>
        rw [hrest] at h
        cases h
        obtain ⟨hl, hall⟩ := ih ys hrest
        exact ⟨by simp [hl], by simp [List.zip_cons_cons, List.all_cons, hP a y hfa, hall]⟩

/-- **sparse_contract** -/
theorem sparse_contract (o : Ops ρ α) (eqv : α → α → Bool) (hrefl : ∀ v, eqv v v = true)
    (cols : Cols α) (name : String) (w : List α)
    (hw : cols.lookup name = some w) (div : Bool) (i0 i1 j0 j1 : Nat) (raw : List (Nat × Nat × ρ))
    (out : List (Nat × Nat × α)) (h : balancedSparse o cols name div i0 i1 j0 j1 raw = .ok out) :
    sparseOk o eqv w div i0 j0 raw out = true := by
  rw [sparse_eq_spec o cols name w hw] at h
  unfold sparseSpec at h
  have hP : ∀ (e : Nat × Nat × ρ) (y : Nat × Nat × α),
      (if e.1 < i1 - i0 ∧ e.2.1 < j1 - j0 then
        match entryCell o w div (i0 + e.1) (j0 + e.2.1) e.2.2 with
        | some v => Except.ok (e.1, e.2.1, v)
        | none => Except.error Err.index
      else Except.error Err.index) = Except.ok y →
      (fun (p : (Nat × Nat × ρ) × (Nat × Nat × α)) => p.2.1 == p.1.1 && p.2.2.1 == p.1.2.1 &&
        cellOk o eqv w div (i0 + p.1.1) (j0 + p.1.2.1) p.1.2.2 p.2.2.2) (e, y) = true := by
    intro e y hy
    by_cases hwin : e.1 < i1 - i0 ∧ e.2.1 < j1 - j0
    · rw [if_pos hwin] at hy
      cases hcell : entryCell o w div (i0 + e.1) (j0 + e.2.1) e.2.2 with
      | none => rw [hcell] at hy; cases hy
      | some v =>
        rw [hcell] at hy
        cases hy
        simp [entryCell_ok o eqv hrefl w div _ _ _ v hcell]
    · rw [if_neg hwin] at hy; cases hy
  obtain ⟨hl, hall⟩ := mapE_zip_all _
    (fun (p : (Nat × Nat × ρ) × (Nat × Nat × α)) => p.2.1 == p.1.1 && p.2.2.1 == p.1.2.1 &&
      cellOk o eqv w div (i0 + p.1.1) (j0 + p.1.2.1) p.1.2.2 p.2.2.2) hP raw out h
  unfold sparseOk
  simp only [hl, beq_self_eq_true, Bool.true_and]
  exact hall

/-- **pixels_contract** -/
theorem pixels_contract (o : Ops ρ α) (eqv : α → α → Bool) (hrefl : ∀ v, eqv v v = true)
    (cols : Cols α) (name : String) (w : List α)
    (hw : cols.lookup name = some w) (div : Bool) (raw : List (Nat × Nat × ρ))
    (out : List α) (h : balancedPixels o cols name div raw = .ok out) :
    pixelsOk o eqv w div raw out = true := by
  rw [pixels_eq_spec o cols name w hw] at h
  unfold pixelsSpec at h
  have hP : ∀ (e : Nat × Nat × ρ) (y : α),
      (match entryCell o w div e.1 e.2.1 e.2.2 with
        | some v => Except.ok v
        | none => Except.error Err.index) = Except.ok y →
      (fun (p : (Nat × Nat × ρ) × α) => cellOk o eqv w div p.1.1 p.1.2.1 p.1.2.2 p.2) (e, y) = true := by
    intro e y hy
    cases hcell : entryCell o w div e.1 e.2.1 e.2.2 with
    | none => rw [hcell] at hy; cases hy
    | some v =>
      rw [hcell] at hy
      cases hy
      exact entryCell_ok o eqv hrefl w div _ _ _ _ hcell
  obtain ⟨hl, hall⟩ := mapE_zip_all _
    (fun (p : (Nat × Nat × ρ) × α) => cellOk o eqv w div p.1.1 p.1.2.1 p.1.2.2 p.2) hP raw out h
  unfold pixelsOk
  simp only [hl, beq_self_eq_true, Bool.true_and]
  exact hall

/-- **dump_contract** -/
theorem dump_contract (o : Ops ρ α) (eqv : α → α → Bool) (hrefl : ∀ v, eqv v v = true)
    (cols : Cols α) (w : List α) (hw : cols.lookup "weight" = some w) (raw : List (Nat × Nat × ρ))
    (out : List α) (h : dumpBalanced o cols raw = .ok out) :
    pixelsOk o eqv w false raw out = true := by
  rw [dump_spec o cols w hw] at h
  unfold pixelsSpec at h
  have hP : ∀ (e : Nat × Nat × ρ) (y : α),
      (match entryCell o w false e.1 e.2.1 e.2.2 with
        | some v => Except.ok v
        | none => Except.error Err.index) = Except.ok y →
      (fun (p : (Nat × Nat × ρ) × α) => cellOk o eqv w false p.1.1 p.1.2.1 p.1.2.2 p.2) (e, y) = true := by
    intro e y hy
    cases hcell : entryCell o w false e.1 e.2.1 e.2.2 with
    | none => rw [hcell] at hy; cases hy
    | some v =>
      rw [hcell] at hy
      cases hy
      exact entryCell_ok o eqv hrefl w false _ _ _ _ hcell
  obtain ⟨hl, hall⟩ := mapE_zip_all _
    (fun (p : (Nat × Nat × ρ) × α) => cellOk o eqv w false p.1.1 p.1.2.1 p.1.2.2 p.2) hP raw out h
  unfold pixelsOk
  simp only [hl, beq_self_eq_true, Bool.true_and]
  exact hall

-- the contract is not vacuous: it accepts another bracketing of the same factors and rejects a
-- value built with the row weight used twice
example : cellOk toyOps (· == ·) [1, 2, 3, 4] false 1 2 7 (2 * (2 * 1007 + 3 * 2) + 3 * 3) = true := by rfl
example : cellOk toyOps (· == ·) [1, 2, 3, 4] false 1 2 7 (2 * (2 * 2 + 3 * 2) + 3 * 1007) = false := by rfl
example : denseOk toyOps (· == ·) [1, 2, 3, 4] false 1 1 [[1, 1]]
    [[2 * 1001 + 3 * (2 * 2 + 3 * 2), 2 * 1001 + 3 * (2 * 2 + 3 * 3)]] = true := by rfl
example : denseOk toyOps (· == ·) [1, 2, 3, 4] false 1 1 [[1, 1]]
    [[2 * 1001 + 3 * (2 * 2 + 3 * 2), 2 * 1001 + 3 * (2 * 2 + 3 * 2)]] = false := by rfl

end Cooler.C12
