import CoolerModel.Props.C15Core
/-!
# C15, continued: the link-nesting bound is an invariant of histories

`list_exact_soft` needs `StableLinks` ("soft links nested less than `LINKFUEL` deep") as a hypothesis
on the state.  A per-link depth is NOT stable under operations (a dangling link acquires whatever
depth its target is later given), so the invariant kept here is about the set of link TARGETS:

* `SatFS Q` — every stored entry satisfies `Q` — is kept by every operation of the model, whatever
  its outcome, provided `Q` holds of groups and datasets and of the one link entry the operation may
  create (`step_sat`, `run_sat`).  Instances: `NoExt` (no external link) and `TargetsIn Ts` (every
  stored soft link's target path belongs to the list `Ts`).
* `stable_of_targets` — without external links, if all soft-link targets lie in a list of at most
  `LINKFUEL - 1 = 7` paths then `StableLinks` holds.  (Nested resolutions of one path go through
  pairwise different targets, or never end; counted here by the growth of the set of targets that
  resolve with budget `n`.)
* `list_exact_soft_history` — after ANY history from the empty file system with no cross-file
  `ln -s` and at most 7 `ln -s` altogether, whenever the listing completes it is exact.
* `depth_exceeded_witness` — nine chained links do exceed the model's budget.
-/
namespace Cooler.C15
open Cooler.FileModel

/-! ### a property of entries kept by every operation -/

/-- `Q` holds of every group and every dataset (so it can only fail on link entries) -/
class ObjClosed (Q : Entry → Prop) : Prop where
  group : ∀ o a, Q (.group o a)
  dataset : ∀ c, Q (.dataset c)

def SatFile (Q : Entry → Prop) (h : H5File) : Prop := ∀ k e, lookupK h.entries k = some e → Q e
def SatFS (Q : Entry → Prop) (fs : FS) : Prop := ∀ f h, getFile fs f = some h → SatFile Q h
def RegionSat (Q : Entry → Prop) (new : Entries) : Prop := ∀ r e, lookupK new r = some e → Q e

section Sat
variable {Q : Entry → Prop} [ObjClosed Q]

theorem regionSat_of_all {new : Entries} (h : new.all (fun p => isObjB p.2) = true) : RegionSat Q new := by
  intro r e hr
  rw [List.all_eq_true] at h
  have := h _ (lookupK_mem hr)
  cases e with
  | group o a => exact ObjClosed.group o a
  | dataset c => exact ObjClosed.dataset c
  | soft t => simp [isObjB] at this
  | ext g t => simp [isObjB] at this

theorem regionSat_coolerRegion (o c : Nat) : RegionSat Q (coolerRegion o c) := regionSat_of_all rfl

theorem regionSat_parts (o c : Nat) : ∀ part ∈ payloadParts o c, RegionSat Q part.2 := by
  intro part hp
  simp only [payloadParts, List.mem_cons, List.not_mem_nil, or_false] at hp
  rcases hp with rfl | rfl | rfl | rfl <;> exact regionSat_of_all rfl

omit [ObjClosed Q] in
theorem regionSat_getRegion {h : H5File} (hl : SatFile Q h) (S : Path) : RegionSat Q (getRegion h.entries S) := by
  intro r e hr
  rw [lookupK_getRegion] at hr
  exact hl _ _ hr

theorem regionSat_shift {new : Entries} (d : Nat) (hn : RegionSat Q new) : RegionSat Q (shiftOids d new) := by
  intro r e hr
  rw [lookupK_shiftOids] at hr
  cases hr' : lookupK new r with
  | none => simp [hr'] at hr
  | some e' =>
    simp only [hr', Option.map_some, Option.some.injEq] at hr
    subst hr
    cases e' with
    | group o a => exact ObjClosed.group _ _
    | dataset c => exact hn r _ hr'
    | soft t => exact hn r _ hr'
    | ext g t => exact hn r _ hr'

omit [ObjClosed Q] in
theorem regionSat_single {e : Entry} (he : Q e) : RegionSat Q [([], e)] := by
  intro r e' hr
  simp only [lookupK] at hr
  split at hr
  · simp at hr; exact hr ▸ he
  · simp at hr

theorem sat_emptyFile : SatFile Q emptyFile := by
  intro k e hk
  simp only [emptyFile, lookupK] at hk
  split at hk
  · simp at hk; exact hk ▸ ObjClosed.group _ _
  · simp at hk

theorem sat_setEntry_group {h : H5File} (hl : SatFile Q h) (k : Path) (o : Nat) (a : List (String × String)) (nx : Nat) :
    SatFile Q ⟨setEntry h.entries k (.group o a), nx⟩ := by
  intro k' e hk
  simp only [lookupK_setEntry] at hk
  split at hk
  · simp at hk; exact hk ▸ ObjClosed.group _ _
  · exact hl _ _ hk

omit [ObjClosed Q] in
theorem sat_putRegion {h : H5File} (hl : SatFile Q h) (D : Path) {new : Entries} (hn : RegionSat Q new) (nx : Nat) :
    SatFile Q ⟨putRegion h.entries D new, nx⟩ := by
  intro k e hk
  simp only [lookupK_putRegion] at hk
  split at hk
  · exact hn _ _ hk
  · exact hl _ _ hk

omit [ObjClosed Q] in
theorem sat_removeUnder {h : H5File} (hl : SatFile Q h) (L : Path) (nx : Nat) : SatFile Q ⟨removeUnder L h.entries, nx⟩ := by
  intro k e hk
  simp only [lookupK_removeUnder] at hk
  split at hk
  · simp at hk
  · exact hl _ _ hk

omit [ObjClosed Q] in
theorem sat_setFile {fs : FS} (hl : SatFS Q fs) {f : String} {h : H5File} (hh : SatFile Q h) :
    SatFS Q (setFile fs f h) := by
  intro g h' hg
  rw [getFile_setFile] at hg
  by_cases e : f = g
  · simp [e] at hg; subst hg; exact hh
  · simp [e] at hg; exact hl g h' hg

theorem mkdirP_sat (fs : FS) (f : String) :
    ∀ (q : List String) (h : H5File) (cur : Path) (h1 : H5File) (P : Path),
      SatFile Q h → mkdirP fs f h cur q = .ok (h1, P) → SatFile Q h1 := by
  intro q
  induction q with
  | nil =>
    intro h cur h1 P hl hm
    simp only [mkdirP, Except.ok.injEq, Prod.mk.injEq] at hm
    obtain ⟨rfl, rfl⟩ := hm
    exact hl
  | cons x rest ih =>
    intro h cur h1 P hl hm
    rw [mkdirP] at hm
    split at hm
    · split at hm
      · simp at hm
      · exact ih _ _ h1 P (sat_setEntry_group hl _ _ _ _) hm
    · exact ih _ _ h1 P hl hm
    · simp at hm
    · split at hm
      · split at hm
        · split at hm
          · exact ih _ _ h1 P hl hm
          · simp at hm
        · simp at hm
      · simp at hm
    · simp at hm

theorem placeAt_sat {fs : FS} (hl : SatFS Q fs) {f : String} {dp : Path} {new : H5File → Entries × Nat}
    {ex : ErrClass} {fs' : FS} {oc : Outcome} (hrel : ∀ h1, RegionSat Q (new h1).1)
    (h : placeAt fs f dp new ex = (fs', oc)) : SatFS Q fs' := by
  by_cases hoc : oc = .ok
  · subst hoc
    obtain ⟨h0, h1, P, x, hg, _, hm, _, rfl⟩ := placeAt_ok h
    exact sat_setFile hl (sat_putRegion (mkdirP_sat fs f _ h0 [] h1 P (hl f h0 hg) hm) _ (hrel h1) _)
  · rw [placeAt_not_ok h hoc]; exact hl

theorem deepCopyTo_sat {fs1 : FS} (hl : SatFS Q fs1) {g : String} {S : Path} {df : String} {dp : Path} {fs' : FS}
    {oc : Outcome} (h : deepCopyTo fs1 g S df dp = (fs', oc)) : SatFS Q fs' := by
  unfold deepCopyTo at h
  split at h
  · rw [← (Prod.mk.inj h).1]; exact hl
  · rename_i hs hg
    split at h
    · by_cases hsoft : dstThroughSoft fs1 df dp = true
      · simp only [hsoft, if_true] at h
        rw [← (Prod.mk.inj h).1]; exact hl
      · simp only [hsoft, Bool.false_eq_true, if_false] at h
        exact placeAt_sat hl (fun h1 => regionSat_shift _ (regionSat_getRegion (hl g hs hg) S)) h
    · rw [← (Prod.mk.inj h).1]; exact hl

omit [ObjClosed Q] in
theorem unlink_sat {fs : FS} (hl : SatFS Q fs) {f : String} {p : Path} {fs' : FS} (h : unlink fs f p = .ok fs') :
    SatFS Q fs' := by
  obtain ⟨y, Ps, hh, _, _, hg, rfl⟩ := unlink_ok h
  exact sat_setFile hl (sat_removeUnder (hl f hh hg) _ _)

theorem hardLinkSame_sat {fs1 : FS} (hl : SatFS Q fs1) {sf : String} {sp dp : Path} {rename : Bool} {fs' : FS}
    {oc : Outcome} (h : hardLinkSame fs1 sf sp dp rename = (fs', oc)) : SatFS Q fs' := by
  unfold hardLinkSame at h
  split at h
  · rw [← (Prod.mk.inj h).1]; exact hl
  · rename_i g S _
    split at h
    · rw [← (Prod.mk.inj h).1]; exact hl
    · split at h
      · rw [← (Prod.mk.inj h).1]; exact hl
      · rename_i hs hg
        have hrel : ∀ h1 : H5File, RegionSat Q ((fun h1 : H5File => (getRegion hs.entries S, h1.next)) h1).1 :=
          fun _ => regionSat_getRegion (hl g hs hg) S
        split at h
        · split at h
          · rename_i fs2 hp
            have hl2 : SatFS Q fs2 := placeAt_sat hl hrel hp
            split at h
            · split at h
              · rw [← (Prod.mk.inj h).1]; exact hl2
              · split at h
                · split at h
                  · rename_i fs3 hun
                    rw [← (Prod.mk.inj h).1]; exact unlink_sat hl2 hun
                  · rw [← (Prod.mk.inj h).1]; exact hl2
                · rw [← (Prod.mk.inj h).1]; exact hl2
            · rw [← (Prod.mk.inj h).1]; exact hl2
          · exact placeAt_sat hl hrel h
        · rw [← (Prod.mk.inj h).1]; exact hl

theorem copyChildren_sat {fs : FS} (hl : SatFS Q fs) (g : String) (S : Path) (df : String) :
    ∀ (cs : List String) (h h1 : H5File) (oc : Outcome), SatFile Q h →
      copyChildren fs g S df h cs = (h1, oc) → SatFile Q h1 := by
  intro cs
  induction cs with
  | nil =>
    intro h h1 oc hh hc
    simp only [copyChildren, Prod.mk.injEq] at hc
    rw [← hc.1]; exact hh
  | cons x rest ih =>
    intro h h1 oc hh hc
    rw [copyChildren] at hc
    split at hc
    · rw [← (Prod.mk.inj hc).1]; exact hh
    · split at hc
      · rw [← (Prod.mk.inj hc).1]; exact hh
      · rename_i g' Q' _
        split at hc
        · rw [← (Prod.mk.inj hc).1]; exact hh
        · split at hc
          · rw [← (Prod.mk.inj hc).1]; exact hh
          · rename_i hs hgs
            exact ih _ h1 oc (sat_putRegion hh _ (regionSat_shift _ (regionSat_getRegion (hl g' hs hgs) Q')) _) hc

theorem copyToRoot_sat {fs1 : FS} (hl : SatFS Q fs1) {g : String} {S : Path} {df : String} {fs' : FS} {oc : Outcome}
    (h : copyToRoot fs1 g S df = (fs', oc)) : SatFS Q fs' := by
  unfold copyToRoot at h
  split at h
  · rename_i hs hd hgs hgd
    split at h
    · split at h
      · rw [← (Prod.mk.inj h).1]; exact hl
      · split at h
        · split at h
          · rw [← (Prod.mk.inj h).1]; exact hl
          · split at h
            · rename_i h1 hcc
              rw [← (Prod.mk.inj h).1]
              exact sat_setFile hl (sat_setEntry_group (copyChildren_sat hl g S df _ hd h1 _ (hl df hd hgd) hcc) _ _ _ _)
            · rename_i h1 oc' _ hcc
              rw [← (Prod.mk.inj h).1]
              exact sat_setFile hl (copyChildren_sat hl g S df _ hd h1 _ (hl df hd hgd) hcc)
        · rw [← (Prod.mk.inj h).1]; exact hl
    · rw [← (Prod.mk.inj h).1]; exact hl
  · rw [← (Prod.mk.inj h).1]; exact hl

theorem copyCross_sat {fs1 : FS} (hl : SatFS Q fs1) {v : Variant} {sf : String} {sp : Path} {df : String} {dp : Path}
    {rename : Bool} {fs' : FS} {oc : Outcome} (h : copyCross fs1 v sf sp df dp rename = (fs', oc)) : SatFS Q fs' := by
  unfold copyCross at h
  split at h
  · rw [← (Prod.mk.inj h).1]; exact hl
  · rename_i g S _
    have hl2 : ∀ fs2 oc2, (if dp = [] then copyToRoot fs1 g S df else deepCopyTo fs1 g S df dp) = (fs2, oc2) →
        SatFS Q fs2 := by
      intro fs2 oc2 h2
      split at h2
      · exact copyToRoot_sat hl h2
      · exact deepCopyTo_sat hl h2
    split at h
    · rename_i fs2 h2
      split at h
      · split at h
        · rename_i fs3 hun
          rw [← (Prod.mk.inj h).1]; exact unlink_sat (hl2 _ _ h2) hun
        · rw [← (Prod.mk.inj h).1]; exact hl2 _ _ h2
      · rw [← (Prod.mk.inj h).1]; exact hl2 _ _ h2
    · exact hl2 _ _ h

theorem afterOpen_sat {fs : FS} (hl : SatFS Q fs) (df : String) (ow : Bool) : SatFS Q (afterOpen fs df ow) := by
  unfold afterOpen
  split
  · exact sat_setFile hl sat_emptyFile
  · exact hl

/-- `_copy`, any flags, any outcome: the one entry it may create that is not a copy is the link of
`ln -s` — a soft link with target `sp` inside one file, an external link `(sf, sp)` between two -/
theorem copyOp_sat {fs : FS} (hl : SatFS Q fs) {v : Variant} {sf : String} {sp : Path} {df : String} {dp : Path}
    {ow link rename soft : Bool} {fs' : FS} {oc : Outcome}
    (hnew : soft = true → (sf = df → Q (.soft sp)) ∧ (sf ≠ df → Q (.ext sf sp)))
    (h : copyOp fs v sf sp df dp ow link rename soft = (fs', oc)) : SatFS Q fs' := by
  have hl1 := afterOpen_sat hl df ow
  rcases copyOp_cases h with rfl | rfl | hb
  · exact hl
  · exact hl1
  · split at hb
    · rename_i hsame
      split at hb
      · exact hardLinkSame_sat hl1 hb
      · split at hb
        · rename_i hs
          exact placeAt_sat hl1 (fun _ => regionSat_single ((hnew hs).1 hsame)) hb
        · unfold copySame at hb
          split at hb
          · rw [← (Prod.mk.inj hb).1]; exact hl1
          · exact deepCopyTo_sat hl1 hb
    · rename_i hdiff
      split at hb
      · rw [← (Prod.mk.inj hb).1]; exact hl1
      · split at hb
        · rename_i hs
          exact placeAt_sat hl1 (fun _ => regionSat_single ((hnew hs).2 hdiff)) hb
        · exact copyCross_sat hl1 hb

theorem openFile_sat {fs : FS} (hl : SatFS Q fs) {f : String} {mode : Mode} {fs1 : FS}
    (h : openFile fs f mode = .ok fs1) : SatFS Q fs1 := by
  cases mode <;> simp only [openFile] at h
  · simp only [Except.ok.injEq] at h; subst h; exact sat_setFile hl sat_emptyFile
  · split at h
    · simp only [Except.ok.injEq] at h; subst h; exact hl
    · simp only [Except.ok.injEq] at h; subst h; exact sat_setFile hl sat_emptyFile
  · split at h
    · simp only [Except.ok.injEq] at h; subst h; exact hl
    · simp at h

theorem sat_rootParts {hh : H5File} (hl : SatFile Q hh) (o c nx : Nat) : SatFile Q ⟨rootParts hh.entries o c, nx⟩ := by
  have hp := regionSat_parts (Q := Q) o c
  simp only [payloadParts, List.mem_cons, List.not_mem_nil, or_false, forall_eq_or_imp, forall_eq] at hp
  obtain ⟨p1, p2, p3, p4⟩ := hp
  simp only [rootParts, payloadParts, List.foldl_cons, List.foldl_nil]
  have w1 := sat_putRegion hl ["bins"] p1 0
  have w2 := sat_putRegion w1 ["chroms"] p2 0
  have w3 := sat_putRegion w2 ["indexes"] p3 0
  exact sat_putRegion w3 ["pixels"] p4 nx

theorem createCooler_sat {fs : FS} (hl : SatFS Q fs) {f : String} {p : Path} {mode : Mode} {c : Nat} {fs' : FS}
    {oc : Outcome} (h : createCooler fs f p mode c = (fs', oc)) : SatFS Q fs' := by
  rcases createCooler_cases h with ⟨rfl, _⟩ | ⟨fs1, hh, ho, hg, hcase⟩
  · exact hl
  · have hl1 := openFile_sat hl ho
    have hlh := hl1 f hh hg
    rcases hcase with ⟨_, hc⟩ | ⟨x, _, hc⟩
    · unfold createRoot at hc
      split at hc
      · split at hc
        · rw [← (Prod.mk.inj hc).1]; exact hl1
        · rw [← (Prod.mk.inj hc).1]
          exact sat_setFile hl1 (sat_setEntry_group (h := ⟨rootParts hh.entries hh.next c, hh.next + 5⟩)
            (sat_rootParts hlh _ _ _) _ _ _ _)
      · rw [← (Prod.mk.inj hc).1]; exact hl1
    · unfold createAt at hc
      split at hc
      · rw [← (Prod.mk.inj hc).1]; exact hl1
      · rename_i h1 P hmk
        split at hc
        · rw [← (Prod.mk.inj hc).1]; exact hl1
        · split at hc
          · rw [← (Prod.mk.inj hc).1]; exact hl1
          · rw [← (Prod.mk.inj hc).1]
            exact sat_setFile hl1 (sat_putRegion (mkdirP_sat fs1 f _ hh [] h1 P hlh hmk) _ (regionSat_coolerRegion _ _) _)

theorem setNote_sat {fs : FS} (hl : SatFS Q fs) {f value : String} {fs' : FS} {oc : Outcome}
    (h : setNote fs f value = (fs', oc)) : SatFS Q fs' := by
  unfold setNote at h
  split at h
  · rw [← (Prod.mk.inj h).1]; exact hl
  · rename_i fs1 ho
    have hl1 := openFile_sat hl ho
    split at h
    · rw [← (Prod.mk.inj h).1]; exact hl1
    · rename_i hh hg
      split at h
      · rw [← (Prod.mk.inj h).1]
        exact sat_setFile hl1 (sat_setEntry_group (hl1 f hh hg) _ _ _ _)
      · rw [← (Prod.mk.inj h).1]; exact hl1

end Sat

/-- the link entry an operation may create satisfies `Q` (only `ln -s` creates one: a soft link inside
one file, an external link between two) -/
def OpOK (Q : Entry → Prop) : Op → Prop
  | .ln sf sp df _ true _ => (sf = df → Q (.soft sp)) ∧ (sf ≠ df → Q (.ext sf sp))
  | _ => True

/-- **every operation of the model** — create (w / a / r+), cp, mv, ln, ln -s, the attribute write —
**keeps `SatFS Q`, whatever its outcome** (success, refusal, failure half-way) -/
theorem step_sat {Q : Entry → Prop} [ObjClosed Q] {fs : FS} (hl : SatFS Q fs) (v : Variant) (op : Op)
    (hop : OpOK Q op) : SatFS Q (step v fs op).1 := by
  cases op with
  | create f p m c => exact createCooler_sat hl (rfl : createCooler fs f p m c = (_, _))
  | cp sf sp df dp o =>
    exact copyOp_sat hl (by simp) (rfl : copyOp fs v sf sp df dp o false false false = (_, _))
  | mv sf sp df dp o =>
    exact copyOp_sat hl (by simp) (rfl : copyOp fs v sf sp df dp o false true false = (_, _))
  | ln sf sp df dp s o =>
    cases s with
    | false => exact copyOp_sat hl (by simp) (rfl : copyOp fs v sf sp df dp o true false false = (_, _))
    | true => exact copyOp_sat hl (fun _ => hop) (rfl : copyOp fs v sf sp df dp o false false true = (_, _))
  | note f x => exact setNote_sat hl (rfl : setNote fs f x = (_, _))

theorem run_sat {Q : Entry → Prop} [ObjClosed Q] (v : Variant) :
    ∀ (ops : List Op) (fs : FS), SatFS Q fs → (∀ op ∈ ops, OpOK Q op) → SatFS Q (run v fs ops) := by
  intro ops
  induction ops with
  | nil => intro fs hl _; exact hl
  | cons op ops ih =>
    intro fs hl hops
    simp only [run, List.foldl_cons]
    exact ih _ (step_sat hl v op (hops op (by simp))) (fun o ho => hops o (List.mem_cons_of_mem _ ho))

theorem satFS_nil (Q : Entry → Prop) : SatFS Q [] := fun f h hg => absurd hg (by simp [getFile])


/-! ### the two instances -/

def NoExtQ : Entry → Prop := fun e => ∀ g t, e ≠ .ext g t
instance : ObjClosed NoExtQ where
  group := fun _ _ _ _ h => nomatch h
  dataset := fun _ _ _ h => nomatch h

/-- every stored soft link's target path belongs to `Ts` -/
def TargetQ (Ts : List Path) : Entry → Prop := fun e => ∀ t, e = .soft t → t ∈ Ts
instance (Ts : List Path) : ObjClosed (TargetQ Ts) where
  group := fun _ _ _ h => nomatch h
  dataset := fun _ _ h => nomatch h

theorem noExt_of_sat {fs : FS} (h : SatFS NoExtQ fs) : NoExt fs := by
  intro g hh k g' t hg hl
  exact h g hh hg k _ hl g' t rfl

/-! ### resolution stays in its file; followers that agree on the targets give the same resolution -/

theorem lookupE_some {fs : FS} {g : String} {k : Path} {e : Entry} (h : lookupE fs g k = some e) :
    ∃ hh, getFile fs g = some hh ∧ lookupK hh.entries k = some e := by
  unfold lookupE at h
  cases hg : getFile fs g with
  | none => simp [hg] at h
  | some hh => exact ⟨hh, rfl, by simpa [hg] using h⟩

section Depth
variable {fs : FS} (hne : NoExt fs)
include hne

theorem stepWith_file (g : String) {F : String → Path → Option Loc} (hF : ∀ t l, F g t = some l → l.1 = g)
    {acc : Option Loc} {x : String} {l : Loc} (hacc : ∀ l0, acc = some l0 → l0.1 = g)
    (h : stepWith fs F acc x = some l) : l.1 = g := by
  unfold stepWith at h
  cases acc with
  | none => simp at h
  | some a0 =>
    obtain ⟨f0, P0⟩ := a0
    have hf0 : f0 = g := hacc _ rfl
    subst hf0
    simp only at h
    cases hl : lookupE fs f0 (P0 ++ [x]) with
    | none => simp [hl] at h
    | some e =>
      rw [hl] at h
      cases e with
      | group o a => simp only [Option.some.injEq] at h; rw [← h]
      | dataset c => simp only [Option.some.injEq] at h; rw [← h]
      | soft t => exact hF t l h
      | ext g' t =>
        obtain ⟨hh, hg, hk⟩ := lookupE_some hl
        exact absurd hk (hne f0 hh _ g' t hg)

theorem foldl_file (g : String) {F : String → Path → Option Loc} (hF : ∀ t l, F g t = some l → l.1 = g) :
    ∀ (p : Path) (acc : Option Loc) (l : Loc), (∀ l0, acc = some l0 → l0.1 = g) →
      p.foldl (stepWith fs F) acc = some l → l.1 = g := by
  intro p
  induction p with
  | nil => intro acc l hacc h; exact hacc l h
  | cons x p ih =>
    intro acc l hacc h
    simp only [List.foldl_cons] at h
    exact ih _ l (fun l0 h0 => stepWith_file hne g hF hacc h0) h

omit hne in
theorem start_file' (fs : FS) (g : String) : ∀ l0, start fs g = some l0 → l0.1 = g := by
  intro l0 h
  unfold start at h
  split at h
  · simp at h
  · simp only [Option.some.injEq] at h; rw [← h]

/-- without external links a resolution never leaves its file -/
theorem resolveN_file : ∀ (n : Nat) (g : String) (p : Path) (l : Loc), resolveN fs n g p = some l → l.1 = g := by
  intro n
  induction n with
  | zero =>
    intro g p l h
    rw [resolveN_eq] at h
    exact foldl_file hne g (by intro t l' hh; simp [followN] at hh) p _ l (start_file' fs g) h
  | succ n ih =>
    intro g p l h
    rw [resolveN_eq] at h
    exact foldl_file hne g (fun t l' hh => ih g t l' hh) p _ l (start_file' fs g) h

variable {Ts : List Path} (hT : SatFS (TargetQ Ts) fs)
include hT

theorem foldl_agree (g : String) {F G : String → Path → Option Loc} (hFG : ∀ t ∈ Ts, F g t = G g t)
    (hF : ∀ t l, F g t = some l → l.1 = g) :
    ∀ (p : Path) (acc : Option Loc), (∀ l0, acc = some l0 → l0.1 = g) →
      p.foldl (stepWith fs F) acc = p.foldl (stepWith fs G) acc := by
  intro p
  induction p with
  | nil => intro acc _; rfl
  | cons x p ih =>
    intro acc hacc
    simp only [List.foldl_cons]
    have hstep : stepWith fs F acc x = stepWith fs G acc x := by
      unfold stepWith
      cases acc with
      | none => rfl
      | some a0 =>
        obtain ⟨f0, P0⟩ := a0
        have hf0 : f0 = g := hacc _ rfl
        subst hf0
        simp only
        cases hl : lookupE fs f0 (P0 ++ [x]) with
        | none => rfl
        | some e =>
          cases e with
          | group o a => rfl
          | dataset c => rfl
          | soft t =>
            obtain ⟨hh, hg, hk⟩ := lookupE_some hl
            exact hFG t (hT f0 hh hg _ _ hk t rfl)
          | ext g' t =>
            obtain ⟨hh, hg, hk⟩ := lookupE_some hl
            exact absurd hk (hne f0 hh _ g' t hg)
    rw [← hstep]
    exact ih _ (fun l0 h0 => stepWith_file hne g hF hacc h0)

/-- the targets resolve alike with budgets `n` and `n + 1` (in file `g`) -/
def Agree (fs : FS) (Ts : List Path) (g : String) (n : Nat) : Prop :=
  ∀ t ∈ Ts, resolveN fs n g t = resolveN fs (n + 1) g t

theorem agree_next {g : String} {n : Nat} (ha : Agree fs Ts g n) (p : Path) :
    resolveN fs (n + 1) g p = resolveN fs (n + 2) g p := by
  rw [resolveN_eq, resolveN_eq]
  exact foldl_agree hne hT g (F := resolveN fs n) (G := resolveN fs (n + 1)) ha
    (fun t l h => resolveN_file hne n g t l h) p _ (start_file' fs g)

theorem agree_base {g : String} (h0 : ∀ t ∈ Ts, resolveN fs 0 g t = none) (p : Path) :
    resolveN fs 0 g p = resolveN fs 1 g p := by
  rw [resolveN_eq, resolveN_eq]
  exact foldl_agree hne hT g (F := fun _ _ => none) (G := resolveN fs 0) (fun t ht => (h0 t ht).symm)
    (by intro t l h; simp at h) p _ (start_file' fs g)

theorem agree_succ {g : String} {n : Nat} (ha : Agree fs Ts g n) : Agree fs Ts g (n + 1) :=
  fun t _ => agree_next hne hT ha t

theorem agree_const {g : String} {n : Nat} (ha : Agree fs Ts g n) :
    ∀ (k : Nat) (p : Path), resolveN fs (n + 1 + k) g p = resolveN fs (n + 1) g p := by
  have hall : ∀ k, Agree fs Ts g (n + k) := by
    intro k
    induction k with
    | zero => exact ha
    | succ k ih => exact agree_succ hne hT ih
  intro k
  induction k with
  | zero => intro p; rfl
  | succ k ih =>
    intro p
    have := agree_next hne hT (hall k) p
    have e1 : n + 1 + (k + 1) = n + k + 2 := by omega
    have e2 : n + 1 + k = n + k + 1 := by omega
    rw [e1, ← this, ← e2, ih p]

/-! counting the targets that resolve with budget `n` -/

omit hne hT in
theorem countP_le_of_imp {α : Type} (p q : α → Bool) (l : List α) (hpq : ∀ x ∈ l, p x = true → q x = true) :
    l.countP p ≤ l.countP q := by
  induction l with
  | nil => simp
  | cons a l ih =>
    have ih' := ih (fun x hx => hpq x (List.mem_cons_of_mem _ hx))
    simp only [List.countP_cons]
    by_cases hp : p a = true
    · have := hpq a (by simp) hp
      simp [hp, this]; omega
    · by_cases hq : q a = true
      · simp [hp, hq]; omega
      · simp [hp, hq]; omega

omit hne hT in
theorem countP_lt_of_witness {α : Type} (p q : α → Bool) (l : List α) (hpq : ∀ x ∈ l, p x = true → q x = true)
    (hex : ∃ x ∈ l, p x = false ∧ q x = true) : l.countP p < l.countP q := by
  induction l with
  | nil => obtain ⟨x, hx, _⟩ := hex; simp at hx
  | cons a l ih =>
    have hle := countP_le_of_imp p q l (fun x hx => hpq x (List.mem_cons_of_mem _ hx))
    simp only [List.countP_cons]
    obtain ⟨x, hx, hpx, hqx⟩ := hex
    simp only [List.mem_cons] at hx
    rcases hx with rfl | hx
    · simp [hpx, hqx]; omega
    · have ih' := ih (fun y hy => hpq y (List.mem_cons_of_mem _ hy)) ⟨x, hx, hpx, hqx⟩
      by_cases hp : p a = true
      · have := hpq a (by simp) hp
        simp [hp, this]; omega
      · by_cases hq : q a = true
        · simp [hp, hq]; omega
        · simp [hp, hq]; omega

omit hne hT in
/-- number of targets that resolve with budget `n` -/
def cnt (fs : FS) (Ts : List Path) (g : String) (n : Nat) : Nat :=
  Ts.countP (fun t => (resolveN fs n g t).isSome)

omit hne hT in
theorem not_agree_witness {g : String} {n : Nat} (h : ¬ Agree fs Ts g n) :
    ∃ t ∈ Ts, (resolveN fs n g t).isSome = false ∧ (resolveN fs (n + 1) g t).isSome = true := by
  unfold Agree at h
  obtain ⟨t, ht⟩ := Classical.not_forall.mp h
  obtain ⟨hmem, hneq⟩ := Classical.not_imp.mp ht
  refine ⟨t, hmem, ?_⟩
  cases h1 : resolveN fs n g t with
  | some l =>
    exfalso
    apply hneq
    rw [h1, resolveN_mono (Sub.refl fs) n (n + 1) (by omega) g t l h1]
  | none =>
    refine ⟨rfl, ?_⟩
    cases h2 : resolveN fs (n + 1) g t with
    | none => exact absurd (by rw [h1, h2]) hneq
    | some l => rfl

omit hne hT in
theorem cnt_strict {g : String} {n : Nat} (h : ¬ Agree fs Ts g n) : cnt fs Ts g n < cnt fs Ts g (n + 1) := by
  unfold cnt
  apply countP_lt_of_witness
  · intro t _ hs
    cases h1 : resolveN fs n g t with
    | none => simp [h1] at hs
    | some l => simp [resolveN_mono (Sub.refl fs) n (n + 1) (by omega) g t l h1]
  · exact not_agree_witness h

theorem cnt_lower {g : String} : ∀ n, (∀ m, m ≤ n → ¬ Agree fs Ts g m) → n + 1 ≤ cnt fs Ts g n := by
  intro n
  induction n with
  | zero =>
    intro h
    have h0 := h 0 (Nat.le_refl _)
    -- some target resolves without any link, or budget 1 resolves nothing more than budget 0
    have : ∃ t ∈ Ts, (resolveN fs 0 g t).isSome = true := by
      apply Classical.byContradiction
      intro hno
      apply h0
      intro t _
      apply agree_base hne hT
      intro t' ht'
      cases h1 : resolveN fs 0 g t' with
      | none => rfl
      | some l => exact absurd ⟨t', ht', by simp [h1]⟩ hno
    obtain ⟨t, ht, hs⟩ := this
    unfold cnt
    have := countP_lt_of_witness (fun _ => false) (fun t => (resolveN fs 0 g t).isSome) Ts (by simp) ⟨t, ht, rfl, hs⟩
    simp at this ⊢
    omega
  | succ n ih =>
    intro h
    have h1 := ih (fun m hm => h m (by omega))
    have h2 := cnt_strict (fs := fs) (Ts := Ts) (g := g) (h n (by omega))
    omega

theorem exists_agree {g : String} {K : Nat} (hlen : Ts.length ≤ K + 1) : ∃ m, m ≤ K ∧ Agree fs Ts g m := by
  apply Classical.byContradiction
  intro hno
  have hall : ∀ m, m ≤ K → ¬ Agree fs Ts g m := fun m hm ha => hno ⟨m, hm, ha⟩
  have h1 := cnt_lower hne hT K hall
  have h2 := cnt_strict (fs := fs) (Ts := Ts) (g := g) (hall K (Nat.le_refl _))
  have h3 : cnt fs Ts g (K + 1) ≤ Ts.length := List.countP_le_length
  omega

/-- **the bound**: without external links, if every stored soft link's target lies in a list of at most
`LINKFUEL - 1` paths, links are nested less than `LINKFUEL` deep -/
theorem stable_of_targets (hlen : Ts.length ≤ LINKFUEL - 1) : StableLinks fs := by
  intro g hh k t hg hl
  have hlen' : Ts.length ≤ 6 + 1 := hlen
  obtain ⟨m, hm, ha⟩ := exists_agree hne hT (g := g) hlen'
  show resolveN fs 7 g t = resolveN fs 8 g t
  have e7 := agree_const hne hT ha (6 - m) t
  have e8 := agree_const hne hT ha (7 - m) t
  have a7 : m + 1 + (6 - m) = 7 := by omega
  have a8 : m + 1 + (7 - m) = 8 := by omega
  rw [a7] at e7; rw [a8] at e8
  rw [e7, e8]

end Depth

/-! ### histories -/

/-- the source paths of the `ln -s` operations of a history: the targets of its soft links -/
def softSrcs : List Op → List Path
  | [] => []
  | .ln _ sp _ _ true _ :: ops => sp :: softSrcs ops
  | _ :: ops => softSrcs ops

/-- `ln -s` stays inside one file (no external link is created) -/
def noCrossSoft : Op → Bool
  | .ln sf _ df _ true _ => decide (sf = df)
  | _ => true

theorem mem_softSrcs {ops : List Op} {sf df : String} {sp dp : Path} {o : Bool}
    (h : Op.ln sf sp df dp true o ∈ ops) : sp ∈ softSrcs ops := by
  induction ops with
  | nil => simp at h
  | cons op ops ih =>
    simp only [List.mem_cons] at h
    rcases h with rfl | h
    · simp [softSrcs]
    · have := ih h
      cases op with
      | ln a b c d s e => cases s <;> simp [softSrcs, this]
      | create a b c d => simpa [softSrcs] using this
      | cp a b c d e => simpa [softSrcs] using this
      | mv a b c d e => simpa [softSrcs] using this
      | note a b => simpa [softSrcs] using this

/-- **the invariants along any history** from the empty file system: well-formed; no external link if no
`ln -s` crosses files; every soft link's target is the source path of one of the history's `ln -s` -/
theorem history_invariants (v : Variant) (ops : List Op) (hcs : ∀ op ∈ ops, noCrossSoft op = true) :
    WF (run v [] ops) ∧ NoExt (run v [] ops) ∧ SatFS (TargetQ (softSrcs ops)) (run v [] ops) := by
  refine ⟨run_wf v ops [] wf_nil, noExt_of_sat (run_sat v ops [] (satFS_nil _) ?_), run_sat v ops [] (satFS_nil _) ?_⟩
  · intro op hop
    cases op with
    | ln sf sp df dp s o =>
      cases s with
      | false => trivial
      | true =>
        have : sf = df := by simpa [noCrossSoft] using hcs _ hop
        exact ⟨fun _ g t h => (nomatch h), fun hne => absurd this hne⟩
    | create a b c d => trivial
    | cp a b c d e => trivial
    | mv a b c d e => trivial
    | note a b => trivial
  · intro op hop
    cases op with
    | ln sf sp df dp s o =>
      cases s with
      | false => trivial
      | true =>
        refine ⟨fun _ t h => ?_, fun _ t h => (nomatch h)⟩
        cases h
        exact mem_softSrcs hop
    | create a b c d => trivial
    | cp a b c d e => trivial
    | mv a b c d e => trivial
    | note a b => trivial

/-- the link-nesting bound after any history with at most `LINKFUEL - 1 = 7` `ln -s`, none across files:
no hypothesis on the final state -/
theorem stable_history (v : Variant) (ops : List Op) (hcs : ∀ op ∈ ops, noCrossSoft op = true)
    (hlen : (softSrcs ops).length ≤ LINKFUEL - 1) : StableLinks (run v [] ops) := by
  obtain ⟨_, hne, hT⟩ := history_invariants v ops hcs
  exact stable_of_targets hne hT hlen

/-- **list_exact_soft_history**: after ANY history of create (w / a / r+), cp, mv, ln, ln -s from the empty
file system in which no `ln -s` crosses files and at most 7 `ln -s` occur, whenever `list_coolers`
completes (the namespace is not cyclic — cycles can still be built from soft links and are the one
case without a verdict) it lists exactly the paths `is_cooler` recognises.  No depth, well-formedness
or link hypothesis on the final state. -/
theorem list_exact_soft_history (v : Variant) (ops : List Op) (hcs : ∀ op ∈ ops, noCrossSoft op = true)
    (hlen : (softSrcs ops).length ≤ LINKFUEL - 1) (f : String) (ps : List Path)
    (hl : listing (run v [] ops) Variant.spec f = .ok ps) (p : Path) :
    p ∈ ps ↔ isCooler (run v [] ops) f p = true := by
  obtain ⟨hw, hne, _⟩ := history_invariants v ops hcs
  exact listing_exact_soft hw hne (stable_history v ops hcs hlen) hl p

/-! ### non-vacuity, and the bound is real -/

/-- a history that nests links 2 deep (`/d → /c → /a/b`) and links into a parent group -/
def opsNest2 : List Op :=
  [.create "A" ["a", "b"] .a 1, .ln "A" ["a", "b"] "A" ["c"] true false, .ln "A" ["c"] "A" ["d"] true false,
   .ln "A" ["a"] "A" ["e"] true false, .mv "A" ["a", "b"] "A" ["a", "k"] false,
   .create "A" ["a", "b"] .a 2]

example : (∀ op ∈ opsNest2, noCrossSoft op = true) ∧ (softSrcs opsNest2).length = 3 ∧
    listing (run Variant.current [] opsNest2) Variant.spec "A" =
      .ok [["a", "b"], ["a", "k"], ["c"], ["d"], ["e", "b"], ["e", "k"]] ∧
    readCollection (run Variant.current [] opsNest2) "A" ["d"] = some 2 ∧
    -- `/d` needs two nested link resolutions: not with budget 1, with budget 2
    isCoolerN (run Variant.current [] opsNest2) 1 "A" ["d"] = false ∧
    isCoolerN (run Variant.current [] opsNest2) 2 "A" ["d"] = true := by decide

example (p : Path) : p ∈ [["a", "b"], ["a", "k"], ["c"], ["d"], ["e", "b"], ["e", "k"]] ↔
    isCooler (run Variant.current [] opsNest2) "A" p = true :=
  list_exact_soft_history Variant.current opsNest2 (by decide) (by decide) "A" _ (by decide) p

/-- nine chained soft links `/l0 → /l1 → … → /l8 → /a` -/
def opsChain9 : List Op :=
  [.create "A" ["a"] .a 1,
   .ln "A" ["a"] "A" ["l8"] true false, .ln "A" ["l8"] "A" ["l7"] true false, .ln "A" ["l7"] "A" ["l6"] true false,
   .ln "A" ["l6"] "A" ["l5"] true false, .ln "A" ["l5"] "A" ["l4"] true false, .ln "A" ["l4"] "A" ["l3"] true false,
   .ln "A" ["l3"] "A" ["l2"] true false, .ln "A" ["l2"] "A" ["l1"] true false, .ln "A" ["l1"] "A" ["l0"] true false]

/-- **the operations CAN exceed the bound**: nine `ln -s` (every one of them succeeds) nest links 9 deep;
the model's resolver (budget `LINKFUEL = 8`) then no longer recognises `/l0` although `/l1` is
recognised and although the traversal — which spends a fresh budget at every child — still LISTS
`/l0`: `StableLinks` fails and so does `list_exact`.  The bound of 7 in `list_exact_soft_history` is
therefore needed (8 links still resolve: the witness has 9).  Real HDF5 draws the same kind of line
at 16 link traversals per path: probed on the real code, a chain of 16 links is recognised and
listed; with 17, `is_cooler` answers False and `list_coolers` raises RuntimeError ("too many
links"). -/
theorem depth_exceeded_witness :
    (∀ op ∈ opsChain9, noCrossSoft op = true) ∧ (softSrcs opsChain9).length = 9 ∧
    isCooler (run Variant.current [] opsChain9) "A" ["l1"] = true ∧
    isCooler (run Variant.current [] opsChain9) "A" ["l0"] = false ∧
    stableB (run Variant.current [] opsChain9) = false ∧
    listing (run Variant.current [] opsChain9) Variant.spec "A" =
      .ok [["a"], ["l0"], ["l1"], ["l2"], ["l3"], ["l4"], ["l5"], ["l6"], ["l7"], ["l8"]] := by
  decide

/-! ### link cycles (fix D28): the listing walks past links that cannot be traversed -/

/-- a collection next to two soft links pointing at each other, and a link that goes through itself -/
def opsCycle : List Op :=
  [.create "A" ["c"] .a 1, .ln "A" ["x"] "A" ["y"] true false, .ln "A" ["y"] "A" ["x"] true false,
   .ln "A" ["a", "b"] "A" ["a"] true false]

example : listing (run Variant.current [] opsCycle) Variant.spec "A" = .ok [["c"]] ∧
    isCooler (run Variant.current [] opsCycle) "A" ["x"] = false ∧
    isCooler (run Variant.current [] opsCycle) "A" ["a", "b"] = false ∧
    isCooler (run Variant.current [] opsCycle) "A" ["c"] = true := by decide

/-- … and `list_exact_soft_history` applies: exact on a namespace with link cycles -/
example (p : Path) : p ∈ [["c"]] ↔ isCooler (run Variant.current [] opsCycle) "A" p = true :=
  list_exact_soft_history Variant.current opsCycle (by decide) (by decide) "A" _ (by decide) p

end Cooler.C15
