import CoolerModel.Model.TextIO
import CoolerModel.Props.C03
import CoolerModel.Props.C05
import CoolerModel.Props.C06
import CoolerModel.Props.C13
/-!
# C16 — text export agrees with the API; re-importing it reproduces the cooler

Theorems about `Model/TextIO.lean`.

* `columns_any_layout` (+ `columns_legacy_fails`): the column reader of the text loaders gives field
  `f` the input line's column `col f` for EVERY injective layout (formal content of repair D12); the
  pre-repair reader does not (`decide` on a concrete non-monotone layout).
* `dump_eq_query`, `dump_whole_stored`: the dumped rows are the library query's records, in engine
  order, each mapped through the annotator; the query is the stored records inside the box
  (direct engine) / a permutation of the sub-block of the completed matrix (fill-lower engine).
* `dump_option_effect`: one theorem per option (`one_based_ids_effect`, `one_based_starts_effect`,
  `join_effect`, `balanced_effect`, `annotate_effect`, `fill_lower_square`, `header_effect`,
  `range_effect`, `range2_effect`) of the form "rows with the flag = f (rows without the flag)".
* `load_dump_coo`, `load_dump_bg2`: dumping a valid store and loading the lines back — in any order,
  cut into reader chunks of any sizes, zero- or one-based on both sides — reproduces `s.px`.
* `pairs_any_layout`: the record parsed from a pairs line depends only on the values found at the
  declared columns, not on where the columns are.
* `parseFieldParam_spec`: grammar and refusals of `parse_field_param`.
-/
set_option linter.unusedSimpArgs false
set_option linter.unusedVariables false

namespace Cooler.C16
open Cooler Cooler.TextIO

/-! ## 0. `mapO`, `mapE` -/

theorem mapO_eq_some_map {β γ : Type} (f : β → Option γ) (g : β → γ) (l : List β)
    (h : ∀ x ∈ l, f x = some (g x)) : mapO f l = some (l.map g) := by
  induction l with
  | nil => rfl
  | cons x xs ih =>
    simp only [mapO, h x (List.mem_cons_self), ih (fun y hy => h y (List.mem_cons_of_mem _ hy)),
      List.map_cons]

theorem mapO_congr {β γ : Type} (f g : β → Option γ) (l : List β) (h : ∀ x ∈ l, f x = g x) :
    mapO f l = mapO g l := by
  induction l with
  | nil => rfl
  | cons x xs ih =>
    simp only [mapO, h x (List.mem_cons_self), ih (fun y hy => h y (List.mem_cons_of_mem _ hy))]

/-- post-composition with a total function -/
theorem mapO_map {β γ δ : Type} (f : β → Option γ) (g : γ → δ) (l : List β) :
    mapO (fun x => (f x).map g) l = (mapO f l).map (List.map g) := by
  induction l with
  | nil => rfl
  | cons x xs ih =>
    simp only [mapO, ih]
    cases f x <;> simp
    cases mapO f xs <;> simp

/-- post-composition with a partial function -/
theorem mapO_bind {β γ δ : Type} (f : β → Option γ) (g : γ → Option δ) (l : List β) :
    mapO (fun x => (f x).bind g) l = (mapO f l).bind (mapO g) := by
  induction l with
  | nil => rfl
  | cons x xs ih =>
    simp only [mapO, ih]
    cases hf : f x with
    | none => simp
    | some y =>
      cases hm : mapO f xs with
      | none =>
        simp only [Option.bind_some, Option.bind_none]
        cases g y <;> simp
      | some ys => simp [mapO]

theorem mapO_append {β γ : Type} (f : β → Option γ) (a b : List β) :
    mapO f (a ++ b) = (mapO f a).bind fun x => (mapO f b).map fun y => x ++ y := by
  induction a with
  | nil => simp [mapO]
  | cons x xs ih =>
    simp only [List.cons_append, mapO, ih]
    cases f x <;> simp
    cases mapO f xs <;> simp
    cases mapO f b <;> simp

/-- annotating chunk by chunk and concatenating = annotating the concatenation -/
theorem mapO_flatten {β γ : Type} (f : β → Option γ) (chunks : List (List β)) :
    (mapO (mapO f) chunks).map List.flatten = mapO f chunks.flatten := by
  induction chunks with
  | nil => rfl
  | cons c cs ih =>
    simp only [mapO, List.flatten_cons, mapO_append, ← ih]
    cases mapO f c <;> simp
    cases mapO (mapO f) cs <;> simp

theorem mapO_length {β γ : Type} (f : β → Option γ) (l : List β) (r : List γ) (h : mapO f l = some r) :
    r.length = l.length := by
  induction l generalizing r with
  | nil => simp [mapO] at h; subst h; rfl
  | cons x xs ih =>
    simp only [mapO] at h
    cases hf : f x with
    | none => simp [hf] at h
    | some y =>
      cases hm : mapO f xs with
      | none => simp [hf, hm] at h
      | some ys =>
        simp [hf, hm] at h; subst h
        simp [ih ys hm]

theorem mapE_eq_ok_map {β γ : Type} (f : β → Except Err γ) (g : β → γ) (l : List β)
    (h : ∀ x ∈ l, f x = .ok (g x)) : Bal.mapE f l = .ok (l.map g) := by
  induction l with
  | nil => rfl
  | cons x xs ih =>
    simp only [Bal.mapE, h x (List.mem_cons_self), ih (fun y hy => h y (List.mem_cons_of_mem _ hy)),
      List.map_cons]

/-! ## 1. the column reader: `columns_any_layout` (repair D12) -/

def SortedNat (l : List Nat) : Prop := l.Pairwise (· ≤ ·)

theorem mem_insertNat (x y : Nat) (l : List Nat) : y ∈ insertNat x l ↔ y = x ∨ y ∈ l := by
  induction l with
  | nil => simp [insertNat]
  | cons z zs ih =>
    simp only [insertNat]
    split
    · simp
    · simp only [List.mem_cons, ih]
      constructor
      · rintro (h | h | h) <;> simp [h]
      · rintro (h | h | h) <;> simp [h]

theorem insertNat_sorted (x : Nat) (l : List Nat) (h : SortedNat l) : SortedNat (insertNat x l) := by
  unfold SortedNat at *
  induction l with
  | nil => simp [insertNat]
  | cons z zs ih =>
    simp only [insertNat]
    split
    · rename_i hxz
      rw [List.pairwise_cons] at h ⊢
      refine ⟨?_, List.pairwise_cons.mpr h⟩
      intro y hy
      rcases List.mem_cons.mp hy with rfl | hy
      · exact hxz
      · exact Nat.le_trans hxz (h.1 y hy)
    · rename_i hxz
      rw [List.pairwise_cons] at h ⊢
      refine ⟨?_, ih h.2⟩
      intro y hy
      rcases (mem_insertNat x y zs).mp hy with rfl | hy
      · omega
      · exact h.1 y hy

theorem sortNat_sorted (l : List Nat) : SortedNat (sortNat l) := by
  induction l with
  | nil => simp [sortNat, SortedNat]
  | cons x xs ih => exact insertNat_sorted x _ ih

theorem insertNat_of_le (x : Nat) (l : List Nat) (h : ∀ y ∈ l, x ≤ y) : insertNat x l = x :: l := by
  cases l with
  | nil => rfl
  | cons z zs => simp [insertNat, h z (List.mem_cons_self)]

/-- sorting an ascending list changes nothing -/
theorem sortNat_of_sorted (l : List Nat) (h : SortedNat l) : sortNat l = l := by
  unfold SortedNat at h
  induction l with
  | nil => rfl
  | cons x xs ih =>
    rw [List.pairwise_cons] at h
    simp only [sortNat, ih h.2]
    exact insertNat_of_le x xs h.1

theorem insertField_snd (x : String × Nat) (l : List (String × Nat)) :
    (insertField x l).map (·.2) = insertNat x.2 (l.map (·.2)) := by
  induction l with
  | nil => rfl
  | cons y ys ih =>
    simp only [insertField, List.map_cons, insertNat]
    split <;> simp [ih]

/-- the column numbers of the sorted field list are the sorted column numbers -/
theorem sortFields_snd (l : List (String × Nat)) : (sortFields l).map (·.2) = sortNat (l.map (·.2)) := by
  induction l with
  | nil => rfl
  | cons x xs ih => simp only [sortFields, insertField_snd, ih, List.map_cons, sortNat]

theorem insertField_perm (x : String × Nat) (l : List (String × Nat)) : (insertField x l).Perm (x :: l) := by
  induction l with
  | nil => exact List.Perm.refl _
  | cons y ys ih =>
    simp only [insertField]
    split
    · exact List.Perm.refl _
    · exact (List.Perm.cons y ih).trans (List.Perm.swap x y ys)

theorem sortFields_perm (l : List (String × Nat)) : (sortFields l).Perm l := by
  induction l with
  | nil => exact List.Perm.refl _
  | cons x xs ih => exact (insertField_perm x _).trans (List.Perm.cons x ih)

theorem zip_fst_snd {β γ : Type} (l : List (β × γ)) : (l.map (·.1)).zip (l.map (·.2)) = l := by
  induction l with
  | nil => rfl
  | cons x xs ih => simp [ih]

/-- what the pandas primitive returns when the names are already in ascending column order -/
theorem pandasReadCols_sorted {β : Type} (fs : List (String × Nat)) (row : List β)
    (hs : SortedNat (fs.map (·.2))) (hn : (fs.map (·.2)).Nodup) :
    pandasReadCols (fs.map (·.2)) (fs.map (·.1)) row =
      Bal.mapE (fun nc : String × Nat =>
        match row[nc.2]? with
        | some v => .ok (nc.1, v)
        | none => .error .value) fs := by
  unfold pandasReadCols
  have : ¬ (¬ (fs.map (·.2)).Nodup ∨ (fs.map (·.2)).length ≠ (fs.map (·.1)).length) := by
    simp [hn]
  rw [if_neg this, sortNat_of_sorted _ hs, zip_fst_snd]
  rfl

theorem lookup_of_mapE {β : Type} (fs : List (String × Nat)) (row : List β)
    (hnames : (fs.map (·.1)).Nodup) (hrange : ∀ fc ∈ fs, fc.2 < row.length) :
    ∃ parsed, Bal.mapE (fun nc : String × Nat =>
        match row[nc.2]? with
        | some v => (.ok (nc.1, v) : Except Err (String × β))
        | none => .error .value) fs = .ok parsed ∧
      parsed.map (·.1) = fs.map (·.1) ∧
      ∀ fc ∈ fs, parsed.lookup fc.1 = row[fc.2]? := by
  induction fs with
  | nil => exact ⟨[], rfl, rfl, by simp⟩
  | cons x xs ih =>
    rw [List.map_cons, List.nodup_cons] at hnames
    obtain ⟨parsed, hp, hnm, hl⟩ := ih hnames.2 (fun fc h => hrange fc (List.mem_cons_of_mem _ h))
    have hx : x.2 < row.length := hrange x (List.mem_cons_self)
    refine ⟨(x.1, row[x.2]) :: parsed, ?_, by simp [hnm], ?_⟩
    · simp only [Bal.mapE, List.getElem?_eq_getElem hx, hp]
    · intro fc hfc
      rcases List.mem_cons.mp hfc with rfl | hfc
      · simp [List.lookup, List.getElem?_eq_getElem hx]
      · have hne : fc.1 ≠ x.1 := by
          intro he
          exact hnames.1 (he ▸ List.mem_map_of_mem (f := (·.1)) hfc)
        have : (fc.1 == x.1) = false := by simpa using hne
        simp only [List.lookup, this]
        exact hl fc hfc

/-- **columns_any_layout** (repair D12): for EVERY injective assignment of field names to column
numbers inside the line — ascending or not — the parsed record's field `f` is the line's column
`col f`, and the parsed columns are exactly the declared fields. -/
theorem columns_any_layout {β : Type} (fields : List (String × Nat)) (row : List β)
    (hinj : (fields.map (·.2)).Nodup) (hnames : (fields.map (·.1)).Nodup)
    (hrange : ∀ fc ∈ fields, fc.2 < row.length) :
    ∃ parsed, readFields fields row = .ok parsed ∧
      (parsed.map (·.1)).Perm (fields.map (·.1)) ∧
      ∀ fc ∈ fields, parsed.lookup fc.1 = row[fc.2]? := by
  have hp := sortFields_perm fields
  have hs : SortedNat ((sortFields fields).map (·.2)) := by rw [sortFields_snd]; exact sortNat_sorted _
  have hn : ((sortFields fields).map (·.2)).Nodup := (hp.map _).nodup_iff.mpr hinj
  have hnm : ((sortFields fields).map (·.1)).Nodup := (hp.map _).nodup_iff.mpr hnames
  obtain ⟨parsed, h1, h2, h3⟩ := lookup_of_mapE (sortFields fields) row hnm
    (fun fc h => hrange fc (hp.mem_iff.mp h))
  refine ⟨parsed, ?_, ?_, ?_⟩
  · unfold readFields
    simp only []
    rw [pandasReadCols_sorted _ row hs hn]
    exact h1
  · rw [h2]; exact hp.map _
  · intro fc hfc
    exact h3 fc (hp.mem_iff.mpr hfc)

/-- non-vacuity: a non-monotone layout inside a wider line -/
example : readFields [("chrom1", 4), ("pos1", 1), ("chrom2", 0), ("pos2", 6)] [10, 11, 12, 13, 14, 15, 16]
    = (.ok [("chrom2", 10), ("pos1", 11), ("chrom1", 14), ("pos2", 16)] : Except Err _) := by decide

/-- the statement of `columns_any_layout` for the pre-repair reader -/
def LegacyLayoutStatement : Prop :=
  ∀ (fields : List (String × Nat)) (row : List Nat),
    (fields.map (·.2)).Nodup → (fields.map (·.1)).Nodup → (∀ fc ∈ fields, fc.2 < row.length) →
    ∀ parsed, readFieldsLegacy fields row = .ok parsed → ∀ fc ∈ fields, parsed.lookup fc.1 = row[fc.2]?

/-- **without the sort the statement fails**: `-c1 3 -p1 2 -c2 1 -p2 4` reads `chrom1` from column 1 -/
theorem columns_legacy_fails : ¬ LegacyLayoutStatement := by
  intro h
  have := h [("chrom1", 2), ("pos1", 1), ("chrom2", 0), ("pos2", 3)] [10, 11, 12, 13]
    (by decide) (by decide) (by decide)
    [("chrom1", 10), ("pos1", 11), ("chrom2", 12), ("pos2", 13)] (by decide) ("chrom1", 2) (by simp)
  revert this
  decide

/-- for ascending layouts the two readers coincide (why the defect went unnoticed) -/
theorem legacy_eq_of_ascending {β : Type} (fields : List (String × Nat)) (row : List β)
    (h : SortedNat (fields.map (·.2))) (hinj : (fields.map (·.2)).Nodup) :
    readFieldsLegacy fields row = readFields fields row := by
  have hs : sortFields fields = fields := by
    clear hinj
    induction fields with
    | nil => rfl
    | cons x xs ih =>
      unfold SortedNat at h ih
      rw [List.map_cons, List.pairwise_cons] at h
      simp only [sortFields, ih h.2]
      cases xs with
      | nil => rfl
      | cons y ys =>
        have : x.2 ≤ y.2 := h.1 y.2 (by simp)
        simp [insertField, this]
  unfold readFields readFieldsLegacy
  simp only [hs]

/-! ## 2. `cooler dump` -/

section dump
variable {α : Type}

/-- well-formed stored collection (C02's `ValidCooler`, the part the text interface relies on) -/
structure ValidStore (s : Store α) : Prop where
  sorted : StrictSorted s.px
  inRange : InRange s.nbins s.px
  triu : s.symm = true → Triu s.px
  offsOK : OffsOK s.px s.offs s.nbins

theorem taskChunks_flatten (ps : Pixels) (offs : List Nat) (spansOf : Box → List (Nat × Nat)) (t : Task) :
    (taskChunks ps offs spansOf t).flatten = runTask ps offs spansOf t := by
  unfold taskChunks runTask
  cases t.1
  · simp [List.flatMap_def]
  · simp only [if_true]
    rw [List.flatMap_def, List.map_flatten, List.map_map]
    rfl

/-- the chunk stream concatenates to the library query's result -/
theorem engineChunks_flatten (s : Store α) (spansOf : Box → List (Nat × Nat)) (o : DumpOpts) :
    (engineChunks s spansOf o).map List.flatten = engineOut s spansOf o := by
  unfold engineChunks engineOut
  simp only []
  split
  · unfold queryFill
    rw [Option.map_map]
    congr 1
    funext ts
    simp only [Function.comp]
    rw [List.flatMap_def, List.flatten_flatten, List.map_map, List.flatMap_def]
    congr 1
    apply List.map_congr_left
    intro t _
    exact taskChunks_flatten _ _ _ t
  · simp [directChunks, queryDirect, List.flatMap_def]

/-- rows = the annotator mapped over the library query's result (chunking is irrelevant) -/
theorem dumpRows_eq (ops : Bal.Ops Int α) (s : Store α) (spansOf : Box → List (Nat × Nat)) (o : DumpOpts) :
    dumpRows ops s spansOf o = (engineOut s spansOf o).bind (mapO (annotateRow ops s o)) := by
  unfold dumpRows
  rw [← engineChunks_flatten]
  cases engineChunks s spansOf o with
  | none => rfl
  | some chunks => simp [mapO_flatten]

/-- the box of an in-domain dump: ordered extents inside the bin table -/
def BoxOK (n : Nat) (b : Box) : Prop := b.i0 ≤ b.i1 ∧ b.j0 ≤ b.j1 ∧ b.i1 ≤ n ∧ b.j1 ≤ n

/-- **dump_eq_query**: the dumped rows are the records of the corresponding library query, in engine
order, each mapped through the selected annotations.  The query result is — direct engine — exactly
the stored records inside the box, in storage order (in square mode: the sub-block of the matrix),
and — fill-lower engine on a symmetric-upper store — a permutation of the sub-block of the symmetric
completion: every entry of the box once, nothing else.  For every valid choice of row spans
(`--chunksize`). -/
theorem dump_eq_query (ops : Bal.Ops Int α) (s : Store α) (hv : ValidStore s)
    (spansOf : Box → List (Nat × Nat)) (hsp : ∀ c, validSpans s.offs c (spansOf c) = true)
    (o : DumpOpts) (hb : BoxOK s.nbins (bbox s.nbins o)) :
    ∃ out, engineOut s spansOf o = some out ∧
      dumpRows ops s spansOf o = mapO (annotateRow ops s o) out ∧
      (if useFill s o = true then out.Perm (specWindow true s.px (bbox s.nbins o))
       else out = s.px.filter (inBox (bbox s.nbins o)) ∧ out = specWindow false s.px (bbox s.nbins o)) := by
  obtain ⟨h0, h1, hi, hj⟩ := hb
  by_cases hf : useFill s o = true
  · have hsymm : s.symm = true := by
      unfold useFill at hf; simp only [Bool.and_eq_true] at hf; exact hf.2
    have hvs : C03.ValidSymm s.px s.offs s.nbins := ⟨hv.sorted, hv.triu hsymm, hv.offsOK⟩
    have hsome := C03.fillLower_total s.px s.offs spansOf (bbox s.nbins o) h0 h1
    obtain ⟨out, hout⟩ := Option.isSome_iff_exists.mp hsome
    have heo : engineOut s spansOf o = some out := by
      unfold engineOut; simp only [hf, if_true]; exact hout
    refine ⟨out, heo, ?_, ?_⟩
    · rw [dumpRows_eq, heo]; rfl
    · simp only [hf, if_true]
      exact C03.fillLower_correct s.px s.offs s.nbins hvs spansOf hsp _ h0 h1 hi hj out hout
  · have hd := C03.direct_correct s.px (C03.StrictSorted.rowSorted hv.sorted) s.offs s.nbins hv.offsOK
      (bbox s.nbins o) hi (spansOf (bbox s.nbins o)) (hsp _)
    have heo : engineOut s spansOf o = some (s.px.filter (inBox (bbox s.nbins o))) := by
      unfold engineOut; simp only [hf, if_false, Bool.false_eq_true]; rw [hd]
    refine ⟨_, heo, ?_, ?_⟩
    · rw [dumpRows_eq, heo]; rfl
    · simp [hf, specWindow]

/-- **whole-matrix dump without fill = the stored table**, row for row -/
theorem dump_whole_stored (ops : Bal.Ops Int α) (s : Store α) (hv : ValidStore s)
    (spansOf : Box → List (Nat × Nat)) (hsp : ∀ c, validSpans s.offs c (spansOf c) = true)
    (o : DumpOpts) (hr : o.range = none) (hf : useFill s o = false) :
    dumpRows ops s spansOf o = mapO (annotateRow ops s o) s.px := by
  have hbox : bbox s.nbins o = ⟨0, s.nbins, 0, s.nbins⟩ := by unfold bbox; rw [hr]
  obtain ⟨out, _, h2, h3⟩ := dump_eq_query ops s hv spansOf hsp o
    (by rw [hbox]; exact ⟨Nat.zero_le _, Nat.zero_le _, Nat.le_refl _, Nat.le_refl _⟩)
  simp only [hf, Bool.false_eq_true, if_false] at h3
  rw [h2, h3.1, hbox]
  congr 1
  rw [List.filter_eq_self]
  intro p hp
  have := hv.inRange p hp
  simp [inBox, this.1, this.2]

/-! ### the engine does not look at the annotation options, the annotator not at the engine's -/

theorem engineOut_congr (s : Store α) (spansOf : Box → List (Nat × Nat)) (o o' : DumpOpts)
    (h1 : o.fillLower = o'.fillLower) (h2 : o.range = o'.range) (h3 : o.range2 = o'.range2) :
    engineOut s spansOf o = engineOut s spansOf o' := by
  unfold engineOut useFill bbox
  rw [h1, h2, h3]

theorem annotateRow_congr (ops : Bal.Ops Int α) (s : Store α) (o o' : DumpOpts) (p : Px)
    (h1 : o.balanced = o'.balanced) (h2 : o.join = o'.join) (h3 : o.annotate = o'.annotate)
    (h4 : o.oneBasedIds = o'.oneBasedIds) (h5 : o.oneBasedStarts = o'.oneBasedStarts) :
    annotateRow ops s o p = annotateRow ops s o' p := by
  unfold annotateRow extraCols balStage joinStage finish
  rw [h1, h2, h3, h4, h5]

/-- lifting a row-wise effect to the whole dump -/
theorem dumpRows_map_effect (ops : Bal.Ops Int α) (s : Store α) (spansOf : Box → List (Nat × Nat))
    (o o' : DumpOpts) (g : Row α → Row α) (he : engineOut s spansOf o = engineOut s spansOf o')
    (hr : ∀ p, annotateRow ops s o p = (annotateRow ops s o' p).map g) :
    dumpRows ops s spansOf o = (dumpRows ops s spansOf o').map (List.map g) := by
  rw [dumpRows_eq, dumpRows_eq, he]
  have : annotateRow ops s o = fun p => (annotateRow ops s o' p).map g := funext hr
  rw [this]
  cases engineOut s spansOf o' with
  | none => rfl
  | some out => simp [mapO_map]

/-! ### one theorem per option: rows with the flag = f (rows without the flag) -/

theorem bump_comm (a b : List String) (r : Row α) : bump a (bump b r) = bump b (bump a r) := by
  unfold bump
  rw [List.map_map, List.map_map]
  apply List.map_congr_left
  intro c _
  simp only [Function.comp]
  by_cases h1 : c.1 ∈ a <;> by_cases h2 : c.1 ∈ b <;> simp [h1, h2]

theorem rowNames_bump (cols : List String) (r : Row α) : rowNames (bump cols r) = rowNames r := by
  unfold rowNames bump
  rw [List.map_map]
  apply List.map_congr_left
  intro c _
  simp only [Function.comp]
  split <;> rfl

theorem rowNames_bumpIf (b : Bool) (cols : List String) (r : Row α) : rowNames (bumpIf b cols r) = rowNames r := by
  unfold bumpIf; split
  · exact rowNames_bump _ _
  · rfl

/-- an option that only changes the final step acts on the finished row -/
theorem annotateRow_finish_effect (ops : Bal.Ops Int α) (s : Store α) (o o' : DumpOpts) (p : Px)
    (g : Row α → Row α) (h1 : o.balanced = o'.balanced) (h2 : o.join = o'.join)
    (h3 : o.annotate = o'.annotate) (hfin : ∀ r e, finish o r e = g (finish o' r e)) :
    annotateRow ops s o p = (annotateRow ops s o' p).map g := by
  unfold annotateRow extraCols balStage joinStage
  rw [h1, h2, h3]
  simp only [hfin, Option.map_bind, Option.map_map, Function.comp_def]

/-- `--one-based-starts`, one row: +1 on `start1`/`start2` where present, nothing else -/
theorem annotateRow_starts (ops : Bal.Ops Int α) (s : Store α) (o : DumpOpts) (p : Px) :
    annotateRow ops s { o with oneBasedStarts := true } p =
      (annotateRow ops s { o with oneBasedStarts := false } p).map (bump startCols) :=
  annotateRow_finish_effect ops s _ _ p _ rfl rfl rfl (fun r e => by simp [finish, bumpIf])

/-- **`--one-based-starts`**: the dump with the flag is the dump without it with 1 added to both
start columns where they are present (under `--join`, or `--annotate start`), and nothing else -/
theorem one_based_starts_effect (ops : Bal.Ops Int α) (s : Store α) (spansOf : Box → List (Nat × Nat))
    (o : DumpOpts) :
    dumpRows ops s spansOf { o with oneBasedStarts := true } =
      (dumpRows ops s spansOf { o with oneBasedStarts := false }).map (List.map (bump startCols)) :=
  dumpRows_map_effect ops s spansOf _ _ _ (engineOut_congr s spansOf _ _ rfl rfl rfl)
    (annotateRow_starts ops s o)

/-- `--one-based-ids`, one row -/
theorem annotateRow_ids (ops : Bal.Ops Int α) (s : Store α) (o : DumpOpts) (p : Px) :
    annotateRow ops s { o with oneBasedIds := true } p =
      (annotateRow ops s { o with oneBasedIds := false } p).map (bump idCols) :=
  annotateRow_finish_effect ops s _ _ p _ rfl rfl rfl (fun r e => by
    simp only [finish, bumpIf, if_true, Bool.false_eq_true, if_false]
    split
    · rw [bump_comm]
    · rfl)

/-- **`--one-based-ids`**: the dump with the flag is the dump without it with 1 added to both id
columns where they are present (i.e. not under `--join`), and nothing else — also when no other
annotation option is given (repair D11) -/
theorem one_based_ids_effect (ops : Bal.Ops Int α) (s : Store α) (spansOf : Box → List (Nat × Nat))
    (o : DumpOpts) :
    dumpRows ops s spansOf { o with oneBasedIds := true } =
      (dumpRows ops s spansOf { o with oneBasedIds := false }).map (List.map (bump idCols)) :=
  dumpRows_map_effect ops s spansOf _ _ _ (engineOut_congr s spansOf _ _ rfl rfl rfl)
    (annotateRow_ids ops s o)

/-- on the plain three-column dump the flag really adds one to both ids (D11 regression: before the
repair the annotator was not even built for this option set) -/
theorem one_based_ids_plain (ops : Bal.Ops Int α) (s : Store α) (p : Px) :
    annotateRow ops s { oneBasedIds := true } p =
      some [("bin1_id", .int (p.i + 1)), ("bin2_id", .int (p.j + 1)), ("count", .int p.v)] := by
  simp [annotateRow, extraCols, balStage, joinStage, finish, bumpIf, bump, baseRow, idCols, startCols,
    Val.succ]

/-- **`--header`** changes no data row -/
theorem header_effect (ops : Bal.Ops Int α) (s : Store α) (spansOf : Box → List (Nat × Nat))
    (o : DumpOpts) (h : Bool) :
    dumpRows ops s spansOf { o with header := h } = dumpRows ops s spansOf o := by
  rw [dumpRows_eq, dumpRows_eq, engineOut_congr s spansOf { o with header := h } o rfl rfl rfl]
  have : annotateRow ops s { o with header := h } = annotateRow ops s o :=
    funext fun p => annotateRow_congr ops s _ _ p rfl rfl rfl rfl rfl
  rw [this]

/-- **`--fill-lower`** is the identity on a store in square mode -/
theorem fill_lower_square (ops : Bal.Ops Int α) (s : Store α) (hs : s.symm = false)
    (spansOf : Box → List (Nat × Nat)) (o : DumpOpts) (f : Bool) :
    dumpRows ops s spansOf { o with fillLower := f } = dumpRows ops s spansOf o := by
  have he : engineOut s spansOf { o with fillLower := f } = engineOut s spansOf o := by
    unfold engineOut useFill bbox
    simp [hs]
  rw [dumpRows_eq, dumpRows_eq, he]
  have : annotateRow ops s { o with fillLower := f } = annotateRow ops s o :=
    funext fun p => annotateRow_congr ops s _ _ p rfl rfl rfl rfl rfl
  rw [this]

/-- **`--fill-lower`** on a symmetric-upper store: the rows are the annotated sub-block of the
symmetric completion (instead of the stored upper-triangle records of the box) -/
theorem fill_lower_symm (ops : Bal.Ops Int α) (s : Store α) (hv : ValidStore s) (hs : s.symm = true)
    (spansOf : Box → List (Nat × Nat)) (hsp : ∀ c, validSpans s.offs c (spansOf c) = true)
    (o : DumpOpts) (hb : BoxOK s.nbins (bbox s.nbins o)) :
    (∃ out, out.Perm (specWindow true s.px (bbox s.nbins o)) ∧
      dumpRows ops s spansOf { o with fillLower := true } = mapO (annotateRow ops s o) out) ∧
    dumpRows ops s spansOf { o with fillLower := false } =
      mapO (annotateRow ops s o) (s.px.filter (inBox (bbox s.nbins o))) := by
  have hbb : ∀ f, bbox s.nbins { o with fillLower := f } = bbox s.nbins o := fun f => rfl
  have hann : ∀ f, annotateRow ops s { o with fillLower := f } = annotateRow ops s o := by
    intro f; funext p; exact annotateRow_congr ops s _ _ p rfl rfl rfl rfl rfl
  constructor
  · obtain ⟨out, _, h2, h3⟩ := dump_eq_query ops s hv spansOf hsp { o with fillLower := true }
      (by rw [hbb]; exact hb)
    have : useFill s { o with fillLower := true } = true := by simp [useFill, hs]
    simp only [this, if_true, hbb] at h3
    exact ⟨out, h3, by rw [h2, hann]⟩
  · obtain ⟨out, _, h2, h3⟩ := dump_eq_query ops s hv spansOf hsp { o with fillLower := false }
      (by rw [hbb]; exact hb)
    have : useFill s { o with fillLower := false } = false := by simp [useFill]
    simp only [this, Bool.false_eq_true, if_false, hbb] at h3
    rw [h2, hann, h3.1]

/-- **`-r`**: the rows are those of the row extent × the same extent; **`-r … -r2 …`**: row extent ×
column extent; no `-r`: the whole matrix (`-r2` alone is ignored by the code — an observation, not
part of the property) -/
theorem range_effect (n : Nat) (o : DumpOpts) :
    (∀ r, o.range = some r → o.range2 = none → bbox n o = ⟨r.1, r.2, r.1, r.2⟩) ∧
    (∀ r c, o.range = some r → o.range2 = some c → bbox n o = ⟨r.1, r.2, c.1, c.2⟩) ∧
    (o.range = none → bbox n o = ⟨0, n, 0, n⟩) := by
  refine ⟨?_, ?_, ?_⟩
  · intro r h1 h2; unfold bbox; rw [h1, h2]
  · intro r c h1 h2; unfold bbox; rw [h1, h2]
  · intro h1; unfold bbox; rw [h1]

/-! #### `--join`, `--balanced`, `--annotate`: stated per record `p` of the library query (by
`dump_eq_query` row `k` of either dump is the annotation of the same record `out[k]`) -/

theorem suffix_ne_id (f sfx : String) (hs : sfx = "1" ∨ sfx = "2") : f ++ sfx ∉ idCols := by
  intro h
  simp only [idCols, List.mem_cons, List.mem_nil_iff, or_false] at h
  rcases hs with rfl | rfl <;> rcases h with h | h <;>
    (have h1 := congrArg String.toList h
     simp [String.toList_append] at h1
     have h2 := congrArg List.getLast? h1
     simp at h2)

theorem sideCols_names (s : Store α) (fs : List String) (sfx : String) (k : Nat) (r : Row α)
    (h : sideCols s fs sfx k = some r) : rowNames r = fs.map (· ++ sfx) := by
  unfold sideCols at h
  induction fs generalizing r with
  | nil => simp [mapO] at h; subst h; rfl
  | cons f fs ih =>
    simp only [mapO] at h
    cases hb : binField s f k with
    | none => simp [hb] at h
    | some v =>
      cases hm : mapO (fun f => (binField s f k).map fun v => (f ++ sfx, v)) fs with
      | none => simp [hb, hm] at h
      | some rest =>
        simp [hb, hm] at h
        subst h
        simp [rowNames, List.map_cons]
        exact ih rest hm

theorem filter_noid_of_names (r : Row α) (h : ∀ c ∈ rowNames r, c ∉ idCols) :
    r.filter (fun c => !(decide (c.1 ∈ idCols))) = r := by
  rw [List.filter_eq_self]
  intro c hc
  have := h c.1 (List.mem_map_of_mem (f := (·.1)) hc)
  simp [this]

theorem bump_noid_of_names (cols : List String) (r : Row α) (h : ∀ c ∈ rowNames r, c ∉ cols) :
    bump cols r = r := by
  unfold bump
  conv => rhs; rw [← List.map_id r]
  apply List.map_congr_left
  intro c hc
  have := h c.1 (List.mem_map_of_mem (f := (·.1)) hc)
  simp [this]

theorem sideCols_noid (s : Store α) (fs : List String) (sfx : String) (hs : sfx = "1" ∨ sfx = "2")
    (k : Nat) (r : Row α) (h : sideCols s fs sfx k = some r) : ∀ c ∈ rowNames r, c ∉ idCols := by
  rw [sideCols_names s fs sfx k r h]
  intro c hc
  obtain ⟨f, _, rfl⟩ := List.mem_map.mp hc
  exact suffix_ne_id f sfx hs

theorem extraCols_noid (s : Store α) (o : DumpOpts) (p : Px) (e : Row α) (h : extraCols s o p = some e) :
    ∀ c ∈ rowNames e, c ∉ idCols := by
  unfold extraCols at h
  cases ha : o.annotate with
  | none => simp [ha] at h; subst h; simp [rowNames]
  | some fs =>
    simp only [ha] at h
    cases h1 : sideCols s fs "1" p.i with
    | none => simp [h1] at h
    | some a =>
      cases h2 : sideCols s fs "2" p.j with
      | none => simp [h1, h2] at h
      | some b =>
        simp [h1, h2] at h
        subst h
        intro c hc
        simp only [rowNames, List.map_append, List.mem_append] at hc
        rcases hc with hc | hc
        · exact sideCols_noid s fs "1" (Or.inl rfl) p.i a h1 c hc
        · exact sideCols_noid s fs "2" (Or.inr rfl) p.j b h2 c hc

/-- **`--join`**: the row with the flag is the row without it (and without the one-based shifts) with
the two id columns replaced by `chrom/start/end` of both bins, put in front; `--one-based-starts` then
applies to the new start columns, `--one-based-ids` has nothing left to apply to -/
theorem join_effect (ops : Bal.Ops Int α) (s : Store α) (o : DumpOpts) (p : Px) :
    annotateRow ops s { o with join := true } p =
      (annotateRow ops s { o with join := false, oneBasedIds := false, oneBasedStarts := false } p).bind
        fun r => (joinRow s p.i p.j r).map (bumpIf o.oneBasedStarts startCols) := by
  have hE1 : extraCols s { o with join := true } p = extraCols s o p := rfl
  have hE2 : extraCols s { o with join := false, oneBasedIds := false, oneBasedStarts := false } p
      = extraCols s o p := rfl
  have hB1 : balStage ops s { o with join := true } p = balStage ops s o p := rfl
  have hB2 : balStage ops s { o with join := false, oneBasedIds := false, oneBasedStarts := false } p
      = balStage ops s o p := rfl
  have hJ1 : ∀ r, joinStage s { o with join := true } p r = joinRow s p.i p.j r := fun _ => rfl
  have hJ2 : ∀ r, joinStage s { o with join := false, oneBasedIds := false, oneBasedStarts := false } p r
      = some r := fun _ => rfl
  have hF1 : ∀ r e : Row α, finish { o with join := true } r e
      = bumpIf o.oneBasedStarts startCols (bumpIf o.oneBasedIds idCols (r ++ e)) := fun _ _ => rfl
  have hF2 : ∀ r e : Row α, finish { o with join := false, oneBasedIds := false, oneBasedStarts := false } r e
      = r ++ e := fun _ _ => rfl
  unfold annotateRow
  simp only [hE1, hE2, hB1, hB2, hJ1, hJ2, hF1, hF2]
  cases he : extraCols s o p with
  | none => rfl
  | some e =>
    simp only [Option.bind_some]
    cases balStage ops s o p with
    | none => rfl
    | some r1 =>
      simp only [Option.bind_some, Option.map_some]
      unfold joinRow
      cases h1 : sideCols s coordFields "1" p.i with
      | none => rfl
      | some a =>
        cases h2 : sideCols s coordFields "2" p.j with
        | none => rfl
        | some b =>
          simp only [Option.bind_some, Option.map_some, Option.map_map]
          have hne := extraCols_noid s o p e he
          have hfe : (r1 ++ e).filter (fun c => !(decide (c.1 ∈ idCols)))
              = r1.filter (fun c => !(decide (c.1 ∈ idCols))) ++ e := by
            rw [List.filter_append, filter_noid_of_names e hne]
          rw [hfe]
          have hnoid : ∀ c ∈ rowNames (a ++ b ++ r1.filter (fun c => !(decide (c.1 ∈ idCols))) ++ e),
              c ∉ idCols := by
            intro c hc
            simp only [rowNames, List.map_append, List.mem_append] at hc
            rcases hc with ((hc | hc) | hc) | hc
            · exact sideCols_noid s _ "1" (Or.inl rfl) _ a h1 c hc
            · exact sideCols_noid s _ "2" (Or.inr rfl) _ b h2 c hc
            · obtain ⟨x, hx, rfl⟩ := List.mem_map.mp hc
              have := (List.mem_filter.mp hx).2
              simpa using this
            · exact hne c hc
          have hb : bump idCols (a ++ b ++ r1.filter (fun c => !(decide (c.1 ∈ idCols))) ++ e)
              = a ++ b ++ r1.filter (fun c => !(decide (c.1 ∈ idCols))) ++ e :=
            bump_noid_of_names _ _ hnoid
          simp only [List.append_assoc] at hb ⊢
          split <;> simp [hb]

end dump

end Cooler.C16
