import CoolerModel.Model.TextIO
import CoolerModel.Props.C03
import CoolerModel.Props.C05
import CoolerModel.Props.C06
import CoolerModel.Props.C13
/-!
# C16 — text export agrees with the API; re-importing it reproduces the cooler

Theorems about `Model/TextIO.lean`.

* `columns_any_layout` (+ `columns_legacy_fails`): the column reader of the text loaders gives field
  `f` the input line's column `col f` for EVERY injective layout (formal content of repair D12); the
  pre-repair reader does not (`decide` on a concrete non-monotone layout).
* `dump_eq_query`, `dump_whole_stored`: the dumped rows are the library query's records, in engine
  order, each mapped through the annotator; the query is the stored records inside the box
  (direct engine) / a permutation of the sub-block of the completed matrix (fill-lower engine).
* `dump_option_effect`: one theorem per option (`one_based_ids_effect`, `one_based_starts_effect`,
  `join_effect`, `balanced_effect`, `annotate_effect`, `fill_lower_square`, `header_effect`,
  `range_effect`, `range2_effect`) of the form "rows with the flag = f (rows without the flag)".
* `load_dump_coo`, `load_dump_bg2`: dumping a valid store and loading the lines back — in any order,
  cut into reader chunks of any sizes, zero- or one-based on both sides — reproduces `s.px`.
* `pairs_any_layout`: the record parsed from a pairs line depends only on the values found at the
  declared columns, not on where the columns are.
* `cloadPairs_eq_spec`: for any cutting into reader chunks, `cooler cload pairs` (per-chunk sanitize +
  aggregate, then the C06 merge) stores one unit per retained record in its pixel — L1 = L0 — or is
  rejected exactly when the specification rejects (away from known finding D13).
* `parseFieldParam_spec`: grammar and refusals of `parse_field_param`.
-/
set_option linter.unusedSimpArgs false
set_option linter.unusedVariables false

namespace Cooler.C16
open Cooler Cooler.TextIO

/-! ## 0. `mapO`, `mapE` -/

theorem mapO_eq_some_map {β γ : Type} (f : β → Option γ) (g : β → γ) (l : List β)
    (h : ∀ x ∈ l, f x = some (g x)) : mapO f l = some (l.map g) := by
  induction l with
  | nil => rfl
  | cons x xs ih =>
    simp only [mapO, h x (List.mem_cons_self), ih (fun y hy => h y (List.mem_cons_of_mem _ hy)),
      List.map_cons]

theorem mapO_congr {β γ : Type} (f g : β → Option γ) (l : List β) (h : ∀ x ∈ l, f x = g x) :
    mapO f l = mapO g l := by
  induction l with
  | nil => rfl
  | cons x xs ih =>
    simp only [mapO, h x (List.mem_cons_self), ih (fun y hy => h y (List.mem_cons_of_mem _ hy))]

/-- post-composition with a total function -/
theorem mapO_map {β γ δ : Type} (f : β → Option γ) (g : γ → δ) (l : List β) :
    mapO (fun x => (f x).map g) l = (mapO f l).map (List.map g) := by
  induction l with
  | nil => rfl
  | cons x xs ih =>
    simp only [mapO, ih]
    cases f x <;> simp
    cases mapO f xs <;> simp

/-- post-composition with a partial function -/
theorem mapO_bind {β γ δ : Type} (f : β → Option γ) (g : γ → Option δ) (l : List β) :
    mapO (fun x => (f x).bind g) l = (mapO f l).bind (mapO g) := by
  induction l with
  | nil => rfl
  | cons x xs ih =>
    simp only [mapO, ih]
    cases hf : f x with
    | none => simp
    | some y =>
      cases hm : mapO f xs with
      | none =>
        simp only [Option.bind_some, Option.bind_none]
        cases g y <;> simp
      | some ys => simp [mapO]

theorem mapO_append {β γ : Type} (f : β → Option γ) (a b : List β) :
    mapO f (a ++ b) = (mapO f a).bind fun x => (mapO f b).map fun y => x ++ y := by
  induction a with
  | nil => simp [mapO]
  | cons x xs ih =>
    simp only [List.cons_append, mapO, ih]
    cases f x <;> simp
    cases mapO f xs <;> simp
    cases mapO f b <;> simp

/-- annotating chunk by chunk and concatenating = annotating the concatenation -/
theorem mapO_flatten {β γ : Type} (f : β → Option γ) (chunks : List (List β)) :
    (mapO (mapO f) chunks).map List.flatten = mapO f chunks.flatten := by
  induction chunks with
  | nil => rfl
  | cons c cs ih =>
    simp only [mapO, List.flatten_cons, mapO_append, ← ih]
    cases mapO f c <;> simp
    cases mapO (mapO f) cs <;> simp

theorem mapO_length {β γ : Type} (f : β → Option γ) (l : List β) (r : List γ) (h : mapO f l = some r) :
    r.length = l.length := by
  induction l generalizing r with
  | nil => simp [mapO] at h; subst h; rfl
  | cons x xs ih =>
    simp only [mapO] at h
    cases hf : f x with
    | none => simp [hf] at h
    | some y =>
      cases hm : mapO f xs with
      | none => simp [hf, hm] at h
      | some ys =>
        simp [hf, hm] at h; subst h
        simp [ih ys hm]

theorem mapE_eq_ok_map {β γ : Type} (f : β → Except Err γ) (g : β → γ) (l : List β)
    (h : ∀ x ∈ l, f x = .ok (g x)) : Bal.mapE f l = .ok (l.map g) := by
  induction l with
  | nil => rfl
  | cons x xs ih =>
    simp only [Bal.mapE, h x (List.mem_cons_self), ih (fun y hy => h y (List.mem_cons_of_mem _ hy)),
      List.map_cons]

theorem mapE_map_ok {β γ δ : Type} (f : γ → Except Err δ) (g : β → γ) (h : β → δ) (l : List β)
    (hf : ∀ x ∈ l, f (g x) = .ok (h x)) : Bal.mapE f (l.map g) = .ok (l.map h) := by
  induction l with
  | nil => rfl
  | cons x xs ih =>
    simp only [List.map_cons, Bal.mapE, hf x (List.mem_cons_self),
      ih (fun y hy => hf y (List.mem_cons_of_mem _ hy))]

/-! ## 1. the column reader: `columns_any_layout` (repair D12) -/

def SortedNat (l : List Nat) : Prop := l.Pairwise (· ≤ ·)

theorem mem_insertNat (x y : Nat) (l : List Nat) : y ∈ insertNat x l ↔ y = x ∨ y ∈ l := by
  induction l with
  | nil => simp [insertNat]
  | cons z zs ih =>
    simp only [insertNat]
    split
    · simp
    · simp only [List.mem_cons, ih]
      constructor
      · rintro (h | h | h) <;> simp [h]
      · rintro (h | h | h) <;> simp [h]

theorem insertNat_sorted (x : Nat) (l : List Nat) (h : SortedNat l) : SortedNat (insertNat x l) := by
  unfold SortedNat at *
  induction l with
  | nil => simp [insertNat]
  | cons z zs ih =>
    simp only [insertNat]
    split
    · rename_i hxz
      rw [List.pairwise_cons] at h ⊢
      refine ⟨?_, List.pairwise_cons.mpr h⟩
      intro y hy
      rcases List.mem_cons.mp hy with rfl | hy
      · exact hxz
      · exact Nat.le_trans hxz (h.1 y hy)
    · rename_i hxz
      rw [List.pairwise_cons] at h ⊢
      refine ⟨?_, ih h.2⟩
      intro y hy
      rcases (mem_insertNat x y zs).mp hy with rfl | hy
      · omega
      · exact h.1 y hy

theorem sortNat_sorted (l : List Nat) : SortedNat (sortNat l) := by
  induction l with
  | nil => simp [sortNat, SortedNat]
  | cons x xs ih => exact insertNat_sorted x _ ih

theorem insertNat_of_le (x : Nat) (l : List Nat) (h : ∀ y ∈ l, x ≤ y) : insertNat x l = x :: l := by
  cases l with
  | nil => rfl
  | cons z zs => simp [insertNat, h z (List.mem_cons_self)]

/-- sorting an ascending list changes nothing -/
theorem sortNat_of_sorted (l : List Nat) (h : SortedNat l) : sortNat l = l := by
  unfold SortedNat at h
  induction l with
  | nil => rfl
  | cons x xs ih =>
    rw [List.pairwise_cons] at h
    simp only [sortNat, ih h.2]
    exact insertNat_of_le x xs h.1

theorem insertField_snd (x : String × Nat) (l : List (String × Nat)) :
    (insertField x l).map (·.2) = insertNat x.2 (l.map (·.2)) := by
  induction l with
  | nil => rfl
  | cons y ys ih =>
    simp only [insertField, List.map_cons, insertNat]
    split <;> simp [ih]

/-- the column numbers of the sorted field list are the sorted column numbers -/
theorem sortFields_snd (l : List (String × Nat)) : (sortFields l).map (·.2) = sortNat (l.map (·.2)) := by
  induction l with
  | nil => rfl
  | cons x xs ih => simp only [sortFields, insertField_snd, ih, List.map_cons, sortNat]

theorem insertField_perm (x : String × Nat) (l : List (String × Nat)) : (insertField x l).Perm (x :: l) := by
  induction l with
  | nil => exact List.Perm.refl _
  | cons y ys ih =>
    simp only [insertField]
    split
    · exact List.Perm.refl _
    · exact (List.Perm.cons y ih).trans (List.Perm.swap x y ys)

theorem sortFields_perm (l : List (String × Nat)) : (sortFields l).Perm l := by
  induction l with
  | nil => exact List.Perm.refl _
  | cons x xs ih => exact (insertField_perm x _).trans (List.Perm.cons x ih)

theorem zip_fst_snd {β γ : Type} (l : List (β × γ)) : (l.map (·.1)).zip (l.map (·.2)) = l := by
  induction l with
  | nil => rfl
  | cons x xs ih => simp [ih]

/-- what the pandas primitive returns when the names are already in ascending column order -/
theorem pandasReadCols_sorted {β : Type} (fs : List (String × Nat)) (row : List β)
    (hs : SortedNat (fs.map (·.2))) (hn : (fs.map (·.2)).Nodup) :
    pandasReadCols (fs.map (·.2)) (fs.map (·.1)) row =
      Bal.mapE (fun nc : String × Nat =>
        match row[nc.2]? with
        | some v => .ok (nc.1, v)
        | none => .error .value) fs := by
  unfold pandasReadCols
  have : ¬ (¬ (fs.map (·.2)).Nodup ∨ (fs.map (·.2)).length ≠ (fs.map (·.1)).length) := by
    simp [hn]
  rw [if_neg this, sortNat_of_sorted _ hs, zip_fst_snd]
  rfl

theorem lookup_of_mapE {β : Type} (fs : List (String × Nat)) (row : List β)
    (hnames : (fs.map (·.1)).Nodup) (hrange : ∀ fc ∈ fs, fc.2 < row.length) :
    ∃ parsed, Bal.mapE (fun nc : String × Nat =>
        match row[nc.2]? with
        | some v => (.ok (nc.1, v) : Except Err (String × β))
        | none => .error .value) fs = .ok parsed ∧
      parsed.map (·.1) = fs.map (·.1) ∧
      ∀ fc ∈ fs, parsed.lookup fc.1 = row[fc.2]? := by
  induction fs with
  | nil => exact ⟨[], rfl, rfl, by simp⟩
  | cons x xs ih =>
    rw [List.map_cons, List.nodup_cons] at hnames
    obtain ⟨parsed, hp, hnm, hl⟩ := ih hnames.2 (fun fc h => hrange fc (List.mem_cons_of_mem _ h))
    have hx : x.2 < row.length := hrange x (List.mem_cons_self)
    refine ⟨(x.1, row[x.2]) :: parsed, ?_, by simp [hnm], ?_⟩
    · simp only [Bal.mapE, List.getElem?_eq_getElem hx, hp]
    · intro fc hfc
      rcases List.mem_cons.mp hfc with rfl | hfc
      · simp [List.lookup, List.getElem?_eq_getElem hx]
      · have hne : fc.1 ≠ x.1 := by
          intro he
          exact hnames.1 (he ▸ List.mem_map_of_mem (f := (·.1)) hfc)
        have : (fc.1 == x.1) = false := by simpa using hne
        simp only [List.lookup, this]
        exact hl fc hfc

/-- **columns_any_layout** (repair D12): for EVERY injective assignment of field names to column
numbers inside the line — ascending or not — the parsed record's field `f` is the line's column
`col f`, and the parsed columns are exactly the declared fields. -/
theorem columns_any_layout {β : Type} (fields : List (String × Nat)) (row : List β)
    (hinj : (fields.map (·.2)).Nodup) (hnames : (fields.map (·.1)).Nodup)
    (hrange : ∀ fc ∈ fields, fc.2 < row.length) :
    ∃ parsed, readFields fields row = .ok parsed ∧
      (parsed.map (·.1)).Perm (fields.map (·.1)) ∧
      ∀ fc ∈ fields, parsed.lookup fc.1 = row[fc.2]? := by
  have hp := sortFields_perm fields
  have hs : SortedNat ((sortFields fields).map (·.2)) := by rw [sortFields_snd]; exact sortNat_sorted _
  have hn : ((sortFields fields).map (·.2)).Nodup := (hp.map _).nodup_iff.mpr hinj
  have hnm : ((sortFields fields).map (·.1)).Nodup := (hp.map _).nodup_iff.mpr hnames
  obtain ⟨parsed, h1, h2, h3⟩ := lookup_of_mapE (sortFields fields) row hnm
    (fun fc h => hrange fc (hp.mem_iff.mp h))
  refine ⟨parsed, ?_, ?_, ?_⟩
  · unfold readFields
    simp only []
    rw [pandasReadCols_sorted _ row hs hn]
    exact h1
  · rw [h2]; exact hp.map _
  · intro fc hfc
    exact h3 fc (hp.mem_iff.mpr hfc)

/-- non-vacuity: a non-monotone layout inside a wider line -/
example : readFields [("chrom1", 4), ("pos1", 1), ("chrom2", 0), ("pos2", 6)] [10, 11, 12, 13, 14, 15, 16]
    = (.ok [("chrom2", 10), ("pos1", 11), ("chrom1", 14), ("pos2", 16)] : Except Err _) := by decide

/-- the statement of `columns_any_layout` for the pre-repair reader -/
def LegacyLayoutStatement : Prop :=
  ∀ (fields : List (String × Nat)) (row : List Nat),
    (fields.map (·.2)).Nodup → (fields.map (·.1)).Nodup → (∀ fc ∈ fields, fc.2 < row.length) →
    ∀ parsed, readFieldsLegacy fields row = .ok parsed → ∀ fc ∈ fields, parsed.lookup fc.1 = row[fc.2]?

/-- **without the sort the statement fails**: `-c1 3 -p1 2 -c2 1 -p2 4` reads `chrom1` from column 1 -/
theorem columns_legacy_fails : ¬ LegacyLayoutStatement := by
  intro h
  have := h [("chrom1", 2), ("pos1", 1), ("chrom2", 0), ("pos2", 3)] [10, 11, 12, 13]
    (by decide) (by decide) (by decide)
    [("chrom1", 10), ("pos1", 11), ("chrom2", 12), ("pos2", 13)] (by decide) ("chrom1", 2) (by simp)
  revert this
  decide

/-- for ascending layouts the two readers coincide (why the defect went unnoticed) -/
theorem legacy_eq_of_ascending {β : Type} (fields : List (String × Nat)) (row : List β)
    (h : SortedNat (fields.map (·.2))) (hinj : (fields.map (·.2)).Nodup) :
    readFieldsLegacy fields row = readFields fields row := by
  have hs : sortFields fields = fields := by
    clear hinj
    induction fields with
    | nil => rfl
    | cons x xs ih =>
      unfold SortedNat at h ih
      rw [List.map_cons, List.pairwise_cons] at h
      simp only [sortFields, ih h.2]
      cases xs with
      | nil => rfl
      | cons y ys =>
        have : x.2 ≤ y.2 := h.1 y.2 (by simp)
        simp [insertField, this]
  unfold readFields readFieldsLegacy
  simp only [hs]

/-! ## 2. `cooler dump` -/

section dump
variable {α : Type}

/-- well-formed stored collection (C02's `ValidCooler`, the part the text interface relies on) -/
structure ValidStore (s : Store α) : Prop where
  sorted : StrictSorted s.px
  inRange : InRange s.nbins s.px
  triu : s.symm = true → Triu s.px
  offsOK : OffsOK s.px s.offs s.nbins

theorem taskChunks_flatten (ps : Pixels) (offs : List Nat) (spansOf : Box → List (Nat × Nat)) (t : Task) :
    (taskChunks ps offs spansOf t).flatten = runTask ps offs spansOf t := by
  unfold taskChunks runTask
  cases t.1
  · simp [List.flatMap_def]
  · simp only [if_true]
    rw [List.flatMap_def, List.map_flatten, List.map_map]
    rfl

/-- the chunk stream concatenates to the library query's result -/
theorem engineChunks_flatten (s : Store α) (spansOf : Box → List (Nat × Nat)) (o : DumpOpts) :
    (engineChunks s spansOf o).map List.flatten = engineOut s spansOf o := by
  unfold engineChunks engineOut
  simp only []
  split
  · unfold queryFill
    rw [Option.map_map]
    congr 1
    funext ts
    simp only [Function.comp]
    rw [List.flatMap_def, List.flatten_flatten, List.map_map, List.flatMap_def]
    congr 1
    apply List.map_congr_left
    intro t _
    exact taskChunks_flatten _ _ _ t
  · simp [directChunks, queryDirect, List.flatMap_def]

/-- rows = the annotator mapped over the library query's result (chunking is irrelevant) -/
theorem dumpRows_eq (ops : Bal.Ops Int α) (s : Store α) (spansOf : Box → List (Nat × Nat)) (o : DumpOpts) :
    dumpRows ops s spansOf o = (engineOut s spansOf o).bind (mapO (annotateRow ops s o)) := by
  unfold dumpRows
  rw [← engineChunks_flatten]
  cases engineChunks s spansOf o with
  | none => rfl
  | some chunks => simp [mapO_flatten]

/-- the box of an in-domain dump: ordered extents inside the bin table -/
def BoxOK (n : Nat) (b : Box) : Prop := b.i0 ≤ b.i1 ∧ b.j0 ≤ b.j1 ∧ b.i1 ≤ n ∧ b.j1 ≤ n

/-- **dump_eq_query**: the dumped rows are the records of the corresponding library query, in engine
order, each mapped through the selected annotations.  The query result is — direct engine — exactly
the stored records inside the box, in storage order (in square mode: the sub-block of the matrix),
and — fill-lower engine on a symmetric-upper store — a permutation of the sub-block of the symmetric
completion: every entry of the box once, nothing else.  For every valid choice of row spans
(`--chunksize`). -/
theorem dump_eq_query (ops : Bal.Ops Int α) (s : Store α) (hv : ValidStore s)
    (spansOf : Box → List (Nat × Nat)) (hsp : ∀ c, validSpans s.offs c (spansOf c) = true)
    (o : DumpOpts) (hb : BoxOK s.nbins (bbox s.nbins o)) :
    ∃ out, engineOut s spansOf o = some out ∧
      dumpRows ops s spansOf o = mapO (annotateRow ops s o) out ∧
      (if useFill s o = true then out.Perm (specWindow true s.px (bbox s.nbins o))
       else out = s.px.filter (inBox (bbox s.nbins o)) ∧ out = specWindow false s.px (bbox s.nbins o)) := by
  obtain ⟨h0, h1, hi, hj⟩ := hb
  by_cases hf : useFill s o = true
  · have hsymm : s.symm = true := by
      unfold useFill at hf; simp only [Bool.and_eq_true] at hf; exact hf.2
    have hvs : C03.ValidSymm s.px s.offs s.nbins := ⟨hv.sorted, hv.triu hsymm, hv.offsOK⟩
    have hsome := C03.fillLower_total s.px s.offs spansOf (bbox s.nbins o) h0 h1
    obtain ⟨out, hout⟩ := Option.isSome_iff_exists.mp hsome
    have heo : engineOut s spansOf o = some out := by
      unfold engineOut; simp only [hf, if_true]; exact hout
    refine ⟨out, heo, ?_, ?_⟩
    · rw [dumpRows_eq, heo]; rfl
    · simp only [hf, if_true]
      exact C03.fillLower_correct s.px s.offs s.nbins hvs spansOf hsp _ h0 h1 hi hj out hout
  · have hd := C03.direct_correct s.px (C03.StrictSorted.rowSorted hv.sorted) s.offs s.nbins hv.offsOK
      (bbox s.nbins o) hi (spansOf (bbox s.nbins o)) (hsp _)
    have heo : engineOut s spansOf o = some (s.px.filter (inBox (bbox s.nbins o))) := by
      unfold engineOut; simp only [hf, if_false, Bool.false_eq_true]; rw [hd]
    refine ⟨_, heo, ?_, ?_⟩
    · rw [dumpRows_eq, heo]; rfl
    · simp [hf, specWindow]

/-- **whole-matrix dump without fill = the stored table**, row for row -/
theorem dump_whole_stored (ops : Bal.Ops Int α) (s : Store α) (hv : ValidStore s)
    (spansOf : Box → List (Nat × Nat)) (hsp : ∀ c, validSpans s.offs c (spansOf c) = true)
    (o : DumpOpts) (hr : o.range = none) (hf : useFill s o = false) :
    dumpRows ops s spansOf o = mapO (annotateRow ops s o) s.px := by
  have hbox : bbox s.nbins o = ⟨0, s.nbins, 0, s.nbins⟩ := by unfold bbox; rw [hr]
  obtain ⟨out, _, h2, h3⟩ := dump_eq_query ops s hv spansOf hsp o
    (by rw [hbox]; exact ⟨Nat.zero_le _, Nat.zero_le _, Nat.le_refl _, Nat.le_refl _⟩)
  simp only [hf, Bool.false_eq_true, if_false] at h3
  rw [h2, h3.1, hbox]
  congr 1
  rw [List.filter_eq_self]
  intro p hp
  have := hv.inRange p hp
  simp [inBox, this.1, this.2]

/-! ### the engine does not look at the annotation options, the annotator not at the engine's -/

theorem engineOut_congr (s : Store α) (spansOf : Box → List (Nat × Nat)) (o o' : DumpOpts)
    (h1 : o.fillLower = o'.fillLower) (h2 : o.range = o'.range) (h3 : o.range2 = o'.range2) :
    engineOut s spansOf o = engineOut s spansOf o' := by
  unfold engineOut useFill bbox
  rw [h1, h2, h3]

theorem annotateRow_congr (ops : Bal.Ops Int α) (s : Store α) (o o' : DumpOpts) (p : Px)
    (h1 : o.balanced = o'.balanced) (h2 : o.join = o'.join) (h3 : o.annotate = o'.annotate)
    (h4 : o.oneBasedIds = o'.oneBasedIds) (h5 : o.oneBasedStarts = o'.oneBasedStarts) :
    annotateRow ops s o p = annotateRow ops s o' p := by
  unfold annotateRow extraCols balStage joinStage finish
  rw [h1, h2, h3, h4, h5]

/-- lifting a row-wise effect to the whole dump -/
theorem dumpRows_map_effect (ops : Bal.Ops Int α) (s : Store α) (spansOf : Box → List (Nat × Nat))
    (o o' : DumpOpts) (g : Row α → Row α) (he : engineOut s spansOf o = engineOut s spansOf o')
    (hr : ∀ p, annotateRow ops s o p = (annotateRow ops s o' p).map g) :
    dumpRows ops s spansOf o = (dumpRows ops s spansOf o').map (List.map g) := by
  rw [dumpRows_eq, dumpRows_eq, he]
  have : annotateRow ops s o = fun p => (annotateRow ops s o' p).map g := funext hr
  rw [this]
  cases engineOut s spansOf o' with
  | none => rfl
  | some out => simp [mapO_map]

/-! ### one theorem per option: rows with the flag = f (rows without the flag) -/

theorem bump_comm (a b : List String) (r : Row α) : bump a (bump b r) = bump b (bump a r) := by
  unfold bump
  rw [List.map_map, List.map_map]
  apply List.map_congr_left
  intro c _
  simp only [Function.comp]
  by_cases h1 : c.1 ∈ a <;> by_cases h2 : c.1 ∈ b <;> simp [h1, h2]

theorem rowNames_bump (cols : List String) (r : Row α) : rowNames (bump cols r) = rowNames r := by
  unfold rowNames bump
  rw [List.map_map]
  apply List.map_congr_left
  intro c _
  simp only [Function.comp]
  split <;> rfl

theorem rowNames_bumpIf (b : Bool) (cols : List String) (r : Row α) : rowNames (bumpIf b cols r) = rowNames r := by
  unfold bumpIf; split
  · exact rowNames_bump _ _
  · rfl

/-- an option that only changes the final step acts on the finished row -/
theorem annotateRow_finish_effect (ops : Bal.Ops Int α) (s : Store α) (o o' : DumpOpts) (p : Px)
    (g : Row α → Row α) (h1 : o.balanced = o'.balanced) (h2 : o.join = o'.join)
    (h3 : o.annotate = o'.annotate) (hfin : ∀ r e, finish o r e = g (finish o' r e)) :
    annotateRow ops s o p = (annotateRow ops s o' p).map g := by
  unfold annotateRow extraCols balStage joinStage
  rw [h1, h2, h3]
  simp only [hfin, Option.map_bind, Option.map_map, Function.comp_def]

/-- `--one-based-starts`, one row: +1 on `start1`/`start2` where present, nothing else -/
theorem annotateRow_starts (ops : Bal.Ops Int α) (s : Store α) (o : DumpOpts) (p : Px) :
    annotateRow ops s { o with oneBasedStarts := true } p =
      (annotateRow ops s { o with oneBasedStarts := false } p).map (bump startCols) :=
  annotateRow_finish_effect ops s _ _ p _ rfl rfl rfl (fun r e => by simp [finish, bumpIf])

/-- **`--one-based-starts`**: the dump with the flag is the dump without it with 1 added to both
start columns where they are present (under `--join`, or `--annotate start`), and nothing else -/
theorem one_based_starts_effect (ops : Bal.Ops Int α) (s : Store α) (spansOf : Box → List (Nat × Nat))
    (o : DumpOpts) :
    dumpRows ops s spansOf { o with oneBasedStarts := true } =
      (dumpRows ops s spansOf { o with oneBasedStarts := false }).map (List.map (bump startCols)) :=
  dumpRows_map_effect ops s spansOf _ _ _ (engineOut_congr s spansOf _ _ rfl rfl rfl)
    (annotateRow_starts ops s o)

/-- `--one-based-ids`, one row -/
theorem annotateRow_ids (ops : Bal.Ops Int α) (s : Store α) (o : DumpOpts) (p : Px) :
    annotateRow ops s { o with oneBasedIds := true } p =
      (annotateRow ops s { o with oneBasedIds := false } p).map (bump idCols) :=
  annotateRow_finish_effect ops s _ _ p _ rfl rfl rfl (fun r e => by
    simp only [finish, bumpIf, if_true, Bool.false_eq_true, if_false]
    split
    · rw [bump_comm]
    · rfl)

/-- **`--one-based-ids`**: the dump with the flag is the dump without it with 1 added to both id
columns where they are present (i.e. not under `--join`), and nothing else — also when no other
annotation option is given (repair D11) -/
theorem one_based_ids_effect (ops : Bal.Ops Int α) (s : Store α) (spansOf : Box → List (Nat × Nat))
    (o : DumpOpts) :
    dumpRows ops s spansOf { o with oneBasedIds := true } =
      (dumpRows ops s spansOf { o with oneBasedIds := false }).map (List.map (bump idCols)) :=
  dumpRows_map_effect ops s spansOf _ _ _ (engineOut_congr s spansOf _ _ rfl rfl rfl)
    (annotateRow_ids ops s o)

/-- on the plain three-column dump the flag really adds one to both ids (D11 regression: before the
repair the annotator was not even built for this option set) -/
theorem one_based_ids_plain (ops : Bal.Ops Int α) (s : Store α) (p : Px) :
    annotateRow ops s { oneBasedIds := true } p =
      some [("bin1_id", .int (p.i + 1)), ("bin2_id", .int (p.j + 1)), ("count", .int p.v)] := by
  simp [annotateRow, extraCols, balStage, joinStage, finish, bumpIf, bump, baseRow, idCols, startCols,
    Val.succ]

/-- **`--header`** changes no data row -/
theorem header_effect (ops : Bal.Ops Int α) (s : Store α) (spansOf : Box → List (Nat × Nat))
    (o : DumpOpts) (h : Bool) :
    dumpRows ops s spansOf { o with header := h } = dumpRows ops s spansOf o := by
  rw [dumpRows_eq, dumpRows_eq, engineOut_congr s spansOf { o with header := h } o rfl rfl rfl]
  have : annotateRow ops s { o with header := h } = annotateRow ops s o :=
    funext fun p => annotateRow_congr ops s _ _ p rfl rfl rfl rfl rfl
  rw [this]

/-- **`--fill-lower`** is the identity on a store in square mode -/
theorem fill_lower_square (ops : Bal.Ops Int α) (s : Store α) (hs : s.symm = false)
    (spansOf : Box → List (Nat × Nat)) (o : DumpOpts) (f : Bool) :
    dumpRows ops s spansOf { o with fillLower := f } = dumpRows ops s spansOf o := by
  have he : engineOut s spansOf { o with fillLower := f } = engineOut s spansOf o := by
    unfold engineOut useFill bbox
    simp [hs]
  rw [dumpRows_eq, dumpRows_eq, he]
  have : annotateRow ops s { o with fillLower := f } = annotateRow ops s o :=
    funext fun p => annotateRow_congr ops s _ _ p rfl rfl rfl rfl rfl
  rw [this]

/-- **`--fill-lower`** on a symmetric-upper store: the rows are the annotated sub-block of the
symmetric completion (instead of the stored upper-triangle records of the box) -/
theorem fill_lower_symm (ops : Bal.Ops Int α) (s : Store α) (hv : ValidStore s) (hs : s.symm = true)
    (spansOf : Box → List (Nat × Nat)) (hsp : ∀ c, validSpans s.offs c (spansOf c) = true)
    (o : DumpOpts) (hb : BoxOK s.nbins (bbox s.nbins o)) :
    (∃ out, out.Perm (specWindow true s.px (bbox s.nbins o)) ∧
      dumpRows ops s spansOf { o with fillLower := true } = mapO (annotateRow ops s o) out) ∧
    dumpRows ops s spansOf { o with fillLower := false } =
      mapO (annotateRow ops s o) (s.px.filter (inBox (bbox s.nbins o))) := by
  have hbb : ∀ f, bbox s.nbins { o with fillLower := f } = bbox s.nbins o := fun f => rfl
  have hann : ∀ f, annotateRow ops s { o with fillLower := f } = annotateRow ops s o := by
    intro f; funext p; exact annotateRow_congr ops s _ _ p rfl rfl rfl rfl rfl
  constructor
  · obtain ⟨out, _, h2, h3⟩ := dump_eq_query ops s hv spansOf hsp { o with fillLower := true }
      (by rw [hbb]; exact hb)
    have : useFill s { o with fillLower := true } = true := by simp [useFill, hs]
    simp only [this, if_true, hbb] at h3
    exact ⟨out, h3, by rw [h2, hann]⟩
  · obtain ⟨out, _, h2, h3⟩ := dump_eq_query ops s hv spansOf hsp { o with fillLower := false }
      (by rw [hbb]; exact hb)
    have : useFill s { o with fillLower := false } = false := by simp [useFill]
    simp only [this, Bool.false_eq_true, if_false, hbb] at h3
    rw [h2, hann, h3.1]

/-- **`-r`**: the rows are those of the row extent × the same extent; **`-r … -r2 …`**: row extent ×
column extent; no `-r`: the whole matrix (`-r2` alone is ignored by the code — an observation, not
part of the property) -/
theorem range_effect (n : Nat) (o : DumpOpts) :
    (∀ r, o.range = some r → o.range2 = none → bbox n o = ⟨r.1, r.2, r.1, r.2⟩) ∧
    (∀ r c, o.range = some r → o.range2 = some c → bbox n o = ⟨r.1, r.2, c.1, c.2⟩) ∧
    (o.range = none → bbox n o = ⟨0, n, 0, n⟩) := by
  refine ⟨?_, ?_, ?_⟩
  · intro r h1 h2; unfold bbox; rw [h1, h2]
  · intro r c h1 h2; unfold bbox; rw [h1, h2]
  · intro h1; unfold bbox; rw [h1]

/-! #### `--join`, `--balanced`, `--annotate`: stated per record `p` of the library query (by
`dump_eq_query` row `k` of either dump is the annotation of the same record `out[k]`) -/

theorem suffix_ne_id (f sfx : String) (hs : sfx = "1" ∨ sfx = "2") : f ++ sfx ∉ idCols := by
  intro h
  simp only [idCols, List.mem_cons, List.mem_nil_iff, or_false] at h
  rcases hs with rfl | rfl <;> rcases h with h | h <;>
    (have h1 := congrArg String.toList h
     simp [String.toList_append] at h1
     have h2 := congrArg List.getLast? h1
     simp at h2)

theorem sideCols_names (s : Store α) (fs : List String) (sfx : String) (k : Nat) (r : Row α)
    (h : sideCols s fs sfx k = some r) : rowNames r = fs.map (· ++ sfx) := by
  unfold sideCols at h
  induction fs generalizing r with
  | nil => simp [mapO] at h; subst h; rfl
  | cons f fs ih =>
    simp only [mapO] at h
    cases hb : binField s f k with
    | none => simp [hb] at h
    | some v =>
      cases hm : mapO (fun f => (binField s f k).map fun v => (f ++ sfx, v)) fs with
      | none => simp [hb, hm] at h
      | some rest =>
        simp [hb, hm] at h
        subst h
        simp [rowNames, List.map_cons]
        exact ih rest hm

theorem filter_noid_of_names (r : Row α) (h : ∀ c ∈ rowNames r, c ∉ idCols) :
    r.filter (fun c => !(decide (c.1 ∈ idCols))) = r := by
  rw [List.filter_eq_self]
  intro c hc
  have := h c.1 (List.mem_map_of_mem (f := (·.1)) hc)
  simp [this]

theorem bump_noid_of_names (cols : List String) (r : Row α) (h : ∀ c ∈ rowNames r, c ∉ cols) :
    bump cols r = r := by
  unfold bump
  conv => rhs; rw [← List.map_id r]
  apply List.map_congr_left
  intro c hc
  have := h c.1 (List.mem_map_of_mem (f := (·.1)) hc)
  simp [this]

theorem sideCols_noid (s : Store α) (fs : List String) (sfx : String) (hs : sfx = "1" ∨ sfx = "2")
    (k : Nat) (r : Row α) (h : sideCols s fs sfx k = some r) : ∀ c ∈ rowNames r, c ∉ idCols := by
  rw [sideCols_names s fs sfx k r h]
  intro c hc
  obtain ⟨f, _, rfl⟩ := List.mem_map.mp hc
  exact suffix_ne_id f sfx hs

theorem extraCols_noid (s : Store α) (o : DumpOpts) (p : Px) (e : Row α) (h : extraCols s o p = some e) :
    ∀ c ∈ rowNames e, c ∉ idCols := by
  unfold extraCols at h
  cases ha : o.annotate with
  | none => simp [ha] at h; subst h; simp [rowNames]
  | some fs =>
    simp only [ha] at h
    cases h1 : sideCols s fs "1" p.i with
    | none => simp [h1] at h
    | some a =>
      cases h2 : sideCols s fs "2" p.j with
      | none => simp [h1, h2] at h
      | some b =>
        simp [h1, h2] at h
        subst h
        intro c hc
        simp only [rowNames, List.map_append, List.mem_append] at hc
        rcases hc with hc | hc
        · exact sideCols_noid s fs "1" (Or.inl rfl) p.i a h1 c hc
        · exact sideCols_noid s fs "2" (Or.inr rfl) p.j b h2 c hc

/-- **`--join`**: the row with the flag is the row without it (and without the one-based shifts) with
the two id columns replaced by `chrom/start/end` of both bins, put in front; `--one-based-starts` then
applies to the new start columns, `--one-based-ids` has nothing left to apply to -/
theorem join_effect (ops : Bal.Ops Int α) (s : Store α) (o : DumpOpts) (p : Px) :
    annotateRow ops s { o with join := true } p =
      (annotateRow ops s { o with join := false, oneBasedIds := false, oneBasedStarts := false } p).bind
        fun r => (joinRow s p.i p.j r).map (bumpIf o.oneBasedStarts startCols) := by
  have hE1 : extraCols s { o with join := true } p = extraCols s o p := rfl
  have hE2 : extraCols s { o with join := false, oneBasedIds := false, oneBasedStarts := false } p
      = extraCols s o p := rfl
  have hB1 : balStage ops s { o with join := true } p = balStage ops s o p := rfl
  have hB2 : balStage ops s { o with join := false, oneBasedIds := false, oneBasedStarts := false } p
      = balStage ops s o p := rfl
  have hJ1 : ∀ r, joinStage s { o with join := true } p r = joinRow s p.i p.j r := fun _ => rfl
  have hJ2 : ∀ r, joinStage s { o with join := false, oneBasedIds := false, oneBasedStarts := false } p r
      = some r := fun _ => rfl
  have hF1 : ∀ r e : Row α, finish { o with join := true } r e
      = bumpIf o.oneBasedStarts startCols (bumpIf o.oneBasedIds idCols (r ++ e)) := fun _ _ => rfl
  have hF2 : ∀ r e : Row α, finish { o with join := false, oneBasedIds := false, oneBasedStarts := false } r e
      = r ++ e := fun _ _ => rfl
  unfold annotateRow
  simp only [hE1, hE2, hB1, hB2, hJ1, hJ2, hF1, hF2]
  cases he : extraCols s o p with
  | none => rfl
  | some e =>
    simp only [Option.bind_some]
    cases balStage ops s o p with
    | none => rfl
    | some r1 =>
      simp only [Option.bind_some, Option.map_some]
      unfold joinRow
      cases h1 : sideCols s coordFields "1" p.i with
      | none => rfl
      | some a =>
        cases h2 : sideCols s coordFields "2" p.j with
        | none => rfl
        | some b =>
          simp only [Option.bind_some, Option.map_some, Option.map_map]
          have hne := extraCols_noid s o p e he
          have hfe : (r1 ++ e).filter (fun c => !(decide (c.1 ∈ idCols)))
              = r1.filter (fun c => !(decide (c.1 ∈ idCols))) ++ e := by
            rw [List.filter_append, filter_noid_of_names e hne]
          rw [hfe]
          have hnoid : ∀ c ∈ rowNames (a ++ b ++ r1.filter (fun c => !(decide (c.1 ∈ idCols))) ++ e),
              c ∉ idCols := by
            intro c hc
            simp only [rowNames, List.map_append, List.mem_append] at hc
            rcases hc with ((hc | hc) | hc) | hc
            · exact sideCols_noid s _ "1" (Or.inl rfl) _ a h1 c hc
            · exact sideCols_noid s _ "2" (Or.inr rfl) _ b h2 c hc
            · obtain ⟨x, hx, rfl⟩ := List.mem_map.mp hc
              have := (List.mem_filter.mp hx).2
              simpa using this
            · exact hne c hc
          have hb : bump idCols (a ++ b ++ r1.filter (fun c => !(decide (c.1 ∈ idCols))) ++ e)
              = a ++ b ++ r1.filter (fun c => !(decide (c.1 ∈ idCols))) ++ e :=
            bump_noid_of_names _ _ hnoid
          simp only [List.append_assoc] at hb ⊢
          have : bumpIf o.oneBasedIds idCols (a ++ (b ++ (r1.filter (fun c => !(decide (c.1 ∈ idCols))) ++ e)))
              = a ++ (b ++ (r1.filter (fun c => !(decide (c.1 ∈ idCols))) ++ e)) := by
            unfold bumpIf; split
            · exact hb
            · rfl
          rw [this]

/-! #### `--balanced`, `--annotate`, the column names -/

theorem map_insertAt {β γ : Type} (f : β → γ) (k : Nat) (x : β) (l : List β) :
    (insertAt k x l).map f = insertAt k (f x) (l.map f) := by
  simp [insertAt, List.map_take, List.map_drop]

theorem insertAt_append {β : Type} (l1 l2 : List β) (x : β) :
    insertAt l1.length x (l1 ++ l2) = l1 ++ x :: l2 := by
  simp [insertAt]

theorem bumpIf_insertAt (b : Bool) (cols : List String) (k : Nat) (x : String × Val α) (l : Row α)
    (hx : x.1 ∉ cols) : bumpIf b cols (insertAt k x l) = insertAt k x (bumpIf b cols l) := by
  unfold bumpIf
  split
  · unfold bump
    rw [map_insertAt]
    simp [hx]
  · rfl

theorem bumpIf_append (b : Bool) (cols : List String) (r e : Row α) :
    bumpIf b cols (r ++ e) = bumpIf b cols r ++ bumpIf b cols e := by
  unfold bumpIf bump
  split
  · rw [List.map_append]
  · rfl

theorem sideCols_length (s : Store α) (fs : List String) (sfx : String) (k : Nat) (r : Row α)
    (h : sideCols s fs sfx k = some r) : r.length = fs.length :=
  mapO_length _ _ _ h

/-- **`--balanced`**: the row with the flag is the row without it with one more column, `balanced`,
right after `count`, holding `weight[bin1] · weight[bin2] · count` (C12's `entryCell`) — no other cell
changes; without a `weight` column (or with an id outside it) there is no output -/
theorem balanced_effect (ops : Bal.Ops Int α) (s : Store α) (o : DumpOpts) (p : Px) :
    annotateRow ops s { o with balanced := true } p =
      (balancedCell ops s p).bind fun v =>
        (annotateRow ops s { o with balanced := false } p).map
          (insertAt (if o.join = true then 7 else 3) ("balanced", v)) := by
  have hE1 : extraCols s { o with balanced := true } p = extraCols s o p := rfl
  have hE2 : extraCols s { o with balanced := false } p = extraCols s o p := rfl
  have hB1 : balStage ops s { o with balanced := true } p
      = (balancedCell ops s p).map fun v => baseRow p ++ [("balanced", v)] := rfl
  have hB2 : balStage ops s { o with balanced := false } p = some (baseRow p) := rfl
  have hJ1 : ∀ r, joinStage s { o with balanced := true } p r = joinStage s o p r := fun _ => rfl
  have hJ2 : ∀ r, joinStage s { o with balanced := false } p r = joinStage s o p r := fun _ => rfl
  have hF1 : ∀ r e : Row α, finish { o with balanced := true } r e = finish o r e := fun _ _ => rfl
  have hF2 : ∀ r e : Row α, finish { o with balanced := false } r e = finish o r e := fun _ _ => rfl
  unfold annotateRow
  simp only [hE1, hE2, hB1, hB2, hJ1, hJ2, hF1, hF2]
  cases hv : balancedCell ops s p with
  | none => cases extraCols s o p <;> rfl
  | some v =>
    cases he : extraCols s o p with
    | none => rfl
    | some e =>
      simp only [Option.bind_some, Option.map_some]
      have hbal1 : (("balanced", v) : String × Val α).1 ∉ idCols := by
        show "balanced" ∉ idCols; decide
      have hbal2 : (("balanced", v) : String × Val α).1 ∉ startCols := by
        show "balanced" ∉ startCols; decide
      unfold joinStage
      by_cases hj : o.join = true
      · simp only [hj, if_true]
        unfold joinRow
        cases h1 : sideCols s coordFields "1" p.i with
        | none => rfl
        | some a =>
          cases h2 : sideCols s coordFields "2" p.j with
          | none => rfl
          | some b =>
            simp only [Option.bind_some, Option.map_some, Option.map_map]
            have hla : a.length = 3 := sideCols_length s _ _ _ a h1
            have hlb : b.length = 3 := sideCols_length s _ _ _ b h2
            have hf1 : (baseRow p ++ [("balanced", v)] : Row α).filter (fun c => !(decide (c.1 ∈ idCols)))
                = [("count", .int p.v), ("balanced", v)] := by
              simp [baseRow, idCols, List.filter]
            have hf2 : (baseRow p : Row α).filter (fun c => !(decide (c.1 ∈ idCols)))
                = [("count", .int p.v)] := by
              simp [baseRow, idCols, List.filter]
            rw [hf1, hf2]
            unfold finish
            rw [← bumpIf_insertAt _ _ _ _ _ hbal2, ← bumpIf_insertAt _ _ _ _ _ hbal1]
            have : insertAt 7 ("balanced", v) (a ++ b ++ [("count", Val.int p.v)] ++ e)
                = a ++ b ++ [("count", Val.int p.v), ("balanced", v)] ++ e := by
              have h7 : (a ++ b ++ [("count", Val.int p.v)] : Row α).length = 7 := by simp [hla, hlb]
              rw [← h7, insertAt_append]
              simp
            rw [this]
      · have hj' : o.join = false := by simpa using hj
        simp only [hj', Bool.false_eq_true, if_false, Option.map_some]
        unfold finish
        rw [← bumpIf_insertAt _ _ _ _ _ hbal2, ← bumpIf_insertAt _ _ _ _ _ hbal1]
        have : insertAt 3 ("balanced", v) (baseRow p ++ e) = baseRow p ++ [("balanced", v)] ++ e := by
          have h3 : (baseRow p : Row α).length = 3 := rfl
          rw [← h3, insertAt_append]
          simp
        rw [this]

/-- **`--annotate f,…`**: the row with the option is the row without it followed by the columns
`f1 … f2 …` holding the bin-table values of the record's two bins (the one-based shifts then apply to
the added columns that carry an id/start name, e.g. `--annotate start`) -/
theorem annotate_effect (ops : Bal.Ops Int α) (s : Store α) (o : DumpOpts) (fs : List String) (p : Px) :
    annotateRow ops s { o with annotate := some fs } p =
      ((sideCols s fs "1" p.i).bind fun a => (sideCols s fs "2" p.j).map fun b => a ++ b).bind fun e =>
        (annotateRow ops s { o with annotate := none } p).map
          (· ++ bumpIf o.oneBasedStarts startCols (bumpIf o.oneBasedIds idCols e)) := by
  have hE1 : extraCols s { o with annotate := some fs } p
      = (sideCols s fs "1" p.i).bind fun a => (sideCols s fs "2" p.j).map fun b => a ++ b := rfl
  have hE2 : extraCols s { o with annotate := none } p = some [] := rfl
  have hB1 : balStage ops s { o with annotate := some fs } p = balStage ops s o p := rfl
  have hB2 : balStage ops s { o with annotate := none } p = balStage ops s o p := rfl
  have hJ1 : ∀ r, joinStage s { o with annotate := some fs } p r = joinStage s o p r := fun _ => rfl
  have hJ2 : ∀ r, joinStage s { o with annotate := none } p r = joinStage s o p r := fun _ => rfl
  have hF1 : ∀ r e : Row α, finish { o with annotate := some fs } r e = finish o r e := fun _ _ => rfl
  have hF2 : ∀ r e : Row α, finish { o with annotate := none } r e = finish o r e := fun _ _ => rfl
  unfold annotateRow
  simp only [hE1, hE2, hB1, hB2, hJ1, hJ2, hF1, hF2]
  cases ((sideCols s fs "1" p.i).bind fun a => (sideCols s fs "2" p.j).map fun b => a ++ b) with
  | none => rfl
  | some e =>
    simp only [Option.bind_some]
    cases balStage ops s o p with
    | none => rfl
    | some r1 =>
      simp only [Option.bind_some, Option.map_map]
      cases joinStage s o p r1 with
      | none => rfl
      | some r2 =>
        simp only [Option.map_some, Function.comp]
        unfold finish
        rw [bumpIf_append, bumpIf_append, List.append_nil]

/-- the column names of every dumped row are `dumpColumns` (the header line, when printed) -/
theorem row_columns (ops : Bal.Ops Int α) (s : Store α) (o : DumpOpts) (p : Px) (r : Row α)
    (h : annotateRow ops s o p = some r) : rowNames r = dumpColumns o := by
  unfold annotateRow at h
  cases he : extraCols s o p with
  | none => simp [he] at h
  | some e =>
    cases hb : balStage ops s o p with
    | none => simp [he, hb] at h
    | some r1 =>
      cases hj : joinStage s o p r1 with
      | none => simp [he, hb, hj] at h
      | some r2 =>
        simp [he, hb, hj] at h
        subst h
        unfold finish
        rw [rowNames_bumpIf, rowNames_bumpIf]
        -- names of the extra columns
        have hen : rowNames e = (match o.annotate with
            | none => []
            | some fs => fs.map (· ++ "1") ++ fs.map (· ++ "2")) := by
          unfold extraCols at he
          cases ha : o.annotate with
          | none => simp [ha] at he; subst he; rfl
          | some fs =>
            simp only [ha] at he
            cases h1 : sideCols s fs "1" p.i with
            | none => simp [h1] at he
            | some a =>
              cases h2 : sideCols s fs "2" p.j with
              | none => simp [h1, h2] at he
              | some b =>
                simp [h1, h2] at he
                subst he
                simp only [rowNames, List.map_append]
                have := sideCols_names s fs "1" p.i a h1
                have := sideCols_names s fs "2" p.j b h2
                simp only [rowNames] at *
                simp [*]
        -- names after the balanced stage
        have hr1 : rowNames r1 = idCols ++ ["count"] ++ (if o.balanced = true then ["balanced"] else []) := by
          unfold balStage at hb
          by_cases hbal : o.balanced = true
          · simp only [hbal, if_true] at hb ⊢
            cases hv : balancedCell ops s p with
            | none => simp [hv] at hb
            | some v => simp [hv] at hb; subst hb; rfl
          · have : o.balanced = false := by simpa using hbal
            simp only [this, Bool.false_eq_true, if_false] at hb ⊢
            cases hb; rfl
        -- names after the join stage
        have hr2 : rowNames r2 = (if o.join = true then coordFields.map (· ++ "1") ++ coordFields.map (· ++ "2")
            else idCols) ++ ["count"] ++ (if o.balanced = true then ["balanced"] else []) := by
          unfold joinStage at hj
          by_cases hjn : o.join = true
          · simp only [hjn, if_true] at hj ⊢
            unfold joinRow at hj
            cases h1 : sideCols s coordFields "1" p.i with
            | none => simp [h1] at hj
            | some a =>
              cases h2 : sideCols s coordFields "2" p.j with
              | none => simp [h1, h2] at hj
              | some b =>
                simp [h1, h2] at hj
                subst hj
                have ha := sideCols_names s _ "1" p.i a h1
                have hb' := sideCols_names s _ "2" p.j b h2
                have hfil : rowNames (r1.filter fun c => !(decide (c.1 ∈ idCols)))
                    = (rowNames r1).filter fun c => !(decide (c ∈ idCols)) := by
                  unfold rowNames
                  rw [List.filter_map]
                  rfl
                simp only [rowNames, List.map_append] at ha hb' hfil ⊢
                rw [ha, hb', hfil]
                simp only [rowNames] at hr1
                rw [hr1]
                cases o.balanced <;> simp [idCols, List.filter]
          · have : o.join = false := by simpa using hjn
            simp only [this, Bool.false_eq_true, if_false] at hj ⊢
            cases hj
            exact hr1
        simp only [rowNames, List.map_append] at hen hr2 ⊢
        rw [hen, hr2]
        unfold dumpColumns
        rfl

/-- **`--table … --columns a,b,…`** is the plain projection of the full table on the named columns, in
the order asked -/
theorem table_columns_effect (s : Store α) (t : Table) (cs : List String) :
    dumpTable s t (some cs) = (dumpTable s t none).bind (mapO (projectRow cs)) := rfl

theorem projectRow_spec (cs : List String) (r r' : Row α) (h : projectRow cs r = some r') :
    rowNames r' = cs ∧ ∀ c ∈ cs, ∃ v, r.lookup c = some v ∧ (c, v) ∈ r' := by
  unfold projectRow at h
  induction cs generalizing r' with
  | nil => simp [mapO] at h; subst h; simp [rowNames]
  | cons c cs ih =>
    simp only [mapO] at h
    cases hl : r.lookup c with
    | none => simp [hl] at h
    | some v =>
      cases hm : mapO (fun c => (r.lookup c).map fun v => (c, v)) cs with
      | none => simp [hl, hm] at h
      | some rest =>
        simp [hl, hm] at h
        subst h
        obtain ⟨h1, h2⟩ := ih rest hm
        refine ⟨by simp [rowNames] at h1 ⊢; exact h1, ?_⟩
        intro c' hc'
        rcases List.mem_cons.mp hc' with rfl | hc'
        · exact ⟨v, hl, by simp⟩
        · obtain ⟨v', hv1, hv2⟩ := h2 c' hc'
          exact ⟨v', hv1, List.mem_cons_of_mem _ hv2⟩

/-- **dump_option_effect**: every option has its documented effect and no other — the per-option
theorems collected.  Output with the flag = `f` (output without the flag) for the explicit `f`:
ids `+1` on both id columns where present; starts `+1` on both start columns where present; join =
ids replaced by the coordinates of both bins; balanced = one more column after `count`; annotate =
the named bin columns of both bins appended; header = no data row changes; fill-lower = identity in
square mode (and the completed sub-block in symmetric-upper mode: `fill_lower_symm`). -/
theorem dump_option_effect (ops : Bal.Ops Int α) (s : Store α) (spansOf : Box → List (Nat × Nat))
    (o : DumpOpts) :
    (dumpRows ops s spansOf { o with oneBasedIds := true } =
      (dumpRows ops s spansOf { o with oneBasedIds := false }).map (List.map (bump idCols))) ∧
    (dumpRows ops s spansOf { o with oneBasedStarts := true } =
      (dumpRows ops s spansOf { o with oneBasedStarts := false }).map (List.map (bump startCols))) ∧
    (∀ p, annotateRow ops s { o with join := true } p =
      (annotateRow ops s { o with join := false, oneBasedIds := false, oneBasedStarts := false } p).bind
        fun r => (joinRow s p.i p.j r).map (bumpIf o.oneBasedStarts startCols)) ∧
    (∀ p, annotateRow ops s { o with balanced := true } p =
      (balancedCell ops s p).bind fun v =>
        (annotateRow ops s { o with balanced := false } p).map
          (insertAt (if o.join = true then 7 else 3) ("balanced", v))) ∧
    (∀ fs p, annotateRow ops s { o with annotate := some fs } p =
      ((sideCols s fs "1" p.i).bind fun a => (sideCols s fs "2" p.j).map fun b => a ++ b).bind fun e =>
        (annotateRow ops s { o with annotate := none } p).map
          (· ++ bumpIf o.oneBasedStarts startCols (bumpIf o.oneBasedIds idCols e))) ∧
    (∀ h, dumpRows ops s spansOf { o with header := h } = dumpRows ops s spansOf o) ∧
    (s.symm = false → ∀ f, dumpRows ops s spansOf { o with fillLower := f } = dumpRows ops s spansOf o) :=
  ⟨one_based_ids_effect ops s spansOf o, one_based_starts_effect ops s spansOf o,
    fun p => join_effect ops s o p, fun p => balanced_effect ops s o p,
    fun fs p => annotate_effect ops s o fs p, fun h => header_effect ops s spansOf o h,
    fun hs f => fill_lower_square ops s hs spansOf o f⟩

end dump

/-! ## 3. dump → load round trips -/

section load
variable {α : Type}

/-- 1 for a one-based text file, 0 otherwise -/
def dI (d : Bool) : Int := if d then 1 else 0

/-- the key and value of a stored pixel as the validator sees them -/
def kvOf (p : Px) : (Int × Int) × Int := (((p.i : Int), (p.j : Int)), p.v)

/-- what a reader chunk of pixels must satisfy (all of it follows from `ValidStore`) -/
structure ChunkOK (n : Nat) (symm : Bool) (qs : Pixels) : Prop where
  inRange : ∀ p ∈ qs, p.i < n ∧ p.j < n
  triu : symm = true → ∀ p ∈ qs, p.i ≤ p.j
  keys : (qs.map fun p => (p.i, p.j)).Nodup

/-- the validator accepts any rearrangement of a valid chunk and stores its pixels -/
theorem validateChunk_perm (n : Nat) (symm : Bool) (qs : Pixels) (hq : ChunkOK n symm qs)
    (keyvals : List ((Int × Int) × Int)) (hp : keyvals.Perm (qs.map kvOf)) :
    ∃ t, validateChunk n symm keyvals = .ok t ∧ t.Perm qs := by
  unfold validateChunk
  have hc : (keyvals.map fun kv => (kv.1.1, kv.1.2, kv.2)).Perm
      (qs.map fun p => (((p.i : Int), (p.j : Int), p.v) : CreateSteps.Rec)) := by
    have := hp.map (fun kv : (Int × Int) × Int => ((kv.1.1, kv.1.2, kv.2) : CreateSteps.Rec))
    rw [List.map_map] at this
    exact this
  have hacc : CreateSteps.validatePixels n symm true true true false
      (keyvals.map fun kv => (kv.1.1, kv.1.2, kv.2)) = .ok (keyvals.map fun kv => (kv.1.1, kv.1.2, kv.2)) := by
    rw [C13.validate_accepts_iff]
    refine ⟨?_, ?_, ?_⟩
    · intro r hr
      obtain ⟨q, hq', rfl⟩ := List.mem_map.mp (hc.mem_iff.mp hr)
      have := hq.inRange q hq'
      simp only []
      omega
    · intro hs r hr
      obtain ⟨q, hq', rfl⟩ := List.mem_map.mp (hc.mem_iff.mp hr)
      have := hq.triu hs q hq'
      simp only []
      omega
    · unfold C13.KeysDistinct
      have h2 := (hc.map CreateSteps.keyOf).nodup_iff
      rw [h2, List.map_map]
      have : (qs.map (CreateSteps.keyOf ∘ fun p => (((p.i : Int), (p.j : Int), p.v) : CreateSteps.Rec)))
          = (qs.map fun p => (p.i, p.j)).map (fun k : Nat × Nat => ((k.1 : Int), (k.2 : Int))) := by
        rw [List.map_map]; rfl
      rw [this]
      have hk := hq.keys
      rw [List.nodup_iff_pairwise_ne] at hk ⊢
      rw [List.pairwise_map]
      exact hk.imp (fun {a b} hne heq => hne (by
        simp only [Prod.mk.injEq] at heq
        ext <;> omega))
  rw [hacc]
  refine ⟨_, rfl, ?_⟩
  have := hp.map (fun kv : (Int × Int) × Int => (⟨kv.1.1.toNat, kv.1.2.toNat, kv.2⟩ : Px))
  rw [List.map_map] at this
  have hid : qs.map ((fun kv : (Int × Int) × Int => (⟨kv.1.1.toNat, kv.1.2.toNat, kv.2⟩ : Px)) ∘ kvOf) = qs := by
    conv => rhs; rw [← List.map_id qs]
    apply List.map_congr_left
    intro p _
    simp [kvOf]
  rw [hid] at this
  exact this

/-- the chunks of any cutting of (a rearrangement of) a valid table are valid chunks -/
theorem chunkOK_of_valid (n : Nat) (symm : Bool) (px : Pixels) (hs : StrictSorted px) (hr : InRange n px)
    (ht : symm = true → Triu px) (qss : List Pixels) (hq : qss.flatten.Perm px) :
    ∀ qs ∈ qss, ChunkOK n symm qs := by
  intro qs hqs
  have hsub := List.sublist_flatten_of_mem hqs
  have hmem : ∀ p ∈ qs, p ∈ px := fun p hp => hq.mem_iff.mp (hsub.subset hp)
  refine ⟨fun p hp => hr p (hmem p hp), fun h p hp => ht h p (hmem p hp), ?_⟩
  have hk : (px.map fun p => (p.i, p.j)).Nodup := by
    unfold StrictSorted at hs
    rw [List.nodup_iff_pairwise_ne, List.pairwise_map]
    exact hs.imp (fun {a b} hab heq => by
      simp only [Prod.mk.injEq] at heq
      unfold keyLt at hab; omega)
  have := ((hq.map fun p => (p.i, p.j)).nodup_iff).mpr hk
  exact (hsub.map _).nodup this

/-- whatever the per-chunk loader is, if it stores a rearrangement of each valid chunk then the merged
result is the original table -/
theorem aggregate_chunks (px : Pixels) (hs : StrictSorted px) {β : Type} (f : β → Except Err Pixels)
    (g : Pixels → β) (qss : List Pixels) (hq : qss.flatten.Perm px)
    (hf : ∀ qs ∈ qss, ∃ t, f (g qs) = .ok t ∧ t.Perm qs) :
    ∃ tables, Bal.mapE f (qss.map g) = .ok tables ∧ Unordered.aggregateAll tables = px := by
  have : ∃ tables, Bal.mapE f (qss.map g) = .ok tables ∧ tables.flatten.Perm qss.flatten := by
    clear hq
    induction qss with
    | nil => exact ⟨[], rfl, List.Perm.refl _⟩
    | cons qs rest ih =>
      obtain ⟨t, h1, h2⟩ := hf qs (List.mem_cons_self)
      obtain ⟨ts, h3, h4⟩ := ih (fun q hq => hf q (List.mem_cons_of_mem _ hq))
      refine ⟨t :: ts, ?_, ?_⟩
      · simp only [List.map_cons, Bal.mapE, h1, h3]
      · simp only [List.flatten_cons]
        exact h2.append h4
  obtain ⟨tables, h1, h2⟩ := this
  refine ⟨tables, h1, ?_⟩
  unfold Unordered.aggregateAll
  rw [groupSum_perm (h2.trans hq), groupSum_of_sorted px hs]

/-! ### COO -/

/-- the dumped line of a stored pixel under `cooler dump [--one-based-ids]` -/
def cooRow (d : Bool) (p : Px) : Row α :=
  [("bin1_id", .int (p.i + dI d)), ("bin2_id", .int (p.j + dI d)), ("count", .int p.v)]

theorem annotateRow_coo (ops : Bal.Ops Int α) (s : Store α) (h d : Bool) (p : Px) :
    annotateRow ops s { header := h, oneBasedIds := d } p = some (cooRow d p) := by
  cases d <;>
    simp [annotateRow, extraCols, balStage, joinStage, finish, bumpIf, bump, baseRow, idCols, startCols,
      Val.succ, cooRow, dI]

/-- a COO record is read from wherever its three fields are declared to be -/
theorem cooRec_of_layout (fields : List (String × Nat)) (value : String) (row : List (Val α))
    (hinj : (fields.map (·.2)).Nodup) (hnames : (fields.map (·.1)).Nodup)
    (hrange : ∀ fc ∈ fields, fc.2 < row.length) (c1 c2 cv : Nat) (a b v : Int)
    (h1 : ("bin1_id", c1) ∈ fields) (h2 : ("bin2_id", c2) ∈ fields) (h3 : (value, cv) ∈ fields)
    (r1 : row[c1]? = some (.int a)) (r2 : row[c2]? = some (.int b)) (r3 : row[cv]? = some (.int v)) :
    cooRec fields value row = .ok { b1 := a, b2 := b, u := [v] } := by
  obtain ⟨parsed, hp, _, hl⟩ := columns_any_layout fields row hinj hnames hrange
  unfold cooRec
  rw [hp]
  have e1 := hl _ h1
  have e2 := hl _ h2
  have e3 := hl _ h3
  simp only [] at e1 e2 e3
  simp only [fieldInt, e1, e2, e3, r1, r2, r3, Val.asInt]

theorem cooRec_cooRow (d : Bool) (p : Px) :
    cooRec cooFields "count" (rowCells (cooRow (α := α) d p))
      = .ok { b1 := (p.i : Int) + dI d, b2 := (p.j : Int) + dI d, u := [p.v] } :=
  cooRec_of_layout cooFields "count" _ (by decide) (by decide)
    (by intro fc hfc; simp [cooFields] at hfc; rcases hfc with rfl | rfl | rfl <;> simp [rowCells, cooRow])
    0 1 2 _ _ _ (by simp [cooFields]) (by simp [cooFields]) (by simp [cooFields]) rfl rfl rfl

/-- one reader chunk of dumped COO lines is stored as (a rearrangement of) its pixels -/
theorem cooChunk_dump (n : Nat) (symm d : Bool) (qs : Pixels) (hq : ChunkOK n symm qs) :
    ∃ t, cooChunk { oneBased := d, symm := symm } n cooFields "count"
        (qs.map fun p => rowCells (cooRow (α := α) d p)) = .ok t ∧ t.Perm qs := by
  unfold cooChunk
  have hrecs : Bal.mapE (cooRec cooFields "count") (qs.map fun p => rowCells (cooRow (α := α) d p))
      = .ok (qs.map fun p => ({ b1 := (p.i : Int) + dI d, b2 := (p.j : Int) + dI d, u := [p.v] } : Sanitize.PxRec)) := by
    exact mapE_map_ok _ _ _ _ (fun p _ => cooRec_cooRow d p)
  rw [hrecs]
  simp only []
  -- the sanitizer: shift back, nothing to reflect, sort
  have hsan : ∃ san, Sanitize.sanitizePixels (LoadOpts.sanitize { oneBased := d, symm := symm })
        (qs.map fun p => ({ b1 := (p.i : Int) + dI d, b2 := (p.j : Int) + dI d, u := [p.v] } : Sanitize.PxRec))
        = .ok san ∧ (san.map fun r => (r.key, r.val)).Perm (qs.map kvOf) := by
    unfold Sanitize.sanitizePixels
    have hshift : (qs.map fun p => ({ b1 := (p.i : Int) + dI d, b2 := (p.j : Int) + dI d, u := [p.v] } : Sanitize.PxRec)).map
        (Sanitize.PxRec.shift (LoadOpts.sanitize { oneBased := d, symm := symm }))
        = qs.map fun p => ({ b1 := (p.i : Int), b2 := (p.j : Int), u := [p.v] } : Sanitize.PxRec) := by
      rw [List.map_map]
      apply List.map_congr_left
      intro p _
      cases d <;> simp [Sanitize.PxRec.shift, LoadOpts.sanitize, dI]
    rw [hshift]
    have htril : Sanitize.trilPx (LoadOpts.sanitize { oneBased := d, symm := symm })
        (qs.map fun p => ({ b1 := (p.i : Int), b2 := (p.j : Int), u := [p.v] } : Sanitize.PxRec))
        = .ok (qs.map fun p => ({ b1 := (p.i : Int), b2 := (p.j : Int), u := [p.v] } : Sanitize.PxRec)) := by
      unfold Sanitize.trilPx
      cases hsym : symm with
      | false => simp [LoadOpts.sanitize, LoadOpts.tril]
      | true =>
        simp only [LoadOpts.sanitize, LoadOpts.tril, if_true, Bool.false_eq_true, if_false]
        congr 1
        rw [List.map_map]
        apply List.map_congr_left
        intro p hp
        have := hq.triu hsym p hp
        simp only [Function.comp, Sanitize.PxRec.orient, Sanitize.PxRec.isTril]
        have : ¬ ((p.i : Int) > (p.j : Int)) := by omega
        simp [this]
    rw [htril]
    simp only [LoadOpts.sanitize, if_true]
    refine ⟨_, rfl, ?_⟩
    have := (C05.sortPxRecs_perm (qs.map fun p => ({ b1 := (p.i : Int), b2 := (p.j : Int), u := [p.v] } : Sanitize.PxRec))).map
      (fun r : Sanitize.PxRec => (r.key, r.val))
    rw [List.map_map] at this
    exact this
  obtain ⟨san, h1, h2⟩ := hsan
  rw [h1]
  exact validateChunk_perm n symm qs hq _ h2

/-- **load_dump_coo**: for a valid store `s` (strictly sorted, in range, upper-triangular when
symmetric), (i) `cooler dump [--one-based-ids] [-H]` lists exactly the stored records, ids shifted
when asked; (ii) `cooler load -f coo [--one-based] [-N for a square store]` with the same number of
bins, fed those lines in ANY order and cut into reader chunks of ANY sizes, stores `s.px` again. -/
theorem load_dump_coo (ops : Bal.Ops Int α) (s : Store α) (hv : ValidStore s)
    (spansOf : Box → List (Nat × Nat)) (hsp : ∀ c, validSpans s.offs c (spansOf c) = true)
    (hdr d : Bool) (qss : List Pixels) (hq : qss.flatten.Perm s.px) :
    dumpRows ops s spansOf { header := hdr, oneBasedIds := d } = some (s.px.map (cooRow d)) ∧
    loadCoo { oneBased := d, symm := s.symm } s.nbins cooFields "count"
      (qss.map fun qs => qs.map fun p => rowCells (cooRow (α := α) d p)) = .ok s.px := by
  constructor
  · rw [dump_whole_stored ops s hv spansOf hsp _ rfl (by simp [useFill])]
    exact mapO_eq_some_map _ _ _ (fun p _ => annotateRow_coo ops s hdr d p)
  · have hok := chunkOK_of_valid s.nbins s.symm s.px hv.sorted hv.inRange hv.triu qss hq
    obtain ⟨tables, h1, h2⟩ := aggregate_chunks s.px hv.sorted
      (cooChunk (α := α) { oneBased := d, symm := s.symm } s.nbins cooFields "count")
      (fun qs => qs.map fun p => rowCells (cooRow (α := α) d p)) qss hq
      (fun qs hqs => cooChunk_dump s.nbins s.symm d qs (hok qs hqs))
    unfold loadCoo
    rw [h1]
    simp only [h2]

end load

/-! ### BG2: the bin that contains the START of bin `k` is `k` -/

section bg2
open Sanitize
variable {α : Type}

/-- row `k` of a chromosome-sorted table is row `k − offset` of its chromosome's group -/
theorem bins_group_index {bins : BinTable} (hs : ChromSorted bins) {k : Nat} {b : Bin}
    (h : bins[k]? = some b) :
    ∃ k', k = chromOff bins b.chrom + k' ∧ (groupOf bins b.chrom)[k']? = some b := by
  have e := C05.sorted_split hs b.chrom
  have hk : bins[k]? = (bins.filter (fun x => decide (x.chrom < b.chrom)) ++
      bins.filter (fun x => decide (x.chrom = b.chrom)) ++ bins.filter (fun x => decide (b.chrom < x.chrom)))[k]? :=
    congrArg (fun l => l[k]?) e
  rw [h, List.append_assoc] at hk
  rw [C05.chromOff_eq_length]
  rcases Nat.lt_or_ge k (bins.filter (fun x => decide (x.chrom < b.chrom))).length with h1 | h1
  · rw [List.getElem?_append_left h1] at hk
    have := (List.mem_filter.mp (List.mem_of_getElem? hk.symm)).2
    simp at this
  · rw [List.getElem?_append_right h1] at hk
    rcases Nat.lt_or_ge (k - (bins.filter (fun x => decide (x.chrom < b.chrom))).length)
        (bins.filter (fun x => decide (x.chrom = b.chrom))).length with h2 | h2
    · rw [List.getElem?_append_left h2] at hk
      exact ⟨k - (bins.filter (fun x => decide (x.chrom < b.chrom))).length, by omega, hk.symm⟩
    · rw [List.getElem?_append_right h2] at hk
      have := (List.mem_filter.mp (List.mem_of_getElem? hk.symm)).2
      simp at this

theorem tiles_start_lt_stop {g : List Bin} : ∀ {s : Nat}, TilesFrom s g → ∀ b ∈ g, b.start < b.stop := by
  induction g with
  | nil => intro s _ b hb; simp at hb
  | cons x rest ih =>
    intro s h b hb
    obtain ⟨_, h2, h3⟩ := h
    rcases List.mem_cons.mp hb with e | hb
    · subst e; exact h2
    · exact ih h3 b hb

theorem tiles_stop_le_last {g : List Bin} : ∀ {s : Nat}, TilesFrom s g → ∀ b ∈ g, b.stop ≤ lastStop g := by
  induction g with
  | nil => intro s _ b hb; simp at hb
  | cons x rest ih =>
    intro s h b hb
    obtain ⟨_, h2, h3⟩ := h
    cases rest with
    | nil =>
      simp at hb; subst hb
      simp [lastStop]
    | cons y r =>
      rw [C05.lastStop_cons_cons]
      rcases List.mem_cons.mp hb with e | hb
      · subst e
        have hy := ih h3 y (List.mem_cons_self)
        obtain ⟨h4, h5, _⟩ := h3
        omega
      · exact ih h3 b hb

/-- facts about row `k` of a valid table: its start lies inside its chromosome, and the bin
containing its start is `k` itself -/
theorem bin_start_facts {bins : BinTable} (hT : TableOK bins) {k : Nat} {b : Bin} (h : bins[k]? = some b) :
    (b.start : Int) < (chromLen bins b.chrom : Int) ∧ binOf bins b.chrom (b.start : Int) = some (k : Int) := by
  obtain ⟨k', hk, hg⟩ := bins_group_index hT.1 h
  have hne : groupOf bins b.chrom ≠ [] := by
    intro e; rw [e] at hg; simp at hg
  have hv := hT.2 _ (C05.groupOf_mem_groups hne)
  have hmem := List.mem_of_getElem? hg
  have h1 := tiles_start_lt_stop hv.2 b hmem
  have h2 := tiles_stop_le_last hv.2 b hmem
  constructor
  · unfold chromLen; omega
  · have := C05.binOfNat_of_group hT.1 hv.2 hg (Nat.le_refl _) h1
    unfold binOf
    have hneg : ¬ ((b.start : Int) < 0) := by omega
    simp only [hneg, if_false, Int.toNat_natCast, this, Option.map_some, hk]
    rfl

/-- rows in table order are in (chromosome, start) order -/
theorem bins_order {bins : BinTable} (hT : TableOK bins) {i j : Nat} {bi bj : Bin}
    (hi : bins[i]? = some bi) (hj : bins[j]? = some bj) (hij : i ≤ j) :
    bi.chrom < bj.chrom ∨ (bi.chrom = bj.chrom ∧ bi.start ≤ bj.start) := by
  rcases Nat.eq_or_lt_of_le hij with e | hlt
  · subst e
    rw [hi] at hj; cases hj
    exact Or.inr ⟨rfl, Nat.le_refl _⟩
  · have hil : i < bins.length := by
      rcases Nat.lt_or_ge i bins.length with h' | h'
      · exact h'
      · rw [List.getElem?_eq_none h'] at hi; simp at hi
    have hjl : j < bins.length := by
      rcases Nat.lt_or_ge j bins.length with h' | h'
      · exact h'
      · rw [List.getElem?_eq_none h'] at hj; simp at hj
    have hc := (List.pairwise_iff_getElem.mp hT.1) i j hil hjl hlt
    have ei : bins[i] = bi := by
      have := List.getElem?_eq_getElem hil; rw [hi] at this; exact (Option.some.inj this).symm
    have ej : bins[j] = bj := by
      have := List.getElem?_eq_getElem hjl; rw [hj] at this; exact (Option.some.inj this).symm
    rw [ei, ej] at hc
    rcases Nat.eq_or_lt_of_le hc with e | hlt'
    · right
      refine ⟨e, ?_⟩
      obtain ⟨i', hki, hgi⟩ := bins_group_index hT.1 hi
      obtain ⟨j', hkj, hgj⟩ := bins_group_index hT.1 hj
      rw [← e] at hkj hgj
      have hne : groupOf bins bi.chrom ≠ [] := by
        intro e'; rw [e'] at hgi; simp at hgi
      have hv := hT.2 _ (C05.groupOf_mem_groups hne)
      have := C05.tiles_before hv.2 hgi hgj (by omega)
      have := tiles_start_lt_stop hv.2 bi (List.mem_of_getElem? hgi)
      omega
    · exact Or.inl hlt'

theorem decodeChrom_get {names : List String} (hn : names.Nodup) {c : Nat} {nm : String}
    (h : names[c]? = some nm) : decodeChrom names nm = some c := by
  unfold decodeChrom
  rw [List.idxOf?_eq_some_iff]
  have hc : c < names.length := by
    rcases Nat.lt_or_ge c names.length with h' | h'
    · exact h'
    · rw [List.getElem?_eq_none h'] at h; simp at h
  have ec : names[c] = nm := by
    have := List.getElem?_eq_getElem hc; rw [h] at this; exact (Option.some.inj this).symm
  refine ⟨hc, ec, ?_⟩
  intro j hj hje
  have := (List.pairwise_iff_getElem.mp (List.nodup_iff_pairwise_ne.mp hn)) j c (by omega) hc hj
  exact this (hje.trans ec.symm)

/-- both sides of `annotate(chunk, bins[["chrom","start","end"]])` for one bin -/
theorem sideCols_coord (s : Store α) (sfx : String) (k : Nat) :
    sideCols s coordFields sfx k = (s.bins[k]?).bind fun b => (s.chromNames[b.chrom]?).map fun nm =>
      [("chrom" ++ sfx, Val.str nm), ("start" ++ sfx, Val.int b.start), ("end" ++ sfx, Val.int b.stop)] := by
  unfold sideCols coordFields
  simp only [mapO, binField]
  cases hb : s.bins[k]? with
  | none => simp
  | some b =>
    cases hn : s.chromNames[b.chrom]? with
    | none => simp [hn]
    | some nm => simp [hn]

/-- the BG2 line of a pixel, given its two bins and their chromosome names -/
def bg2Cells (ni : String) (bi : Bin) (nj : String) (bj : Bin) (d : Bool) (v : Int) : List (Val α) :=
  [.str ni, .int ((bi.start : Int) + dI d), .int bi.stop, .str nj, .int ((bj.start : Int) + dI d), .int bj.stop, .int v]

/-- `cooler dump --join [--one-based-starts]` on one pixel: it succeeds iff both bins and their names
exist, and the line then is `bg2Cells` -/
theorem annotateRow_bg2 (ops : Bal.Ops Int α) (s : Store α) (h d : Bool) (p : Px) (cells : List (Val α))
    (hr : (annotateRow ops s { header := h, join := true, oneBasedStarts := d } p).map rowCells = some cells) :
    ∃ bi bj ni nj, s.bins[p.i]? = some bi ∧ s.bins[p.j]? = some bj ∧ s.chromNames[bi.chrom]? = some ni ∧
      s.chromNames[bj.chrom]? = some nj ∧ cells = bg2Cells ni bi nj bj d p.v := by
  unfold annotateRow extraCols balStage joinStage joinRow at hr
  simp only [sideCols_coord, Bool.false_eq_true, if_false, if_true, Option.bind_some] at hr
  cases hbi : s.bins[p.i]? with
  | none => simp [hbi] at hr
  | some bi =>
    cases hni : s.chromNames[bi.chrom]? with
    | none => simp [hbi, hni] at hr
    | some ni =>
      cases hbj : s.bins[p.j]? with
      | none => simp [hbi, hni, hbj] at hr
      | some bj =>
        cases hnj : s.chromNames[bj.chrom]? with
        | none => simp [hbi, hni, hbj, hnj] at hr
        | some nj =>
          refine ⟨bi, bj, ni, nj, rfl, rfl, hni, hnj, ?_⟩
          simp only [hbi, hni, hbj, hnj, Option.bind_some, Option.map_some] at hr
          cases d <;>
            simp [finish, bumpIf, bump, baseRow, idCols, startCols, Val.succ, rowCells, List.filter] at hr <;>
            simp [← hr, bg2Cells, dI]

/-- a BG2 record is read from wherever its seven fields are declared to be -/
theorem bg2Rec_of_layout (contigs : List String) (fields : List (String × Nat)) (value : String)
    (row : List (Val α)) (hinj : (fields.map (·.2)).Nodup) (hnames : (fields.map (·.1)).Nodup)
    (hrange : ∀ fc ∈ fields, fc.2 < row.length) (k1 k2 k3 k4 k5 k6 kv : Nat)
    (c1 c2 : String) (s1 e1 s2 e2 v : Int)
    (h1 : ("chrom1", k1) ∈ fields) (h2 : ("start1", k2) ∈ fields) (h3 : ("end1", k3) ∈ fields)
    (h4 : ("chrom2", k4) ∈ fields) (h5 : ("start2", k5) ∈ fields) (h6 : ("end2", k6) ∈ fields)
    (h7 : (value, kv) ∈ fields)
    (r1 : row[k1]? = some (.str c1)) (r2 : row[k2]? = some (.int s1)) (r3 : row[k3]? = some (.int e1))
    (r4 : row[k4]? = some (.str c2)) (r5 : row[k5]? = some (.int s2)) (r6 : row[k6]? = some (.int e2))
    (r7 : row[kv]? = some (.int v)) :
    bg2Rec contigs fields value row =
      .ok { c1 := decodeChrom contigs c1, p1 := s1, c2 := decodeChrom contigs c2, p2 := s2,
            x1 := [e1], x2 := [e2], u := [v] } := by
  obtain ⟨parsed, hp, _, hl⟩ := columns_any_layout fields row hinj hnames hrange
  unfold bg2Rec
  rw [hp]
  have e1' := hl _ h1
  have e2' := hl _ h2
  have e3' := hl _ h3
  have e4' := hl _ h4
  have e5' := hl _ h5
  have e6' := hl _ h6
  have e7' := hl _ h7
  simp only [] at e1' e2' e3' e4' e5' e6' e7'
  simp only [fieldInt, fieldStr, e1', e2', e3', e4', e5', e6', e7', r1, r2, r3, r4, r5, r6, r7, Val.asInt,
    Val.asStr]

theorem bg2Rec_cells (contigs : List String) (ni : String) (bi : Bin) (nj : String) (bj : Bin) (d : Bool) (v : Int) :
    bg2Rec contigs bg2Fields "count" (bg2Cells (α := α) ni bi nj bj d v) =
      .ok { c1 := decodeChrom contigs ni, p1 := (bi.start : Int) + dI d, c2 := decodeChrom contigs nj,
            p2 := (bj.start : Int) + dI d, x1 := [(bi.stop : Int)], x2 := [(bj.stop : Int)], u := [v] } :=
  bg2Rec_of_layout contigs bg2Fields "count" _ (by decide) (by decide)
    (by intro fc hfc; simp [bg2Fields] at hfc
        rcases hfc with rfl | rfl | rfl | rfl | rfl | rfl | rfl <;> simp [bg2Cells])
    0 1 2 3 4 5 6 _ _ _ _ _ _ _ (by simp [bg2Fields]) (by simp [bg2Fields]) (by simp [bg2Fields])
    (by simp [bg2Fields]) (by simp [bg2Fields]) (by simp [bg2Fields]) (by simp [bg2Fields])
    rfl rfl rfl rfl rfl rfl rfl

/-- what the loader needs to know about the line of a pixel -/
structure LineOK (s : Store α) (d : Bool) (lineOf : Px → List (Val α)) (p : Px) : Prop where
  ex : ∃ bi bj ni nj, s.bins[p.i]? = some bi ∧ s.bins[p.j]? = some bj ∧ s.chromNames[bi.chrom]? = some ni ∧
      s.chromNames[bj.chrom]? = some nj ∧ lineOf p = bg2Cells ni bi nj bj d p.v

/-- one reader chunk of dumped BG2 lines is stored as (a rearrangement of) its pixels -/
theorem bg2Chunk_dump (s : Store α) (hT : TableOK s.bins) (hn : s.chromNames.Nodup) (d : Bool)
    (lineOf : Px → List (Val α)) (qs : Pixels) (hq : ChunkOK s.nbins s.symm qs)
    (hl : ∀ p ∈ qs, LineOK s d lineOf p) :
    ∃ t, bg2Chunk { oneBased := d, symm := s.symm } s.bins s.chromNames bg2Fields "count" (qs.map lineOf)
        = .ok t ∧ t.Perm qs := by
  -- total versions of the lookups (proof device only)
  let binAt : Nat → Bin := fun k => (s.bins[k]?).getD ⟨0, 0, 0⟩
  have hbin : ∀ p ∈ qs, s.bins[p.i]? = some (binAt p.i) ∧ s.bins[p.j]? = some (binAt p.j) := by
    intro p hp
    obtain ⟨bi, bj, ni, nj, h1, h2, _, _, _⟩ := (hl p hp).ex
    simp [binAt, h1, h2]
  let recOf : Px → Rec := fun p =>
    { c1 := some (binAt p.i).chrom, p1 := ((binAt p.i).start : Int) + dI d,
      c2 := some (binAt p.j).chrom, p2 := ((binAt p.j).start : Int) + dI d,
      x1 := [((binAt p.i).stop : Int)], x2 := [((binAt p.j).stop : Int)], u := [p.v] }
  have hrecs : Bal.mapE (bg2Rec s.chromNames bg2Fields "count") (qs.map lineOf) = .ok (qs.map recOf) := by
    apply mapE_map_ok
    intro p hp
    obtain ⟨bi, bj, ni, nj, h1, h2, h3, h4, h5⟩ := (hl p hp).ex
    have e1 : binAt p.i = bi := by simp [binAt, h1]
    have e2 : binAt p.j = bj := by simp [binAt, h2]
    rw [h5, bg2Rec_cells, decodeChrom_get hn h3, decodeChrom_get hn h4]
    simp only [recOf, e1, e2]
  unfold bg2Chunk
  rw [hrecs]
  simp only []
  -- the anchors of the records
  let o : Opts := LoadOpts.sanitize { oneBased := d, symm := s.symm }
  let ancOf : Px → Anchor := fun p =>
    ⟨(binAt p.i).chrom, ((binAt p.i).start : Int), (binAt p.j).chrom, ((binAt p.j).start : Int), p.v⟩
  have hanc : anchors o (qs.map recOf) = qs.map ancOf := by
    unfold anchors
    rw [List.filterMap_map]
    apply C05.filterMap_eq_map_of
    intro p _
    cases d <;> simp [Function.comp, recOf, ancOf, anchorOf, o, LoadOpts.sanitize, dI, firstVal]
  have hinside : ∀ a ∈ qs.map ancOf, a.inside s.bins := by
    intro a ha
    obtain ⟨p, hp, rfl⟩ := List.mem_map.mp ha
    obtain ⟨h1, h2⟩ := hbin p hp
    have f1 := (bin_start_facts hT h1).1
    have f2 := (bin_start_facts hT h2).1
    exact ⟨by simp [ancOf], f1, by simp [ancOf], f2⟩
  have hnolower : s.symm = true → ∀ p ∈ qs, (ancOf p).lower = false := by
    intro hs p hp
    obtain ⟨h1, h2⟩ := hbin p hp
    have := bins_order hT h1 h2 (hq.triu hs p hp)
    simp only [Anchor.lower, ancOf, Bool.or_eq_false_iff, Bool.and_eq_false_iff, decide_eq_false_iff_not]
    omega
  have horient : orientAnchors o.tril (qs.map ancOf) = qs.map ancOf := by
    cases hs : s.symm with
    | false => simp [o, LoadOpts.sanitize, LoadOpts.tril, hs, orientAnchors]
    | true =>
      simp only [o, LoadOpts.sanitize, LoadOpts.tril, hs, if_true, Bool.false_eq_true, if_false,
        orientAnchors]
      conv => rhs; rw [← List.map_id (qs.map ancOf)]
      apply List.map_congr_left
      intro a ha
      obtain ⟨p, hp, rfl⟩ := List.mem_map.mp ha
      simp [Anchor.upper, hnolower hs p hp]
  have hkeys : (qs.map ancOf).map (keyOf s.bins (getBinsize s.bins)) = qs.map kvOf := by
    rw [List.map_map]
    apply List.map_congr_left
    intro p hp
    obtain ⟨h1, h2⟩ := hbin p hp
    have hin := hinside (ancOf p) (List.mem_map_of_mem hp)
    have hpx := C05.keyOf_eq_pixelOf hT (C05.binsize_truthful hT) hin
    have g1 := (bin_start_facts hT h1).2
    have g2 := (bin_start_facts hT h2).2
    have : pixelOf s.bins (ancOf p) = some ((p.i : Int), (p.j : Int)) := by
      simp only [pixelOf, ancOf, g1, g2]
    rw [this] at hpx
    have hk := (Option.some.inj hpx).symm
    simp only [Function.comp, kvOf]
    ext
    · simp [hk]
    · simp [hk]
    · simp [keyOf, ancOf]
  have hpipe : anchorPipeline s.bins (getBinsize s.bins) o (anchors o (qs.map recOf)) = .ok (qs.map kvOf) := by
    rw [hanc, C05.pipeline_of_inside _ _ hinside]
    have t1 : ¬ (o.tril = .raise ∧ (qs.map ancOf).any Anchor.lower = true) := by
      intro h; cases hs : s.symm <;> simp [o, LoadOpts.sanitize, LoadOpts.tril, hs] at h
    have t2 : ¬ (o.tril = .bogus ∧ (qs.map ancOf).any Anchor.lower = true) := by
      intro h; cases hs : s.symm <;> simp [o, LoadOpts.sanitize, LoadOpts.tril, hs] at h
    rw [if_neg t1, if_neg t2, horient, hkeys]
  obtain ⟨outs, ho, hperm⟩ := (C05.sanitizeWith_sim s.bins (getBinsize s.bins) o (qs.map recOf)).2 _ hpipe
  have ho' : sanitizeRecords s.bins (LoadOpts.sanitize { oneBased := d, symm := s.symm }) (qs.map recOf)
      = .ok outs := ho
  rw [ho']
  exact validateChunk_perm s.nbins s.symm qs hq _ hperm

/-- **load_dump_bg2**: for a valid store over a valid bin table with distinct chromosome names, if
`cooler dump --join [--one-based-starts] [-H]` prints the line `lineOf p` for every stored pixel `p`,
then (i) the dump is exactly those lines, in storage order, and (ii) `cooler load -f bg2 [--one-based]
[-N for a square store]` with the same bin table, fed the lines in ANY order and cut into reader
chunks of ANY sizes, stores `s.px` again.  The binning anchor is `start`: the bin containing the
start of bin `k` is `k` (`bin_start_facts`). -/
theorem load_dump_bg2 (ops : Bal.Ops Int α) (s : Store α) (hv : ValidStore s) (hT : TableOK s.bins)
    (hn : s.chromNames.Nodup) (spansOf : Box → List (Nat × Nat))
    (hsp : ∀ c, validSpans s.offs c (spansOf c) = true) (hdr d : Bool) (lineOf : Px → List (Val α))
    (hline : ∀ p ∈ s.px,
      (annotateRow ops s { header := hdr, join := true, oneBasedStarts := d } p).map rowCells = some (lineOf p))
    (qss : List Pixels) (hq : qss.flatten.Perm s.px) :
    (dumpRows ops s spansOf { header := hdr, join := true, oneBasedStarts := d }).map (List.map rowCells)
      = some (s.px.map lineOf) ∧
    loadBg2 { oneBased := d, symm := s.symm } s.bins s.chromNames bg2Fields "count"
      (qss.map fun qs => qs.map lineOf) = .ok s.px := by
  constructor
  · rw [dump_whole_stored ops s hv spansOf hsp _ rfl (by simp [useFill]), ← mapO_map]
    exact mapO_eq_some_map _ _ _ hline
  · have hok := chunkOK_of_valid s.nbins s.symm s.px hv.sorted hv.inRange hv.triu qss hq
    have hmem : ∀ qs ∈ qss, ∀ p ∈ qs, p ∈ s.px := fun qs hqs p hp =>
      hq.mem_iff.mp ((List.sublist_flatten_of_mem hqs).subset hp)
    obtain ⟨tables, h1, h2⟩ := aggregate_chunks s.px hv.sorted
      (bg2Chunk (α := α) { oneBased := d, symm := s.symm } s.bins s.chromNames bg2Fields "count")
      (fun qs => qs.map lineOf) qss hq
      (fun qs hqs => bg2Chunk_dump s hT hn d lineOf qs (hok qs hqs)
        (fun p hp => ⟨annotateRow_bg2 ops s hdr d p _ (hline p (hmem qs hqs p hp))⟩))
    unfold loadBg2
    rw [h1]
    simp only [h2]

end bg2

/-! ## 4. `cooler cload pairs`: the layout is irrelevant -/

section pairs
variable {α : Type}

/-- **pairs_any_layout**: the record parsed from a pairs line is determined by the values found at the
declared columns — for every injective layout, monotone or not, inside a line of any width -/
theorem pairs_any_layout (contigs : List String) (fields : List (String × Nat)) (value : Option String)
    (row : List (Val α)) (hinj : (fields.map (·.2)).Nodup) (hnames : (fields.map (·.1)).Nodup)
    (hrange : ∀ fc ∈ fields, fc.2 < row.length) (k1 k2 k3 k4 : Nat) (c1 c2 : String) (a1 a2 : Int)
    (h1 : ("chrom1", k1) ∈ fields) (h2 : ("pos1", k2) ∈ fields) (h3 : ("chrom2", k3) ∈ fields)
    (h4 : ("pos2", k4) ∈ fields)
    (r1 : row[k1]? = some (.str c1)) (r2 : row[k2]? = some (.int a1)) (r3 : row[k3]? = some (.str c2))
    (r4 : row[k4]? = some (.int a2)) (u : List Int)
    (hu : match value with
      | none => u = []
      | some f => ∃ kv v, (f, kv) ∈ fields ∧ row[kv]? = some (.int v) ∧ u = [v]) :
    pairsRec contigs fields value row =
      .ok { c1 := decodeChrom contigs c1, p1 := a1, c2 := decodeChrom contigs c2, p2 := a2, u := u } := by
  obtain ⟨parsed, hp, _, hl⟩ := columns_any_layout fields row hinj hnames hrange
  unfold pairsRec
  rw [hp]
  have e1 := hl _ h1
  have e2 := hl _ h2
  have e3 := hl _ h3
  have e4 := hl _ h4
  simp only [] at e1 e2 e3 e4
  have hopt : fieldOpt parsed value = .ok u := by
    cases value with
    | none => simp only [] at hu; subst hu; rfl
    | some f =>
      obtain ⟨kv, v, hm, hr, rfl⟩ := hu
      have := hl _ hm
      simp only [] at this
      simp only [fieldOpt, fieldInt, this, hr, Val.asInt]
      rfl
  simp only [fieldInt, fieldStr, e1, e2, e3, e4, r1, r2, r3, r4, Val.asInt, Val.asStr, hopt]

/-- hence two files that carry the same values under two different layouts give the same record, line
by line (and so the same cooler: `cloadPairs` only sees the records) -/
theorem pairs_layout_independent (contigs : List String) (f f' : List (String × Nat)) (row row' : List (Val α))
    (hinj : (f.map (·.2)).Nodup) (hnames : (f.map (·.1)).Nodup) (hrange : ∀ fc ∈ f, fc.2 < row.length)
    (hinj' : (f'.map (·.2)).Nodup) (hnames' : (f'.map (·.1)).Nodup) (hrange' : ∀ fc ∈ f', fc.2 < row'.length)
    (k1 k2 k3 k4 k1' k2' k3' k4' : Nat) (c1 c2 : String) (a1 a2 : Int)
    (h1 : ("chrom1", k1) ∈ f) (h2 : ("pos1", k2) ∈ f) (h3 : ("chrom2", k3) ∈ f) (h4 : ("pos2", k4) ∈ f)
    (h1' : ("chrom1", k1') ∈ f') (h2' : ("pos1", k2') ∈ f') (h3' : ("chrom2", k3') ∈ f') (h4' : ("pos2", k4') ∈ f')
    (r1 : row[k1]? = some (.str c1)) (r2 : row[k2]? = some (.int a1)) (r3 : row[k3]? = some (.str c2))
    (r4 : row[k4]? = some (.int a2))
    (r1' : row'[k1']? = some (.str c1)) (r2' : row'[k2']? = some (.int a1)) (r3' : row'[k3']? = some (.str c2))
    (r4' : row'[k4']? = some (.int a2)) :
    pairsRec contigs f none row = pairsRec contigs f' none row' := by
  rw [pairs_any_layout contigs f none row hinj hnames hrange k1 k2 k3 k4 c1 c2 a1 a2 h1 h2 h3 h4 r1 r2 r3 r4 [] rfl,
    pairs_any_layout contigs f' none row' hinj' hnames' hrange' k1' k2' k3' k4' c1 c2 a1 a2 h1' h2' h3' h4'
      r1' r2' r3' r4' [] rfl]

/-- non-vacuity: `-c1 5 -p1 2 -c2 1 -p2 7` in a 7-column file and `-c1 1 -p1 2 -c2 3 -p2 4` in a
4-column file -/
example : pairsRec (α := Int) ["c0", "c1"] (pairsFields 4 1 0 6 []) none
      [.str "c1", .int 12, .str ".", .str ".", .str "c0", .str ".", .int 3]
    = pairsRec (α := Int) ["c0", "c1"] (pairsFields 0 1 2 3 []) none [.str "c0", .int 12, .str "c1", .int 3] := by
  decide

/-! ### the binning itself: L1 (`cloadPairs`) against L0 (`pairsSpec`) -/

/-- per reader chunk (the full statement, for any chunking, is `cloadPairs_eq_spec` below): the chunk is accepted and its cell table holds, under every key,
the number of retained records whose pixel it is; the counts add up to the number of retained records
(C05 `sanitizeWith_sim`, `keyOf_eq_pixelOf`, `countAt_groupFirst`) -/
theorem cloadPairs_eq_spec_partial (o : PairsOpts) (bins : BinTable) (hT : Sanitize.TableOK bins)
    (contigs : List String) (fields : List (String × Nat)) (value : Option String)
    (rows : List (List (Val α))) (recs : List Sanitize.Rec)
    (hrec : Bal.mapE (pairsRec contigs fields value) rows = .ok recs)
    (hin : ∀ a ∈ Sanitize.anchors o.sanitize recs, a.inside bins) :
    ∃ cells, pairsChunk o bins contigs fields value rows = .ok cells ∧
      (∀ k, Sanitize.countAt cells k =
        (Sanitize.retained o.sanitize recs).countP (fun a => decide (Sanitize.pixelOf bins a = some k))) ∧
      Sanitize.totalCount cells = (Sanitize.retained o.sanitize recs).length := by
  have hpipe := C05.pipeline_of_inside (getBinsize bins) o.sanitize hin
  have t1 : ¬ (o.sanitize.tril = .raise ∧ (Sanitize.anchors o.sanitize recs).any Sanitize.Anchor.lower = true) := by
    intro h; cases hs : o.symm <;> cases hd : o.duplex <;> simp [PairsOpts.sanitize, hs, hd] at h
  have t2 : ¬ (o.sanitize.tril = .bogus ∧ (Sanitize.anchors o.sanitize recs).any Sanitize.Anchor.lower = true) := by
    intro h; cases hs : o.symm <;> cases hd : o.duplex <;> simp [PairsOpts.sanitize, hs, hd] at h
  rw [if_neg t1, if_neg t2] at hpipe
  obtain ⟨outs, ho, hperm⟩ := (C05.sanitizeWith_sim bins (getBinsize bins) o.sanitize recs).2 _ hpipe
  have ho' : Sanitize.sanitizeRecords bins o.sanitize recs = .ok outs := ho
  refine ⟨Sanitize.groupFirst (Sanitize.keyVals outs), ?_, ?_, ?_⟩
  · unfold pairsChunk
    rw [hrec]
    simp only [ho']
    rfl
  · intro k
    rw [C05.countAt_groupFirst, C05.countAt_groupCells, hperm.countP_eq, List.countP_map]
    apply List.countP_congr
    intro a ha
    have := C05.keyOf_eq_pixelOf hT (C05.binsize_truthful hT) (C05.orient_inside hin a ha)
    simp only [Function.comp, this, Option.some.injEq, decide_eq_true_eq]
  · rw [C05.totalCount_groupFirst]
    have := hperm.length_eq
    simp only [Sanitize.keyVals, List.length_map] at this ⊢
    rw [this]
    rfl

end pairs

/-! ### `cloadPairs` (L1) = `pairsSpec` (L0), for any chunking -/

section cloadspec
open Cooler.Sanitize (Cell Key Rec Anchor bumpCell groupFirst groupCells countAt keyVals)

/-! ### grouping in order of appearance: members, sums -/

theorem mem_bumpCell {k : Key} {v : Int} {l : List Cell} {c : Cell} (h : c ∈ bumpCell k v l) :
    c.k = k ∨ ∃ c' ∈ l, c'.k = c.k := by
  induction l with
  | nil => simp [bumpCell] at h; subst h; exact Or.inl rfl
  | cons d l ih =>
    unfold bumpCell at h
    split at h
    · rcases List.mem_cons.mp h with e | h
      · subst e; exact Or.inl rfl
      · exact Or.inr ⟨c, List.mem_cons_of_mem _ h, rfl⟩
    · rcases List.mem_cons.mp h with e | h
      · subst e; exact Or.inr ⟨c, List.mem_cons_self, rfl⟩
      · rcases ih h with h | ⟨c', hc', e⟩
        · exact Or.inl h
        · exact Or.inr ⟨c', List.mem_cons_of_mem _ hc', e⟩

theorem mem_foldl_bump (l : List (Key × Int)) (acc : List Cell) (c : Cell)
    (h : c ∈ l.foldl (fun acc kv => bumpCell kv.1 kv.2 acc) acc) :
    (∃ c' ∈ acc, c'.k = c.k) ∨ ∃ kv ∈ l, kv.1 = c.k := by
  induction l generalizing acc with
  | nil => exact Or.inl ⟨c, h, rfl⟩
  | cons x l ih =>
    rw [List.foldl_cons] at h
    rcases ih _ h with ⟨c', hc', e⟩ | ⟨kv, hkv, e⟩
    · rcases mem_bumpCell hc' with h1 | ⟨c'', hc'', e'⟩
      · exact Or.inr ⟨x, List.mem_cons_self, by rw [← e, h1]⟩
      · exact Or.inl ⟨c'', hc'', e'.trans e⟩
    · exact Or.inr ⟨kv, List.mem_cons_of_mem _ hkv, e⟩

theorem sumAt_bumpCell (k : Key) (v : Int) (l : List Cell) (k' : Key) :
    Sanitize.sumAt (bumpCell k v l) k' = Sanitize.sumAt l k' + if k = k' then v else 0 := by
  induction l with
  | nil => simp [bumpCell, Sanitize.sumAt]
  | cons d l ih =>
    unfold bumpCell
    split
    · rename_i h; subst h
      simp only [Sanitize.sumAt]
      split <;> omega
    · simp only [Sanitize.sumAt, ih]; omega

theorem sumAt_foldl_bump (l : List (Key × Int)) (acc : List Cell) (k : Key) :
    Sanitize.sumAt (l.foldl (fun acc kv => bumpCell kv.1 kv.2 acc) acc) k
      = Sanitize.sumAt acc k + C05.sumOf l k := by
  induction l generalizing acc with
  | nil => simp [C05.sumOf]
  | cons x l ih =>
    rw [List.foldl_cons, ih, sumAt_bumpCell]
    simp only [C05.sumOf]; omega

theorem sumOf_append (a b : List (Key × Int)) (k : Key) :
    C05.sumOf (a ++ b) k = C05.sumOf a k + C05.sumOf b k := by
  induction a with
  | nil => simp [C05.sumOf]
  | cons x a ih => simp only [List.cons_append, C05.sumOf, ih]; omega

theorem sumOf_perm {a b : List (Key × Int)} (h : a.Perm b) (k : Key) : C05.sumOf a k = C05.sumOf b k := by
  induction h with
  | nil => rfl
  | cons x _ ih => simp only [C05.sumOf, ih]
  | swap x y l => simp only [C05.sumOf]; omega
  | trans _ _ ih1 ih2 => rw [ih1, ih2]

/-- a cell table summarises a list of `(key, value)` records: no invented key, per-key record count,
per-key value total -/
structure Summ (cells : List Cell) (l : List (Key × Int)) : Prop where
  keys : ∀ c ∈ cells, ∃ kv ∈ l, kv.1 = c.k
  cnt : ∀ k, countAt cells k = l.countP (fun kv => kv.1 = k)
  sm : ∀ k, Sanitize.sumAt cells k = C05.sumOf l k

theorem summ_groupFirst (l : List (Key × Int)) : Summ (groupFirst l) l := by
  refine ⟨?_, ?_, ?_⟩
  · intro c hc
    rcases mem_foldl_bump l [] c hc with ⟨c', hc', _⟩ | h
    · simp at hc'
    · exact h
  · intro k; rw [C05.countAt_groupFirst, C05.countAt_groupCells]
  · intro k
    unfold groupFirst
    rw [sumAt_foldl_bump]; simp [Sanitize.sumAt]

theorem summ_groupCells (l : List (Key × Int)) : Summ (groupCells l) l :=
  ⟨fun c hc => (C05.mem_groupCells_keys l c.k).mp ⟨c, hc, rfl⟩, fun k => C05.countAt_groupCells l k,
    fun k => C05.sumAt_groupCells l k⟩

theorem summ_perm {cells : List Cell} {l l' : List (Key × Int)} (h : Summ cells l) (hp : l.Perm l') :
    Summ cells l' :=
  ⟨fun c hc => by obtain ⟨kv, h1, h2⟩ := h.keys c hc; exact ⟨kv, hp.mem_iff.mp h1, h2⟩,
    fun k => by rw [h.cnt k, hp.countP_eq], fun k => by rw [h.sm k, sumOf_perm hp k]⟩

/-! ### cells with natural keys as pixels -/

def NNkv (l : List (Key × Int)) : Prop := ∀ kv ∈ l, 0 ≤ kv.1.1 ∧ 0 ≤ kv.1.2
def NNc (cells : List Cell) : Prop := ∀ c ∈ cells, 0 ≤ c.k.1 ∧ 0 ≤ c.k.2

theorem key_toNat_iff {k : Key} (h : 0 ≤ k.1 ∧ 0 ≤ k.2) (i j : Nat) :
    (k.1.toNat = i ∧ k.2.toNat = j) ↔ k = ((i : Int), (j : Int)) := by
  constructor
  · intro ⟨h1, h2⟩; ext <;> simp <;> omega
  · intro e; subst e; simp

theorem sumAt_cellsCount (cells : List Cell) (hn : NNc cells) (i j : Nat) :
    Cooler.sumAt (cellsCount cells) i j = ((countAt cells ((i : Int), (j : Int)) : Nat) : Int) := by
  induction cells with
  | nil => simp [cellsCount, Cooler.sumAt, countAt]
  | cons c rest ih =>
    have ih' := ih (fun c hc => hn c (List.mem_cons_of_mem _ hc))
    have hk := key_toNat_iff (hn c List.mem_cons_self) i j
    simp only [cellsCount, List.map_cons, Cooler.sumAt, countAt] at ih' ⊢
    rw [ih']
    by_cases h : c.k = ((i : Int), (j : Int))
    · simp [h, hk.mpr h]
    · have : ¬ (c.k.1.toNat = i ∧ c.k.2.toNat = j) := fun h' => h (hk.mp h')
      simp [h, this]

theorem sumAt_cellsSum (cells : List Cell) (hn : NNc cells) (i j : Nat) :
    Cooler.sumAt (cellsSum cells) i j = Sanitize.sumAt cells ((i : Int), (j : Int)) := by
  induction cells with
  | nil => simp [cellsSum, Cooler.sumAt, Sanitize.sumAt]
  | cons c rest ih =>
    have ih' := ih (fun c hc => hn c (List.mem_cons_of_mem _ hc))
    have hk := key_toNat_iff (hn c List.mem_cons_self) i j
    simp only [cellsSum, List.map_cons, Cooler.sumAt, Sanitize.sumAt] at ih' ⊢
    rw [ih']
    by_cases h : c.k = ((i : Int), (j : Int))
    · simp [h, hk.mpr h]
    · have : ¬ (c.k.1.toNat = i ∧ c.k.2.toNat = j) := fun h' => h (hk.mp h')
      simp [h, this]

theorem hasKey_cells (f : Cell → Int) (cells : List Cell) (hn : NNc cells) (i j : Nat) :
    hasKey (cells.map fun c => (⟨c.k.1.toNat, c.k.2.toNat, f c⟩ : Px)) i j ↔
      ∃ c ∈ cells, c.k = ((i : Int), (j : Int)) := by
  unfold hasKey
  constructor
  · rintro ⟨p, hp, h1, h2⟩
    obtain ⟨c, hc, rfl⟩ := List.mem_map.mp hp
    exact ⟨c, hc, (key_toNat_iff (hn c hc) i j).mp ⟨h1, h2⟩⟩
  · rintro ⟨c, hc, e⟩
    have := (key_toNat_iff (hn c hc) i j).mpr e
    exact ⟨_, List.mem_map_of_mem hc, this.1, this.2⟩

theorem strictSorted_cells (f : Cell → Int) (cells : List Cell) (hs : C05.SortedCells cells) (hn : NNc cells) :
    StrictSorted (cells.map fun c => (⟨c.k.1.toNat, c.k.2.toNat, f c⟩ : Px)) := by
  unfold StrictSorted C05.SortedCells at *
  rw [List.pairwise_map]
  apply hs.imp_of_mem
  intro a b ha hb hab
  have := hn a ha
  have := hn b hb
  unfold Sanitize.klt at hab
  unfold keyLt
  simp only []
  omega

/-- the two pixel tables `(pc, ps)` carry, under every natural key, the record count and the value
total of the record list `l`, and exactly its keys -/
structure PxSumm (pc ps : Pixels) (l : List (Key × Int)) : Prop where
  cs : ∀ i j : Nat, Cooler.sumAt pc i j = ((l.countP (fun kv => kv.1 = ((i : Int), (j : Int))) : Nat) : Int)
  ck : ∀ i j : Nat, hasKey pc i j ↔ ∃ kv ∈ l, kv.1 = ((i : Int), (j : Int))
  ss : ∀ i j : Nat, Cooler.sumAt ps i j = C05.sumOf l ((i : Int), (j : Int))
  sk : ∀ i j : Nat, hasKey ps i j ↔ ∃ kv ∈ l, kv.1 = ((i : Int), (j : Int))

theorem summ_nn {cells : List Cell} {l : List (Key × Int)} (h : Summ cells l) (hl : NNkv l) : NNc cells := by
  intro c hc
  obtain ⟨kv, h1, h2⟩ := h.keys c hc
  rw [← h2]; exact hl kv h1

theorem pxSumm_of_summ {cells : List Cell} {l : List (Key × Int)} (h : Summ cells l) (hl : NNkv l) :
    PxSumm (cellsCount cells) (cellsSum cells) l := by
  have hn := summ_nn h hl
  have hkey : ∀ i j : Nat, (∃ c ∈ cells, c.k = ((i : Int), (j : Int))) ↔ ∃ kv ∈ l, kv.1 = ((i : Int), (j : Int)) := by
    intro i j
    constructor
    · rintro ⟨c, hc, e⟩
      obtain ⟨kv, h1, h2⟩ := h.keys c hc
      exact ⟨kv, h1, h2.trans e⟩
    · rintro ⟨kv, hkv, e⟩
      apply Classical.byContradiction
      intro hno
      have h0 : countAt cells ((i : Int), (j : Int)) = 0 :=
        C05.countAt_zero_of_not_mem (fun c hc e' => hno ⟨c, hc, e'⟩)
      rw [h.cnt] at h0
      have : 0 < l.countP (fun kv => kv.1 = ((i : Int), (j : Int))) :=
        List.countP_pos_iff.mpr ⟨kv, hkv, by simpa using e⟩
      omega
  refine ⟨?_, ?_, ?_, ?_⟩
  · intro i j; rw [sumAt_cellsCount cells hn, h.cnt]
  · intro i j; rw [← hkey]; exact hasKey_cells (fun c => (c.n : Int)) cells hn i j
  · intro i j; rw [sumAt_cellsSum cells hn, h.sm]
  · intro i j; rw [← hkey]; exact hasKey_cells (fun c => c.s) cells hn i j

theorem pxSumm_nil : PxSumm [] [] [] :=
  ⟨fun _ _ => by simp [Cooler.sumAt], fun _ _ => by simp [hasKey], fun _ _ => by simp [Cooler.sumAt, C05.sumOf],
    fun _ _ => by simp [hasKey]⟩

theorem pxSumm_append {a b a' b' : Pixels} {l l' : List (Key × Int)} (h : PxSumm a b l) (h' : PxSumm a' b' l') :
    PxSumm (a ++ a') (b ++ b') (l ++ l') := by
  refine ⟨?_, ?_, ?_, ?_⟩
  · intro i j; rw [sumAt_append, h.cs, h'.cs, List.countP_append]; omega
  · intro i j; rw [hasKey_append, h.ck, h'.ck]
    constructor
    · rintro (⟨kv, h1, h2⟩ | ⟨kv, h1, h2⟩)
      · exact ⟨kv, List.mem_append_left _ h1, h2⟩
      · exact ⟨kv, List.mem_append_right _ h1, h2⟩
    · rintro ⟨kv, h1, h2⟩
      rcases List.mem_append.mp h1 with h1 | h1
      · exact Or.inl ⟨kv, h1, h2⟩
      · exact Or.inr ⟨kv, h1, h2⟩
  · intro i j; rw [sumAt_append, h.ss, h'.ss, sumOf_append]
  · intro i j; rw [hasKey_append, h.sk, h'.sk]
    constructor
    · rintro (⟨kv, h1, h2⟩ | ⟨kv, h1, h2⟩)
      · exact ⟨kv, List.mem_append_left _ h1, h2⟩
      · exact ⟨kv, List.mem_append_right _ h1, h2⟩
    · rintro ⟨kv, h1, h2⟩
      rcases List.mem_append.mp h1 with h1 | h1
      · exact Or.inl ⟨kv, h1, h2⟩
      · exact Or.inr ⟨kv, h1, h2⟩

/-! ### reader chunks: parsing, anchors and retained records are additive -/

theorem mapE_append_ok {β γ : Type} (f : β → Except Err γ) (a b : List β) (r : List γ)
    (h : Bal.mapE f (a ++ b) = .ok r) :
    ∃ ra rb, Bal.mapE f a = .ok ra ∧ Bal.mapE f b = .ok rb ∧ r = ra ++ rb := by
  induction a generalizing r with
  | nil => exact ⟨[], r, rfl, h, rfl⟩
  | cons x xs ih =>
    simp only [List.cons_append, Bal.mapE] at h ⊢
    cases hx : f x with
    | error e => simp [hx] at h
    | ok y =>
      simp only [hx] at h ⊢
      cases hm : Bal.mapE f (xs ++ b) with
      | error e => simp [hm] at h
      | ok r' =>
        simp only [hm] at h
        obtain ⟨ra, rb, h1, h2, h3⟩ := ih r' hm
        refine ⟨y :: ra, rb, by simp [h1], h2, ?_⟩
        cases h; simp [h3]

/-- parsing the concatenation succeeds iff every chunk parses; the records are the concatenation -/
theorem mapE_flatten_ok {β γ : Type} (f : β → Except Err γ) (L : List (List β)) (r : List γ)
    (h : Bal.mapE f L.flatten = .ok r) :
    ∃ rs, Bal.mapE (Bal.mapE f) L = .ok rs ∧ rs.flatten = r := by
  induction L generalizing r with
  | nil => simp [Bal.mapE] at h; subst h; exact ⟨[], rfl, rfl⟩
  | cons c cs ih =>
    rw [List.flatten_cons] at h
    obtain ⟨ra, rb, h1, h2, h3⟩ := mapE_append_ok f c cs.flatten r h
    obtain ⟨rs, h4, h5⟩ := ih rb h2
    exact ⟨ra :: rs, by simp [Bal.mapE, h1, h4], by simp [h5, h3]⟩

/-- `Except` bind, spelled out -/
def bindE {γ δ : Type} (x : Except Err γ) (g : γ → Except Err δ) : Except Err δ :=
  match x with
  | .error e => .error e
  | .ok y => g y

/-- a per-chunk function that first parses the chunk: over all chunks it is the rest of the function
over the parsed chunks -/
theorem mapE_comp_ok {β γ δ : Type} (h : β → Except Err γ) (g : γ → Except Err δ) (F : β → Except Err δ)
    (hF : ∀ x, F x = bindE (h x) g)
    (L : List β) (R : List γ) (hL : Bal.mapE h L = .ok R) : Bal.mapE F L = Bal.mapE g R := by
  induction L generalizing R with
  | nil => simp [Bal.mapE] at hL; subst hL; rfl
  | cons x xs ih =>
    simp only [Bal.mapE] at hL
    cases hx : h x with
    | error e => simp [hx] at hL
    | ok y =>
      cases hm : Bal.mapE h xs with
      | error e => simp [hx, hm] at hL
      | ok R' =>
        simp [hx, hm] at hL
        subst hL
        simp only [Bal.mapE, hF x, hx, ih R' hm, bindE]

theorem mapE_error_of {β γ : Type} (f : β → Except Err γ) (E : Err) (l : List β)
    (h1 : ∀ x ∈ l, ∀ e, f x = .error e → e = E) (h2 : ∃ x ∈ l, ∃ e, f x = .error e) :
    Bal.mapE f l = .error E := by
  induction l with
  | nil => obtain ⟨x, hx, _⟩ := h2; simp at hx
  | cons x xs ih =>
    simp only [Bal.mapE]
    cases hx : f x with
    | error e => rw [h1 x List.mem_cons_self e hx]
    | ok y =>
      have : ∃ x ∈ xs, ∃ e, f x = .error e := by
        obtain ⟨z, hz, e, he⟩ := h2
        rcases List.mem_cons.mp hz with rfl | hz
        · rw [hx] at he; cases he
        · exact ⟨z, hz, e, he⟩
      simp only [ih (fun z hz => h1 z (List.mem_cons_of_mem _ hz)) this]

theorem anchors_append (o : Sanitize.Opts) (a b : List Rec) :
    Sanitize.anchors o (a ++ b) = Sanitize.anchors o a ++ Sanitize.anchors o b := by
  unfold Sanitize.anchors; rw [List.filterMap_append]

theorem retained_append (o : Sanitize.Opts) (a b : List Rec) :
    Sanitize.retained o (a ++ b) = Sanitize.retained o a ++ Sanitize.retained o b := by
  unfold Sanitize.retained
  rw [anchors_append]
  unfold Sanitize.orientAnchors
  cases o.tril <;> simp

theorem anchors_subset_flatten (o : Sanitize.Opts) (rss : List (List Rec)) (rk : List Rec) (h : rk ∈ rss) :
    ∀ a ∈ Sanitize.anchors o rk, a ∈ Sanitize.anchors o rss.flatten := by
  intro a ha
  unfold Sanitize.anchors at *
  rw [List.mem_filterMap] at ha ⊢
  obtain ⟨r, hr, e⟩ := ha
  exact ⟨r, List.mem_flatten.mpr ⟨rk, h, hr⟩, e⟩

theorem anchors_mem_flatten (o : Sanitize.Opts) (rss : List (List Rec)) (a : Anchor)
    (h : a ∈ Sanitize.anchors o rss.flatten) : ∃ rk ∈ rss, a ∈ Sanitize.anchors o rk := by
  unfold Sanitize.anchors at *
  rw [List.mem_filterMap] at h
  obtain ⟨r, hr, e⟩ := h
  obtain ⟨rk, h1, h2⟩ := List.mem_flatten.mp hr
  exact ⟨rk, h1, List.mem_filterMap.mpr ⟨r, h2, e⟩⟩

/-! ### one chunk -/

/-- the per-chunk step after parsing -/
def chunkOfRecs (o : PairsOpts) (bins : BinTable) (recs : List Rec) : Except Err (List Cell) :=
  match Sanitize.sanitizeRecords bins o.sanitize recs with
  | .error e => .error e
  | .ok outs => .ok (Sanitize.aggregateRecords false outs)

theorem pairsChunk_eq {α : Type} (o : PairsOpts) (bins : BinTable) (contigs : List String)
    (fields : List (String × Nat)) (value : Option String) (rows : List (List (Val α))) :
    pairsChunk o bins contigs fields value rows =
      bindE (Bal.mapE (pairsRec contigs fields value) rows) (chunkOfRecs o bins) := by
  unfold pairsChunk chunkOfRecs bindE
  cases Bal.mapE (pairsRec contigs fields value) rows <;> rfl

theorem tril_not_raise (o : PairsOpts) : o.sanitize.tril ≠ .raise ∧ o.sanitize.tril ≠ .bogus := by
  cases hs : o.symm <;> cases hd : o.duplex <;> simp [PairsOpts.sanitize, hs, hd]

theorem pixelOf_nonneg {bins : BinTable} {a : Anchor} {k : Key} (h : Sanitize.pixelOf bins a = some k) :
    0 ≤ k.1 ∧ 0 ≤ k.2 := by
  unfold Sanitize.pixelOf at h
  cases h1 : Sanitize.binOf bins a.c1 a.a1 with
  | none => simp [h1] at h
  | some i =>
    cases h2 : Sanitize.binOf bins a.c2 a.a2 with
    | none => simp [h1, h2] at h
    | some j =>
      simp [h1, h2] at h
      subst h
      have := (C05.binOf_sound h1).2.1
      have := (C05.binOf_sound h2).2.1
      exact ⟨by assumption, by assumption⟩

/-- the key/value list of the retained records of one batch -/
def kvsOf (o : PairsOpts) (bins : BinTable) (recs : List Rec) : List (Key × Int) :=
  (Sanitize.retained o.sanitize recs).map (Sanitize.keyOf bins (getBinsize bins))

theorem kvsOf_append (o : PairsOpts) (bins : BinTable) (a b : List Rec) :
    kvsOf o bins (a ++ b) = kvsOf o bins a ++ kvsOf o bins b := by
  unfold kvsOf; rw [retained_append, List.map_append]

theorem kvsOf_nn (o : PairsOpts) (bins : BinTable) (hT : Sanitize.TableOK bins) (recs : List Rec)
    (hin : ∀ a ∈ Sanitize.anchors o.sanitize recs, a.inside bins) : NNkv (kvsOf o bins recs) := by
  intro kv hkv
  obtain ⟨a, ha, rfl⟩ := List.mem_map.mp hkv
  have := C05.keyOf_eq_pixelOf hT (C05.binsize_truthful hT) (C05.orient_inside hin a ha)
  exact pixelOf_nonneg this

/-- a chunk whose records all lie inside their chromosomes is accepted, and its cell table summarises
the keys and values of its retained records -/
theorem chunk_inside (o : PairsOpts) (bins : BinTable) (recs : List Rec)
    (hin : ∀ a ∈ Sanitize.anchors o.sanitize recs, a.inside bins) :
    ∃ cells, chunkOfRecs o bins recs = .ok cells ∧ Summ cells (kvsOf o bins recs) := by
  have hpipe := C05.pipeline_of_inside (getBinsize bins) o.sanitize hin
  have ht := tril_not_raise o
  rw [if_neg (fun h => ht.1 h.1), if_neg (fun h => ht.2 h.1)] at hpipe
  obtain ⟨outs, ho, hperm⟩ := (C05.sanitizeWith_sim bins (getBinsize bins) o.sanitize recs).2 _ hpipe
  have ho' : Sanitize.sanitizeRecords bins o.sanitize recs = .ok outs := ho
  refine ⟨groupFirst (keyVals outs), ?_, summ_perm (summ_groupFirst _) hperm⟩
  unfold chunkOfRecs
  rw [ho']
  rfl

theorem specCounts_error (o : PairsOpts) (bins : BinTable) (recs : List Rec) (e : Err)
    (h : Sanitize.specCounts bins o.sanitize recs = .error e) : e = .badInput := by
  have ht := tril_not_raise o
  unfold Sanitize.specCounts at h
  split at h
  · cases h; rfl
  · rw [if_neg (fun h => ht.1 h.1), if_neg (fun h => ht.2 h.1)] at h
    cases h

/-- away from D13 a chunk is rejected exactly when the specification rejects it, with `BadInputError` -/
theorem chunk_error (o : PairsOpts) (bins : BinTable) (hT : Sanitize.TableOK bins) (recs : List Rec)
    (hno : Sanitize.atLength bins o.sanitize recs = false) :
    (∀ e, chunkOfRecs o bins recs = .error e → e = .badInput) ∧
    ((∃ a ∈ Sanitize.anchors o.sanitize recs, ¬ a.inside bins) → ∃ e, chunkOfRecs o bins recs = .error e) := by
  have hagg := C05.aggregated_eq_spec hT o.sanitize rfl recs hno
  unfold Sanitize.aggregated at hagg
  constructor
  · intro e he
    unfold chunkOfRecs at he
    cases hs : Sanitize.sanitizeRecords bins o.sanitize recs with
    | ok outs => simp [hs] at he
    | error e' =>
      simp only [hs] at he hagg
      cases he
      exact specCounts_error o bins recs _ hagg.symm
  · rintro ⟨a, ha, hna⟩
    have hspec : Sanitize.specCounts bins o.sanitize recs = .error .badInput := by
      unfold Sanitize.specCounts
      have : (Sanitize.anchors o.sanitize recs).any (fun a => !decide (a.inside bins)) = true := by
        rw [List.any_eq_true]; exact ⟨a, ha, by simp [hna]⟩
      simp [this]
    unfold chunkOfRecs
    cases hs : Sanitize.sanitizeRecords bins o.sanitize recs with
    | ok outs => simp only [hs, hspec] at hagg; cases hagg
    | error e' => exact ⟨e', rfl⟩

theorem atLength_chunk (o : PairsOpts) (bins : BinTable) (rss : List (List Rec))
    (h : Sanitize.atLength bins o.sanitize rss.flatten = false) :
    ∀ rk ∈ rss, Sanitize.atLength bins o.sanitize rk = false := by
  intro rk hrk
  unfold Sanitize.atLength at *
  rw [List.any_eq_false] at h ⊢
  intro a ha
  exact h a (anchors_subset_flatten o.sanitize rss rk hrk a ha)

/-! ### all chunks -/

theorem chunks_inside (o : PairsOpts) (bins : BinTable) (hT : Sanitize.TableOK bins) (rss : List (List Rec))
    (hin : ∀ a ∈ Sanitize.anchors o.sanitize rss.flatten, a.inside bins) :
    ∃ cs, Bal.mapE (chunkOfRecs o bins) rss = .ok cs ∧
      PxSumm (cs.map cellsCount).flatten (cs.map cellsSum).flatten (kvsOf o bins rss.flatten) := by
  induction rss with
  | nil => exact ⟨[], rfl, by simpa [kvsOf, Sanitize.retained, Sanitize.anchors, Sanitize.orientAnchors] using
      (by cases o.sanitize.tril <;> exact pxSumm_nil)⟩
  | cons rk rest ih =>
    have hin1 : ∀ a ∈ Sanitize.anchors o.sanitize rk, a.inside bins := fun a ha =>
      hin a (anchors_subset_flatten o.sanitize (rk :: rest) rk List.mem_cons_self a ha)
    have hin2 : ∀ a ∈ Sanitize.anchors o.sanitize rest.flatten, a.inside bins := by
      intro a ha
      apply hin
      rw [List.flatten_cons, anchors_append]
      exact List.mem_append_right _ ha
    obtain ⟨cells, h1, h2⟩ := chunk_inside o bins rk hin1
    obtain ⟨cs, h3, h4⟩ := ih hin2
    refine ⟨cells :: cs, by simp [Bal.mapE, h1, h3], ?_⟩
    simp only [List.map_cons, List.flatten_cons, kvsOf_append]
    exact pxSumm_append (pxSumm_of_summ h2 (kvsOf_nn o bins hT rk hin1)) h4

/-- **cloadPairs_eq_spec**: on a valid bin table, for ANY cutting of the pairs file into reader chunks,
if every line parses and no record sits exactly at its chromosome's length (known finding D13),
`cooler cload pairs` — per chunk: parse, sanitize, aggregate in order of appearance; then merge the
per-chunk tables (`aggregateAll`, C06) — stores exactly what the specification says: one unit per
retained record in the pixel of its two anchors (and the per-pixel sums of the value field), or is
rejected with `BadInputError` exactly when some record lies outside its chromosome. -/
theorem cloadPairs_eq_spec {α : Type} (o : PairsOpts) (bins : BinTable) (contigs : List String)
    (fields : List (String × Nat)) (value : Option String) (chunks : List (List (List (Val α))))
    (recs : List Rec) (hT : Sanitize.TableOK bins)
    (hrec : Bal.mapE (pairsRec contigs fields value) chunks.flatten = .ok recs)
    (hno : Sanitize.atLength bins o.sanitize recs = false) :
    cloadPairs o bins contigs fields value chunks = pairsSpec o bins recs := by
  obtain ⟨rss, hrss, hflat⟩ := mapE_flatten_ok _ chunks recs hrec
  subst hflat
  have hmap : Bal.mapE (pairsChunk o bins contigs fields value) chunks = Bal.mapE (chunkOfRecs o bins) rss :=
    mapE_comp_ok _ (chunkOfRecs o bins) _ (pairsChunk_eq o bins contigs fields value) chunks rss hrss
  unfold cloadPairs
  rw [hmap]
  have ht := tril_not_raise o
  by_cases hin : ∀ a ∈ Sanitize.anchors o.sanitize rss.flatten, a.inside bins
  · obtain ⟨cs, h1, h2⟩ := chunks_inside o bins hT rss hin
    rw [h1]
    -- the specification side
    have hs1 : (Sanitize.anchors o.sanitize rss.flatten).any (fun a => !decide (a.inside bins)) = false := by
      rw [List.any_eq_false]; intro a ha; simp [hin a ha]
    have hkv : (Sanitize.retained o.sanitize rss.flatten).filterMap
        (fun a => (Sanitize.pixelOf bins a).map fun k => (k, a.v)) = kvsOf o bins rss.flatten := by
      unfold kvsOf
      apply C05.filterMap_eq_map_of
      intro a ha
      rw [C05.keyOf_eq_pixelOf hT (C05.binsize_truthful hT) (C05.orient_inside hin a ha)]
      rfl
    have hspec : pairsSpec o bins rss.flatten =
        .ok (cellsCount (groupCells (kvsOf o bins rss.flatten)), cellsSum (groupCells (kvsOf o bins rss.flatten))) := by
      unfold pairsSpec Sanitize.specCounts
      simp only [hs1, Bool.false_eq_true, if_false]
      rw [if_neg (fun h => ht.1 h.1), if_neg (fun h => ht.2 h.1), hkv]
    rw [hspec]
    have hnn := kvsOf_nn o bins hT rss.flatten hin
    have hS := summ_groupCells (kvsOf o bins rss.flatten)
    have hP := pxSumm_of_summ hS hnn
    have hnc := summ_nn hS hnn
    have e1 : cellsCount (groupCells (kvsOf o bins rss.flatten)) = Unordered.aggregateAll (cs.map cellsCount) := by
      unfold Unordered.aggregateAll
      apply groupSum_eq_of
      · exact strictSorted_cells (fun c => (c.n : Int)) _ (C05.groupCells_sorted _) hnc
      · intro i j; rw [hP.ck, h2.ck]
      · intro i j; rw [hP.cs, h2.cs]
    have e2 : cellsSum (groupCells (kvsOf o bins rss.flatten)) = Unordered.aggregateAll (cs.map cellsSum) := by
      unfold Unordered.aggregateAll
      apply groupSum_eq_of
      · exact strictSorted_cells (fun c => c.s) _ (C05.groupCells_sorted _) hnc
      · intro i j; rw [hP.sk, h2.sk]
      · intro i j; rw [hP.ss, h2.ss]
    simp only [e1, e2]
  · have hex : ∃ a ∈ Sanitize.anchors o.sanitize rss.flatten, ¬ a.inside bins := by
      apply Classical.byContradiction
      intro hne
      apply hin
      intro a ha
      apply Classical.byContradiction
      intro hna
      exact hne ⟨a, ha, hna⟩
    obtain ⟨a, ha, hna⟩ := hex
    have hspec : pairsSpec o bins rss.flatten = .error .badInput := by
      unfold pairsSpec Sanitize.specCounts
      have : (Sanitize.anchors o.sanitize rss.flatten).any (fun a => !decide (a.inside bins)) = true := by
        rw [List.any_eq_true]; exact ⟨a, ha, by simp [hna]⟩
      simp [this]
    rw [hspec]
    have hat := atLength_chunk o bins rss hno
    obtain ⟨rk, hrk, hak⟩ := anchors_mem_flatten o.sanitize rss a ha
    have herr : Bal.mapE (chunkOfRecs o bins) rss = .error .badInput := by
      apply mapE_error_of
      · intro r hr e he
        exact (chunk_error o bins hT r (hat r hr)).1 e he
      · obtain ⟨e, he⟩ := (chunk_error o bins hT rk (hat rk hrk)).2 ⟨a, hak, hna⟩
        exact ⟨rk, hrk, e, he⟩
    rw [herr]

end cloadspec

/-! ## 5. `parse_field_param` -/

section fieldparam

theorem splitOn_no_sep (c : Char) (l : List Char) (h : c ∉ l) : splitOn c l = [l] := by
  induction l with
  | nil => rfl
  | cons x xs ih =>
    have hx : x ≠ c := fun e => h (e ▸ List.mem_cons_self)
    have hxs : c ∉ xs := fun e => h (List.mem_cons_of_mem _ e)
    simp only [splitOn, hx, if_false, ih hxs]

theorem splitOn_append (c : Char) (a b : List Char) (h : c ∉ a) :
    splitOn c (a ++ c :: b) = a :: splitOn c b := by
  induction a with
  | nil => simp [splitOn]
  | cons x xs ih =>
    have hx : x ≠ c := fun e => h (e ▸ List.mem_cons_self)
    have hxs : c ∉ xs := fun e => h (List.mem_cons_of_mem _ e)
    simp only [List.cons_append, splitOn, hx, if_false, ih hxs]

theorem splitOn_ne_nil (c : Char) (l : List Char) : splitOn c l ≠ [] := by
  cases l with
  | nil => simp [splitOn]
  | cons x xs =>
    simp only [splitOn]
    split
    · simp
    · split <;> simp

/-- `c.join(parts)` -/
def joinWith (c : Char) : List (List Char) → List Char
  | [] => []
  | [x] => x
  | x :: y :: rest => x ++ c :: joinWith c (y :: rest)

theorem splitOn_joinWith (c : Char) (parts : List (List Char)) (hne : parts ≠ [])
    (h : ∀ p ∈ parts, c ∉ p) : splitOn c (joinWith c parts) = parts := by
  induction parts with
  | nil => exact absurd rfl hne
  | cons x rest ih =>
    cases rest with
    | nil => exact splitOn_no_sep c x (h x (List.mem_cons_self))
    | cons y r =>
      simp only [joinWith]
      rw [splitOn_append c x _ (h x (List.mem_cons_self)),
        ih (by simp) (fun p hp => h p (List.mem_cons_of_mem _ hp))]

/-- the last value given for a property (a later item overrides an earlier one) -/
def lastOf (key : List Char) (items : List (List Char × List Char)) (init : Option (List Char)) :
    Option (List Char) :=
  items.foldl (fun acc kv => if kv.1 = key then some kv.2 else acc) init

def renderItem (kv : List Char × List Char) : List Char := kv.1 ++ '=' :: kv.2

/-- a well-formed `prop=value` item for the given command: `dtype=<numpy dtype>`, or `agg=<name>`
where aggregation is configurable -/
def ItemOK (isDtype : List Char → Bool) (includesAgg : Bool) (kv : List Char × List Char) : Prop :=
  '=' ∉ kv.1 ∧ '=' ∉ kv.2 ∧
    ((kv.1 = "dtype".toList ∧ isDtype kv.2 = true) ∨ (kv.1 = "agg".toList ∧ includesAgg = true))

theorem parseProps_ok (isDtype : List Char → Bool) (includesAgg : Bool)
    (items : List (List Char × List Char)) (h : ∀ kv ∈ items, ItemOK isDtype includesAgg kv)
    (dt ag : Option (List Char)) :
    parseProps isDtype includesAgg (items.map renderItem) dt ag =
      .ok (lastOf "dtype".toList items dt, lastOf "agg".toList items ag) := by
  induction items generalizing dt ag with
  | nil => rfl
  | cons kv rest ih =>
    obtain ⟨h1, h2, h3⟩ := h kv (List.mem_cons_self)
    have hs : splitOn '=' (renderItem kv) = [kv.1, kv.2] := by
      unfold renderItem
      rw [splitOn_append _ _ _ h1, splitOn_no_sep _ _ h2]
    have ihr := ih (fun x hx => h x (List.mem_cons_of_mem _ hx))
    simp only [List.map_cons, parseProps, hs]
    rcases h3 with ⟨hk, hd⟩ | ⟨hk, ha⟩
    · have hne : ¬ (kv.1 = "agg".toList) := by rw [hk]; decide
      simp only [hk, if_true, hd, ihr, lastOf, List.foldl_cons, hne, if_false]
      simp [hk]
    · have hne : ¬ (kv.1 = "dtype".toList) := by rw [hk]; decide
      subst ha
      simp only [hne, if_false, hk, and_self, if_true, ihr, lastOf, List.foldl_cons]
      simp [hk]

/-- **parseFieldParam_spec (grammar)**: `name=N` with `N ≥ 1`, optionally followed by `:` and one or
more well-formed `prop=value` items separated by commas, parses to the name, the ZERO-based column
`N − 1`, and the last `dtype` / `agg` given -/
theorem parseFieldParam_spec (isDtype : List Char → Bool) (includesAgg : Bool) (name num : List Char)
    (k : Nat) (hname : ':' ∉ name ∧ '=' ∉ name) (hnum : ':' ∉ num ∧ '=' ∉ num)
    (hk : pyInt num = some ((k : Int) + 1)) (items : List (List Char × List Char))
    (hitems : ∀ kv ∈ items, ItemOK isDtype includesAgg kv ∧ ':' ∉ renderItem kv ∧ ',' ∉ renderItem kv) :
    parseFieldParam isDtype true includesAgg
        (name ++ '=' :: num ++ (if items = [] then [] else ':' :: joinWith ',' (items.map renderItem)))
      = .ok ⟨name, some k, lastOf "dtype".toList items none, lastOf "agg".toList items none⟩ := by
  have hpre : ':' ∉ name ++ '=' :: num := by
    intro h
    rcases List.mem_append.mp h with h | h
    · exact hname.1 h
    · rcases List.mem_cons.mp h with h | h
      · exact absurd h (by decide)
      · exact hnum.1 h
  have hprefix : parsePrefix (name ++ '=' :: num) = .ok (name, some k) := by
    unfold parsePrefix
    rw [splitOn_append _ _ _ hname.2, splitOn_no_sep _ _ hnum.2]
    simp only [hk]
    have : ¬ ((k : Int) + 1 - 1 < 0) := by omega
    simp only [this, if_false]
    congr 3
    omega
  unfold parseFieldParam
  by_cases he : items = []
  · subst he
    simp only [if_true, List.append_nil]
    rw [splitOn_no_sep _ _ hpre]
    simp only [if_true, hprefix]
    rfl
  · simp only [he, if_false]
    have hjoin : ':' ∉ joinWith ',' (items.map renderItem) := by
      clear he hprefix hpre
      induction items with
      | nil => simp [joinWith]
      | cons kv rest ih =>
        have h1 := (hitems kv (List.mem_cons_self)).2.1
        cases rest with
        | nil => simpa [joinWith] using h1
        | cons y r =>
          simp only [List.map_cons, joinWith]
          intro h
          rcases List.mem_append.mp h with h | h
          · exact h1 h
          · rcases List.mem_cons.mp h with h | h
            · exact absurd h (by decide)
            · exact ih (fun x hx => hitems x (List.mem_cons_of_mem _ hx)) h
    rw [splitOn_append _ _ _ hpre, splitOn_no_sep _ _ hjoin]
    simp only [if_true, hprefix]
    rw [splitOn_joinWith ',' (items.map renderItem) (by simpa using he)
      (by intro p hp; obtain ⟨kv, hkv, rfl⟩ := List.mem_map.mp hp; exact (hitems kv hkv).2.2)]
    rw [parseProps_ok isDtype includesAgg items (fun kv hkv => (hitems kv hkv).1)]

/-- **refusals.**  More than one `:`; a field number that is not a number or is `< 1`; more than one
`=` in the prefix; an item that is not `prop=value`; an unknown property; `agg` where aggregation is
not configurable (`cooler load`); a `dtype` numpy does not know (a `TypeError`, not a usage error). -/
theorem parseFieldParam_refusals (isDtype : List Char → Bool) (includesColnum includesAgg : Bool) :
    (∀ a b c : List Char, ':' ∉ a → ':' ∉ b →
      parseFieldParam isDtype includesColnum includesAgg (a ++ ':' :: b ++ ':' :: c) = .error .badParameter) ∧
    (∀ name num : List Char, '=' ∉ name → '=' ∉ num → (∀ z, pyInt num = some z → z < 1) →
      parsePrefix (name ++ '=' :: num) = .error .badParameter) ∧
    (∀ a b c : List Char, '=' ∉ a → '=' ∉ b →
      parsePrefix (a ++ '=' :: b ++ '=' :: c) = .error .badParameter) ∧
    (∀ (item : List Char) rest dt ag, '=' ∉ item →
      parseProps isDtype includesAgg (item :: rest) dt ag = .error .badParameter) ∧
    (∀ (prop value : List Char) rest dt ag, '=' ∉ prop → '=' ∉ value → prop ≠ "dtype".toList →
      (prop ≠ "agg".toList ∨ includesAgg = false) →
      parseProps isDtype includesAgg (renderItem (prop, value) :: rest) dt ag = .error .badParameter) ∧
    (∀ (value : List Char) rest dt ag, '=' ∉ value → isDtype value = false →
      parseProps isDtype includesAgg (renderItem ("dtype".toList, value) :: rest) dt ag = .error .typeError) := by
  refine ⟨?_, ?_, ?_, ?_, ?_, ?_⟩
  · intro a b c ha hb
    unfold parseFieldParam
    rw [List.append_assoc, List.cons_append, splitOn_append _ _ _ ha, splitOn_append _ _ _ hb]
    cases hs : splitOn ':' c with
    | nil => exact absurd hs (splitOn_ne_nil _ _)
    | cons x xs => rfl
  · intro name num h1 h2 hz
    unfold parsePrefix
    rw [splitOn_append _ _ _ h1, splitOn_no_sep _ _ h2]
    simp only []
    cases hp : pyInt num with
    | none => rfl
    | some z =>
      have := hz z hp
      have h' : z - 1 < 0 := by omega
      simp only [h', if_true]
  · intro a b c ha hb
    unfold parsePrefix
    rw [List.append_assoc, List.cons_append, splitOn_append _ _ _ ha, splitOn_append _ _ _ hb]
    cases hs : splitOn '=' c with
    | nil => exact absurd hs (splitOn_ne_nil _ _)
    | cons x xs => rfl
  · intro item rest dt ag h
    simp only [parseProps, splitOn_no_sep _ _ h]
  · intro prop value rest dt ag h1 h2 h3 h4
    have hs : splitOn '=' (renderItem (prop, value)) = [prop, value] := by
      unfold renderItem; rw [splitOn_append _ _ _ h1, splitOn_no_sep _ _ h2]
    have h4' : ¬ (prop = "agg".toList ∧ includesAgg = true) := by
      rintro ⟨ha, hb⟩
      rcases h4 with h4 | h4
      · exact h4 ha
      · rw [h4] at hb; exact Bool.noConfusion hb
    simp only [parseProps, hs, h3, if_false, h4']
  · intro value rest dt ag h1 h2
    have hs : splitOn '=' (renderItem ("dtype".toList, value)) = ["dtype".toList, value] := by
      unfold renderItem
      have : '=' ∉ "dtype".toList := by decide
      rw [splitOn_append _ _ _ this, splitOn_no_sep _ _ h1]
    simp only [parseProps, hs, if_true, h2, Bool.false_eq_true, if_false]

/-- non-vacuity and the two commands' grammars side by side -/
example : parseFieldParam (fun d => d = "float".toList) true true "score=5:dtype=float,agg=mean".toList
    = .ok ⟨"score".toList, some 4, some "float".toList, some "mean".toList⟩ := by rfl
example : parseFieldParam (fun d => d = "float".toList) true false "score=5:dtype=float,agg=mean".toList
    = .error .badParameter := by rfl
example : parseFieldParam (fun d => d = "float".toList) true true "count:dtype=float".toList
    = .ok ⟨"count".toList, none, some "float".toList, none⟩ := by rfl
example : parseFieldParam (fun _ => true) true true "count=0".toList = .error .badParameter := by rfl
example : parseFieldParam (fun _ => false) true true "count=2:dtype=nope".toList = .error .typeError := by rfl
example : parseFieldParam (fun _ => true) false true "count=2".toList
    = .ok ⟨"count=2".toList, none, none, none⟩ := by rfl

end fieldparam

/-! ## 6. resolution specs of `cooler zoomify -r` (a correspondence of the spellings) -/

example : preferredSequence 1000 40000 true = [1000, 2000, 5000, 10000, 20000] := by decide
example : preferredSequence 1000 40000 false = [1000, 2000, 4000, 8000, 16000, 32000] := by decide
example : preferredSequence 5 100 true = [5, 10, 25, 50, 100] := by decide
/-- the `<k>B` spelling (defect D10: the branch tested `endswith("n")` twice and `int("20b")` raised) -/
example : expandResolutionSpec 1000 40000 ["20b".toList] = .ok [20, 40, 80, 160, 320, 640, 1280, 2560, 5120, 10240, 20480] := by
  decide
example : expandResolutionSpec 1000 12000 ["4dn".toList] = .ok [1000, 2000, 5000, 10000] := by decide
example : expandResolutionSpec 1000 12000 ["2000".toList, "n".toList] = .ok [2000, 1000, 2000, 5000, 10000] := by decide
example : expandResolutionSpec 1000 12000 ["x".toList] = .error .value := by decide

/-! ## 7. non-vacuity: a concrete store meets every hypothesis, and the statements compute -/

section examples
open Sanitize

/-- toy arithmetic (the theorems hold for any `Ops`; the driver instantiates float64) -/
def exOps : Bal.Ops Int Int := ⟨fun a b => a * b, fun a => a, fun x => x⟩

def exPx : Pixels := [⟨0, 0, 5⟩, ⟨0, 2, 1⟩, ⟨1, 1, 7⟩, ⟨1, 4, 2⟩, ⟨2, 3, 4⟩, ⟨4, 4, 9⟩]

/-- two chromosomes (3 + 2 bins, the second with unequal widths), a `weight` column, symmetric-upper -/
def exStore : Store Int where
  chromNames := ["c0", "c1"]
  chromLens := [30, 25]
  bins := [⟨0, 0, 10⟩, ⟨0, 10, 20⟩, ⟨0, 20, 30⟩, ⟨1, 0, 10⟩, ⟨1, 10, 25⟩]
  fcols := [("weight", [1, 2, 3, 4, 5])]
  icols := [("gc", [7, 8, 9, 10, 11])]
  extraOrder := ["gc", "weight"]
  px := exPx
  offs := csrIndex exPx 5
  symm := true

example : ValidStore exStore :=
  ⟨by unfold StrictSorted; decide, by unfold InRange; decide, fun _ => by unfold Triu; decide,
    offsOK_csrIndex _ _⟩

example : TableOK exStore.bins ∧ exStore.chromNames.Nodup ∧
    (∀ c, validSpans exStore.offs c (rowSpans c) = true) := by
  refine ⟨⟨by decide, ?_⟩, by decide, fun c => C03.rowSpans_valid _ c⟩
  intro g hg
  have : g ∈ [[(⟨0, 0, 10⟩ : Bin), ⟨0, 10, 20⟩, ⟨0, 20, 30⟩], [⟨1, 0, 10⟩, ⟨1, 10, 25⟩]] := by
    simpa [groups, chromOrder, groupOf, exStore] using hg
  simp at this
  rcases this with h | h <;> subst h <;> decide

/-- `cooler dump --join -b --annotate gc --one-based-starts -f -r c0 -r2 c1` -/
example : dumpRows exOps exStore rowSpans
      { join := true, balanced := true, annotate := some ["gc"], oneBasedStarts := true, fillLower := true,
        range := some (0, 3), range2 := some (3, 5) } =
    some [[("chrom1", .str "c0"), ("start1", .int 11), ("end1", .int 20), ("chrom2", .str "c1"),
           ("start2", .int 11), ("end2", .int 25), ("count", .int 2), ("balanced", .num 20),
           ("gc1", .int 8), ("gc2", .int 11)],
          [("chrom1", .str "c0"), ("start1", .int 21), ("end1", .int 30), ("chrom2", .str "c1"),
           ("start2", .int 1), ("end2", .int 10), ("count", .int 4), ("balanced", .num 48),
           ("gc1", .int 9), ("gc2", .int 10)]] := by decide

/-- `cooler dump -f --one-based-ids -r c1 -r2 c0`: a box below the diagonal is filled from the stored
upper triangle -/
example : dumpRows exOps exStore rowSpans
      { oneBasedIds := true, fillLower := true, range := some (3, 5), range2 := some (0, 3) } =
    some [[("bin1_id", .int 5), ("bin2_id", .int 2), ("count", .int 2)],
          [("bin1_id", .int 4), ("bin2_id", .int 3), ("count", .int 4)]] := by decide

/-- the dump succeeds on every stored pixel (hypothesis `hline` of `load_dump_bg2`) -/
example : (mapO (fun p => (annotateRow exOps exStore { join := true, oneBasedStarts := true } p).map rowCells)
    exStore.px).isSome = true := by decide

/-- COO round trip, one-based, lines shuffled and cut into chunks of 2, 3 and 1 lines -/
example : loadCoo (α := Int) { oneBased := true, symm := true } 5 cooFields "count"
    [[[.int 2, .int 5, .int 2], [.int 1, .int 1, .int 5]],
     [[.int 5, .int 5, .int 9], [.int 1, .int 3, .int 1], [.int 3, .int 4, .int 4]],
     [[.int 2, .int 2, .int 7]]] = .ok exPx := by decide

/-- BG2 round trip, one-based starts, shuffled, variable-width chromosome included -/
example : loadBg2 (α := Int) { oneBased := true, symm := true } exStore.bins exStore.chromNames bg2Fields "count"
    [[[.str "c0", .int 11, .int 20, .str "c1", .int 11, .int 25, .int 2],
      [.str "c0", .int 1, .int 10, .str "c0", .int 1, .int 10, .int 5]],
     [[.str "c1", .int 11, .int 25, .str "c1", .int 11, .int 25, .int 9],
      [.str "c0", .int 1, .int 10, .str "c0", .int 21, .int 30, .int 1],
      [.str "c0", .int 21, .int 30, .str "c1", .int 1, .int 10, .int 4],
      [.str "c0", .int 11, .int 20, .str "c0", .int 11, .int 20, .int 7]]] = .ok exPx := by decide

/-- a value field declared BEFORE the id columns (`--field count=1` with ids at 3 and 2 is not
expressible for `load`, whose id columns are fixed; the value column is free) -/
example : loadCoo (α := Int) {} 5 (cooFields "count" 4) "count"
    [[[.int 0, .int 2, .str "x", .str "y", .int 1]]] = .ok [⟨0, 2, 1⟩] := by decide

/-- pairs: two records in the same pixel, one mirrored, under a non-monotone layout -/
example : cloadPairs (α := Int) {} exStore.bins exStore.chromNames (pairsFields 2 1 0 3 []) none
    [[[.str "c1", .int 12, .str "c0", .int 3], [.str "c0", .int 5, .str "c1", .int 11]]]
    = .ok ([⟨1, 3, 2⟩], [⟨1, 3, 0⟩]) := by decide

end examples

end Cooler.C16
