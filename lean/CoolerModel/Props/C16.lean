import CoolerModel.Model.TextIO
import CoolerModel.Props.C03
import CoolerModel.Props.C05
import CoolerModel.Props.C06
import CoolerModel.Props.C13
/-!
# C16 — text export agrees with the API; re-importing it reproduces the cooler

Theorems about `Model/TextIO.lean`.

* `columns_any_layout` (+ `columns_legacy_fails`): the column reader of the text loaders gives field
  `f` the input line's column `col f` for EVERY injective layout (formal content of repair D12); the
  pre-repair reader does not (`decide` on a concrete non-monotone layout).
* `dump_eq_query`, `dump_whole_stored`: the dumped rows are the library query's records, in engine
  order, each mapped through the annotator; the query is the stored records inside the box
  (direct engine) / a permutation of the sub-block of the completed matrix (fill-lower engine).
* `dump_option_effect`: one theorem per option (`one_based_ids_effect`, `one_based_starts_effect`,
  `join_effect`, `balanced_effect`, `annotate_effect`, `fill_lower_square`, `header_effect`,
  `range_effect`, `range2_effect`) of the form "rows with the flag = f (rows without the flag)".
* `load_dump_coo`, `load_dump_bg2`: dumping a valid store and loading the lines back — in any order,
  cut into reader chunks of any sizes, zero- or one-based on both sides — reproduces `s.px`.
* `pairs_any_layout`: the record parsed from a pairs line depends only on the values found at the
  declared columns, not on where the columns are.
* `parseFieldParam_spec`: grammar and refusals of `parse_field_param`.
-/
set_option linter.unusedSimpArgs false
set_option linter.unusedVariables false

namespace Cooler.C16
open Cooler Cooler.TextIO

/-! ## 0. `mapO`, `mapE` -/

theorem mapO_eq_some_map {β γ : Type} (f : β → Option γ) (g : β → γ) (l : List β)
    (h : ∀ x ∈ l, f x = some (g x)) : mapO f l = some (l.map g) := by
  induction l with
  | nil => rfl
  | cons x xs ih =>
    simp only [mapO, h x (List.mem_cons_self), ih (fun y hy => h y (List.mem_cons_of_mem _ hy)),
      List.map_cons]

theorem mapO_congr {β γ : Type} (f g : β → Option γ) (l : List β) (h : ∀ x ∈ l, f x = g x) :
    mapO f l = mapO g l := by
  induction l with
  | nil => rfl
  | cons x xs ih =>
    simp only [mapO, h x (List.mem_cons_self), ih (fun y hy => h y (List.mem_cons_of_mem _ hy))]

/-- post-composition with a total function -/
theorem mapO_map {β γ δ : Type} (f : β → Option γ) (g : γ → δ) (l : List β) :
    mapO (fun x => (f x).map g) l = (mapO f l).map (List.map g) := by
  induction l with
  | nil => rfl
  | cons x xs ih =>
    simp only [mapO, ih]
    cases f x <;> simp
    cases mapO f xs <;> simp

/-- post-composition with a partial function -/
theorem mapO_bind {β γ δ : Type} (f : β → Option γ) (g : γ → Option δ) (l : List β) :
    mapO (fun x => (f x).bind g) l = (mapO f l).bind (mapO g) := by
  induction l with
  | nil => rfl
  | cons x xs ih =>
    simp only [mapO, ih]
    cases hf : f x with
    | none => simp
    | some y =>
      cases hm : mapO f xs with
      | none =>
        simp only [Option.bind_some, Option.bind_none]
        cases g y <;> simp
      | some ys => simp [mapO]

theorem mapO_append {β γ : Type} (f : β → Option γ) (a b : List β) :
    mapO f (a ++ b) = (mapO f a).bind fun x => (mapO f b).map fun y => x ++ y := by
  induction a with
  | nil => simp [mapO]
  | cons x xs ih =>
    simp only [List.cons_append, mapO, ih]
    cases f x <;> simp
    cases mapO f xs <;> simp
    cases mapO f b <;> simp

/-- annotating chunk by chunk and concatenating = annotating the concatenation -/
theorem mapO_flatten {β γ : Type} (f : β → Option γ) (chunks : List (List β)) :
    (mapO (mapO f) chunks).map List.flatten = mapO f chunks.flatten := by
  induction chunks with
  | nil => rfl
  | cons c cs ih =>
    simp only [mapO, List.flatten_cons, mapO_append, ← ih]
    cases mapO f c <;> simp
    cases mapO (mapO f) cs <;> simp

theorem mapO_length {β γ : Type} (f : β → Option γ) (l : List β) (r : List γ) (h : mapO f l = some r) :
    r.length = l.length := by
  induction l generalizing r with
  | nil => simp [mapO] at h; subst h; rfl
  | cons x xs ih =>
    simp only [mapO] at h
    cases hf : f x with
    | none => simp [hf] at h
    | some y =>
      cases hm : mapO f xs with
      | none => simp [hf, hm] at h
      | some ys =>
        simp [hf, hm] at h; subst h
        simp [ih ys hm]

theorem mapE_eq_ok_map {β γ : Type} (f : β → Except Err γ) (g : β → γ) (l : List β)
    (h : ∀ x ∈ l, f x = .ok (g x)) : Bal.mapE f l = .ok (l.map g) := by
  induction l with
  | nil => rfl
  | cons x xs ih =>
    simp only [Bal.mapE, h x (List.mem_cons_self), ih (fun y hy => h y (List.mem_cons_of_mem _ hy)),
      List.map_cons]

/-! ## 1. the column reader: `columns_any_layout` (repair D12) -/

def SortedNat (l : List Nat) : Prop := l.Pairwise (· ≤ ·)

theorem mem_insertNat (x y : Nat) (l : List Nat) : y ∈ insertNat x l ↔ y = x ∨ y ∈ l := by
  induction l with
  | nil => simp [insertNat]
  | cons z zs ih =>
    simp only [insertNat]
    split
    · simp
    · simp only [List.mem_cons, ih]
      constructor
      · rintro (h | h | h) <;> simp [h]
      · rintro (h | h | h) <;> simp [h]

theorem insertNat_sorted (x : Nat) (l : List Nat) (h : SortedNat l) : SortedNat (insertNat x l) := by
  unfold SortedNat at *
  induction l with
  | nil => simp [insertNat]
  | cons z zs ih =>
    simp only [insertNat]
    split
    · rename_i hxz
      rw [List.pairwise_cons] at h ⊢
      refine ⟨?_, List.pairwise_cons.mpr h⟩
      intro y hy
      rcases List.mem_cons.mp hy with rfl | hy
      · exact hxz
      · exact Nat.le_trans hxz (h.1 y hy)
    · rename_i hxz
      rw [List.pairwise_cons] at h ⊢
      refine ⟨?_, ih h.2⟩
      intro y hy
      rcases (mem_insertNat x y zs).mp hy with rfl | hy
      · omega
      · exact h.1 y hy

theorem sortNat_sorted (l : List Nat) : SortedNat (sortNat l) := by
  induction l with
  | nil => simp [sortNat, SortedNat]
  | cons x xs ih => exact insertNat_sorted x _ ih

theorem insertNat_of_le (x : Nat) (l : List Nat) (h : ∀ y ∈ l, x ≤ y) : insertNat x l = x :: l := by
  cases l with
  | nil => rfl
  | cons z zs => simp [insertNat, h z (List.mem_cons_self)]

/-- sorting an ascending list changes nothing -/
theorem sortNat_of_sorted (l : List Nat) (h : SortedNat l) : sortNat l = l := by
  unfold SortedNat at h
  induction l with
  | nil => rfl
  | cons x xs ih =>
    rw [List.pairwise_cons] at h
    simp only [sortNat, ih h.2]
    exact insertNat_of_le x xs h.1

theorem insertField_snd (x : String × Nat) (l : List (String × Nat)) :
    (insertField x l).map (·.2) = insertNat x.2 (l.map (·.2)) := by
  induction l with
  | nil => rfl
  | cons y ys ih =>
    simp only [insertField, List.map_cons, insertNat]
    split <;> simp [ih]

/-- the column numbers of the sorted field list are the sorted column numbers -/
theorem sortFields_snd (l : List (String × Nat)) : (sortFields l).map (·.2) = sortNat (l.map (·.2)) := by
  induction l with
  | nil => rfl
  | cons x xs ih => simp only [sortFields, insertField_snd, ih, List.map_cons, sortNat]

theorem insertField_perm (x : String × Nat) (l : List (String × Nat)) : (insertField x l).Perm (x :: l) := by
  induction l with
  | nil => exact List.Perm.refl _
  | cons y ys ih =>
    simp only [insertField]
    split
    · exact List.Perm.refl _
    · exact (List.Perm.cons y ih).trans (List.Perm.swap x y ys)

theorem sortFields_perm (l : List (String × Nat)) : (sortFields l).Perm l := by
  induction l with
  | nil => exact List.Perm.refl _
  | cons x xs ih => exact (insertField_perm x _).trans (List.Perm.cons x ih)

theorem zip_fst_snd {β γ : Type} (l : List (β × γ)) : (l.map (·.1)).zip (l.map (·.2)) = l := by
  induction l with
  | nil => rfl
  | cons x xs ih => simp [ih]

/-- what the pandas primitive returns when the names are already in ascending column order -/
theorem pandasReadCols_sorted {β : Type} (fs : List (String × Nat)) (row : List β)
    (hs : SortedNat (fs.map (·.2))) (hn : (fs.map (·.2)).Nodup) :
    pandasReadCols (fs.map (·.2)) (fs.map (·.1)) row =
      Bal.mapE (fun nc : String × Nat =>
        match row[nc.2]? with
        | some v => .ok (nc.1, v)
        | none => .error .value) fs := by
  unfold pandasReadCols
  have : ¬ (¬ (fs.map (·.2)).Nodup ∨ (fs.map (·.2)).length ≠ (fs.map (·.1)).length) := by
    simp [hn]
  rw [if_neg this, sortNat_of_sorted _ hs, zip_fst_snd]
  rfl

theorem lookup_of_mapE {β : Type} (fs : List (String × Nat)) (row : List β)
    (hnames : (fs.map (·.1)).Nodup) (hrange : ∀ fc ∈ fs, fc.2 < row.length) :
    ∃ parsed, Bal.mapE (fun nc : String × Nat =>
        match row[nc.2]? with
        | some v => (.ok (nc.1, v) : Except Err (String × β))
        | none => .error .value) fs = .ok parsed ∧
      parsed.map (·.1) = fs.map (·.1) ∧
      ∀ fc ∈ fs, parsed.lookup fc.1 = row[fc.2]? := by
  induction fs with
  | nil => exact ⟨[], rfl, rfl, by simp⟩
  | cons x xs ih =>
    rw [List.map_cons, List.nodup_cons] at hnames
    obtain ⟨parsed, hp, hnm, hl⟩ := ih hnames.2 (fun fc h => hrange fc (List.mem_cons_of_mem _ h))
    have hx : x.2 < row.length := hrange x (List.mem_cons_self)
    refine ⟨(x.1, row[x.2]) :: parsed, ?_, by simp [hnm], ?_⟩
    · simp only [Bal.mapE, List.getElem?_eq_getElem hx, hp]
    · intro fc hfc
      rcases List.mem_cons.mp hfc with rfl | hfc
      · simp [List.lookup, List.getElem?_eq_getElem hx]
      · have hne : fc.1 ≠ x.1 := by
          intro he
          exact hnames.1 (he ▸ List.mem_map_of_mem (f := (·.1)) hfc)
        have : (fc.1 == x.1) = false := by simpa using hne
        simp only [List.lookup, this]
        exact hl fc hfc

/-- **columns_any_layout** (repair D12): for EVERY injective assignment of field names to column
numbers inside the line — ascending or not — the parsed record's field `f` is the line's column
`col f`, and the parsed columns are exactly the declared fields. -/
theorem columns_any_layout {β : Type} (fields : List (String × Nat)) (row : List β)
    (hinj : (fields.map (·.2)).Nodup) (hnames : (fields.map (·.1)).Nodup)
    (hrange : ∀ fc ∈ fields, fc.2 < row.length) :
    ∃ parsed, readFields fields row = .ok parsed ∧
      (parsed.map (·.1)).Perm (fields.map (·.1)) ∧
      ∀ fc ∈ fields, parsed.lookup fc.1 = row[fc.2]? := by
  have hp := sortFields_perm fields
  have hs : SortedNat ((sortFields fields).map (·.2)) := by rw [sortFields_snd]; exact sortNat_sorted _
  have hn : ((sortFields fields).map (·.2)).Nodup := (hp.map _).nodup_iff.mpr hinj
  have hnm : ((sortFields fields).map (·.1)).Nodup := (hp.map _).nodup_iff.mpr hnames
  obtain ⟨parsed, h1, h2, h3⟩ := lookup_of_mapE (sortFields fields) row hnm
    (fun fc h => hrange fc (hp.mem_iff.mp h))
  refine ⟨parsed, ?_, ?_, ?_⟩
  · unfold readFields
    simp only []
    rw [pandasReadCols_sorted _ row hs hn]
    exact h1
  · rw [h2]; exact hp.map _
  · intro fc hfc
    exact h3 fc (hp.mem_iff.mpr hfc)

/-- non-vacuity: a non-monotone layout inside a wider line -/
example : readFields [("chrom1", 4), ("pos1", 1), ("chrom2", 0), ("pos2", 6)] [10, 11, 12, 13, 14, 15, 16]
    = (.ok [("chrom2", 10), ("pos1", 11), ("chrom1", 14), ("pos2", 16)] : Except Err _) := by decide

/-- the statement of `columns_any_layout` for the pre-repair reader -/
def LegacyLayoutStatement : Prop :=
  ∀ (fields : List (String × Nat)) (row : List Nat),
    (fields.map (·.2)).Nodup → (fields.map (·.1)).Nodup → (∀ fc ∈ fields, fc.2 < row.length) →
    ∀ parsed, readFieldsLegacy fields row = .ok parsed → ∀ fc ∈ fields, parsed.lookup fc.1 = row[fc.2]?

/-- **without the sort the statement fails**: `-c1 3 -p1 2 -c2 1 -p2 4` reads `chrom1` from column 1 -/
theorem columns_legacy_fails : ¬ LegacyLayoutStatement := by
  intro h
  have := h [("chrom1", 2), ("pos1", 1), ("chrom2", 0), ("pos2", 3)] [10, 11, 12, 13]
    (by decide) (by decide) (by decide)
    [("chrom1", 10), ("pos1", 11), ("chrom2", 12), ("pos2", 13)] (by decide) ("chrom1", 2) (by simp)
  revert this
  decide

/-- for ascending layouts the two readers coincide (why the defect went unnoticed) -/
theorem legacy_eq_of_ascending {β : Type} (fields : List (String × Nat)) (row : List β)
    (h : SortedNat (fields.map (·.2))) (hinj : (fields.map (·.2)).Nodup) :
    readFieldsLegacy fields row = readFields fields row := by
  have hs : sortFields fields = fields := by
    clear hinj
    induction fields with
    | nil => rfl
    | cons x xs ih =>
      unfold SortedNat at h ih
      rw [List.map_cons, List.pairwise_cons] at h
      simp only [sortFields, ih h.2]
      cases xs with
      | nil => rfl
      | cons y ys =>
        have : x.2 ≤ y.2 := h.1 y.2 (by simp)
        simp [insertField, this]
  unfold readFields readFieldsLegacy
  simp only [hs]

end Cooler.C16
