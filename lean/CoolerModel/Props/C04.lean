import CoolerModel.Model.Extent
import CoolerModel.Props.C20
import CoolerModel.Props.CSRLemmas
/-!
# C04 — genomic ranges map to exactly the bins that cover them

Property theorems only.  Every statement is about the definitions of `Model/Bins.lean`
(`extentFixed`, `extentVar`, `regionToExtent`, `gsFetch`, `parseRegionTriple`, `overlapping`) and
`Model/Extent.lean` (`regionToExtentIdx`, `pixelsFetch`, `gsFetchAbs`, `runOk`, `selOk`), which the
correspondence harness executes against `cooler.core.region_to_extent`, `Cooler.extent/offset`,
`bins()/pixels()/matrix().fetch`, `GenomeSegmentation.fetch` and `bedslice`.

Layout: per chromosome group `g` with `ValidChrom g` and `L = lastStop g` (positions relative to
the group) — `ssRight_iff`/`ssLeft_iff`, `extent_var_correct`, `extent_fixed_correct`,
`extent_empty_var`/`extent_empty_fixed`, `shortest_cover`, `gsFetch_correct`/`gsFetch_empty`,
`parseRegion_bounds`; then the lift to absolute bin ids on a whole chromosome-sorted table —
`lift_run`, `extent_fixed_sound`, `extent_table_correct`, `extent_table_empty`,
`regionToExtent_ok`, `gsFetchAbs_ok`, `regionToExtentIdx_eq`, `pixelsFetch_correct`.
No bound on the number of chromosomes, bins or coordinates anywhere.
Last: the one-pass forms of the L0 verdicts the driver evaluates on tables with 10^5 bins are the
verdicts themselves (`idsWhere_eq`, `overlappingF_eq`, `containingF_eq`, `selOkF_eq`, `runOkF_eq`,
`pxSelOkF_eq`, `offsetOkF_eq`), and the rules under which a search of a sorted column may proceed one
chunk at a time (`ssLeft_append`/`ssRight_append`, `ssLeft_stop`/`ssRight_stop`, `ssLeft_skip`/`ssRight_skip`).
-/
set_option linter.unusedVariables false
set_option linter.unusedSimpArgs false

namespace Cooler.C04
open Cooler

/-- counting a downward-closed predicate along a sorted list -/
theorem lt_countP_iff (p : Nat → Bool) (hp : ∀ x y, x ≤ y → p y = true → p x = true) :
    ∀ (xs : List Nat), xs.Pairwise (· < ·) → ∀ (k : Nat) (hk : k < xs.length),
      (k < xs.countP p ↔ p xs[k] = true) := by
  intro xs
  induction xs with
  | nil => intro _ k hk; simp at hk
  | cons x rest ih =>
    intro hs k hk
    have hx : ∀ y ∈ rest, x < y := (List.pairwise_cons.mp hs).1
    have hs' := (List.pairwise_cons.mp hs).2
    have hzero : p x = false → rest.countP p = 0 := by
      intro hpx
      rw [List.countP_eq_zero]
      intro y hy hpy
      have := hp x y (Nat.le_of_lt (hx y hy)) hpy
      simp [hpx] at this
    rw [List.countP_cons]
    cases k with
    | zero =>
      simp only [List.getElem_cons_zero]
      cases hpx : p x with
      | true => simp
      | false => simp [hzero hpx]
    | succ k =>
      simp only [List.getElem_cons_succ]
      have hk' : k < rest.length := by simpa using hk
      cases hpx : p x with
      | true =>
        simp only [if_true]
        rw [← ih hs' k hk']
        omega
      | false =>
        simp only [hzero hpx, Bool.false_eq_true, if_false]
        constructor
        · intro h; omega
        · intro h
          have := hp x rest[k] (Nat.le_of_lt (hx _ (List.getElem_mem hk'))) h
          simp [hpx] at this

theorem ssRight_iff (xs : List Nat) (hs : xs.Pairwise (· < ·)) (s k : Nat) (hk : k < xs.length) :
    xs[k] ≤ s ↔ k < ssRight xs s := by
  unfold ssRight
  rw [lt_countP_iff _ (by intro x y hxy h; simp at h ⊢; omega) xs hs k hk]
  simp

theorem ssLeft_iff (xs : List Nat) (hs : xs.Pairwise (· < ·)) (e k : Nat) (hk : k < xs.length) :
    xs[k] < e ↔ k < ssLeft xs e := by
  unfold ssLeft
  rw [lt_countP_iff _ (by intro x y hxy h; simp at h ⊢; omega) xs hs k hk]
  simp

theorem ssRight_le_length (xs : List Nat) (s : Nat) : ssRight xs s ≤ xs.length := List.countP_le_length
theorem ssLeft_le_length (xs : List Nat) (s : Nat) : ssLeft xs s ≤ xs.length := List.countP_le_length

theorem tiles_mem : ∀ (g : List Bin) (s0 : Nat), TilesFrom s0 g →
    ∀ x ∈ g, s0 ≤ x.start ∧ x.start < x.stop := by
  intro g
  induction g with
  | nil => intro _ _ x hx; simp at hx
  | cons b rest ih =>
    intro s0 ht x hx
    obtain ⟨h1, h2, h3⟩ := ht
    rcases List.mem_cons.mp hx with h | h
    · subst h; omega
    · have := ih b.stop h3 x h; omega

theorem tiles_starts_sorted : ∀ (g : List Bin) (s0 : Nat), TilesFrom s0 g →
    (g.map Bin.start).Pairwise (· < ·) := by
  intro g
  induction g with
  | nil => intro _ _; simp
  | cons b rest ih =>
    intro s0 ht
    obtain ⟨h1, h2, h3⟩ := ht
    simp only [List.map_cons, List.pairwise_cons]
    refine ⟨?_, ih b.stop h3⟩
    intro y hy
    obtain ⟨x, hx, rfl⟩ := List.mem_map.mp hy
    have := tiles_mem rest b.stop h3 x hx
    omega

theorem tiles_stops_sorted : ∀ (g : List Bin) (s0 : Nat), TilesFrom s0 g →
    (g.map Bin.stop).Pairwise (· < ·) := by
  intro g
  induction g with
  | nil => intro _ _; simp
  | cons b rest ih =>
    intro s0 ht
    obtain ⟨h1, h2, h3⟩ := ht
    simp only [List.map_cons, List.pairwise_cons]
    refine ⟨?_, ih b.stop h3⟩
    intro y hy
    obtain ⟨x, hx, rfl⟩ := List.mem_map.mp hy
    have := tiles_mem rest b.stop h3 x hx
    omega

theorem tiles_pos (g : List Bin) (s0 : Nat) (ht : TilesFrom s0 g) (k : Nat) (hk : k < g.length) :
    g[k].start < g[k].stop := (tiles_mem g s0 ht g[k] (List.getElem_mem hk)).2

theorem tiles_head (g : List Bin) (s0 : Nat) (ht : TilesFrom s0 g) (h : 0 < g.length) :
    g[0].start = s0 := by
  cases g with
  | nil => simp at h
  | cons b rest => exact ht.1

theorem tiles_next : ∀ (g : List Bin) (s0 : Nat), TilesFrom s0 g →
    ∀ (k : Nat) (h : k + 1 < g.length), g[k].stop = g[k + 1].start := by
  intro g
  induction g with
  | nil => intro _ _ k h; simp at h
  | cons b rest ih =>
    intro s0 ht k h
    obtain ⟨h1, h2, h3⟩ := ht
    cases k with
    | zero =>
      simp only [List.getElem_cons_zero, List.getElem_cons_succ]
      exact (tiles_head rest b.stop h3 (by simpa using h)).symm
    | succ k =>
      simp only [List.getElem_cons_succ]
      exact ih b.stop h3 k (by simpa using h)

theorem lastStop_eq (g : List Bin) (h : 0 < g.length) : lastStop g = g[g.length - 1].stop := by
  unfold lastStop
  rw [List.getLast?_eq_getElem?]
  simp only [List.length_map]
  rw [List.getElem?_eq_getElem (by simp; omega)]
  simp

/-- every bin of a valid chromosome ends at or before the chromosome end -/
theorem tiles_stop_le (g : List Bin) (s0 : Nat) (ht : TilesFrom s0 g) (k : Nat) (hk : k < g.length) :
    g[k].stop ≤ lastStop g := by
  have hs := tiles_stops_sorted g s0 ht
  rw [lastStop_eq g (by omega)]
  by_cases h : k = g.length - 1
  · subst h; exact Nat.le_refl _
  · have := List.pairwise_iff_getElem.mp hs k (g.length - 1) (by simp; omega) (by simp; omega) (by omega)
    simp only [List.getElem_map] at this
    omega


/-! ## variable-width path -/

theorem one_le_ssRight (g : List Bin) (hv : ValidChrom g) (s : Nat) :
    1 ≤ ssRight (g.map Bin.start) s := by
  obtain ⟨hne, ht⟩ := hv
  have hlen : 0 < g.length := List.length_pos_iff.mpr hne
  have h0 := tiles_head g 0 ht hlen
  have := (ssRight_iff (g.map Bin.start) (tiles_starts_sorted g 0 ht) s 0 (by simpa using hlen)).mp
    (by simp [h0])
  omega

/-- membership in the run `[ssRight starts s - 1, ssLeft starts e)` for a position `s` inside the
chromosome (`s < L`, or `s ≤ L` on the last bin) -/
theorem var_lo_iff (g : List Bin) (hv : ValidChrom g) (s : Nat) (k : Nat) (hk : k < g.length) :
    ssRight (g.map Bin.start) s - 1 ≤ k ↔ (s < g[k].stop ∨ k + 1 = g.length) := by
  obtain ⟨hne, ht⟩ := hv
  have hsorted := tiles_starts_sorted g 0 ht
  have hle := ssRight_le_length (g.map Bin.start) s
  simp only [List.length_map] at hle
  by_cases hlast : k + 1 < g.length
  · have hiff := ssRight_iff (g.map Bin.start) hsorted s (k + 1) (by simpa using hlast)
    simp only [List.getElem_map] at hiff
    rw [← tiles_next g 0 ht k hlast] at hiff
    constructor
    · intro h; left
      have : ¬ (k + 1 < ssRight (g.map Bin.start) s) := by omega
      have := mt hiff.mp this
      omega
    · intro h
      rcases h with h | h
      · have : ¬ (g[k].stop ≤ s) := by omega
        have := mt hiff.mpr this
        omega
      · omega
  · constructor
    · intro _; right; omega
    · intro _; omega

/-- **extent_var_correct** -/
theorem extent_var_correct (g : List Bin) (hv : ValidChrom g) (s e : Nat) (hse : s < e)
    (heL : e ≤ lastStop g) :
    1 ≤ ssRight (g.map Bin.start) s ∧ ssLeft (g.map Bin.start) e ≤ g.length ∧
    ∀ (k : Nat) (hk : k < g.length),
      (ssRight (g.map Bin.start) s - 1 ≤ k ∧ k < ssLeft (g.map Bin.start) e) ↔
        (g[k].start < e ∧ s < g[k].stop) := by
  refine ⟨one_le_ssRight g hv s, by simpa using ssLeft_le_length (g.map Bin.start) e, ?_⟩
  intro k hk
  have hlo := var_lo_iff g hv s k hk
  obtain ⟨hne, ht⟩ := hv
  have hhi := ssLeft_iff (g.map Bin.start) (tiles_starts_sorted g 0 ht) e k (by simpa using hk)
  simp only [List.getElem_map] at hhi
  rw [hlo, ← hhi]
  constructor
  · rintro ⟨h1, h2⟩
    refine ⟨h2, ?_⟩
    rcases h1 with h1 | h1
    · exact h1
    · have := lastStop_eq g (by omega)
      have hk' : g.length - 1 = k := by omega
      simp only [hk'] at this
      omega
  · rintro ⟨h1, h2⟩
    exact ⟨Or.inl h2, h1⟩

example : ValidChrom [(⟨0, 0, 2⟩ : Bin), ⟨0, 2, 7⟩, ⟨0, 7, 8⟩] ∧ (3 : Nat) < 7 ∧
    7 ≤ lastStop [(⟨0, 0, 2⟩ : Bin), ⟨0, 2, 7⟩, ⟨0, 7, 8⟩] ∧
    extentVar 0 ([(⟨0, 0, 2⟩ : Bin), ⟨0, 2, 7⟩, ⟨0, 7, 8⟩].map Bin.start) 3 7 = (1, 2) := by decide


/-! ## fixed-width path -/

theorem lt_ceilDiv_iff {b : Nat} (hb : 1 ≤ b) (k e : Nat) : k < ceilDiv e b ↔ k * b < e := by
  unfold ceilDiv
  have : k < (e + b - 1) / b ↔ k + 1 ≤ (e + b - 1) / b := by omega
  rw [this, Nat.le_div_iff_mul_le (by omega), Nat.add_mul]
  omega

theorem div_le_iff {b : Nat} (hb : 1 ≤ b) (s k : Nat) : s / b ≤ k ↔ s < (k + 1) * b := by
  have : s / b ≤ k ↔ s / b < k + 1 := by omega
  rw [this, Nat.div_lt_iff_lt_mul (by omega)]

theorem uniform_get : ∀ (g : List Bin) (b L k0 : Nat), UniformFrom b L k0 g →
    ∀ (k : Nat) (hk : k < g.length),
      g[k].start = (k0 + k) * b ∧ g[k].stop = min ((k0 + k + 1) * b) L := by
  intro g
  induction g with
  | nil => intro _ _ _ _ k hk; simp at hk
  | cons x rest ih =>
    intro b L k0 hu k hk
    obtain ⟨h1, h2, h3⟩ := hu
    cases k with
    | zero => simp [h1, h2]
    | succ k =>
      simp only [List.getElem_cons_succ]
      have := ih b L (k0 + 1) h3 k (by simpa using hk)
      have e1 : k0 + 1 + k = k0 + (k + 1) := by omega
      rw [e1] at this
      exact this

/-- a uniform valid chromosome has at least `L / b` (rounded up) bins: `L ≤ length · b` -/
theorem uniform_len (g : List Bin) (b : Nat) (hv : ValidChrom g) (hu : UniformChrom b g) :
    lastStop g ≤ g.length * b := by
  obtain ⟨hne, ht⟩ := hv
  have hlen : 0 < g.length := List.length_pos_iff.mpr hne
  have h := (uniform_get g b (lastStop g) 0 hu (g.length - 1) (by omega)).2
  rw [← lastStop_eq g hlen] at h
  have e1 : 0 + (g.length - 1) + 1 = g.length := by omega
  rw [e1] at h
  omega

/-- **extent_fixed_correct** -/
theorem extent_fixed_correct (g : List Bin) (b : Nat) (hv : ValidChrom g) (hu : UniformChrom b g)
    (hb : 1 ≤ b) (s e : Nat) (hse : s < e) (heL : e ≤ lastStop g) :
    ceilDiv e b ≤ g.length ∧
    ∀ (k : Nat) (hk : k < g.length),
      (s / b ≤ k ∧ k < ceilDiv e b) ↔ (g[k].start < e ∧ s < g[k].stop) := by
  have hL := uniform_len g b hv hu
  constructor
  · apply Nat.le_of_not_lt
    intro h
    have := (lt_ceilDiv_iff hb g.length e).mp h
    omega
  · intro k hk
    obtain ⟨h1, h2⟩ := uniform_get g b (lastStop g) 0 hu k hk
    simp only [Nat.zero_add] at h1 h2
    rw [h1, h2, lt_ceilDiv_iff hb, div_le_iff hb]
    omega

example : ValidChrom [(⟨0, 0, 3⟩ : Bin), ⟨0, 3, 6⟩, ⟨0, 6, 8⟩] ∧
    UniformChrom 3 [(⟨0, 0, 3⟩ : Bin), ⟨0, 3, 6⟩, ⟨0, 6, 8⟩] ∧ (2 : Nat) < 7 ∧
    7 ≤ lastStop [(⟨0, 0, 3⟩ : Bin), ⟨0, 3, 6⟩, ⟨0, 6, 8⟩] ∧ extentFixed 0 3 2 7 = (0, 3) := by decide


/-! ## empty ranges -/

theorem ssLeft_le_ssRight (xs : List Nat) (s : Nat) : ssLeft xs s ≤ ssRight xs s := by
  unfold ssLeft ssRight
  apply List.countP_mono_left
  intro x _ h
  simp at h ⊢; omega

theorem ssRight_le_ssLeft_succ (xs : List Nat) (hs : xs.Pairwise (· < ·)) (s : Nat) :
    ssRight xs s ≤ ssLeft xs s + 1 := by
  apply Nat.le_of_not_lt
  intro h
  have hlen := ssRight_le_length xs s
  have hm : ssLeft xs s < xs.length := by omega
  have hm1 : ssLeft xs s + 1 < xs.length := by omega
  have a1 := (ssRight_iff xs hs s (ssLeft xs s + 1) hm1).mpr (by omega)
  have a2 := mt (ssLeft_iff xs hs s (ssLeft xs s) hm).mp (by omega)
  have a3 := List.pairwise_iff_getElem.mp hs (ssLeft xs s) (ssLeft xs s + 1) hm hm1 (by omega)
  omega

/-- **extent_empty** (variable-width path): for a position `s ≤ L` the run
`[ssRight starts s - 1, ssLeft starts s)` has at most one bin, lies inside the chromosome, and if it
has one bin that bin satisfies `start < s ≤ stop`. -/
theorem extent_empty_var (g : List Bin) (hv : ValidChrom g) (s : Nat) (hsL : s ≤ lastStop g) :
    1 ≤ ssRight (g.map Bin.start) s ∧
    ssRight (g.map Bin.start) s - 1 ≤ ssLeft (g.map Bin.start) s ∧
    ssLeft (g.map Bin.start) s ≤ (ssRight (g.map Bin.start) s - 1) + 1 ∧
    ssLeft (g.map Bin.start) s ≤ g.length ∧
    (ssLeft (g.map Bin.start) s = (ssRight (g.map Bin.start) s - 1) + 1 →
      ∃ (hk : ssRight (g.map Bin.start) s - 1 < g.length),
        g[ssRight (g.map Bin.start) s - 1].start < s ∧ s ≤ g[ssRight (g.map Bin.start) s - 1].stop) := by
  have h1 := one_le_ssRight g hv s
  have hsorted := tiles_starts_sorted g 0 hv.2
  have h2 := ssLeft_le_ssRight (g.map Bin.start) s
  have h3 := ssRight_le_ssLeft_succ (g.map Bin.start) hsorted s
  have h4 : ssLeft (g.map Bin.start) s ≤ g.length := by simpa using ssLeft_le_length (g.map Bin.start) s
  have h5 : ssRight (g.map Bin.start) s ≤ g.length := by simpa using ssRight_le_length (g.map Bin.start) s
  refine ⟨h1, by omega, by omega, h4, ?_⟩
  intro heq
  have hk : ssRight (g.map Bin.start) s - 1 < g.length := by omega
  refine ⟨hk, ?_, ?_⟩
  · have := (ssLeft_iff (g.map Bin.start) hsorted s (ssRight (g.map Bin.start) s - 1) (by simpa using hk)).mpr
      (by omega)
    simpa using this
  · have := (var_lo_iff g hv s (ssRight (g.map Bin.start) s - 1) hk).mp (Nat.le_refl _)
    rcases this with h | h
    · omega
    · have hl := lastStop_eq g (by omega)
      have e1 : g.length - 1 = ssRight (g.map Bin.start) s - 1 := by omega
      simp only [e1] at hl
      omega

example : ValidChrom [(⟨0, 0, 2⟩ : Bin), ⟨0, 2, 4⟩] ∧
    -- on a bin boundary: no bin;  inside a bin: that bin;  at the chromosome end: the last bin
    extentVar 0 ([(⟨0, 0, 2⟩ : Bin), ⟨0, 2, 4⟩].map Bin.start) 2 2 = (1, 1) ∧
    extentVar 0 ([(⟨0, 0, 2⟩ : Bin), ⟨0, 2, 4⟩].map Bin.start) 3 3 = (1, 2) ∧
    extentVar 0 ([(⟨0, 0, 2⟩ : Bin), ⟨0, 2, 4⟩].map Bin.start) 4 4 = (1, 2) ∧
    extentVar 0 ([(⟨0, 0, 2⟩ : Bin), ⟨0, 2, 4⟩].map Bin.start) 0 0 = (0, 0) := by decide

theorem div_le_ceilDiv {b : Nat} (hb : 1 ≤ b) (s : Nat) : s / b ≤ ceilDiv s b := by
  apply Nat.le_of_not_lt
  intro h
  have h1 : ceilDiv s b + 1 ≤ s / b := h
  rw [Nat.le_div_iff_mul_le (by omega), Nat.add_mul] at h1
  have := (lt_ceilDiv_iff hb (ceilDiv s b) s).mpr (by omega)
  omega

theorem ceilDiv_le_div_succ {b : Nat} (hb : 1 ≤ b) (s : Nat) : ceilDiv s b ≤ s / b + 1 := by
  apply Nat.le_of_not_lt
  intro h
  have h1 := (lt_ceilDiv_iff hb (s / b + 1) s).mp h
  have h2 := (div_le_iff hb s (s / b)).mp (Nat.le_refl _)
  omega

/-- **extent_empty** (fixed-width path): `[s / b, ceilDiv s b)` has at most one bin, lies inside the
chromosome, and if it has one bin that bin satisfies `start < s ≤ stop` (`start ≤ s ≤ stop`). -/
theorem extent_empty_fixed (g : List Bin) (b : Nat) (hv : ValidChrom g) (hu : UniformChrom b g)
    (hb : 1 ≤ b) (s : Nat) (hsL : s ≤ lastStop g) :
    s / b ≤ ceilDiv s b ∧ ceilDiv s b ≤ s / b + 1 ∧ ceilDiv s b ≤ g.length ∧
    (ceilDiv s b = s / b + 1 →
      ∃ (hk : s / b < g.length), g[s / b].start ≤ s ∧ s ≤ g[s / b].stop) := by
  have hL := uniform_len g b hv hu
  have hlen : ceilDiv s b ≤ g.length := by
    apply Nat.le_of_not_lt
    intro h
    have := (lt_ceilDiv_iff hb g.length s).mp h
    omega
  refine ⟨div_le_ceilDiv hb s, ceilDiv_le_div_succ hb s, hlen, ?_⟩
  intro heq
  have hk : s / b < g.length := by omega
  refine ⟨hk, ?_, ?_⟩
  · have := (uniform_get g b (lastStop g) 0 hu (s / b) hk).1
    rw [this, Nat.zero_add]
    exact Nat.div_mul_le_self s b
  · have := (uniform_get g b (lastStop g) 0 hu (s / b) hk).2
    rw [this, Nat.zero_add]
    have h2 := (div_le_iff hb s (s / b)).mp (Nat.le_refl _)
    omega

example : UniformChrom 2 [(⟨0, 0, 2⟩ : Bin), ⟨0, 2, 4⟩, ⟨0, 4, 5⟩] ∧
    extentFixed 0 2 2 2 = (1, 1) ∧ extentFixed 0 2 3 3 = (1, 2) ∧ extentFixed 0 2 4 4 = (2, 2) ∧
    extentFixed 0 2 5 5 = (2, 3) ∧ extentFixed 0 2 0 0 = (0, 0) := by decide


/-! ## the selected run is the shortest covering run -/

theorem tiles_stop_le_start (g : List Bin) (s0 : Nat) (ht : TilesFrom s0 g) (i j : Nat) (hij : i < j)
    (hj : j < g.length) : g[i].stop ≤ g[j].start := by
  rw [tiles_next g s0 ht i (by omega)]
  by_cases h : i + 1 = j
  · subst h; exact Nat.le_refl _
  · have hs := tiles_starts_sorted g s0 ht
    have := List.pairwise_iff_getElem.mp hs (i + 1) j (by simp; omega) (by simpa using hj) (by omega)
    simp only [List.getElem_map] at this
    omega

/-- some bin overlaps every non-empty range inside the chromosome -/
theorem exists_overlap (g : List Bin) (hv : ValidChrom g) (s e : Nat) (hse : s < e)
    (heL : e ≤ lastStop g) : ∃ (k : Nat) (hk : k < g.length), g[k].start < e ∧ s < g[k].stop := by
  obtain ⟨h1, h2, h3⟩ := extent_var_correct g hv s e hse heL
  have h5 : ssRight (g.map Bin.start) s ≤ g.length := by simpa using ssRight_le_length (g.map Bin.start) s
  have hk : ssRight (g.map Bin.start) s - 1 < g.length := by omega
  have hsorted := tiles_starts_sorted g 0 hv.2
  have hst := (ssRight_iff (g.map Bin.start) hsorted s _ (by simpa using hk)).mpr (by omega)
  simp only [List.getElem_map] at hst
  have hhi := (ssLeft_iff (g.map Bin.start) hsorted e _ (by simpa using hk)).mp (by simp; omega)
  exact ⟨_, hk, (h3 _ hk).mp ⟨Nat.le_refl _, hhi⟩⟩

/-- **shortest_cover**: a run `[lo, hi)` that consists exactly of the bins overlapping `[s, e)` is
non-empty, covers `[s, e)` (`start_lo ≤ s`, `e ≤ stop_{hi-1}`; consecutive bins of a tiling leave no
gap), and every run of consecutive bins covering `[s, e)` contains it: it is the shortest one. -/
theorem shortest_cover (g : List Bin) (hv : ValidChrom g) (s e : Nat) (hse : s < e)
    (heL : e ≤ lastStop g) (lo hi : Nat) (hhi : hi ≤ g.length)
    (hex : ∀ (k : Nat) (hk : k < g.length), (lo ≤ k ∧ k < hi) ↔ (g[k].start < e ∧ s < g[k].stop)) :
    ∃ (hlt : lo < hi), g[lo].start ≤ s ∧ e ≤ g[hi - 1].stop ∧
      ∀ (lo' hi' : Nat) (h : lo' < hi') (h' : hi' ≤ g.length),
        g[lo'].start ≤ s → e ≤ g[hi' - 1].stop → lo' ≤ lo ∧ hi ≤ hi' := by
  obtain ⟨hne, ht⟩ := hv
  obtain ⟨k0, hk0, hov⟩ := exists_overlap g ⟨hne, ht⟩ s e hse heL
  have hin := (hex k0 hk0).mpr hov
  have hlt : lo < hi := by omega
  have hlo := (hex lo (by omega)).mp ⟨Nat.le_refl _, hlt⟩
  have hhi1 := (hex (hi - 1) (by omega)).mp ⟨by omega, by omega⟩
  refine ⟨hlt, ?_, ?_, ?_⟩
  · by_cases h0 : lo = 0
    · subst h0
      have := tiles_head g 0 ht (by omega)
      omega
    · have hn := mt (hex (lo - 1) (by omega)).mpr (by omega)
      have hnx := tiles_next g 0 ht (lo - 1) (by omega)
      have hp := tiles_pos g 0 ht (lo - 1) (by omega)
      have e1 : lo - 1 + 1 = lo := by omega
      simp only [e1] at hnx
      omega
  · by_cases hl : hi = g.length
    · have := lastStop_eq g (by omega)
      subst hl
      omega
    · have hn := mt (hex hi (by omega)).mpr (by omega)
      have hnx := tiles_next g 0 ht (hi - 1) (by omega)
      have hp := tiles_pos g 0 ht hi (by omega)
      have e1 : hi - 1 + 1 = hi := by omega
      simp only [e1] at hnx
      omega
  · intro lo' hi' h h' hc1 hc2
    constructor
    · apply Nat.le_of_not_lt
      intro hcon
      have := tiles_stop_le_start g 0 ht lo lo' hcon (by omega)
      omega
    · apply Nat.le_of_not_lt
      intro hcon
      have := tiles_stop_le_start g 0 ht (hi' - 1) (hi - 1) (by omega) (by omega)
      omega

/-! ## GenomeSegmentation.fetch / bedslice -/

/-- **gsFetch_correct**: `GenomeSegmentation.fetch`/`bedslice` select exactly the bins overlapping
`[s, e)`, on the `searchsorted` branch and on the whole-chromosome shortcut. -/
theorem gsFetch_correct (g : List Bin) (hv : ValidChrom g) (s e : Nat) (hse : s < e)
    (heL : e ≤ lastStop g) :
    (gsFetch g (lastStop g) s e).2 ≤ g.length ∧
    ∀ (k : Nat) (hk : k < g.length),
      ((gsFetch g (lastStop g) s e).1 ≤ k ∧ k < (gsFetch g (lastStop g) s e).2) ↔
        (g[k].start < e ∧ s < g[k].stop) := by
  obtain ⟨hne, ht⟩ := hv
  unfold gsFetch
  split
  · -- searchsorted branch
    simp only
    have hstops := tiles_stops_sorted g 0 ht
    have hstarts := tiles_starts_sorted g 0 ht
    have hlo_le : ssRight (g.map Bin.stop) s ≤ g.length := by
      simpa using ssRight_le_length (g.map Bin.stop) s
    have hdrop : ((g.map Bin.start).drop (ssRight (g.map Bin.stop) s)).Pairwise (· < ·) :=
      hstarts.sublist (List.drop_sublist _ _)
    have hdl : ((g.map Bin.start).drop (ssRight (g.map Bin.stop) s)).length
        = g.length - ssRight (g.map Bin.stop) s := by simp
    constructor
    · have := ssLeft_le_length ((g.map Bin.start).drop (ssRight (g.map Bin.stop) s)) e
      omega
    · intro k hk
      have hlo := ssRight_iff (g.map Bin.stop) hstops s k (by simpa using hk)
      simp only [List.getElem_map] at hlo
      by_cases hkl : k < ssRight (g.map Bin.stop) s
      · have := hlo.mpr hkl
        constructor
        · intro h; omega
        · intro h; omega
      · have hnot := mt hlo.mp hkl
        have hj : k - ssRight (g.map Bin.stop) s
            < ((g.map Bin.start).drop (ssRight (g.map Bin.stop) s)).length := by omega
        have hhi := ssLeft_iff _ hdrop e (k - ssRight (g.map Bin.stop) s) hj
        simp only [List.getElem_drop, List.getElem_map] at hhi
        have e1 : ssRight (g.map Bin.stop) s + (k - ssRight (g.map Bin.stop) s) = k := by omega
        simp only [e1] at hhi
        rw [hhi]
        omega
  · -- whole chromosome: s = 0 and e = L
    rename_i hcond
    simp only
    refine ⟨Nat.le_refl _, ?_⟩
    intro k hk
    have hp := tiles_pos g 0 ht k hk
    have hle := tiles_stop_le g 0 ht k hk
    omega

example : ValidChrom [(⟨0, 0, 2⟩ : Bin), ⟨0, 2, 7⟩, ⟨0, 7, 8⟩] ∧
    gsFetch [(⟨0, 0, 2⟩ : Bin), ⟨0, 2, 7⟩, ⟨0, 7, 8⟩] 8 2 7 = (1, 2) ∧
    gsFetch [(⟨0, 0, 2⟩ : Bin), ⟨0, 2, 7⟩, ⟨0, 7, 8⟩] 8 0 8 = (0, 3) ∧
    gsFetch [(⟨0, 0, 2⟩ : Bin), ⟨0, 2, 7⟩, ⟨0, 7, 8⟩] 8 1 3 = (0, 2) := by decide


theorem lastStop_pos (g : List Bin) (hv : ValidChrom g) : 0 < lastStop g := by
  obtain ⟨hne, ht⟩ := hv
  have hlen : 0 < g.length := List.length_pos_iff.mpr hne
  have := tiles_pos g 0 ht (g.length - 1) (by omega)
  rw [lastStop_eq g hlen]; omega

/-- `GenomeSegmentation.fetch` on an empty range: at most one bin, and then the bin that strictly
contains the position (`start < s < stop`); nothing on a bin boundary, at 0 or at the end. -/
theorem gsFetch_empty (g : List Bin) (hv : ValidChrom g) (s : Nat) (hsL : s ≤ lastStop g) :
    (gsFetch g (lastStop g) s s).1 ≤ (gsFetch g (lastStop g) s s).2 ∧
    (gsFetch g (lastStop g) s s).2 ≤ (gsFetch g (lastStop g) s s).1 + 1 ∧
    (gsFetch g (lastStop g) s s).2 ≤ g.length ∧
    ((gsFetch g (lastStop g) s s).2 = (gsFetch g (lastStop g) s s).1 + 1 →
      ∃ (hk : (gsFetch g (lastStop g) s s).1 < g.length),
        g[(gsFetch g (lastStop g) s s).1].start < s ∧ s < g[(gsFetch g (lastStop g) s s).1].stop) := by
  have hLpos := lastStop_pos g hv
  obtain ⟨hne, ht⟩ := hv
  have hc : s > 0 ∨ s < lastStop g := by omega
  unfold gsFetch
  simp only [hc, if_true]
  have hstops := tiles_stops_sorted g 0 ht
  have hstarts := tiles_starts_sorted g 0 ht
  have hlo_le : ssRight (g.map Bin.stop) s ≤ g.length := by
    simpa using ssRight_le_length (g.map Bin.stop) s
  have hdrop : ((g.map Bin.start).drop (ssRight (g.map Bin.stop) s)).Pairwise (· < ·) :=
    hstarts.sublist (List.drop_sublist _ _)
  have hdl : ((g.map Bin.start).drop (ssRight (g.map Bin.stop) s)).length
      = g.length - ssRight (g.map Bin.stop) s := by simp
  have hcnt := ssLeft_le_length ((g.map Bin.start).drop (ssRight (g.map Bin.stop) s)) s
  have hle1 : ssLeft ((g.map Bin.start).drop (ssRight (g.map Bin.stop) s)) s ≤ 1 := by
    apply Nat.le_of_not_lt
    intro h2
    have hj : 1 < ((g.map Bin.start).drop (ssRight (g.map Bin.stop) s)).length := by omega
    have h := (ssLeft_iff _ hdrop s 1 hj).mpr (by omega)
    simp only [List.getElem_drop, List.getElem_map] at h
    have hk : ssRight (g.map Bin.stop) s < g.length := by omega
    have hno := mt (ssRight_iff (g.map Bin.stop) hstops s _ (by simpa using hk)).mp (Nat.lt_irrefl _)
    simp only [List.getElem_map] at hno
    have := tiles_next g 0 ht (ssRight (g.map Bin.stop) s) (by omega)
    omega
  refine ⟨by omega, by omega, by omega, ?_⟩
  intro heq
  have hk : ssRight (g.map Bin.stop) s < g.length := by omega
  refine ⟨hk, ?_, ?_⟩
  · have hj : 0 < ((g.map Bin.start).drop (ssRight (g.map Bin.stop) s)).length := by omega
    have h := (ssLeft_iff _ hdrop s 0 hj).mpr (by omega)
    simpa using h
  · have hno := mt (ssRight_iff (g.map Bin.stop) hstops s _ (by simpa using hk)).mp (Nat.lt_irrefl _)
    simp only [List.getElem_map] at hno
    omega

/-! ## parse_region -/

/-- **parseRegion_bounds**: with a known chromosome length `L`, `parse_region` accepts exactly
`0 ≤ s ≤ e ≤ L` (a missing start is 0, a missing end is `L`) and returns the pair unchanged;
everything else (`e > L`, `s < 0`, `e < s`) is a `ValueError`. -/
theorem parseRegion_bounds (L : Nat) (s e : Option Int) :
    ((0 ≤ s.getD 0 ∧ s.getD 0 ≤ e.getD L ∧ e.getD L ≤ L) →
      parseRegionTriple (some L) s e = .ok ((s.getD 0).toNat, (e.getD (L : Int)).toNat)) ∧
    (¬ (0 ≤ s.getD 0 ∧ s.getD 0 ≤ e.getD L ∧ e.getD L ≤ L) →
      parseRegionTriple (some L) s e = .error .value) := by
  cases e with
  | none =>
    simp only [parseRegionTriple, Option.map_some, Option.getD_none]
    constructor
    · rintro ⟨h1, h2, _⟩
      simp [show ¬ ((L : Int) < s.getD 0) by omega, show ¬ (s.getD 0 < 0) by omega]
    · intro h
      by_cases h1 : (L : Int) < s.getD 0
      · simp [h1]
      · by_cases h2 : s.getD 0 < 0
        · simp [h1, h2]
        · exfalso; apply h; omega
  | some e =>
    simp only [parseRegionTriple, Option.getD_some]
    constructor
    · rintro ⟨h1, h2, h3⟩
      simp [show ¬ (e < s.getD 0) by omega, show ¬ (s.getD 0 < 0) by omega, show ¬ (e > (L : Int)) by omega]
    · intro h
      by_cases h1 : e < s.getD 0
      · simp [h1]
      · by_cases h2 : s.getD 0 < 0
        · simp [h1, h2]
        · by_cases h3 : e > (L : Int)
          · simp [h1, h2, h3]
          · exfalso; apply h; omega

/-- whole-chromosome and open-ended forms denote `(0, L)` / `(s, L)` -/
theorem parseRegion_defaults (L : Nat) (s : Nat) (hs : s ≤ L) :
    parseRegionTriple (some L) none none = .ok (0, L) ∧
    parseRegionTriple (some L) (some (s : Int)) none = .ok (s, L) := by
  constructor
  · have := (parseRegion_bounds L none none).1 (by simp)
    simpa using this
  · have := (parseRegion_bounds L (some (s : Int)) none).1 (by simp; omega)
    simpa using this

example : parseRegionTriple (some 8) (some 2) (some 7) = .ok (2, 7) ∧
    parseRegionTriple (some 8) (some 2) (some 9) = .error .value ∧
    parseRegionTriple (some 8) (some (-1)) (some 7) = .error .value ∧
    parseRegionTriple (some 8) (some 5) (some 4) = .error .value ∧
    parseRegionTriple (some 8) (some 8) (some 8) = .ok (8, 8) ∧
    parseRegionTriple (some 8) none none = .ok (0, 8) :=
  ⟨rfl, rfl, rfl, rfl, rfl, rfl⟩


/-! ## lifting to absolute bin ids -/

theorem chromSorted_pairwise : ∀ (bins : BinTable), chromSortedB bins = true →
    bins.Pairwise (fun a b => a.chrom ≤ b.chrom) := by
  intro bins
  induction bins with
  | nil => intro _; exact List.Pairwise.nil
  | cons a rest ih =>
    intro h
    cases rest with
    | nil => simp
    | cons b rest' =>
      simp only [chromSortedB, Bool.and_eq_true, decide_eq_true_eq] at h
      have ih' := ih h.2
      refine List.pairwise_cons.mpr ⟨?_, ih'⟩
      intro y hy
      rcases List.mem_cons.mp hy with hy | hy
      · subst hy; exact h.1
      · have := (List.pairwise_cons.mp ih').1 y hy
        omega

/-- a chromosome-sorted table is `(bins before c) ++ (bins of c) ++ (bins after c)` -/
theorem sorted_split : ∀ (bins : BinTable), bins.Pairwise (fun a b => a.chrom ≤ b.chrom) → ∀ (c : Nat),
    bins = bins.filter (fun x => decide (x.chrom < c)) ++
      (groupOf bins c ++ bins.filter (fun x => decide (c < x.chrom))) := by
  intro bins
  induction bins with
  | nil => intro _ _; simp [groupOf]
  | cons a rest ih =>
    intro hs c
    have hx : ∀ y ∈ rest, a.chrom ≤ y.chrom := (List.pairwise_cons.mp hs).1
    have ih' := ih (List.pairwise_cons.mp hs).2 c
    unfold groupOf at ih' ⊢
    by_cases h1 : a.chrom < c
    · have f1 : (a :: rest).filter (fun x => decide (x.chrom < c)) = a :: rest.filter (fun x => decide (x.chrom < c)) :=
        List.filter_cons_of_pos (by simpa using h1)
      have f2 : (a :: rest).filter (fun x => decide (x.chrom = c)) = rest.filter (fun x => decide (x.chrom = c)) :=
        List.filter_cons_of_neg (by simp; omega)
      have f3 : (a :: rest).filter (fun x => decide (c < x.chrom)) = rest.filter (fun x => decide (c < x.chrom)) :=
        List.filter_cons_of_neg (by simp; omega)
      rw [f1, f2, f3, List.cons_append]
      exact congrArg _ ih'
    · have hz : rest.filter (fun x => decide (x.chrom < c)) = [] := by
        rw [List.filter_eq_nil_iff]; intro y hy; have := hx y hy; simp; omega
      have f1 : (a :: rest).filter (fun x => decide (x.chrom < c)) = rest.filter (fun x => decide (x.chrom < c)) :=
        List.filter_cons_of_neg (by simpa using h1)
      by_cases h2 : a.chrom = c
      · have f2 : (a :: rest).filter (fun x => decide (x.chrom = c)) = a :: rest.filter (fun x => decide (x.chrom = c)) :=
          List.filter_cons_of_pos (by simpa using h2)
        have f3 : (a :: rest).filter (fun x => decide (c < x.chrom)) = rest.filter (fun x => decide (c < x.chrom)) :=
          List.filter_cons_of_neg (by simp; omega)
        rw [f1, f2, f3, hz, List.nil_append, List.cons_append]
        rw [hz, List.nil_append] at ih'
        exact congrArg _ ih'
      · have hz2 : rest.filter (fun x => decide (x.chrom = c)) = [] := by
          rw [List.filter_eq_nil_iff]; intro y hy; have := hx y hy; simp; omega
        have f2 : (a :: rest).filter (fun x => decide (x.chrom = c)) = rest.filter (fun x => decide (x.chrom = c)) :=
          List.filter_cons_of_neg (by simpa using h2)
        have f3 : (a :: rest).filter (fun x => decide (c < x.chrom)) = a :: rest.filter (fun x => decide (c < x.chrom)) :=
          List.filter_cons_of_pos (by simp; omega)
        rw [f1, f2, f3, hz, hz2, List.nil_append, List.nil_append]
        rw [hz, hz2, List.nil_append, List.nil_append] at ih'
        exact congrArg _ ih'

theorem group_chrom (bins : BinTable) (c k : Nat) (hk : k < (groupOf bins c).length) :
    (groupOf bins c)[k].chrom = c := by
  have hm : (groupOf bins c)[k] ∈ bins.filter (fun x => decide (x.chrom = c)) := List.getElem_mem hk
  simpa using (List.mem_filter.mp hm).2

/-- bin `k` of chromosome `c` is row `chrom_offset[c] + k` of the table -/
theorem group_getElem (bins : BinTable) (hs : bins.Pairwise (fun a b => a.chrom ≤ b.chrom)) (c k : Nat)
    (hk : k < (groupOf bins c).length) :
    ∃ (h : bins.countP (fun x => decide (x.chrom < c)) + k < bins.length),
      bins[bins.countP (fun x => decide (x.chrom < c)) + k] = (groupOf bins c)[k] := by
  have hsp := sorted_split bins hs c
  have hlen := congrArg List.length hsp
  simp only [List.length_append] at hlen
  rw [List.countP_eq_length_filter]
  refine ⟨by omega, ?_⟩
  rw [List.getElem_of_eq hsp]
  rw [List.getElem_append_right (by omega)]
  rw [List.getElem_append_left (by omega)]
  simp

/-- the rows of chromosome `c` are exactly the rows `chrom_offset[c] … chrom_offset[c] + n_c - 1` -/
theorem chrom_eq_iff (bins : BinTable) (hs : bins.Pairwise (fun a b => a.chrom ≤ b.chrom)) (c k : Nat)
    (hk : k < bins.length) :
    bins[k].chrom = c ↔ (bins.countP (fun x => decide (x.chrom < c)) ≤ k ∧
      k < bins.countP (fun x => decide (x.chrom < c)) + (groupOf bins c).length) := by
  have hsp := sorted_split bins hs c
  have hlen := congrArg List.length hsp
  simp only [List.length_append] at hlen
  rw [List.countP_eq_length_filter]
  by_cases h1 : k < (bins.filter (fun x => decide (x.chrom < c))).length
  · have hm : bins[k] ∈ bins.filter (fun x => decide (x.chrom < c)) := by
      rw [List.getElem_of_eq hsp, List.getElem_append_left h1]
      exact List.getElem_mem _
    have := (List.mem_filter.mp hm).2
    simp only [decide_eq_true_eq] at this
    constructor
    · intro h; omega
    · intro h; omega
  · by_cases h2 : k < (bins.filter (fun x => decide (x.chrom < c))).length + (groupOf bins c).length
    · have hm : bins[k] ∈ groupOf bins c := by
        rw [List.getElem_of_eq hsp, List.getElem_append_right (by omega),
          List.getElem_append_left (by omega)]
        exact List.getElem_mem _
      have := (List.mem_filter.mp hm).2
      simp only [decide_eq_true_eq] at this
      constructor
      · intro _; omega
      · intro _; exact this
    · have hm : bins[k] ∈ bins.filter (fun x => decide (c < x.chrom)) := by
        rw [List.getElem_of_eq hsp, List.getElem_append_right (by omega),
          List.getElem_append_right (by omega)]
        exact List.getElem_mem _
      have := (List.mem_filter.mp hm).2
      simp only [decide_eq_true_eq] at this
      constructor
      · intro h; omega
      · intro h; omega

theorem mem_overlapping (bins : BinTable) (c s e k : Nat) :
    k ∈ overlapping bins c s e ↔
      ∃ (h : k < bins.length), bins[k].chrom = c ∧ bins[k].start < e ∧ s < bins[k].stop := by
  unfold overlapping
  rw [List.mem_filter, List.mem_range]
  constructor
  · rintro ⟨h, hp⟩
    refine ⟨h, ?_⟩
    rw [List.getElem?_eq_getElem h] at hp
    simpa [and_assoc] using hp
  · rintro ⟨h, hp⟩
    refine ⟨h, ?_⟩
    rw [List.getElem?_eq_getElem h]
    simpa [and_assoc] using hp

/-- **lifting**: a group-relative run that is exactly the overlap set of the group becomes, shifted by
the chromosome offset, exactly the L0 overlap set of the table — never a row of another chromosome -/
theorem lift_run (bins : BinTable) (hs : bins.Pairwise (fun a b => a.chrom ≤ b.chrom)) (c s e lo hi : Nat)
    (hhi : hi ≤ (groupOf bins c).length)
    (hex : ∀ (k : Nat) (hk : k < (groupOf bins c).length),
      (lo ≤ k ∧ k < hi) ↔ ((groupOf bins c)[k].start < e ∧ s < (groupOf bins c)[k].stop)) (k : Nat) :
    (bins.countP (fun x => decide (x.chrom < c)) + lo ≤ k ∧
      k < bins.countP (fun x => decide (x.chrom < c)) + hi) ↔ k ∈ overlapping bins c s e := by
  rw [mem_overlapping]
  constructor
  · rintro ⟨h1, h2⟩
    have hk : k - bins.countP (fun x => decide (x.chrom < c)) < (groupOf bins c).length := by omega
    obtain ⟨hlt, heq⟩ := group_getElem bins hs c _ hk
    have e1 : bins.countP (fun x => decide (x.chrom < c)) + (k - bins.countP (fun x => decide (x.chrom < c))) = k := by
      omega
    simp only [e1] at heq hlt
    refine ⟨hlt, ?_⟩
    rw [heq]
    exact ⟨group_chrom bins c _ hk, (hex _ hk).mp ⟨by omega, by omega⟩⟩
  · rintro ⟨hlt, hc, hov⟩
    have hr := (chrom_eq_iff bins hs c k hlt).mp hc
    have hk : k - bins.countP (fun x => decide (x.chrom < c)) < (groupOf bins c).length := by omega
    obtain ⟨hlt', heq⟩ := group_getElem bins hs c _ hk
    have e1 : bins.countP (fun x => decide (x.chrom < c)) + (k - bins.countP (fun x => decide (x.chrom < c))) = k := by
      omega
    simp only [e1] at heq
    rw [heq] at hov
    have := (hex _ hk).mpr hov
    omega


theorem filter_range_eq (p : Nat → Bool) (a : Nat) : ∀ (n b : Nat), b ≤ n →
    (∀ k, k < n → (p k = true ↔ a ≤ k ∧ k < b)) → (List.range n).filter p = List.range' a (b - a) := by
  intro n
  induction n with
  | zero => intro b hb _; simp [show b = 0 by omega]
  | succ n ih =>
    intro b hb hp
    rw [List.range_succ, List.filter_append]
    by_cases hbn : b ≤ n
    · have ih' := ih b hbn (fun k hk => hp k (by omega))
      have hpn : p n = false := by
        cases h : p n with
        | false => rfl
        | true => have := (hp n (by omega)).mp h; omega
      simp [ih', hpn]
    · have hb' : b = n + 1 := by omega
      subst hb'
      have ih' := ih n (Nat.le_refl _) (fun k hk => by rw [hp k (by omega)]; omega)
      rw [ih']
      by_cases han : a ≤ n
      · have hpn : p n = true := (hp n (by omega)).mpr (by omega)
        have e1 : n + 1 - a = (n - a) + 1 := by omega
        rw [e1, List.range'_concat]
        simp [hpn]; omega
      · have hpn : p n = false := by
          cases h : p n with
          | false => rfl
          | true => have := (hp n (by omega)).mp h; omega
        simp [hpn, show n - a = 0 by omega, show n + 1 - a = 0 by omega]

/-- a run whose members are exactly the overlapping bins IS the L0 list -/
theorem overlapping_eq_runIds (bins : BinTable) (c s e a b : Nat) (hb : b ≤ bins.length)
    (h : ∀ k, (a ≤ k ∧ k < b) ↔ k ∈ overlapping bins c s e) : overlapping bins c s e = runIds a b := by
  have hmem := h
  unfold overlapping at hmem ⊢
  unfold runIds
  apply filter_range_eq _ a bins.length b hb
  intro k hk
  rw [hmem k, List.mem_filter, List.mem_range]
  exact ⟨fun hp => ⟨hk, hp⟩, fun hp => hp.2⟩

theorem mem_chromOrder : ∀ (bins : BinTable) (c : Nat), c ∈ chromOrder bins ↔ ∃ x ∈ bins, x.chrom = c := by
  intro bins
  induction bins with
  | nil => intro c; simp [chromOrder]
  | cons b rest ih =>
    intro c
    simp only [chromOrder, List.mem_cons, List.mem_filter, ih, decide_eq_true_eq]
    constructor
    · rintro (h | ⟨⟨x, hx, hxc⟩, _⟩)
      · exact ⟨b, Or.inl rfl, h.symm⟩
      · exact ⟨x, Or.inr hx, hxc⟩
    · rintro ⟨x, hx | hx, hxc⟩
      · left; subst hx; exact hxc.symm
      · by_cases hcb : c = b.chrom
        · left; exact hcb
        · right; exact ⟨⟨x, hx, hxc⟩, hcb⟩

theorem group_mem_groups (bins : BinTable) (c : Nat) (hc : groupOf bins c ≠ []) :
    groupOf bins c ∈ groups bins := by
  unfold groups
  apply List.mem_map.mpr
  refine ⟨c, ?_, rfl⟩
  rw [mem_chromOrder]
  obtain ⟨x, hx⟩ := List.exists_mem_of_ne_nil _ hc
  unfold groupOf at hx
  have := List.mem_filter.mp hx
  exact ⟨x, this.1, by simpa using this.2⟩

/-- what `validSegmentationB` gives: chromosome-sorted rows, every chromosome a valid tiling -/
theorem valid_table (bins : BinTable) (hv : validSegmentationB bins = true) :
    bins.Pairwise (fun a b => a.chrom ≤ b.chrom) ∧ ∀ g ∈ groups bins, ValidChrom g := by
  unfold validSegmentationB at hv
  simp only [Bool.and_eq_true, List.all_eq_true, decide_eq_true_eq] at hv
  exact ⟨chromSorted_pairwise bins hv.1, hv.2⟩

theorem one_le_of_uniform (g : List Bin) (b : Nat) (hv : ValidChrom g) (hu : UniformChrom b g) : 1 ≤ b := by
  obtain ⟨hne, ht⟩ := hv
  have hlen : 0 < g.length := List.length_pos_iff.mpr hne
  have h := uniform_get g b (lastStop g) 0 hu 0 hlen
  have hp := tiles_pos g 0 ht 0 hlen
  rcases Nat.eq_zero_or_pos b with h0 | h0
  · subst h0; simp at h; omega
  · exact h0

/-- **extent_fixed_sound**: whenever `get_binsize` reports a size (the fast path is taken) the
arithmetic extent is exactly the overlap set, for every chromosome of every valid table
(`C20.getBinsize_truthful` supplies the universally quantified precondition). -/
theorem extent_fixed_sound (bins : BinTable) (hv : validSegmentationB bins = true) (b : Nat)
    (hb : getBinsize bins = some b) (c : Nat) (hc : groupOf bins c ≠ []) (s e : Nat) (hse : s < e)
    (heL : e ≤ lastStop (groupOf bins c)) :
    1 ≤ b ∧ ceilDiv e b ≤ (groupOf bins c).length ∧
    ∀ (k : Nat) (hk : k < (groupOf bins c).length),
      (s / b ≤ k ∧ k < ceilDiv e b) ↔ ((groupOf bins c)[k].start < e ∧ s < (groupOf bins c)[k].stop) := by
  obtain ⟨_, hvg⟩ := valid_table bins hv
  have hu := C20.getBinsize_truthful (groups bins) b hvg hb (groupOf bins c) (group_mem_groups bins c hc)
  have hvc := hvg _ (group_mem_groups bins c hc)
  have h1 := one_le_of_uniform _ b hvc hu
  exact ⟨h1, extent_fixed_correct _ b hvc hu h1 s e hse heL⟩


/-! ## the whole table: `regionToExtent` against the L0 overlap set -/

/-- the model's extent is `chrom_offset[c] +` a group-relative run that is exactly the overlap set -/
theorem rel_extent (bins : BinTable) (hv : validSegmentationB bins = true) (c : Nat)
    (hc : groupOf bins c ≠ []) (s e : Nat) (hse : s < e) (heL : e ≤ lastStop (groupOf bins c)) :
    ∃ lo hi : Nat,
      regionToExtent bins (getBinsize bins) c s e =
        (((bins.countP (fun x => decide (x.chrom < c)) + lo : Nat) : Int),
          bins.countP (fun x => decide (x.chrom < c)) + hi) ∧
      hi ≤ (groupOf bins c).length ∧
      ∀ (k : Nat) (hk : k < (groupOf bins c).length),
        (lo ≤ k ∧ k < hi) ↔ ((groupOf bins c)[k].start < e ∧ s < (groupOf bins c)[k].stop) := by
  obtain ⟨_, hvg⟩ := valid_table bins hv
  have hvc := hvg _ (group_mem_groups bins c hc)
  cases hb : getBinsize bins with
  | none =>
    obtain ⟨h1, h2, h3⟩ := extent_var_correct _ hvc s e hse heL
    refine ⟨ssRight ((groupOf bins c).map Bin.start) s - 1, ssLeft ((groupOf bins c).map Bin.start) e, ?_, h2, h3⟩
    simp only [regionToExtent, extentVar]
    apply Prod.ext
    · simp only; omega
    · rfl
  | some b =>
    obtain ⟨_, h2, h3⟩ := extent_fixed_sound bins hv b hb c hc s e hse heL
    refine ⟨s / b, ceilDiv e b, ?_, h2, h3⟩
    simp [regionToExtent, extentFixed]

/-- **extent_table_correct**: on every valid table (fixed or variable width, any number of
chromosomes) and every non-empty range inside chromosome `c`, `_region_to_extent` returns a run
that stays inside the rows of `c` and consists exactly of the L0 overlap set; `runOk` — the verdict
the correspondence evaluates on the real cooler's answers — holds of the model. -/
theorem extent_table_correct (bins : BinTable) (hv : validSegmentationB bins = true) (c : Nat)
    (hc : groupOf bins c ≠ []) (s e : Nat) (hse : s < e) (heL : e ≤ lastStop (groupOf bins c)) :
    ((bins.countP (fun x => decide (x.chrom < c)) : Nat) : Int) ≤ (regionToExtent bins (getBinsize bins) c s e).1 ∧
    (regionToExtent bins (getBinsize bins) c s e).2 ≤
      bins.countP (fun x => decide (x.chrom < c)) + (groupOf bins c).length ∧
    (∀ k : Nat, ((regionToExtent bins (getBinsize bins) c s e).1 ≤ (k : Int) ∧
        k < (regionToExtent bins (getBinsize bins) c s e).2) ↔ k ∈ overlapping bins c s e) ∧
    runOk bins c s e (regionToExtent bins (getBinsize bins) c s e).1
      (regionToExtent bins (getBinsize bins) c s e).2 = true := by
  obtain ⟨hs, _⟩ := valid_table bins hv
  obtain ⟨lo, hi, heq, hhi, hex⟩ := rel_extent bins hv c hc s e hse heL
  rw [heq]
  simp only
  have hlift := lift_run bins hs c s e lo hi hhi hex
  have hsp := congrArg List.length (sorted_split bins hs c)
  simp only [List.length_append, ← List.countP_eq_length_filter] at hsp
  refine ⟨by omega, by omega, ?_, ?_⟩
  · intro k
    rw [← hlift k]
    omega
  · have := overlapping_eq_runIds bins c s e _ _ (by omega) hlift
    unfold runOk selOk
    rw [Int.toNat_natCast, if_pos hse, this]
    simp
    omega

example : validSegmentationB [⟨0, 0, 5⟩, ⟨1, 0, 2⟩, ⟨1, 2, 7⟩, ⟨1, 7, 8⟩] = true ∧
    getBinsize [⟨0, 0, 5⟩, ⟨1, 0, 2⟩, ⟨1, 2, 7⟩, ⟨1, 7, 8⟩] = none ∧
    regionToExtent [⟨0, 0, 5⟩, ⟨1, 0, 2⟩, ⟨1, 2, 7⟩, ⟨1, 7, 8⟩] none 1 3 8 = (2, 4) ∧
    overlapping [⟨0, 0, 5⟩, ⟨1, 0, 2⟩, ⟨1, 2, 7⟩, ⟨1, 7, 8⟩] 1 3 8 = [2, 3] := by decide

example : validSegmentationB [⟨0, 0, 3⟩, ⟨0, 3, 5⟩, ⟨1, 0, 3⟩, ⟨1, 3, 6⟩, ⟨1, 6, 7⟩] = true ∧
    getBinsize [⟨0, 0, 3⟩, ⟨0, 3, 5⟩, ⟨1, 0, 3⟩, ⟨1, 3, 6⟩, ⟨1, 6, 7⟩] = some 3 ∧
    regionToExtent [⟨0, 0, 3⟩, ⟨0, 3, 5⟩, ⟨1, 0, 3⟩, ⟨1, 3, 6⟩, ⟨1, 6, 7⟩] (some 3) 1 2 4 = (2, 4) ∧
    overlapping [⟨0, 0, 3⟩, ⟨0, 3, 5⟩, ⟨1, 0, 3⟩, ⟨1, 3, 6⟩, ⟨1, 6, 7⟩] 1 2 4 = [2, 3] := by decide

theorem mem_containing (bins : BinTable) (c p k : Nat) :
    k ∈ containing bins c p ↔
      ∃ (h : k < bins.length), bins[k].chrom = c ∧ bins[k].start ≤ p ∧ p ≤ bins[k].stop := by
  unfold containing
  rw [List.mem_filter, List.mem_range]
  constructor
  · rintro ⟨h, hp⟩
    refine ⟨h, ?_⟩
    rw [List.getElem?_eq_getElem h] at hp
    simpa [and_assoc] using hp
  · rintro ⟨h, hp⟩
    refine ⟨h, ?_⟩
    rw [List.getElem?_eq_getElem h]
    simpa [and_assoc] using hp

/-- the model's extent of an EMPTY range `s = e ≤ L`, relative to the chromosome offset -/
theorem rel_extent_empty (bins : BinTable) (hv : validSegmentationB bins = true) (c : Nat)
    (hc : groupOf bins c ≠ []) (s : Nat) (hsL : s ≤ lastStop (groupOf bins c)) :
    ∃ lo hi : Nat,
      regionToExtent bins (getBinsize bins) c s s =
        (((bins.countP (fun x => decide (x.chrom < c)) + lo : Nat) : Int),
          bins.countP (fun x => decide (x.chrom < c)) + hi) ∧
      lo ≤ hi ∧ hi ≤ lo + 1 ∧ hi ≤ (groupOf bins c).length ∧
      (hi = lo + 1 → ∃ (hk : lo < (groupOf bins c).length),
        (groupOf bins c)[lo].start ≤ s ∧ s ≤ (groupOf bins c)[lo].stop) := by
  obtain ⟨_, hvg⟩ := valid_table bins hv
  have hvc := hvg _ (group_mem_groups bins c hc)
  cases hb : getBinsize bins with
  | none =>
    obtain ⟨h1, h2, h3, h4, h5⟩ := extent_empty_var _ hvc s hsL
    refine ⟨ssRight ((groupOf bins c).map Bin.start) s - 1, ssLeft ((groupOf bins c).map Bin.start) s,
      ?_, h2, h3, h4, ?_⟩
    · simp only [regionToExtent, extentVar]
      clear h5 h2 h3 h4
      apply Prod.ext
      · simp only; omega
      · rfl
    · intro heq
      obtain ⟨hk, ha, hb'⟩ := h5 heq
      exact ⟨hk, by omega, hb'⟩
  | some b =>
    have hu := C20.getBinsize_truthful (groups bins) b hvg hb (groupOf bins c) (group_mem_groups bins c hc)
    have h1 := one_le_of_uniform _ b hvc hu
    obtain ⟨h2, h3, h4, h5⟩ := extent_empty_fixed _ b hvc hu h1 s hsL
    refine ⟨s / b, ceilDiv s b, ?_, h2, h3, h4, h5⟩
    simp [regionToExtent, extentFixed]

/-- **extent_empty** on the whole table: an empty range selects no bin or the one bin of `c` whose
closed interval contains the position; the run never leaves the rows of `c`. -/
theorem extent_table_empty (bins : BinTable) (hv : validSegmentationB bins = true) (c : Nat)
    (hc : groupOf bins c ≠ []) (s : Nat) (hsL : s ≤ lastStop (groupOf bins c)) :
    ((bins.countP (fun x => decide (x.chrom < c)) : Nat) : Int) ≤ (regionToExtent bins (getBinsize bins) c s s).1 ∧
    (regionToExtent bins (getBinsize bins) c s s).2 ≤
      bins.countP (fun x => decide (x.chrom < c)) + (groupOf bins c).length ∧
    runOk bins c s s (regionToExtent bins (getBinsize bins) c s s).1
      (regionToExtent bins (getBinsize bins) c s s).2 = true := by
  obtain ⟨hs, _⟩ := valid_table bins hv
  obtain ⟨lo, hi, heq, h1, h2, h3, h4⟩ := rel_extent_empty bins hv c hc s hsL
  rw [heq]
  simp only
  refine ⟨by omega, by omega, ?_⟩
  simp only [runOk, selOk, Nat.lt_irrefl, if_false, Int.toNat_natCast, Bool.and_eq_true, decide_eq_true_eq]
  refine ⟨by omega, ?_⟩
  by_cases hcase : hi = lo
  · subst hcase
    simp [runIds]
  · have hhl : hi = lo + 1 := by omega
    obtain ⟨hk, ha, hb⟩ := h4 hhl
    obtain ⟨hlt, hget⟩ := group_getElem bins hs c lo hk
    have hr : runIds (bins.countP (fun x => decide (x.chrom < c)) + lo)
        (bins.countP (fun x => decide (x.chrom < c)) + hi) = [bins.countP (fun x => decide (x.chrom < c)) + lo] := by
      unfold runIds
      have : bins.countP (fun x => decide (x.chrom < c)) + hi - (bins.countP (fun x => decide (x.chrom < c)) + lo) = 1 := by
        omega
      rw [this]; rfl
    rw [hr]
    simp only [List.contains_iff_mem]
    rw [mem_containing]
    refine ⟨hlt, ?_⟩
    rw [hget]
    exact ⟨group_chrom bins c lo hk, ha, hb⟩

/-- the property for every in-bounds range `0 ≤ s ≤ e ≤ L`, in the form the correspondence judges -/
theorem regionToExtent_ok (bins : BinTable) (hv : validSegmentationB bins = true) (c : Nat)
    (hc : groupOf bins c ≠ []) (s e : Nat) (hse : s ≤ e) (heL : e ≤ lastStop (groupOf bins c)) :
    runOk bins c s e (regionToExtent bins (getBinsize bins) c s e).1
      (regionToExtent bins (getBinsize bins) c s e).2 = true := by
  rcases Nat.lt_or_eq_of_le hse with h | h
  · exact (extent_table_correct bins hv c hc s e h heL).2.2.2
  · subst h
    exact (extent_table_empty bins hv c hc s heL).2.2


/-! ## GenomeSegmentation.fetch / bedslice on the whole table -/

/-- a group-relative selection meeting the per-chromosome statements satisfies the L0 verdict -/
theorem selOk_of_rel (bins : BinTable) (hs : bins.Pairwise (fun a b => a.chrom ≤ b.chrom)) (c s e lo hi : Nat)
    (hhi : hi ≤ (groupOf bins c).length)
    (hne : s < e → ∀ (k : Nat) (hk : k < (groupOf bins c).length),
      (lo ≤ k ∧ k < hi) ↔ ((groupOf bins c)[k].start < e ∧ s < (groupOf bins c)[k].stop))
    (hem : ¬ s < e → lo ≤ hi ∧ hi ≤ lo + 1 ∧ (hi = lo + 1 → ∃ (hk : lo < (groupOf bins c).length),
      (groupOf bins c)[lo].start ≤ s ∧ s ≤ (groupOf bins c)[lo].stop)) :
    selOk bins c s e (runIds (bins.countP (fun x => decide (x.chrom < c)) + lo)
      (bins.countP (fun x => decide (x.chrom < c)) + hi)) = true := by
  have hsp := congrArg List.length (sorted_split bins hs c)
  simp only [List.length_append, ← List.countP_eq_length_filter] at hsp
  unfold selOk
  by_cases hse : s < e
  · have hlift := lift_run bins hs c s e lo hi hhi (hne hse)
    have := overlapping_eq_runIds bins c s e _ _ (by omega) hlift
    rw [if_pos hse, this]
    simp
  · rw [if_neg hse]
    obtain ⟨h1, h2, h4⟩ := hem hse
    by_cases hcase : hi = lo
    · subst hcase
      simp [runIds]
    · have hhl : hi = lo + 1 := by omega
      obtain ⟨hk, ha, hb⟩ := h4 hhl
      obtain ⟨hlt, hget⟩ := group_getElem bins hs c lo hk
      have hr : runIds (bins.countP (fun x => decide (x.chrom < c)) + lo)
          (bins.countP (fun x => decide (x.chrom < c)) + hi) = [bins.countP (fun x => decide (x.chrom < c)) + lo] := by
        unfold runIds
        have : bins.countP (fun x => decide (x.chrom < c)) + hi - (bins.countP (fun x => decide (x.chrom < c)) + lo) = 1 := by
          omega
        rw [this]; rfl
      rw [hr]
      simp only [List.contains_iff_mem]
      rw [mem_containing]
      refine ⟨hlt, ?_⟩
      rw [hget]
      have hs' : s = s := rfl
      exact ⟨group_chrom bins c lo hk, ha, hb⟩

/-- **gsFetch_correct** on the whole table: `GenomeSegmentation(chromsizes, bins).fetch(region)` and
`bedslice` return, as row labels, exactly the L0 selection, for every in-bounds range. -/
theorem gsFetchAbs_ok (bins : BinTable) (hv : validSegmentationB bins = true) (c : Nat)
    (hc : groupOf bins c ≠ []) (s e : Nat) (hse : s ≤ e) (heL : e ≤ lastStop (groupOf bins c)) :
    selOk bins c s e (runIds (gsFetchAbs bins c s e).1 (gsFetchAbs bins c s e).2) = true := by
  obtain ⟨hs, hvg⟩ := valid_table bins hv
  have hvc := hvg _ (group_mem_groups bins c hc)
  unfold gsFetchAbs
  simp only
  rcases Nat.lt_or_eq_of_le hse with hlt | heq
  · obtain ⟨h1, h2⟩ := gsFetch_correct _ hvc s e hlt heL
    exact selOk_of_rel bins hs c s e _ _ h1 (fun _ => h2) (fun h => absurd hlt h)
  · subst heq
    obtain ⟨h1, h2, h3, h4⟩ := gsFetch_empty _ hvc s heL
    refine selOk_of_rel bins hs c s s _ _ h3 (fun h => absurd h (Nat.lt_irrefl _)) (fun _ => ⟨h1, h2, ?_⟩)
    intro h
    obtain ⟨hk, ha, hb⟩ := h4 h
    exact ⟨hk, by omega, by omega⟩

/-! ## the code reads the STORED columns: `chrom_offset` and `bins/start` -/

theorem countP_succ_chrom (bins : BinTable) (c : Nat) :
    bins.countP (fun x => decide (x.chrom < c + 1)) =
      bins.countP (fun x => decide (x.chrom < c)) + (groupOf bins c).length := by
  unfold groupOf
  rw [← List.countP_eq_length_filter]
  induction bins with
  | nil => simp
  | cons a rest ih =>
    simp only [List.countP_cons, ih, decide_eq_true_eq]
    by_cases h1 : a.chrom < c
    · simp [h1, show a.chrom < c + 1 by omega, show ¬ a.chrom = c by omega]; omega
    · by_cases h2 : a.chrom = c
      · simp [h1, h2]; omega
      · simp [h1, h2, show ¬ a.chrom < c + 1 by omega]

theorem chromOffsets_getD (bins : BinTable) (n c : Nat) (hc : c ≤ n) :
    (chromOffsets bins n).getD c 0 = bins.countP (fun x => decide (x.chrom < c)) := by
  unfold chromOffsets
  rw [List.getD_eq_getElem?_getD]
  simp [List.getElem?_map, List.getElem?_range (show c < n + 1 by omega)]

/-- **regionToExtentIdx_eq**: `_region_to_extent` evaluated, as the code does, on
`indexes/chrom_offset` (for a table with `n` chromosomes) and the slice
`bins/start[chrom_lo:chrom_hi]` equals `regionToExtent` on the chromosome's group, for every
chromosome-sorted table. -/
theorem regionToExtentIdx_eq (bins : BinTable) (hs : bins.Pairwise (fun a b => a.chrom ≤ b.chrom))
    (n c : Nat) (hc : c < n) (bs : Option Nat) (s e : Nat) :
    regionToExtentIdx (chromOffsets bins n) (bins.map Bin.start) bs c s e = regionToExtent bins bs c s e := by
  unfold regionToExtentIdx regionToExtent
  rw [chromOffsets_getD bins n c (by omega), chromOffsets_getD bins n (c + 1) (by omega)]
  cases bs with
  | some b => rfl
  | none =>
    simp only
    have hsp := sorted_split bins hs c
    have hl : (bins.filter (fun x => decide (x.chrom < c))).length = bins.countP (fun x => decide (x.chrom < c)) :=
      (List.countP_eq_length_filter).symm
    have hslice : (bins.drop (bins.countP (fun x => decide (x.chrom < c)))).take
        (bins.countP (fun x => decide (x.chrom < c + 1)) - bins.countP (fun x => decide (x.chrom < c)))
          = groupOf bins c := by
      rw [countP_succ_chrom]
      have e1 : bins.countP (fun x => decide (x.chrom < c)) + (groupOf bins c).length
          - bins.countP (fun x => decide (x.chrom < c)) = (groupOf bins c).length := by omega
      rw [e1]
      calc (bins.drop (bins.countP (fun x => decide (x.chrom < c)))).take (groupOf bins c).length
          = ((bins.filter (fun x => decide (x.chrom < c)) ++
              (groupOf bins c ++ bins.filter (fun x => decide (c < x.chrom)))).drop
                (bins.countP (fun x => decide (x.chrom < c)))).take (groupOf bins c).length := by
            rw [← hsp]
        _ = (groupOf bins c ++ bins.filter (fun x => decide (c < x.chrom))).take (groupOf bins c).length := by
            rw [List.drop_left' hl]
        _ = groupOf bins c := List.take_left' rfl
    rw [← List.map_drop, ← List.map_take, hslice]

/-! ## table fetches are index slices on the extent -/

/-- **fetch_eq_slice** (pixels): `pixels().fetch(region)` — the rows
`bin1_offset[lo] … bin1_offset[hi]` of the pixel table — are exactly the stored pixels whose first
bin lies in the extent `[lo, hi)`, in storage order. -/
theorem pixelsFetch_correct (ps : Pixels) (hs : RowSorted ps) (offs : List Nat) (n : Nat)
    (ho : OffsOK ps offs n) (i0 i1 : Nat) (h01 : i0 ≤ i1) (h1n : i1 ≤ n) :
    pixelsFetch ps offs i0 i1 = ps.filter (fun p => decide (i0 ≤ p.i ∧ p.i < i1)) := by
  unfold pixelsFetch pixelsFetchRange
  simp only
  rw [ho i0 (by omega), ho i1 h1n]
  exact rowsSlice_eq_filter ps hs i0 i1 h01

example : pixelsFetch [⟨0, 0, 1⟩, ⟨0, 2, 3⟩, ⟨2, 2, 5⟩, ⟨2, 4, 1⟩, ⟨4, 4, 7⟩] (csrIndex [⟨0, 0, 1⟩, ⟨0, 2, 3⟩, ⟨2, 2, 5⟩, ⟨2, 4, 1⟩, ⟨4, 4, 7⟩] 5) 1 3
    = [⟨2, 2, 5⟩, ⟨2, 4, 1⟩] := by decide

/-- **fetch_eq_slice** (bins): `bins().fetch(region)` returns rows `lo … hi-1` labelled by their ids -/
theorem mem_binsSlice (bins : BinTable) (lo hi k : Nat) (b : Bin) (h : (k, b) ∈ binsSlice bins lo hi) :
    lo ≤ k ∧ k < hi ∧ bins[k]? = some b := by
  unfold binsSlice runIds at h
  obtain ⟨i, hi', heq⟩ := List.getElem_of_mem h
  rw [List.getElem_zip] at heq
  simp only [List.length_zip, List.length_range', List.length_take, List.length_drop] at hi'
  simp only [List.getElem_range', List.getElem_take, List.getElem_drop, Prod.mk.injEq, Nat.one_mul] at heq
  obtain ⟨h1, h2⟩ := heq
  subst h1
  refine ⟨by omega, by omega, ?_⟩
  rw [List.getElem?_eq_getElem (by omega), h2]

theorem binsSlice_labels (bins : BinTable) (lo hi : Nat) (h : hi ≤ bins.length) :
    (binsSlice bins lo hi).map Prod.fst = runIds lo hi := by
  unfold binsSlice runIds
  rw [List.map_fst_zip]
  simp only [List.length_range', List.length_take, List.length_drop]
  omega

/-- **fetch_eq_slice** (matrix): `matrix().fetch(r1, r2)` is the C03 window query on the two extents -/
theorem fetchBox_eq (lo1 hi1 lo2 hi2 : Nat) :
    fetchBox (lo1, hi1) (lo2, hi2) = ⟨lo1, hi1, lo2, hi2⟩ := rfl

/-! ## pixel-table fetch and offset against L0 -/

theorem pxOfBins_runIds (ps : Pixels) (a b : Nat) :
    pxOfBins ps (runIds a b) = ps.filter (fun p => decide (a ≤ p.i ∧ p.i < b)) := by
  unfold pxOfBins runIds
  apply List.filter_congr
  intro p _
  rw [Bool.eq_iff_iff]
  simp only [List.contains_iff_mem, List.mem_range'_1, decide_eq_true_eq]
  omega

/-- **fetch_eq_slice** (pixels, against L0): on a valid table with a valid pixel index,
`pixels().fetch(region)` returns exactly the stored pixels whose first bin is selected by the
property, for every in-bounds range. -/
theorem pixelsFetch_ok (bins : BinTable) (hv : validSegmentationB bins = true) (ps : Pixels)
    (hrs : RowSorted ps) (offs : List Nat) (ho : OffsOK ps offs bins.length) (c : Nat)
    (hc : groupOf bins c ≠ []) (s e : Nat) (hse : s ≤ e) (heL : e ≤ lastStop (groupOf bins c)) :
    pxSelOk bins ps c s e (pixelsFetch ps offs (regionToExtent bins (getBinsize bins) c s e).1.toNat
      (regionToExtent bins (getBinsize bins) c s e).2) = true := by
  obtain ⟨hs, hvg⟩ := valid_table bins hv
  have hvc := hvg _ (group_mem_groups bins c hc)
  have hsp := congrArg List.length (sorted_split bins hs c)
  simp only [List.length_append, ← List.countP_eq_length_filter] at hsp
  unfold pxSelOk
  rcases Nat.lt_or_eq_of_le hse with hlt | heq
  · obtain ⟨lo, hi, hr, hhi, hex⟩ := rel_extent bins hv c hc s e hlt heL
    obtain ⟨k0, hk0, hov⟩ := exists_overlap _ hvc s e hlt heL
    have hin := (hex k0 hk0).mpr hov
    have hlift := lift_run bins hs c s e lo hi hhi hex
    have hover := overlapping_eq_runIds bins c s e _ _ (by omega) hlift
    rw [hr, if_pos hlt, hover, pxOfBins_runIds]
    simp only [Int.toNat_natCast]
    rw [pixelsFetch_correct ps hrs offs bins.length ho _ _ (by omega) (by omega)]
    simp
  · subst heq
    obtain ⟨lo, hi, hr, h1, h2, h3, h4⟩ := rel_extent_empty bins hv c hc s heL
    rw [hr, if_neg (Nat.lt_irrefl _)]
    simp only [Int.toNat_natCast]
    rw [pixelsFetch_correct ps hrs offs bins.length ho _ _ (by omega) (by omega)]
    by_cases hcase : hi = lo
    · subst hcase
      have : ps.filter (fun p => decide (bins.countP (fun x => decide (x.chrom < c)) + hi ≤ p.i ∧
          p.i < bins.countP (fun x => decide (x.chrom < c)) + hi)) = [] := by
        rw [List.filter_eq_nil_iff]; intro p _; simp
      rw [this]; simp
    · have hhl : hi = lo + 1 := by omega
      obtain ⟨hk, ha, hb⟩ := h4 hhl
      obtain ⟨hlt, hget⟩ := group_getElem bins hs c lo hk
      have hmem : bins.countP (fun x => decide (x.chrom < c)) + lo ∈ containing bins c s := by
        rw [mem_containing]
        refine ⟨hlt, ?_⟩
        rw [hget]
        exact ⟨group_chrom bins c lo hk, ha, hb⟩
      have hrun : runIds (bins.countP (fun x => decide (x.chrom < c)) + lo)
          (bins.countP (fun x => decide (x.chrom < c)) + hi) = [bins.countP (fun x => decide (x.chrom < c)) + lo] := by
        unfold runIds
        have : bins.countP (fun x => decide (x.chrom < c)) + hi - (bins.countP (fun x => decide (x.chrom < c)) + lo) = 1 := by
          omega
        rw [this]; rfl
      rw [← pxOfBins_runIds, hrun]
      simp only [Bool.or_eq_true, List.any_eq_true, beq_iff_eq]
      right
      exact ⟨_, hmem, rfl⟩

/-- `Cooler.offset` of a non-empty range is the first overlapping bin -/
theorem offset_ok (bins : BinTable) (hv : validSegmentationB bins = true) (c : Nat)
    (hc : groupOf bins c ≠ []) (s e : Nat) (hse : s ≤ e) (heL : e ≤ lastStop (groupOf bins c)) :
    offsetOk bins c s e (regionToExtent bins (getBinsize bins) c s e).1 = true := by
  obtain ⟨hs, hvg⟩ := valid_table bins hv
  have hvc := hvg _ (group_mem_groups bins c hc)
  have hsp := congrArg List.length (sorted_split bins hs c)
  simp only [List.length_append, ← List.countP_eq_length_filter] at hsp
  unfold offsetOk
  by_cases hlt : s < e
  · obtain ⟨lo, hi, hr, hhi, hex⟩ := rel_extent bins hv c hc s e hlt heL
    obtain ⟨k0, hk0, hov⟩ := exists_overlap _ hvc s e hlt heL
    have hin := (hex k0 hk0).mpr hov
    have hlift := lift_run bins hs c s e lo hi hhi hex
    have hover := overlapping_eq_runIds bins c s e _ _ (by omega) hlift
    rw [hr, if_pos hlt, hover]
    simp only [Int.toNat_natCast]
    unfold runIds
    have : bins.countP (fun x => decide (x.chrom < c)) + hi - (bins.countP (fun x => decide (x.chrom < c)) + lo)
        = (hi - lo - 1) + 1 := by omega
    rw [this, List.range'_succ]
    simp
    omega
  · rw [if_neg hlt]

example : pxSelOk [⟨0, 0, 2⟩, ⟨0, 2, 4⟩, ⟨1, 0, 3⟩] [⟨0, 0, 1⟩, ⟨0, 2, 3⟩, ⟨1, 1, 5⟩, ⟨2, 2, 7⟩] 0 1 3
      (pixelsFetch [⟨0, 0, 1⟩, ⟨0, 2, 3⟩, ⟨1, 1, 5⟩, ⟨2, 2, 7⟩] (csrIndex [⟨0, 0, 1⟩, ⟨0, 2, 3⟩, ⟨1, 1, 5⟩, ⟨2, 2, 7⟩] 3) 0 2) = true ∧
    pixelsFetch [⟨0, 0, 1⟩, ⟨0, 2, 3⟩, ⟨1, 1, 5⟩, ⟨2, 2, 7⟩] (csrIndex [⟨0, 0, 1⟩, ⟨0, 2, 3⟩, ⟨1, 1, 5⟩, ⟨2, 2, 7⟩] 3) 0 2
      = [⟨0, 0, 1⟩, ⟨0, 2, 3⟩, ⟨1, 1, 5⟩] := by decide

/-- an unknown chromosome label is refused -/
theorem regionOfTriple_unknown (lens : List Nat) (s e : Option Int) :
    regionOfTriple lens none s e = .error .value := rfl

/-- `parse_region` on a known chromosome accepts exactly the in-bounds triples, unchanged -/
theorem regionOfTriple_ok (lens : List Nat) (c L : Nat) (h : lens[c]? = some L) (s e : Option Int)
    (hin : 0 ≤ s.getD 0 ∧ s.getD 0 ≤ e.getD L ∧ e.getD L ≤ L) :
    regionOfTriple lens (some c) s e = .ok (c, (s.getD 0).toNat, (e.getD (L : Int)).toNat) := by
  simp only [regionOfTriple, h, (parseRegion_bounds L s e).1 hin]

theorem regionOfTriple_reject (lens : List Nat) (c L : Nat) (h : lens[c]? = some L) (s e : Option Int)
    (hbad : ¬ (0 ≤ s.getD 0 ∧ s.getD 0 ≤ e.getD L ∧ e.getD L ≤ L)) :
    regionOfTriple lens (some c) s e = .error .value := by
  simp only [regionOfTriple, h, (parseRegion_bounds L s e).2 hbad]

/-- `Cooler.extent` end to end: an in-bounds region of a valid table (chromosome lengths = ends of
the last bins) is accepted and answered with a selection satisfying the property -/
theorem coolerExtent_ok (bins : BinTable) (hv : validSegmentationB bins = true) (lens : List Nat) (c : Nat)
    (hc : groupOf bins c ≠ []) (hL : lens[c]? = some (lastStop (groupOf bins c))) (s e : Nat)
    (hse : s ≤ e) (heL : e ≤ lastStop (groupOf bins c)) :
    ∃ r, coolerExtent bins lens (getBinsize bins) (some c) (some (s : Int)) (some (e : Int)) = .ok r ∧
      runOk bins c s e r.1 r.2 = true := by
  refine ⟨regionToExtent bins (getBinsize bins) c s e, ?_, regionToExtent_ok bins hv c hc s e hse heL⟩
  have := regionOfTriple_ok lens c _ hL (some (s : Int)) (some (e : Int)) (by simp; omega)
  simp only [Option.getD_some, Int.toNat_natCast] at this
  simp only [coolerExtent, this]

example : regionOfTriple [25, 10] (some 1) (some 3) none = .ok (1, 3, 10) ∧
    regionOfTriple [25, 10] (some 1) (some 3) (some 11) = .error .value ∧
    regionOfTriple [25, 10] (some 2) none none = .error .value := ⟨rfl, rfl, rfl⟩

/-! ## more non-vacuity -/

/-- `shortest_cover` applies to the run the variable path selects -/
example : ValidChrom [(⟨0, 0, 2⟩ : Bin), ⟨0, 2, 7⟩, ⟨0, 7, 8⟩] ∧ (3 : Nat) < 8 ∧
    8 ≤ lastStop [(⟨0, 0, 2⟩ : Bin), ⟨0, 2, 7⟩, ⟨0, 7, 8⟩] ∧
    (∀ k (hk : k < [(⟨0, 0, 2⟩ : Bin), ⟨0, 2, 7⟩, ⟨0, 7, 8⟩].length),
      (1 ≤ k ∧ k < 3) ↔ ([(⟨0, 0, 2⟩ : Bin), ⟨0, 2, 7⟩, ⟨0, 7, 8⟩][k].start < 8 ∧
        3 < [(⟨0, 0, 2⟩ : Bin), ⟨0, 2, 7⟩, ⟨0, 7, 8⟩][k].stop)) := by
  refine ⟨by decide, by decide, by decide, ?_⟩
  intro k hk
  have : k = 0 ∨ k = 1 ∨ k = 2 := by simp at hk; omega
  rcases this with h | h | h <;> subst h <;> simp

/-- a fixed-width table with a SHORTER last bin and a one-bin chromosome: hypotheses of
`extent_fixed_sound` / `regionToExtent_ok` / `gsFetchAbs_ok` hold and the answers are the overlap set -/
example : validSegmentationB [⟨0, 0, 3⟩, ⟨0, 3, 6⟩, ⟨0, 6, 7⟩, ⟨1, 0, 2⟩] = true ∧
    getBinsize [⟨0, 0, 3⟩, ⟨0, 3, 6⟩, ⟨0, 6, 7⟩, ⟨1, 0, 2⟩] = some 3 ∧
    groupOf [⟨0, 0, 3⟩, ⟨0, 3, 6⟩, ⟨0, 6, 7⟩, ⟨1, 0, 2⟩] 1 ≠ [] ∧
    regionToExtent [⟨0, 0, 3⟩, ⟨0, 3, 6⟩, ⟨0, 6, 7⟩, ⟨1, 0, 2⟩] (some 3) 1 0 2 = (3, 4) ∧
    overlapping [⟨0, 0, 3⟩, ⟨0, 3, 6⟩, ⟨0, 6, 7⟩, ⟨1, 0, 2⟩] 1 0 2 = [3] ∧
    gsFetchAbs [⟨0, 0, 3⟩, ⟨0, 3, 6⟩, ⟨0, 6, 7⟩, ⟨1, 0, 2⟩] 0 2 7 = (0, 3) ∧
    overlapping [⟨0, 0, 3⟩, ⟨0, 3, 6⟩, ⟨0, 6, 7⟩, ⟨1, 0, 2⟩] 0 2 7 = [0, 1, 2] := by decide

/-- a table whose last bin is LONGER than the others is variable-width (`getBinsize = none`, D1
repaired) and the search path is right where the arithmetic path would select a bin of the next
chromosome: `⌈25/10⌉ = 3` but chromosome 0 has two bins -/
example : getBinsize [⟨0, 0, 10⟩, ⟨0, 10, 25⟩, ⟨1, 0, 10⟩] = none ∧
    getBinsizeLegacyG (groups [⟨0, 0, 10⟩, ⟨0, 10, 25⟩, ⟨1, 0, 10⟩]) = some 10 ∧
    regionToExtent [⟨0, 0, 10⟩, ⟨0, 10, 25⟩, ⟨1, 0, 10⟩] none 0 0 25 = (0, 2) ∧
    regionToExtent [⟨0, 0, 10⟩, ⟨0, 10, 25⟩, ⟨1, 0, 10⟩] (some 10) 0 0 25 = (0, 3) ∧
    runOk [⟨0, 0, 10⟩, ⟨0, 10, 25⟩, ⟨1, 0, 10⟩] 0 0 25 0 3 = false ∧
    runOk [⟨0, 0, 10⟩, ⟨0, 10, 25⟩, ⟨1, 0, 10⟩] 0 0 25 0 2 = true := by decide

/-- the stored-column form on a two-chromosome table -/
example : regionToExtentIdx (chromOffsets [⟨0, 0, 5⟩, ⟨1, 0, 2⟩, ⟨1, 2, 7⟩, ⟨1, 7, 8⟩] 2)
      ([(⟨0, 0, 5⟩ : Bin), ⟨1, 0, 2⟩, ⟨1, 2, 7⟩, ⟨1, 7, 8⟩].map Bin.start) none 1 3 8 = (2, 4) := by decide

/-! ### one-pass forms of the L0 verdicts (tables with 10^5 bins) -/

theorem idsWhere_aux (p : Bin → Bool) : ∀ (l : List Bin) (i : Nat),
    ((l.zipIdx i).filter fun x => p x.1).map (·.2)
      = (List.range' i l.length).filter fun k =>
          match l[k - i]? with
          | some b => p b
          | none => false := by
  intro l
  induction l with
  | nil => intro i; simp
  | cons b t ih =>
    intro i
    rw [List.zipIdx_cons, List.length_cons, List.range'_succ, List.filter_cons, List.filter_cons]
    have htail : (List.range' (i + 1) t.length).filter (fun k =>
          match (b :: t)[k - i]? with
          | some b => p b
          | none => false)
        = (List.range' (i + 1) t.length).filter (fun k =>
          match t[k - (i + 1)]? with
          | some b => p b
          | none => false) := by
      apply List.filter_congr
      intro k hk
      have hk' := (List.mem_range'_1.mp hk).1
      have : k - i = (k - (i + 1)) + 1 := by omega
      rw [this, List.getElem?_cons_succ]
    simp only [Nat.sub_self, List.getElem?_cons_zero]
    rw [htail, ← ih (i + 1)]
    cases p b <;> simp

/-- the one-pass selection of row positions is the position-by-position one -/
theorem idsWhereGo_eq (p : Bin → Bool) : ∀ (l : List Bin) (i : Nat) (acc : Array Nat),
    (idsWhereGo p l i acc).toList = acc.toList ++ ((l.zipIdx i).filter fun x => p x.1).map (·.2) := by
  intro l
  induction l with
  | nil => intro i acc; simp [idsWhereGo]
  | cons b t ih =>
    intro i acc
    rw [idsWhereGo, ih, List.zipIdx_cons, List.filter_cons]
    cases p b <;> simp

theorem idsWhere_eq (p : Bin → Bool) (bins : BinTable) :
    idsWhere p bins = (List.range bins.length).filter fun k =>
      match bins[k]? with
      | some b => p b
      | none => false := by
  unfold idsWhere
  rw [idsWhereGo_eq]
  have := idsWhere_aux p bins 0
  simpa [List.range_eq_range'] using this

theorem overlappingF_eq (bins : BinTable) (c s e : Nat) :
    overlappingF bins c s e = overlapping bins c s e := by
  unfold overlappingF overlapping
  rw [idsWhere_eq]
  apply List.filter_congr
  intro k _
  cases bins[k]? <;> rfl

theorem containingF_eq (bins : BinTable) (c p : Nat) :
    containingF bins c p = containing bins c p := by
  unfold containingF containing
  rw [idsWhere_eq]
  apply List.filter_congr
  intro k _
  cases bins[k]? <;> rfl

theorem selOkF_eq (bins : BinTable) (c s e : Nat) (ids : List Nat) :
    selOkF bins c s e ids = selOk bins c s e ids := by
  unfold selOkF selOk
  rw [overlappingF_eq, containingF_eq]

theorem runOkF_eq (bins : BinTable) (c s e : Nat) (lo : Int) (hi : Nat) :
    runOkF bins c s e lo hi = runOk bins c s e lo hi := by
  unfold runOkF runOk
  rw [selOkF_eq]

theorem pxSelOkF_eq (bins : BinTable) (ps : Pixels) (c s e : Nat) (rows : Pixels) :
    pxSelOkF bins ps c s e rows = pxSelOk bins ps c s e rows := by
  unfold pxSelOkF pxSelOk
  rw [overlappingF_eq, containingF_eq]

theorem offsetOkF_eq (bins : BinTable) (c s e : Nat) (o : Int) :
    offsetOkF bins c s e o = offsetOk bins c s e o := by
  unfold offsetOkF offsetOk
  rw [overlappingF_eq]

example : overlappingF [⟨0, 0, 3⟩, ⟨0, 3, 6⟩, ⟨0, 6, 7⟩, ⟨1, 0, 2⟩] 0 2 7 = [0, 1, 2] ∧
    containingF [⟨0, 0, 3⟩, ⟨0, 3, 6⟩, ⟨0, 6, 7⟩, ⟨1, 0, 2⟩] 0 3 = [0, 1] ∧
    runOkF [⟨0, 0, 10⟩, ⟨0, 10, 25⟩, ⟨1, 0, 10⟩] 0 0 25 0 3 = false ∧
    runOkF [⟨0, 0, 10⟩, ⟨0, 10, 25⟩, ⟨1, 0, 10⟩] 0 0 25 0 2 = true := by decide

/-! ### searching a sorted column one chunk at a time

`searchsorted` over `a ++ b` (two consecutive chunks of `bins/start`) is the sum of the two counts;
a search may STOP after chunk `a` exactly when an element of `a` has reached the probe — `v ≤ x` for
side "left", `v < x` for side "right" — and may SKIP `a` (count all of it) when all of `a` lies
before the probe.  The weaker stop test `v < x` is not enough for side "left" (the example). -/

theorem ssLeft_append (a b : List Nat) (v : Nat) : ssLeft (a ++ b) v = ssLeft a v + ssLeft b v := by
  unfold ssLeft; exact List.countP_append

theorem ssRight_append (a b : List Nat) (v : Nat) : ssRight (a ++ b) v = ssRight a v + ssRight b v := by
  unfold ssRight; exact List.countP_append

theorem ssLeft_stop (a b : List Nat) (hs : (a ++ b).Pairwise (· < ·)) (v x : Nat) (hx : x ∈ a)
    (h : v ≤ x) : ssLeft (a ++ b) v = ssLeft a v := by
  rw [ssLeft_append]
  have hb : ssLeft b v = 0 := by
    unfold ssLeft
    rw [List.countP_eq_zero]
    intro y hy
    have := (List.pairwise_append.mp hs).2.2 x hx y hy
    simp; omega
  omega

theorem ssRight_stop (a b : List Nat) (hs : (a ++ b).Pairwise (· < ·)) (v x : Nat) (hx : x ∈ a)
    (h : v < x) : ssRight (a ++ b) v = ssRight a v := by
  rw [ssRight_append]
  have hb : ssRight b v = 0 := by
    unfold ssRight
    rw [List.countP_eq_zero]
    intro y hy
    have := (List.pairwise_append.mp hs).2.2 x hx y hy
    simp; omega
  omega

theorem ssLeft_skip (a b : List Nat) (v : Nat) (h : ∀ x ∈ a, x < v) :
    ssLeft (a ++ b) v = a.length + ssLeft b v := by
  rw [ssLeft_append]
  have : ssLeft a v = a.length := by
    unfold ssLeft
    rw [List.countP_eq_length]
    intro x hx; simpa using h x hx
  omega

theorem ssRight_skip (a b : List Nat) (v : Nat) (h : ∀ x ∈ a, x ≤ v) :
    ssRight (a ++ b) v = a.length + ssRight b v := by
  rw [ssRight_append]
  have : ssRight a v = a.length := by
    unfold ssRight
    rw [List.countP_eq_length]
    intro x hx; simpa using h x hx
  omega

/-- the last element of chunk `a` EQUALS the probe: stopping is right for side "left" (`ssLeft_stop`), skipping the
chunk is wrong — the range `[0, 5)` on bins starting at 0, 5, 9 ends before the bin that starts at 5 -/
example : ([0, 5] ++ [9] : List Nat).Pairwise (· < ·) ∧ ssLeft ([0, 5] ++ [9]) 5 = ssLeft [0, 5] 5 ∧
    ssLeft ([0, 5] ++ [9]) 5 = 1 ∧ ([0, 5] : List Nat).length + ssLeft [9] 5 = 2 := by decide

end Cooler.C04
