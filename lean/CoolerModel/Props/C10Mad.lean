import CoolerModel.Model.Balance
import Mathlib.Analysis.SpecialFunctions.Log.Basic
import Mathlib.Data.List.Sort
/-!
# C10 — the MAD-max cut without `log`/`exp`

The code masks a bin when `x < exp(median(log x) − mad_max · MAD(log x))`.  The model
(`Cooler.IC.madCut`, `madBelow`) decides this on fourth powers of rationals.

* `madcut_real`, `log_geomean`, `abs_log_sub` — the real-analytic facts behind the translation.
* `map_insSort`, `midPairG_map` — sorting and taking the middle elements commute with any map that
  preserves and reflects `≤` (here `log ∘ cast` on positive rationals); the reference sort is Mathlib's
  `List.insertionSort`, the sorted permutation of the list.
* `madBelow_iff_code` — **the model's decision is the code's**: with `medianR` (mean of the two middle
  elements of the sorted vector = `np.median`) and `madCutoffR` (the code's expression, verbatim, over ℝ),
  `x < madCutoffR xs m ↔ madBelow mc m x` for positive rational `xs`, `madCut xs = some mc`, `x ≥ 0`.

What remains idealised is float64 rounding of `log`/`exp`/`median` (ties are skipped by the harness).
-/

namespace Cooler.C10
open Cooler Cooler.IC

/-- the MAD-max comparison of the code, `x < exp(med − m·dev)` with `med = log g`, `dev = log ρ`,
is the rational comparison the model evaluates on fourth powers -/
theorem madcut_real (x g ρ : ℝ) (m : ℕ) (hx : 0 ≤ x) (hg : 0 < g) (hρ : 0 < ρ) :
    x < Real.exp (Real.log g - m * Real.log ρ) ↔ x ^ 4 * (ρ ^ 4) ^ m < g ^ 4 := by
  have hρm : 0 < ρ ^ m := pow_pos hρ m
  rw [Real.exp_sub, Real.exp_log hg, Real.exp_nat_mul, Real.exp_log hρ, lt_div_iff₀ hρm]
  have h1 : x ^ 4 * (ρ ^ 4) ^ m = (x * ρ ^ m) ^ 4 := by ring
  rw [h1]
  have hnn : 0 ≤ x * ρ ^ m := mul_nonneg hx (le_of_lt hρm)
  constructor
  · intro h; exact pow_lt_pow_left₀ h hnn (by norm_num)
  · intro h; exact lt_of_pow_lt_pow_left₀ 4 (le_of_lt hg) h

/-- the mean of two logarithms (the median of an even number of values) is the logarithm of the
geometric mean `g`, `g² = a·b` -/
theorem log_geomean (a b g : ℝ) (ha : 0 < a) (hb : 0 < b) (hgg : g ^ 2 = a * b) :
    (Real.log a + Real.log b) / 2 = Real.log g := by
  have : Real.log (g ^ 2) = Real.log a + Real.log b := by rw [hgg, Real.log_mul (ne_of_gt ha) (ne_of_gt hb)]
  rw [Real.log_pow] at this
  push_cast at this
  linarith

/-- an absolute deviation of logarithms is the logarithm of `r = max (x/g) (g/x) ≥ 1`; the model
orders the deviations by `r² = max (x²/g²) (g²/x²)` -/
theorem abs_log_sub (x g : ℝ) (hx : 0 < x) (hg : 0 < g) :
    |Real.log x - Real.log g| = Real.log (max (x / g) (g / x)) := by
  rw [← Real.log_div (ne_of_gt hx) (ne_of_gt hg)]
  rcases le_total g x with h | h
  · have h1 : 1 ≤ x / g := by rw [le_div_iff₀ hg]; linarith
    have h2 : g / x ≤ x / g := by
      rw [div_le_div_iff₀ hx hg]; nlinarith
    rw [max_eq_left h2, abs_of_nonneg (Real.log_nonneg h1)]
  · have h1 : 1 ≤ g / x := by rw [le_div_iff₀ hx]; linarith
    have h2 : x / g ≤ g / x := by
      rw [div_le_div_iff₀ hg hx]; nlinarith
    rw [max_eq_right h2]
    have : x / g = (g / x)⁻¹ := by rw [inv_div]
    rw [this, Real.log_inv, abs_neg, abs_of_nonneg (Real.log_nonneg h1)]

/-! ### sorting commutes with an order embedding -/

theorem mem_insSorted (x y : Rat) : ∀ l : List Rat, y ∈ insSorted x l ↔ y = x ∨ y ∈ l
  | [] => by simp [insSorted]
  | a :: t => by
    unfold insSorted
    split
    · simp
    · rw [List.mem_cons, mem_insSorted x y t, List.mem_cons]
      constructor
      · rintro (h | h | h) <;> simp [h]
      · rintro (h | h | h) <;> simp [h]

theorem mem_insSort (y : Rat) : ∀ l : List Rat, y ∈ insSort l ↔ y ∈ l
  | [] => by simp [insSort]
  | a :: t => by
    show y ∈ insSorted a (insSort t) ↔ _
    rw [mem_insSorted, mem_insSort y t, List.mem_cons]

theorem length_insSorted (x : Rat) : ∀ l : List Rat, (insSorted x l).length = l.length + 1
  | [] => rfl
  | a :: t => by
    unfold insSorted
    split
    · rfl
    · simp [length_insSorted x t]

theorem length_insSort : ∀ l : List Rat, (insSort l).length = l.length
  | [] => rfl
  | a :: t => by
    show (insSorted a (insSort t)).length = _
    rw [length_insSorted, length_insSort t]; rfl

theorem map_insSorted (f : Rat → ℝ) (x : Rat) :
    ∀ ys : List Rat, (∀ y ∈ ys, (f x ≤ f y ↔ x ≤ y)) →
      (insSorted x ys).map f = List.orderedInsert (· ≤ ·) (f x) (ys.map f)
  | [], _ => rfl
  | y :: t, h => by
    have hy := h y List.mem_cons_self
    unfold insSorted
    rw [List.map_cons, List.orderedInsert_cons]
    by_cases hxy : x ≤ y
    · rw [if_pos hxy, if_pos (hy.mpr hxy)]; rfl
    · rw [if_neg hxy, if_neg (fun hc => hxy (hy.mp hc)), List.map_cons,
        map_insSorted f x t (fun z hz => h z (List.mem_cons_of_mem y hz))]

/-- **sorting commutes with an order embedding**: the model's insertion sort of the rationals, mapped
through `f`, is the sorted list of the images (Mathlib's `insertionSort`, the unique sorted
permutation) — for any `f` that preserves and reflects `≤` on the elements of the list -/
theorem map_insSort (f : Rat → ℝ) :
    ∀ l : List Rat, (∀ x ∈ l, ∀ y ∈ l, (f x ≤ f y ↔ x ≤ y)) →
      (insSort l).map f = (l.map f).insertionSort (· ≤ ·)
  | [], _ => rfl
  | a :: t, h => by
    show (insSorted a (insSort t)).map f = _
    rw [List.map_cons, List.insertionSort_cons,
      ← map_insSort f t (fun x hx y hy => h x (List.mem_cons_of_mem a hx) y (List.mem_cons_of_mem a hy))]
    apply map_insSorted
    intro y hy
    exact h a List.mem_cons_self y (List.mem_cons_of_mem a ((mem_insSort y t).mp hy))

/-- the two middle elements, for any element type (the model's `midPair` is this at `Rat`) -/
def midPairG {α : Type} (s : List α) : Option (α × α) :=
  let n := s.length
  if n = 0 then none
  else if n % 2 = 1 then (s[n / 2]?).map fun x => (x, x)
  else match s[n / 2 - 1]?, s[n / 2]? with
    | some a, some b => some (a, b)
    | _, _ => none

theorem midPair_eq (s : List Rat) : midPair s = midPairG s := by
  unfold midPair midPairG
  simp only
  split
  · rfl
  · split
    · rfl
    · cases s[s.length / 2 - 1]? <;> cases s[s.length / 2]? <;> rfl

theorem midPairG_map {α β : Type} (f : α → β) (s : List α) :
    midPairG (s.map f) = (midPairG s).map fun ab => (f ab.1, f ab.2) := by
  unfold midPairG
  simp only [List.length_map, List.getElem?_map]
  split
  · rfl
  · split
    · cases s[s.length / 2]? <;> rfl
    · cases s[s.length / 2 - 1]? <;> cases s[s.length / 2]? <;> rfl

theorem midPairG_mem {α : Type} (s : List α) (a b : α) (h : midPairG s = some (a, b)) : a ∈ s ∧ b ∈ s := by
  unfold midPairG at h
  simp only at h
  split at h
  · exact absurd h (by simp)
  · split at h
    · cases hx : s[s.length / 2]? with
      | none => rw [hx] at h; exact absurd h (by simp)
      | some x =>
        rw [hx] at h
        simp only [Option.map_some, Option.some.injEq, Prod.mk.injEq] at h
        have := List.mem_of_getElem? hx
        exact ⟨h.1 ▸ this, h.2 ▸ this⟩
    · cases hx : s[s.length / 2 - 1]? with
      | none => rw [hx] at h; exact absurd h (by simp)
      | some x =>
        cases hy : s[s.length / 2]? with
        | none => rw [hx, hy] at h; exact absurd h (by simp)
        | some y =>
          rw [hx, hy] at h
          simp only [Option.some.injEq, Prod.mk.injEq] at h
          exact ⟨h.1 ▸ List.mem_of_getElem? hx, h.2 ▸ List.mem_of_getElem? hy⟩

/-- `np.median` of a real vector: mean of the two middle elements of the sorted vector (`none` on the
empty vector, where numpy returns NaN) -/
noncomputable def medianR (l : List ℝ) : Option ℝ :=
  (midPairG (l.insertionSort (· ≤ ·))).map fun ab => (ab.1 + ab.2) / 2

/-- the cut-off of the code, verbatim: `exp(median(log x) − mad_max · median|log x − median(log x)|)` -/
noncomputable def madCutoffR (xs : List ℝ) (m : ℕ) : Option ℝ :=
  (medianR (xs.map Real.log)).bind fun med =>
    (medianR ((xs.map Real.log).map fun t => |t - med|)).map fun dev => Real.exp (med - m * dev)

theorem log_cast_le_iff (x y : Rat) (hx : 0 < x) (hy : 0 < y) :
    (Real.log (x : ℝ) ≤ Real.log (y : ℝ) ↔ x ≤ y) := by
  have hx' : (0 : ℝ) < (x : ℝ) := by exact_mod_cast hx
  have hy' : (0 : ℝ) < (y : ℝ) := by exact_mod_cast hy
  rw [Real.log_le_log_iff hx' hy']
  exact_mod_cast Iff.rfl

/-- the rational whose logarithm is twice the absolute log-deviation (the model's `r2`) -/
def r2Of (g2 x : Rat) : Rat := let q := x * x / g2; if q ≤ 1 / q then 1 / q else q

theorem r2Of_pos (g2 x : Rat) (hg : 0 < g2) (hx : 0 < x) : 0 < r2Of g2 x := by
  unfold r2Of
  have hq : 0 < x * x / g2 := div_pos (mul_pos hx hx) hg
  simp only
  split
  · exact div_pos one_pos hq
  · exact hq

/-- `|log x − (log a + log b)/2| = ½ · log r2`, `r2 = max(q, 1/q)`, `q = x²/(ab)` -/
theorem abs_dev_eq (a b x : Rat) (ha : 0 < a) (hb : 0 < b) (hx : 0 < x) :
    |Real.log (x : ℝ) - (Real.log (a : ℝ) + Real.log (b : ℝ)) / 2|
      = (1 / 2) * Real.log ((r2Of (a * b) x : Rat) : ℝ) := by
  have ha' : (0 : ℝ) < (a : ℝ) := by exact_mod_cast ha
  have hb' : (0 : ℝ) < (b : ℝ) := by exact_mod_cast hb
  have hx' : (0 : ℝ) < (x : ℝ) := by exact_mod_cast hx
  have hq : (0 : Rat) < x * x / (a * b) := div_pos (mul_pos hx hx) (mul_pos ha hb)
  have hq' : (0 : ℝ) < ((x * x / (a * b) : Rat) : ℝ) := by exact_mod_cast hq
  have hlogq : Real.log ((x * x / (a * b) : Rat) : ℝ)
      = 2 * (Real.log (x : ℝ) - (Real.log (a : ℝ) + Real.log (b : ℝ)) / 2) := by
    push_cast
    rw [Real.log_div (by positivity) (by positivity), Real.log_mul (ne_of_gt hx') (ne_of_gt hx'),
      Real.log_mul (ne_of_gt ha') (ne_of_gt hb')]
    ring
  have hdev : Real.log (x : ℝ) - (Real.log (a : ℝ) + Real.log (b : ℝ)) / 2
      = (1 / 2) * Real.log ((x * x / (a * b) : Rat) : ℝ) := by rw [hlogq]; ring
  rw [hdev, abs_mul, abs_of_pos (by norm_num : (0 : ℝ) < 1 / 2)]
  congr 1
  unfold r2Of
  simp only
  split
  · rename_i hle
    -- q ≤ 1/q, so q ≤ 1 and |log q| = −log q = log (1/q)
    have hq1 : x * x / (a * b) ≤ 1 := by
      by_contra hc
      have hgt : 1 < x * x / (a * b) := not_le.mp hc
      have : 1 / (x * x / (a * b)) < 1 := by rw [div_lt_one hq]; exact hgt
      linarith
    have hq1' : ((x * x / (a * b) : Rat) : ℝ) ≤ 1 := by exact_mod_cast hq1
    rw [abs_of_nonpos (Real.log_nonpos (le_of_lt hq') hq1')]
    push_cast
    rw [one_div, Real.log_inv]
  · rename_i hle
    have hgt : 1 / (x * x / (a * b)) < x * x / (a * b) := not_le.mp hle
    have hq1 : 1 ≤ x * x / (a * b) := by
      by_contra hc
      have hlt : x * x / (a * b) < 1 := not_le.mp hc
      have : 1 < 1 / (x * x / (a * b)) := by rw [lt_div_iff₀ hq]; linarith
      linarith
    have hq1' : (1 : ℝ) ≤ ((x * x / (a * b) : Rat) : ℝ) := by exact_mod_cast hq1
    rw [abs_of_nonneg (Real.log_nonneg hq1')]

theorem half_log_cast_le_iff (x y : Rat) (hx : 0 < x) (hy : 0 < y) :
    ((1 / 2 : ℝ) * Real.log (x : ℝ) ≤ (1 / 2) * Real.log (y : ℝ) ↔ x ≤ y) := by
  rw [mul_le_mul_iff_of_pos_left (by norm_num : (0 : ℝ) < 1 / 2)]
  exact log_cast_le_iff x y hx hy

theorem medianR_map (f : Rat → ℝ) (l : List Rat) (hf : ∀ x ∈ l, ∀ y ∈ l, (f x ≤ f y ↔ x ≤ y))
    (a b : Rat) (h : midPair (insSort l) = some (a, b)) :
    medianR (l.map f) = some ((f a + f b) / 2) := by
  unfold medianR
  rw [← map_insSort f l hf, midPairG_map, ← midPair_eq, h]
  rfl

/-- **The model's MAD-max decision is the code's**, in exact real arithmetic: for positive rationals
`xs` (the chromosome-normalised marginals), the model's `madCut xs = some mc`, and any `x ≥ 0`,
the code's cut-off `c = exp(median(log xs) − m · median|log xs − median(log xs)|)` exists and
`x < c ↔ madBelow mc m x`.  `np.median` is the mean of the two middle elements of the sorted vector;
sorting and taking middle elements commute with the monotone `log` (`map_insSort`, `midPairG_map`). -/
theorem madBelow_iff_code (xs : List Rat) (hpos : ∀ x ∈ xs, 0 < x) (mc : MadCut) (hmc : madCut xs = some mc)
    (m : ℕ) (x : Rat) (hx : 0 ≤ x) :
    ∃ c : ℝ, madCutoffR (xs.map fun q : Rat => (q : ℝ)) m = some c ∧ ((x : ℝ) < c ↔ madBelow mc m x = true) := by
  unfold madCut at hmc
  cases hmp : midPair (insSort xs) with
  | none => rw [hmp] at hmc; exact absurd hmc (by simp)
  | some ab =>
    obtain ⟨a, b⟩ := ab
    rw [hmp] at hmc
    simp only at hmc
    have hr2 : (xs.map fun x => let q := x * x / (a * b); if q ≤ 1 / q then 1 / q else q) = xs.map (r2Of (a * b)) := rfl
    rw [hr2] at hmc
    cases hmp2 : midPair (insSort (xs.map (r2Of (a * b)))) with
    | none => rw [hmp2] at hmc; exact absurd hmc (by simp)
    | some cd =>
      obtain ⟨c, d⟩ := cd
      rw [hmp2] at hmc
      simp only [Option.some.injEq] at hmc
      -- positivity of the four rationals
      have hab := midPairG_mem _ a b (by rw [← midPair_eq]; exact hmp)
      have ha : 0 < a := hpos a ((mem_insSort a xs).mp hab.1)
      have hb : 0 < b := hpos b ((mem_insSort b xs).mp hab.2)
      have hg2 : 0 < a * b := mul_pos ha hb
      have hr2pos : ∀ r ∈ xs.map (r2Of (a * b)), 0 < r := by
        intro r hr
        obtain ⟨y, hy, rfl⟩ := List.mem_map.mp hr
        exact r2Of_pos _ _ hg2 (hpos y hy)
      have hcd := midPairG_mem _ c d (by rw [← midPair_eq]; exact hmp2)
      have hc : 0 < c := hr2pos c ((mem_insSort c _).mp hcd.1)
      have hd : 0 < d := hr2pos d ((mem_insSort d _).mp hcd.2)
      -- the median of the logarithms
      have hmed : medianR ((xs.map fun q : Rat => (q : ℝ)).map Real.log)
          = some ((Real.log (a : ℝ) + Real.log (b : ℝ)) / 2) := by
        rw [List.map_map]
        exact medianR_map (fun q => Real.log (q : ℝ)) xs
          (fun x hx y hy => log_cast_le_iff x y (hpos x hx) (hpos y hy)) a b hmp
      -- the deviations
      have hdevs : (((xs.map fun q : Rat => (q : ℝ)).map Real.log).map
            fun t => |t - (Real.log (a : ℝ) + Real.log (b : ℝ)) / 2|)
          = (xs.map (r2Of (a * b))).map fun r : Rat => (1 / 2 : ℝ) * Real.log (r : ℝ) := by
        rw [List.map_map, List.map_map, List.map_map]
        apply List.map_congr_left
        intro y hy
        exact abs_dev_eq a b y ha hb (hpos y hy)
      have hdev : medianR ((((xs.map fun q : Rat => (q : ℝ)).map Real.log).map
            fun t => |t - (Real.log (a : ℝ) + Real.log (b : ℝ)) / 2|))
          = some (((1 / 2 : ℝ) * Real.log (c : ℝ) + (1 / 2) * Real.log (d : ℝ)) / 2) := by
        rw [hdevs]
        exact medianR_map (fun r => (1 / 2 : ℝ) * Real.log (r : ℝ)) _
          (fun x hx y hy => half_log_cast_le_iff x y (hr2pos x hx) (hr2pos y hy)) c d hmp2
      refine ⟨Real.exp ((Real.log (a : ℝ) + Real.log (b : ℝ)) / 2
          - m * (((1 / 2 : ℝ) * Real.log (c : ℝ) + (1 / 2) * Real.log (d : ℝ)) / 2)), ?_, ?_⟩
      · unfold madCutoffR
        rw [hmed]
        simp only [Option.bind_some]
        rw [hdev]
        rfl
      · -- the comparison, on fourth powers
        set C := Real.exp ((Real.log (a : ℝ) + Real.log (b : ℝ)) / 2
          - m * (((1 / 2 : ℝ) * Real.log (c : ℝ) + (1 / 2) * Real.log (d : ℝ)) / 2)) with hC
        have ha' : (0 : ℝ) < (a : ℝ) := by exact_mod_cast ha
        have hb' : (0 : ℝ) < (b : ℝ) := by exact_mod_cast hb
        have hc' : (0 : ℝ) < (c : ℝ) := by exact_mod_cast hc
        have hd' : (0 : ℝ) < (d : ℝ) := by exact_mod_cast hd
        have hCpos : 0 < C := Real.exp_pos _
        have hρ : (0 : ℝ) < ((c : ℝ) * d) ^ m := pow_pos (mul_pos hc' hd') m
        have hC4 : C ^ 4 = (((a : ℝ) * b) * (a * b)) / (((c : ℝ) * d) ^ m) := by
          rw [hC, ← Real.exp_nat_mul]
          have : ((4 : ℕ) : ℝ) * ((Real.log (a : ℝ) + Real.log (b : ℝ)) / 2
              - m * (((1 / 2 : ℝ) * Real.log (c : ℝ) + (1 / 2) * Real.log (d : ℝ)) / 2))
              = Real.log (((a : ℝ) * b) * (a * b)) - m * Real.log ((c : ℝ) * d) := by
            rw [Real.log_mul (by positivity) (by positivity), Real.log_mul (ne_of_gt ha') (ne_of_gt hb'),
              Real.log_mul (ne_of_gt hc') (ne_of_gt hd')]
            push_cast; ring
          rw [this, Real.exp_sub, Real.exp_log (by positivity), Real.exp_nat_mul, Real.exp_log (by positivity)]
        have hx' : (0 : ℝ) ≤ (x : ℝ) := by exact_mod_cast hx
        have h1 : (x : ℝ) < C ↔ (x : ℝ) ^ 4 < C ^ 4 := by
          constructor
          · intro h; exact pow_lt_pow_left₀ h hx' (by norm_num)
          · intro h; exact lt_of_pow_lt_pow_left₀ 4 (le_of_lt hCpos) h
        rw [h1, hC4, lt_div_iff₀ hρ, ← hmc]
        unfold madBelow
        simp only [decide_eq_true_eq]
        have : ((x : ℝ) ^ 4 * ((c : ℝ) * d) ^ m < (a : ℝ) * b * (a * b))
            ↔ (((x ^ 4 * (c * d) ^ m : Rat) : ℝ) < ((a * b * (a * b) : Rat) : ℝ)) := by
          push_cast; exact Iff.rfl
        rw [this]
        exact_mod_cast Iff.rfl

end Cooler.C10
