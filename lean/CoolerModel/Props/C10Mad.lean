import Mathlib.Analysis.SpecialFunctions.Log.Basic
/-!
# C10 — the MAD-max cut without `log`/`exp`

The code masks a bin when `x < exp(median(log x) − mad_max · MAD(log x))`.  The model
(`Cooler.IC.madCut`, `madBelow`) decides this on fourth powers of rationals.  The lemmas below are the
real-analytic facts that justify the translation: a median of logarithms is the logarithm of a middle
value or of the geometric mean of the two middle values (`log_geomean`; `log` is monotone, so sorting
`x` sorts `log x`), an absolute deviation of logarithms is `log max(x/g, g/x)` (`abs_log_sub`), and the
cut itself is `x⁴·(ρ⁴)^m < g⁴` (`madcut_real`).  That `np.median`/`np.sort` commute with the monotone
`log` is not formalised; the correspondence compares the model's MAD-max mask with the implementation's
on every case that is not within 10⁻⁸ of a tie.
-/

namespace Cooler.C10

/-- the MAD-max comparison of the code, `x < exp(med − m·dev)` with `med = log g`, `dev = log ρ`,
is the rational comparison the model evaluates on fourth powers -/
theorem madcut_real (x g ρ : ℝ) (m : ℕ) (hx : 0 ≤ x) (hg : 0 < g) (hρ : 0 < ρ) :
    x < Real.exp (Real.log g - m * Real.log ρ) ↔ x ^ 4 * (ρ ^ 4) ^ m < g ^ 4 := by
  have hρm : 0 < ρ ^ m := pow_pos hρ m
  rw [Real.exp_sub, Real.exp_log hg, Real.exp_nat_mul, Real.exp_log hρ, lt_div_iff₀ hρm]
  have h1 : x ^ 4 * (ρ ^ 4) ^ m = (x * ρ ^ m) ^ 4 := by ring
  rw [h1]
  have hnn : 0 ≤ x * ρ ^ m := mul_nonneg hx (le_of_lt hρm)
  constructor
  · intro h; exact pow_lt_pow_left₀ h hnn (by norm_num)
  · intro h; exact lt_of_pow_lt_pow_left₀ 4 (le_of_lt hg) h

/-- the mean of two logarithms (the median of an even number of values) is the logarithm of the
geometric mean `g`, `g² = a·b` -/
theorem log_geomean (a b g : ℝ) (ha : 0 < a) (hb : 0 < b) (hgg : g ^ 2 = a * b) :
    (Real.log a + Real.log b) / 2 = Real.log g := by
  have : Real.log (g ^ 2) = Real.log a + Real.log b := by rw [hgg, Real.log_mul (ne_of_gt ha) (ne_of_gt hb)]
  rw [Real.log_pow] at this
  push_cast at this
  linarith

/-- an absolute deviation of logarithms is the logarithm of `r = max (x/g) (g/x) ≥ 1`; the model
orders the deviations by `r² = max (x²/g²) (g²/x²)` -/
theorem abs_log_sub (x g : ℝ) (hx : 0 < x) (hg : 0 < g) :
    |Real.log x - Real.log g| = Real.log (max (x / g) (g / x)) := by
  rw [← Real.log_div (ne_of_gt hx) (ne_of_gt hg)]
  rcases le_total g x with h | h
  · have h1 : 1 ≤ x / g := by rw [le_div_iff₀ hg]; linarith
    have h2 : g / x ≤ x / g := by
      rw [div_le_div_iff₀ hx hg]; nlinarith
    rw [max_eq_left h2, abs_of_nonneg (Real.log_nonneg h1)]
  · have h1 : 1 ≤ g / x := by rw [le_div_iff₀ hx]; linarith
    have h2 : x / g ≤ g / x := by
      rw [div_le_div_iff₀ hg hx]; nlinarith
    rw [max_eq_right h2]
    have : x / g = (g / x)⁻¹ := by rw [inv_div]
    rw [this, Real.log_inv, abs_neg, abs_of_nonneg (Real.log_nonneg h1)]

end Cooler.C10
