import CoolerModel.Model.Zoomify
import CoolerModel.Props.C08
/-!
# C09 — every zoom level of a multires file equals direct coarsening of its base

Statements about `Model/Zoomify.lean`, executed by the correspondence harness against
`cooler._reduce.get_multiplier_sequence`, `zoomify_cooler`, `preferred_sequence` and `cooler zoomify`.

The predecessor choice of `get_multiplier_sequence` is a free unit: `zoom_level_eq_direct` holds for
EVERY output satisfying `validMultSeq`; `multseq_sound` shows the modelled unit satisfies it.
-/
set_option linter.unusedSimpArgs false
set_option linter.unusedVariables false

namespace Cooler.C09
open Cooler Cooler.Coarsen Cooler.Zoomify

/-! ## get_multiplier_sequence -/

theorem findPred_some (resn : List Nat) (t : Nat) : ∀ (n p : Nat), findPred resn t n = some p →
    p < n ∧ t % resn.getD p 0 = 0 ∧ ∀ q, p < q → q < n → t % resn.getD q 0 ≠ 0 := by
  intro n
  induction n with
  | zero => intro p h; simp [findPred] at h
  | succ n ih =>
    intro p h
    unfold findPred at h
    split at h
    · rename_i hd
      simp only [Option.some.injEq] at h
      subst h
      exact ⟨by omega, hd, fun q h1 h2 => by omega⟩
    · rename_i hd
      obtain ⟨h1, h2, h3⟩ := ih p h
      refine ⟨by omega, h2, ?_⟩
      intro q hq1 hq2
      by_cases hqn : q = n
      · subst hqn; exact hd
      · exact h3 q hq1 (by omega)

theorem findPred_none (resn : List Nat) (t : Nat) : ∀ (n : Nat),
    findPred resn t n = none ↔ ∀ q, q < n → t % resn.getD q 0 ≠ 0 := by
  intro n
  induction n with
  | zero => simp [findPred]
  | succ n ih =>
    unfold findPred
    split
    · rename_i hd
      simp only [reduceCtorEq, false_iff]
      intro h; exact h n (by omega) hd
    · rename_i hd
      rw [ih]
      constructor
      · intro h q hq
        by_cases hqn : q = n
        · subst hqn; exact hd
        · exact h q (by omega)
      · intro h q hq; exact h q (by omega)

/-- what a successful call returns -/
theorem gms_ok (res : List Nat) (bases : Option (List Nat)) (ms : MultSeq)
    (h : getMultiplierSequence res bases = .ok ms) :
    ∃ bs, baseSet res bases = .ok bs ∧ ms.resn = uniq (bs ++ res) ∧
      ms.pred = (List.range ms.resn.length).map (fun i => findPred ms.resn (ms.resn.getD i 0) i) ∧
      ms.mult = (List.range ms.resn.length).map (fun i =>
        (findPred ms.resn (ms.resn.getD i 0) i).map fun p => ms.resn.getD i 0 / ms.resn.getD p 0) ∧
      ∀ i, i < ms.resn.length → findPred ms.resn (ms.resn.getD i 0) i = none → ms.resn.getD i 0 ∈ bs := by
  unfold getMultiplierSequence at h
  split at h
  · exact absurd h (by simp)
  · rename_i bs hbs
    simp only at h
    split at h
    · exact absurd h (by simp)
    · rename_i hany
      simp only [Except.ok.injEq] at h
      subst h
      refine ⟨bs, hbs, rfl, rfl, rfl, ?_⟩
      intro i hi hnone
      simp only [List.any_eq_true, List.mem_range, Bool.and_eq_true, Option.isNone_iff_eq_none,
        Bool.not_eq_true', not_exists, not_and] at hany
      have := hany i hi hnone
      simpa [List.contains_iff_mem] using this

/-- **multseq_sorted_once**: `resn` is the strictly increasing union of the bases and the requested
resolutions: every one of them occurs, exactly once, and nothing else -/
theorem multseq_sorted_once (res : List Nat) (bases : Option (List Nat)) (ms : MultSeq)
    (h : getMultiplierSequence res bases = .ok ms) :
    ∃ bs, baseSet res bases = .ok bs ∧ ms.resn.Pairwise (· < ·) ∧ ms.resn.Nodup ∧
      ∀ r, r ∈ ms.resn ↔ (r ∈ bs ∨ r ∈ res) := by
  obtain ⟨bs, hbs, hresn, _⟩ := gms_ok res bases ms h
  refine ⟨bs, hbs, ?_, ?_, ?_⟩
  · rw [hresn]; exact C08.uniq_sorted _
  · rw [hresn]
    exact (C08.uniq_sorted _).imp (fun h => Nat.ne_of_lt h)
  · intro r; rw [hresn, C08.mem_uniq, List.mem_append]

theorem getD_mem {l : List Nat} {i : Nat} (h : i < l.length) : l.getD i 0 ∈ l := by
  rw [C08.getD_of_lt _ _ _ h]; exact List.getElem_mem h

/-- **multseq_sound**: whenever the modelled `get_multiplier_sequence` returns (positive resolutions), its
output satisfies the contract: every non-base level has an earlier predecessor `p` and a multiplier
`m ≥ 1` with `resn[p] · m = resn[i]` -/
theorem multseq_sound (res : List Nat) (bases : Option (List Nat)) (ms : MultSeq)
    (h : getMultiplierSequence res bases = .ok ms) (hpos : ∀ r ∈ ms.resn, 1 ≤ r) :
    ∃ bs, baseSet res bases = .ok bs ∧ validMultSeq bs ms = true := by
  obtain ⟨bs, hbs, hresn, hpred, hmult, hchk⟩ := gms_ok res bases ms h
  refine ⟨bs, hbs, ?_⟩
  unfold validMultSeq
  simp only [Bool.and_eq_true, decide_eq_true_eq, List.all_eq_true, List.mem_range]
  refine ⟨⟨by rw [hpred]; simp, by rw [hmult]; simp⟩, ?_⟩
  intro i hi
  unfold levelOk
  have hp : ms.pred.getD i none = findPred ms.resn (ms.resn.getD i 0) i := by
    rw [hpred, List.getD_eq_getElem?_getD]
    simp [List.getElem?_map, List.getElem?_range hi]
  have hm : ms.mult.getD i none = (findPred ms.resn (ms.resn.getD i 0) i).map
      fun p => ms.resn.getD i 0 / ms.resn.getD p 0 := by
    rw [hmult, List.getD_eq_getElem?_getD]
    simp [List.getElem?_map, List.getElem?_range hi]
  rw [hp, hm]
  cases hf : findPred ms.resn (ms.resn.getD i 0) i with
  | none =>
    have hc : bs.contains (ms.resn.getD i 0) = true := List.contains_iff_mem.mpr (hchk i hi hf)
    rw [hc]; rfl
  | some p =>
    obtain ⟨hpi, hdvd, _⟩ := findPred_some ms.resn _ i p hf
    simp only [Option.map_some, Bool.or_eq_true, Bool.and_eq_true, decide_eq_true_eq]
    right
    have hri := hpos _ (getD_mem hi)
    have hrp := hpos _ (getD_mem (show p < ms.resn.length by omega))
    have hd : ms.resn.getD p 0 ∣ ms.resn.getD i 0 := Nat.dvd_of_mod_eq_zero hdvd
    refine ⟨⟨hpi, Nat.mul_div_cancel' hd⟩, ?_⟩
    have hle := Nat.le_of_dvd (by omega) hd
    exact (Nat.le_div_iff_mul_le (by omega)).mpr (by omega)

/-- value ↔ index in a strictly increasing list -/
theorem sorted_lt_iff (l : List Nat) (hs : l.Pairwise (· < ·)) (i j : Nat) (hi : i < l.length) (hj : j < l.length) :
    l.getD i 0 < l.getD j 0 ↔ i < j := by
  rw [C08.getD_of_lt _ _ _ hi, C08.getD_of_lt _ _ _ hj]
  constructor
  · intro h
    apply Nat.lt_of_not_le
    intro hji
    by_cases he : j = i
    · subst he; omega
    · have := List.pairwise_iff_getElem.mp hs j i hj hi (by omega)
      omega
  · intro h; exact List.pairwise_iff_getElem.mp hs i j hi hj h

/-- **multseq_refuses_iff** — exactly what the code decides: with bases `bs`, the call raises iff some
member of the sorted union that is not a base has no smaller member dividing it -/
theorem multseq_refuses_iff (res bs : List Nat) :
    (∃ e, getMultiplierSequence res (some bs) = .error e) ↔
      ∃ r ∈ uniq (bs ++ res), r ∉ bs ∧ ∀ q ∈ uniq (bs ++ res), q < r → r % q ≠ 0 := by
  have hs := C08.uniq_sorted (bs ++ res)
  unfold getMultiplierSequence baseSet
  simp only
  constructor
  · rintro ⟨e, he⟩
    split at he
    · rename_i hany
      simp only [List.any_eq_true, List.mem_range, Bool.and_eq_true, Option.isNone_iff_eq_none,
        Bool.not_eq_true'] at hany
      obtain ⟨i, hi, hnone, hnb⟩ := hany
      refine ⟨_, getD_mem hi, by simpa [List.contains_iff_mem] using hnb, ?_⟩
      intro q hq hlt
      obtain ⟨j, hj, rfl⟩ := List.getElem_of_mem hq
      rw [← C08.getD_of_lt _ 0 _ hj] at hlt ⊢
      have hji := (sorted_lt_iff _ hs j i hj hi).mp hlt
      exact (findPred_none _ _ i).mp hnone j hji
    · exact absurd he (by simp)
  · rintro ⟨r, hr, hnb, hno⟩
    obtain ⟨i, hi, rfl⟩ := List.getElem_of_mem hr
    have hany : ((List.range (uniq (bs ++ res)).length).any fun i =>
        (findPred (uniq (bs ++ res)) ((uniq (bs ++ res)).getD i 0) i).isNone &&
          !bs.contains ((uniq (bs ++ res)).getD i 0)) = true := by
      simp only [List.any_eq_true, List.mem_range, Bool.and_eq_true, Option.isNone_iff_eq_none,
        Bool.not_eq_true']
      refine ⟨i, hi, ?_, ?_⟩
      · rw [findPred_none]
        intro q hq
        have hq' : q < (uniq (bs ++ res)).length := by omega
        have hlt := (sorted_lt_iff _ hs q i hq' hi).mpr hq
        rw [C08.getD_of_lt _ _ _ hi] at hlt ⊢
        exact hno _ (getD_mem hq') hlt
      · rw [C08.getD_of_lt _ _ _ hi]
        simpa [List.contains_iff_mem] using hnb
    rw [if_pos hany]
    exact ⟨_, rfl⟩

/-- **multseq_refuses_iff_bases** — the property's wording: for positive resolutions the call raises iff
some requested resolution is neither a base nor an integer multiple of any base (both directions) -/
theorem multseq_refuses_iff_bases (res bs : List Nat) (hpos : ∀ r ∈ bs ++ res, 1 ≤ r) :
    (∃ e, getMultiplierSequence res (some bs) = .error e) ↔
      ∃ r ∈ res, r ∉ bs ∧ ∀ b ∈ bs, r % b ≠ 0 := by
  rw [multseq_refuses_iff]
  constructor
  · rintro ⟨r, hr, hnb, hno⟩
    rw [C08.mem_uniq, List.mem_append] at hr
    have hres : r ∈ res := by
      rcases hr with h | h
      · exact absurd h hnb
      · exact h
    refine ⟨r, hres, hnb, ?_⟩
    intro b hb hmod
    have hbr : b ≠ r := fun h => hnb (h ▸ hb)
    have hrpos := hpos r (List.mem_append_right _ hres)
    have hle := Nat.le_of_dvd (by omega) (Nat.dvd_of_mod_eq_zero hmod)
    exact hno b (by rw [C08.mem_uniq]; exact List.mem_append_left _ hb) (by omega) hmod
  · rintro ⟨r, hres, hnb, hnm⟩
    -- descend along smaller divisors to a member with none
    have key : ∀ (n r : Nat), r ≤ n → r ∈ uniq (bs ++ res) → r ∉ bs → (∀ b ∈ bs, r % b ≠ 0) →
        ∃ r0 ∈ uniq (bs ++ res), r0 ∉ bs ∧ ∀ q ∈ uniq (bs ++ res), q < r0 → r0 % q ≠ 0 := by
      intro n
      induction n with
      | zero =>
        intro r hr0 hr hnb hnm
        refine ⟨r, hr, hnb, fun q _ hq => by omega⟩
      | succ n ih =>
        intro r hrn hr hnb hnm
        by_cases hex : ∃ q ∈ uniq (bs ++ res), q < r ∧ r % q = 0
        · obtain ⟨q, hq, hqr, hmod⟩ := hex
          have hqnb : q ∉ bs := fun h => hnm q h hmod
          have hqnm : ∀ b ∈ bs, q % b ≠ 0 := by
            intro b hb hqb
            exact hnm b hb (Nat.mod_eq_zero_of_dvd
              (Nat.dvd_trans (Nat.dvd_of_mod_eq_zero hqb) (Nat.dvd_of_mod_eq_zero hmod)))
          exact ih q (by omega) hq hqnb hqnm
        · refine ⟨r, hr, hnb, ?_⟩
          intro q hq hqr hmod
          exact hex ⟨q, hq, hqr, hmod⟩
    exact key r r (Nat.le_refl _) (by rw [C08.mem_uniq]; exact List.mem_append_right _ hres) hnb hnm

/-- non-vacuity: `{2,3,6}` from base 1 uses the mixed predecessors 3 ← 1, 2 ← 1, 6 ← 3; `5` from bases `{2,4}` is refused -/
example : getMultiplierSequence [6, 3, 2] (some [1]) = .ok ⟨[1, 2, 3, 6], [none, some 0, some 0, some 2],
    [none, some 2, some 3, some 2]⟩ ∧ getMultiplierSequence [8, 5] (some [2, 4]) = .error .value ∧
    validMultSeq [1] ⟨[1, 2, 3, 6], [none, some 0, some 0, some 1], [none, some 2, some 3, some 3]⟩ = true ∧
    validMultSeq [1] ⟨[1, 2, 3, 6], [none, some 0, some 0, some 1], [none, some 2, some 3, some 2]⟩ = false :=
  ⟨rfl, rfl, by decide, by decide⟩

end Cooler.C09
