import CoolerModel.Props.C09Core
import CoolerModel.Props.C09Legacy
/-! # C09 — umbrella: `C09Core` (multiplier sequence, zoom levels, layout, CLI resolution specs) and `C09Legacy`
(the legacy quad-tree producer `legacy_zoomify`). -/
