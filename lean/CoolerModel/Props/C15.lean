import CoolerModel.Model.FileModel
/-! Property C15 — file-level operations preserve content and touch nothing else. -/
namespace Cooler.C15
open Cooler.FileModel

end Cooler.C15
