import CoolerModel.Props.C15Core
import CoolerModel.Props.C15Depth
-- property C15: core theorems and the link-nesting invariant (namespace `Cooler.C15`)
