import Mathlib.Algebra.Order.BigOperators.Group.Finset
import Mathlib.Algebra.Order.Field.Basic
import Mathlib.Algebra.BigOperators.Field
import Mathlib.Tactic.Linarith
import Mathlib.Tactic.Positivity
import Mathlib.Tactic.FieldSimp
import Mathlib.Tactic.Ring
import Mathlib.Tactic.NormNum
import Mathlib.Tactic.FinCases
import Mathlib.Algebra.BigOperators.Fin
import Mathlib.Algebra.Order.Field.Rat
/-!
# C10 — the analytic core: what a converged iterative-correction run guarantees

Dense formulation over an arbitrary linearly ordered field `K` (the idealisation of float64, DESIGN §3):
`A : ι → ι → K` is the *filtered* symmetric contact matrix, `b` the weight vector before the last
sweep of `_balance_genomewide` (`/repo/src/cooler/_balance.py:87-111`), `marg A b` the vector the code
calls `marg`, `μ = nzmarg.mean()` the value it reports as `scale`, and `upd A b μ` the weights after
`marg = marg / nzmarg.mean(); marg[marg == 0] = 1; bias /= marg`.

The code tests `nzmarg.var() < tol` on the marginals *before* the last update and then updates once
more, so the theorems are about one update step from a nearly flat state.
-/

open Finset

set_option linter.unusedSectionVars false

namespace Cooler.C10
variable {ι : Type*} [Fintype ι] {K : Type*} [Field K] [LinearOrder K] [IsStrictOrderedRing K]

/-- marginal (row sum) of the matrix weighted on both sides: `Σ_j b_i A_ij b_j` -/
def marg (A : ι → ι → K) (b : ι → K) (i : ι) : K := ∑ j, b i * A i j * b j

/-- one IC update with the zero-marginal guard of the code (`marg[marg == 0] = 1`) -/
noncomputable def upd (A : ι → ι → K) (b : ι → K) (μ : K) (i : ι) : K :=
  b i / (if marg A b i = 0 then 1 else marg A b i / μ)

theorem marg_nonneg (A : ι → ι → K) (hA : ∀ i j, 0 ≤ A i j) (b : ι → K) (hb : ∀ i, 0 ≤ b i) (k : ι) :
    0 ≤ marg A b k :=
  Finset.sum_nonneg (fun j _ => mul_nonneg (mul_nonneg (hb k) (hA k j)) (hb j))

/-- **Final-step bound.**  If every non-zero marginal is within `δ μ` of `μ` then after the code's
update every bin that had a non-zero marginal has its marginal in `[μ/(1+δ), μ/(1−δ)]`. -/
theorem final_step_bound (A : ι → ι → K) (hA : ∀ i j, 0 ≤ A i j) (hsym : ∀ i j, A i j = A j i)
    (b : ι → K) (hb : ∀ i, 0 ≤ b i) (μ δ : K) (hμ : 0 < μ) (hδ0 : 0 ≤ δ) (hδ1 : δ < 1)
    (hclose : ∀ i, marg A b i ≠ 0 → |marg A b i - μ| ≤ δ * μ)
    (i : ι) (hi : marg A b i ≠ 0) :
    μ / (1 + δ) ≤ marg A (upd A b μ) i ∧ marg A (upd A b μ) i ≤ μ / (1 - δ) := by
  -- notation
  set t : ι → K := fun j => b i * A i j * b j with ht
  have ht0 : ∀ j, 0 ≤ t j := fun j => mul_nonneg (mul_nonneg (hb i) (hA i j)) (hb j)
  have hmi : marg A b i = ∑ j, t j := rfl
  have hmargnn : ∀ k, 0 ≤ marg A b k := fun k =>
    Finset.sum_nonneg (fun j _ => mul_nonneg (mul_nonneg (hb k) (hA k j)) (hb j))
  have hmipos : 0 < marg A b i := lt_of_le_of_ne (hmargnn i) (Ne.symm hi)
  -- m j for contributing j lies in [1-δ, 1+δ]
  have hm : ∀ k, marg A b k ≠ 0 → (1 - δ) ≤ marg A b k / μ ∧ marg A b k / μ ≤ (1 + δ) := by
    intro k hk
    have := abs_le.mp (hclose k hk)
    constructor
    · rw [le_div_iff₀ hμ]; nlinarith [this.1]
    · rw [div_le_iff₀ hμ]; nlinarith [this.2]
  have h1δ : 0 < 1 - δ := by linarith
  have h1δ' : 0 < 1 + δ := by linarith
  -- each term
  have hterm : ∀ j, t j / (1 + δ) ≤ t j / (if marg A b j = 0 then 1 else marg A b j / μ) ∧
      t j / (if marg A b j = 0 then 1 else marg A b j / μ) ≤ t j / (1 - δ) := by
    intro j
    by_cases hj : marg A b j = 0
    · -- then t j = 0
      have : t j = 0 := by
        have hle : b j * A j i * b i ≤ marg A b j :=
          Finset.single_le_sum (f := fun k => b j * A j k * b k)
            (fun k _ => mul_nonneg (mul_nonneg (hb j) (hA j k)) (hb k)) (Finset.mem_univ i)
        have : t j = b j * A j i * b i := by simp only [ht, hsym i j]; ring
        rw [hj] at hle
        exact le_antisymm (this ▸ hle) (ht0 j)
      simp [this]
    · simp only [hj, if_false]
      obtain ⟨hlo, hhi⟩ := hm j hj
      have hpos : 0 < marg A b j / μ := lt_of_lt_of_le h1δ hlo
      constructor
      · exact div_le_div_of_nonneg_left (ht0 j) hpos hhi
      · exact div_le_div_of_nonneg_left (ht0 j) h1δ hlo
  -- rewrite the new marginal
  have hnew : marg A (upd A b μ) i
      = (∑ j, t j / (if marg A b j = 0 then 1 else marg A b j / μ)) / (marg A b i / μ) := by
    have hexp : ∀ j, upd A b μ i * A i j * upd A b μ j
        = t j / (if marg A b j = 0 then 1 else marg A b j / μ) / (marg A b i / μ) := by
      intro j
      have hui : upd A b μ i = b i / (marg A b i / μ) := by unfold upd; simp only [hi, if_false]
      have huj : upd A b μ j = b j / (if marg A b j = 0 then 1 else marg A b j / μ) := rfl
      rw [hui, huj]
      generalize (if marg A b j = 0 then 1 else marg A b j / μ) = mj
      generalize (marg A b i / μ) = mi
      simp only [ht]
      ring
    show ∑ j, upd A b μ i * A i j * upd A b μ j = _
    rw [Finset.sum_div]
    exact Finset.sum_congr rfl (fun j _ => hexp j)
  have hmiμ : 0 < marg A b i / μ := div_pos hmipos hμ
  rw [hnew]
  constructor
  · rw [le_div_iff₀ hmiμ]
    calc μ / (1 + δ) * (marg A b i / μ) = (∑ j, t j) / (1 + δ) := by
            rw [hmi]; field_simp
      _ = ∑ j, t j / (1 + δ) := by rw [Finset.sum_div]
      _ ≤ _ := Finset.sum_le_sum (fun j _ => (hterm j).1)
  · rw [div_le_iff₀ hmiμ]
    calc (∑ j, t j / (if marg A b j = 0 then 1 else marg A b j / μ))
          ≤ ∑ j, t j / (1 - δ) := Finset.sum_le_sum (fun j _ => (hterm j).2)
      _ = (∑ j, t j) / (1 - δ) := by rw [Finset.sum_div]
      _ = μ / (1 - δ) * (marg A b i / μ) := by rw [hmi]; field_simp

/-- non-vacuity: the all-ones 2×2 matrix with weights (9/10, 11/10) has marginals 1.8 and 2.2,
`μ = 2`, `δ = 1/10`; the theorem gives the bound for the updated weights. -/
example : (2 : ℚ) / (1 + 1 / 10) ≤
    marg (fun _ _ : Fin 2 => (1 : ℚ)) (upd (fun _ _ : Fin 2 => (1 : ℚ))
      (fun i : Fin 2 => if i = 0 then 9 / 10 else 11 / 10) 2) 0 := by
  have hm0 : marg (fun _ _ : Fin 2 => (1 : ℚ)) (fun i : Fin 2 => if i = 0 then 9 / 10 else 11 / 10) 0 = 9 / 5 := by
    simp [marg, Fin.sum_univ_two]; norm_num
  have hm1 : marg (fun _ _ : Fin 2 => (1 : ℚ)) (fun i : Fin 2 => if i = 0 then 9 / 10 else 11 / 10) 1 = 11 / 5 := by
    simp [marg, Fin.sum_univ_two]; norm_num
  refine (final_step_bound (fun _ _ : Fin 2 => (1 : ℚ)) (fun _ _ => by norm_num) (fun _ _ => rfl)
    (fun i : Fin 2 => if i = 0 then 9 / 10 else 11 / 10) ?_ 2 (1 / 10) (by norm_num) (by norm_num)
    (by norm_num) ?_ 0 ?_).1
  · intro i; split <;> norm_num
  · intro i _
    fin_cases i
    · rw [show ((⟨0, by omega⟩ : Fin 2)) = 0 from rfl, hm0]; rw [abs_le]; constructor <;> norm_num
    · rw [show ((⟨1, by omega⟩ : Fin 2)) = 1 from rfl, hm1]; rw [abs_le]; constructor <;> norm_num
  · rw [hm0]; norm_num

/-! ## From the variance test to `δ` -/

/-- `numpy.mean` of the values `m i`, `i ∈ s` -/
def mean (s : Finset ι) (m : ι → K) : K := (∑ i ∈ s, m i) / (s.card : K)

/-- `numpy.var` (population variance, `ddof = 0`): `mean(|x − x.mean()|²)` -/
def variance (s : Finset ι) (m : ι → K) : K := (∑ i ∈ s, (m i - mean s m) ^ 2) / (s.card : K)

/-- a sum of squares about *any* centre `c` below `T` bounds every single deviation -/
theorem dev_le_of_sumsq_lt (s : Finset ι) (m : ι → K) (c T r : K) (hr : 0 ≤ r)
    (hsum : ∑ i ∈ s, (m i - c) ^ 2 < T) (hT : T ≤ r ^ 2) : ∀ i ∈ s, |m i - c| ≤ r := by
  intro i hi
  have h1 : (m i - c) ^ 2 ≤ ∑ k ∈ s, (m k - c) ^ 2 :=
    Finset.single_le_sum (f := fun k => (m k - c) ^ 2) (fun k _ => sq_nonneg _) hi
  have h2 : (m i - c) ^ 2 ≤ r ^ 2 := le_trans h1 (le_of_lt (lt_of_lt_of_le hsum hT))
  exact abs_le_of_sq_le_sq h2 hr

/-- **The tolerance gives `δ`.**  `s` = the bins with a non-zero marginal, `N` their number,
`μ = mean` (the reported `scale`), `variance < tol` (the code's convergence test; absolute, not
relative).  Then for every `δ ≥ 0` with `tol·N ≤ δ²μ²` (in ℝ: `δ = √(tol·N)/μ`) every non-zero
marginal satisfies `|marg i − μ| ≤ δ μ`.  Nothing follows when `tol·N ≥ μ²` (no `δ < 1` exists). -/
theorem variance_gives_delta (s : Finset ι) (m : ι → K) (tol δ : K)
    (hN : 0 < s.card) (hvar : variance s m < tol) (hδ0 : 0 ≤ δ) (hμ : 0 ≤ mean s m)
    (hδ : tol * (s.card : K) ≤ δ ^ 2 * (mean s m) ^ 2) :
    ∀ i ∈ s, |m i - mean s m| ≤ δ * mean s m := by
  have hNK : (0 : K) < (s.card : K) := by exact_mod_cast hN
  have hsum : ∑ i ∈ s, (m i - mean s m) ^ 2 < tol * (s.card : K) := by
    unfold variance at hvar
    rwa [div_lt_iff₀ hNK] at hvar
  refine dev_le_of_sumsq_lt s m (mean s m) (tol * (s.card : K)) (δ * mean s m)
    (mul_nonneg hδ0 hμ) hsum ?_
  rw [mul_pow]; exact hδ

/-- non-vacuity: marginals 9, 10, 11 have mean 10 and variance 2/3 < 1 = tol; `δ = 1/5` works
(`tol·N = 3 ≤ 4 = δ²μ²`), and indeed every deviation is `≤ 2`. -/
example : ∀ i ∈ (Finset.univ : Finset (Fin 3)),
    |(fun k : Fin 3 => (9 + (k.val : ℚ))) i - mean Finset.univ (fun k : Fin 3 => (9 + (k.val : ℚ)))|
      ≤ (1 / 5) * mean Finset.univ (fun k : Fin 3 => (9 + (k.val : ℚ))) := by
  have hmean : mean (Finset.univ : Finset (Fin 3)) (fun k : Fin 3 => (9 + (k.val : ℚ))) = 10 := by
    simp [mean, Fin.sum_univ_three]; norm_num
  apply variance_gives_delta (tol := 1)
  · simp
  · rw [variance, hmean]; simp [Fin.sum_univ_three]; norm_num
  · norm_num
  · rw [hmean]; norm_num
  · rw [hmean]; simp; norm_num

/-- the set of bins with a non-zero marginal (`nzmarg`) -/
def nz (A : ι → ι → K) (b : ι → K) : Finset ι := Finset.univ.filter (fun i => marg A b i ≠ 0)

/-- the mean of the non-zero marginals of a non-negative problem is positive -/
theorem mean_nz_pos (A : ι → ι → K) (hA : ∀ i j, 0 ≤ A i j) (b : ι → K) (hb : ∀ i, 0 ≤ b i)
    (hN : 0 < (nz A b).card) : 0 < mean (nz A b) (marg A b) := by
  unfold mean
  have hNK : (0 : K) < ((nz A b).card : K) := by exact_mod_cast hN
  apply div_pos _ hNK
  apply Finset.sum_pos
  · intro i hi
    have : marg A b i ≠ 0 := (Finset.mem_filter.mp hi).2
    exact lt_of_le_of_ne (marg_nonneg A hA b hb i) (Ne.symm this)
  · exact Finset.card_pos.mp hN

/-- rescaling by any `c` with `c·c = μ` (the code divides by `np.sqrt(scale)`) divides the marginal by `μ` -/
theorem marg_rescale (A : ι → ι → K) (b : ι → K) (c μ : K) (hc : c * c = μ) (hμ : μ ≠ 0) (i : ι) :
    marg A (fun k => b k / c) i = marg A b i / μ := by
  have hc0 : c ≠ 0 := by rintro rfl; simp at hc; exact hμ hc.symm
  unfold marg
  rw [Finset.sum_div]
  apply Finset.sum_congr rfl
  intro j _
  subst hc
  field_simp

/-- **Converged runs are flat within a bound that follows from `tol` and `scale`.**
`A ≥ 0` symmetric (the filtered matrix), `b ≥ 0` the weights before the last sweep, `μ = scale` the mean
of the `N` non-zero marginals, `var < tol` (convergence reported), `δ ≥ 0` with `tol·N ≤ δ²μ²` and
`δ < 1`.  Then after the last update and the rescaling by `1/√scale`, every bin that had a non-zero
marginal has row sum in `[1/(1+δ), 1/(1−δ)]`; without rescaling the row sums lie in
`[μ/(1+δ), μ/(1−δ)]`. -/
theorem converged_rowsums_bound (A : ι → ι → K) (hA : ∀ i j, 0 ≤ A i j) (hsym : ∀ i j, A i j = A j i)
    (b : ι → K) (hb : ∀ i, 0 ≤ b i) (tol δ : K)
    (hN : 0 < (nz A b).card)
    (hvar : variance (nz A b) (marg A b) < tol)
    (hδ0 : 0 ≤ δ) (hδ1 : δ < 1)
    (hδ : tol * ((nz A b).card : K) ≤ δ ^ 2 * (mean (nz A b) (marg A b)) ^ 2)
    (i : ι) (hi : marg A b i ≠ 0) :
    let μ := mean (nz A b) (marg A b)
    (μ / (1 + δ) ≤ marg A (upd A b μ) i ∧ marg A (upd A b μ) i ≤ μ / (1 - δ)) ∧
    ∀ c : K, c * c = μ →
      1 / (1 + δ) ≤ marg A (fun k => upd A b μ k / c) i ∧
      marg A (fun k => upd A b μ k / c) i ≤ 1 / (1 - δ) := by
  intro μ
  have hμ : 0 < μ := mean_nz_pos A hA b hb hN
  have hclose : ∀ k, marg A b k ≠ 0 → |marg A b k - μ| ≤ δ * μ := by
    intro k hk
    exact variance_gives_delta (nz A b) (marg A b) tol δ hN hvar hδ0 (le_of_lt hμ) hδ k
      (Finset.mem_filter.mpr ⟨Finset.mem_univ k, hk⟩)
  have hb1 := final_step_bound A hA hsym b hb μ δ hμ hδ0 hδ1 hclose i hi
  refine ⟨hb1, ?_⟩
  intro c hc
  rw [marg_rescale A (upd A b μ) c μ hc (ne_of_gt hμ) i]
  have h1δ : 0 < 1 - δ := by linarith
  have h1δ' : 0 < 1 + δ := by linarith
  constructor
  · rw [le_div_iff₀ hμ]
    calc 1 / (1 + δ) * μ = μ / (1 + δ) := by ring
      _ ≤ _ := hb1.1
  · rw [div_le_iff₀ hμ]
    calc marg A (upd A b μ) i ≤ μ / (1 - δ) := hb1.2
      _ = 1 / (1 - δ) * μ := by ring

/-! ## cis-only: the same per chromosome -/

variable {κ : Type*} [DecidableEq κ]

/-- intra-chromosomal part of `A` belonging to chromosome `C` (what `_zero_trans` plus the pixel span
of chromosome `C` leave) -/
def cisBlock (chr : ι → κ) (C : κ) (A : ι → ι → K) (i j : ι) : K :=
  if chr i = C ∧ chr j = C then A i j else 0

theorem cisBlock_nonneg (chr : ι → κ) (C : κ) (A : ι → ι → K) (hA : ∀ i j, 0 ≤ A i j) :
    ∀ i j, 0 ≤ cisBlock chr C A i j := by
  intro i j; unfold cisBlock; split
  · exact hA i j
  · exact le_refl 0

theorem cisBlock_symm (chr : ι → κ) (C : κ) (A : ι → ι → K) (hsym : ∀ i j, A i j = A j i) :
    ∀ i j, cisBlock chr C A i j = cisBlock chr C A j i := by
  intro i j; unfold cisBlock
  by_cases h : chr i = C ∧ chr j = C
  · rw [if_pos h, if_pos ⟨h.2, h.1⟩]; exact hsym i j
  · rw [if_neg h, if_neg (fun h' => h ⟨h'.2, h'.1⟩)]

/-- weights of other chromosomes do not enter the marginals of chromosome `C`'s block -/
theorem cisBlock_marg_congr (chr : ι → κ) (C : κ) (A : ι → ι → K) (b b' : ι → K)
    (hbb : ∀ k, chr k = C → b' k = b k) (i : ι) :
    marg (cisBlock chr C A) b' i = marg (cisBlock chr C A) b i := by
  unfold marg cisBlock
  apply Finset.sum_congr rfl
  intro j _
  by_cases h : chr i = C ∧ chr j = C
  · rw [if_pos h, hbb i h.1, hbb j h.2]
  · rw [if_neg h]; simp

/-- the update driven by chromosome `C`'s block leaves every other chromosome's weights alone
(the code writes `bias[lo:hi]` only) -/
theorem upd_cisBlock_other (chr : ι → κ) (C : κ) (A : ι → ι → K) (b : ι → K) (μ : K) (k : ι)
    (hk : chr k ≠ C) : upd (cisBlock chr C A) b μ k = b k := by
  have : marg (cisBlock chr C A) b k = 0 := by
    unfold marg cisBlock
    apply Finset.sum_eq_zero
    intro j _
    rw [if_neg (fun h => hk h.1)]; simp
  unfold upd; rw [if_pos this]; simp

/-- **cis-only bound**: on intra-chromosomal data the final-step bound holds per chromosome, for the
chromosome's own `μ` (its `scale`) and `δ`, whatever the sweeps of the other chromosomes did
(`b'` is any final weight vector that agrees with the updated one on chromosome `C`). -/
theorem cis_bound (chr : ι → κ) (C : κ) (A : ι → ι → K) (hA : ∀ i j, 0 ≤ A i j)
    (hsym : ∀ i j, A i j = A j i) (b : ι → K) (hb : ∀ i, 0 ≤ b i) (μ δ : K) (hμ : 0 < μ)
    (hδ0 : 0 ≤ δ) (hδ1 : δ < 1)
    (hclose : ∀ i, marg (cisBlock chr C A) b i ≠ 0 → |marg (cisBlock chr C A) b i - μ| ≤ δ * μ)
    (b' : ι → K) (hb' : ∀ k, chr k = C → b' k = upd (cisBlock chr C A) b μ k)
    (i : ι) (hi : marg (cisBlock chr C A) b i ≠ 0) :
    μ / (1 + δ) ≤ marg (cisBlock chr C A) b' i ∧ marg (cisBlock chr C A) b' i ≤ μ / (1 - δ) := by
  rw [cisBlock_marg_congr chr C A (upd (cisBlock chr C A) b μ) b' hb' i]
  exact final_step_bound (cisBlock chr C A) (cisBlock_nonneg chr C A hA) (cisBlock_symm chr C A hsym)
    b hb μ δ hμ hδ0 hδ1 hclose i hi

/-! ## trans-only (finding D18) and `ignore_diags = 0` (finding D17): what *is* provable -/

/-- inter-chromosomal part of `A` (what `_zero_cis` leaves) -/
def transPart (chr : ι → κ) (A : ι → ι → K) (i j : ι) : K := if chr i = chr j then 0 else A i j

theorem transPart_nonneg (chr : ι → κ) (A : ι → ι → K) (hA : ∀ i j, 0 ≤ A i j) :
    ∀ i j, 0 ≤ transPart chr A i j := by
  intro i j; unfold transPart; split
  · exact le_refl 0
  · exact hA i j

theorem transPart_symm (chr : ι → κ) (A : ι → ι → K) (hsym : ∀ i j, A i j = A j i) :
    ∀ i j, transPart chr A i j = transPart chr A j i := by
  intro i j; unfold transPart
  by_cases h : chr i = chr j
  · rw [if_pos h, if_pos h.symm]
  · rw [if_neg h, if_neg (fun h' => h h'.symm)]; exact hsym i j

/-- the code's trans-only update: the marginal is taken with `bias * cweights`, the division is applied
to `bias` -/
noncomputable def updTrans (A : ι → ι → K) (cw b : ι → K) (μ : K) (i : ι) : K :=
  b i / (if marg A (fun k => b k * cw k) i = 0 then 1 else marg A (fun k => b k * cw k) i / μ)

/-- **trans-only, partial.**  What converged trans-only weights flatten is the *chromosome-weighted*
marginal `Σ_j (cw_i b_i) A_ij (cw_j b_j)` of the inter-chromosomal matrix, not its row sums under the
returned weights `b` (see `Cooler.C10.trans_rowsums_not_flat` for the machine-checked witness). -/
theorem trans_bound_partial (chr : ι → κ) (A : ι → ι → K) (hA : ∀ i j, 0 ≤ A i j)
    (hsym : ∀ i j, A i j = A j i) (cw b : ι → K) (hcw : ∀ i, 0 ≤ cw i) (hb : ∀ i, 0 ≤ b i)
    (μ δ : K) (hμ : 0 < μ) (hδ0 : 0 ≤ δ) (hδ1 : δ < 1)
    (hclose : ∀ i, marg (transPart chr A) (fun k => b k * cw k) i ≠ 0 →
      |marg (transPart chr A) (fun k => b k * cw k) i - μ| ≤ δ * μ)
    (i : ι) (hi : marg (transPart chr A) (fun k => b k * cw k) i ≠ 0) :
    μ / (1 + δ) ≤ marg (transPart chr A) (fun k => updTrans (transPart chr A) cw b μ k * cw k) i ∧
    marg (transPart chr A) (fun k => updTrans (transPart chr A) cw b μ k * cw k) i ≤ μ / (1 - δ) := by
  have hfun : (fun k => updTrans (transPart chr A) cw b μ k * cw k)
      = upd (transPart chr A) (fun k => b k * cw k) μ := by
    funext k; unfold updTrans upd; ring
  rw [hfun]
  exact final_step_bound (transPart chr A) (transPart_nonneg chr A hA) (transPart_symm chr A hsym)
    (fun k => b k * cw k) (fun k => mul_nonneg (hb k) (hcw k)) μ δ hμ hδ0 hδ1 hclose i hi

/-- the matrix whose row sums `_marginalize` computes when the main diagonal is kept: every diagonal
entry counted twice (`Cooler.C10.marginalize_diag_double`) -/
def diagDoubled (A : ι → ι → K) [DecidableEq ι] (i j : ι) : K := if i = j then A i j + A i j else A i j

/-- **`ignore_diags = 0`, partial.**  Converged weights flatten the row sums of the matrix with a
doubled main diagonal, not those of the matrix itself. -/
theorem diag_partial [DecidableEq ι] (A : ι → ι → K) (hA : ∀ i j, 0 ≤ A i j)
    (hsym : ∀ i j, A i j = A j i) (b : ι → K) (hb : ∀ i, 0 ≤ b i) (μ δ : K) (hμ : 0 < μ)
    (hδ0 : 0 ≤ δ) (hδ1 : δ < 1)
    (hclose : ∀ i, marg (diagDoubled A) b i ≠ 0 → |marg (diagDoubled A) b i - μ| ≤ δ * μ)
    (i : ι) (hi : marg (diagDoubled A) b i ≠ 0) :
    μ / (1 + δ) ≤ marg (diagDoubled A) (upd (diagDoubled A) b μ) i ∧
    marg (diagDoubled A) (upd (diagDoubled A) b μ) i ≤ μ / (1 - δ) := by
  apply final_step_bound (diagDoubled A) _ _ b hb μ δ hμ hδ0 hδ1 hclose i hi
  · intro i j; unfold diagDoubled; split
    · exact add_nonneg (hA i j) (hA i j)
    · exact hA i j
  · intro i j; unfold diagDoubled
    by_cases h : i = j
    · subst h; rfl
    · rw [if_neg h, if_neg (fun h' => h h'.symm)]; exact hsym i j

end Cooler.C10
