import CoolerModel.Model.LegacyZoom
import CoolerModel.Props.C09Core
/-!
# legacy (quad-tree) zoomify: every level is the direct coarsening of the base

`legacy_level_eq_direct` — for every valid base level, every chunk size `≥ 1` and every depth `n`: the `k`-th level
below the base (file path `::(n-k)`) is the L0 coarsening of the base by `2^k`, whatever chain of factor-2 steps
produced it; `legacy_levels_ok` — every level meets the hypotheses of the C08/C02 theorems (strictly sorted, in range,
over a well-formed table); `quadtreeDepth_spec` — the depth is the least `d` such that `2^d` tiles of
`tile · binsize` bp cover the genome.
-/
set_option linter.unusedSimpArgs false
set_option linter.unusedVariables false

namespace Cooler.C09
open Cooler Cooler.Coarsen Cooler.Zoomify Cooler.LegacyZoom


/-- the level list has `n + 1` members -/
theorem legacyDown_length (cs : Nat) : ∀ (n : Nat) (l : Level), (legacyDown cs n l).length = n + 1 := by
  intro n
  induction n with
  | zero => intro l; rfl
  | succ n ih => intro l; simp [legacyDown, ih]

/-- **legacy_level_eq_direct** -/
theorem legacy_level_eq_direct (cs : Nat) (hcs : 1 ≤ cs) :
    ∀ (n : Nat) (base : Level), LevelOk base → ∀ k, k ≤ n →
      (legacyDown cs n base)[k]? = some (if k = 0 then base else specLevel (2 ^ k) base) := by
  intro n
  induction n with
  | zero =>
    intro base _ k hk
    have : k = 0 := by omega
    subst this; rfl
  | succ n ih =>
    intro base hb k hk
    cases k with
    | zero => rfl
    | succ k =>
      simp only [legacyDown, List.getElem?_cons_succ]
      have h2 : coarsenLevel cs 2 base = specLevel 2 base := coarsenLevel_eq_spec cs 2 hcs (by omega) base hb
      rw [h2, ih (specLevel 2 base) (specLevel_ok 2 (by omega) base hb) k (by omega)]
      have hne : (k + 1 = 0) = False := by simp
      simp only [hne, if_false]
      by_cases hk0 : k = 0
      · subst hk0; simp
      · simp only [hk0, if_false]
        rw [specLevel_compose 2 (2 ^ k) (by omega) Nat.one_le_two_pow base hb]
        congr 1
        rw [Nat.pow_succ, Nat.mul_comm]

/-- every legacy level is a valid level (the hypotheses `C02.create_valid` / `C08.coarsen_correct` need) -/
theorem legacy_levels_ok (cs : Nat) (hcs : 1 ≤ cs) :
    ∀ (n : Nat) (base : Level), LevelOk base → ∀ l ∈ legacyDown cs n base, LevelOk l := by
  intro n
  induction n with
  | zero => intro base hb l hl; simp [legacyDown] at hl; subst hl; exact hb
  | succ n ih =>
    intro base hb l hl
    simp only [legacyDown, List.mem_cons] at hl
    rcases hl with h | h
    · subst h; exact hb
    · have h2 : coarsenLevel cs 2 base = specLevel 2 base := coarsenLevel_eq_spec cs 2 hcs (by omega) base hb
      rw [h2] at h
      exact ih _ (specLevel_ok 2 (by omega) base hb) l h

/-- chunk size never matters -/
theorem legacy_chunk_independent (c1 c2 : Nat) (h1 : 1 ≤ c1) (h2 : 1 ≤ c2) (n : Nat) (base : Level)
    (hb : LevelOk base) : legacyDown c1 n base = legacyDown c2 n base := by
  apply List.ext_getElem?
  intro k
  by_cases hk : k ≤ n
  · rw [legacy_level_eq_direct c1 h1 n base hb k hk, legacy_level_eq_direct c2 h2 n base hb k hk]
  · have l1 := legacyDown_length c1 n base
    have l2 := legacyDown_length c2 n base
    rw [List.getElem?_eq_none (by omega), List.getElem?_eq_none (by omega)]

/-- the recorded bin sizes: level `n - k` is recorded with `2^k · b` -/
theorem legacyBinsizes_get : ∀ (n b k : Nat), k ≤ n → (legacyBinsizes n b)[k]? = some (n - k, 2 ^ k * b) := by
  intro n
  induction n with
  | zero => intro b k hk; have : k = 0 := by omega
            subst this; simp [legacyBinsizes]
  | succ n ih =>
    intro b k hk
    cases k with
    | zero => simp [legacyBinsizes]
    | succ k =>
      simp only [legacyBinsizes, List.getElem?_cons_succ]
      rw [ih (2 * b) k (by omega)]
      simp only [Option.some.injEq, Prod.mk.injEq]
      constructor
      · omega
      · rw [Nat.pow_succ]; ac_rfl

/-! ## quad-tree depth -/

theorem clog2From_spec (n : Nat) : ∀ (fuel d : Nat), n ≤ 2 ^ (d + fuel) → (∀ e, e < d → 2 ^ e < n) →
    n ≤ 2 ^ clog2From n fuel d ∧ ∀ e, e < clog2From n fuel d → 2 ^ e < n := by
  intro fuel
  induction fuel with
  | zero => intro d h hm; exact ⟨by simpa [clog2From] using h, by simpa [clog2From] using hm⟩
  | succ fuel ih =>
    intro d h hm
    unfold clog2From
    split
    · rename_i hle; exact ⟨hle, hm⟩
    · rename_i hnle
      apply ih (d + 1) (by rw [show d + 1 + fuel = d + (fuel + 1) by omega]; exact h)
      intro e he
      by_cases hed : e < d
      · exact hm e hed
      · have : e = d := by omega
        subst this; omega

/-- **clog2_spec**: `clog2 n` is the least `d` with `n ≤ 2^d` -/
theorem clog2_spec (n : Nat) : n ≤ 2 ^ clog2 n ∧ ∀ e, e < clog2 n → 2 ^ e < n := by
  unfold clog2
  apply clog2From_spec n n 0
  · simp only [Nat.zero_add]; exact Nat.le_of_lt Nat.lt_two_pow_self
  · intro e he; omega

/-- **quadtreeDepth_spec**: `2^d` tiles of `tile·binsize` bp cover the genome, and no smaller power of two does -/
theorem quadtreeDepth_spec (total binsize tile : Nat) (hp : 1 ≤ tile * binsize) :
    total ≤ 2 ^ quadtreeDepth total binsize tile * (tile * binsize) ∧
    ∀ e, e < quadtreeDepth total binsize tile → 2 ^ e * (tile * binsize) < total := by
  obtain ⟨h1, h2⟩ := clog2_spec (ceilDiv total (tile * binsize))
  unfold quadtreeDepth
  constructor
  · have := C20.le_ceilDiv_mul (L := total) (b := tile * binsize) hp
    exact Nat.le_trans this (Nat.mul_le_mul_right _ h1)
  · intro e he
    have hlt := h2 e he
    -- 2^e < ceilDiv total p  →  2^e * p < total
    unfold ceilDiv at hlt
    have : 2 ^ e + 1 ≤ (total + tile * binsize - 1) / (tile * binsize) := hlt
    rw [Nat.le_div_iff_mul_le (by omega)] at this
    rw [Nat.add_mul] at this
    omega

/-- non-vacuity: a 7-bin single-chromosome base, two levels down -/
example : (legacyDown 3 2 ([⟨0, 0, 1⟩, ⟨0, 1, 2⟩, ⟨0, 2, 3⟩, ⟨0, 3, 4⟩, ⟨0, 4, 5⟩, ⟨0, 5, 6⟩, ⟨0, 6, 7⟩],
    [⟨0, 5, 1⟩, ⟨1, 6, 2⟩, ⟨2, 3, 4⟩, ⟨6, 6, 8⟩])).map (·.2) =
    [[⟨0, 5, 1⟩, ⟨1, 6, 2⟩, ⟨2, 3, 4⟩, ⟨6, 6, 8⟩], [⟨0, 2, 1⟩, ⟨0, 3, 2⟩, ⟨1, 1, 4⟩, ⟨3, 3, 8⟩],
     [⟨0, 0, 4⟩, ⟨0, 1, 3⟩, ⟨1, 1, 8⟩]] := by decide

example : quadtreeDepth 600 1 256 = 2 ∧ quadtreeDepth 512 1 256 = 1 ∧ quadtreeDepth 513 1 256 = 2 ∧
    quadtreeDepth 256 1 256 = 0 ∧ quadtreeDepth 1 5 256 = 0 := by decide

end Cooler.C09
