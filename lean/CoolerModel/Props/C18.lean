import CoolerModel.Model.Rename
/-!
# C18 — renaming chromosomes changes names only

All statements are about `renameChroms` / `renameOnObject` / `extent` of `Model/Rename.lean`, which
the correspondence harness runs against `cooler.rename_chroms` and the `Cooler` object.

Domain: any store as `create` writes it (`ValidStore`: one length per name, an enum header – when
there is one – that numbers the names 0,1,2,… in table order) and any rename dictionary.  The
lookup theorems additionally need the *result* to be duplicate-free
(`(s.names.map (applyMap m)).Nodup`): renaming onto a name that stays in use is outside the property.
Every theorem holds for every outcome `fits` of the HDF5 enum-header limit, i.e. for the enum
encoding, for the fallback to plain integers, and for a store that had plain integers to begin with.
-/
namespace Cooler.C18
open Cooler

/-- equality of `Except` values is decidable (only used by the concrete examples below) -/
instance decEqExcept {ε α} [DecidableEq ε] [DecidableEq α] : DecidableEq (Except ε α)
  | .ok a, .ok b => if h : a = b then isTrue (by rw [h]) else isFalse (by intro h'; cases h'; exact h rfl)
  | .error a, .error b =>
    if h : a = b then isTrue (by rw [h]) else isFalse (by intro h'; cases h'; exact h rfl)
  | .ok _, .error _ => isFalse (by intro h; cases h)
  | .error _, .ok _ => isFalse (by intro h; cases h)

/-! ## field lemmas: what `renameChroms` writes -/

section fields
variable (fits : List (String × Nat) → Bool) (s : RStore) (m : List (String × String))

/-- **rename_names**: the chromosome table holds the old names with the dictionary applied, in the
original order (unmapped names kept). -/
theorem rename_names : (renameChroms fits s m).names = s.names.map (applyMap m) := by
  unfold renameChroms; cases s.enc <;> simp only [] <;> (try split) <;> rfl

theorem rename_width : (renameChroms fits s m).nameWidth = autoWidth (s.names.map (applyMap m)) := by
  unfold renameChroms; cases s.enc <;> simp only [] <;> (try split) <;> rfl

theorem rename_lengths : (renameChroms fits s m).lengths = s.lengths := by
  unfold renameChroms; cases s.enc <;> simp only [] <;> (try split) <;> rfl

theorem rename_codes : (renameChroms fits s m).codes = s.codes := by
  unfold renameChroms; cases s.enc <;> simp only [] <;> (try split) <;> rfl

theorem rename_starts : (renameChroms fits s m).starts = s.starts := by
  unfold renameChroms; cases s.enc <;> simp only [] <;> (try split) <;> rfl

theorem rename_ends : (renameChroms fits s m).ends = s.ends := by
  unfold renameChroms; cases s.enc <;> simp only [] <;> (try split) <;> rfl

theorem rename_chromOffset : (renameChroms fits s m).chromOffset = s.chromOffset := by
  unfold renameChroms; cases s.enc <;> simp only [] <;> (try split) <;> rfl

theorem rename_binsize : (renameChroms fits s m).binsize = s.binsize := by
  unfold renameChroms; cases s.enc <;> simp only [] <;> (try split) <;> rfl

theorem rename_pixels : (renameChroms fits s m).pixels = s.pixels := by
  unfold renameChroms; cases s.enc <;> simp only [] <;> (try split) <;> rfl

theorem rename_bin1Offset : (renameChroms fits s m).bin1Offset = s.bin1Offset := by
  unfold renameChroms; cases s.enc <;> simp only [] <;> (try split) <;> rfl

theorem rename_attrs : (renameChroms fits s m).attrs = s.attrs := by
  unfold renameChroms; cases s.enc <;> simp only [] <;> (try split) <;> rfl

theorem rename_extra : (renameChroms fits s m).extra = s.extra := by
  unfold renameChroms; cases s.enc <;> simp only [] <;> (try split) <;> rfl

/-- the encoding after renaming: an enum header is rebuilt over the new names with the codes
0,1,2,… in table order (the *same* codes the bins already carry) or, if HDF5 refuses the header,
replaced by plain integers; plain integers stay plain integers. -/
theorem rename_enc :
    (renameChroms fits s m).enc =
      match s.enc with
      | .enum _ => if fits (idMap (s.names.map (applyMap m))) then .enum (idMap (s.names.map (applyMap m))) else .plain
      | .plain => .plain := by
  unfold renameChroms; cases s.enc <;> simp only [] <;> (try split) <;> rfl

/-- **rename_data_unchanged**: lengths, bin codes, starts, ends, both indexes, the bin-size, every
pixel column, every attribute and every other dataset are exactly what they were. -/
theorem rename_data_unchanged :
    let s' := renameChroms fits s m
    s'.lengths = s.lengths ∧ s'.codes = s.codes ∧ s'.starts = s.starts ∧ s'.ends = s.ends ∧
    s'.chromOffset = s.chromOffset ∧ s'.bin1Offset = s.bin1Offset ∧ s'.pixels = s.pixels ∧
    s'.attrs = s.attrs ∧ s'.binsize = s.binsize ∧ s'.extra = s.extra :=
  ⟨rename_lengths .., rename_codes .., rename_starts .., rename_ends .., rename_chromOffset ..,
   rename_bin1Offset .., rename_pixels .., rename_attrs .., rename_binsize .., rename_extra ..⟩

/-- integer encoding: `bins/chrom` is not rewritten at all -/
theorem rename_plain (h : s.enc = .plain) :
    (renameChroms fits s m).enc = .plain ∧ (renameChroms fits s m).codes = s.codes := by
  refine ⟨?_, rename_codes ..⟩
  rw [rename_enc, h]

end fields

/-! ## names are stored untruncated -/

theorem le_maxLen {n : String} {names : List String} (h : n ∈ names) : n.length ≤ maxLen names := by
  induction names with
  | nil => cases h
  | cons x xs ih =>
    simp only [maxLen]
    rcases List.mem_cons.mp h with rfl | h
    · exact Nat.le_max_left _ _
    · exact Nat.le_trans (ih h) (Nat.le_max_right _ _)

/-- **rename_width_fits**: the rewritten `chroms/name` is wide enough for every new name (longer
names are not truncated), whatever the width was before. -/
theorem rename_width_fits (fits : List (String × Nat) → Bool) (s : RStore) (m : List (String × String)) :
    NamesFit (renameChroms fits s m) := by
  intro n hn
  rw [rename_width]
  rw [rename_names] at hn
  exact Nat.le_trans (le_maxLen hn) (Nat.le_max_right _ _)

/-! ## labels of the bin table -/

theorem pairwise_zip_range' (names : List String) :
    ∀ k, (names.zip (List.range' k names.length)).Pairwise (fun a b => a.2 ≤ b.2) := by
  induction names with
  | nil => intro k; simp
  | cons x xs ih =>
    intro k
    simp only [List.length_cons, List.range'_succ, List.zip_cons_cons, List.pairwise_cons]
    refine ⟨?_, ih (k + 1)⟩
    intro p hp
    have := (List.of_mem_zip (a := p.1) (b := p.2) hp).2
    simp only [List.mem_range'_1] at this
    omega

/-- the header `create` / `renameChroms` writes lists the names in table order -/
theorem categories_idMap (names : List String) : categories (idMap names) = names := by
  unfold categories idMap
  rw [List.mergeSort_of_pairwise]
  · exact List.map_fst_zip (by simp)
  · have := pairwise_zip_range' names 0
    rw [List.range_eq_range']
    exact this.imp (fun h => by simpa using h)

/-- for a store as `create` writes it the label of a bin is the name at position `code`, with either
encoding -/
theorem binLabels_valid {s : RStore} (v : ValidStore s) :
    binLabels s = s.codes.map fun c => s.names[c]? := by
  unfold binLabels
  cases he : s.enc with
  | enum d => simp only []; rw [v.hdr d he, categories_idMap]
  | plain => rfl

theorem rename_valid (fits : List (String × Nat) → Bool) {s : RStore} (m : List (String × String))
    (v : ValidStore s) : ValidStore (renameChroms fits s m) := by
  constructor
  · rw [rename_lengths, rename_names, List.length_map]; exact v.lens
  · intro d hd
    rw [rename_enc] at hd
    rw [rename_names]
    cases he : s.enc with
    | enum d0 =>
      rw [he] at hd
      simp only [] at hd
      split at hd
      · exact (ChromEnc.enum.inj hd).symm
      · cases hd
    | plain => rw [he] at hd; cases hd

/-- **rename_labels**: every bin keeps its code and shows the new name of its chromosome. -/
theorem rename_labels (fits : List (String × Nat) → Bool) {s : RStore} (m : List (String × String))
    (v : ValidStore s) :
    binLabels (renameChroms fits s m) = (binLabels s).map (Option.map (applyMap m)) := by
  rw [binLabels_valid (rename_valid fits m v), binLabels_valid v, rename_codes, rename_names]
  simp [List.getElem?_map]

/-! ## the whole observation (L1 = L0) -/

theorem zip_map_fst {α β γ} (f : α → γ) (l : List α) (r : List β) :
    (l.map f).zip r = (l.zip r).map fun p => (f p.1, p.2) := by
  rw [List.zip_map_left]
  rfl

/-- **rename_observe**: everything a user can read from the renamed store is what could be read
before with every chromosome name passed through the dictionary – names, sizes index and bin labels
in the original order – and nothing else differs. -/
theorem rename_observe (fits : List (String × Nat) → Bool) {s : RStore} (m : List (String × String))
    (v : ValidStore s) :
    observe (renameChroms fits s m) = (observe s).relabel (applyMap m) := by
  have hl := rename_labels fits m v
  simp only [observe, Obs.relabel, openCooler, refresh, Handle.chromnames, hl, rename_names,
    rename_lengths, rename_codes, rename_starts, rename_ends, rename_chromOffset, rename_binsize,
    rename_pixels, rename_bin1Offset, rename_attrs, rename_extra, zip_map_fst, List.map_map]
  rfl

/-! ## the object is refreshed -/

/-- **rename_handle_fresh**: right after `rename_chroms` the same `Cooler` object caches exactly
what a newly opened one would (names ↦ ids, sizes, info). -/
theorem rename_handle_fresh (fits : List (String × Nat) → Bool) (s : RStore) (m : List (String × String)) :
    (renameOnObject fits s m).2 = openCooler (renameOnObject fits s m).1 := rfl

theorem rename_object_store (fits : List (String × Nat) → Bool) (s : RStore) (m : List (String × String)) :
    (renameOnObject fits s m).1 = renameChroms fits s m := rfl

theorem rename_object_chromnames (fits : List (String × Nat) → Bool) {s : RStore}
    (m : List (String × String)) (v : ValidStore s) :
    (renameOnObject fits s m).2.chromnames = (openCooler s).chromnames.map (applyMap m) := by
  have := congrArg Obs.chromnames (rename_observe fits m v)
  simpa [observe, Obs.relabel, renameOnObject, openCooler] using this

/-! ## lookups by name -/

theorem injOn_of_nodup_map {α β} (f : α → β) :
    ∀ {l : List α}, (l.map f).Nodup → ∀ a ∈ l, ∀ b ∈ l, f a = f b → a = b := by
  intro l
  induction l with
  | nil => intro _ a ha; cases ha
  | cons x xs ih =>
    intro h a ha b hb hab
    simp only [List.map_cons, List.nodup_cons, List.mem_map, not_exists, not_and] at h
    rcases List.mem_cons.mp ha with rfl | ha' <;> rcases List.mem_cons.mp hb with rfl | hb'
    · rfl
    · exact absurd hab.symm (h.1 b hb')
    · exact absurd hab (h.1 a ha')
    · exact ih h.2 a ha' b hb' hab

theorem lookup_zip_map {β} (f : String → String) :
    ∀ (ks : List String) (vs : List β) (c : String),
      (∀ a ∈ ks, ∀ b ∈ ks, f a = f b → a = b) → c ∈ ks →
      ((ks.map f).zip vs).lookup (f c) = (ks.zip vs).lookup c := by
  intro ks
  induction ks with
  | nil => intro vs c _ hc; cases hc
  | cons x xs ih =>
    intro vs c hinj hc
    cases vs with
    | nil => simp
    | cons v vs' =>
      simp only [List.map_cons, List.zip_cons_cons, List.lookup_cons]
      by_cases hcx : c = x
      · subst hcx; simp
      · have hne : f c ≠ f x := fun h => hcx (hinj c hc x (by simp) h)
        have h1 : (f c == f x) = false := by simpa using hne
        have h2 : (c == x) = false := by simpa using hcx
        rw [h1, h2]
        apply ih
        · intro a ha b hb; exact hinj a (List.mem_cons_of_mem _ ha) b (List.mem_cons_of_mem _ hb)
        · rcases List.mem_cons.mp hc with h | h
          · exact absurd h hcx
          · exact h

theorem lookup_zip_not_mem {β} :
    ∀ (ks : List String) (vs : List β) (c : String), c ∉ ks → (ks.zip vs).lookup c = none := by
  intro ks
  induction ks with
  | nil => intro vs c _; simp
  | cons x xs ih =>
    intro vs c hc
    cases vs with
    | nil => simp
    | cons v vs' =>
      simp only [List.mem_cons, not_or] at hc
      simp only [List.zip_cons_cons, List.lookup_cons]
      have : (c == x) = false := by simpa using hc.1
      rw [this]
      exact ih vs' c hc.2

/-- **rename_lookup**: on the object that did the renaming (equivalently, on a reopened one: see
`rename_handle_fresh`) any region of a chromosome addressed by its *new* name – renamed or not –
resolves to the bin range its old name resolved to before. -/
theorem rename_lookup (fits : List (String × Nat) → Bool) (s : RStore) (m : List (String × String))
    (hinj : (s.names.map (applyMap m)).Nodup) (c : String) (hc : c ∈ s.names) (a b : Option Int) :
    extent (renameOnObject fits s m).2 (renameOnObject fits s m).1 (applyMap m c) a b =
      extent (openCooler s) s c a b := by
  have inj := injOn_of_nodup_map (applyMap m) hinj
  have h1 : ((s.names.map (applyMap m)).zip s.lengths).lookup (applyMap m c) =
      (s.names.zip s.lengths).lookup c := lookup_zip_map _ _ _ _ inj hc
  have h2 : (idMap (s.names.map (applyMap m))).lookup (applyMap m c) = (idMap s.names).lookup c := by
    unfold idMap
    rw [List.length_map]
    exact lookup_zip_map _ _ _ _ inj hc
  simp only [extent, renameOnObject, openCooler, refresh, rename_names, rename_lengths,
    rename_chromOffset, rename_starts, rename_binsize, h1, h2]

/-- an unrenamed chromosome is found under its own name, with the same result -/
theorem rename_lookup_unrenamed (fits : List (String × Nat) → Bool) (s : RStore) (m : List (String × String))
    (hinj : (s.names.map (applyMap m)).Nodup) (c : String) (hc : c ∈ s.names) (hm : m.lookup c = none)
    (a b : Option Int) :
    extent (renameOnObject fits s m).2 (renameOnObject fits s m).1 c a b = extent (openCooler s) s c a b := by
  have : applyMap m c = c := by simp [applyMap, hm]
  have h := rename_lookup fits s m hinj c hc a b
  rwa [this] at h

/-- **rename_lookup_stale**: a name that is not among the new names – in particular an old name that
was renamed away and is not the new name of another chromosome – is no longer found. -/
theorem rename_lookup_stale (fits : List (String × Nat) → Bool) (s : RStore) (m : List (String × String))
    (c : String) (hc : c ∉ s.names.map (applyMap m)) (a b : Option Int) :
    extent (renameOnObject fits s m).2 (renameOnObject fits s m).1 c a b = .error .value := by
  have h1 : ((s.names.map (applyMap m)).zip s.lengths).lookup c = none := lookup_zip_not_mem _ _ _ hc
  simp only [extent, renameOnObject, refresh, rename_names, rename_lengths, h1]

/-- an old name that was renamed away, and that no chromosome was renamed to, is stale -/
theorem renamed_away_not_new (s : RStore) (m : List (String × String)) (c : String)
    (hren : applyMap m c ≠ c) (hfree : ∀ d ∈ s.names, d ≠ c → applyMap m d ≠ c) :
    c ∉ s.names.map (applyMap m) := by
  intro h
  obtain ⟨d, hd, hdc⟩ := List.mem_map.mp h
  by_cases hdc' : d = c
  · subst hdc'; exact hren hdc
  · exact hfree d hd hdc' hdc

/-! ## successive renamings compose -/

theorem lookup_map_self (g : String → String) :
    ∀ (l : List String) (n : String), n ∈ l → (l.map fun x => (x, g x)).lookup n = some (g n) := by
  intro l
  induction l with
  | nil => intro n h; cases h
  | cons x xs ih =>
    intro n hn
    simp only [List.map_cons, List.lookup_cons]
    by_cases h : n = x
    · subst h; simp
    · have : (n == x) = false := by simpa using h
      rw [this]
      rcases List.mem_cons.mp hn with h' | h'
      · exact absurd h' h
      · exact ih n h'

theorem applyMap_composeMaps (names : List String) (m₁ m₂ : List (String × String)) (n : String)
    (hn : n ∈ names) : applyMap (composeMaps names m₁ m₂) n = applyMap m₂ (applyMap m₁ n) := by
  have h := lookup_map_self (fun n => applyMap m₂ (applyMap m₁ n)) names n hn
  show ((composeMaps names m₁ m₂).lookup n).getD n = _
  unfold composeMaps
  rw [h]
  rfl

theorem compose_names (names : List String) (m₁ m₂ : List (String × String)) :
    (names.map (applyMap m₁)).map (applyMap m₂) = names.map (applyMap (composeMaps names m₁ m₂)) := by
  rw [List.map_map]
  apply List.map_congr_left
  intro n hn
  simp only [Function.comp]
  exact (applyMap_composeMaps names m₁ m₂ n hn).symm

theorem store_ext {s t : RStore}
    (h1 : s.names = t.names) (h2 : s.nameWidth = t.nameWidth) (h3 : s.lengths = t.lengths)
    (h4 : s.enc = t.enc) (h5 : s.codes = t.codes) (h6 : s.starts = t.starts) (h7 : s.ends = t.ends)
    (h8 : s.chromOffset = t.chromOffset) (h9 : s.binsize = t.binsize) (h10 : s.pixels = t.pixels)
    (h11 : s.bin1Offset = t.bin1Offset) (h12 : s.attrs = t.attrs) (h13 : s.extra = t.extra) : s = t := by
  cases s; cases t; simp only [RStore.mk.injEq]
  exact ⟨h1, h2, h3, h4, h5, h6, h7, h8, h9, h10, h11, h12, h13⟩

/-- **rename_compose** (file level): renaming by `m₁` and then by `m₂` leaves the very file that one
renaming by the composed dictionary leaves – a swap `a ↔ b` given in ONE dictionary is applied
simultaneously, so it composes like any other map.  Side condition: the intermediate enum header
was accepted by HDF5 (otherwise the two-step file has fallen back to plain integers, see
`rename_compose_observe` for what can still be said). -/
theorem rename_compose (fits : List (String × Nat) → Bool) (s : RStore) (m₁ m₂ : List (String × String))
    (hfit : ∀ d, s.enc = .enum d → fits (idMap (s.names.map (applyMap m₁))) = true) :
    renameChroms fits (renameChroms fits s m₁) m₂ =
      renameChroms fits s (composeMaps s.names m₁ m₂) := by
  have hn := compose_names s.names m₁ m₂
  apply store_ext
  case h4 =>
    -- the encoding
    rw [rename_enc, rename_enc, rename_enc, rename_names, hn]
    cases he : s.enc with
    | enum d => simp only [hfit d he, if_true]
    | plain => rfl
  all_goals simp only [rename_names, rename_width, rename_lengths, rename_codes,
    rename_starts, rename_ends, rename_chromOffset, rename_binsize, rename_pixels, rename_bin1Offset,
    rename_attrs, rename_extra, hn]

/-- integer encoding: no side condition -/
theorem rename_compose_plain (fits : List (String × Nat) → Bool) (s : RStore) (m₁ m₂ : List (String × String))
    (hp : s.enc = .plain) :
    renameChroms fits (renameChroms fits s m₁) m₂ =
      renameChroms fits s (composeMaps s.names m₁ m₂) :=
  rename_compose fits s m₁ m₂ (fun d hd => by rw [hp] at hd; cases hd)

theorem observe_congr {s t : RStore} (vs : ValidStore s) (vt : ValidStore t)
    (h1 : s.names = t.names) (h3 : s.lengths = t.lengths)
    (h5 : s.codes = t.codes) (h6 : s.starts = t.starts) (h7 : s.ends = t.ends)
    (h8 : s.chromOffset = t.chromOffset) (h9 : s.binsize = t.binsize) (h10 : s.pixels = t.pixels)
    (h11 : s.bin1Offset = t.bin1Offset) (h12 : s.attrs = t.attrs) (h13 : s.extra = t.extra) :
    observe s = observe t := by
  simp only [observe, binLabels_valid vs, binLabels_valid vt, openCooler, refresh, h1, h3, h5, h6, h7,
    h8, h9, h10, h11, h12, h13]

/-- **rename_compose_observe**: whatever HDF5 did with the intermediate header, everything a user can
read after two successive renamings equals what can be read after the single composed one. -/
theorem rename_compose_observe (fits : List (String × Nat) → Bool) {s : RStore}
    (m₁ m₂ : List (String × String)) (v : ValidStore s) :
    observe (renameChroms fits (renameChroms fits s m₁) m₂) =
      observe (renameChroms fits s (composeMaps s.names m₁ m₂)) := by
  apply observe_congr (rename_valid fits m₂ (rename_valid fits m₁ v)) (rename_valid fits _ v) <;>
    simp only [rename_names, rename_lengths, rename_codes, rename_starts, rename_ends,
      rename_chromOffset, rename_binsize, rename_pixels, rename_bin1Offset, rename_attrs,
      rename_extra, compose_names]

/-! ## chains -/

/-- the name a chain of dictionaries gives to `n` -/
def applyChain (ms : List (List (String × String))) (n : String) : String :=
  ms.foldl (fun n m => applyMap m n) n

theorem chain_valid (fits : List (String × Nat) → Bool) :
    ∀ (ms : List (List (String × String))) {s : RStore}, ValidStore s → ValidStore (renameChain fits s ms) := by
  intro ms
  induction ms with
  | nil => intro s v; exact v
  | cons m ms ih => intro s v; exact ih (rename_valid fits m v)

/-- **chain_observe**: after any chain of renamings everything readable is the original with every
name passed through the chain; nothing else has moved. -/
theorem chain_observe (fits : List (String × Nat) → Bool) :
    ∀ (ms : List (List (String × String))) {s : RStore}, ValidStore s →
      observe (renameChain fits s ms) = (observe s).relabel (applyChain ms) := by
  intro ms
  induction ms with
  | nil =>
    intro s _
    have h2 : applyChain ([] : List (List (String × String))) = id := rfl
    simp [renameChain, Obs.relabel, h2]
  | cons m ms ih =>
    intro s v
    simp only [renameChain]
    rw [ih (rename_valid fits m v), rename_observe fits m v]
    simp only [Obs.relabel, List.map_map, applyChain, List.foldl_cons]
    congr 1
    · apply List.map_congr_left; intro o _; cases o <;> rfl

/-! ## non-vacuity and concrete behaviour -/

/-- a three-chromosome store with the enum encoding, as `create` writes it -/
def exStore : RStore :=
  { names := ["a", "b", "c"], nameWidth := 1, lengths := [15, 8, 30]
    enc := .enum [("a", 0), ("b", 1), ("c", 2)], codes := [0, 0, 1, 2, 2, 2]
    starts := [0, 10, 0, 0, 7, 9], ends := [10, 15, 8, 7, 9, 30], chromOffset := [0, 2, 3, 6]
    binsize := none, pixels := [("count", "p")], bin1Offset := "o", attrs := [("nnz", "5")], extra := [] }

def exPlain : RStore := { exStore with enc := .plain }

/-- a swap in one dictionary plus a longer name -/
def exMap : List (String × String) := [("a", "b"), ("b", "a"), ("c", "chrC_long")]

example : ValidStore exStore := ⟨by decide, by intro d h; cases h; decide⟩
example : ValidStore exPlain := ⟨by decide, by intro d h; cases h⟩
example : (exStore.names.map (applyMap exMap)).Nodup := by decide
example : (renameChroms (fun _ => true) exStore exMap).names = ["b", "a", "chrC_long"] := by decide
example : (renameChroms (fun _ => true) exStore exMap).nameWidth = 9 := by decide
example : (renameChroms (fun _ => true) exStore exMap).enc = .enum [("b", 0), ("a", 1), ("chrC_long", 2)] := by
  decide
example : (renameChroms (fun _ => false) exStore exMap).enc = .plain := by decide
example : binLabels (renameChroms (fun _ => true) exStore exMap) =
    [some "b", some "b", some "a", some "chrC_long", some "chrC_long", some "chrC_long"] := by
  rw [binLabels_valid (rename_valid _ _ ⟨by decide, by intro d h; cases h; decide⟩)]
  decide
example : binLabels (renameChroms (fun _ => true) exPlain exMap) =
    [some "b", some "b", some "a", some "chrC_long", some "chrC_long", some "chrC_long"] := by decide
/-- lookups after the swap: new name `b` is old `a`; `c` is gone -/
example : extent (renameOnObject (fun _ => true) exStore exMap).2 (renameOnObject (fun _ => true) exStore exMap).1
    "b" none none = .ok (0, 2) := by decide
example : extent (openCooler exStore) exStore "a" none none = .ok (0, 2) := by decide
example : extent (renameOnObject (fun _ => true) exStore exMap).2 (renameOnObject (fun _ => true) exStore exMap).1
    "c" none none = .error .value := by decide
/-- hypotheses of `renamed_away_not_new` are satisfiable: `c` was renamed away and nobody took it -/
example : applyMap exMap "c" ≠ "c" ∧ ∀ d ∈ exStore.names, d ≠ "c" → applyMap exMap d ≠ "c" := by decide
/-- swap then swap back is the identity on names (composition), via two steps and via the composed map -/
example : (renameChroms (fun _ => true) (renameChroms (fun _ => true) exStore exMap) [("a", "b"), ("b", "a")]).names
    = ["a", "b", "chrC_long"] := by decide
example : (renameChroms (fun _ => true) exStore (composeMaps exStore.names exMap [("a", "b"), ("b", "a")])).names
    = ["a", "b", "chrC_long"] := by decide

/-- outside the domain (observation, not part of the property): renaming onto a name that stays in
use produces duplicate names, and lookups by that name can only ever reach one of the two. -/
example : ¬ ((renameChroms (fun _ => true) exStore [("a", "b")]).names).Nodup := by decide

end Cooler.C18
