import CoolerModel.Props.C05Core
import CoolerModel.Props.C05First
import CoolerModel.Props.C05Hiclib
/-! C05 — umbrella: `C05Core` (assignment, sanitising, sorted aggregation, tabix) and `C05First`
(`aggregate_records(sort=False)` stores exactly the same cells as the sorted aggregation). -/
