import CoolerModel.Model.Zoomify
import CoolerModel.Props.C08
/-!
# C09 — every zoom level of a multires file equals direct coarsening of its base

Statements about `Model/Zoomify.lean`, executed by the correspondence harness against
`cooler._reduce.get_multiplier_sequence`, `zoomify_cooler`, `preferred_sequence` and `cooler zoomify`.

The predecessor choice of `get_multiplier_sequence` is a free unit: `zoom_level_eq_direct` holds for
EVERY output satisfying `validMultSeq`; `multseq_sound` shows the modelled unit satisfies it.
-/
set_option linter.unusedSimpArgs false
set_option linter.unusedVariables false

namespace Cooler.C09
open Cooler Cooler.Coarsen Cooler.Zoomify

/-! ## get_multiplier_sequence -/

theorem findPred_some (resn : List Nat) (t : Nat) : ∀ (n p : Nat), findPred resn t n = some p →
    p < n ∧ t % resn.getD p 0 = 0 ∧ ∀ q, p < q → q < n → t % resn.getD q 0 ≠ 0 := by
  intro n
  induction n with
  | zero => intro p h; simp [findPred] at h
  | succ n ih =>
    intro p h
    unfold findPred at h
    split at h
    · rename_i hd
      simp only [Option.some.injEq] at h
      subst h
      exact ⟨by omega, hd, fun q h1 h2 => by omega⟩
    · rename_i hd
      obtain ⟨h1, h2, h3⟩ := ih p h
      refine ⟨by omega, h2, ?_⟩
      intro q hq1 hq2
      by_cases hqn : q = n
      · subst hqn; exact hd
      · exact h3 q hq1 (by omega)

theorem findPred_none (resn : List Nat) (t : Nat) : ∀ (n : Nat),
    findPred resn t n = none ↔ ∀ q, q < n → t % resn.getD q 0 ≠ 0 := by
  intro n
  induction n with
  | zero => simp [findPred]
  | succ n ih =>
    unfold findPred
    split
    · rename_i hd
      simp only [reduceCtorEq, false_iff]
      intro h; exact h n (by omega) hd
    · rename_i hd
      rw [ih]
      constructor
      · intro h q hq
        by_cases hqn : q = n
        · subst hqn; exact hd
        · exact h q (by omega)
      · intro h q hq; exact h q (by omega)

/-- what a successful call returns -/
theorem gms_ok (res : List Nat) (bases : Option (List Nat)) (ms : MultSeq)
    (h : getMultiplierSequence res bases = .ok ms) :
    ∃ bs, baseSet res bases = .ok bs ∧ ms.resn = uniq (bs ++ res) ∧
      ms.pred = (List.range ms.resn.length).map (fun i => findPred ms.resn (ms.resn.getD i 0) i) ∧
      ms.mult = (List.range ms.resn.length).map (fun i =>
        (findPred ms.resn (ms.resn.getD i 0) i).map fun p => ms.resn.getD i 0 / ms.resn.getD p 0) ∧
      ∀ i, i < ms.resn.length → findPred ms.resn (ms.resn.getD i 0) i = none → ms.resn.getD i 0 ∈ bs := by
  unfold getMultiplierSequence at h
  split at h
  · exact absurd h (by simp)
  · rename_i bs hbs
    simp only at h
    split at h
    · exact absurd h (by simp)
    · rename_i hany
      simp only [Except.ok.injEq] at h
      subst h
      refine ⟨bs, hbs, rfl, rfl, rfl, ?_⟩
      intro i hi hnone
      simp only [List.any_eq_true, List.mem_range, Bool.and_eq_true, Option.isNone_iff_eq_none,
        Bool.not_eq_true', not_exists, not_and] at hany
      have := hany i hi hnone
      simpa [List.contains_iff_mem] using this

/-- **multseq_sorted_once**: `resn` is the strictly increasing union of the bases and the requested
resolutions: every one of them occurs, exactly once, and nothing else -/
theorem multseq_sorted_once (res : List Nat) (bases : Option (List Nat)) (ms : MultSeq)
    (h : getMultiplierSequence res bases = .ok ms) :
    ∃ bs, baseSet res bases = .ok bs ∧ ms.resn.Pairwise (· < ·) ∧ ms.resn.Nodup ∧
      ∀ r, r ∈ ms.resn ↔ (r ∈ bs ∨ r ∈ res) := by
  obtain ⟨bs, hbs, hresn, _⟩ := gms_ok res bases ms h
  refine ⟨bs, hbs, ?_, ?_, ?_⟩
  · rw [hresn]; exact C08.uniq_sorted _
  · rw [hresn]
    exact (C08.uniq_sorted _).imp (fun h => Nat.ne_of_lt h)
  · intro r; rw [hresn, C08.mem_uniq, List.mem_append]

theorem getD_mem {l : List Nat} {i : Nat} (h : i < l.length) : l.getD i 0 ∈ l := by
  rw [C08.getD_of_lt _ _ _ h]; exact List.getElem_mem h

/-- **multseq_sound**: whenever the modelled `get_multiplier_sequence` returns (positive resolutions), its
output satisfies the contract: every non-base level has an earlier predecessor `p` and a multiplier
`m ≥ 1` with `resn[p] · m = resn[i]` -/
theorem multseq_sound (res : List Nat) (bases : Option (List Nat)) (ms : MultSeq)
    (h : getMultiplierSequence res bases = .ok ms) (hpos : ∀ r ∈ ms.resn, 1 ≤ r) :
    ∃ bs, baseSet res bases = .ok bs ∧ validMultSeq bs ms = true := by
  obtain ⟨bs, hbs, hresn, hpred, hmult, hchk⟩ := gms_ok res bases ms h
  refine ⟨bs, hbs, ?_⟩
  unfold validMultSeq
  simp only [Bool.and_eq_true, decide_eq_true_eq, List.all_eq_true, List.mem_range]
  refine ⟨⟨by rw [hpred]; simp, by rw [hmult]; simp⟩, ?_⟩
  intro i hi
  unfold levelOk
  have hp : ms.pred.getD i none = findPred ms.resn (ms.resn.getD i 0) i := by
    rw [hpred, List.getD_eq_getElem?_getD]
    simp [List.getElem?_map, List.getElem?_range hi]
  have hm : ms.mult.getD i none = (findPred ms.resn (ms.resn.getD i 0) i).map
      fun p => ms.resn.getD i 0 / ms.resn.getD p 0 := by
    rw [hmult, List.getD_eq_getElem?_getD]
    simp [List.getElem?_map, List.getElem?_range hi]
  rw [hp, hm]
  cases hf : findPred ms.resn (ms.resn.getD i 0) i with
  | none =>
    have hc : bs.contains (ms.resn.getD i 0) = true := List.contains_iff_mem.mpr (hchk i hi hf)
    rw [hc]; rfl
  | some p =>
    obtain ⟨hpi, hdvd, _⟩ := findPred_some ms.resn _ i p hf
    simp only [Option.map_some, Bool.or_eq_true, Bool.and_eq_true, decide_eq_true_eq]
    right
    have hri := hpos _ (getD_mem hi)
    have hrp := hpos _ (getD_mem (show p < ms.resn.length by omega))
    have hd : ms.resn.getD p 0 ∣ ms.resn.getD i 0 := Nat.dvd_of_mod_eq_zero hdvd
    refine ⟨⟨hpi, Nat.mul_div_cancel' hd⟩, ?_⟩
    have hle := Nat.le_of_dvd (by omega) hd
    exact (Nat.le_div_iff_mul_le (by omega)).mpr (by omega)

/-- value ↔ index in a strictly increasing list -/
theorem sorted_lt_iff (l : List Nat) (hs : l.Pairwise (· < ·)) (i j : Nat) (hi : i < l.length) (hj : j < l.length) :
    l.getD i 0 < l.getD j 0 ↔ i < j := by
  rw [C08.getD_of_lt _ _ _ hi, C08.getD_of_lt _ _ _ hj]
  constructor
  · intro h
    apply Nat.lt_of_not_le
    intro hji
    by_cases he : j = i
    · subst he; omega
    · have := List.pairwise_iff_getElem.mp hs j i hj hi (by omega)
      omega
  · intro h; exact List.pairwise_iff_getElem.mp hs i j hi hj h

/-- **multseq_refuses_iff** — exactly what the code decides: with bases `bs`, the call raises iff some
member of the sorted union that is not a base has no smaller member dividing it -/
theorem multseq_refuses_iff (res bs : List Nat) :
    (∃ e, getMultiplierSequence res (some bs) = .error e) ↔
      ∃ r ∈ uniq (bs ++ res), r ∉ bs ∧ ∀ q ∈ uniq (bs ++ res), q < r → r % q ≠ 0 := by
  have hs := C08.uniq_sorted (bs ++ res)
  unfold getMultiplierSequence baseSet
  simp only
  constructor
  · rintro ⟨e, he⟩
    split at he
    · rename_i hany
      simp only [List.any_eq_true, List.mem_range, Bool.and_eq_true, Option.isNone_iff_eq_none,
        Bool.not_eq_true'] at hany
      obtain ⟨i, hi, hnone, hnb⟩ := hany
      refine ⟨_, getD_mem hi, by simpa [List.contains_iff_mem] using hnb, ?_⟩
      intro q hq hlt
      obtain ⟨j, hj, rfl⟩ := List.getElem_of_mem hq
      rw [← C08.getD_of_lt _ 0 _ hj] at hlt ⊢
      have hji := (sorted_lt_iff _ hs j i hj hi).mp hlt
      exact (findPred_none _ _ i).mp hnone j hji
    · exact absurd he (by simp)
  · rintro ⟨r, hr, hnb, hno⟩
    obtain ⟨i, hi, rfl⟩ := List.getElem_of_mem hr
    have hany : ((List.range (uniq (bs ++ res)).length).any fun i =>
        (findPred (uniq (bs ++ res)) ((uniq (bs ++ res)).getD i 0) i).isNone &&
          !bs.contains ((uniq (bs ++ res)).getD i 0)) = true := by
      simp only [List.any_eq_true, List.mem_range, Bool.and_eq_true, Option.isNone_iff_eq_none,
        Bool.not_eq_true']
      refine ⟨i, hi, ?_, ?_⟩
      · rw [findPred_none]
        intro q hq
        have hq' : q < (uniq (bs ++ res)).length := by omega
        have hlt := (sorted_lt_iff _ hs q i hq' hi).mpr hq
        rw [C08.getD_of_lt _ _ _ hi] at hlt ⊢
        exact hno _ (getD_mem hq') hlt
      · rw [C08.getD_of_lt _ _ _ hi]
        simpa [List.contains_iff_mem] using hnb
    rw [if_pos hany]
    exact ⟨_, rfl⟩

/-- **multseq_refuses_iff_bases** — the property's wording: for positive resolutions the call raises iff
some requested resolution is neither a base nor an integer multiple of any base (both directions) -/
theorem multseq_refuses_iff_bases (res bs : List Nat) (hpos : ∀ r ∈ bs ++ res, 1 ≤ r) :
    (∃ e, getMultiplierSequence res (some bs) = .error e) ↔
      ∃ r ∈ res, r ∉ bs ∧ ∀ b ∈ bs, r % b ≠ 0 := by
  rw [multseq_refuses_iff]
  constructor
  · rintro ⟨r, hr, hnb, hno⟩
    rw [C08.mem_uniq, List.mem_append] at hr
    have hres : r ∈ res := by
      rcases hr with h | h
      · exact absurd h hnb
      · exact h
    refine ⟨r, hres, hnb, ?_⟩
    intro b hb hmod
    have hbr : b ≠ r := fun h => hnb (h ▸ hb)
    have hrpos := hpos r (List.mem_append_right _ hres)
    have hle := Nat.le_of_dvd (by omega) (Nat.dvd_of_mod_eq_zero hmod)
    exact hno b (by rw [C08.mem_uniq]; exact List.mem_append_left _ hb) (by omega) hmod
  · rintro ⟨r, hres, hnb, hnm⟩
    -- descend along smaller divisors to a member with none
    have key : ∀ (n r : Nat), r ≤ n → r ∈ uniq (bs ++ res) → r ∉ bs → (∀ b ∈ bs, r % b ≠ 0) →
        ∃ r0 ∈ uniq (bs ++ res), r0 ∉ bs ∧ ∀ q ∈ uniq (bs ++ res), q < r0 → r0 % q ≠ 0 := by
      intro n
      induction n with
      | zero =>
        intro r hr0 hr hnb hnm
        refine ⟨r, hr, hnb, fun q _ hq => by omega⟩
      | succ n ih =>
        intro r hrn hr hnb hnm
        by_cases hex : ∃ q ∈ uniq (bs ++ res), q < r ∧ r % q = 0
        · obtain ⟨q, hq, hqr, hmod⟩ := hex
          have hqnb : q ∉ bs := fun h => hnm q h hmod
          have hqnm : ∀ b ∈ bs, q % b ≠ 0 := by
            intro b hb hqb
            exact hnm b hb (Nat.mod_eq_zero_of_dvd
              (Nat.dvd_trans (Nat.dvd_of_mod_eq_zero hqb) (Nat.dvd_of_mod_eq_zero hmod)))
          exact ih q (by omega) hq hqnb hqnm
        · refine ⟨r, hr, hnb, ?_⟩
          intro q hq hqr hmod
          exact hex ⟨q, hq, hqr, hmod⟩
    exact key r r (Nat.le_refl _) (by rw [C08.mem_uniq]; exact List.mem_append_right _ hres) hnb hnm

/-- non-vacuity: `{2,3,6}` from base 1 uses the mixed predecessors 3 ← 1, 2 ← 1, 6 ← 3; `5` from bases `{2,4}` is refused -/
example : getMultiplierSequence [6, 3, 2] (some [1]) = .ok ⟨[1, 2, 3, 6], [none, some 0, some 0, some 2],
    [none, some 2, some 3, some 2]⟩ ∧ getMultiplierSequence [8, 5] (some [2, 4]) = .error .value ∧
    validMultSeq [1] ⟨[1, 2, 3, 6], [none, some 0, some 0, some 1], [none, some 2, some 3, some 3]⟩ = true ∧
    validMultSeq [1] ⟨[1, 2, 3, 6], [none, some 0, some 0, some 1], [none, some 2, some 3, some 2]⟩ = false :=
  ⟨rfl, rfl, by decide, by decide⟩

/-! ## levels -/

/-- a stored level meeting the hypotheses of the C08 theorems -/
def LevelOk (l : Level) : Prop :=
  ∃ gs, WF gs ∧ l.1 = gs.flatten ∧ StrictSorted l.2 ∧ InRange l.1.length l.2

/-- **coarsenLevel_eq_spec**: on a valid level the whole `coarsen_cooler` pipeline (any chunk size `≥ 1`) is
the L0 coarsening (this is `C08.coarsen_correct`) -/
theorem coarsenLevel_eq_spec (cs m : Nat) (hcs : 1 ≤ cs) (hm : 1 ≤ m) (l : Level) (hl : LevelOk l) :
    coarsenLevel cs m l = specLevel m l := by
  obtain ⟨gs, hwf, hb, hs, hr⟩ := hl
  unfold coarsenLevel specLevel
  rw [hb] at hr ⊢
  rw [C08.groups_flatten gs 0 (C08.WF.from gs hwf)]
  exact C08.coarsen_correct m cs hm hcs gs hwf l.2 hs hr

theorem specLevel_form (m : Nat) (hm : 1 ≤ m) (gs : List (List Bin)) (hwf : WF gs) (px : Pixels) :
    specLevel m (gs.flatten, px) = ((coarsenGroupsSpec m gs).flatten, coarsenSpecG m gs px) := by
  unfold specLevel coarsenSpec
  simp only
  rw [(C08.coarsenBins_wf m hm gs hwf).2, C08.groups_flatten gs 0 (C08.WF.from gs hwf)]

theorem specLevel_ok (m : Nat) (hm : 1 ≤ m) (l : Level) (hl : LevelOk l) : LevelOk (specLevel m l) := by
  obtain ⟨gs, hwf, hb, hs, hr⟩ := hl
  have : l = (gs.flatten, l.2) := by rw [← hb]
  rw [this, specLevel_form m hm gs hwf]
  refine ⟨coarsenGroupsSpec m gs, C08.wf_spec hm gs hwf, rfl, C08.coarsen_sorted m gs l.2, ?_⟩
  simp only
  rw [← C08.sum_counts_eq_length]
  apply C08.coarsen_inRange m hm gs l.2
  rw [C08.sum_counts_eq_length, ← hb]; exact hr

/-- **specLevel_compose**: coarsening a valid level by `k₁` and then by `k₂` is coarsening it by `k₁·k₂`
(bins and pixels; `C08.coarsen_compose`) -/
theorem specLevel_compose (k1 k2 : Nat) (h1 : 1 ≤ k1) (h2 : 1 ≤ k2) (l : Level) (hl : LevelOk l) :
    specLevel k2 (specLevel k1 l) = specLevel (k1 * k2) l := by
  obtain ⟨gs, hwf, hb, hs, hr⟩ := hl
  have : l = (gs.flatten, l.2) := by rw [← hb]
  rw [this, specLevel_form k1 h1 gs hwf, specLevel_form k2 h2 _ (C08.wf_spec h1 gs hwf),
    specLevel_form (k1 * k2) (Nat.mul_le_mul h1 h2) gs hwf]
  obtain ⟨c1, c2⟩ := C08.coarsen_compose k1 k2 h1 h2 gs l.2
  rw [c1, c2]

/-! ## the chain of a level -/

theorem levelOk_of_valid (bs : List Nat) (ms : MultSeq) (hv : validMultSeq bs ms = true) (i : Nat)
    (hi : i < ms.resn.length) : levelOk bs ms i = true := by
  unfold validMultSeq at hv
  simp only [Bool.and_eq_true, List.all_eq_true, List.mem_range] at hv
  exact hv.2 i hi

/-- what `levelOk` gives for a non-base level -/
theorem nonbase_pred (bs : List Nat) (ms : MultSeq) (i : Nat) (h : levelOk bs ms i = true)
    (hnb : bs.contains (ms.resn.getD i 0) = false) :
    ∃ p m, ms.pred.getD i none = some p ∧ ms.mult.getD i none = some m ∧ p < i ∧
      ms.resn.getD p 0 * m = ms.resn.getD i 0 ∧ 1 ≤ m := by
  unfold levelOk at h
  rw [hnb, Bool.false_or] at h
  split at h
  · rename_i p m hp hm
    simp only [Bool.and_eq_true, decide_eq_true_eq] at h
    exact ⟨p, m, hp, hm, h.1.1, h.1.2, h.2⟩
  · exact absurd h (by simp)

/-- **chain_to_base**: for ANY output satisfying the contract, the predecessor chain of every level ends at a
base level `b ≤ i`, and the product `M` of the multipliers along it satisfies `resn[b] · M = resn[i]`
(so `M = resn[i] / resn[b]`); any fuel `> i` computes it -/
theorem chain_to_base (bs : List Nat) (ms : MultSeq) (hv : validMultSeq bs ms = true) :
    ∀ (n i : Nat), i ≤ n → i < ms.resn.length → ∃ b M, (∀ f, i < f → chainOf bs ms f i = some (b, M)) ∧ b ≤ i ∧
      bs.contains (ms.resn.getD b 0) = true ∧ ms.resn.getD b 0 * M = ms.resn.getD i 0 ∧ 1 ≤ M ∧
      (b = i → M = 1) := by
  intro n
  induction n with
  | zero =>
    intro i hi0 hi
    have : i = 0 := by omega
    subst this
    by_cases hb : bs.contains (ms.resn.getD 0 0) = true
    · refine ⟨0, 1, ?_, Nat.le_refl _, hb, by omega, Nat.le_refl _, fun _ => rfl⟩
      intro f hf
      obtain ⟨f', rfl⟩ := Nat.exists_eq_succ_of_ne_zero (Nat.pos_iff_ne_zero.mp hf)
      simp only [chainOf]; rw [if_pos hb]
    · have hb' : bs.contains (ms.resn.getD 0 0) = false := by simpa using hb
      obtain ⟨p, m, _, _, hp, _⟩ := nonbase_pred bs ms 0 (levelOk_of_valid bs ms hv 0 hi) hb'
      omega
  | succ n ih =>
    intro i hin hi
    by_cases hlt : i ≤ n
    · exact ih i hlt hi
    · have hi' : i = n + 1 := by omega
      by_cases hb : bs.contains (ms.resn.getD i 0) = true
      · refine ⟨i, 1, ?_, Nat.le_refl _, hb, by omega, Nat.le_refl _, fun _ => rfl⟩
        intro f hf
        obtain ⟨f', rfl⟩ := Nat.exists_eq_succ_of_ne_zero (show f ≠ 0 by omega)
        simp only [chainOf]; rw [if_pos hb]
      · have hb' : bs.contains (ms.resn.getD i 0) = false := by simpa using hb
        obtain ⟨p, m, hp, hm, hpi, hmul, hm1⟩ := nonbase_pred bs ms i (levelOk_of_valid bs ms hv i hi) hb'
        obtain ⟨b, M, hch, hbp, hbase, hbm, hM1, _⟩ := ih p (by omega) (by omega)
        refine ⟨b, M * m, ?_, by omega, hbase, ?_, Nat.mul_le_mul hM1 hm1, fun h => by omega⟩
        · intro f hf
          obtain ⟨f', rfl⟩ := Nat.exists_eq_succ_of_ne_zero (show f ≠ 0 by omega)
          simp only [chainOf, hb', hp, hm, Bool.false_eq_true, if_false]
          rw [hch f' (by omega)]
          rfl
        · rw [← Nat.mul_assoc, hbm, hmul]

/-- the level reached by following the chain with the L0 coarsening at every step -/
def chainLevel (ms : MultSeq) (baseOf : Nat → Option Level) : Nat → Nat → Option Level
  | 0, _ => none
  | f + 1, i =>
    match baseOf (ms.resn.getD i 0) with
    | some l => some l
    | none =>
      match ms.pred.getD i none, ms.mult.getD i none with
      | some p, some m => (chainLevel ms baseOf f p).map (specLevel m)
      | _, _ => none

/-- the base stores are consistent with the base resolutions: a resolution has a source iff it is a base,
and every source is a valid level -/
def BasesOk (bs : List Nat) (baseOf : Nat → Option Level) : Prop :=
  (∀ r, (baseOf r).isSome = bs.contains r) ∧ ∀ r l, baseOf r = some l → LevelOk l

/-- **zoom_levels_eq_chain**: for ANY `validMultSeq` output, valid base stores and any chunk size `≥ 1`,
`zoomify_cooler` produces every level (none is missing), each a valid level, equal to its chain of L0
coarsenings; base levels are their sources -/
theorem zoom_levels_eq_chain (cs : Nat) (hcs : 1 ≤ cs) (bs : List Nat) (ms : MultSeq)
    (hv : validMultSeq bs ms = true) (baseOf : Nat → Option Level) (hb : BasesOk bs baseOf) :
    ∀ n, n ≤ ms.resn.length → (zoomLevels cs ms baseOf n).length = n ∧
      ∀ i, i < n → ∃ l, LevelOk l ∧ (zoomLevels cs ms baseOf n)[i]? = some (some l) ∧
        ∀ f, i < f → chainLevel ms baseOf f i = some l := by
  intro n
  induction n with
  | zero => intro _; exact ⟨rfl, fun i hi => by omega⟩
  | succ n ih =>
    intro hn
    obtain ⟨hlen, hlev⟩ := ih (by omega)
    simp only [zoomLevels]
    refine ⟨by simp [hlen], ?_⟩
    intro i hi
    by_cases hin : i < n
    · obtain ⟨l, h1, h2, h3⟩ := hlev i hin
      refine ⟨l, h1, ?_, h3⟩
      rw [List.getElem?_append_left (by omega)]; exact h2
    · have hi' : i = n := by omega
      subst hi'
      rw [List.getElem?_append_right (by omega), hlen]
      simp only [Nat.sub_self, List.getElem?_cons_zero]
      unfold levelAt
      cases hbo : baseOf (ms.resn.getD i 0) with
      | some l =>
        refine ⟨l, hb.2 _ l hbo, rfl, ?_⟩
        intro f hf
        obtain ⟨f', rfl⟩ := Nat.exists_eq_succ_of_ne_zero (show f ≠ 0 by omega)
        simp only [chainLevel, hbo]
      | none =>
        have hnb : bs.contains (ms.resn.getD i 0) = false := by
          rw [← hb.1, hbo]; rfl
        obtain ⟨p, m, hp, hm, hpi, hmul, hm1⟩ := nonbase_pred bs ms i (levelOk_of_valid bs ms hv i (by omega)) hnb
        obtain ⟨lp, hok, hget, hchain⟩ := hlev p hpi
        simp only [hp, hm]
        have hgd : (zoomLevels cs ms baseOf i).getD p none = some lp := by
          rw [List.getD_eq_getElem?_getD, hget]; rfl
        rw [hgd]
        refine ⟨specLevel m lp, specLevel_ok m hm1 lp hok, ?_, ?_⟩
        · simp only [Option.map_some, coarsenLevel_eq_spec cs m hcs hm1 lp hok]
        · intro f hf
          obtain ⟨f', rfl⟩ := Nat.exists_eq_succ_of_ne_zero (show f ≠ 0 by omega)
          simp only [chainLevel, hbo, hp, hm]
          rw [hchain f' (by omega)]
          rfl

/-- the chain of L0 coarsenings collapses to ONE coarsening of the base it ends in -/
theorem chain_collapse (bs : List Nat) (ms : MultSeq) (hv : validMultSeq bs ms = true)
    (baseOf : Nat → Option Level) (hb : BasesOk bs baseOf) :
    ∀ (n i : Nat), i ≤ n → i < ms.resn.length → ∃ b M lb, (∀ f, i < f → chainOf bs ms f i = some (b, M)) ∧
      baseOf (ms.resn.getD b 0) = some lb ∧
      ((b = i ∧ ∀ f, i < f → chainLevel ms baseOf f i = some lb) ∨
       (b < i ∧ 1 ≤ M ∧ ∀ f, i < f → chainLevel ms baseOf f i = some (specLevel M lb))) := by
  intro n
  induction n with
  | zero =>
    intro i hi0 hi
    have : i = 0 := by omega
    subst this
    cases hbo : baseOf (ms.resn.getD 0 0) with
    | some l =>
      have hc : bs.contains (ms.resn.getD 0 0) = true := by rw [← hb.1, hbo]; rfl
      refine ⟨0, 1, l, ?_, hbo, Or.inl ⟨rfl, ?_⟩⟩
      · intro f hf
        obtain ⟨f', rfl⟩ := Nat.exists_eq_succ_of_ne_zero (Nat.pos_iff_ne_zero.mp hf)
        simp only [chainOf]; rw [if_pos hc]
      · intro f hf
        obtain ⟨f', rfl⟩ := Nat.exists_eq_succ_of_ne_zero (Nat.pos_iff_ne_zero.mp hf)
        simp only [chainLevel, hbo]
    | none =>
      have hnb : bs.contains (ms.resn.getD 0 0) = false := by rw [← hb.1, hbo]; rfl
      obtain ⟨p, m, _, _, hp, _⟩ := nonbase_pred bs ms 0 (levelOk_of_valid bs ms hv 0 hi) hnb
      omega
  | succ n ih =>
    intro i hin hi
    by_cases hlt : i ≤ n
    · exact ih i hlt hi
    · cases hbo : baseOf (ms.resn.getD i 0) with
      | some l =>
        have hc : bs.contains (ms.resn.getD i 0) = true := by rw [← hb.1, hbo]; rfl
        refine ⟨i, 1, l, ?_, hbo, Or.inl ⟨rfl, ?_⟩⟩
        · intro f hf
          obtain ⟨f', rfl⟩ := Nat.exists_eq_succ_of_ne_zero (show f ≠ 0 by omega)
          simp only [chainOf]; rw [if_pos hc]
        · intro f hf
          obtain ⟨f', rfl⟩ := Nat.exists_eq_succ_of_ne_zero (show f ≠ 0 by omega)
          simp only [chainLevel, hbo]
      | none =>
        have hnb : bs.contains (ms.resn.getD i 0) = false := by rw [← hb.1, hbo]; rfl
        obtain ⟨p, m, hp, hm, hpi, hmul, hm1⟩ := nonbase_pred bs ms i (levelOk_of_valid bs ms hv i hi) hnb
        obtain ⟨b, M, lb, hch, hlb, hcase⟩ := ih p (by omega) (by omega)
        have hchain_i : ∀ f, i < f → chainOf bs ms f i = some (b, M * m) := by
          intro f hf
          obtain ⟨f', rfl⟩ := Nat.exists_eq_succ_of_ne_zero (show f ≠ 0 by omega)
          simp only [chainOf, hnb, hp, hm, Bool.false_eq_true, if_false]
          rw [hch f' (by omega)]; rfl
        have hstep : ∀ f, i < f → chainLevel ms baseOf f i = (chainLevel ms baseOf (f - 1) p).map (specLevel m) := by
          intro f hf
          obtain ⟨f', rfl⟩ := Nat.exists_eq_succ_of_ne_zero (show f ≠ 0 by omega)
          simp only [chainLevel, hbo, hp, hm]
          rfl
        rcases hcase with ⟨hbp, hl⟩ | ⟨hbp, hM1, hl⟩
        · -- the predecessor is the base itself
          have hM : (∀ f, p < f → chainOf bs ms f p = some (b, M)) := hch
          have hc : bs.contains (ms.resn.getD p 0) = true := by rw [← hb.1, ← hbp, hlb]; rfl
          have hM1 : M = 1 := by
            have := hch (p + 1) (by omega)
            simp only [chainOf, hc, if_true, Option.some.injEq, Prod.mk.injEq] at this
            exact this.2.symm
          subst hM1
          refine ⟨b, 1 * m, lb, hchain_i, hlb, Or.inr ⟨by omega, by omega, ?_⟩⟩
          intro f hf
          rw [hstep f hf, hl (f - 1) (by omega), Nat.one_mul]; rfl
        · refine ⟨b, M * m, lb, hchain_i, hlb, Or.inr ⟨by omega, Nat.mul_le_mul hM1 hm1, ?_⟩⟩
          intro f hf
          rw [hstep f hf, hl (f - 1) (by omega)]
          simp only [Option.map_some]
          rw [specLevel_compose M m hM1 hm1 lb (hb.2 _ lb hlb)]

/-- **zoom_level_eq_direct**: for ANY `validMultSeq` output (whatever predecessor choice), valid base
stores, chunk size `≥ 1` and positive resolutions, every level of the zoomified file is produced, and
level `i` is a copy of its source if `resn[i]` is a base, and otherwise equals ONE direct L0 coarsening
`specLevel (resn[i] / resn[b]) (source of base b)` of the base `b` its chain ends in, `resn[b] ∣ resn[i]` —
whatever chain of intermediate levels was used. -/
theorem zoom_level_eq_direct (cs : Nat) (hcs : 1 ≤ cs) (bs : List Nat) (ms : MultSeq)
    (hv : validMultSeq bs ms = true) (hpos : ∀ r ∈ ms.resn, 1 ≤ r)
    (baseOf : Nat → Option Level) (hb : BasesOk bs baseOf) (i : Nat) (hi : i < ms.resn.length) :
    (∀ l, baseOf (ms.resn.getD i 0) = some l → (zoomify cs ms baseOf)[i]? = some (some l)) ∧
    (baseOf (ms.resn.getD i 0) = none → ∃ b lb, b < i ∧ baseOf (ms.resn.getD b 0) = some lb ∧
      ms.resn.getD i 0 % ms.resn.getD b 0 = 0 ∧
      (zoomify cs ms baseOf)[i]? = some (some (specLevel (ms.resn.getD i 0 / ms.resn.getD b 0) lb))) := by
  obtain ⟨_, hlev⟩ := zoom_levels_eq_chain cs hcs bs ms hv baseOf hb ms.resn.length (Nat.le_refl _)
  obtain ⟨l, _, hget, hchain⟩ := hlev i hi
  obtain ⟨b, M, lb, hch, hlb, hcase⟩ := chain_collapse bs ms hv baseOf hb i i (Nat.le_refl _) hi
  obtain ⟨b', M', hch', hb'i, _, hmul, _, _⟩ := chain_to_base bs ms hv i i (Nat.le_refl _) hi
  have heq := (hch (i + 1) (by omega)).symm.trans (hch' (i + 1) (by omega))
  simp only [Option.some.injEq, Prod.mk.injEq] at heq
  obtain ⟨rfl, rfl⟩ := heq
  unfold zoomify
  constructor
  · intro l0 hl0
    rw [hget]
    have := hchain (i + 1) (by omega)
    simp only [chainLevel, hl0, Option.some.injEq] at this
    rw [this]
  · intro hnone
    rcases hcase with ⟨hbi, _⟩ | ⟨hbi, hM1, hl⟩
    · subst hbi; rw [hnone] at hlb; exact absurd hlb (by simp)
    · have hbpos := hpos _ (getD_mem (show b < ms.resn.length by omega))
      have hdiv : ms.resn.getD i 0 / ms.resn.getD b 0 = M := by
        rw [← hmul]; exact Nat.mul_div_cancel_left M (by omega)
      refine ⟨b, lb, hbi, hlb, ?_, ?_⟩
      · rw [← hmul]; exact Nat.mul_mod_right _ _
      · rw [hget, hdiv]
        have := (hchain (i + 1) (by omega)).symm.trans (hl (i + 1) (by omega))
        simp only [Option.some.injEq] at this
        rw [this]

/-- **zoom_layout**: the listing of the output is exactly `/resolutions/<r>` for `r` in the sorted union —
every requested and every base resolution once, in natural order -/
theorem listing_all (rs : List Nat) : ∀ (ls : List (Option Level)), ls.length = rs.length →
    (∀ x ∈ ls, x.isSome = true) →
    ((rs.zip ls).filterMap fun rl => rl.2.map fun _ => "/resolutions/" ++ toString rl.1)
      = rs.map fun r => "/resolutions/" ++ toString r := by
  induction rs with
  | nil => intro ls _ _; simp
  | cons r rest ih =>
    intro ls hlen hall
    cases ls with
    | nil => simp at hlen
    | cons x xs =>
      have hx := hall x (by simp)
      obtain ⟨l, rfl⟩ := Option.isSome_iff_exists.mp hx
      simp only [List.zip_cons_cons, List.filterMap_cons, Option.map_some, List.map_cons]
      rw [ih xs (by simpa using hlen) (fun y hy => hall y (List.mem_cons_of_mem _ hy))]

theorem zoom_layout (cs : Nat) (hcs : 1 ≤ cs) (bs : List Nat) (ms : MultSeq)
    (hv : validMultSeq bs ms = true) (baseOf : Nat → Option Level) (hb : BasesOk bs baseOf) :
    listing ms (zoomify cs ms baseOf) = ms.resn.map fun r => "/resolutions/" ++ toString r := by
  obtain ⟨hlen, hlev⟩ := zoom_levels_eq_chain cs hcs bs ms hv baseOf hb ms.resn.length (Nat.le_refl _)
  unfold listing zoomify
  apply listing_all _ _ hlen
  intro x hx
  obtain ⟨i, hi, rfl⟩ := List.getElem_of_mem hx
  obtain ⟨l, _, hget, _⟩ := hlev i (by omega)
  rw [List.getElem?_eq_getElem hi] at hget
  simp only [Option.some.injEq] at hget
  rw [hget]; rfl

/-- non-vacuity of `zoom_level_eq_direct`: one base of width 1 (two chromosomes), targets `{2,3,6}`; the
hypotheses hold and level 6 (computed 1 → 3 → 6) is the direct coarsening by 6 -/
example :
    let bins : BinTable := [⟨0, 0, 1⟩, ⟨0, 1, 2⟩, ⟨0, 2, 3⟩, ⟨0, 3, 4⟩, ⟨0, 4, 5⟩, ⟨0, 5, 6⟩, ⟨0, 6, 7⟩, ⟨1, 0, 1⟩, ⟨1, 1, 2⟩]
    let px : Pixels := [⟨0, 5, 1⟩, ⟨1, 6, 2⟩, ⟨6, 7, 4⟩, ⟨7, 8, 8⟩]
    let ms : MultSeq := ⟨[1, 2, 3, 6], [none, some 0, some 0, some 2], [none, some 2, some 3, some 2]⟩
    getMultiplierSequence [6, 3, 2] (some [1]) = .ok ms ∧ validMultSeq [1] ms = true ∧
    wfB (groups bins) = true ∧ strictSortedB px = true ∧ inRangeB 9 px = true ∧
    (zoomify 2 ms (lookupBase [(1, (bins, px))]))[3]? = some (some (specLevel 6 (bins, px))) ∧
    specLevel 6 (bins, px) = ([⟨0, 0, 6⟩, ⟨0, 6, 7⟩, ⟨1, 0, 2⟩], [⟨0, 0, 1⟩, ⟨0, 1, 2⟩, ⟨1, 2, 4⟩, ⟨2, 2, 8⟩]) := by
  refine ⟨rfl, by decide, by decide, by decide, by decide, by decide, by decide⟩

/-! ## preferred_sequence and the CLI resolution spec -/

theorem pow2_shift (s i : Nat) : 2 * s * 2 ^ i = s * 2 ^ (i + 1) := by
  rw [Nat.pow_succ, Nat.mul_comm 2 s, Nat.mul_assoc, Nat.mul_comm 2 (2 ^ i)]

theorem mem_geomUpTo (stop x : Nat) : ∀ (fuel s : Nat),
    x ∈ geomUpTo fuel s stop ↔ ∃ i, i < fuel ∧ x = s * 2 ^ i ∧ x ≤ stop := by
  intro fuel
  induction fuel with
  | zero => intro s; simp [geomUpTo]
  | succ fuel ih =>
    intro s
    unfold geomUpTo
    split
    · rename_i hgt
      simp only [List.not_mem_nil, false_iff, not_exists, not_and]
      intro i _ hx
      have : s ≤ s * 2 ^ i := Nat.le_mul_of_pos_right s (Nat.pow_pos (by omega))
      omega
    · rename_i hle
      rw [List.mem_cons, ih]
      constructor
      · rintro (h | ⟨i, hi, hx, hxs⟩)
        · exact ⟨0, by omega, by simp [h], by omega⟩
        · refine ⟨i + 1, by omega, ?_, hxs⟩
          rw [hx, pow2_shift]
      · rintro ⟨i, hi, hx, hxs⟩
        cases i with
        | zero => left; simpa using hx
        | succ i =>
          right
          refine ⟨i, by omega, ?_, hxs⟩
          rw [hx, pow2_shift]

/-- **mem_binary** (`B`, `<k>B`): for `start ≥ 1` the binary progression is exactly the values
`start · 2^i` that do not exceed `stop` -/
theorem mem_binary (start stop x : Nat) (hs : 1 ≤ start) :
    x ∈ preferredSequence start stop .binary ↔ ∃ i, x = start * 2 ^ i ∧ x ≤ stop := by
  unfold preferredSequence
  split
  · rename_i hgt
    simp only [List.not_mem_nil, false_iff, not_exists, not_and]
    intro i hx
    have : start ≤ start * 2 ^ i := Nat.le_mul_of_pos_right start (Nat.pow_pos (by omega))
    omega
  · simp only
    rw [mem_geomUpTo]
    constructor
    · rintro ⟨i, _, h1, h2⟩; exact ⟨i, h1, h2⟩
    · rintro ⟨i, h1, h2⟩
      refine ⟨i, ?_, h1, h2⟩
      have h3 : 2 ^ i ≤ start * 2 ^ i := Nat.le_mul_of_pos_left _ (by omega)
      have h4 := Nat.lt_two_pow_self (n := i)
      omega

theorem le_mul_pow (s j d : Nat) (hd : 1 ≤ d) : s ≤ s * 10 ^ j * d := by
  have h1 : s ≤ s * 10 ^ j := Nat.le_mul_of_pos_right s (Nat.pow_pos (by omega))
  have h2 : s * 10 ^ j ≤ s * 10 ^ j * d := Nat.le_mul_of_pos_right _ (by omega)
  omega

theorem mem_niceUpTo (stop x : Nat) : ∀ (fuel s : Nat),
    x ∈ niceUpTo fuel s stop ↔ ∃ j d, j < fuel ∧ (d = 2 ∨ d = 5 ∨ d = 10) ∧ x = s * 10 ^ j * d ∧ x ≤ stop := by
  intro fuel
  induction fuel with
  | zero => intro s; simp [niceUpTo]
  | succ fuel ih =>
    intro s
    have hshift : ∀ j d, s * 10 * 10 ^ j * d = s * 10 ^ (j + 1) * d := by
      intro j d; rw [Nat.pow_succ, Nat.mul_comm (10 ^ j) 10, ← Nat.mul_assoc]
    -- every later term is at least `s * 10`
    have hlater : ∀ j d, (d = 2 ∨ d = 5 ∨ d = 10) → s * 10 ≤ s * 10 ^ (j + 1) * d := by
      intro j d hd
      rw [← hshift]
      exact le_mul_pow (s * 10) j d (by omega)
    have hfirst : ∀ d, s * 10 ^ 0 * d = s * d := by intro d; simp
    unfold niceUpTo
    constructor
    · intro hx
      split at hx
      · simp at hx
      · rename_i h2
        rcases List.mem_cons.mp hx with rfl | hx
        · exact ⟨0, 2, by omega, by omega, by simp, by omega⟩
        · split at hx
          · simp at hx
          · rename_i h5
            rcases List.mem_cons.mp hx with rfl | hx
            · exact ⟨0, 5, by omega, by omega, by simp, by omega⟩
            · split at hx
              · simp at hx
              · rename_i h10
                rcases List.mem_cons.mp hx with rfl | hx
                · exact ⟨0, 10, by omega, by omega, by simp, by omega⟩
                · obtain ⟨j, d, hj, hd, hxe, hxs⟩ := (ih (s * 10)).mp hx
                  exact ⟨j + 1, d, by omega, hd, by rw [hxe, hshift], hxs⟩
    · rintro ⟨j, d, hj, hd, hxe, hxs⟩
      cases j with
      | zero =>
        rw [hfirst] at hxe
        rcases hd with rfl | rfl | rfl
        · rw [if_neg (by omega)]; subst hxe; simp
        · rw [if_neg (by omega), if_neg (by omega)]; subst hxe; simp
        · rw [if_neg (by omega), if_neg (by omega), if_neg (by omega)]; subst hxe; simp
      | succ j =>
        have := hlater j d hd
        rw [if_neg (by omega), if_neg (by omega), if_neg (by omega)]
        simp only [List.mem_cons]
        right; right; right
        exact (ih (s * 10)).mpr ⟨j, d, by omega, hd, by rw [hxe, hshift], hxs⟩

/-- **mem_nice** (`N`, `<k>N`, `4DN`): for `start ≥ 1` the nice progression is exactly the values
`start · 10^j · d`, `d ∈ {1, 2, 5}`, that do not exceed `stop` -/
theorem mem_nice (start stop x : Nat) (hs : 1 ≤ start) :
    x ∈ preferredSequence start stop .nice ↔
      ∃ j d, (d = 1 ∨ d = 2 ∨ d = 5) ∧ x = start * 10 ^ j * d ∧ x ≤ stop := by
  unfold preferredSequence
  split
  · rename_i hgt
    simp only [List.not_mem_nil, false_iff, not_exists, not_and]
    intro j d hd hx
    have := le_mul_pow start j d (by omega)
    omega
  · rename_i hle
    simp only [List.mem_cons]
    rw [mem_niceUpTo]
    constructor
    · rintro (rfl | ⟨j, d, _, hd, hxe, hxs⟩)
      · exact ⟨0, 1, by omega, by simp, by omega⟩
      · rcases hd with rfl | rfl | rfl
        · exact ⟨j, 2, by omega, hxe, hxs⟩
        · exact ⟨j, 5, by omega, hxe, hxs⟩
        · refine ⟨j + 1, 1, by omega, ?_, hxs⟩
          rw [hxe, Nat.pow_succ, Nat.mul_one, Nat.mul_assoc]
    · rintro ⟨j, d, hd, hxe, hxs⟩
      have hfuel : j < stop + 1 := by
        have h1 : 10 ^ j ≤ start * 10 ^ j := Nat.le_mul_of_pos_left _ (by omega)
        have h2 : start * 10 ^ j ≤ start * 10 ^ j * d := Nat.le_mul_of_pos_right _ (by omega)
        have h3 : j < 10 ^ j := Nat.lt_pow_self (by omega)
        omega
      rcases hd with rfl | rfl | rfl
      · cases j with
        | zero => left; simpa using hxe
        | succ j =>
          right
          refine ⟨j, 10, by omega, by omega, ?_, hxs⟩
          rw [hxe, Nat.pow_succ, Nat.mul_one, Nat.mul_assoc]
      · right; exact ⟨j, 2, hfuel, by omega, hxe, hxs⟩
      · right; exact ⟨j, 5, hfuel, by omega, hxe, hxs⟩

/-- **preferred_bounds**: every term lies between `start` and `stop`; `start` itself is there iff `start ≤ stop` -/
theorem preferred_bounds (start stop : Nat) (hs : 1 ≤ start) (style : Style) :
    (∀ x ∈ preferredSequence start stop style, start ≤ x ∧ x ≤ stop) ∧
    (start ∈ preferredSequence start stop style ↔ start ≤ stop) := by
  cases style with
  | binary =>
    constructor
    · intro x hx
      obtain ⟨i, h1, h2⟩ := (mem_binary start stop x hs).mp hx
      have : start ≤ start * 2 ^ i := Nat.le_mul_of_pos_right start (Nat.pow_pos (by omega))
      omega
    · rw [mem_binary start stop start hs]
      constructor
      · rintro ⟨_, _, h⟩; exact h
      · intro h; exact ⟨0, by simp, h⟩
  | nice =>
    constructor
    · intro x hx
      obtain ⟨j, d, hd, h1, h2⟩ := (mem_nice start stop x hs).mp hx
      have := le_mul_pow start j d (by omega)
      omega
    · rw [mem_nice start stop start hs]
      constructor
      · rintro ⟨_, _, _, _, h⟩; exact h
      · intro h; exact ⟨0, 1, by omega, by simp, h⟩

/-! ### the spellings -/

/-- `N`, `B`, `4DN` -/
theorem expandSpec_N (c m : Nat) : expandToken c m ['n'] = .ok (preferredSequence c m .nice) := rfl
theorem expandSpec_B (c m : Nat) : expandToken c m ['b'] = .ok (preferredSequence c m .binary) := rfl
theorem expandSpec_4DN (c m : Nat) :
    expandToken c m ['4', 'd', 'n'] = .ok ([1000, 2000] ++ preferredSequence 5000 m .nice) := rfl

/-- **expandSpec_list**: a comma list is expanded item by item (each stripped and lower-cased), in order -/
theorem expandSpec_list (c m : Nat) (first : Strings.Str) (rest : Strings.Str) (hnc : ∀ ch ∈ first, ch ≠ ',')
    (r1 r2 : List Nat)
    (h1 : expandToken c m ((Strings.strip first).map lower) = .ok r1)
    (h2 : expandResolutionSpec c m rest = .ok r2) :
    expandResolutionSpec c m (first ++ ',' :: rest) = .ok (r1 ++ r2) := by
  have hsplit : ∀ (a : Strings.Str), (∀ ch ∈ a, ch ≠ ',') →
      Strings.splitChar ',' (a ++ ',' :: rest) = a :: Strings.splitChar ',' rest := by
    intro a
    induction a with
    | nil => intro _; simp [Strings.splitChar]
    | cons x xs ih =>
      intro hx
      have hxc : x ≠ ',' := hx x (by simp)
      simp only [List.cons_append, Strings.splitChar, hxc, if_false]
      rw [ih (fun ch hch => hx ch (List.mem_cons_of_mem _ hch))]
  unfold expandResolutionSpec at h2 ⊢
  rw [hsplit first hnc, List.map_cons, List.foldr_cons, h1, h2]

/-- the spellings on concrete items (current resolution 1, coarsest 9): `2b,5N, 3` and `<k>N`, `<k>B`, integers,
upper case, blanks; malformed items are `ValueError`s -/
example : expandResolutionSpec 1 9 ['2', 'b', ',', '5', 'N', ',', ' ', '3'] = .ok [2, 4, 8, 5, 3] ∧
    expandResolutionSpec 1 9 ['n'] = .ok [1, 2, 5] ∧ expandResolutionSpec 1 9 ['B'] = .ok [1, 2, 4, 8] ∧
    expandResolutionSpec 1 9 ['4', 'D', 'N'] = .ok [1000, 2000] ∧ expandResolutionSpec 1 9 ['3', 'n'] = .ok [3, 6] ∧
    expandResolutionSpec 1 9 ['x'] = .error .value ∧ expandResolutionSpec 1 9 ['3', ',', ',', '4'] = .error .value :=
  ⟨rfl, rfl, rfl, rfl, rfl, rfl, rfl⟩

/-- **expandSpec_int**: a plain integer item yields that one resolution (concrete digit strings are
evaluated by `decide`; the general statement is about `pyIntStr`) -/
theorem expandSpec_int (c m : Nat) (res : Strings.Str) (k : Nat) (h : pyIntStr res = .ok k)
    (hn : res.getLast? ≠ some 'n') (hb : res.getLast? ≠ some 'b') : expandToken c m res = .ok [k] := by
  have h1 : res ≠ ['n'] := fun h => hn (by rw [h]; rfl)
  have h2 : res ≠ ['b'] := fun h => hb (by rw [h]; rfl)
  have h3 : res ≠ ['4', 'd', 'n'] := fun h => hn (by rw [h]; rfl)
  unfold expandToken
  rw [if_neg h1, if_neg h2, if_neg h3, if_neg hn, if_neg hb, h]

/-! ## the output file across calls -/

/-- puts of pairwise distinct keys, none of which is in the file yet, append -/
theorem foldl_put_fresh : ∀ (es acc : MFile),
    (es.map (·.1)).Nodup → (∀ e ∈ es, e.1 ∉ acc.map (·.1)) →
    (es.map fun e => FileOp.put e.1 e.2).foldl applyOp acc = acc ++ es := by
  intro es
  induction es with
  | nil => intro acc _ _; simp
  | cons e rest ih =>
    intro acc hnd hfresh
    simp only [List.map_cons, List.nodup_cons] at hnd
    have he : e.1 ∉ acc.map (·.1) := hfresh e (by simp)
    have hput : putGroup acc e.1 e.2 = acc ++ [e] := by
      unfold putGroup
      congr 1
      rw [List.filter_eq_self]
      intro a ha
      have : a.1 ≠ e.1 := fun h => he (h ▸ List.mem_map_of_mem (f := (·.1)) ha)
      simpa using this
    simp only [List.map_cons, List.foldl_cons, applyOp, hput]
    rw [ih (acc ++ [e]) hnd.2]
    · simp
    · intro x hx
      simp only [List.map_append, List.map_cons, List.map_nil, List.mem_append, List.mem_singleton, not_or]
      refine ⟨hfresh x (List.mem_cons_of_mem _ hx), ?_⟩
      intro h
      exact hnd.1 (h ▸ List.mem_map_of_mem (f := (·.1)) hx)

/-- **zoomify_file_prior**: what a run leaves at `outfile` does not depend on what was there before -/
theorem zoomify_file_prior (prior : MFile) (cs : Nat) (ms : MultSeq) (baseOf : Nat → Option Level) :
    zoomifyFile prior cs ms baseOf = zoomifyFile [] cs ms baseOf := by
  simp [zoomifyFile, zoomifyOps, applyOp]

theorem entries_keys (rs : List Nat) : ∀ (ls : List (Option Level)), ls.length = rs.length →
    (∀ x ∈ ls, x.isSome = true) →
    (((rs.zip ls).filterMap fun rl => rl.2.map fun l => (GKey.resolution rl.1, l)).map (·.1))
      = rs.map GKey.resolution := by
  induction rs with
  | nil => intro ls _ _; simp
  | cons r rest ih =>
    intro ls hlen hall
    cases ls with
    | nil => simp at hlen
    | cons x xs =>
      have hx := hall x (by simp)
      obtain ⟨l, rfl⟩ := Option.isSome_iff_exists.mp hx
      simp only [List.zip_cons_cons, List.filterMap_cons, Option.map_some, List.map_cons]
      rw [ih xs (by simpa using hlen) (fun y hy => hall y (List.mem_cons_of_mem _ hy))]

/-- **zoomify_file**: after a run over ANY earlier content the file holds exactly the collections of this run —
`/resolutions/<r>` for `r` in the sorted union, each once, and nothing else -/
theorem zoomify_file (cs : Nat) (hcs : 1 ≤ cs) (bs : List Nat) (ms : MultSeq)
    (hv : validMultSeq bs ms = true) (hs : ms.resn.Pairwise (· < ·))
    (baseOf : Nat → Option Level) (hb : BasesOk bs baseOf) (prior : MFile) :
    zoomifyFile prior cs ms baseOf = zoomEntries cs ms baseOf ∧
    (zoomifyFile prior cs ms baseOf).map (·.1) = ms.resn.map GKey.resolution ∧
    (zoomifyFile prior cs ms baseOf).map (fun e => keyPath e.1) = listing ms (zoomify cs ms baseOf) := by
  obtain ⟨hlen, hlev⟩ := zoom_levels_eq_chain cs hcs bs ms hv baseOf hb ms.resn.length (Nat.le_refl _)
  have hall : ∀ x ∈ zoomify cs ms baseOf, x.isSome = true := by
    intro x hx
    obtain ⟨i, hi, rfl⟩ := List.getElem_of_mem hx
    obtain ⟨l, _, hget, _⟩ := hlev i (by unfold zoomify at hi; omega)
    unfold zoomify
    rw [List.getElem?_eq_getElem (by unfold zoomify at hi; exact hi)] at hget
    simp only [Option.some.injEq] at hget
    rw [hget]; rfl
  have hkeys : (zoomEntries cs ms baseOf).map (·.1) = ms.resn.map GKey.resolution :=
    entries_keys ms.resn (zoomify cs ms baseOf) hlen hall
  have hnd : ((zoomEntries cs ms baseOf).map (·.1)).Nodup := by
    rw [hkeys]
    refine List.Pairwise.map _ ?_ hs
    intro a b hab h
    injection h with h
    omega
  have hfile : zoomifyFile prior cs ms baseOf = zoomEntries cs ms baseOf := by
    unfold zoomifyFile zoomifyOps
    rw [List.foldl_cons]
    simp only [applyOp]
    rw [foldl_put_fresh _ [] hnd (by simp)]
    simp
  refine ⟨hfile, by rw [hfile, hkeys], ?_⟩
  rw [hfile, zoom_layout cs hcs bs ms hv baseOf hb]
  have : (zoomEntries cs ms baseOf).map (fun e => keyPath e.1) = ((zoomEntries cs ms baseOf).map (·.1)).map keyPath := by
    simp
  rw [this, hkeys]
  simp [keyPath]

/-- non-vacuity, and why the truncation matters: ladder `{2, 4}` over a base of width 2 written onto a file
that holds `/resolutions/2, 4, 8` and a legacy level `/3` from earlier runs — the result lists 2 and 4 only;
the same puts WITHOUT the truncation keep the stale `/resolutions/8` and `/3` -/
example :
    let bins : BinTable := [⟨0, 0, 2⟩, ⟨0, 2, 4⟩, ⟨0, 4, 6⟩, ⟨0, 6, 7⟩]
    let px : Pixels := [⟨0, 1, 1⟩, ⟨2, 3, 5⟩]
    let ms : MultSeq := ⟨[2, 4], [none, some 0], [none, some 2]⟩
    let baseOf := lookupBase [(2, (bins, px))]
    let stale : Level := ([⟨0, 0, 7⟩], [⟨0, 0, 9⟩])
    let prior : MFile := [(.resolution 2, stale), (.resolution 4, stale), (.resolution 8, stale), (.other "/3", stale)]
    getMultiplierSequence [4] (some [2]) = .ok ms ∧ validMultSeq [2] ms = true ∧
    (zoomifyFile prior 2 ms baseOf).map (fun e => keyPath e.1) = ["/resolutions/2", "/resolutions/4"] ∧
    (((zoomifyOps 2 ms baseOf).tail.foldl applyOp prior).map fun e => keyPath e.1)
      = ["/resolutions/8", "/3", "/resolutions/2", "/resolutions/4"] := by
  refine ⟨rfl, by decide, by decide, by decide⟩

/-! ## the items of a `-r` list are expanded independently of one another -/

/-- the items of the option value: split at commas, stripped, lower-cased -/
def specTokens (spec : Strings.Str) : List Strings.Str :=
  (Strings.splitChar ',' spec).map fun s => (Strings.strip s).map lower

/-- the loop over the items -/
def expandTokens (curres maxres : Nat) (toks : List Strings.Str) : Except Err (List Nat) :=
  toks.foldr
    (fun tok acc =>
      match expandToken curres maxres tok, acc with
      | .ok r, .ok rest => .ok (r ++ rest)
      | .error e, _ => .error e
      | _, .error e => .error e)
    (.ok [])

theorem expandSpec_tokens (c m : Nat) (spec : Strings.Str) :
    expandResolutionSpec c m spec = expandTokens c m (specTokens spec) := rfl

/-- the list is accepted iff every item is; then a resolution is produced iff SOME item produces it — every item
is expanded from the same `curres`/`maxres`, whatever items precede it -/
theorem expandTokens_ok (c m : Nat) : ∀ (toks : List Strings.Str),
    (∀ t ∈ toks, ∃ r, expandToken c m t = .ok r) →
    ∃ rs, expandTokens c m toks = .ok rs ∧
      ∀ x, x ∈ rs ↔ ∃ t ∈ toks, ∃ r, expandToken c m t = .ok r ∧ x ∈ r := by
  intro toks
  induction toks with
  | nil => intro _; exact ⟨[], rfl, by simp⟩
  | cons t rest ih =>
    intro h
    obtain ⟨r, hr⟩ := h t (by simp)
    obtain ⟨rs, hrs, hmem⟩ := ih (fun u hu => h u (List.mem_cons_of_mem _ hu))
    refine ⟨r ++ rs, ?_, ?_⟩
    · show (match expandToken c m t, expandTokens c m rest with
        | .ok r, .ok rest => Except.ok (r ++ rest)
        | .error e, _ => .error e
        | _, .error e => .error e) = _
      rw [hr, hrs]
    · intro x
      simp only [List.mem_append, List.mem_cons, exists_eq_or_imp, hmem x]
      constructor
      · rintro (hx | hx)
        · exact Or.inl ⟨r, hr, hx⟩
        · exact Or.inr hx
      · rintro (⟨r', hr', hx⟩ | hx)
        · rw [hr] at hr'; injection hr' with hr'; subst hr'; exact Or.inl hx
        · exact Or.inr hx

theorem expandTokens_ok_inv (c m : Nat) : ∀ (toks : List Strings.Str) (rs : List Nat),
    expandTokens c m toks = .ok rs → ∀ t ∈ toks, ∃ r, expandToken c m t = .ok r := by
  intro toks
  induction toks with
  | nil => intro _ _ t ht; simp at ht
  | cons u rest ih =>
    intro rs h t ht
    have h' : (match expandToken c m u, expandTokens c m rest with
        | .ok r, .ok rest => Except.ok (r ++ rest)
        | .error e, _ => .error e
        | _, .error e => .error e) = .ok rs := h
    cases hu : expandToken c m u with
    | error e => rw [hu] at h'; simp at h'
    | ok r =>
      cases hrest : expandTokens c m rest with
      | error e => rw [hu, hrest] at h'; simp at h'
      | ok rr =>
        rcases List.mem_cons.mp ht with rfl | ht
        · exact ⟨r, hu⟩
        · exact ih rr hrest t ht

/-- **expandSpec_perm**: the SET of resolutions a `-r` list produces does not depend on the order of its items -/
theorem expandSpec_perm (c m : Nat) (t1 t2 : List Strings.Str) (hp : t1.Perm t2) (r1 : List Nat)
    (h1 : expandTokens c m t1 = .ok r1) :
    ∃ r2, expandTokens c m t2 = .ok r2 ∧ ∀ x, x ∈ r1 ↔ x ∈ r2 := by
  have hall1 := expandTokens_ok_inv c m t1 r1 h1
  have hall2 : ∀ t ∈ t2, ∃ r, expandToken c m t = .ok r := fun t ht => hall1 t (hp.mem_iff.mpr ht)
  obtain ⟨r2, h2, hm2⟩ := expandTokens_ok c m t2 hall2
  obtain ⟨r1', h1', hm1⟩ := expandTokens_ok c m t1 hall1
  rw [h1] at h1'; injection h1' with h1'; subst h1'
  refine ⟨r2, h2, fun x => ?_⟩
  rw [hm1 x, hm2 x]
  constructor
  · rintro ⟨t, ht, r, hr, hx⟩; exact ⟨t, hp.mem_iff.mp ht, r, hr, hx⟩
  · rintro ⟨t, ht, r, hr, hx⟩; exact ⟨t, hp.mem_iff.mpr ht, r, hr, hx⟩

/-- `8n,b` and `b,8n` at current resolution 2, coarsest 17: the same set {2, 4, 8, 16}; a bare `b` after `8n`
still starts from the current resolution 2 -/
example : expandResolutionSpec 2 17 ['8', 'n', ',', 'b'] = .ok [8, 16, 2, 4, 8, 16] ∧
    expandResolutionSpec 2 17 ['b', ',', '8', 'n'] = .ok [2, 4, 8, 16, 8, 16] ∧
    expandResolutionSpec 2 17 ['4', 'B', ',', ' ', 'N'] = .ok [4, 8, 16, 2, 4, 10] :=
  ⟨rfl, rfl, rfl⟩

end Cooler.C09
