import CoolerModel.Props.C07Core
/-!
# C07 (continued) — the modelled `merge_breakpoints` loop satisfies the partition contract

For a non-decreasing combined index with at least two entries (one bin) and `bufsize ≥ 1` the loop
terminates within its fuel and returns a strictly increasing chain from 0 whose last element `h`
satisfies `combined[h] = nnz`.
-/
set_option linter.unusedSimpArgs false
set_option linter.unusedVariables false

namespace Cooler.C07
open Cooler Cooler.Merge

theorem bisectRight_le (a : List Nat) (x lo : Nat) (hlo : lo ≤ a.length) : bisectRight a x lo ≤ a.length := by
  unfold bisectRight
  have h1 : ((a.drop lo).takeWhile (· ≤ x)).length ≤ (a.drop lo).length := by
    have := List.takeWhile_sublist (l := a.drop lo) (fun y => decide (y ≤ x))
    exact this.length_le
  simp only [List.length_drop] at h1
  omega

theorem bisectRight_gt (a : List Nat) (x lo : Nat) (hlo : lo < a.length) (hx : a.getD lo 0 ≤ x) :
    lo + 1 ≤ bisectRight a x lo := by
  unfold bisectRight
  have hd : a.drop lo = a[lo] :: a.drop (lo + 1) := by
    rw [List.drop_eq_getElem_cons hlo]
  have hget : a.getD lo 0 = a[lo] := by
    rw [List.getD_eq_getElem?_getD, List.getElem?_eq_getElem hlo]; rfl
  rw [hd, List.takeWhile_cons]
  have : decide (a[lo] ≤ x) = true := by simp; omega
  simp only [this, if_true, List.length_cons]
  omega

/-- hypotheses on the combined index, in the form the loop uses them -/
structure CombOK (comb : List Nat) (nnz : Nat) : Prop where
  len : 2 ≤ comb.length
  mono : ∀ i j, i ≤ j → j < comb.length → comb.getD i 0 ≤ comb.getD j 0
  last : comb.getD (comb.length - 1) 0 = nnz

theorem breakLoop_spec (comb : List Nat) (buf nnz : Nat) (hb : 1 ≤ buf) (hc : CombOK comb nnz) :
    ∀ (fuel lo start : Nat), lo + 1 < comb.length → start = comb.getD lo 0 → comb.length - lo ≤ fuel →
      let r := breakLoop comb buf nnz fuel lo start
      r ≠ [] ∧ chainIncr lo r = true ∧ (lo :: r).getLast?.getD 0 < comb.length ∧
        comb.getD ((lo :: r).getLast?.getD 0) 0 = nnz := by
  intro fuel
  induction fuel with
  | zero => intro lo start h1 _ h3; omega
  | succ fuel ih =>
    intro lo start h1 hs h3
    have hle_nnz : comb.getD lo 0 ≤ nnz := by
      rw [← hc.last]; exact hc.mono lo (comb.length - 1) (by omega) (by omega)
    have hx : comb.getD lo 0 ≤ min (start + buf) nnz := by
      rw [hs]; omega
    have hbr1 := bisectRight_gt comb (min (start + buf) nnz) lo (by omega) hx
    have hbr2 := bisectRight_le comb (min (start + buf) nnz) lo (by omega)
    simp only [breakLoop]
    generalize hh0 : bisectRight comb (min (start + buf) nnz) lo - 1 = hi0
    have hhi0 : lo ≤ hi0 ∧ hi0 ≤ comb.length - 1 := by omega
    by_cases heq : hi0 = lo
    · -- bumped to lo + 1
      simp only [heq, if_true]
      by_cases hstop : comb.getD (lo + 1) 0 = nnz
      · simp only [hstop, if_true]
        refine ⟨by simp, by simp [chainIncr], ?_, ?_⟩
        · simp [List.getLast?_cons_cons]; omega
        · simpa [List.getLast?_cons_cons] using hstop
      · simp only [hstop, if_false]
        have hnext : lo + 1 + 1 < comb.length := by
          by_cases hl : lo + 1 = comb.length - 1
          · exfalso; apply hstop; rw [hl]; exact hc.last
          · omega
        obtain ⟨r1, r2, r3, r4⟩ := ih (lo + 1) (comb.getD (lo + 1) 0) hnext rfl (by omega)
        refine ⟨by simp, ?_, ?_, ?_⟩
        · simp only [chainIncr, Bool.and_eq_true, decide_eq_true_eq]
          exact ⟨by omega, r2⟩
        · rw [List.getLast?_cons_cons]; exact r3
        · rw [List.getLast?_cons_cons]; exact r4
    · simp only [heq, if_false]
      have hgt : lo < hi0 := by omega
      by_cases hstop : comb.getD hi0 0 = nnz
      · simp only [hstop, if_true]
        refine ⟨by simp, by simp [chainIncr]; omega, ?_, ?_⟩
        · simp [List.getLast?_cons_cons]; omega
        · simpa [List.getLast?_cons_cons] using hstop
      · simp only [hstop, if_false]
        have hnext : hi0 + 1 < comb.length := by
          by_cases hl : hi0 = comb.length - 1
          · exfalso; apply hstop; rw [hl]; exact hc.last
          · omega
        obtain ⟨r1, r2, r3, r4⟩ := ih hi0 (comb.getD hi0 0) hnext rfl (by omega)
        refine ⟨by simp, ?_, ?_, ?_⟩
        · simp only [chainIncr, Bool.and_eq_true, decide_eq_true_eq]
          exact ⟨hgt, r2⟩
        · rw [List.getLast?_cons_cons]; exact r3
        · rw [List.getLast?_cons_cons]; exact r4

/-- **breakpoints_contract**: the modelled loop returns a valid partition for every buffer size ≥ 1 -/
theorem breakpoints_contract (comb : List Nat) (buf : Nat) (hb : 1 ≤ buf)
    (hc : CombOK comb (comb.getLast?.getD 0)) (h0 : comb.getD 0 0 = 0) :
    validBreakpoints comb (mergeBreakpoints comb buf) = true := by
  unfold mergeBreakpoints validBreakpoints
  obtain ⟨r1, r2, r3, r4⟩ := breakLoop_spec comb buf _ hb hc comb.length 0 0 (by have := hc.len; omega)
    h0.symm (by omega)
  simp only [Bool.and_eq_true, decide_eq_true_eq]
  exact ⟨⟨⟨trivial, r2⟩, r3⟩, r4⟩

/-- the hypotheses hold for the element-wise sum of real row-pointer arrays; concrete instance -/
example : CombOK [0, 0, 0, 5, 6] 6 :=
  ⟨by decide, by
    intro i j hij hj
    simp only [List.length_cons, List.length_nil] at hj
    have hj' : j = 0 ∨ j = 1 ∨ j = 2 ∨ j = 3 ∨ j = 4 := by omega
    have hi' : i = 0 ∨ i = 1 ∨ i = 2 ∨ i = 3 ∨ i = 4 := by omega
    rcases hj' with rfl | rfl | rfl | rfl | rfl <;>
      rcases hi' with rfl | rfl | rfl | rfl | rfl <;> first | omega | decide, by decide⟩

end Cooler.C07
