import CoolerModel.Props.C02Core
/-!
# C02 (continued) — the index builder is insensitive to how the runs are cut

`index_pixels` consumes `(start, value)` runs.  For ANY run list that spells out a non-decreasing
column (maximal runs or not: a value repeated in consecutive runs fills an empty slice) the offsets
are the run-length index.  This is what makes `rlencode` a free unit constrained only by `runsSpell`.
-/
set_option linter.unusedSimpArgs false
set_option linter.unusedVariables false

namespace Cooler.C02
open Cooler

theorem countP_replicate_lt (l v k : Nat) :
    (List.replicate l v).countP (· < k) = if v < k then l else 0 := by
  induction l with
  | zero => simp
  | succ l ih =>
    simp only [List.replicate_succ, List.countP_cons, ih, decide_eq_true_eq]
    split <;> simp

/-- invariant of the fill loop over segments: entries from `curr` on are `pos + #(remaining elements < k)` -/
theorem fillIdx_segs (n : Nat) :
    ∀ (segs : List (Nat × Nat)) (pos curr : Nat),
      (segs.map Prod.snd).Pairwise (· ≤ ·) → (∀ s ∈ segs, s.2 < n) →
      (∀ s ∈ segs, curr ≤ s.2 + 1) →
      fillIdx n (pos + (expandSegs segs).length) curr (segsToRuns pos segs)
        = (List.range' curr (n + 1 - curr)).map fun k => pos + (expandSegs segs).countP (· < k) := by
  intro segs
  induction segs with
  | nil =>
    intro pos curr _ _ _
    simp [expandSegs, segsToRuns, fillIdx, List.map_const']
  | cons s rest ih =>
    intro pos curr hs hn hc
    obtain ⟨l, v⟩ := s
    have hs' : (rest.map Prod.snd).Pairwise (· ≤ ·) := (List.pairwise_cons.mp hs).2
    have hv : ∀ t ∈ rest, v ≤ t.2 := by
      intro t ht
      exact (List.pairwise_cons.mp hs).1 t.2 (List.mem_map_of_mem ht)
    have hvn : v < n := hn (l, v) (by simp)
    have hcv : curr ≤ v + 1 := hc (l, v) (by simp)
    have ih' := ih (pos + l) (v + 1) hs' (fun t ht => hn t (List.mem_cons_of_mem _ ht))
      (fun t ht => by have := hv t ht; omega)
    simp only [expandSegs, segsToRuns, fillIdx, List.length_append, List.length_replicate]
    have hlen : pos + (l + (expandSegs rest).length) = pos + l + (expandSegs rest).length := by omega
    rw [hlen, ih']
    have hsplit : List.range' curr (n + 1 - curr)
        = List.range' curr (v + 1 - curr) ++ List.range' (v + 1) (n + 1 - (v + 1)) := by
      have h1 : n + 1 - curr = (v + 1 - curr) + (n + 1 - (v + 1)) := by omega
      rw [h1, ← List.range'_append]
      simp only [Nat.one_mul]
      have : curr + (v + 1 - curr) = v + 1 := by omega
      rw [this]
    rw [hsplit, List.map_append]
    congr 1
    · -- entries curr..v: nothing of the remaining array is below them
      have : ∀ k ∈ List.range' curr (v + 1 - curr),
          pos + (List.replicate l v ++ expandSegs rest).countP (· < k) = pos := by
        intro k hk
        have hk' := List.mem_range'_1.mp hk
        have hz : (List.replicate l v ++ expandSegs rest).countP (· < k) = 0 := by
          rw [List.countP_eq_zero]
          intro y hy
          simp only [decide_eq_true_eq, Nat.not_lt]
          rcases List.mem_append.mp hy with h | h
          · have := (List.mem_replicate.mp h).2; omega
          · -- every later element is ≥ v
            have hge : ∀ (ss : List (Nat × Nat)), (∀ t ∈ ss, v ≤ t.2) → ∀ y ∈ expandSegs ss, v ≤ y := by
              intro ss
              induction ss with
              | nil => intro _ y hy; simp [expandSegs] at hy
              | cons t ts iht =>
                intro htt y hy
                obtain ⟨tl, tv⟩ := t
                simp only [expandSegs] at hy
                rcases List.mem_append.mp hy with h1 | h1
                · have := (List.mem_replicate.mp h1).2
                  have := htt (tl, tv) (by simp)
                  simp only at this; omega
                · exact iht (fun u hu => htt u (List.mem_cons_of_mem _ hu)) y h1
            have := hge rest hv y h
            omega
        omega
      rw [List.map_congr_left this]
      simp [List.map_const']
    · apply List.map_congr_left
      intro k hk
      have hk' := List.mem_range'_1.mp hk
      rw [List.countP_append, countP_replicate_lt]
      have : v < k := by omega
      simp only [this, if_true]
      omega

theorem mem_expandSegs_of_mem (segs : List (Nat × Nat)) (s : Nat × Nat) (hs : s ∈ segs) (hl : 1 ≤ s.1) :
    s.2 ∈ expandSegs segs := by
  induction segs with
  | nil => simp at hs
  | cons t ts ih =>
    obtain ⟨tl, tv⟩ := t
    simp only [expandSegs]
    rcases List.mem_cons.mp hs with rfl | h
    · apply List.mem_append_left
      exact List.mem_replicate.mpr ⟨by simp only at hl; omega, rfl⟩
    · exact List.mem_append_right _ (ih h)

theorem segs_values_sorted :
    ∀ (segs : List (Nat × Nat)), (∀ s ∈ segs, 1 ≤ s.1) → NonDecr (expandSegs segs) →
      (segs.map Prod.snd).Pairwise (· ≤ ·) := by
  intro segs
  induction segs with
  | nil => intro _ _; simp
  | cons t ts ih =>
    intro hpos hs
    obtain ⟨tl, tv⟩ := t
    unfold NonDecr at hs
    simp only [expandSegs, List.pairwise_append] at hs
    obtain ⟨_, hrest, hcross⟩ := hs
    simp only [List.map_cons, List.pairwise_cons]
    refine ⟨?_, ih (fun s h => hpos s (List.mem_cons_of_mem _ h)) hrest⟩
    intro w hw
    obtain ⟨u, hu, rfl⟩ := List.mem_map.mp hw
    have h1 : tv ∈ List.replicate tl tv :=
      List.mem_replicate.mpr ⟨by have := hpos (tl, tv) (by simp); simp only at this; omega, rfl⟩
    have h2 := mem_expandSegs_of_mem ts u hu (hpos u (List.mem_cons_of_mem _ hu))
    exact hcross tv h1 u.2 h2

/-- **indexFromRle_of_segs**: for ANY segmentation (maximal or not, every segment non-empty) of a
non-decreasing column with values `< n`, the offsets built from its runs are the run-length index. -/
theorem indexFromRle_of_segs (n : Nat) (segs : List (Nat × Nat)) (hpos : ∀ s ∈ segs, 1 ≤ s.1)
    (hs : NonDecr (expandSegs segs)) (hn : ∀ x ∈ expandSegs segs, x < n) :
    indexFromRle n (expandSegs segs).length (segsToRuns 0 segs) = countIndex n (expandSegs segs) := by
  unfold indexFromRle countIndex
  have := fillIdx_segs n segs 0 0 (segs_values_sorted segs hpos hs)
    (fun s h => hn s.2 (mem_expandSegs_of_mem segs s h (hpos s h))) (fun s _ => by omega)
  simp only [Nat.zero_add, Nat.sub_zero] at this
  rw [this, List.range_eq_range']

/-- in terms of `(start, value)` runs as `rlencode` returns them, under the contract `runsSpell` -/
theorem indexFromRle_of_runs (n : Nat) (xs : List Nat) (runs : List (Nat × Nat))
    (hs : NonDecr xs) (hn : ∀ x ∈ xs, x < n) (hr : runsSpell xs runs = true) :
    indexFromRle n xs.length runs = countIndex n xs := by
  unfold runsSpell at hr
  simp only [Bool.and_eq_true, decide_eq_true_eq, List.all_eq_true] at hr
  obtain ⟨⟨hpos, hexp⟩, hruns⟩ := hr
  have := indexFromRle_of_segs n (runsToSegs xs.length runs) hpos (by rw [hexp]; exact hs)
    (by rw [hexp]; exact hn)
  rw [hexp, hruns] at this
  exact this

/-- the maximal encoding is one such run list (instance on a concrete array, incl. a split run) -/
example : runsSpell [0, 0, 1, 1, 1, 3] [(0, 0), (2, 1), (5, 3)] = true ∧
    runsSpell [0, 0, 1, 1, 1, 3] [(0, 0), (2, 1), (3, 1), (5, 3)] = true ∧
    runsSpell [0, 0, 1, 1, 1, 3] [(0, 0), (3, 1), (5, 3)] = false := by decide

end Cooler.C02
