import CoolerModel.Model.FileModel
import CoolerModel.Props.C19
/-!
# Property C15 — file-level operations preserve content and touch nothing else

Model: `CoolerModel/Model/FileModel.lean` (flat map path ↦ entry per HDF5 file, explicit soft /
external link entries, `resolveN` with a link-nesting budget; `copyOp` mirrors `fileops._copy`
branch by branch, `createCooler` the mode / target-group handling of `create`).

All statements are over ARBITRARY file-system states subject to the invariant `WF` (every proper
prefix of a stored path is a group; the root exists), which `step_wf` / `run_wf` prove is kept by
every operation whatever its outcome — so they hold after any history `run v [] ops`.
`Resolves`/`Reads` quantify the link budget existentially ("for some finite budget"), which makes
them compositional; `readCollection`/`isCooler` use the fixed budget `LINKFUEL`.

Main theorems (namespace `Cooler.C15`)
* `copy_reads_equal` — successful cp / ln / ln -s (same file or two files, destination ≠ root of
  another file): `Reads fs src c → Reads fs' dst c`.  `copy_root_reads_equal` — the root-destination
  special case (children copied one by one, attributes updated).  `mv_reads_equal_plain` — `mv`
  inside a file between link-free paths.  Hypothesis everywhere: no *existing* destination file was
  truncated by `overwrite` (`copyOp` with overwrite on an existing file is `copyOp` on the truncated
  file system; a source reached through that very file is of course gone).
* `copy_frame` — any outcome: only the destination file can change; without truncation every object
  that existed still exists unchanged (`Sub fs fs'`), hence every collection reads as before under
  every name.  `copy_frame_new` — what is new lies under the destination's canonical location or is
  an empty intermediate group.  `mv_frame` — the same minus the source link's region.
* `copy_overwrite_eq` — `overwrite` onto another existing file = the same operation on the file system
  in which that file has been emptied (the one way `_copy` loses anything).
* `mv_source_gone_partial` (inside one file, any links), `mv_source_gone_spec` (the specification,
  any files); `mv_source_gone_Statement Variant.current` is FALSE: `mv_source_gone_current_false`,
  `d4_counterexample`, and in general `mv_cross_eq_cp` / `mv_cross_file_keeps_source` (finding D4).
* `list_exact` — `p ∈ listCoolers fs f ↔ isCooler fs f p` for well-formed link-free files;
  `list_exact_history` — hence after ANY history of create / cp / mv / ln (hard) from the empty state;
  `d5_counterexample` — with an external link the code lists the target's internal name (finding D5).
* `isCooler_total` — `false`, never an error, for unknown files, unresolvable paths, datasets.
* `create_append_frame`, `create_root_append_frame` (unrelated attributes and all other objects
  survive), `create_w_replaces`, `create_w_eq`, `recreate_replaces`.

Further:
* `mv_reads_equal` — `mv` inside one file through ANY links under the exact side condition that the
  destination does not pass through the removed source link (`resolveAvN`);
  `mv_through_source_counterexample` shows the conclusion fails outside it (HDF5 behaves alike).
* `list_exact_soft` / `listing_exact_soft` — `list_exact` with soft links (no external links, links
  nested less than `LINKFUEL` deep, traversal not cyclic — the domain on which the correspondence
  gives verdicts): collections reached through a soft link are listed under the link's path.
* `uri_slash`, `uri_slash_string` — corollaries of `Cooler.C19.uri_slash`; `parseCoolerUri` here IS
  `Cooler.Strings.parseCoolerUri` followed by the component split.
* `copy_into_itself_refused`, `copyOp_not_into_itself` — fix D26.
`LinkFree` is kept by every operation except `ln -s` (`step_lf`, `run_lf`), whence
`list_exact_history`.  Not proved: `list_exact` with EXTERNAL links under the specification variant
(the code as it is violates it: D5); preservation of `StableLinks` (a decidable hypothesis, `stableB`).
-/
namespace Cooler.C15
open Cooler.FileModel

/-! ### `under` -/

theorem under_iff (P k : Path) : under P k = true ↔ ∃ r, k = P ++ r := by
  induction P generalizing k with
  | nil => simp [under]
  | cons a P ih =>
    cases k with
    | nil => simp [under]
    | cons b k =>
      simp only [under, Bool.and_eq_true, decide_eq_true_eq, ih, List.cons_append, List.cons.injEq]
      constructor
      · rintro ⟨rfl, r, rfl⟩; exact ⟨r, rfl, rfl⟩
      · rintro ⟨r, rfl, rfl⟩; exact ⟨rfl, r, rfl⟩

theorem under_append (P r : Path) : under P (P ++ r) = true := (under_iff _ _).2 ⟨r, rfl⟩

theorem under_refl (P : Path) : under P P = true := by simpa using under_append P []

theorem under_trans {P Q k : Path} (h1 : under P Q = true) (h2 : under Q k = true) : under P k = true := by
  obtain ⟨r, rfl⟩ := (under_iff _ _).1 h1
  obtain ⟨s, rfl⟩ := (under_iff _ _).1 h2
  exact (under_iff _ _).2 ⟨r ++ s, by simp⟩

theorem under_drop {P k : Path} (h : under P k = true) : P ++ k.drop P.length = k := by
  obtain ⟨r, rfl⟩ := (under_iff _ _).1 h
  simp

/-! ### association lists -/

theorem lookupK_append (a b : Entries) (k : Path) :
    lookupK (a ++ b) k = (lookupK a k).orElse (fun _ => lookupK b k) := by
  induction a with
  | nil => simp [lookupK]
  | cons p a ih =>
    obtain ⟨k', e⟩ := p
    simp only [List.cons_append, lookupK]
    split <;> simp [ih]

theorem lookupK_filter (q : Path → Bool) (es : Entries) (k : Path) :
    lookupK (es.filter (fun p => q p.1)) k = if q k then lookupK es k else none := by
  induction es with
  | nil => simp [lookupK]
  | cons p es ih =>
    obtain ⟨k', e⟩ := p
    simp only [List.filter_cons]
    by_cases hq : q k' = true
    · simp only [hq, if_true, lookupK]
      by_cases hk : k' = k
      · subst hk; simp [hq]
      · simp [hk, ih]
    · simp only [hq, lookupK]
      by_cases hk : k' = k
      · subst hk; simp [hq, ih]
      · simp [hk, ih]

theorem lookupK_removeUnder (P : Path) (es : Entries) (k : Path) :
    lookupK (removeUnder P es) k = if under P k then none else lookupK es k := by
  unfold removeUnder
  rw [lookupK_filter (fun k => !under P k)]
  cases under P k <;> simp

theorem lookupK_map_prefix (D : Path) (new : Entries) (k : Path) :
    lookupK (new.map (fun p => (D ++ p.1, p.2))) k =
      if under D k then lookupK new (k.drop D.length) else none := by
  induction new with
  | nil => simp [lookupK]
  | cons p new ih =>
    obtain ⟨r, e⟩ := p
    simp only [List.map_cons, lookupK, ih]
    by_cases hu : under D k = true
    · obtain ⟨s, rfl⟩ := (under_iff _ _).1 hu
      simp [hu]
    · have : ¬ D ++ r = k := fun h => hu (h ▸ under_append D r)
      simp [hu, this]

theorem lookupK_putRegion (es : Entries) (D : Path) (new : Entries) (k : Path) :
    lookupK (putRegion es D new) k =
      if under D k then lookupK new (k.drop D.length) else lookupK es k := by
  unfold putRegion
  rw [lookupK_append, lookupK_map_prefix, lookupK_removeUnder]
  by_cases hu : under D k = true
  · simp [hu]
  · simp [hu]

theorem lookupK_putRegion_under (es : Entries) (D : Path) (new : Entries) (r : Path) :
    lookupK (putRegion es D new) (D ++ r) = lookupK new r := by
  rw [lookupK_putRegion]; simp [under_append]

theorem lookupK_putRegion_off (es : Entries) (D : Path) (new : Entries) (k : Path)
    (h : under D k = false) : lookupK (putRegion es D new) k = lookupK es k := by
  rw [lookupK_putRegion]; simp [h]

theorem lookupK_getRegion (es : Entries) (S r : Path) :
    lookupK (getRegion es S) r = lookupK es (S ++ r) := by
  unfold getRegion
  induction es with
  | nil => simp [lookupK]
  | cons p es ih =>
    obtain ⟨k, e⟩ := p
    simp only [List.filter_cons]
    by_cases hu : under S k = true
    · obtain ⟨s, rfl⟩ := (under_iff _ _).1 hu
      simp only [hu, if_true, List.map_cons, lookupK, ih, List.drop_left]
      by_cases hs : s = r
      · subst hs; simp
      · have : ¬ S ++ s = S ++ r := fun h => hs (List.append_cancel_left h)
        simp [hs, this]
    · have : ¬ k = S ++ r := fun h => hu (h ▸ under_append S r)
      simp [hu, lookupK, this, ih]

theorem lookupK_setEntry (es : Entries) (k : Path) (e : Entry) (k' : Path) :
    lookupK (setEntry es k e) k' = if k = k' then some e else lookupK es k' := by
  unfold setEntry
  simp only [lookupK]
  by_cases h : k = k'
  · simp [h]
  · simp only [h, if_false]
    rw [lookupK_filter (fun q => decide (q ≠ k))]
    have : k' ≠ k := fun h' => h h'.symm
    simp [this]

theorem lookupK_shiftOids (d : Nat) (es : Entries) (k : Path) :
    lookupK (shiftOids d es) k = (lookupK es k).map (Entry.shift d) := by
  unfold shiftOids
  induction es with
  | nil => simp [lookupK]
  | cons p es ih =>
    obtain ⟨k', e⟩ := p
    simp only [List.map_cons, lookupK]
    split <;> simp [ih]

/-! ### files -/

theorem getFile_filter (q : String → Bool) (fs : FS) (g : String) :
    getFile (fs.filter (fun p => q p.1)) g = if q g then getFile fs g else none := by
  induction fs with
  | nil => simp [getFile]
  | cons p fs ih =>
    obtain ⟨g', h'⟩ := p
    simp only [List.filter_cons]
    by_cases hq : q g' = true
    · simp only [hq, if_true, getFile]
      by_cases hk : g' = g
      · subst hk; simp [hq]
      · simp [hk, ih]
    · simp only [hq, getFile]
      by_cases hk : g' = g
      · subst hk; simp [hq, ih]
      · simp [hk, ih]

theorem getFile_setFile (fs : FS) (f : String) (h : H5File) (g : String) :
    getFile (setFile fs f h) g = if f = g then some h else getFile fs g := by
  unfold setFile
  simp only [getFile]
  by_cases hg : f = g
  · simp [hg]
  · simp only [hg, if_false]
    rw [getFile_filter (fun x => decide (x ≠ f))]
    have : g ≠ f := fun e => hg e.symm
    simp [this]

theorem lookupE_setFile (fs : FS) (f : String) (h : H5File) (g : String) (k : Path) :
    lookupE (setFile fs f h) g k = if f = g then lookupK h.entries k else lookupE fs g k := by
  unfold lookupE
  rw [getFile_setFile]
  by_cases hg : f = g <;> simp [hg]


/-! ### link resolution: composition, monotonicity in the link budget and in the file system -/

/-- the link follower `resolveN` uses at budget `n` -/
def followN (fs : FS) : Nat → String → Path → Option Loc
  | 0 => fun _ _ => none
  | n + 1 => resolveN fs n

theorem resolveN_eq (fs : FS) (n : Nat) (f : String) (p : Path) :
    resolveN fs n f p = p.foldl (stepWith fs (followN fs n)) (start fs f) := by
  cases n <;> rfl

theorem resolveN_nil (fs : FS) (n : Nat) (f : String) : resolveN fs n f [] = start fs f := by
  rw [resolveN_eq]; rfl

theorem resolveN_snoc (fs : FS) (n : Nat) (f : String) (p : Path) (x : String) :
    resolveN fs n f (p ++ [x]) = stepWith fs (followN fs n) (resolveN fs n f p) x := by
  rw [resolveN_eq, resolveN_eq, List.foldl_append]; rfl

theorem resolveN_append (fs : FS) (n : Nat) (f : String) (p q : Path) :
    resolveN fs n f (p ++ q) = q.foldl (stepWith fs (followN fs n)) (resolveN fs n f p) := by
  rw [resolveN_eq, resolveN_eq, List.foldl_append]

theorem foldl_stepWith_none (fs : FS) (F : String → Path → Option Loc) (p : Path) :
    p.foldl (stepWith fs F) none = none := by
  induction p with
  | nil => rfl
  | cons x p ih => simpa [List.foldl_cons, stepWith] using ih

/-- `fs'` contains everything `fs` contains -/
def Sub (fs fs' : FS) : Prop :=
  (∀ g, (getFile fs g).isSome → (getFile fs' g).isSome) ∧
  ∀ g k e, lookupE fs g k = some e → lookupE fs' g k = some e

theorem Sub.refl (fs : FS) : Sub fs fs := ⟨fun _ h => h, fun _ _ _ h => h⟩

theorem Sub.trans {a b c : FS} (h1 : Sub a b) (h2 : Sub b c) : Sub a c :=
  ⟨fun g h => h2.1 g (h1.1 g h), fun g k e h => h2.2 g k e (h1.2 g k e h)⟩

theorem stepWith_mono {fs fs' : FS} {F G : String → Path → Option Loc}
    (hlk : ∀ g k e, lookupE fs g k = some e → lookupE fs' g k = some e)
    (hFG : ∀ g t l, F g t = some l → G g t = some l)
    (acc : Option Loc) (x : String) (l : Loc)
    (h : stepWith fs F acc x = some l) : stepWith fs' G acc x = some l := by
  unfold stepWith at h ⊢
  cases acc with
  | none => simp at h
  | some a =>
    obtain ⟨f, P⟩ := a
    simp only at h ⊢
    cases hl : lookupE fs f (P ++ [x]) with
    | none => simp [hl] at h
    | some e =>
      rw [hlk _ _ _ hl]
      rw [hl] at h
      cases e with
      | group o a => exact h
      | dataset c => exact h
      | soft t => exact hFG _ _ _ h
      | ext g t => exact hFG _ _ _ h

theorem foldl_stepWith_mono {fs fs' : FS} {F G : String → Path → Option Loc}
    (hlk : ∀ g k e, lookupE fs g k = some e → lookupE fs' g k = some e)
    (hFG : ∀ g t l, F g t = some l → G g t = some l) :
    ∀ (p : Path) (acc : Option Loc) (l : Loc),
      p.foldl (stepWith fs F) acc = some l → p.foldl (stepWith fs' G) acc = some l := by
  intro p
  induction p with
  | nil => intro acc l h; exact h
  | cons x p ih =>
    intro acc l h
    simp only [List.foldl_cons] at h ⊢
    cases hs : stepWith fs F acc x with
    | none => rw [hs, foldl_stepWith_none] at h; simp at h
    | some l' =>
      rw [stepWith_mono hlk hFG acc x l' hs]
      rw [hs] at h
      exact ih _ _ h

theorem start_sub {fs fs' : FS} (hs : Sub fs fs') (f : String) (l : Loc)
    (h : start fs f = some l) : start fs' f = some l := by
  unfold start at h ⊢
  cases hg : getFile fs f with
  | none => simp [hg] at h
  | some hh =>
    have := hs.1 f (by simp [hg])
    cases hg' : getFile fs' f with
    | none => simp [hg'] at this
    | some _ => simpa [hg] using h

theorem resolveN_mono {fs fs' : FS} (hs : Sub fs fs') :
    ∀ (n m : Nat), n ≤ m → ∀ (f : String) (p : Path) (l : Loc),
      resolveN fs n f p = some l → resolveN fs' m f p = some l := by
  intro n
  induction n with
  | zero =>
    intro m _ f p l h
    rw [resolveN_eq] at h ⊢
    cases hst : start fs f with
    | none => rw [hst, foldl_stepWith_none] at h; simp at h
    | some l0 =>
      rw [start_sub hs f l0 hst]
      rw [hst] at h
      exact foldl_stepWith_mono hs.2 (by intro g t l' hh; simp [followN] at hh) p _ l h
  | succ n ih =>
    intro m hm f p l h
    obtain ⟨m', rfl⟩ : ∃ m', m = m' + 1 := ⟨m - 1, by omega⟩
    rw [resolveN_eq] at h ⊢
    cases hst : start fs f with
    | none => rw [hst, foldl_stepWith_none] at h; simp at h
    | some l0 =>
      rw [start_sub hs f l0 hst]
      rw [hst] at h
      exact foldl_stepWith_mono hs.2 (fun g t l' hh => ih m' (by omega) g t l' hh) p _ l h

/-- `p` names the object at canonical location `l`, for some finite link budget -/
def Resolves (fs : FS) (f : String) (p : Path) (l : Loc) : Prop := ∃ n, resolveN fs n f p = some l

theorem Resolves.mono {fs fs' : FS} (hs : Sub fs fs') {f : String} {p : Path} {l : Loc}
    (h : Resolves fs f p l) : Resolves fs' f p l := by
  obtain ⟨n, hn⟩ := h
  exact ⟨n, resolveN_mono hs n n (Nat.le_refl _) f p l hn⟩

theorem Resolves.nil {fs : FS} {f : String} (h : (getFile fs f).isSome) : Resolves fs f [] (f, []) := by
  refine ⟨0, ?_⟩
  rw [resolveN_nil]; unfold start
  cases hg : getFile fs f with
  | none => simp [hg] at h
  | some _ => rfl

theorem Resolves.snoc_obj {fs : FS} {f : String} {p : Path} {g : String} {P : Path} {x : String}
    (h : Resolves fs f p (g, P)) {e : Entry} (he : lookupE fs g (P ++ [x]) = some e)
    (hobj : (∃ o a, e = .group o a) ∨ ∃ c, e = .dataset c) : Resolves fs f (p ++ [x]) (g, P ++ [x]) := by
  obtain ⟨n, hn⟩ := h
  refine ⟨n, ?_⟩
  rw [resolveN_snoc, hn]
  unfold stepWith
  simp only [he]
  rcases hobj with ⟨o, a, rfl⟩ | ⟨c, rfl⟩ <;> rfl

theorem Resolves.snoc_soft {fs : FS} {f : String} {p : Path} {g : String} {P : Path} {x : String}
    (h : Resolves fs f p (g, P)) {t : Path} (he : lookupE fs g (P ++ [x]) = some (.soft t))
    {l : Loc} (ht : Resolves fs g t l) : Resolves fs f (p ++ [x]) l := by
  obtain ⟨n, hn⟩ := h
  obtain ⟨m, hm⟩ := ht
  refine ⟨max n m + 1, ?_⟩
  rw [resolveN_snoc, resolveN_mono (Sub.refl fs) n (max n m + 1) (by omega) f p _ hn]
  unfold stepWith
  simp only [he, followN]
  exact resolveN_mono (Sub.refl fs) m (max n m) (by omega) g t l hm

theorem Resolves.snoc_ext {fs : FS} {f : String} {p : Path} {g : String} {P : Path} {x : String}
    (h : Resolves fs f p (g, P)) {g' : String} {t : Path} (he : lookupE fs g (P ++ [x]) = some (.ext g' t))
    {l : Loc} (ht : Resolves fs g' t l) : Resolves fs f (p ++ [x]) l := by
  obtain ⟨n, hn⟩ := h
  obtain ⟨m, hm⟩ := ht
  refine ⟨max n m + 1, ?_⟩
  rw [resolveN_snoc, resolveN_mono (Sub.refl fs) n (max n m + 1) (by omega) f p _ hn]
  unfold stepWith
  simp only [he, followN]
  exact resolveN_mono (Sub.refl fs) m (max n m) (by omega) g' t l hm

/-- the content `Cooler(uri)` reads, for some finite link budget -/
def Reads (fs : FS) (f : String) (p : Path) (c : Nat) : Prop := ∃ n, readN fs n f p = some c

/-- what `readN` needs of the resolved location -/
def ReadsAt (fs : FS) (l : Loc) (c : Nat) : Prop :=
  coolerEntry (lookupE fs l.1 l.2) = true ∧
  (∃ o a, lookupE fs l.1 (l.2 ++ ["pixels"]) = some (.group o a)) ∧
  lookupE fs l.1 (l.2 ++ ["pixels", "count"]) = some (.dataset c)

theorem reads_iff (fs : FS) (f : String) (p : Path) (c : Nat) :
    Reads fs f p c ↔ ∃ l, Resolves fs f p l ∧ ReadsAt fs l c := by
  constructor
  · rintro ⟨n, hn⟩
    unfold readN at hn
    cases hr : resolveN fs n f p with
    | none => simp [hr] at hn
    | some l =>
      obtain ⟨g, P⟩ := l
      simp only [hr] at hn
      refine ⟨(g, P), ⟨n, hr⟩, ?_⟩
      by_cases hc : coolerEntry (lookupE fs g P) = true
      · simp only [hc, if_true] at hn
        refine ⟨hc, ?_⟩
        cases h1 : lookupE fs g (P ++ ["pixels"]) with
        | none => simp [h1] at hn
        | some e1 =>
          cases h2 : lookupE fs g (P ++ ["pixels", "count"]) with
          | none => cases e1 <;> simp [h1, h2] at hn
          | some e2 =>
            cases e1 <;> cases e2 <;> simp [h1, h2] at hn
            subst hn
            exact ⟨⟨_, _, rfl⟩, rfl⟩
      · simp [hc] at hn
  · rintro ⟨⟨g, P⟩, ⟨n, hn⟩, hc, ⟨o, a, h1⟩, h2⟩
    refine ⟨n, ?_⟩
    unfold readN
    simp only [hn]
    simp only at hc h1 h2
    simp [hc, h1, h2]

/-! ### `mkdirP`: intermediate groups -/

theorem lookupE_setFile_same (fs : FS) (f : String) (h : H5File) (k : Path) :
    lookupE (setFile fs f h) f k = lookupK h.entries k := by
  rw [lookupE_setFile]; simp

theorem lookupE_setFile_other (fs : FS) (f : String) (h : H5File) (g : String) (k : Path) (hg : g ≠ f) :
    lookupE (setFile fs f h) g k = lookupE fs g k := by
  rw [lookupE_setFile]
  have : ¬ f = g := fun e => hg e.symm
  simp [this]

/-- entries of `h` are kept by `h'` -/
def SubE (h h' : H5File) : Prop := ∀ k e, lookupK h.entries k = some e → lookupK h'.entries k = some e

theorem sub_setFile (fs : FS) (f : String) {h h' : H5File} (hs : SubE h h') :
    Sub (setFile fs f h) (setFile fs f h') := by
  constructor
  · intro g hg
    rw [getFile_setFile] at hg ⊢
    by_cases e : f = g <;> simp [e] at hg ⊢
    exact hg
  · intro g k e hk
    rw [lookupE_setFile] at hk ⊢
    by_cases e' : f = g <;> simp [e'] at hk ⊢
    · exact hs _ _ hk
    · exact hk

def IsGroup (e : Option Entry) : Prop := ∃ o a, e = some (.group o a)

theorem mkdirP_spec (fs : FS) (f : String) :
    ∀ (q : List String) (h : H5File) (cur q0 : Path) (h1 : H5File) (P : Path),
      Sub fs (setFile fs f h) →
      Resolves (setFile fs f h) f q0 (f, cur) →
      IsGroup (lookupK h.entries cur) →
      mkdirP fs f h cur q = .ok (h1, P) →
      SubE h h1 ∧
      (∀ k e, lookupK h1.entries k = some e → lookupK h.entries k = some e ∨
        (lookupK h.entries k = none ∧ ∃ o, e = .group o [])) ∧
      Resolves (setFile fs f h1) f (q0 ++ q) (f, P) ∧
      IsGroup (lookupK h1.entries P) := by
  intro q
  induction q with
  | nil =>
    intro h cur q0 h1 P _ hcur hgrp hm
    simp only [mkdirP, Except.ok.injEq, Prod.mk.injEq] at hm
    obtain ⟨rfl, rfl⟩ := hm
    exact ⟨fun _ _ hk => hk, fun _ _ hk => Or.inl hk, by simpa using hcur, hgrp⟩
  | cons x rest ih =>
    intro h cur q0 h1 P hsub hcur hgrp hm
    rw [mkdirP] at hm
    cases hl : lookupK h.entries (cur ++ [x]) with
    | none =>
      simp only [hl] at hm
      by_cases hsh : sharedAt h.entries cur = true
      · simp [hsh] at hm
      · simp only [hsh] at hm
        -- the new file
        have hsubE : SubE h ⟨setEntry h.entries (cur ++ [x]) (.group h.next []), h.next + 1⟩ := by
          intro k e hk
          simp only [lookupK_setEntry]
          by_cases hk' : cur ++ [x] = k
          · subst hk'; rw [hl] at hk; simp at hk
          · simp [hk', hk]
        have hS := sub_setFile fs f hsubE
        have hcur' : Resolves (setFile fs f ⟨setEntry h.entries (cur ++ [x]) (.group h.next []), h.next + 1⟩) f
            (q0 ++ [x]) (f, cur ++ [x]) := by
          refine Resolves.snoc_obj (hcur.mono hS) (e := .group h.next []) ?_ (Or.inl ⟨_, _, rfl⟩)
          rw [lookupE_setFile_same]; simp [lookupK_setEntry]
        have hgrp' : IsGroup (lookupK (setEntry h.entries (cur ++ [x]) (.group h.next [])) (cur ++ [x])) :=
          ⟨h.next, [], by simp [lookupK_setEntry]⟩
        obtain ⟨a1, a2, a3, a4⟩ := ih _ _ (q0 ++ [x]) h1 P (hsub.trans hS) hcur' hgrp' (by simpa using hm)
        refine ⟨fun k e hk => a1 k e (hsubE k e hk), ?_, by simpa using a3, a4⟩
        intro k e hk
        rcases a2 k e hk with h' | ⟨h', o, rfl⟩
        · simp only [lookupK_setEntry] at h'
          by_cases hk' : cur ++ [x] = k
          · subst hk'
            simp at h'
            exact Or.inr ⟨hl, _, h'.symm⟩
          · simp [hk'] at h'
            exact Or.inl h'
        · simp only [lookupK_setEntry] at h'
          by_cases hk' : cur ++ [x] = k
          · simp [hk'] at h'
          · simp [hk'] at h'
            exact Or.inr ⟨h', _, rfl⟩
    | some e =>
      simp only [hl] at hm
      cases e with
      | group o a =>
        simp only at hm
        have hcur' : Resolves (setFile fs f h) f (q0 ++ [x]) (f, cur ++ [x]) := by
          refine Resolves.snoc_obj hcur (e := .group o a) ?_ (Or.inl ⟨_, _, rfl⟩)
          rw [lookupE_setFile_same]; exact hl
        obtain ⟨a1, a2, a3, a4⟩ := ih h (cur ++ [x]) (q0 ++ [x]) h1 P hsub hcur' ⟨_, _, hl⟩ hm
        exact ⟨a1, a2, by simpa using a3, a4⟩
      | dataset c => simp at hm
      | ext g t => simp at hm
      | soft t =>
        simp only at hm
        cases hr : resolve fs f t with
        | none => simp [hr] at hm
        | some l =>
          obtain ⟨g, Q⟩ := l
          simp only [hr] at hm
          by_cases hg : g = f
          · subst hg
            simp only [if_true] at hm
            cases hq : lookupK h.entries Q with
            | none => simp [hq] at hm
            | some eq =>
              cases eq with
              | group o a =>
                simp only [hq] at hm
                have hcur' : Resolves (setFile fs g h) g (q0 ++ [x]) (g, Q) := by
                  refine Resolves.snoc_soft hcur (t := t) ?_ ?_
                  · rw [lookupE_setFile_same]; exact hl
                  · exact Resolves.mono hsub ⟨LINKFUEL, hr⟩
                obtain ⟨a1, a2, a3, a4⟩ := ih h Q (q0 ++ [x]) h1 P hsub hcur' ⟨_, _, hq⟩ hm
                exact ⟨a1, a2, by simpa using a3, a4⟩
              | dataset c => simp [hq] at hm
              | soft t' => simp [hq] at hm
              | ext g' t' => simp [hq] at hm
          · simp [hg] at hm

/-! ### well-formedness: every proper prefix of a stored key is a group -/

def WFFile (h : H5File) : Prop :=
  IsGroup (lookupK h.entries []) ∧
  ∀ k e, lookupK h.entries k = some e → ∀ q, under q k = true → q ≠ k → IsGroup (lookupK h.entries q)

def WF (fs : FS) : Prop := ∀ f h, getFile fs f = some h → WFFile h

/-- relative version for a region (keys relative to the region's root) -/
def RelWF (new : Entries) : Prop :=
  ∀ r e, lookupK new r = some e → ∀ q, under q r = true → q ≠ r → IsGroup (lookupK new q)

theorem wf_absent_under {h : H5File} (hw : WFFile h) {D k : Path} (hD : lookupK h.entries D = none)
    (hu : under D k = true) : lookupK h.entries k = none := by
  cases hk : lookupK h.entries k with
  | none => rfl
  | some e =>
    by_cases hDk : D = k
    · subst hDk; rw [hD] at hk; simp at hk
    · obtain ⟨o, a, hh⟩ := hw.2 k e hk D hu hDk
      rw [hD] at hh; simp at hh

theorem wf_emptyFile : WFFile emptyFile := by
  refine ⟨⟨0, [], by simp [emptyFile, lookupK]⟩, ?_⟩
  intro k e hk q hq hne
  simp only [emptyFile, lookupK] at hk
  by_cases h0 : ([] : Path) = k
  · subst h0
    cases q with
    | nil => exact absurd rfl hne
    | cons a q => simp [under] at hq
  · simp [h0] at hk

theorem prefix_of_snoc {q cur : Path} {x : String} (hq : under q (cur ++ [x]) = true) (hne : q ≠ cur ++ [x]) :
    under q cur = true := by
  obtain ⟨r, hr⟩ := (under_iff _ _).1 hq
  rcases List.eq_nil_or_concat r with rfl | ⟨r', y, rfl⟩
  · simp at hr; exact absurd hr.symm hne
  · simp only [List.concat_eq_append] at hr
    rw [← List.append_assoc] at hr
    have := List.append_inj' hr (by simp)
    exact (under_iff _ _).2 ⟨r', this.1⟩

theorem wf_setEntry_group {h : H5File} (hw : WFFile h) {k : Path} {o : Nat} {a : List (String × String)} {nx : Nat}
    (hpre : ∀ q, under q k = true → q ≠ k → IsGroup (lookupK h.entries q)) :
    WFFile ⟨setEntry h.entries k (.group o a), nx⟩ := by
  constructor
  · simp only [lookupK_setEntry]
    by_cases hk : k = []
    · exact ⟨o, a, by simp [hk]⟩
    · simpa [hk] using hw.1
  · intro k' e hk' q hq hne
    simp only [lookupK_setEntry] at hk' ⊢
    by_cases hqk : k = q
    · exact ⟨o, a, by simp [hqk]⟩
    · simp only [hqk, if_false]
      by_cases hkk : k = k'
      · subst hkk; exact hpre q hq hne
      · simp only [hkk, if_false] at hk'
        exact hw.2 k' e hk' q hq hne

theorem relWF_getRegion {h : H5File} (hw : WFFile h) (S : Path) : RelWF (getRegion h.entries S) := by
  intro r e hr q hq hne
  rw [lookupK_getRegion] at hr ⊢
  obtain ⟨s, rfl⟩ := (under_iff _ _).1 hq
  refine hw.2 _ e hr (S ++ q) ?_ ?_
  · exact (under_iff _ _).2 ⟨s, by simp⟩
  · intro h'; exact hne (List.append_cancel_left h')

theorem relWF_shift {new : Entries} (d : Nat) (hn : RelWF new) : RelWF (shiftOids d new) := by
  intro r e hr q hq hne
  rw [lookupK_shiftOids] at hr ⊢
  cases hr' : lookupK new r with
  | none => simp [hr'] at hr
  | some e' =>
    obtain ⟨o, a, hh⟩ := hn r e' hr' q hq hne
    exact ⟨o + d, a, by simp [hh, Entry.shift]⟩

theorem relWF_single (e : Entry) : RelWF [([], e)] := by
  intro r e' hr q hq hne
  simp only [lookupK] at hr
  by_cases h0 : ([] : Path) = r
  · subst h0
    cases q with
    | nil => exact absurd rfl hne
    | cons a q => simp [under] at hq
  · simp [h0] at hr

theorem wf_putRegion {h : H5File} (hw : WFFile h) {P : Path} {x : String} {new : Entries} {nx : Nat}
    (hP : IsGroup (lookupK h.entries P)) (hn : RelWF new) :
    WFFile ⟨putRegion h.entries (P ++ [x]) new, nx⟩ := by
  have hroot : under (P ++ [x]) [] = false := by
    cases P <;> simp [under]
  constructor
  · simp only [lookupK_putRegion, hroot]; exact hw.1
  · intro k e hk q hq hne
    simp only [lookupK_putRegion] at hk ⊢
    by_cases hDq : under (P ++ [x]) q = true
    · -- q inside the new region: so is k
      have hDk : under (P ++ [x]) k = true := under_trans hDq hq
      simp only [hDk, if_true] at hk
      simp only [hDq, if_true]
      obtain ⟨rq, rfl⟩ := (under_iff _ _).1 hDq
      obtain ⟨s, rfl⟩ := (under_iff _ _).1 hq
      have e1 : ((P ++ [x]) ++ rq ++ s).drop (P ++ [x]).length = rq ++ s := by
        rw [List.append_assoc, List.drop_left]
      have e2 : ((P ++ [x]) ++ rq).drop (P ++ [x]).length = rq := List.drop_left
      rw [e1] at hk; rw [e2]
      exact hn _ e hk rq (under_append _ _) (fun h' => hne (by
        have : s = [] := by simpa using h'
        simp [this]))
    · simp only [hDq]
      by_cases hDk : under (P ++ [x]) k = true
      · -- k new, q a proper prefix of the region's root: q is a prefix of P
        obtain ⟨rk, rfl⟩ := (under_iff _ _).1 hDk
        obtain ⟨s, hs⟩ := (under_iff _ _).1 hq
        -- q and P ++ [x] are both prefixes of the same list; q is not under P ++ [x], so q is a proper prefix of it
        have hqP : under q (P ++ [x]) = true := by
          have h1 : q <+: (P ++ [x]) ++ rk := ⟨s, hs.symm⟩
          have h2 : (P ++ [x]) <+: (P ++ [x]) ++ rk := ⟨rk, rfl⟩
          rcases List.prefix_or_prefix_of_prefix h1 h2 with h3 | h3
          · obtain ⟨t, ht⟩ := h3; exact (under_iff _ _).2 ⟨t, ht.symm⟩
          · obtain ⟨t, ht⟩ := h3
            exact absurd ((under_iff _ _).2 ⟨t, ht.symm⟩) hDq
        have hqne : q ≠ P ++ [x] := fun h' => hDq (h' ▸ under_refl _)
        have hqP' : under q P = true := prefix_of_snoc hqP hqne
        by_cases hqe : q = P
        · subst hqe; simpa using hP
        · obtain ⟨o, a, hPe⟩ := hP
          simpa using hw.2 P _ hPe q hqP' hqe
      · simp only [hDk] at hk
        simpa using hw.2 k e hk q hq hne

theorem wf_removeUnder {h : H5File} (hw : WFFile h) {L : Path} (hL : L ≠ []) {nx : Nat} :
    WFFile ⟨removeUnder L h.entries, nx⟩ := by
  have hroot : under L [] = false := by
    cases L with
    | nil => exact absurd rfl hL
    | cons a L => simp [under]
  constructor
  · simp only [lookupK_removeUnder, hroot]; exact hw.1
  · intro k e hk q hq hne
    simp only [lookupK_removeUnder] at hk ⊢
    by_cases hLk : under L k = true
    · simp [hLk] at hk
    · simp only [hLk] at hk
      have hLq : ¬ under L q = true := fun h' => hLk (under_trans h' hq)
      simp only [hLq]
      simpa using hw.2 k e hk q hq hne

theorem wf_setFile {fs : FS} (hw : WF fs) {f : String} {h : H5File} (hh : WFFile h) : WF (setFile fs f h) := by
  intro g h' hg
  rw [getFile_setFile] at hg
  by_cases e : f = g
  · simp [e] at hg; subst hg; exact hh
  · simp [e] at hg; exact hw g h' hg

/-! ### `mkdirP` keeps files well-formed; `placeAt` -/

theorem mkdirP_wf (fs : FS) (f : String) :
    ∀ (q : List String) (h : H5File) (cur : Path) (h1 : H5File) (P : Path),
      WFFile h → IsGroup (lookupK h.entries cur) → mkdirP fs f h cur q = .ok (h1, P) → WFFile h1 := by
  intro q
  induction q with
  | nil =>
    intro h cur h1 P hw _ hm
    simp only [mkdirP, Except.ok.injEq, Prod.mk.injEq] at hm
    obtain ⟨rfl, rfl⟩ := hm
    exact hw
  | cons x rest ih =>
    intro h cur h1 P hw hgrp hm
    rw [mkdirP] at hm
    cases hl : lookupK h.entries (cur ++ [x]) with
    | none =>
      simp only [hl] at hm
      by_cases hsh : sharedAt h.entries cur = true
      · simp [hsh] at hm
      · simp only [hsh] at hm
        have hw' : WFFile ⟨setEntry h.entries (cur ++ [x]) (.group h.next []), h.next + 1⟩ := by
          apply wf_setEntry_group hw
          intro q hq hne
          have hqc := prefix_of_snoc hq hne
          by_cases hqe : q = cur
          · subst hqe; exact hgrp
          · obtain ⟨o, a, hc⟩ := hgrp
            exact hw.2 cur _ hc q hqc hqe
        have hg' : IsGroup (lookupK (setEntry h.entries (cur ++ [x]) (.group h.next [])) (cur ++ [x])) :=
          ⟨h.next, [], by simp [lookupK_setEntry]⟩
        exact ih _ _ h1 P hw' hg' (by simpa using hm)
    | some e =>
      simp only [hl] at hm
      cases e with
      | group o a => exact ih h _ h1 P hw ⟨_, _, hl⟩ hm
      | dataset c => simp at hm
      | ext g t => simp at hm
      | soft t =>
        simp only at hm
        cases hr : resolve fs f t with
        | none => simp [hr] at hm
        | some l =>
          obtain ⟨g, Q⟩ := l
          simp only [hr] at hm
          by_cases hg : g = f
          · simp only [hg, if_true] at hm
            cases hq : lookupK h.entries Q with
            | none => simp [hq] at hm
            | some eq =>
              cases eq with
              | group o a =>
                simp only [hq] at hm
                exact ih h Q h1 P hw ⟨_, _, hq⟩ hm
              | dataset c => simp [hq] at hm
              | soft t' => simp [hq] at hm
              | ext g' t' => simp [hq] at hm
          · simp [hg] at hm

theorem sub_setFile_self {fs : FS} {f : String} {h : H5File} (hg : getFile fs f = some h) :
    Sub fs (setFile fs f h) := by
  constructor
  · intro g hs
    rw [getFile_setFile]
    by_cases e : f = g <;> simp [e, hs]
  · intro g k e hk
    rw [lookupE_setFile]
    by_cases e' : f = g
    · subst e'; simp only [if_true]
      unfold lookupE at hk; rw [hg] at hk; exact hk
    · simp [e', hk]

theorem dropLast_append_getLast {dp : Path} {x : String} (h : dp.getLast? = some x) :
    dp = dp.dropLast ++ [x] := by
  rcases List.eq_nil_or_concat dp with rfl | ⟨l, y, rfl⟩
  · simp at h
  · simp only [List.concat_eq_append] at h ⊢
    simp only [List.getLast?_append, List.getLast?_singleton, Option.some_or] at h
    simp at h
    subst h
    simp

/-- what a successful `placeAt` did -/
theorem placeAt_ok {fs : FS} {f : String} {dp : Path} {new : H5File → Entries × Nat} {ex : ErrClass}
    {fs' : FS} (h : placeAt fs f dp new ex = (fs', .ok)) :
    ∃ h0 h1 P x, getFile fs f = some h0 ∧ dp = dp.dropLast ++ [x] ∧
      mkdirP fs f h0 [] dp.dropLast = .ok (h1, P) ∧ lookupK h1.entries (P ++ [x]) = none ∧
      fs' = setFile fs f ⟨putRegion h1.entries (P ++ [x]) (new h1).1, (new h1).2⟩ := by
  unfold placeAt at h
  cases hg : getFile fs f with
  | none => simp [hg] at h
  | some h0 =>
    simp only [hg] at h
    cases hx : dp.getLast? with
    | none => simp [hx] at h
    | some x =>
      simp only [hx] at h
      cases hm : mkdirP fs f h0 [] dp.dropLast with
      | error o =>
        simp only [hm, Prod.mk.injEq] at h
        -- the outcome of a failed `mkdirP` is never `ok`
        exfalso
        obtain ⟨_, h2⟩ := h
        subst h2
        -- mkdirP never returns `.error .ok`
        have : ∀ (q : List String) (h : H5File) (cur : Path), mkdirP fs f h cur q ≠ .error .ok := by
          intro q
          induction q with
          | nil => intro h cur; simp [mkdirP]
          | cons y rest ih =>
            intro h cur
            rw [mkdirP]
            cases hl : lookupK h.entries (cur ++ [y]) with
            | none =>
              simp only
              by_cases hsh : sharedAt h.entries cur = true
              · simp [hsh]
              · simp only [hsh]; exact ih _ _
            | some e =>
              cases e with
              | group o a => exact ih _ _
              | dataset c => simp
              | ext g t => simp
              | soft t =>
                simp only
                cases hr : resolve fs f t with
                | none => simp
                | some l =>
                  obtain ⟨g, Q⟩ := l
                  simp only
                  by_cases hgf : g = f
                  · simp only [hgf, if_true]
                    cases hq : lookupK h.entries Q with
                    | none => simp
                    | some eq => cases eq <;> simp <;> exact ih _ _
                  · simp [hgf]
        exact this _ _ _ hm
      | ok r =>
        obtain ⟨h1, P⟩ := r
        simp only [hm] at h
        unfold linkRegion at h
        cases hl : lookupK h1.entries (P ++ [x]) with
        | some e => simp [hl] at h
        | none =>
          simp only [hl] at h
          by_cases hsh : sharedAt h1.entries P = true
          · simp [hsh] at h
          · simp only [hsh] at h
            have h' := (Prod.mk.inj h).1
            exact ⟨h0, h1, P, x, rfl, dropLast_append_getLast hx, hm, hl, h'.symm⟩

/-- consequences of a successful `placeAt` on a well-formed file system -/
theorem placeAt_facts {fs : FS} (hw : WF fs) {f : String} {dp : Path} {new : H5File → Entries × Nat}
    {ex : ErrClass} {fs' : FS} (h : placeAt fs f dp new ex = (fs', .ok)) :
    ∃ h1 P x, dp = dp.dropLast ++ [x] ∧
      Sub fs fs' ∧
      Resolves fs' f dp.dropLast (f, P) ∧
      (∀ r, lookupE fs' f (P ++ [x] ++ r) = lookupK (new h1).1 r) ∧
      (∀ g k e, lookupE fs' g k = some e → lookupE fs g k = some e ∨
          (g = f ∧ (under (P ++ [x]) k = true ∨ ∃ o, e = .group o []))) ∧
      (RelWF (new h1).1 → WF fs') ∧
      destOf fs f dp = some (P ++ [x]) ∧
      lookupE fs f (P ++ [x]) = none := by
  obtain ⟨h0, h1, P, x, hg, hdp, hm, hl, rfl⟩ := placeAt_ok h
  have hw0 : WFFile h0 := hw f h0 hg
  have hsub0 := sub_setFile_self hg
  obtain ⟨a1, a2, a3, a4⟩ := mkdirP_spec fs f dp.dropLast h0 [] [] h1 P hsub0
    (Resolves.nil (by rw [getFile_setFile]; simp)) hw0.1 hm
  have hw1 : WFFile h1 := mkdirP_wf fs f _ h0 [] h1 P hw0 hw0.1 hm
  -- nothing lies under the fresh name
  have hfresh : ∀ k, under (P ++ [x]) k = true → lookupK h1.entries k = none :=
    fun k hk => wf_absent_under hw1 hl hk
  have hsubE : SubE h1 ⟨putRegion h1.entries (P ++ [x]) (new h1).1, (new h1).2⟩ := by
    intro k e hk
    simp only [lookupK_putRegion]
    by_cases hu : under (P ++ [x]) k = true
    · rw [hfresh k hu] at hk; simp at hk
    · simp [hu, hk]
  have hS1 : Sub fs (setFile fs f h1) := hsub0.trans (sub_setFile fs f a1)
  have hS2 := sub_setFile fs f hsubE
  refine ⟨h1, P, x, hdp, hS1.trans hS2, ?_, ?_, ?_, ?_, ?_, ?_⟩
  · simpa using a3.mono hS2
  · intro r
    rw [lookupE_setFile_same, lookupK_putRegion_under]
  · intro g k e hk
    rw [lookupE_setFile] at hk
    by_cases hgf : f = g
    · subst hgf
      simp only [if_true, lookupK_putRegion] at hk
      by_cases hu : under (P ++ [x]) k = true
      · exact Or.inr ⟨rfl, Or.inl hu⟩
      · simp only [hu] at hk
        rcases a2 k e (by simpa using hk) with h' | ⟨_, o, rfl⟩
        · left; unfold lookupE; rw [hg]; exact h'
        · exact Or.inr ⟨rfl, Or.inr ⟨o, rfl⟩⟩
    · simp only [hgf, if_false] at hk; exact Or.inl hk
  · intro hn
    exact wf_setFile hw (wf_putRegion hw1 a4 hn)
  · unfold destOf
    rw [hg]
    have : dp.getLast? = some x := by rw [hdp]; simp
    simp [this, hm]
  · unfold lookupE; rw [hg]
    cases hk : lookupK h0.entries (P ++ [x]) with
    | none => simpa using hk
    | some e => rw [a1 _ _ hk] at hl; simp at hl

/-! ### reading through a placed region -/

theorem Resolves.det {fs : FS} {f : String} {p : Path} {l l' : Loc}
    (h : Resolves fs f p l) (h' : Resolves fs f p l') : l = l' := by
  obtain ⟨n, hn⟩ := h
  obtain ⟨m, hm⟩ := h'
  have a := resolveN_mono (Sub.refl fs) n (max n m) (by omega) f p l hn
  have b := resolveN_mono (Sub.refl fs) m (max n m) (by omega) f p l' hm
  rw [a] at b
  exact Option.some.inj b

theorem coolerEntry_some {o : Option Entry} (h : coolerEntry o = true) : ∃ oid a, o = some (.group oid a) ∧ fmtOK a = true := by
  cases o with
  | none => simp [coolerEntry] at h
  | some e =>
    cases e with
    | group oid a => exact ⟨oid, a, rfl, by simpa [coolerEntry] using h⟩
    | dataset c => simp [coolerEntry] at h
    | soft t => simp [coolerEntry] at h
    | ext g t => simp [coolerEntry] at h

theorem ReadsAt.mono {fs fs' : FS} (hs : Sub fs fs') {l : Loc} {c : Nat} (h : ReadsAt fs l c) : ReadsAt fs' l c := by
  obtain ⟨h1, ⟨o, a, h2⟩, h3⟩ := h
  obtain ⟨oid, a', he, hf⟩ := coolerEntry_some h1
  refine ⟨?_, ⟨o, a, hs.2 _ _ _ h2⟩, hs.2 _ _ _ h3⟩
  rw [hs.2 _ _ _ he]; simpa [coolerEntry] using hf

theorem Reads.mono {fs fs' : FS} (hs : Sub fs fs') {f : String} {p : Path} {c : Nat} (h : Reads fs f p c) :
    Reads fs' f p c := by
  obtain ⟨l, hl, hr⟩ := (reads_iff _ _ _ _).1 h
  exact (reads_iff _ _ _ _).2 ⟨l, hl.mono hs, hr.mono hs⟩

/-- a region that is, entry for entry, a copy (up to object ids) of the region at `(g, S)` -/
def CopyOf (fs : FS) (g : String) (S : Path) (new : Entries) : Prop :=
  ∃ d, ∀ r, lookupK new r = (lookupE fs g (S ++ r)).map (Entry.shift d)

theorem placed_copy_reads {fs : FS} (hw : WF fs) {f : String} {dp : Path} {new : H5File → Entries × Nat}
    {ex : ErrClass} {fs' : FS} (h : placeAt fs f dp new ex = (fs', .ok))
    {g : String} {S : Path} (hc : ∀ h1, CopyOf fs g S (new h1).1) {c : Nat} (hr : ReadsAt fs (g, S) c) :
    Reads fs' f dp c := by
  obtain ⟨h1, P, x, hdp, _, hres, hlk, _, _, _, _⟩ := placeAt_facts hw h
  obtain ⟨d, hd⟩ := hc h1
  obtain ⟨r1, ⟨o2, a2, r2⟩, r3⟩ := hr
  obtain ⟨oid, a, he, hf⟩ := coolerEntry_some r1
  simp only at he r2 r3
  have e0 : lookupE fs' f (P ++ [x]) = some (.group (oid + d) a) := by
    have := hlk []
    simp only [List.append_nil] at this
    rw [this, hd []]; simp [he, Entry.shift]
  have e1 : lookupE fs' f (P ++ [x] ++ ["pixels"]) = some (.group (o2 + d) a2) := by
    rw [hlk, hd]; simp [r2, Entry.shift]
  have e2 : lookupE fs' f (P ++ [x] ++ ["pixels", "count"]) = some (.dataset c) := by
    rw [hlk, hd]; simp [r3, Entry.shift]
  rw [reads_iff]
  refine ⟨(f, P ++ [x]), ?_, ?_, ⟨_, _, e1⟩, e2⟩
  · rw [hdp]; exact Resolves.snoc_obj hres e0 (Or.inl ⟨_, _, rfl⟩)
  · simp only; rw [e0]; simpa [coolerEntry] using hf

theorem Entry.shift_zero (e : Entry) : Entry.shift 0 e = e := by cases e <;> simp [Entry.shift]

theorem copyOf_getRegion {fs : FS} {g : String} {hs : H5File} (hg : getFile fs g = some hs) (S : Path) :
    CopyOf fs g S (getRegion hs.entries S) := by
  refine ⟨0, fun r => ?_⟩
  rw [lookupK_getRegion]
  unfold lookupE; rw [hg]
  simp only
  cases hk : lookupK hs.entries (S ++ r) <;> simp [Entry.shift_zero]

theorem copyOf_shift {fs : FS} {g : String} {hs : H5File} (hg : getFile fs g = some hs) (S : Path) (d : Nat) :
    CopyOf fs g S (shiftOids d (getRegion hs.entries S)) := by
  refine ⟨d, fun r => ?_⟩
  rw [lookupK_shiftOids, lookupK_getRegion]
  unfold lookupE; rw [hg]

theorem placed_soft_reads {fs : FS} (hw : WF fs) {f : String} {dp : Path} {sp : Path} {nx : H5File → Nat}
    {ex : ErrClass} {fs' : FS}
    (h : placeAt fs f dp (fun h1 => ([([], .soft sp)], nx h1)) ex = (fs', .ok))
    {c : Nat} (hr : Reads fs f sp c) : Reads fs' f dp c := by
  obtain ⟨h1, P, x, hdp, hsub, hres, hlk, _, _, _, _⟩ := placeAt_facts hw h
  obtain ⟨l, hl, hra⟩ := (reads_iff _ _ _ _).1 hr
  rw [reads_iff]
  refine ⟨l, ?_, hra.mono hsub⟩
  rw [hdp]
  refine Resolves.snoc_soft hres (t := sp) ?_ (hl.mono hsub)
  have := hlk []
  simpa [lookupK] using this

theorem placed_ext_reads {fs : FS} (hw : WF fs) {f : String} {dp : Path} {sf : String} {sp : Path} {nx : H5File → Nat}
    {ex : ErrClass} {fs' : FS}
    (h : placeAt fs f dp (fun h1 => ([([], .ext sf sp)], nx h1)) ex = (fs', .ok))
    {c : Nat} (hr : Reads fs sf sp c) : Reads fs' f dp c := by
  obtain ⟨h1, P, x, hdp, hsub, hres, hlk, _, _, _, _⟩ := placeAt_facts hw h
  obtain ⟨l, hl, hra⟩ := (reads_iff _ _ _ _).1 hr
  rw [reads_iff]
  refine ⟨l, ?_, hra.mono hsub⟩
  rw [hdp]
  refine Resolves.snoc_ext hres (g' := sf) (t := sp) ?_ (hl.mono hsub)
  have := hlk []
  simpa [lookupK] using this

/-! ### opening the destination -/

theorem lookupE_absent {fs : FS} {f : String} (h : getFile fs f = none) (k : Path) : lookupE fs f k = none := by
  unfold lookupE; rw [h]

theorem afterOpen_sub {fs : FS} {df : String} {ow : Bool} (hT : ow = true → getFile fs df = none) :
    Sub fs (afterOpen fs df ow) := by
  unfold afterOpen
  by_cases hc : ((getFile fs df).isNone || ow) = true
  · simp only [hc, if_true]
    have hnone : getFile fs df = none := by
      cases ow with
      | true => exact hT rfl
      | false => simpa using hc
    constructor
    · intro g hg
      rw [getFile_setFile]
      by_cases e : df = g <;> simp [e, hg]
    · intro g k e hk
      rw [lookupE_setFile]
      by_cases e' : df = g
      · subst e'; rw [lookupE_absent hnone] at hk; simp at hk
      · simp [e', hk]
  · simp only [hc]; exact Sub.refl fs

theorem afterOpen_wf {fs : FS} (hw : WF fs) (df : String) (ow : Bool) : WF (afterOpen fs df ow) := by
  unfold afterOpen
  split
  · exact wf_setFile hw wf_emptyFile
  · exact hw

/-! ### `copy_reads_equal`, branch by branch -/

theorem deepCopyTo_reads {fs1 : FS} (hw : WF fs1) {g : String} {S : Path} {df : String} {dp : Path} {fs' : FS}
    (h : deepCopyTo fs1 g S df dp = (fs', .ok)) {c : Nat} (hr : ReadsAt fs1 (g, S) c) : Reads fs' df dp c := by
  unfold deepCopyTo at h
  cases hg : getFile fs1 g with
  | none => simp [hg] at h
  | some hs =>
    simp only [hg] at h
    cases hl : lookupK hs.entries S with
    | none => simp [hl] at h
    | some e =>
      cases e with
      | group o a =>
        simp only [hl] at h
        by_cases hsoft : dstThroughSoft fs1 df dp = true
        · simp [hsoft] at h
        · simp only [hsoft, Bool.false_eq_true, if_false] at h
          exact placed_copy_reads hw h (fun h1 => copyOf_shift hg S h1.next) hr
      | dataset c' => simp [hl] at h
      | soft t => simp [hl] at h
      | ext g' t => simp [hl] at h

theorem reads_at_resolved {fs : FS} {f : String} {p : Path} {c : Nat} (hr : Reads fs f p c)
    {l : Loc} (hl : resolve fs f p = some l) : ReadsAt fs l c := by
  obtain ⟨l', hl', hra⟩ := (reads_iff _ _ _ _).1 hr
  have : l' = l := hl'.det ⟨LINKFUEL, hl⟩
  exact this ▸ hra

theorem copySame_reads {fs1 : FS} (hw : WF fs1) {sf : String} {sp dp : Path} {fs' : FS}
    (h : copySame fs1 sf sp dp = (fs', .ok)) {c : Nat} (hr : Reads fs1 sf sp c) : Reads fs' sf dp c := by
  unfold copySame at h
  cases hres : resolve fs1 sf sp with
  | none => simp [hres] at h
  | some l =>
    obtain ⟨g, S⟩ := l
    simp only [hres] at h
    exact deepCopyTo_reads hw h (reads_at_resolved hr hres)

theorem softLinkSame_reads {fs1 : FS} (hw : WF fs1) {sf : String} {sp dp : Path} {fs' : FS}
    (h : softLinkSame fs1 sf sp dp = (fs', .ok)) {c : Nat} (hr : Reads fs1 sf sp c) : Reads fs' sf dp c :=
  placed_soft_reads hw h hr

theorem extLink_reads {fs1 : FS} (hw : WF fs1) {sf : String} {sp : Path} {df : String} {dp : Path} {fs' : FS}
    (h : extLink fs1 sf sp df dp = (fs', .ok)) {c : Nat} (hr : Reads fs1 sf sp c) : Reads fs' df dp c :=
  placed_ext_reads hw h hr

theorem unlink_ne_ok (fs : FS) (f : String) (p : Path) : unlink fs f p ≠ .error .ok := by
  unfold unlink
  repeat' split
  all_goals simp

/-- what a successful same-file hard link (before any `del`) did -/
theorem hardLinkSame_ok {fs1 : FS} {sf : String} {sp dp : Path} {rename : Bool} {fs' : FS}
    (h : hardLinkSame fs1 sf sp dp rename = (fs', .ok)) :
    ∃ S hs fs2 D, resolve fs1 sf sp = some (sf, S) ∧ getFile fs1 sf = some hs ∧
      IsGroup (lookupK hs.entries S) ∧
      placeAt fs1 sf dp (fun h1 => (getRegion hs.entries S, h1.next)) .os = (fs2, .ok) ∧
      destOf fs1 sf dp = some D ∧ under S D = false ∧
      (if rename then unlink fs2 sf sp = .ok fs' else fs' = fs2) := by
  unfold hardLinkSame at h
  cases hres : resolve fs1 sf sp with
  | none => simp [hres] at h
  | some l =>
    obtain ⟨g, S⟩ := l
    simp only [hres] at h
    by_cases hg : g = sf
    · subst hg
      simp only [ne_eq, not_true_eq_false, if_false] at h
      cases hgf : getFile fs1 g with
      | none => simp [hgf] at h
      | some hs =>
        simp only [hgf] at h
        cases hl : lookupK hs.entries S with
        | none => simp [hl] at h
        | some e =>
          cases e with
          | dataset c' => simp [hl] at h
          | soft t => simp [hl] at h
          | ext g' t => simp [hl] at h
          | group o a =>
            simp only [hl] at h
            cases hp : placeAt fs1 g dp (fun h1 => (getRegion hs.entries S, h1.next)) .os with
            | mk fs2 oc =>
              rw [hp] at h
              cases oc with
              | err e => simp at h
              | corner w => simp at h
              | ok =>
                simp only at h
                cases hd : destOf fs1 g dp with
                | none => simp [hd] at h
                | some D =>
                  simp only [hd] at h
                  by_cases hu : under S D = true
                  · simp [hu] at h
                  · simp only [hu] at h
                    refine ⟨S, hs, fs2, D, rfl, rfl, ⟨o, a, hl⟩, hp, rfl, by simpa using hu, ?_⟩
                    cases rename with
                    | false => simp at h ⊢; exact h.symm
                    | true =>
                      simp only [if_true] at h ⊢
                      cases hun : unlink fs2 g sp with
                      | error o' =>
                        simp [hun] at h
                        exact absurd (h.2 ▸ hun) (unlink_ne_ok _ _ _)
                      | ok fs3 => simp [hun] at h; rw [h]
    · simp [hg] at h

theorem hardLinkSame_reads {fs1 : FS} (hw : WF fs1) {sf : String} {sp dp : Path} {fs' : FS}
    (h : hardLinkSame fs1 sf sp dp false = (fs', .ok)) {c : Nat} (hr : Reads fs1 sf sp c) : Reads fs' sf dp c := by
  obtain ⟨S, hs, fs2, D, hres, hg, _, hp, _, _, hfin⟩ := hardLinkSame_ok h
  simp only [Bool.false_eq_true, if_false] at hfin
  subst hfin
  exact placed_copy_reads hw hp (fun _ => copyOf_getRegion hg S) (reads_at_resolved hr hres)

/-! ### `copy_reads_equal` -/

/-- the prelude of `_copy`: what a run that got past opening both files looks like -/
theorem copyOp_opened {fs : FS} {v : Variant} {sf : String} {sp : Path} {df : String} {dp : Path}
    {ow link rename soft : Bool} {fs' : FS} (h : copyOp fs v sf sp df dp ow link rename soft = (fs', .ok)) :
    (getFile fs sf).isSome ∧
    ¬ ((((getFile fs df).isNone || ow) = true) ∧ sf = df) ∧
    (if sf = df then
      (if (link || rename) = true then hardLinkSame (afterOpen fs df ow) sf sp dp rename
       else if soft = true then softLinkSame (afterOpen fs df ow) sf sp dp
       else copySame (afterOpen fs df ow) sf sp dp)
     else
      (if link = true then ((afterOpen fs df ow), Outcome.err .os)
       else if soft = true then extLink (afterOpen fs df ow) sf sp df dp
       else copyCross (afterOpen fs df ow) v sf sp df dp rename)) = (fs', .ok) := by
  unfold copyOp at h
  by_cases hflags : ((link && rename) || (link && soft) || (rename && soft)) = true
  · simp [hflags] at h
  · simp only [hflags] at h
    by_cases hself : (decide (sf = df) && (link || rename || soft) && under sp dp) = true
    · simp [hself] at h
    simp only [hself] at h
    cases hsf : getFile fs sf with
    | none => simp [hsf] at h
    | some hsrc =>
      simp only [hsf] at h
      by_cases hopen : (((getFile fs df).isNone || ow) && decide (sf = df)) = true
      · simp [hopen] at h
      · simp only [hopen] at h
        refine ⟨by simp, ?_, ?_⟩
        · intro hc; apply hopen; simp [hc.1, hc.2]
        · cases hc : dstCorner (afterOpen fs df ow) df dp with
          | some why => simp [hc] at h
          | none =>
            simp only [hc] at h
            exact h

/-- **copy_reads_equal** (cp, ln, ln -s within a file or across files; destination other than
the root of another file — see `copy_root_reads_equal`).  If the operation succeeds and did not
truncate an existing destination file (`overwrite` on an existing file replaces that file, by
definition), the destination reads what the source read before. -/
theorem copy_reads_equal {fs : FS} (hw : WF fs) {v : Variant} {sf : String} {sp : Path} {df : String} {dp : Path}
    {ow link soft : Bool} {fs' : FS}
    (hT : ow = true → getFile fs df = none)
    (hroot : sf ≠ df → dp ≠ [])
    (h : copyOp fs v sf sp df dp ow link false soft = (fs', .ok))
    {c : Nat} (hr : Reads fs sf sp c) : Reads fs' df dp c := by
  obtain ⟨_, _, hb⟩ := copyOp_opened h
  have hw1 := afterOpen_wf hw df ow
  have hr1 : Reads (afterOpen fs df ow) sf sp c := hr.mono (afterOpen_sub hT)
  by_cases hsame : sf = df
  · subst hsame
    simp only [if_true, Bool.or_false] at hb
    by_cases hl : link = true
    · simp only [hl, if_true] at hb
      exact hardLinkSame_reads hw1 hb hr1
    · simp only [hl] at hb
      by_cases hs : soft = true
      · simp only [hs, if_true] at hb
        exact softLinkSame_reads hw1 hb hr1
      · simp only [hs] at hb
        exact copySame_reads hw1 hb hr1
  · simp only [hsame, if_false] at hb
    by_cases hl : link = true
    · simp [hl] at hb
    · simp only [hl] at hb
      by_cases hs : soft = true
      · simp only [hs, if_true] at hb
        exact extLink_reads hw1 hb hr1
      · simp only [hs] at hb
        unfold copyCross at hb
        cases hres : resolve (afterOpen fs df ow) sf sp with
        | none => simp [hres] at hb; split at hb <;> simp at hb
        | some l =>
          obtain ⟨g, S⟩ := l
          simp only [hres, hroot hsame, if_false] at hb
          cases hd : deepCopyTo (afterOpen fs df ow) g S df dp with
          | mk fs2 oc =>
            rw [hd] at hb
            cases oc with
            | err e => simp at hb
            | corner w => simp at hb
            | ok =>
              simp only [Bool.false_and, Bool.false_eq_true, if_false] at hb
              have : fs2 = fs' := (Prod.mk.inj hb).1
              subst this
              exact deepCopyTo_reads hw1 hd (reads_at_resolved hr1 hres)

/-! ### `copy_frame` -/

/-- only file `f` may differ between `fs` and `fs'` -/
def OnlyFile (f : String) (fs fs' : FS) : Prop := ∀ g, g ≠ f → getFile fs' g = getFile fs g

theorem OnlyFile.refl (f : String) (fs : FS) : OnlyFile f fs fs := fun _ _ => rfl

theorem OnlyFile.setFile (f : String) (fs : FS) (h : H5File) : OnlyFile f fs (setFile fs f h) := by
  intro g hg
  rw [getFile_setFile]
  have : ¬ f = g := fun e => hg e.symm
  simp [this]

theorem OnlyFile.trans {f : String} {a b c : FS} (h1 : OnlyFile f a b) (h2 : OnlyFile f b c) : OnlyFile f a c :=
  fun g hg => (h2 g hg).trans (h1 g hg)

theorem placeAt_not_ok {fs : FS} {f : String} {dp : Path} {new : H5File → Entries × Nat} {ex : ErrClass}
    {fs' : FS} {oc : Outcome} (h : placeAt fs f dp new ex = (fs', oc)) (hne : oc ≠ .ok) : fs' = fs := by
  unfold placeAt at h
  split at h
  · exact (Prod.mk.inj h).1.symm
  · split at h
    · exact (Prod.mk.inj h).1.symm
    · split at h
      · exact (Prod.mk.inj h).1.symm
      · simp only at h
        unfold linkRegion at h
        split at h
        · exact (Prod.mk.inj h).1.symm
        · split at h
          · exact (Prod.mk.inj h).1.symm
          · exact absurd (Prod.mk.inj h).2.symm hne

theorem placeAt_only {fs : FS} {f : String} {dp : Path} {new : H5File → Entries × Nat} {ex : ErrClass}
    {fs' : FS} {oc : Outcome} (h : placeAt fs f dp new ex = (fs', oc)) : OnlyFile f fs fs' := by
  by_cases hoc : oc = .ok
  · subst hoc
    obtain ⟨_, _, _, _, _, _, _, _, rfl⟩ := placeAt_ok h
    exact OnlyFile.setFile _ _ _
  · rw [placeAt_not_ok h hoc]; exact OnlyFile.refl _ _

/-- `placeAt` never loses anything, whatever its outcome -/
theorem placeAt_sub {fs : FS} (hw : WF fs) {f : String} {dp : Path} {new : H5File → Entries × Nat} {ex : ErrClass}
    {fs' : FS} {oc : Outcome} (h : placeAt fs f dp new ex = (fs', oc)) : Sub fs fs' := by
  by_cases hoc : oc = .ok
  · subst hoc
    obtain ⟨_, _, _, _, hs, _⟩ := placeAt_facts hw h
    exact hs
  · rw [placeAt_not_ok h hoc]; exact Sub.refl _

theorem deepCopyTo_sub {fs1 : FS} (hw : WF fs1) {g : String} {S : Path} {df : String} {dp : Path} {fs' : FS}
    {oc : Outcome} (h : deepCopyTo fs1 g S df dp = (fs', oc)) : Sub fs1 fs' ∧ OnlyFile df fs1 fs' := by
  unfold deepCopyTo at h
  split at h
  · rw [← (Prod.mk.inj h).1]; exact ⟨Sub.refl _, OnlyFile.refl _ _⟩
  · split at h
    · by_cases hsoft : dstThroughSoft fs1 df dp = true
      · simp only [hsoft, if_true] at h
        rw [← (Prod.mk.inj h).1]; exact ⟨Sub.refl _, OnlyFile.refl _ _⟩
      · simp only [hsoft, Bool.false_eq_true, if_false] at h
        exact ⟨placeAt_sub hw h, placeAt_only h⟩
    · rw [← (Prod.mk.inj h).1]; exact ⟨Sub.refl _, OnlyFile.refl _ _⟩

theorem copySame_sub {fs1 : FS} (hw : WF fs1) {sf : String} {sp dp : Path} {fs' : FS} {oc : Outcome}
    (h : copySame fs1 sf sp dp = (fs', oc)) : Sub fs1 fs' ∧ OnlyFile sf fs1 fs' := by
  unfold copySame at h
  split at h
  · rw [← (Prod.mk.inj h).1]; exact ⟨Sub.refl _, OnlyFile.refl _ _⟩
  · exact deepCopyTo_sub hw h

theorem hardLinkSame_sub {fs1 : FS} (hw : WF fs1) {sf : String} {sp dp : Path} {fs' : FS} {oc : Outcome}
    (h : hardLinkSame fs1 sf sp dp false = (fs', oc)) : Sub fs1 fs' ∧ OnlyFile sf fs1 fs' := by
  unfold hardLinkSame at h
  split at h
  · rw [← (Prod.mk.inj h).1]; exact ⟨Sub.refl _, OnlyFile.refl _ _⟩
  · split at h
    · rw [← (Prod.mk.inj h).1]; exact ⟨Sub.refl _, OnlyFile.refl _ _⟩
    · split at h
      · rw [← (Prod.mk.inj h).1]; exact ⟨Sub.refl _, OnlyFile.refl _ _⟩
      · split at h
        · split at h
          · rename_i fs2 hp
            have hsub := placeAt_sub hw hp
            have honly := placeAt_only hp
            split at h
            · split at h
              · rw [← (Prod.mk.inj h).1]; exact ⟨hsub, honly⟩
              · simp only [Bool.false_eq_true, if_false] at h
                rw [← (Prod.mk.inj h).1]; exact ⟨hsub, honly⟩
            · rw [← (Prod.mk.inj h).1]; exact ⟨hsub, honly⟩
          · exact ⟨placeAt_sub hw h, placeAt_only h⟩
        · rw [← (Prod.mk.inj h).1]; exact ⟨Sub.refl _, OnlyFile.refl _ _⟩

theorem copyOp_cases {fs : FS} {v : Variant} {sf : String} {sp : Path} {df : String} {dp : Path}
    {ow link rename soft : Bool} {fs' : FS} {oc : Outcome}
    (h : copyOp fs v sf sp df dp ow link rename soft = (fs', oc)) :
    fs' = fs ∨ fs' = afterOpen fs df ow ∨
    (if sf = df then
      (if (link || rename) = true then hardLinkSame (afterOpen fs df ow) sf sp dp rename
       else if soft = true then softLinkSame (afterOpen fs df ow) sf sp dp
       else copySame (afterOpen fs df ow) sf sp dp)
     else
      (if link = true then ((afterOpen fs df ow), Outcome.err .os)
       else if soft = true then extLink (afterOpen fs df ow) sf sp df dp
       else copyCross (afterOpen fs df ow) v sf sp df dp rename)) = (fs', oc) := by
  unfold copyOp at h
  split at h
  · exact Or.inl (Prod.mk.inj h).1.symm
  · split at h
    · exact Or.inl (Prod.mk.inj h).1.symm
    · split at h
      · exact Or.inl (Prod.mk.inj h).1.symm
      · split at h
        · exact Or.inl (Prod.mk.inj h).1.symm
        · simp only at h
          split at h
          · exact Or.inr (Or.inl (Prod.mk.inj h).1.symm)
          · exact Or.inr (Or.inr h)

theorem afterOpen_only (fs : FS) (df : String) (ow : Bool) : OnlyFile df fs (afterOpen fs df ow) := by
  unfold afterOpen
  split
  · exact OnlyFile.setFile _ _ _
  · exact OnlyFile.refl _ _

/-- `cp`, `ln`, `ln -s` (destination other than the root of another file), any outcome: what the
operation leaves behind relative to the file system it worked on -/
theorem copy_branch_sub {fs1 : FS} (hw1 : WF fs1) {v : Variant} {sf : String} {sp : Path} {df : String} {dp : Path}
    {link soft : Bool} {fs' : FS} {oc : Outcome} (hroot : sf ≠ df → dp ≠ [])
    (hb : (if sf = df then
      (if (link || false) = true then hardLinkSame fs1 sf sp dp false
       else if soft = true then softLinkSame fs1 sf sp dp
       else copySame fs1 sf sp dp)
     else
      (if link = true then (fs1, Outcome.err .os)
       else if soft = true then extLink fs1 sf sp df dp
       else copyCross fs1 v sf sp df dp false)) = (fs', oc)) :
    Sub fs1 fs' ∧ OnlyFile df fs1 fs' := by
  by_cases hsame : sf = df
  · subst hsame
    simp only [if_true, Bool.or_false] at hb
    split at hb
    · exact hardLinkSame_sub hw1 hb
    · split at hb
      · exact ⟨placeAt_sub hw1 hb, placeAt_only hb⟩
      · exact copySame_sub hw1 hb
  · simp only [hsame, if_false] at hb
    split at hb
    · rw [← (Prod.mk.inj hb).1]; exact ⟨Sub.refl _, OnlyFile.refl _ _⟩
    · split at hb
      · exact ⟨placeAt_sub hw1 hb, placeAt_only hb⟩
      · unfold copyCross at hb
        split at hb
        · rw [← (Prod.mk.inj hb).1]; exact ⟨Sub.refl _, OnlyFile.refl _ _⟩
        · rename_i g S _
          simp only [hroot hsame, if_false] at hb
          cases hd : deepCopyTo fs1 g S df dp with
          | mk fs2 oc2 =>
            rw [hd] at hb
            have := deepCopyTo_sub hw1 hd
            cases oc2 with
            | ok =>
              simp only [Bool.false_and, Bool.false_eq_true, if_false] at hb
              rw [← (Prod.mk.inj hb).1]; exact this
            | err e => simp only at hb; rw [← (Prod.mk.inj hb).1]; exact this
            | corner w => simp only at hb; rw [← (Prod.mk.inj hb).1]; exact this

/-- **copy_frame** (cp, ln, ln -s; destination other than the root of another file).
Whatever the outcome: (1) no file other than the destination file is touched; (2) unless an
existing destination file was truncated by `overwrite`, every object of every file is still
there, unchanged — so every collection reads as before, under every name. -/
theorem copy_frame {fs : FS} (hw : WF fs) {v : Variant} {sf : String} {sp : Path} {df : String} {dp : Path}
    {ow link soft : Bool} {fs' : FS} {oc : Outcome}
    (hroot : sf ≠ df → dp ≠ [])
    (h : copyOp fs v sf sp df dp ow link false soft = (fs', oc)) :
    OnlyFile df fs fs' ∧
    ((ow = true → getFile fs df = none) →
      Sub fs fs' ∧ ∀ g u c, Reads fs g u c → Reads fs' g u c) := by
  have hw1 := afterOpen_wf hw df ow
  have key : OnlyFile df fs fs' ∧ ((ow = true → getFile fs df = none) → Sub fs fs') := by
    rcases copyOp_cases h with rfl | rfl | hb
    · exact ⟨OnlyFile.refl _ _, fun _ => Sub.refl _⟩
    · exact ⟨afterOpen_only _ _ _, fun hT => afterOpen_sub hT⟩
    · obtain ⟨hs, ho⟩ := copy_branch_sub hw1 hroot hb
      exact ⟨(afterOpen_only _ _ _).trans ho, fun hT => (afterOpen_sub hT).trans hs⟩
  exact ⟨key.1, fun hT => ⟨key.2 hT, fun g u c hr => hr.mono (key.2 hT)⟩⟩

/-- the successful branches of `_copy` other than the root-destination copy all end in one
`placeAt` of a well-formed region -/
def Placed (fs1 : FS) (df : String) (dp : Path) (fs' : FS) : Prop :=
  ∃ (new : H5File → Entries × Nat) (ex : ErrClass),
    placeAt fs1 df dp new ex = (fs', .ok) ∧ ∀ h1, RelWF (new h1).1

theorem deepCopyTo_placed {fs1 : FS} (hw : WF fs1) {g : String} {S : Path} {df : String} {dp : Path} {fs' : FS}
    (h : deepCopyTo fs1 g S df dp = (fs', .ok)) : Placed fs1 df dp fs' := by
  unfold deepCopyTo at h
  split at h
  · simp at h
  · rename_i hs hg
    split at h
    · by_cases hsoft : dstThroughSoft fs1 df dp = true
      · simp [hsoft] at h
      · simp only [hsoft, Bool.false_eq_true, if_false] at h
        exact ⟨_, _, h, fun h1 => relWF_shift _ (relWF_getRegion (hw g hs hg) S)⟩
    · simp at h

theorem copy_branch_placed {fs1 : FS} (hw1 : WF fs1) {v : Variant} {sf : String} {sp : Path} {df : String} {dp : Path}
    {link soft : Bool} {fs' : FS} (hroot : sf ≠ df → dp ≠ [])
    (hb : (if sf = df then
      (if (link || false) = true then hardLinkSame fs1 sf sp dp false
       else if soft = true then softLinkSame fs1 sf sp dp
       else copySame fs1 sf sp dp)
     else
      (if link = true then (fs1, Outcome.err .os)
       else if soft = true then extLink fs1 sf sp df dp
       else copyCross fs1 v sf sp df dp false)) = (fs', .ok)) :
    Placed fs1 df dp fs' := by
  by_cases hsame : sf = df
  · subst hsame
    simp only [if_true, Bool.or_false] at hb
    split at hb
    · obtain ⟨S, hs, fs2, D, _, hg, _, hp, _, _, hfin⟩ := hardLinkSame_ok hb
      simp only [Bool.false_eq_true, if_false] at hfin
      subst hfin
      exact ⟨_, _, hp, fun _ => relWF_getRegion (hw1 sf hs hg) S⟩
    · split at hb
      · exact ⟨_, _, hb, fun _ => relWF_single _⟩
      · unfold copySame at hb
        split at hb
        · simp at hb
        · exact deepCopyTo_placed hw1 hb
  · simp only [hsame, if_false] at hb
    split at hb
    · simp at hb
    · split at hb
      · exact ⟨_, _, hb, fun _ => relWF_single _⟩
      · unfold copyCross at hb
        split at hb
        · split at hb <;> simp at hb
        · rename_i g S _
          simp only [hroot hsame, if_false] at hb
          cases hd : deepCopyTo fs1 g S df dp with
          | mk fs2 oc2 =>
            rw [hd] at hb
            cases oc2 with
            | ok =>
              simp only [Bool.false_and, Bool.false_eq_true, if_false] at hb
              rw [← (Prod.mk.inj hb).1]; exact deepCopyTo_placed hw1 hd
            | err e => simp at hb
            | corner w => simp at hb

/-- **copy_frame_new**: after a successful cp / ln / ln -s, whatever exists now and did not exist
when the files were opened lies in the destination file, under the destination's canonical
location `D` — or is an empty intermediate group created on the way to it.  The file system
stays well-formed. -/
theorem copy_frame_new {fs : FS} (hw : WF fs) {v : Variant} {sf : String} {sp : Path} {df : String} {dp : Path}
    {ow link soft : Bool} {fs' : FS} (hroot : sf ≠ df → dp ≠ [])
    (h : copyOp fs v sf sp df dp ow link false soft = (fs', .ok)) :
    WF fs' ∧ ∃ D, destOf (afterOpen fs df ow) df dp = some D ∧ lookupE (afterOpen fs df ow) df D = none ∧
      ∀ g k e, lookupE fs' g k = some e → lookupE (afterOpen fs df ow) g k = some e ∨
        (g = df ∧ (under D k = true ∨ ∃ o, e = .group o [])) := by
  have hw1 := afterOpen_wf hw df ow
  obtain ⟨_, _, hb⟩ := copyOp_opened h
  obtain ⟨new, ex, hp, hrel⟩ := copy_branch_placed hw1 hroot hb
  obtain ⟨h1, P, x, _, _, _, _, hnew, hwf, hdest, habs⟩ := placeAt_facts hw1 hp
  exact ⟨hwf (hrel h1), P ++ [x], hdest, habs, hnew⟩

/-! ### `mv` -/

theorem unlink_ok {fs : FS} {f : String} {p : Path} {fs' : FS} (h : unlink fs f p = .ok fs') :
    ∃ y Ps hh, p = p.dropLast ++ [y] ∧ resolve fs f p.dropLast = some (f, Ps) ∧ getFile fs f = some hh ∧
      fs' = setFile fs f ⟨removeUnder (Ps ++ [y]) hh.entries, hh.next⟩ := by
  unfold unlink at h
  split at h
  · simp at h
  · rename_i y hy
    split at h
    · simp at h
    · rename_i g Ps hres
      split at h
      · simp at h
      · rename_i hgf
        have hgf' : g = f := by simpa using hgf
        subst hgf'
        split at h
        · simp at h
        · rename_i hh hg
          split at h
          · simp at h
          · split at h
            · simp at h
            · simp only [Except.ok.injEq] at h
              exact ⟨y, Ps, hh, dropLast_append_getLast hy, hres, hg, h.symm⟩

/-- removing a region only removes: the smaller file system is contained in the larger -/
theorem sub_of_removeUnder {fs : FS} {f : String} {hh : H5File} (hg : getFile fs f = some hh) (L : Path) (nx : Nat) :
    Sub (setFile fs f ⟨removeUnder L hh.entries, nx⟩) fs := by
  constructor
  · intro g hs
    rw [getFile_setFile] at hs
    by_cases e : f = g
    · subst e; simp [hg]
    · simpa [e] using hs
  · intro g k e hk
    rw [lookupE_setFile] at hk
    by_cases e' : f = g
    · subst e'
      simp only [if_true, lookupK_removeUnder] at hk
      unfold lookupE; rw [hg]
      by_cases hu : under L k = true
      · simp [hu] at hk
      · simpa [hu] using hk
    · simpa [e'] using hk

theorem unlink_gone {fs : FS} {f : String} {p : Path} {fs' : FS} (h : unlink fs f p = .ok fs') :
    ∀ l, ¬ Resolves fs' f p l := by
  obtain ⟨y, Ps, hh, hp, hres, hg, rfl⟩ := unlink_ok h
  intro l ⟨n, hn⟩
  rw [hp, resolveN_snoc] at hn
  cases hr : resolveN (setFile fs f ⟨removeUnder (Ps ++ [y]) hh.entries, hh.next⟩) n f p.dropLast with
  | none => rw [hr] at hn; simp [stepWith] at hn
  | some l' =>
    obtain ⟨g', P'⟩ := l'
    have h1 : Resolves fs f p.dropLast (g', P') := Resolves.mono (sub_of_removeUnder hg _ _) ⟨n, hr⟩
    have h2 : (g', P') = (f, Ps) := h1.det ⟨LINKFUEL, hres⟩
    obtain ⟨rfl, rfl⟩ := Prod.mk.inj h2
    rw [hr] at hn
    unfold stepWith at hn
    simp only [lookupE_setFile_same, lookupK_removeUnder, under_refl, if_true] at hn
    simp at hn

/-- **mv_source_gone**, full statement: after a successful `mv` the source path no longer names
anything.  FALSE for the code as it is when the two files differ (finding D4, see
`mv_cross_file_keeps_source` and `d4_counterexample`); true for the specification
(`mv_source_gone_spec`) and within one file (`mv_source_gone_partial`). -/
def mv_source_gone_Statement (v : Variant) : Prop :=
  ∀ (fs : FS) (sf : String) (sp : Path) (df : String) (dp : Path) (ow : Bool) (fs' : FS),
    WF fs → mv fs v sf sp df dp ow = (fs', .ok) → ∀ l, ¬ Resolves fs' sf sp l

/-- `mv` inside one file removes the source (any links, any paths) -/
theorem mv_source_gone_partial {fs : FS} {v : Variant} {sf : String} {sp dp : Path} {ow : Bool} {fs' : FS}
    (h : mv fs v sf sp sf dp ow = (fs', .ok)) : ∀ l, ¬ Resolves fs' sf sp l := by
  unfold mv at h
  obtain ⟨_, _, hb⟩ := copyOp_opened h
  simp only [if_true, Bool.or_true] at hb
  obtain ⟨S, hs, fs2, D, _, _, _, _, _, _, hfin⟩ := hardLinkSame_ok hb
  simp only [if_true] at hfin
  exact unlink_gone hfin

/-- the specification (`d4 = false`) removes the source across files as well -/
theorem mv_source_gone_spec : mv_source_gone_Statement Variant.spec := by
  intro fs sf sp df dp ow fs' _ h
  by_cases hsame : sf = df
  · subst hsame; exact mv_source_gone_partial h
  · unfold mv at h
    obtain ⟨_, _, hb⟩ := copyOp_opened h
    simp only [hsame, if_false, Bool.false_eq_true] at hb
    unfold copyCross at hb
    split at hb
    · split at hb <;> simp at hb
    · split at hb
      · simp only [Variant.spec, Bool.not_false, Bool.and_self, if_true] at hb
        split at hb
        · rename_i fs3 hun
          rw [← (Prod.mk.inj hb).1]
          exact unlink_gone hun
        · rename_i o hun
          exact absurd ((Prod.mk.inj hb).2 ▸ hun) (unlink_ne_ok _ _ _)
      · rename_i r hr
        exact absurd hb (hr fs')

/-! ### plain (link-free) paths -/

theorem list_rev_induction {α : Type} {motive : List α → Prop} (nil : motive [])
    (snoc : ∀ l a, motive l → motive (l ++ [a])) : ∀ l, motive l := by
  intro l
  have : ∀ n, ∀ l : List α, l.length = n → motive l := by
    intro n
    induction n with
    | zero =>
      intro l hl
      have : l = [] := List.length_eq_zero_iff.mp hl
      subst this; exact nil
    | succ n ih =>
      intro l hl
      rcases List.eq_nil_or_concat l with rfl | ⟨l', a, rfl⟩
      · simp at hl
      · simp only [List.concat_eq_append] at hl ⊢
        exact snoc l' a (ih l' (by simp at hl; omega))
  exact this _ l rfl

/-- a path all of whose non-empty prefixes are groups resolves to itself -/
theorem resolveN_groups {fs : FS} {g : String} (hf : (getFile fs g).isSome) (n : Nat) :
    ∀ (k : Path), (∀ q, under q k = true → q ≠ [] → IsGroup (lookupE fs g q)) → resolveN fs n g k = some (g, k) := by
  intro k
  induction k using list_rev_induction with
  | nil =>
    intro _
    rw [resolveN_nil]; unfold start
    cases hg : getFile fs g with
    | none => simp [hg] at hf
    | some _ => rfl
  | snoc k x ih =>
    intro hk
    rw [resolveN_snoc, ih (fun q hq hne => hk q (under_trans hq (under_append k [x])) hne)]
    obtain ⟨o, a, he⟩ := hk (k ++ [x]) (under_refl _) (by simp)
    simp [stepWith, he]

theorem under_of_common {p q k : Path} (hp : under p k = true) (hq : under q k = true) :
    under p q = true ∨ under q p = true := by
  obtain ⟨r, hr⟩ := (under_iff _ _).1 hp
  obtain ⟨s, hs⟩ := (under_iff _ _).1 hq
  have h1 : p <+: k := ⟨r, hr.symm⟩
  have h2 : q <+: k := ⟨s, hs.symm⟩
  rcases List.prefix_or_prefix_of_prefix h1 h2 with h3 | h3
  · obtain ⟨t, ht⟩ := h3; exact Or.inl ((under_iff _ _).2 ⟨t, ht.symm⟩)
  · obtain ⟨t, ht⟩ := h3; exact Or.inr ((under_iff _ _).2 ⟨t, ht.symm⟩)

/-- **copy_reads_equal for `mv` inside one file**, between plain paths (no link on the source path
nor on the destination's parent path): the destination reads what the source read. -/
theorem mv_reads_equal_plain {fs : FS} (hw : WF fs) {v : Variant} {sf : String} {sp dp : Path} {ow : Bool} {fs' : FS}
    (hsrc : ∀ q, under q sp = true → q ≠ [] → IsGroup (lookupE fs sf q))
    (hdst : ∀ q, under q dp.dropLast = true → q ≠ [] → IsGroup (lookupE fs sf q))
    (h : mv fs v sf sp sf dp ow = (fs', .ok)) {c : Nat} (hr : Reads fs sf sp c) : Reads fs' sf dp c := by
  unfold mv at h
  obtain ⟨hfile, hnw, hb⟩ := copyOp_opened h
  simp only [if_true, Bool.or_true] at hb
  -- the file was not truncated
  have hfs1 : afterOpen fs sf ow = fs := by
    unfold afterOpen
    have : ¬ (((getFile fs sf).isNone || ow) = true) := fun hc => hnw ⟨hc, rfl⟩
    simp [this]
  rw [hfs1] at hb
  obtain ⟨S, hs, fs2, D, hres, hg, _, hp, hd, hu, hun⟩ := hardLinkSame_ok hb
  simp only [if_true] at hun
  -- the source is its own canonical location
  have hS : sp = S := by
    have := (Resolves.det ⟨LINKFUEL, hres⟩ ⟨LINKFUEL, resolveN_groups hfile LINKFUEL sp hsrc⟩)
    exact (Prod.mk.inj this).2.symm
  subst hS
  obtain ⟨h1, P, x, hdp, hsub, hresP, hlk, _, _, hdest, habs⟩ := placeAt_facts hw hp
  have hfile2 : (getFile fs2 sf).isSome := hsub.1 sf hfile
  have hgrp2 : ∀ q, under q dp.dropLast = true → q ≠ [] → IsGroup (lookupE fs2 sf q) := by
    intro q hq hne
    obtain ⟨o, a, he⟩ := hdst q hq hne
    exact ⟨o, a, hsub.2 _ _ _ he⟩
  have hP : dp.dropLast = P := by
    have := hresP.det ⟨LINKFUEL, resolveN_groups hfile2 LINKFUEL _ hgrp2⟩
    exact (Prod.mk.inj this).2.symm
  subst hP
  have hD : dp = D := by
    rw [hdest] at hd
    have := Option.some.inj hd
    rw [← this, ← hdp]
  subst hD
  rw [← hdp] at hlk habs
  -- the unlinked region is the source path itself
  obtain ⟨y, Ps, hh, hsp, hresS, hg2, rfl⟩ := unlink_ok hun
  have hsrc2 : ∀ q, under q sp.dropLast = true → q ≠ [] → IsGroup (lookupE fs2 sf q) := by
    intro q hq hne
    have hq' : under q sp = true := by
      rw [hsp]; exact under_trans hq (under_append _ _)
    obtain ⟨o, a, he⟩ := hsrc q hq' hne
    exact ⟨o, a, hsub.2 _ _ _ he⟩
  have hPs : sp.dropLast = Ps := by
    have := (Resolves.det ⟨LINKFUEL, hresS⟩ ⟨LINKFUEL, resolveN_groups hfile2 LINKFUEL _ hsrc2⟩)
    exact (Prod.mk.inj this).2.symm
  subst hPs
  rw [← hsp]
  -- lookups in the final file
  have hfin : ∀ k, lookupE (setFile fs2 sf ⟨removeUnder sp hh.entries, hh.next⟩) sf k =
      if under sp k then none else lookupE fs2 sf k := by
    intro k
    rw [lookupE_setFile_same, lookupK_removeUnder]
    unfold lookupE; rw [hg2]
  -- the destination is not an ancestor of the source (it did not exist), nor below it
  have hdp_ne : dp ≠ [] := by rw [hdp]; simp
  have hnot : under dp sp = false := by
    cases hc : under dp sp with
    | false => rfl
    | true =>
      obtain ⟨o, a, he⟩ := hsrc dp hc hdp_ne
      rw [habs] at he; simp at he
  have hoff : ∀ r, under sp (dp ++ r) = false := by
    intro r
    cases hc : under sp (dp ++ r) with
    | false => rfl
    | true =>
      rcases under_of_common hc (under_append dp r) with h' | h'
      · rw [hu] at h'; simp at h'
      · rw [hnot] at h'; simp at h'
  -- what the source read
  have hra := reads_at_resolved hr hres
  obtain ⟨r1, ⟨o2, a2, r2⟩, r3⟩ := hra
  obtain ⟨oid, a, he, hf⟩ := coolerEntry_some r1
  simp only at he r2 r3
  have look : ∀ r, lookupE (setFile fs2 sf ⟨removeUnder sp hh.entries, hh.next⟩) sf (dp ++ r) = lookupE fs sf (sp ++ r) := by
    intro r
    rw [hfin, hoff r, hlk r, lookupK_getRegion]
    unfold lookupE; rw [hg]; simp
  have e0 := look []
  simp only [List.append_nil] at e0
  rw [reads_iff]
  refine ⟨(sf, dp), ⟨LINKFUEL, ?_⟩, ?_, ⟨o2, a2, ?_⟩, ?_⟩
  · apply resolveN_groups
    · rw [getFile_setFile]; simp
    · intro q hq hne
      by_cases hqe : q = dp
      · subst hqe; rw [e0, he]; exact ⟨_, _, rfl⟩
      · have hq' : under q dp.dropLast = true := by
          rw [hdp] at hq hqe; exact prefix_of_snoc hq hqe
        rw [hfin]
        have : under sp q = false := by
          cases hc : under sp q with
          | false => rfl
          | true => rw [under_trans hc hq] at hu; simp at hu
        simp only [this]
        exact hgrp2 q hq' hne
  · simp only; rw [e0, he]; simpa [coolerEntry] using hf
  · simp only; rw [look, r2]
  · simp only; rw [look, r3]

/-! ### `create`: append-mode frame, write mode, re-creation -/

theorem openFile_sub {fs : FS} {f : String} {mode : Mode} {fs1 : FS} (hm : mode ≠ .w)
    (h : openFile fs f mode = .ok fs1) : Sub fs fs1 ∧ OnlyFile f fs fs1 ∧ (getFile fs1 f).isSome := by
  cases mode with
  | w => exact absurd rfl hm
  | a =>
    simp only [openFile] at h
    cases hg : getFile fs f with
    | some hh =>
      simp only [hg, Except.ok.injEq] at h; subst h
      exact ⟨Sub.refl _, OnlyFile.refl _ _, by simp [hg]⟩
    | none =>
      simp only [hg, Except.ok.injEq] at h; subst h
      refine ⟨⟨?_, ?_⟩, OnlyFile.setFile _ _ _, by rw [getFile_setFile]; simp⟩
      · intro g hs; rw [getFile_setFile]; by_cases e : f = g <;> simp [e, hs]
      · intro g k e hk
        rw [lookupE_setFile]
        by_cases e' : f = g
        · subst e'; rw [lookupE_absent hg] at hk; simp at hk
        · simp [e', hk]
  | rplus =>
    simp only [openFile] at h
    cases hg : getFile fs f with
    | some hh =>
      simp only [hg, Except.ok.injEq] at h; subst h
      exact ⟨Sub.refl _, OnlyFile.refl _ _, by simp [hg]⟩
    | none => simp [hg] at h

theorem openFile_wf {fs : FS} (hw : WF fs) {f : String} {mode : Mode} {fs1 : FS}
    (h : openFile fs f mode = .ok fs1) : WF fs1 := by
  cases mode <;> simp only [openFile] at h
  · simp only [Except.ok.injEq] at h; subst h; exact wf_setFile hw wf_emptyFile
  · split at h
    · simp only [Except.ok.injEq] at h; subst h; exact hw
    · simp only [Except.ok.injEq] at h; subst h; exact wf_setFile hw wf_emptyFile
  · split at h
    · simp only [Except.ok.injEq] at h; subst h; exact hw
    · simp at h

theorem lookupK_rootParts (es : Entries) (o c : Nat) (k : Path)
    (hk : under ["bins"] k = false ∧ under ["chroms"] k = false ∧ under ["indexes"] k = false ∧
      under ["pixels"] k = false) : lookupK (rootParts es o c) k = lookupK es k := by
  obtain ⟨h1, h2, h3, h4⟩ := hk
  simp only [rootParts, payloadParts, List.foldl_cons, List.foldl_nil]
  rw [lookupK_putRegion_off _ _ _ _ h4, lookupK_putRegion_off _ _ _ _ h3, lookupK_putRegion_off _ _ _ _ h2,
    lookupK_putRegion_off _ _ _ _ h1]

/-- the part of the root group `create` rewrites -/
def rootPayloadKey (k : Path) : Bool :=
  under ["bins"] k || under ["chroms"] k || under ["indexes"] k || under ["pixels"] k

theorem attrGet_append (a b : List (String × String)) (key : String) :
    attrGet (a ++ b) key = (attrGet a key).orElse (fun _ => attrGet b key) := by
  induction a with
  | nil => simp [attrGet]
  | cons p a ih =>
    obtain ⟨k', v⟩ := p
    simp only [List.cons_append, attrGet]
    split <;> simp [ih]

theorem attrGet_filter (q : String → Bool) (a : List (String × String)) (key : String) :
    attrGet (a.filter (fun p => q p.1)) key = if q key then attrGet a key else none := by
  induction a with
  | nil => simp [attrGet]
  | cons p a ih =>
    obtain ⟨k', v⟩ := p
    simp only [List.filter_cons]
    by_cases hq : q k' = true
    · simp only [hq, if_true, attrGet]
      by_cases hk : k' = key
      · subst hk; simp [hq]
      · simp [hk, ih]
    · simp only [hq, attrGet]
      by_cases hk : k' = key
      · subst hk; simp [hq, ih]
      · simp [hk, ih]

/-- `dict.update`: keys of `new` take the new value, every other key keeps its old one -/
theorem attrGet_update (old new : List (String × String)) (key : String) :
    attrGet (attrsUpdate old new) key = (attrGet new key).orElse (fun _ => attrGet old key) := by
  unfold attrsUpdate
  rw [attrGet_append, attrGet_filter (fun k => (attrGet new k).isNone)]
  cases h : attrGet new key <;> simp

theorem createCooler_cases {fs : FS} {f : String} {p : Path} {mode : Mode} {c : Nat} {fs' : FS} {oc : Outcome}
    (h : createCooler fs f p mode c = (fs', oc)) :
    (fs' = fs ∧ oc ≠ .ok) ∨ ∃ fs1 hh, openFile fs f mode = .ok fs1 ∧ getFile fs1 f = some hh ∧
      ((p = [] ∧ createRoot fs1 f hh c = (fs', oc)) ∨
       (∃ x, p = p.dropLast ++ [x] ∧ createAt fs1 f hh p x c = (fs', oc))) := by
  unfold createCooler at h
  split at h
  · rename_i o ho
    left
    refine ⟨(Prod.mk.inj h).1.symm, ?_⟩
    rw [← (Prod.mk.inj h).2]
    intro hc; subst hc
    cases mode <;> simp [openFile] at ho <;> split at ho <;> simp at ho
  · rename_i fs1 ho
    split at h
    · rename_i hg
      exfalso
      cases mode <;> simp only [openFile] at ho
      · simp only [Except.ok.injEq] at ho; subst ho; rw [getFile_setFile] at hg; simp at hg
      · split at ho
        · rename_i hh hgf; simp only [Except.ok.injEq] at ho; subst ho; rw [hgf] at hg; simp at hg
        · simp only [Except.ok.injEq] at ho; subst ho; rw [getFile_setFile] at hg; simp at hg
      · split at ho
        · rename_i hh hgf; simp only [Except.ok.injEq] at ho; subst ho; rw [hgf] at hg; simp at hg
        · simp at ho
    · rename_i hh hg
      right
      refine ⟨fs1, hh, ho, hg, ?_⟩
      split at h
      · rename_i hx
        left
        refine ⟨?_, h⟩
        cases p with
        | nil => rfl
        | cons a p => simp at hx
      · rename_i x hx
        exact Or.inr ⟨x, dropLast_append_getLast hx, h⟩

theorem createAt_ok {fs1 : FS} {f : String} {hh : H5File} {p : Path} {x : String} {c : Nat} {fs' : FS}
    (h : createAt fs1 f hh p x c = (fs', .ok)) :
    ∃ h1 P, mkdirP fs1 f hh [] p.dropLast = .ok (h1, P) ∧
      fs' = setFile fs1 f ⟨putRegion h1.entries (P ++ [x]) (coolerRegion h1.next c), h1.next + 5⟩ := by
  unfold createAt at h
  split at h
  · rename_i o hm
    exfalso
    have h2 := (Prod.mk.inj h).2
    subst h2
    -- mkdirP never fails with `.ok` (same argument as in `placeAt_ok`)
    have : ∀ (q : List String) (h : H5File) (cur : Path), mkdirP fs1 f h cur q ≠ .error .ok := by
      intro q
      induction q with
      | nil => intro h cur; simp [mkdirP]
      | cons y rest ih =>
        intro h cur
        rw [mkdirP]
        cases hl : lookupK h.entries (cur ++ [y]) with
        | none =>
          simp only
          by_cases hsh : sharedAt h.entries cur = true
          · simp [hsh]
          · simp only [hsh]; exact ih _ _
        | some e =>
          cases e with
          | group o a => exact ih _ _
          | dataset c => simp
          | ext g t => simp
          | soft t =>
            simp only
            cases hr : resolve fs1 f t with
            | none => simp
            | some l =>
              obtain ⟨g, Q⟩ := l
              simp only
              by_cases hgf : g = f
              · simp only [hgf, if_true]
                cases hq : lookupK h.entries Q with
                | none => simp
                | some eq => cases eq <;> simp <;> exact ih _ _
              · simp [hgf]
    exact this _ _ _ hm
  · rename_i h1 P hm
    split at h
    · simp at h
    · split at h
      · simp at h
      · exact ⟨h1, P, hm, (Prod.mk.inj h).1.symm⟩

/-- **create_append_frame** (group path other than `/`, mode "a" or "r+"): every object of every
file that does not lie under the canonical target location `D` is unchanged; objects of other
files are untouched altogether. -/
theorem create_append_frame {fs : FS} (hw : WF fs) {f : String} {p : Path} {mode : Mode} {c : Nat} {fs' : FS}
    (hm : mode ≠ .w) (hp : p ≠ []) (h : createCooler fs f p mode c = (fs', .ok)) :
    OnlyFile f fs fs' ∧
    ∃ fs1 D, openFile fs f mode = .ok fs1 ∧ destOf fs1 f p = some D ∧
      ∀ g k e, lookupE fs g k = some e → ¬ (g = f ∧ under D k = true) → lookupE fs' g k = some e := by
  rcases createCooler_cases h with ⟨_, hne⟩ | ⟨fs1, hh, ho, hg, hcase⟩
  · exact absurd rfl hne
  · obtain ⟨hsub, honly, _⟩ := openFile_sub hm ho
    rcases hcase with ⟨hp0, _⟩ | ⟨x, hpx, hc⟩
    · exact absurd hp0 hp
    · obtain ⟨h1, P, hmk, rfl⟩ := createAt_ok hc
      obtain ⟨a1, _, _, _⟩ := mkdirP_spec fs1 f p.dropLast hh [] [] h1 P (sub_setFile_self hg)
        (Resolves.nil (by rw [getFile_setFile]; simp)) ((openFile_wf hw ho) f hh hg).1 hmk
      refine ⟨honly.trans (OnlyFile.setFile _ _ _), fs1, P ++ [x], ho, ?_, ?_⟩
      · unfold destOf
        have : p.getLast? = some x := by rw [hpx]; simp
        simp [hg, this, hmk]
      · intro g k e hk hnot
        have hk1 := hsub.2 _ _ _ hk
        rw [lookupE_setFile]
        by_cases e' : f = g
        · subst e'
          simp only [if_true]
          have hu : under (P ++ [x]) k = false := by
            cases hc' : under (P ++ [x]) k with
            | false => rfl
            | true => exact absurd ⟨rfl, hc'⟩ hnot
          rw [lookupK_putRegion_off _ _ _ _ hu]
          unfold lookupE at hk1; rw [hg] at hk1
          exact a1 _ _ hk1
        · simp [e', hk1]

/-! ### a decidable check of relative well-formedness for concrete regions -/

def isGroupB : Entry → Bool
  | .group _ _ => true
  | _ => false

def shapeOf (es : Entries) : List (Path × Bool) := es.map (fun p => (p.1, isGroupB p.2))

def lookupS : List (Path × Bool) → Path → Option Bool
  | [], _ => none
  | (k', b) :: s, k => if k' = k then some b else lookupS s k

theorem lookupS_shape (es : Entries) (k : Path) : lookupS (shapeOf es) k = (lookupK es k).map isGroupB := by
  induction es with
  | nil => rfl
  | cons p es ih =>
    obtain ⟨k', e⟩ := p
    simp only [shapeOf, List.map_cons, lookupS, lookupK]
    split
    · simp
    · exact ih

def properPrefixes (k : Path) : List Path := (List.range k.length).map k.take

def relWFb (s : List (Path × Bool)) : Bool :=
  s.all (fun p => (properPrefixes p.1).all (fun q => lookupS s q == some true))

theorem lookupK_mem {es : Entries} {k : Path} {e : Entry} (h : lookupK es k = some e) : (k, e) ∈ es := by
  induction es with
  | nil => simp [lookupK] at h
  | cons p es ih =>
    obtain ⟨k', e'⟩ := p
    simp only [lookupK] at h
    split at h
    · rename_i hk; simp at h; subst hk; subst h; simp
    · exact List.mem_cons_of_mem _ (ih h)

theorem relWFb_sound {es : Entries} (h : relWFb (shapeOf es) = true) : RelWF es := by
  intro r e hr q hq hne
  have hmem : (r, isGroupB e) ∈ shapeOf es := by
    unfold shapeOf
    exact List.mem_map.2 ⟨(r, e), lookupK_mem hr, rfl⟩
  unfold relWFb at h
  rw [List.all_eq_true] at h
  have h1 := h _ hmem
  rw [List.all_eq_true] at h1
  obtain ⟨s, hs⟩ := (under_iff _ _).1 hq
  have hlen : q.length < r.length := by
    rw [hs]
    have : s ≠ [] := by
      intro h0; subst h0; simp at hs; exact hne hs.symm
    have : 0 < s.length := List.length_pos_iff.mpr this
    simp; omega
  have hq' : q ∈ properPrefixes r := by
    unfold properPrefixes
    refine List.mem_map.2 ⟨q.length, List.mem_range.2 hlen, ?_⟩
    rw [hs]; simp
  have h2 := h1 q hq'
  simp only [beq_iff_eq] at h2
  rw [lookupS_shape] at h2
  cases hk : lookupK es q with
  | none => simp [hk] at h2
  | some e' =>
    cases e' with
    | group o a => exact ⟨o, a, rfl⟩
    | dataset c => simp [hk, isGroupB] at h2
    | soft t => simp [hk, isGroupB] at h2
    | ext g t => simp [hk, isGroupB] at h2

theorem relWF_coolerRegion (o c : Nat) : RelWF (coolerRegion o c) := by
  apply relWFb_sound
  have : shapeOf (coolerRegion o c) = shapeOf (coolerRegion 0 0) := rfl
  rw [this]
  decide

theorem relWF_parts (o c : Nat) : ∀ part ∈ payloadParts o c, RelWF part.2 := by
  intro part hp
  simp only [payloadParts, List.mem_cons, List.not_mem_nil, or_false] at hp
  rcases hp with rfl | rfl | rfl | rfl <;>
    (apply relWFb_sound; simp only [shapeOf, List.map_cons, List.map_nil, isGroupB]; decide)

theorem createRoot_ok {fs1 : FS} {f : String} {hh : H5File} {c : Nat} {fs' : FS}
    (h : createRoot fs1 f hh c = (fs', .ok)) :
    ∃ o a, lookupK hh.entries [] = some (.group o a) ∧
      fs' = setFile fs1 f ⟨setEntry (rootParts hh.entries hh.next c) [] (.group o (attrsUpdate a (infoAttrs c))), hh.next + 5⟩ := by
  unfold createRoot at h
  split at h
  · rename_i o a hl
    split at h
    · simp at h
    · exact ⟨o, a, hl, (Prod.mk.inj h).1.symm⟩
  · simp at h

theorem wf_rootParts {hh : H5File} (hw : WFFile hh) (o c nx : Nat) : WFFile ⟨rootParts hh.entries o c, nx⟩ := by
  have hp := relWF_parts o c
  simp only [payloadParts, List.mem_cons, List.not_mem_nil, or_false, forall_eq_or_imp, forall_eq] at hp
  obtain ⟨p1, p2, p3, p4⟩ := hp
  simp only [rootParts, payloadParts, List.foldl_cons, List.foldl_nil]
  have w1 := wf_putRegion (P := []) (x := "bins") (nx := 0) hw hw.1 p1
  have w2 := wf_putRegion (P := []) (x := "chroms") (nx := 0) w1 w1.1 p2
  have w3 := wf_putRegion (P := []) (x := "indexes") (nx := 0) w2 w2.1 p3
  exact wf_putRegion (P := []) (x := "pixels") (nx := nx) w3 w3.1 p4

/-- `create` keeps the file system well-formed -/
theorem createCooler_wf {fs : FS} (hw : WF fs) {f : String} {p : Path} {mode : Mode} {c : Nat} {fs' : FS} {oc : Outcome}
    (h : createCooler fs f p mode c = (fs', oc)) : WF fs' := by
  rcases createCooler_cases h with ⟨rfl, _⟩ | ⟨fs1, hh, ho, hg, hcase⟩
  · exact hw
  · have hw1 := openFile_wf hw ho
    have hwh := hw1 f hh hg
    rcases hcase with ⟨_, hc⟩ | ⟨x, _, hc⟩
    · by_cases hoc : oc = .ok
      · subst hoc
        obtain ⟨o, a, hl, rfl⟩ := createRoot_ok hc
        apply wf_setFile hw1
        have := wf_rootParts hwh hh.next c (hh.next + 5)
        refine wf_setEntry_group (h := ⟨rootParts hh.entries hh.next c, hh.next + 5⟩) this ?_
        intro q hq hne
        cases q with
        | nil => exact absurd rfl hne
        | cons a q => simp [under] at hq
      · unfold createRoot at hc
        split at hc
        · split at hc
          · rw [← (Prod.mk.inj hc).1]; exact hw1
          · exact absurd (Prod.mk.inj hc).2.symm hoc
        · rw [← (Prod.mk.inj hc).1]; exact hw1
    · by_cases hoc : oc = .ok
      · subst hoc
        obtain ⟨h1, P, hmk, rfl⟩ := createAt_ok hc
        have hw1' := mkdirP_wf fs1 f _ hh [] h1 P hwh hwh.1 hmk
        obtain ⟨_, _, _, a4⟩ := mkdirP_spec fs1 f p.dropLast hh [] [] h1 P (sub_setFile_self hg)
          (Resolves.nil (by rw [getFile_setFile]; simp)) hwh.1 hmk
        exact wf_setFile hw1 (wf_putRegion hw1' a4 (relWF_coolerRegion _ _))
      · unfold createAt at hc
        split at hc
        · rw [← (Prod.mk.inj hc).1]; exact hw1
        · split at hc
          · rw [← (Prod.mk.inj hc).1]; exact hw1
          · split at hc
            · rw [← (Prod.mk.inj hc).1]; exact hw1
            · exact absurd (Prod.mk.inj hc).2.symm hoc

/-- **create_append_frame at the root** (mode "a" or "r+"): `create("file")` rewrites the root's
four data groups and updates its attributes; every other object of the file — every other
collection — is unchanged, and every attribute `create` does not write keeps its value. -/
theorem create_root_append_frame {fs : FS} {f : String} {mode : Mode} {c : Nat} {fs' : FS}
    (hm : mode ≠ .w) (h : createCooler fs f [] mode c = (fs', .ok)) :
    OnlyFile f fs fs' ∧
    (∀ g k e, lookupE fs g k = some e → ¬ (g = f ∧ (k = [] ∨ rootPayloadKey k = true)) → lookupE fs' g k = some e) ∧
    (∀ o a, lookupE fs f [] = some (.group o a) →
      ∃ a', lookupE fs' f [] = some (.group o a') ∧
        ∀ key, attrGet (infoAttrs c) key = none → attrGet a' key = attrGet a key) := by
  rcases createCooler_cases h with ⟨_, hne⟩ | ⟨fs1, hh, ho, hg, hcase⟩
  · exact absurd rfl hne
  · obtain ⟨hsub, honly, _⟩ := openFile_sub hm ho
    rcases hcase with ⟨_, hc⟩ | ⟨x, hpx, _⟩
    · obtain ⟨o, a, hl, rfl⟩ := createRoot_ok hc
      refine ⟨honly.trans (OnlyFile.setFile _ _ _), ?_, ?_⟩
      · intro g k e hk hnot
        have hk1 := hsub.2 _ _ _ hk
        rw [lookupE_setFile]
        by_cases e' : f = g
        · subst e'
          simp only [if_true, lookupK_setEntry]
          have hk0 : ¬ ([] : Path) = k := fun h0 => hnot ⟨rfl, Or.inl h0.symm⟩
          simp only [hk0, if_false]
          have hpk : rootPayloadKey k = false := by
            cases hc' : rootPayloadKey k with
            | false => rfl
            | true => exact absurd ⟨rfl, Or.inr hc'⟩ hnot
          simp only [rootPayloadKey, Bool.or_eq_false_iff] at hpk
          rw [lookupK_rootParts _ _ _ _ ⟨hpk.1.1.1, hpk.1.1.2, hpk.1.2, hpk.2⟩]
          unfold lookupE at hk1; rw [hg] at hk1; exact hk1
        · simp [e', hk1]
      · intro o' a' hroot
        have h1 := hsub.2 _ _ _ hroot
        unfold lookupE at h1; rw [hg] at h1
        simp only at h1
        rw [hl] at h1
        simp only [Option.some.injEq, Entry.group.injEq] at h1
        obtain ⟨rfl, rfl⟩ := h1
        refine ⟨attrsUpdate a (infoAttrs c), by rw [lookupE_setFile_same]; simp [lookupK_setEntry], ?_⟩
        intro key hkey
        rw [attrGet_update, hkey]; simp
    · simp at hpx

/-- **recreate_replaces**: creating at a group path `p ≠ /` (any mode; occupied or not) leaves under
the canonical target location `D` exactly the new collection — every object an older
collection had there (nested collections included) is gone — and that location reads `c`. -/
theorem recreate_replaces {fs : FS} {f : String} {p : Path} {mode : Mode} {c : Nat} {fs' : FS}
    (hp : p ≠ []) (h : createCooler fs f p mode c = (fs', .ok)) :
    ∃ fs1 D o, openFile fs f mode = .ok fs1 ∧ destOf fs1 f p = some D ∧
      (∀ r, lookupE fs' f (D ++ r) = lookupK (coolerRegion o c) r) ∧ ReadsAt fs' (f, D) c := by
  rcases createCooler_cases h with ⟨_, hne⟩ | ⟨fs1, hh, ho, hg, hcase⟩
  · exact absurd rfl hne
  · rcases hcase with ⟨hp0, _⟩ | ⟨x, hpx, hc⟩
    · exact absurd hp0 hp
    · obtain ⟨h1, P, hmk, rfl⟩ := createAt_ok hc
      have hlk : ∀ r, lookupE (setFile fs1 f ⟨putRegion h1.entries (P ++ [x]) (coolerRegion h1.next c), h1.next + 5⟩) f
          (P ++ [x] ++ r) = lookupK (coolerRegion h1.next c) r := by
        intro r; rw [lookupE_setFile_same, lookupK_putRegion_under]
      refine ⟨fs1, P ++ [x], h1.next, ho, ?_, hlk, ?_, ⟨h1.next + 4, [], ?_⟩, ?_⟩
      · unfold destOf
        have : p.getLast? = some x := by rw [hpx]; simp
        simp [hg, this, hmk]
      · have := hlk []
        simp only [List.append_nil] at this
        simp only; rw [this]
        simp [coolerRegion, lookupK, coolerEntry, fmtOK, infoAttrs, attrGet]
      · simp only; rw [hlk]
        simp [coolerRegion, payloadParts, lookupK]
      · simp only; rw [hlk]
        simp [coolerRegion, payloadParts, lookupK]

/-- mode "w" is truncation followed by append-mode creation -/
theorem create_w_eq {fs : FS} {f : String} {p : Path} {c : Nat} :
    createCooler fs f p .w c = createCooler (setFile fs f emptyFile) f p .a c := by
  unfold createCooler
  simp [openFile, getFile_setFile]

/-- **create_w_replaces**: after a successful creation in mode "w" no other file is touched and the
file holds the new collection and nothing of its previous content: every object in it lies
under the canonical target `D` (where it is the new collection, see `recreate_replaces`) or is an
empty group without attributes (the root, the parents of the target). -/
theorem create_w_replaces {fs : FS} {f : String} {p : Path} {c : Nat} {fs' : FS}
    (hp : p ≠ []) (h : createCooler fs f p .w c = (fs', .ok)) :
    OnlyFile f fs fs' ∧ ∃ D o, destOf (setFile fs f emptyFile) f p = some D ∧
      (∀ r, lookupE fs' f (D ++ r) = lookupK (coolerRegion o c) r) ∧
      ∀ k e, lookupE fs' f k = some e → under D k = true ∨ ∃ o', e = .group o' [] := by
  rcases createCooler_cases h with ⟨_, hne⟩ | ⟨fs1, hh, ho, hg, hcase⟩
  · exact absurd rfl hne
  · simp only [openFile, Except.ok.injEq] at ho
    subst ho
    rw [getFile_setFile] at hg
    simp only [if_true, Option.some.injEq] at hg
    subst hg
    rcases hcase with ⟨hp0, _⟩ | ⟨x, hpx, hc⟩
    · exact absurd hp0 hp
    · obtain ⟨h1, P, hmk, rfl⟩ := createAt_ok hc
      obtain ⟨_, a2, _, _⟩ := mkdirP_spec (setFile fs f emptyFile) f p.dropLast emptyFile [] [] h1 P
        (sub_setFile_self (by rw [getFile_setFile]; simp))
        (Resolves.nil (by rw [getFile_setFile]; simp)) wf_emptyFile.1 hmk
      refine ⟨(OnlyFile.setFile _ _ _).trans (OnlyFile.setFile _ _ _), P ++ [x], h1.next, ?_, ?_, ?_⟩
      · unfold destOf
        have : p.getLast? = some x := by rw [hpx]; simp
        simp [getFile_setFile, this, hmk]
      · intro r; rw [lookupE_setFile_same, lookupK_putRegion_under]
      · intro k e hk
        rw [lookupE_setFile_same, lookupK_putRegion] at hk
        by_cases hu : under (P ++ [x]) k = true
        · exact Or.inl hu
        · simp only [hu] at hk
          right
          rcases a2 k e (by simpa using hk) with h' | ⟨_, o', rfl⟩
          · simp only [emptyFile, lookupK] at h'
            split at h'
            · simp at h'; exact ⟨0, h'.symm⟩
            · simp at h'
          · exact ⟨o', rfl⟩

/-! ### `list_exact` -/

/-- the file holds no soft or external link -/
def LinkFree (h : H5File) : Prop :=
  ∀ k e, lookupK h.entries k = some e → (∃ o a, e = .group o a) ∨ ∃ c, e = .dataset c

theorem mem_insertSorted (x y : String) (l : List String) : y ∈ insertSorted x l ↔ y = x ∨ y ∈ l := by
  induction l with
  | nil => simp [insertSorted]
  | cons z l ih =>
    simp only [insertSorted]
    split
    · simp
    · split
      · rename_i hxz; subst hxz; simp
      · simp only [List.mem_cons, ih]
        constructor
        · rintro (h | h | h)
          · exact Or.inr (Or.inl h)
          · exact Or.inl h
          · exact Or.inr (Or.inr h)
        · rintro (h | h | h)
          · exact Or.inr (Or.inl h)
          · exact Or.inl h
          · exact Or.inr (Or.inr h)

theorem mem_sortDedup (y : String) (l : List String) : y ∈ sortDedup l ↔ y ∈ l := by
  unfold sortDedup
  induction l with
  | nil => simp
  | cons x l ih => simp only [List.foldr_cons, mem_insertSorted, ih, List.mem_cons]

theorem lookupK_isSome_of_mem {es : Entries} {k : Path} {e : Entry} (h : (k, e) ∈ es) : (lookupK es k).isSome := by
  induction es with
  | nil => simp at h
  | cons p es ih =>
    obtain ⟨k', e'⟩ := p
    simp only [lookupK]
    split
    · simp
    · rename_i hk
      simp only [List.mem_cons, Prod.mk.injEq] at h
      rcases h with ⟨rfl, _⟩ | h
      · exact absurd rfl hk
      · exact ih h

theorem mem_childNames (es : Entries) (P : Path) (x : String) :
    x ∈ childNames es P ↔ (lookupK es (P ++ [x])).isSome := by
  unfold childNames
  rw [mem_sortDedup, List.mem_filterMap]
  constructor
  · rintro ⟨⟨k, e⟩, hmem, hk⟩
    simp only at hk
    cases hl : k.getLast? with
    | none => simp [hl] at hk
    | some y =>
      simp only [hl] at hk
      split at hk
      · rename_i hd
        simp only [Option.some.injEq] at hk; subst hk
        have : k = P ++ [y] := by rw [← hd]; exact dropLast_append_getLast hl
        subst this
        exact lookupK_isSome_of_mem hmem
      · simp at hk
  · intro h
    cases hl : lookupK es (P ++ [x]) with
    | none => simp [hl] at h
    | some e =>
      refine ⟨(P ++ [x], e), lookupK_mem hl, ?_⟩
      simp

theorem mem_itemPaths (p : Path) (l : List Item) : p ∈ itemPaths l ↔ Item.path p ∈ l := by
  induction l with
  | nil => simp [itemPaths]
  | cons i l ih =>
    cases i with
    | path q => simp only [itemPaths, List.mem_cons, ih, Item.path.injEq]
    | fuel => simp only [itemPaths, List.mem_cons, ih]; simp

/-- soundness and completeness of the traversal below `P` in a link-free well-formed file -/
theorem walk_linkfree {fs : FS} {f : String} {h : H5File} (hg : getFile fs f = some h)
    (hw : WFFile h) (hlf : LinkFree h) (v : Variant) (p : Path) :
    ∀ (n : Nat) (P : Path),
      (Item.path p ∈ walk fs v n f P P → under P p = true ∧ p ≠ P ∧ coolerEntry (lookupK h.entries p) = true) ∧
      (under P p = true → p ≠ P → coolerEntry (lookupK h.entries p) = true → p.length ≤ P.length + n →
        Item.path p ∈ walk fs v n f P P) := by
  intro n
  induction n with
  | zero =>
    intro P
    refine ⟨by simp [walk], ?_⟩
    intro hu hne _ hlen
    exfalso
    obtain ⟨r, rfl⟩ := (under_iff _ _).1 hu
    have : r = [] := by
      have : r.length = 0 := by simp at hlen; omega
      exact List.length_eq_zero_iff.mp this
    subst this; simp at hne
  | succ n ih =>
    intro P
    have hstep : ∀ x, Item.path p ∈ (match lookupK h.entries (P ++ [x]) with
        | none => []
        | some (.dataset _) => []
        | some (.group _ a) =>
          (if fmtOK a then [Item.path (P ++ [x])] else []) ++ walk fs v n f (P ++ [x]) (P ++ [x])
        | some (.soft t) =>
          match resolve fs f t with
          | none => []
          | some (g, Q) =>
            match lookupE fs g Q with
            | some (.group _ a) =>
              (if fmtOK a then [Item.path (P ++ [x])] else []) ++ walk fs v n g Q (P ++ [x])
            | _ => []
        | some (.ext g0 t) =>
          if g0 = f then [.fuel] else
          match resolve fs g0 t with
          | none => []
          | some (g, Q) =>
            let d := linkName fs v g0 t (P ++ [x])
            match lookupE fs g Q with
            | some (.group _ a) =>
              (if fmtOK a then [Item.path d] else []) ++ walk fs v n g Q d
            | _ => []) ↔
        ∃ o a, lookupK h.entries (P ++ [x]) = some (.group o a) ∧
          ((fmtOK a = true ∧ p = P ++ [x]) ∨ Item.path p ∈ walk fs v n f (P ++ [x]) (P ++ [x])) := by
      intro x
      cases hl : lookupK h.entries (P ++ [x]) with
      | none => simp
      | some e =>
        rcases hlf _ _ hl with ⟨o, a, rfl⟩ | ⟨c, rfl⟩
        · simp only [List.mem_append, Option.some.injEq, Entry.group.injEq]
          constructor
          · rintro (h1 | h1)
            · by_cases hf : fmtOK a = true
              · simp only [hf, if_true, List.mem_singleton, Item.path.injEq] at h1
                exact ⟨o, a, ⟨rfl, rfl⟩, Or.inl ⟨hf, h1⟩⟩
              · simp [hf] at h1
            · exact ⟨o, a, ⟨rfl, rfl⟩, Or.inr h1⟩
          · rintro ⟨o', a', ⟨rfl, rfl⟩, h1 | h1⟩
            · left; simp [h1.1, h1.2]
            · exact Or.inr h1
        · simp
    have hmem : Item.path p ∈ walk fs v (n + 1) f P P ↔
        ∃ x o a, lookupK h.entries (P ++ [x]) = some (.group o a) ∧
          ((fmtOK a = true ∧ p = P ++ [x]) ∨ Item.path p ∈ walk fs v n f (P ++ [x]) (P ++ [x])) := by
      simp only [walk, hg, List.mem_flatMap, mem_childNames]
      constructor
      · rintro ⟨x, _, hx⟩
        exact ⟨x, (hstep x).1 hx⟩
      · rintro ⟨x, o, a, hl, hx⟩
        exact ⟨x, by simp [hl], (hstep x).2 ⟨o, a, hl, hx⟩⟩
    constructor
    · intro hp
      obtain ⟨x, o, a, hl, hx⟩ := hmem.1 hp
      rcases hx with ⟨hf, rfl⟩ | hx
      · exact ⟨under_append _ _, by simp, by simp [hl, coolerEntry, hf]⟩
      · obtain ⟨h1, h2, h3⟩ := (ih (P ++ [x])).1 hx
        refine ⟨under_trans (under_append P [x]) h1, ?_, h3⟩
        intro he; subst he
        obtain ⟨r, hr⟩ := (under_iff _ _).1 h1
        have := congrArg List.length hr
        simp at this
    · intro hu hne hc hlen
      obtain ⟨r, rfl⟩ := (under_iff _ _).1 hu
      cases r with
      | nil => simp at hne
      | cons x r =>
        apply hmem.2
        have hpre : P ++ x :: r = (P ++ [x]) ++ r := by simp
        by_cases hr : r = []
        · subst hr
          obtain ⟨o, a, he, hf⟩ := coolerEntry_some hc
          exact ⟨x, o, a, he, Or.inl ⟨hf, rfl⟩⟩
        · obtain ⟨o, a, he, _⟩ := coolerEntry_some hc
          obtain ⟨o', a', hg'⟩ := hw.2 _ _ he (P ++ [x]) (by rw [hpre]; exact under_append _ _)
            (by rw [hpre]; intro h0; apply hr; simpa using h0.symm)
          refine ⟨x, o', a', hg', Or.inr ?_⟩
          apply (ih (P ++ [x])).2
          · rw [hpre]; exact under_append _ _
          · rw [hpre]; intro h0; apply hr; simpa using h0
          · exact hc
          · simp at hlen ⊢; omega

theorem foldl_max_ge {α : Type} (g : α → Nat) (l : List α) (m : Nat) :
    m ≤ l.foldl (fun m p => max m (g p)) m ∧ ∀ a ∈ l, g a ≤ l.foldl (fun m p => max m (g p)) m := by
  induction l generalizing m with
  | nil => simp
  | cons b l ih =>
    simp only [List.foldl_cons, List.mem_cons, forall_eq_or_imp]
    obtain ⟨h1, h2⟩ := ih (max m (g b))
    exact ⟨by omega, by omega, h2⟩

theorem getFile_mem {fs : FS} {f : String} {h : H5File} (hg : getFile fs f = some h) : (f, h) ∈ fs := by
  induction fs with
  | nil => simp [getFile] at hg
  | cons p fs ih =>
    obtain ⟨g', h'⟩ := p
    simp only [getFile] at hg
    split at hg
    · rename_i hk; simp at hg; subst hk; subst hg; simp
    · exact List.mem_cons_of_mem _ (ih hg)

theorem walkFuel_ge {fs : FS} {f : String} {h : H5File} (hg : getFile fs f = some h) {k : Path} {e : Entry}
    (hk : lookupK h.entries k = some e) : k.length ≤ walkFuel fs := by
  have h1 : k.length ≤ maxKeyLen h.entries := by
    unfold maxKeyLen
    exact (foldl_max_ge (fun p : Path × Entry => p.1.length) h.entries 0).2 _ (lookupK_mem hk)
  have h2 : maxKeyLen h.entries ≤ fs.foldl (fun m p => max m (maxKeyLen p.2.entries)) 0 :=
    (foldl_max_ge (fun p : String × H5File => maxKeyLen p.2.entries) fs 0).2 _ (getFile_mem hg)
  unfold walkFuel
  omega

/-- in a link-free well-formed file a path resolves to itself iff it is stored -/
theorem resolveN_linkfree {fs : FS} {f : String} {h : H5File} (hg : getFile fs f = some h)
    (hw : WFFile h) (hlf : LinkFree h) (n : Nat) :
    ∀ p : Path, resolveN fs n f p = if (lookupK h.entries p).isSome then some (f, p) else none := by
  intro p
  induction p using list_rev_induction with
  | nil =>
    rw [resolveN_nil]; unfold start; rw [hg]
    obtain ⟨o, a, hr⟩ := hw.1
    simp [hr]
  | snoc k x ih =>
    rw [resolveN_snoc, ih]
    cases hl : lookupK h.entries (k ++ [x]) with
    | none =>
      simp only [Option.isSome_none, Bool.false_eq_true, if_false]
      split
      · simp [stepWith, lookupE, hg, hl]
      · rfl
    | some e =>
      obtain ⟨o, a, hk⟩ := hw.2 _ _ hl k (under_append _ _) (by simp)
      simp only [hk, Option.isSome_some, if_true]
      rcases hlf _ _ hl with ⟨o', a', rfl⟩ | ⟨c, rfl⟩ <;> simp [stepWith, lookupE, hg, hl]

/-- **list_exact**: in a well-formed file without soft or external links, `list_coolers` names
exactly the paths `is_cooler` recognises. (With an external link the code as it is lists the
target's internal name instead: `d5_counterexample`.) -/
theorem list_exact {fs : FS} {f : String} {h : H5File} (hg : getFile fs f = some h)
    (hw : WFFile h) (hlf : LinkFree h) (p : Path) :
    p ∈ listCoolers fs f ↔ isCooler fs f p = true := by
  have his : isCooler fs f p = coolerEntry (lookupK h.entries p) := by
    unfold isCooler isCoolerSpec isCoolerN
    rw [resolveN_linkfree hg hw hlf]
    cases hl : lookupK h.entries p with
    | none => simp [coolerEntry]
    | some e => simp [isCoolerAt, lookupE, hg, hl]
  rw [his]
  unfold listCoolers listItems
  rw [mem_itemPaths, List.mem_append]
  have hwalk := walk_linkfree hg hw hlf Variant.spec p (walkFuel fs) []
  constructor
  · rintro (h1 | h1)
    · split at h1
      · rename_i hc
        simp only [List.mem_singleton, Item.path.injEq] at h1
        subst h1
        simpa [lookupE, hg] using hc
      · simp at h1
    · exact (hwalk.1 h1).2.2
  · intro hc
    by_cases hp : p = []
    · subst hp
      left
      have : coolerEntry (lookupE fs f []) = true := by simpa [lookupE, hg] using hc
      simp [this]
    · right
      obtain ⟨o, a, he, _⟩ := coolerEntry_some hc
      exact hwalk.2 (by simp [under]) hp hc (by simpa using walkFuel_ge hg he)

/-- `is_cooler` never fails: it is a total Boolean function; it answers `false` for a file that does
not exist, for a path that does not resolve (missing, or through a link that does not
resolve) and for a dataset. -/
theorem isCooler_total (fs : FS) (f : String) (p : Path) :
    (getFile fs f = none → isCooler fs f p = false) ∧
    (resolve fs f p = none → isCooler fs f p = false) ∧
    (∀ g P c, resolve fs f p = some (g, P) → lookupE fs g P = some (.dataset c) → isCooler fs f p = false) := by
  refine ⟨?_, ?_, ?_⟩
  · intro hg
    unfold isCooler isCoolerSpec isCoolerN
    have : resolveN fs LINKFUEL f p = none := by
      rw [resolveN_eq]; unfold start; rw [hg]; exact foldl_stepWith_none _ _ _
    rw [this]
  · intro hr
    unfold isCooler isCoolerSpec isCoolerN
    unfold resolve at hr
    rw [hr]
  · intro g P c hr hd
    unfold isCooler isCoolerSpec isCoolerN
    unfold resolve at hr
    rw [hr]
    simp [isCoolerAt, hd, coolerEntry]

/-! ### the root-destination special case: `copyChildren` -/

/-- a resolved location is a stored group or dataset -/
theorem resolveN_present {fs : FS} (hw : WF fs) :
    ∀ (n : Nat) (f : String) (p : Path) (g : String) (P : Path), resolveN fs n f p = some (g, P) →
      ∃ e, lookupE fs g P = some e ∧ ((∃ o a, e = .group o a) ∨ ∃ c, e = .dataset c) := by
  have key : ∀ (F : String → Path → Option Loc),
      (∀ g t g' P', F g t = some (g', P') →
        ∃ e, lookupE fs g' P' = some e ∧ ((∃ o a, e = .group o a) ∨ ∃ c, e = .dataset c)) →
      ∀ (p : Path) (acc : Option Loc),
        (∀ g P, acc = some (g, P) → ∃ e, lookupE fs g P = some e ∧ ((∃ o a, e = .group o a) ∨ ∃ c, e = .dataset c)) →
        ∀ g P, p.foldl (stepWith fs F) acc = some (g, P) →
          ∃ e, lookupE fs g P = some e ∧ ((∃ o a, e = .group o a) ∨ ∃ c, e = .dataset c) := by
    intro F hF p
    induction p with
    | nil => intro acc hacc g P h; exact hacc g P h
    | cons x p ih =>
      intro acc hacc g P h
      simp only [List.foldl_cons] at h
      refine ih _ ?_ g P h
      intro g1 P1 hs
      unfold stepWith at hs
      cases acc with
      | none => simp at hs
      | some a0 =>
        obtain ⟨f0, P0⟩ := a0
        simp only at hs
        cases hl : lookupE fs f0 (P0 ++ [x]) with
        | none => simp [hl] at hs
        | some e =>
          rw [hl] at hs
          cases e with
          | group o a =>
            simp only [Option.some.injEq, Prod.mk.injEq] at hs
            obtain ⟨rfl, rfl⟩ := hs
            exact ⟨_, hl, Or.inl ⟨_, _, rfl⟩⟩
          | dataset c =>
            simp only [Option.some.injEq, Prod.mk.injEq] at hs
            obtain ⟨rfl, rfl⟩ := hs
            exact ⟨_, hl, Or.inr ⟨_, rfl⟩⟩
          | soft t => exact hF _ _ _ _ hs
          | ext g' t => exact hF _ _ _ _ hs
  have hstart : ∀ f g P, start fs f = some (g, P) →
      ∃ e, lookupE fs g P = some e ∧ ((∃ o a, e = .group o a) ∨ ∃ c, e = .dataset c) := by
    intro f g P hs
    unfold start at hs
    cases hg : getFile fs f with
    | none => simp [hg] at hs
    | some hh =>
      simp only [hg, Option.some.injEq, Prod.mk.injEq] at hs
      obtain ⟨rfl, rfl⟩ := hs
      obtain ⟨o, a, hr⟩ := (hw f hh hg).1
      exact ⟨_, by unfold lookupE; rw [hg]; exact hr, Or.inl ⟨_, _, rfl⟩⟩
  intro n
  induction n with
  | zero =>
    intro f p g P h
    rw [resolveN_eq] at h
    exact key _ (by intro g t g' P' hh; simp [followN] at hh) p _ (hstart f) g P h
  | succ n ih =>
    intro f p g P h
    rw [resolveN_eq] at h
    exact key _ (fun g t g' P' hh => ih g t g' P' hh) p _ (hstart f) g P h

theorem under_single (x : String) (k : Path) : under [x] k = true ↔ ∃ r, k = x :: r := by
  rw [under_iff]; simp

theorem copyChildren_spec {fs : FS} (hw : WF fs) (g : String) (S : Path) (df : String) :
    ∀ (cs : List String) (h h1 : H5File) (oc : Outcome), WFFile h →
      copyChildren fs g S df h cs = (h1, oc) →
      WFFile h1 ∧ SubE h h1 ∧
      (oc = .ok →
        (∀ x ∈ cs, lookupK h.entries [x] = none) ∧
        (∀ k, (∀ x ∈ cs, under [x] k = false) → lookupK h1.entries k = lookupK h.entries k) ∧
        (∀ x ∈ cs, ∃ g' Q hs d h', resolve (setFile fs df h') g (S ++ [x]) = some (g', Q) ∧ g' ≠ df ∧
          getFile fs g' = some hs ∧
          ∀ r, lookupK h1.entries (x :: r) = (lookupK hs.entries (Q ++ r)).map (Entry.shift d))) := by
  intro cs
  induction cs with
  | nil =>
    intro h h1 oc hwh hc
    simp only [copyChildren, Prod.mk.injEq] at hc
    obtain ⟨rfl, rfl⟩ := hc
    exact ⟨hwh, fun _ _ hk => hk, fun _ => ⟨by simp, fun _ _ => rfl, by simp⟩⟩
  | cons x rest ih =>
    intro h h1 oc hwh hc
    rw [copyChildren] at hc
    cases hl : lookupK h.entries [x] with
    | some e =>
      simp only [hl, Prod.mk.injEq] at hc
      obtain ⟨rfl, rfl⟩ := hc
      exact ⟨hwh, fun _ _ hk => hk, by simp⟩
    | none =>
      simp only [hl] at hc
      cases hr : resolve (setFile fs df h) g (S ++ [x]) with
      | none =>
        simp only [hr, Prod.mk.injEq] at hc
        obtain ⟨rfl, rfl⟩ := hc
        exact ⟨hwh, fun _ _ hk => hk, by simp⟩
      | some l =>
        obtain ⟨g', Q⟩ := l
        simp only [hr] at hc
        by_cases hgd : g' = df
        · simp only [hgd, if_true, Prod.mk.injEq] at hc
          obtain ⟨rfl, rfl⟩ := hc
          exact ⟨hwh, fun _ _ hk => hk, by simp⟩
        · simp only [hgd, if_false] at hc
          cases hgs : getFile fs g' with
          | none =>
            simp only [hgs, Prod.mk.injEq] at hc
            obtain ⟨rfl, rfl⟩ := hc
            exact ⟨hwh, fun _ _ hk => hk, by simp⟩
          | some hs =>
            simp only [hgs] at hc
            -- the file after copying child `x`
            have hrel : RelWF (shiftOids h.next (getRegion hs.entries Q)) :=
              relWF_shift _ (relWF_getRegion (hw g' hs hgs) Q)
            have hw' : WFFile ⟨putRegion h.entries ([] ++ [x]) (shiftOids h.next (getRegion hs.entries Q)), h.next + hs.next⟩ :=
              wf_putRegion hwh hwh.1 hrel
            simp only [List.nil_append] at hw'
            have hsub' : SubE h ⟨putRegion h.entries [x] (shiftOids h.next (getRegion hs.entries Q)), h.next + hs.next⟩ := by
              intro k e hk
              simp only [lookupK_putRegion]
              by_cases hu : under [x] k = true
              · rw [wf_absent_under hwh hl hu] at hk; simp at hk
              · simp [hu, hk]
            obtain ⟨b1, b2, b3⟩ := ih _ h1 oc hw' hc
            refine ⟨b1, fun k e hk => b2 k e (hsub' k e hk), ?_⟩
            intro hoc
            obtain ⟨c1, c2, c3⟩ := b3 hoc
            -- the copied child's own entry is present, so `x` does not occur again
            obtain ⟨e0, he0, _⟩ := resolveN_present (wf_setFile hw hwh) _ _ _ _ _ hr
            rw [lookupE_setFile_other _ _ _ _ _ hgd] at he0
            have hxroot : (lookupK (putRegion h.entries [x] (shiftOids h.next (getRegion hs.entries Q))) [x]).isSome := by
              have := lookupK_putRegion_under h.entries [x] (shiftOids h.next (getRegion hs.entries Q)) []
              simp only [List.append_nil] at this
              rw [this, lookupK_shiftOids, lookupK_getRegion]
              unfold lookupE at he0; rw [hgs] at he0
              simp only [List.append_nil]; simp at he0; simp [he0]
            have hxrest : x ∉ rest := by
              intro hx
              have := c1 x hx
              simp only at this
              rw [this] at hxroot; simp at hxroot
            refine ⟨?_, ?_, ?_⟩
            · intro y hy
              simp only [List.mem_cons] at hy
              rcases hy with rfl | hy
              · exact hl
              · have := c1 y hy
                simp only [lookupK_putRegion] at this
                by_cases hu : under [x] [y] = true
                · obtain ⟨r, hr'⟩ := (under_single x [y]).1 hu
                  simp only [List.cons.injEq] at hr'
                  exact absurd (hr'.1 ▸ hy) hxrest
                · simpa [hu] using this
            · intro k hk
              have hkx : under [x] k = false := hk x (by simp)
              rw [c2 k (fun y hy => hk y (List.mem_cons_of_mem _ hy))]
              simp only [lookupK_putRegion, hkx]; simp
            · intro y hy
              simp only [List.mem_cons] at hy
              rcases hy with rfl | hy
              · refine ⟨g', Q, hs, h.next, h, hr, hgd, hgs, fun r => ?_⟩
                have hoff : ∀ z ∈ rest, under [z] (y :: r) = false := by
                  intro z hz
                  cases hc' : under [z] (y :: r) with
                  | false => rfl
                  | true =>
                    obtain ⟨r', hr'⟩ := (under_single z (y :: r)).1 hc'
                    simp only [List.cons.injEq] at hr'
                    exact absurd (hr'.1 ▸ hz) hxrest
                rw [c2 _ hoff]
                have := lookupK_putRegion_under h.entries [y] (shiftOids h.next (getRegion hs.entries Q)) r
                simp only [List.singleton_append] at this
                rw [this, lookupK_shiftOids, lookupK_getRegion]
              · exact c3 y hy

theorem copyToRoot_ok {fs1 : FS} {g : String} {S : Path} {df : String} {fs' : FS}
    (h : copyToRoot fs1 g S df = (fs', .ok)) :
    g ≠ df ∧ ∃ hs hd o a o' sattrs h1, getFile fs1 g = some hs ∧ getFile fs1 df = some hd ∧
      lookupK hs.entries S = some (.group o' sattrs) ∧ lookupK hd.entries [] = some (.group o a) ∧
      copyChildren fs1 g S df hd (childNames hs.entries S) = (h1, .ok) ∧
      fs' = setFile fs1 df ⟨setEntry h1.entries [] (.group o (attrsUpdate a sattrs)), h1.next⟩ := by
  unfold copyToRoot at h
  split at h
  · rename_i hs hd hgs hgd
    split at h
    · rename_i o' sattrs hl
      split at h
      · simp at h
      · rename_i hgne
        split at h
        · rename_i o a hroot
          split at h
          · simp at h
          · split at h
            · rename_i h1 hcc
              exact ⟨hgne, hs, hd, o, a, o', sattrs, h1, hgs, hgd, hl, hroot, hcc, (Prod.mk.inj h).1.symm⟩
            · rename_i h1 oc hne hcc
              exact absurd (Prod.mk.inj h).2 hne
        · simp at h
    · simp at h
  · simp at h

theorem copyToRoot_reads {fs1 : FS} (hw : WF fs1) {g : String} {S : Path} {df : String} {fs' : FS}
    (h : copyToRoot fs1 g S df = (fs', .ok)) {c : Nat} (hr : ReadsAt fs1 (g, S) c) : Reads fs' df [] c := by
  obtain ⟨hgne, hs, hd, o, a, o', sattrs, h1, hgs, hgd, hl, hroot, hcc, rfl⟩ := copyToRoot_ok h
  obtain ⟨_, _, hspec⟩ := copyChildren_spec hw g S df _ hd h1 .ok (hw df hd hgd) hcc
  obtain ⟨_, _, c3⟩ := hspec rfl
  obtain ⟨r1, ⟨o2, a2, r2⟩, r3⟩ := hr
  simp only at r1 r2 r3
  have hlE : lookupE fs1 g S = some (.group o' sattrs) := by unfold lookupE; rw [hgs]; exact hl
  rw [hlE] at r1
  have hfmt : fmtOK sattrs = true := by simpa [coolerEntry] using r1
  -- "pixels" is a child of the source group
  have r2' : lookupK hs.entries (S ++ ["pixels"]) = some (.group o2 a2) := by
    unfold lookupE at r2; rw [hgs] at r2; exact r2
  have hchild : "pixels" ∈ childNames hs.entries S := by
    rw [mem_childNames]; simp [r2']
  obtain ⟨g', Q, hs', d, h', hres, _, hgs', hlk⟩ := c3 "pixels" hchild
  -- … which resolves to itself
  have hgdf : g ≠ df := hgne
  have hcanon : resolveN (setFile fs1 df h') LINKFUEL g (S ++ ["pixels"]) = some (g, S ++ ["pixels"]) := by
    apply resolveN_groups (by rw [getFile_setFile]; have : ¬ df = g := fun e => hgdf e.symm; simp [this, hgs])
    intro q hq hne
    rw [lookupE_setFile_other _ _ _ _ _ hgdf]
    by_cases hqe : q = S ++ ["pixels"]
    · subst hqe; exact ⟨_, _, r2⟩
    · have hqS := prefix_of_snoc hq hqe
      by_cases hqS' : q = S
      · subst hqS'; exact ⟨_, _, hlE⟩
      · obtain ⟨oo, aa, hh⟩ := (hw g hs hgs).2 S _ hl q hqS hqS'
        exact ⟨oo, aa, by unfold lookupE; rw [hgs]; exact hh⟩
  have hloc : (g', Q) = (g, S ++ ["pixels"]) := Resolves.det ⟨LINKFUEL, hres⟩ ⟨LINKFUEL, hcanon⟩
  obtain ⟨rfl, rfl⟩ := Prod.mk.inj hloc
  rw [hgs] at hgs'
  obtain rfl := Option.some.inj hgs'
  have e1 : lookupK h1.entries ["pixels"] = some (.group (o2 + d) a2) := by
    have := hlk []
    simp only [List.append_nil] at this
    rw [this, r2']; simp [Entry.shift]
  have e2 : lookupK h1.entries ["pixels", "count"] = some (.dataset c) := by
    have := hlk ["count"]
    rw [this]
    have r3' : lookupK hs.entries (S ++ ["pixels", "count"]) = some (.dataset c) := by
      unfold lookupE at r3; rw [hgs] at r3; exact r3
    have : S ++ ["pixels"] ++ ["count"] = S ++ ["pixels", "count"] := by simp
    rw [this, r3']; simp [Entry.shift]
  rw [reads_iff]
  refine ⟨(df, []), Resolves.nil (by rw [getFile_setFile]; simp), ?_, ⟨o2 + d, a2, ?_⟩, ?_⟩
  · simp only
    rw [lookupE_setFile_same]
    simp only [lookupK_setEntry, if_true, coolerEntry, fmtOK]
    rw [attrGet_update]
    have : attrGet sattrs "format" = some MAGIC := by simpa [fmtOK] using hfmt
    simp [this]
  · simp only [List.nil_append]
    rw [lookupE_setFile_same, lookupK_setEntry]; simp [e1]
  · simp only [List.nil_append]
    rw [lookupE_setFile_same, lookupK_setEntry]; simp [e2]

/-- **copy_reads_equal, root destination** (`cp src_file::/g dst_file` with two different files; also
`mv` in the code as it is, which copies): the root of the destination file reads what the source
read. -/
theorem copy_root_reads_equal {fs : FS} (hw : WF fs) {v : Variant} {sf : String} {sp : Path} {df : String}
    {ow rename : Bool} {fs' : FS}
    (hT : ow = true → getFile fs df = none) (hne : sf ≠ df) (hmv : rename = true → v.d4 = true)
    (h : copyOp fs v sf sp df [] ow false rename false = (fs', .ok))
    {c : Nat} (hr : Reads fs sf sp c) : Reads fs' df [] c := by
  obtain ⟨_, _, hb⟩ := copyOp_opened h
  have hw1 := afterOpen_wf hw df ow
  have hr1 : Reads (afterOpen fs df ow) sf sp c := hr.mono (afterOpen_sub hT)
  simp only [hne, if_false, Bool.false_eq_true] at hb
  unfold copyCross at hb
  cases hres : resolve (afterOpen fs df ow) sf sp with
  | none => simp [hres] at hb
  | some l =>
    obtain ⟨g, S⟩ := l
    simp only [hres, if_true] at hb
    cases hd : copyToRoot (afterOpen fs df ow) g S df with
    | mk fs2 oc =>
      rw [hd] at hb
      cases oc with
      | err e => simp at hb
      | corner w => simp at hb
      | ok =>
        have hno : (rename && !v.d4) = false := by
          cases rename with
          | false => rfl
          | true => simp [hmv rfl]
        simp only [hno, Bool.false_eq_true, if_false] at hb
        have : fs2 = fs' := (Prod.mk.inj hb).1
        subst this
        exact copyToRoot_reads hw1 hd (reads_at_resolved hr1 hres)

/-! ### every operation keeps the file system well-formed, whatever its outcome -/

theorem placeAt_wf {fs : FS} (hw : WF fs) {f : String} {dp : Path} {new : H5File → Entries × Nat} {ex : ErrClass}
    {fs' : FS} {oc : Outcome} (hrel : ∀ h1, RelWF (new h1).1) (h : placeAt fs f dp new ex = (fs', oc)) : WF fs' := by
  by_cases hoc : oc = .ok
  · subst hoc
    obtain ⟨h1, _, _, _, _, _, _, _, hwf, _, _⟩ := placeAt_facts hw h
    exact hwf (hrel h1)
  · rw [placeAt_not_ok h hoc]; exact hw

theorem deepCopyTo_wf {fs1 : FS} (hw : WF fs1) {g : String} {S : Path} {df : String} {dp : Path} {fs' : FS}
    {oc : Outcome} (h : deepCopyTo fs1 g S df dp = (fs', oc)) : WF fs' := by
  unfold deepCopyTo at h
  split at h
  · rw [← (Prod.mk.inj h).1]; exact hw
  · rename_i hs hg
    split at h
    · by_cases hsoft : dstThroughSoft fs1 df dp = true
      · simp only [hsoft, if_true] at h
        rw [← (Prod.mk.inj h).1]; exact hw
      · simp only [hsoft, Bool.false_eq_true, if_false] at h
        exact placeAt_wf hw (fun h1 => relWF_shift _ (relWF_getRegion (hw g hs hg) S)) h
    · rw [← (Prod.mk.inj h).1]; exact hw

theorem unlink_wf {fs : FS} (hw : WF fs) {f : String} {p : Path} {fs' : FS} (h : unlink fs f p = .ok fs') :
    WF fs' := by
  obtain ⟨y, Ps, hh, _, _, hg, rfl⟩ := unlink_ok h
  exact wf_setFile hw (wf_removeUnder (hw f hh hg) (by simp))

theorem hardLinkSame_wf {fs1 : FS} (hw : WF fs1) {sf : String} {sp dp : Path} {rename : Bool} {fs' : FS}
    {oc : Outcome} (h : hardLinkSame fs1 sf sp dp rename = (fs', oc)) : WF fs' := by
  unfold hardLinkSame at h
  split at h
  · rw [← (Prod.mk.inj h).1]; exact hw
  · rename_i g S _
    split at h
    · rw [← (Prod.mk.inj h).1]; exact hw
    · split at h
      · rw [← (Prod.mk.inj h).1]; exact hw
      · rename_i hs hg
        have hrel : ∀ h1 : H5File, RelWF ((fun h1 : H5File => (getRegion hs.entries S, h1.next)) h1).1 :=
          fun _ => relWF_getRegion (hw g hs hg) S
        split at h
        · split at h
          · rename_i fs2 hp
            have hw2 : WF fs2 := placeAt_wf hw hrel hp
            split at h
            · split at h
              · rw [← (Prod.mk.inj h).1]; exact hw2
              · split at h
                · split at h
                  · rename_i fs3 hun
                    rw [← (Prod.mk.inj h).1]; exact unlink_wf hw2 hun
                  · rw [← (Prod.mk.inj h).1]; exact hw2
                · rw [← (Prod.mk.inj h).1]; exact hw2
            · rw [← (Prod.mk.inj h).1]; exact hw2
          · exact placeAt_wf hw hrel h
        · rw [← (Prod.mk.inj h).1]; exact hw

theorem copyToRoot_wf {fs1 : FS} (hw : WF fs1) {g : String} {S : Path} {df : String} {fs' : FS} {oc : Outcome}
    (h : copyToRoot fs1 g S df = (fs', oc)) : WF fs' := by
  unfold copyToRoot at h
  split at h
  · rename_i hs hd hgs hgd
    split at h
    · split at h
      · rw [← (Prod.mk.inj h).1]; exact hw
      · split at h
        · split at h
          · rw [← (Prod.mk.inj h).1]; exact hw
          · split at h
            · rename_i h1 hcc
              obtain ⟨hw1, _, _⟩ := copyChildren_spec hw g S df _ hd h1 .ok (hw df hd hgd) hcc
              rw [← (Prod.mk.inj h).1]
              apply wf_setFile hw
              refine wf_setEntry_group hw1 ?_
              intro q hq hne
              cases q with
              | nil => exact absurd rfl hne
              | cons a q => simp [under] at hq
            · rename_i h1 oc' _ hcc
              obtain ⟨hw1, _, _⟩ := copyChildren_spec hw g S df _ hd h1 oc' (hw df hd hgd) hcc
              rw [← (Prod.mk.inj h).1]
              exact wf_setFile hw hw1
        · rw [← (Prod.mk.inj h).1]; exact hw
    · rw [← (Prod.mk.inj h).1]; exact hw
  · rw [← (Prod.mk.inj h).1]; exact hw

theorem copyCross_wf {fs1 : FS} (hw : WF fs1) {v : Variant} {sf : String} {sp : Path} {df : String} {dp : Path}
    {rename : Bool} {fs' : FS} {oc : Outcome} (h : copyCross fs1 v sf sp df dp rename = (fs', oc)) : WF fs' := by
  unfold copyCross at h
  split at h
  · rw [← (Prod.mk.inj h).1]; exact hw
  · rename_i g S _
    have hw2 : ∀ fs2 oc2, (if dp = [] then copyToRoot fs1 g S df else deepCopyTo fs1 g S df dp) = (fs2, oc2) → WF fs2 := by
      intro fs2 oc2 h2
      split at h2
      · exact copyToRoot_wf hw h2
      · exact deepCopyTo_wf hw h2
    split at h
    · rename_i fs2 h2
      split at h
      · split at h
        · rename_i fs3 hun
          rw [← (Prod.mk.inj h).1]; exact unlink_wf (hw2 _ _ h2) hun
        · rw [← (Prod.mk.inj h).1]; exact hw2 _ _ h2
      · rw [← (Prod.mk.inj h).1]; exact hw2 _ _ h2
    · exact hw2 _ _ h

theorem copyOp_wf {fs : FS} (hw : WF fs) {v : Variant} {sf : String} {sp : Path} {df : String} {dp : Path}
    {ow link rename soft : Bool} {fs' : FS} {oc : Outcome}
    (h : copyOp fs v sf sp df dp ow link rename soft = (fs', oc)) : WF fs' := by
  have hw1 := afterOpen_wf hw df ow
  rcases copyOp_cases h with rfl | rfl | hb
  · exact hw
  · exact hw1
  · split at hb
    · split at hb
      · exact hardLinkSame_wf hw1 hb
      · split at hb
        · exact placeAt_wf hw1 (fun _ => relWF_single _) hb
        · unfold copySame at hb
          split at hb
          · rw [← (Prod.mk.inj hb).1]; exact hw1
          · exact deepCopyTo_wf hw1 hb
    · split at hb
      · rw [← (Prod.mk.inj hb).1]; exact hw1
      · split at hb
        · exact placeAt_wf hw1 (fun _ => relWF_single _) hb
        · exact copyCross_wf hw1 hb

theorem setNote_wf {fs : FS} (hw : WF fs) {f value : String} {fs' : FS} {oc : Outcome}
    (h : setNote fs f value = (fs', oc)) : WF fs' := by
  unfold setNote at h
  split at h
  · rw [← (Prod.mk.inj h).1]; exact hw
  · rename_i fs1 ho
    have hw1 := openFile_wf hw ho
    split at h
    · rw [← (Prod.mk.inj h).1]; exact hw1
    · rename_i hh hg
      split at h
      · rw [← (Prod.mk.inj h).1]
        apply wf_setFile hw1
        refine wf_setEntry_group (hw1 f hh hg) ?_
        intro q hq hne
        cases q with
        | nil => exact absurd rfl hne
        | cons a q => simp [under] at hq
      · rw [← (Prod.mk.inj h).1]; exact hw1

/-- **the invariant**: every operation, successful or not, keeps the file system well-formed … -/
theorem step_wf {fs : FS} (hw : WF fs) (v : Variant) (op : Op) : WF (step v fs op).1 := by
  cases op with
  | create f p m c => exact createCooler_wf hw (rfl : createCooler fs f p m c = (_, _))
  | cp sf sp df dp o => exact copyOp_wf hw (rfl : copyOp fs v sf sp df dp o false false false = (_, _))
  | mv sf sp df dp o => exact copyOp_wf hw (rfl : copyOp fs v sf sp df dp o false true false = (_, _))
  | ln sf sp df dp s o => exact copyOp_wf hw (rfl : copyOp fs v sf sp df dp o (!s) false s = (_, _))
  | note f x => exact setNote_wf hw (rfl : setNote fs f x = (_, _))

/-- … hence so is the state after ANY history from the empty file system (or from any well-formed
one): the theorems above apply after every history. -/
theorem run_wf (v : Variant) : ∀ (ops : List Op) (fs : FS), WF fs → WF (run v fs ops) := by
  intro ops
  induction ops with
  | nil => intro fs hw; exact hw
  | cons op ops ih =>
    intro fs hw
    simp only [run, List.foldl_cons]
    exact ih _ (step_wf hw v op)

/-! ### `mv`: frame, and the cross-file behaviour of the code as it is (finding D4) in general -/

/-- in the code as it is (`d4`), `mv` between two different files IS `cp`: the `rename` flag is
never looked at in that branch -/
theorem mv_cross_eq_cp {fs : FS} {v : Variant} (hv : v.d4 = true) {sf : String} {sp : Path} {df : String} {dp : Path}
    {ow : Bool} (hne : sf ≠ df) : mv fs v sf sp df dp ow = cp fs v sf sp df dp ow := by
  unfold mv cp copyOp
  simp [hne, copyCross, hv]

/-- **finding D4, general form**: in the code as it is, after ANY successful `mv` between two
different files that did not truncate an existing destination file, the source still reads what
it read before (and so does the destination: `copy_reads_equal` applies through `mv_cross_eq_cp`). -/
theorem mv_cross_file_keeps_source {fs : FS} (hw : WF fs) {v : Variant} (hv : v.d4 = true) {sf : String} {sp : Path}
    {df : String} {dp : Path} {ow : Bool} {fs' : FS} (hne : sf ≠ df) (hdp : dp ≠ [])
    (hT : ow = true → getFile fs df = none)
    (h : mv fs v sf sp df dp ow = (fs', .ok)) {c : Nat} (hr : Reads fs sf sp c) :
    Reads fs' sf sp c ∧ Reads fs' df dp c := by
  rw [mv_cross_eq_cp hv hne] at h
  unfold cp at h
  exact ⟨((copy_frame hw (fun _ => hdp) h).2 hT).2 _ _ _ hr, copy_reads_equal hw hT (fun _ => hdp) h hr⟩

/-- **copy_frame for `mv` inside one file**: apart from what lies under the source link's canonical
location `L` (which is removed) every object that existed is still there, unchanged; no other
file is touched. -/
theorem mv_frame {fs : FS} (hw : WF fs) {v : Variant} {sf : String} {sp dp : Path} {ow : Bool} {fs' : FS}
    (h : mv fs v sf sp sf dp ow = (fs', .ok)) :
    OnlyFile sf fs fs' ∧ ∃ L, (∀ r, lookupE fs' sf (L ++ r) = none) ∧
      ∀ g k e, lookupE fs g k = some e → ¬ (g = sf ∧ under L k = true) → lookupE fs' g k = some e := by
  unfold mv at h
  obtain ⟨hfile, hnw, hb⟩ := copyOp_opened h
  simp only [if_true, Bool.or_true] at hb
  have hfs1 : afterOpen fs sf ow = fs := by
    unfold afterOpen
    have : ¬ (((getFile fs sf).isNone || ow) = true) := fun hc => hnw ⟨hc, rfl⟩
    simp [this]
  rw [hfs1] at hb
  obtain ⟨S, hs, fs2, D, _, _, _, hp, _, _, hun⟩ := hardLinkSame_ok hb
  simp only [if_true] at hun
  have hsub := placeAt_sub hw hp
  have honly := placeAt_only hp
  obtain ⟨y, Ps, hh, _, _, hg2, rfl⟩ := unlink_ok hun
  refine ⟨honly.trans (OnlyFile.setFile _ _ _), Ps ++ [y], ?_, ?_⟩
  · intro r
    rw [lookupE_setFile_same, lookupK_removeUnder, under_append]; rfl
  · intro g k e hk hnot
    have hk2 := hsub.2 _ _ _ hk
    rw [lookupE_setFile]
    by_cases e' : sf = g
    · subst e'
      simp only [if_true, lookupK_removeUnder]
      have hu : under (Ps ++ [y]) k = false := by
        cases hc : under (Ps ++ [y]) k with
        | false => rfl
        | true => exact absurd ⟨rfl, hc⟩ hnot
      simp only [hu]
      unfold lookupE at hk2; rw [hg2] at hk2; simpa using hk2
    · simp [e', hk2]

/-! ### the code as it is: findings D4 and D5, machine-checked on concrete histories -/

/-- one collection (content 7) at `/x/y` of file `A` -/
def fsOne : FS := run Variant.spec [] [.create "A" ["x", "y"] .a 7]

/-- the specification: after `mv A::/x/y B::/m` the source is gone and `B::/m` reads 7 … -/
theorem d4_spec_example :
    let r := mv fsOne Variant.spec "A" ["x", "y"] "B" ["m"] false
    r.2 = .ok ∧ readCollection r.1 "B" ["m"] = some 7 ∧ isCooler r.1 "A" ["x", "y"] = false := by
  decide

/-- … the code as it is copies and leaves the source: **finding D4** -/
theorem d4_counterexample :
    let r := mv fsOne Variant.current "A" ["x", "y"] "B" ["m"] false
    r.2 = .ok ∧ readCollection r.1 "B" ["m"] = some 7 ∧
      isCooler r.1 "A" ["x", "y"] = true ∧ readCollection r.1 "A" ["x", "y"] = some 7 := by
  decide

theorem wf_nil : WF [] := by
  intro f h hg
  exact absurd hg (by simp [getFile])

/-- hence the full statement `mv_source_gone` fails for the code as it is -/
theorem mv_source_gone_current_false : ¬ mv_source_gone_Statement Variant.current := by
  intro h
  have hw : WF fsOne :=
    createCooler_wf (fs := []) (f := "A") (p := ["x", "y"]) (mode := .a) (c := 7) wf_nil rfl
  have := h fsOne "A" ["x", "y"] "B" ["m"] false
    (mv fsOne Variant.current "A" ["x", "y"] "B" ["m"] false).1 hw (by decide) ("A", ["x", "y"])
  exact this ⟨0, by decide⟩

/-- `A` as above, and `ln -s A::/x/y B::/ext` (an ExternalLink in `B`) -/
def fsExt : FS := run Variant.spec [] [.create "A" ["x", "y"] .a 7, .ln "A" ["x", "y"] "B" ["ext"] true false]

/-- specification: `B` lists `/ext`, the path `is_cooler` recognises and `Cooler` reads … -/
theorem d5_spec_example :
    listing fsExt Variant.spec "B" = .ok [["ext"]] ∧ isCooler fsExt "B" ["ext"] = true ∧
      readCollection fsExt "B" ["ext"] = some 7 := by
  decide

/-- … the code as it is lists `/x/y`, the target's name inside `A`, which is not even a path of `B`:
**finding D5** (`list_exact` fails in a file with an external link) -/
theorem d5_counterexample :
    listing fsExt Variant.current "B" = .ok [["x", "y"]] ∧
      isCooler fsExt "B" ["x", "y"] = false ∧ isCooler fsExt "B" ["ext"] = true := by
  decide

/-! ### non-vacuity: concrete histories meeting the hypotheses of the theorems -/

/-- `fsOne` is well-formed, its file link-free, the source readable: `copy_reads_equal`,
`copy_frame`, `list_exact` apply to it non-trivially -/
example : readCollection fsOne "A" ["x", "y"] = some 7 ∧ listCoolers fsOne "A" = [["x", "y"]] := by decide

example : (cp fsOne Variant.current "A" ["x", "y"] "A" ["c"] false).2 = .ok ∧
    readCollection (cp fsOne Variant.current "A" ["x", "y"] "A" ["c"] false).1 "A" ["c"] = some 7 := by decide

example : (ln fsOne Variant.current "A" ["x", "y"] "A" ["x", "z"] false false).2 = .ok ∧
    (ln fsOne Variant.current "A" ["x", "y"] "A" ["s"] true false).2 = .ok ∧
    (cp fsOne Variant.current "A" ["x", "y"] "B" ["p", "q"] false).2 = .ok ∧
    (mv fsOne Variant.current "A" ["x", "y"] "A" ["m"] false).2 = .ok := by decide

/-- re-creation over an occupied path that holds a nested collection; append at the root of a
file with another collection and an unrelated attribute -/
example :
    let fs := run Variant.spec [] [.note "A" "keep", .create "A" ["a", "b"] .a 1, .create "A" [] .a 2, .create "A" ["a"] .a 3]
    listing fs Variant.spec "A" = .ok [[], ["a"]] ∧ readCollection fs "A" [] = some 2 ∧
      readCollection fs "A" ["a"] = some 3 ∧ isCooler fs "A" ["a", "b"] = false ∧
      (match lookupE fs "A" [] with | some (.group _ a) => attrGet a "note" | _ => none) = some "keep" := by
  decide

/-- mode "w" drops everything the file held -/
example :
    let fs := run Variant.spec [] [.create "A" ["a"] .a 1, .create "A" ["c"] .w 2]
    listing fs Variant.spec "A" = .ok [["c"]] ∧ isCooler fs "A" ["a"] = false := by
  decide

/-- a dangling soft link, a dataset, a missing path and a missing file are all simply "not a cooler",
and the listing walks past the dangling link -/
example :
    let fs := run Variant.spec [] [.create "A" ["a"] .a 1, .ln "A" ["zz"] "A" ["c"] true false]
    isCooler fs "A" ["c"] = false ∧ isCooler fs "A" ["a", "bins", "start"] = false ∧
      isCooler fs "A" ["nope"] = false ∧ isCooler fs "Z" ["a"] = false ∧
      listing fs Variant.current "A" = .ok [["a"]] := by
  decide

/-- the hypotheses of `copy_reads_equal` / `copy_frame` / `mv_reads_equal_plain` / `list_exact_history` are
jointly satisfiable, and the theorems yield the expected concrete facts -/
theorem wf_fsOne : WF fsOne := run_wf Variant.spec _ [] wf_nil

example : Reads (cp fsOne Variant.current "A" ["x", "y"] "B" ["p", "q"] false).1 "B" ["p", "q"] 7 :=
  copy_reads_equal wf_fsOne (by simp) (fun _ => by simp)
    (rfl : copyOp fsOne Variant.current "A" ["x", "y"] "B" ["p", "q"] false false false false = (_, .ok))
    ⟨0, by decide⟩

example : Reads (ln fsOne Variant.current "A" ["x", "y"] "B" ["e"] true false).1 "B" ["e"] 7 :=
  copy_reads_equal wf_fsOne (by simp) (fun _ => by simp)
    (rfl : copyOp fsOne Variant.current "A" ["x", "y"] "B" ["e"] false false false true = (_, .ok))
    ⟨0, by decide⟩

example : Reads (cp fsOne Variant.current "A" ["x", "y"] "B" [] false).1 "B" [] 7 :=
  copy_root_reads_equal wf_fsOne (by simp) (by decide) (by simp)
    (rfl : copyOp fsOne Variant.current "A" ["x", "y"] "B" [] false false false false = (_, .ok))
    ⟨0, by decide⟩

theorem under_two {q : Path} {a b : String} (h : under q [a, b] = true) : q = [] ∨ q = [a] ∨ q = [a, b] := by
  obtain ⟨r, hr⟩ := (under_iff _ _).1 h
  match q, hr with
  | [], _ => exact Or.inl rfl
  | [x], hr => simp at hr; exact Or.inr (Or.inl (by rw [hr.1]))
  | [x, y], hr => simp at hr; exact Or.inr (Or.inr (by rw [hr.1, hr.2.1]))
  | x :: y :: z :: t, hr => simp at hr

example : Reads (mv fsOne Variant.current "A" ["x", "y"] "A" ["m"] false).1 "A" ["m"] 7 := by
  refine mv_reads_equal_plain wf_fsOne ?_ ?_
    (rfl : mv fsOne Variant.current "A" ["x", "y"] "A" ["m"] false = (_, .ok)) ⟨0, by decide⟩
  · intro q hq hne
    rcases under_two hq with rfl | rfl | rfl
    · exact absurd rfl hne
    · exact ⟨_, _, rfl⟩
    · exact ⟨_, _, rfl⟩
  · intro q hq hne
    cases q with
    | nil => exact absurd rfl hne
    | cons a q => simp [under] at hq

/-! ### link-freeness is kept by every operation except `ln -s`: `list_exact` after any such history -/

def LinkFreeFS (fs : FS) : Prop := ∀ f h, getFile fs f = some h → LinkFree h

/-- a region without link entries -/
def RegionLF (new : Entries) : Prop :=
  ∀ r e, lookupK new r = some e → (∃ o a, e = .group o a) ∨ ∃ c, e = .dataset c

def isObjB : Entry → Bool
  | .group _ _ => true
  | .dataset _ => true
  | _ => false

theorem regionLF_of_all {new : Entries} (h : new.all (fun p => isObjB p.2) = true) : RegionLF new := by
  intro r e hr
  rw [List.all_eq_true] at h
  have := h _ (lookupK_mem hr)
  cases e with
  | group o a => exact Or.inl ⟨_, _, rfl⟩
  | dataset c => exact Or.inr ⟨_, rfl⟩
  | soft t => simp [isObjB] at this
  | ext g t => simp [isObjB] at this

theorem regionLF_coolerRegion (o c : Nat) : RegionLF (coolerRegion o c) := regionLF_of_all rfl

theorem regionLF_parts (o c : Nat) : ∀ part ∈ payloadParts o c, RegionLF part.2 := by
  intro part hp
  simp only [payloadParts, List.mem_cons, List.not_mem_nil, or_false] at hp
  rcases hp with rfl | rfl | rfl | rfl <;> exact regionLF_of_all rfl

theorem regionLF_getRegion {h : H5File} (hl : LinkFree h) (S : Path) : RegionLF (getRegion h.entries S) := by
  intro r e hr
  rw [lookupK_getRegion] at hr
  exact hl _ _ hr

theorem regionLF_shift {new : Entries} (d : Nat) (hn : RegionLF new) : RegionLF (shiftOids d new) := by
  intro r e hr
  rw [lookupK_shiftOids] at hr
  cases hr' : lookupK new r with
  | none => simp [hr'] at hr
  | some e' =>
    simp only [hr', Option.map_some, Option.some.injEq] at hr
    subst hr
    rcases hn r e' hr' with ⟨o, a, rfl⟩ | ⟨c, rfl⟩
    · exact Or.inl ⟨_, _, rfl⟩
    · exact Or.inr ⟨_, rfl⟩

theorem lf_emptyFile : LinkFree emptyFile := by
  intro k e hk
  simp only [emptyFile, lookupK] at hk
  split at hk
  · simp at hk; exact Or.inl ⟨_, _, hk.symm⟩
  · simp at hk

theorem lf_setEntry_group {h : H5File} (hl : LinkFree h) (k : Path) (o : Nat) (a : List (String × String)) (nx : Nat) :
    LinkFree ⟨setEntry h.entries k (.group o a), nx⟩ := by
  intro k' e hk
  simp only [lookupK_setEntry] at hk
  split at hk
  · simp at hk; exact Or.inl ⟨_, _, hk.symm⟩
  · exact hl _ _ hk

theorem lf_putRegion {h : H5File} (hl : LinkFree h) (D : Path) {new : Entries} (hn : RegionLF new) (nx : Nat) :
    LinkFree ⟨putRegion h.entries D new, nx⟩ := by
  intro k e hk
  simp only [lookupK_putRegion] at hk
  split at hk
  · exact hn _ _ hk
  · exact hl _ _ hk

theorem lf_removeUnder {h : H5File} (hl : LinkFree h) (L : Path) (nx : Nat) : LinkFree ⟨removeUnder L h.entries, nx⟩ := by
  intro k e hk
  simp only [lookupK_removeUnder] at hk
  split at hk
  · simp at hk
  · exact hl _ _ hk

theorem lf_setFile {fs : FS} (hl : LinkFreeFS fs) {f : String} {h : H5File} (hh : LinkFree h) :
    LinkFreeFS (setFile fs f h) := by
  intro g h' hg
  rw [getFile_setFile] at hg
  by_cases e : f = g
  · simp [e] at hg; subst hg; exact hh
  · simp [e] at hg; exact hl g h' hg

theorem mkdirP_lf (fs : FS) (f : String) :
    ∀ (q : List String) (h : H5File) (cur : Path) (h1 : H5File) (P : Path),
      LinkFree h → mkdirP fs f h cur q = .ok (h1, P) → LinkFree h1 := by
  intro q
  induction q with
  | nil =>
    intro h cur h1 P hl hm
    simp only [mkdirP, Except.ok.injEq, Prod.mk.injEq] at hm
    obtain ⟨rfl, rfl⟩ := hm
    exact hl
  | cons x rest ih =>
    intro h cur h1 P hl hm
    rw [mkdirP] at hm
    split at hm
    · split at hm
      · simp at hm
      · exact ih _ _ h1 P (lf_setEntry_group hl _ _ _ _) hm
    · exact ih _ _ h1 P hl hm
    · simp at hm
    · split at hm
      · split at hm
        · split at hm
          · exact ih _ _ h1 P hl hm
          · simp at hm
        · simp at hm
      · simp at hm
    · simp at hm

theorem placeAt_lf {fs : FS} (hl : LinkFreeFS fs) {f : String} {dp : Path} {new : H5File → Entries × Nat}
    {ex : ErrClass} {fs' : FS} {oc : Outcome} (hrel : ∀ h1, RegionLF (new h1).1)
    (h : placeAt fs f dp new ex = (fs', oc)) : LinkFreeFS fs' := by
  by_cases hoc : oc = .ok
  · subst hoc
    obtain ⟨h0, h1, P, x, hg, _, hm, _, rfl⟩ := placeAt_ok h
    exact lf_setFile hl (lf_putRegion (mkdirP_lf fs f _ h0 [] h1 P (hl f h0 hg) hm) _ (hrel h1) _)
  · rw [placeAt_not_ok h hoc]; exact hl

theorem deepCopyTo_lf {fs1 : FS} (hl : LinkFreeFS fs1) {g : String} {S : Path} {df : String} {dp : Path} {fs' : FS}
    {oc : Outcome} (h : deepCopyTo fs1 g S df dp = (fs', oc)) : LinkFreeFS fs' := by
  unfold deepCopyTo at h
  split at h
  · rw [← (Prod.mk.inj h).1]; exact hl
  · rename_i hs hg
    split at h
    · by_cases hsoft : dstThroughSoft fs1 df dp = true
      · simp only [hsoft, if_true] at h
        rw [← (Prod.mk.inj h).1]; exact hl
      · simp only [hsoft, Bool.false_eq_true, if_false] at h
        exact placeAt_lf hl (fun h1 => regionLF_shift _ (regionLF_getRegion (hl g hs hg) S)) h
    · rw [← (Prod.mk.inj h).1]; exact hl

theorem unlink_lf {fs : FS} (hl : LinkFreeFS fs) {f : String} {p : Path} {fs' : FS} (h : unlink fs f p = .ok fs') :
    LinkFreeFS fs' := by
  obtain ⟨y, Ps, hh, _, _, hg, rfl⟩ := unlink_ok h
  exact lf_setFile hl (lf_removeUnder (hl f hh hg) _ _)

theorem hardLinkSame_lf {fs1 : FS} (hl : LinkFreeFS fs1) {sf : String} {sp dp : Path} {rename : Bool} {fs' : FS}
    {oc : Outcome} (h : hardLinkSame fs1 sf sp dp rename = (fs', oc)) : LinkFreeFS fs' := by
  unfold hardLinkSame at h
  split at h
  · rw [← (Prod.mk.inj h).1]; exact hl
  · rename_i g S _
    split at h
    · rw [← (Prod.mk.inj h).1]; exact hl
    · split at h
      · rw [← (Prod.mk.inj h).1]; exact hl
      · rename_i hs hg
        have hrel : ∀ h1 : H5File, RegionLF ((fun h1 : H5File => (getRegion hs.entries S, h1.next)) h1).1 :=
          fun _ => regionLF_getRegion (hl g hs hg) S
        split at h
        · split at h
          · rename_i fs2 hp
            have hl2 : LinkFreeFS fs2 := placeAt_lf hl hrel hp
            split at h
            · split at h
              · rw [← (Prod.mk.inj h).1]; exact hl2
              · split at h
                · split at h
                  · rename_i fs3 hun
                    rw [← (Prod.mk.inj h).1]; exact unlink_lf hl2 hun
                  · rw [← (Prod.mk.inj h).1]; exact hl2
                · rw [← (Prod.mk.inj h).1]; exact hl2
            · rw [← (Prod.mk.inj h).1]; exact hl2
          · exact placeAt_lf hl hrel h
        · rw [← (Prod.mk.inj h).1]; exact hl

theorem copyChildren_lf {fs : FS} (hl : LinkFreeFS fs) (g : String) (S : Path) (df : String) :
    ∀ (cs : List String) (h h1 : H5File) (oc : Outcome), LinkFree h →
      copyChildren fs g S df h cs = (h1, oc) → LinkFree h1 := by
  intro cs
  induction cs with
  | nil =>
    intro h h1 oc hh hc
    simp only [copyChildren, Prod.mk.injEq] at hc
    rw [← hc.1]; exact hh
  | cons x rest ih =>
    intro h h1 oc hh hc
    rw [copyChildren] at hc
    split at hc
    · rw [← (Prod.mk.inj hc).1]; exact hh
    · split at hc
      · rw [← (Prod.mk.inj hc).1]; exact hh
      · rename_i g' Q _
        split at hc
        · rw [← (Prod.mk.inj hc).1]; exact hh
        · split at hc
          · rw [← (Prod.mk.inj hc).1]; exact hh
          · rename_i hs hgs
            exact ih _ h1 oc (lf_putRegion hh _ (regionLF_shift _ (regionLF_getRegion (hl g' hs hgs) Q)) _) hc

theorem copyToRoot_lf {fs1 : FS} (hl : LinkFreeFS fs1) {g : String} {S : Path} {df : String} {fs' : FS} {oc : Outcome}
    (h : copyToRoot fs1 g S df = (fs', oc)) : LinkFreeFS fs' := by
  unfold copyToRoot at h
  split at h
  · rename_i hs hd hgs hgd
    split at h
    · split at h
      · rw [← (Prod.mk.inj h).1]; exact hl
      · split at h
        · split at h
          · rw [← (Prod.mk.inj h).1]; exact hl
          · split at h
            · rename_i h1 hcc
              rw [← (Prod.mk.inj h).1]
              exact lf_setFile hl (lf_setEntry_group (copyChildren_lf hl g S df _ hd h1 _ (hl df hd hgd) hcc) _ _ _ _)
            · rename_i h1 oc' _ hcc
              rw [← (Prod.mk.inj h).1]
              exact lf_setFile hl (copyChildren_lf hl g S df _ hd h1 _ (hl df hd hgd) hcc)
        · rw [← (Prod.mk.inj h).1]; exact hl
    · rw [← (Prod.mk.inj h).1]; exact hl
  · rw [← (Prod.mk.inj h).1]; exact hl

theorem copyCross_lf {fs1 : FS} (hl : LinkFreeFS fs1) {v : Variant} {sf : String} {sp : Path} {df : String} {dp : Path}
    {rename : Bool} {fs' : FS} {oc : Outcome} (h : copyCross fs1 v sf sp df dp rename = (fs', oc)) : LinkFreeFS fs' := by
  unfold copyCross at h
  split at h
  · rw [← (Prod.mk.inj h).1]; exact hl
  · rename_i g S _
    have hl2 : ∀ fs2 oc2, (if dp = [] then copyToRoot fs1 g S df else deepCopyTo fs1 g S df dp) = (fs2, oc2) →
        LinkFreeFS fs2 := by
      intro fs2 oc2 h2
      split at h2
      · exact copyToRoot_lf hl h2
      · exact deepCopyTo_lf hl h2
    split at h
    · rename_i fs2 h2
      split at h
      · split at h
        · rename_i fs3 hun
          rw [← (Prod.mk.inj h).1]; exact unlink_lf (hl2 _ _ h2) hun
        · rw [← (Prod.mk.inj h).1]; exact hl2 _ _ h2
      · rw [← (Prod.mk.inj h).1]; exact hl2 _ _ h2
    · exact hl2 _ _ h

theorem afterOpen_lf {fs : FS} (hl : LinkFreeFS fs) (df : String) (ow : Bool) : LinkFreeFS (afterOpen fs df ow) := by
  unfold afterOpen
  split
  · exact lf_setFile hl lf_emptyFile
  · exact hl

theorem copyOp_lf {fs : FS} (hl : LinkFreeFS fs) {v : Variant} {sf : String} {sp : Path} {df : String} {dp : Path}
    {ow link rename : Bool} {fs' : FS} {oc : Outcome}
    (h : copyOp fs v sf sp df dp ow link rename false = (fs', oc)) : LinkFreeFS fs' := by
  have hl1 := afterOpen_lf hl df ow
  rcases copyOp_cases h with rfl | rfl | hb
  · exact hl
  · exact hl1
  · simp only [Bool.false_eq_true, if_false] at hb
    split at hb
    · split at hb
      · exact hardLinkSame_lf hl1 hb
      · unfold copySame at hb
        split at hb
        · rw [← (Prod.mk.inj hb).1]; exact hl1
        · exact deepCopyTo_lf hl1 hb
    · split at hb
      · rw [← (Prod.mk.inj hb).1]; exact hl1
      · exact copyCross_lf hl1 hb

theorem openFile_lf {fs : FS} (hl : LinkFreeFS fs) {f : String} {mode : Mode} {fs1 : FS}
    (h : openFile fs f mode = .ok fs1) : LinkFreeFS fs1 := by
  cases mode <;> simp only [openFile] at h
  · simp only [Except.ok.injEq] at h; subst h; exact lf_setFile hl lf_emptyFile
  · split at h
    · simp only [Except.ok.injEq] at h; subst h; exact hl
    · simp only [Except.ok.injEq] at h; subst h; exact lf_setFile hl lf_emptyFile
  · split at h
    · simp only [Except.ok.injEq] at h; subst h; exact hl
    · simp at h

theorem lf_rootParts {hh : H5File} (hl : LinkFree hh) (o c nx : Nat) : LinkFree ⟨rootParts hh.entries o c, nx⟩ := by
  have hp := regionLF_parts o c
  simp only [payloadParts, List.mem_cons, List.not_mem_nil, or_false, forall_eq_or_imp, forall_eq] at hp
  obtain ⟨p1, p2, p3, p4⟩ := hp
  simp only [rootParts, payloadParts, List.foldl_cons, List.foldl_nil]
  have w1 := lf_putRegion hl ["bins"] p1 0
  have w2 := lf_putRegion w1 ["chroms"] p2 0
  have w3 := lf_putRegion w2 ["indexes"] p3 0
  exact lf_putRegion w3 ["pixels"] p4 nx

theorem createCooler_lf {fs : FS} (hl : LinkFreeFS fs) {f : String} {p : Path} {mode : Mode} {c : Nat} {fs' : FS}
    {oc : Outcome} (h : createCooler fs f p mode c = (fs', oc)) : LinkFreeFS fs' := by
  rcases createCooler_cases h with ⟨rfl, _⟩ | ⟨fs1, hh, ho, hg, hcase⟩
  · exact hl
  · have hl1 := openFile_lf hl ho
    have hlh := hl1 f hh hg
    rcases hcase with ⟨_, hc⟩ | ⟨x, _, hc⟩
    · unfold createRoot at hc
      split at hc
      · split at hc
        · rw [← (Prod.mk.inj hc).1]; exact hl1
        · rw [← (Prod.mk.inj hc).1]
          exact lf_setFile hl1 (lf_setEntry_group (h := ⟨rootParts hh.entries hh.next c, hh.next + 5⟩)
            (lf_rootParts hlh _ _ _) _ _ _ _)
      · rw [← (Prod.mk.inj hc).1]; exact hl1
    · unfold createAt at hc
      split at hc
      · rw [← (Prod.mk.inj hc).1]; exact hl1
      · rename_i h1 P hmk
        split at hc
        · rw [← (Prod.mk.inj hc).1]; exact hl1
        · split at hc
          · rw [← (Prod.mk.inj hc).1]; exact hl1
          · rw [← (Prod.mk.inj hc).1]
            exact lf_setFile hl1 (lf_putRegion (mkdirP_lf fs1 f _ hh [] h1 P hlh hmk) _ (regionLF_coolerRegion _ _) _)

theorem setNote_lf {fs : FS} (hl : LinkFreeFS fs) {f value : String} {fs' : FS} {oc : Outcome}
    (h : setNote fs f value = (fs', oc)) : LinkFreeFS fs' := by
  unfold setNote at h
  split at h
  · rw [← (Prod.mk.inj h).1]; exact hl
  · rename_i fs1 ho
    have hl1 := openFile_lf hl ho
    split at h
    · rw [← (Prod.mk.inj h).1]; exact hl1
    · rename_i hh hg
      split at h
      · rw [← (Prod.mk.inj h).1]
        exact lf_setFile hl1 (lf_setEntry_group (hl1 f hh hg) _ _ _ _)
      · rw [← (Prod.mk.inj h).1]; exact hl1

/-- an operation other than `ln -s` -/
def noSoft : Op → Bool
  | .ln _ _ _ _ s _ => !s
  | _ => true

theorem step_lf {fs : FS} (hl : LinkFreeFS fs) (v : Variant) (op : Op) (hop : noSoft op = true) :
    LinkFreeFS (step v fs op).1 := by
  cases op with
  | create f p m c => exact createCooler_lf hl (rfl : createCooler fs f p m c = (_, _))
  | cp sf sp df dp o => exact copyOp_lf hl (rfl : copyOp fs v sf sp df dp o false false false = (_, _))
  | mv sf sp df dp o => exact copyOp_lf hl (rfl : copyOp fs v sf sp df dp o false true false = (_, _))
  | ln sf sp df dp s o =>
    have hs : s = false := by simpa [noSoft] using hop
    subst hs
    exact copyOp_lf hl (rfl : copyOp fs v sf sp df dp o true false false = (_, _))
  | note f x => exact setNote_lf hl (rfl : setNote fs f x = (_, _))

theorem run_lf (v : Variant) : ∀ (ops : List Op) (fs : FS), LinkFreeFS fs → (∀ op ∈ ops, noSoft op = true) →
    LinkFreeFS (run v fs ops) := by
  intro ops
  induction ops with
  | nil => intro fs hl _; exact hl
  | cons op ops ih =>
    intro fs hl hops
    simp only [run, List.foldl_cons]
    exact ih _ (step_lf hl v op (hops op (by simp))) (fun o ho => hops o (List.mem_cons_of_mem _ ho))

/-- **list_exact after any history** of create / cp / mv / ln (hard) — everything but `ln -s` — from
the empty file system, in the code as it is or in the specification: the listing of every file
is exactly the set of paths `is_cooler` recognises. -/
theorem list_exact_history (v : Variant) (ops : List Op) (hops : ∀ op ∈ ops, noSoft op = true)
    (f : String) (h : H5File) (hg : getFile (run v [] ops) f = some h) (p : Path) :
    p ∈ listCoolers (run v [] ops) f ↔ isCooler (run v [] ops) f p = true :=
  list_exact hg (run_wf v ops [] wf_nil f h hg)
    (run_lf v ops [] (fun f h hg => absurd hg (by simp [getFile])) hops f h hg) p

/-! ### `overwrite` -/

/-- `overwrite=True` between two different files (valid flags, source file present) is the same
operation without `overwrite` on the file system in which the destination file has been replaced
by an empty file: this is the only way `_copy` loses anything, and it loses exactly the old
destination file. -/
theorem copy_overwrite_eq {fs : FS} {v : Variant} {sf : String} {sp : Path} {df : String} {dp : Path}
    {link rename soft : Bool} (hne : sf ≠ df)
    (hflags : ((link && rename) || (link && soft) || (rename && soft)) = false)
    (hsrc : (getFile fs sf).isSome) :
    copyOp fs v sf sp df dp true link rename soft =
      copyOp (setFile fs df emptyFile) v sf sp df dp false link rename soft := by
  have hne' : ¬ df = sf := fun e => hne e.symm
  cases hg : getFile fs sf with
  | none => simp [hg] at hsrc
  | some hh =>
    unfold copyOp afterOpen
    simp only [hflags, Bool.false_eq_true, if_false, getFile_setFile, hne, hne', hg, if_true, Option.isNone_some,
      Bool.or_true, Bool.or_false, decide_false, Bool.and_false, Bool.false_and]

/-! ### `uri_slash`: the C15 clause as a corollary of `Cooler.C19.uri_slash` (same definition) -/

open Cooler.Strings in
/-- **uri_slash**: a URI with and without the leading slash of the group path denotes the same
file and the same path components (hypotheses of `C19.uri_slash`: no `::` inside `f:` nor inside
`g`; `g` does not already start with `/`).  Every operation of the model takes the parsed pair, so
`cp`/`mv`/`ln`/`create`/`is_cooler` cannot tell the two spellings apart. -/
theorem uri_slash (f g : List Char) (hf : hasDC (f ++ [':']) = false) (hg : hasDC g = false)
    (hh : g.head? ≠ some '/') :
    parseCoolerUriC (f ++ ':' :: ':' :: '/' :: g) = parseCoolerUriC (f ++ ':' :: ':' :: g) ∧
    parseCoolerUriC (f ++ ':' :: ':' :: g) = .ok (f, splitSlash ('/' :: g)) := by
  obtain ⟨h1, h2⟩ := (Cooler.C19.uri_slash f g hf hg).1 hh
  unfold parseCoolerUriC
  rw [h2, h1]
  exact ⟨rfl, rfl⟩

/-- string form: two URI strings whose characters are `f::/g` and `f::g` parse alike -/
theorem uri_slash_string (s1 s2 : String) (f g : List Char) (h1 : s1.toList = f ++ ':' :: ':' :: '/' :: g)
    (h2 : s2.toList = f ++ ':' :: ':' :: g)
    (hf : Cooler.Strings.hasDC (f ++ [':']) = false) (hg : Cooler.Strings.hasDC g = false)
    (hh : g.head? ≠ some '/') : parseCoolerUri s1 = parseCoolerUri s2 := by
  unfold parseCoolerUri
  rw [h1, h2, (uri_slash f g hf hg hh).1]

example : parseCoolerUriC ['f', ':', ':', 'a', '/', 'b'] = .ok (['f'], [['a'], ['b']]) := by rfl
example : parseCoolerUriC ['f', ':', ':', '/', 'a', '/', 'b'] = parseCoolerUriC ['f', ':', ':', 'a', '/', 'b'] :=
  (uri_slash ['f'] ['a', '/', 'b'] (by decide) (by decide) (by decide)).1
example : parseCoolerUriC ['f'] = .ok (['f'], []) ∧ parseCoolerUriC ['a', ':', ':', 'b', ':', ':', 'c'] = .error .value :=
  ⟨by rfl, by rfl⟩


/-! ### `copy_reads_equal` for `mv` through links: the exact side condition -/

/-- one resolution step that refuses to look at anything stored under `L` in file `g0` -/
def stepAv (fs : FS) (g0 : String) (L : Path) (follow : String → Path → Option Loc) (acc : Option Loc)
    (x : String) : Option Loc :=
  match acc with
  | none => none
  | some (f, P) => if (decide (f = g0) && under L (P ++ [x])) = true then none else stepWith fs follow (some (f, P)) x

/-- `resolveN` restricted to resolutions that never touch the region `L` of file `g0` (the link `mv`
is about to remove): `some l` means "the path names `l` and does not pass through that link" -/
def resolveAvN (fs : FS) (g0 : String) (L : Path) : Nat → String → Path → Option Loc
  | 0, f, p => p.foldl (stepAv fs g0 L (fun _ _ => none)) (start fs f)
  | n + 1, f, p => p.foldl (stepAv fs g0 L (resolveAvN fs g0 L n)) (start fs f)

theorem foldl_stepAv_none (fs : FS) (g0 : String) (L : Path) (F : String → Path → Option Loc) (p : Path) :
    p.foldl (stepAv fs g0 L F) none = none := by
  induction p with
  | nil => rfl
  | cons x p ih => simpa [List.foldl_cons, stepAv] using ih

/-- a resolution that avoids the region survives any change confined to the region -/
theorem resolveAv_transfer {fs fs' : FS} {g0 : String} {L : Path}
    (hfiles : ∀ g, (getFile fs g).isSome → (getFile fs' g).isSome)
    (hoff : ∀ g k e, ¬ (g = g0 ∧ under L k = true) → lookupE fs g k = some e → lookupE fs' g k = some e) :
    ∀ (n : Nat) (f : String) (p : Path) (l : Loc), resolveAvN fs g0 L n f p = some l → resolveN fs' n f p = some l := by
  have key : ∀ (F G : String → Path → Option Loc), (∀ g t l, F g t = some l → G g t = some l) →
      ∀ (p : Path) (acc : Option Loc) (l : Loc),
        p.foldl (stepAv fs g0 L F) acc = some l → p.foldl (stepWith fs' G) acc = some l := by
    intro F G hFG p
    induction p with
    | nil => intro acc l h; exact h
    | cons x p ih =>
      intro acc l h
      simp only [List.foldl_cons] at h ⊢
      cases hs : stepAv fs g0 L F acc x with
      | none => rw [hs, foldl_stepAv_none] at h; simp at h
      | some l' =>
        rw [hs] at h
        have : stepWith fs' G acc x = some l' := by
          unfold stepAv at hs
          cases acc with
          | none => simp at hs
          | some a0 =>
            obtain ⟨f0, P0⟩ := a0
            simp only at hs
            by_cases hc : (decide (f0 = g0) && under L (P0 ++ [x])) = true
            · simp [hc] at hs
            · simp only [hc] at hs
              have hnot : ¬ (f0 = g0 ∧ under L (P0 ++ [x]) = true) := by
                intro ⟨h1, h2⟩; apply hc; simp [h1, h2]
              unfold stepWith at hs ⊢
              simp only at hs ⊢
              cases hl : lookupE fs f0 (P0 ++ [x]) with
              | none => simp [hl] at hs
              | some e =>
                rw [hoff _ _ _ hnot hl]
                rw [hl] at hs
                cases e with
                | group o a => exact hs
                | dataset c => exact hs
                | soft t => exact hFG _ _ _ hs
                | ext g t => exact hFG _ _ _ hs
        rw [this]; exact ih _ _ h
  have hstart : ∀ f l, start fs f = some l → start fs' f = some l := by
    intro f l hs
    unfold start at hs ⊢
    cases hg : getFile fs f with
    | none => simp [hg] at hs
    | some hh =>
      have := hfiles f (by simp [hg])
      cases hg' : getFile fs' f with
      | none => simp [hg'] at this
      | some _ => simpa [hg] using hs
  intro n
  induction n with
  | zero =>
    intro f p l h
    rw [resolveN_eq]
    simp only [resolveAvN] at h
    cases hst : start fs f with
    | none => rw [hst, foldl_stepAv_none] at h; simp at h
    | some l0 =>
      rw [hstart f l0 hst]; rw [hst] at h
      exact key _ _ (by intro g t l' hh; simp at hh) p _ l h
  | succ n ih =>
    intro f p l h
    rw [resolveN_eq]
    simp only [resolveAvN] at h
    cases hst : start fs f with
    | none => rw [hst, foldl_stepAv_none] at h; simp at h
    | some l0 =>
      rw [hstart f l0 hst]; rw [hst] at h
      exact key _ _ (fun g t l' hh => ih g t l' hh) p _ l h

/-- **copy_reads_equal for `mv` inside one file, any links** (source path through soft links, source
itself a soft link or a hard-linked region, destination parent through soft links).  Let `L` be the
canonical location of the source LINK (`Ps ++ [y]`: resolved parent of `sp`, last name of `sp`) —
what `del src[src_group]` removes.  Side condition: the destination's parent path resolves WITHOUT
passing through `L` (`resolveAvN`), to `P`, and the new link `P ++ [x]` does not lie under `L`.
Then the destination reads what the source read.  Outside the side condition the conclusion can
fail: `mv_through_source_counterexample`. -/
theorem mv_reads_equal {fs : FS} (hw : WF fs) {v : Variant} {sf : String} {sp dp : Path} {ow : Bool} {fs' : FS}
    (h : mv fs v sf sp sf dp ow = (fs', .ok)) {c : Nat} (hr : Reads fs sf sp c)
    {Ps P : Path} {y x : String}
    (hPs : resolve fs sf sp.dropLast = some (sf, Ps)) (hy : sp.getLast? = some y)
    (hav : resolveAvN fs sf (Ps ++ [y]) LINKFUEL sf dp.dropLast = some (sf, P)) (hx : dp.getLast? = some x)
    (hDL : under (Ps ++ [y]) (P ++ [x]) = false) : Reads fs' sf dp c := by
  unfold mv at h
  obtain ⟨hfile, hnw, hb⟩ := copyOp_opened h
  simp only [if_true, Bool.or_true] at hb
  have hfs1 : afterOpen fs sf ow = fs := by
    unfold afterOpen
    have : ¬ (((getFile fs sf).isNone || ow) = true) := fun hc => hnw ⟨hc, rfl⟩
    simp [this]
  rw [hfs1] at hb
  obtain ⟨S, hs, fs2, D, hres, hg, _, hp, hd, hu, hun⟩ := hardLinkSame_ok hb
  simp only [if_true] at hun
  obtain ⟨h1, P', x', hdp, hsub, hresP, hlk, _, _, hdest, habs⟩ := placeAt_facts hw hp
  -- names
  have hx' : x' = x := by
    have : dp.getLast? = some x' := by rw [hdp]; simp
    rw [hx] at this; exact (Option.some.inj this).symm
  subst hx'
  have hP2 : resolveN fs2 LINKFUEL sf dp.dropLast = some (sf, P) :=
    resolveAv_transfer hsub.1 (fun g k e _ hk => hsub.2 g k e hk) _ _ _ _ hav
  have hP' : P' = P := (Prod.mk.inj (hresP.det ⟨LINKFUEL, hP2⟩)).2
  subst hP'
  obtain ⟨y', Ps', hh, hsp, hresS, hg2, rfl⟩ := unlink_ok hun
  have hy' : y' = y := by
    have : sp.getLast? = some y' := by rw [hsp]; simp
    rw [hy] at this; exact (Option.some.inj this).symm
  subst hy'
  have hPs2 : resolveN fs2 LINKFUEL sf sp.dropLast = some (sf, Ps) :=
    resolveN_mono hsub _ _ (Nat.le_refl _) _ _ _ hPs
  have hPs' : Ps' = Ps := (Prod.mk.inj (Resolves.det ⟨LINKFUEL, hresS⟩ ⟨LINKFUEL, hPs2⟩)).2
  subst hPs'
  -- lookups in the final file system
  have hfin : ∀ k, lookupE (setFile fs2 sf ⟨removeUnder (Ps' ++ [y']) hh.entries, hh.next⟩) sf k =
      if under (Ps' ++ [y']) k then none else lookupE fs2 sf k := by
    intro k
    rw [lookupE_setFile_same, lookupK_removeUnder]
    unfold lookupE; rw [hg2]
  -- the parent still resolves
  have hPf : resolveN (setFile fs2 sf ⟨removeUnder (Ps' ++ [y']) hh.entries, hh.next⟩) LINKFUEL sf dp.dropLast =
      some (sf, P') := by
    refine resolveAv_transfer ?_ ?_ _ _ _ _ hav
    · intro g hgs
      have := hsub.1 g hgs
      rw [getFile_setFile]; by_cases e : sf = g <;> simp [e, this]
    · intro g k e hnot hk
      have hk2 := hsub.2 g k e hk
      by_cases e' : g = sf
      · subst e'
        rw [hfin]
        have : under (Ps' ++ [y']) k = false := by
          cases hc : under (Ps' ++ [y']) k with
          | false => rfl
          | true => exact absurd ⟨rfl, hc⟩ hnot
        simp [this, hk2]
      · rw [lookupE_setFile_other _ _ _ _ _ e']; exact hk2
  -- the new link is not an ancestor of the removed one either: it did not exist
  obtain ⟨ePs, hePs, _⟩ := resolveN_present hw _ _ _ _ _ hPs
  have hnot : under (P' ++ [x']) (Ps' ++ [y']) = false := by
    cases hc : under (P' ++ [x']) (Ps' ++ [y']) with
    | false => rfl
    | true =>
      exfalso
      by_cases he : P' ++ [x'] = Ps' ++ [y']
      · rw [he, under_refl] at hDL; simp at hDL
      · have hpre : under (P' ++ [x']) Ps' = true := prefix_of_snoc hc he
        by_cases he2 : P' ++ [x'] = Ps'
        · rw [he2, hePs] at habs; simp at habs
        · have hgf : ∃ hsf, getFile fs sf = some hsf := ⟨hs, hg⟩
          obtain ⟨hsf, hgsf⟩ := hgf
          have hePs' : lookupK hsf.entries Ps' = some ePs := by
            unfold lookupE at hePs; rw [hgsf] at hePs; exact hePs
          obtain ⟨o, a, hh'⟩ := (hw sf hsf hgsf).2 Ps' ePs hePs' (P' ++ [x']) hpre he2
          unfold lookupE at habs; rw [hgsf] at habs
          simp only at habs
          rw [habs] at hh'; simp at hh'
  have hoff : ∀ r, under (Ps' ++ [y']) (P' ++ [x'] ++ r) = false := by
    intro r
    cases hc : under (Ps' ++ [y']) (P' ++ [x'] ++ r) with
    | false => rfl
    | true =>
      rcases under_of_common hc (under_append (P' ++ [x']) r) with h' | h'
      · rw [hDL] at h'; simp at h'
      · rw [hnot] at h'; simp at h'
  have look : ∀ r, lookupE (setFile fs2 sf ⟨removeUnder (Ps' ++ [y']) hh.entries, hh.next⟩) sf (P' ++ [x'] ++ r) =
      lookupE fs sf (S ++ r) := by
    intro r
    rw [hfin, hoff r, hlk r, lookupK_getRegion]
    unfold lookupE; rw [hg]; simp
  obtain ⟨r1, ⟨o2, a2, r2⟩, r3⟩ := reads_at_resolved hr hres
  obtain ⟨oid, a, he, hf⟩ := coolerEntry_some r1
  simp only at he r2 r3
  have e0 := look []
  simp only [List.append_nil] at e0
  rw [reads_iff]
  refine ⟨(sf, P' ++ [x']), ?_, ?_, ⟨o2, a2, ?_⟩, ?_⟩
  · rw [hdp]
    exact Resolves.snoc_obj ⟨LINKFUEL, hPf⟩ (e := .group oid a) (by rw [e0, he]) (Or.inl ⟨_, _, rfl⟩)
  · simp only; rw [e0, he]; simpa [coolerEntry] using hf
  · simp only; rw [look, r2]
  · simp only
    rw [look, r3]

/-- outside the side condition: `/a` holds a soft link `/a/l → /c` and `/t → /a/l` points into it;
`mv A::/a A::/t/x` succeeds (the collection is hard-linked at `/c/x`, then `/a` is unlinked) but the
destination URI passes through the moved source and no longer names anything, although `/c/x` reads
the content.  HDF5 behaves the same: this is the meaning of the operation, not a defect.  (The direct
spelling `mv A::/a A::/a/l/x` is refused since fix D26.) -/
theorem mv_through_source_counterexample :
    let fs := run Variant.current [] [.create "A" ["a"] .a 1, .create "A" ["c"] .a 2,
      .ln "A" ["c"] "A" ["a", "l"] true false, .ln "A" ["a", "l"] "A" ["t"] true false]
    let r := mv fs Variant.current "A" ["a"] "A" ["t", "x"] false
    readCollection fs "A" ["a"] = some 1 ∧ r.2 = .ok ∧ readCollection r.1 "A" ["t", "x"] = none ∧
      readCollection r.1 "A" ["c", "x"] = some 1 ∧
      resolveAvN fs "A" ["a"] LINKFUEL "A" ["t"] = none := by
  decide

/-- inside it, through links: source named through a soft link, destination parent through another -/
example :
    let fs := run Variant.current [] [.create "A" ["a", "b"] .a 1, .create "A" ["c"] .a 2,
      .ln "A" ["a"] "A" ["s"] true false, .ln "A" ["c"] "A" ["t"] true false]
    let r := mv fs Variant.current "A" ["s", "b"] "A" ["t", "x"] false
    r.2 = .ok ∧ readCollection r.1 "A" ["t", "x"] = some 1 ∧ isCooler r.1 "A" ["s", "b"] = false ∧
      resolve fs "A" ["s"] = some ("A", ["a"]) ∧
      resolveAvN fs "A" ["a", "b"] LINKFUEL "A" ["t"] = some ("A", ["c"]) ∧ under ["a", "b"] ["c", "x"] = false := by
  decide


/-! ### fix D26: a group is never moved or linked into itself -/

/-- same-file `mv` / `ln` / `ln -s` whose destination equals or lies under the source path is refused
with ValueError and NOTHING changes — no file is opened, created or truncated (so the collection can
no longer be unlinked from its own file, nor the namespace made cyclic, through these spellings) -/
theorem copy_into_itself_refused (fs : FS) (v : Variant) (f : String) (sp dp : Path) (ow link rename soft : Bool)
    (hk : (link || rename || soft) = true) (hu : under sp dp = true) :
    copyOp fs v f sp f dp ow link rename soft = (fs, .err .value) := by
  unfold copyOp
  by_cases hflags : ((link && rename) || (link && soft) || (rename && soft)) = true
  · simp [hflags]
  · simp [hflags, hk, hu]

/-- hence a successful same-file `mv` / `ln` / `ln -s` has its destination outside the source path -/
theorem copyOp_not_into_itself {fs : FS} {v : Variant} {f : String} {sp dp : Path} {ow link rename soft : Bool}
    {fs' : FS} (hk : (link || rename || soft) = true)
    (h : copyOp fs v f sp f dp ow link rename soft = (fs', .ok)) : under sp dp = false := by
  cases hu : under sp dp with
  | false => rfl
  | true => rw [copy_into_itself_refused fs v f sp dp ow link rename soft hk hu] at h; simp at h

example :
    let fs := run Variant.current [] [.create "A" ["a"] .a 1]
    mv fs Variant.current "A" ["a"] "A" ["a", "b"] false = (fs, .err .value) ∧
    ln fs Variant.current "A" ["a"] "A" ["a", "c"] false false = (fs, .err .value) ∧
    ln fs Variant.current "A" ["a"] "A" ["a", "c"] true false = (fs, .err .value) ∧
    ln fs Variant.current "A" [] "A" ["x"] true false = (fs, .err .value) ∧
    (cp fs Variant.current "A" ["a"] "A" ["a", "b"] false).2 = .ok := by
  decide


/-! ### `list_exact` with soft links (one or several files, no external links) -/

/-- no external link is stored anywhere -/
def NoExt (fs : FS) : Prop :=
  ∀ g h k g' t, getFile fs g = some h → lookupK h.entries k ≠ some (.ext g' t)

/-- every stored soft link resolves the same with one unit of link budget less: links are nested
less than `LINKFUEL` deep, so the fixed budget of `is_cooler`/`resolve` is never the limiting factor -/
def StableLinks (fs : FS) : Prop :=
  ∀ g h k t, getFile fs g = some h → lookupK h.entries k = some (.soft t) →
    resolveN fs (LINKFUEL - 1) g t = resolveN fs LINKFUEL g t

theorem foldl_some_of_foldl {fs : FS} {F : String → Path → Option Loc} {r : Path} {acc : Option Loc} {l : Loc}
    (h : r.foldl (stepWith fs F) acc = some l) : ∃ l0, acc = some l0 := by
  cases acc with
  | none => rw [foldl_stepWith_none] at h; simp at h
  | some l0 => exact ⟨l0, rfl⟩

/-- nothing resolves below a dataset -/
theorem resolve_below_dataset {fs : FS} (hw : WF fs) {n : Nat} {f : String} {q : Path} {g : String} {Q : Path}
    {c : Nat} (hq : resolveN fs n f q = some (g, Q)) (hd : lookupE fs g Q = some (.dataset c))
    (y : String) (r : Path) : resolveN fs n f (q ++ y :: r) = none := by
  have e : q ++ y :: r = (q ++ [y]) ++ r := by simp
  rw [e, resolveN_append, resolveN_snoc, hq]
  have : stepWith fs (followN fs n) (some (g, Q)) y = none := by
    unfold stepWith
    simp only
    cases hl : lookupE fs g (Q ++ [y]) with
    | none => rfl
    | some e' =>
      exfalso
      unfold lookupE at hl hd
      cases hg : getFile fs g with
      | none => simp [hg] at hl
      | some hh =>
        rw [hg] at hl hd
        obtain ⟨o, a, hgr⟩ := (hw g hh hg).2 _ _ hl Q (under_append _ _) (by simp)
        simp only at hd
        rw [hd] at hgr; simp at hgr
  rw [this, foldl_stepWith_none]

theorem followN_LINKFUEL (fs : FS) : followN fs LINKFUEL = resolveN fs (LINKFUEL - 1) := rfl

/-- one step of the resolver from a resolved location, in the cases the traversal distinguishes -/
theorem resolve_step {fs : FS} {f : String} {disp : Path} {g : String} {P : Path} (x : String)
    (hd : resolveN fs LINKFUEL f disp = some (g, P)) :
    resolveN fs LINKFUEL f (disp ++ [x]) =
      match lookupE fs g (P ++ [x]) with
      | none => none
      | some (.group _ _) => some (g, P ++ [x])
      | some (.dataset _) => some (g, P ++ [x])
      | some (.soft t) => resolveN fs (LINKFUEL - 1) g t
      | some (.ext g' t) => resolveN fs (LINKFUEL - 1) g' t := by
  rw [resolveN_snoc, hd, followN_LINKFUEL]
  unfold stepWith
  simp only
  cases lookupE fs g (P ++ [x]) with
  | none => rfl
  | some e => cases e <;> rfl

theorem isCooler_of_resolve {fs : FS} {f : String} {p : Path} {l : Loc}
    (h : resolveN fs LINKFUEL f p = some l) : isCooler fs f p = isCoolerAt fs l := by
  unfold isCooler isCoolerSpec isCoolerN
  rw [h]

section WalkSoft
variable {fs : FS} (hw : WF fs) (hne : NoExt fs) (hst : StableLinks fs) (f : String)
include hw hne hst

omit hw in
/-- soundness of the traversal: whatever it lists is recognised under the listed name -/
theorem walk_soft_sound (p : Path) :
    ∀ (n : Nat) (g : String) (P disp : Path), resolveN fs LINKFUEL f disp = some (g, P) →
      Item.path p ∈ walk fs Variant.spec n g P disp → isCooler fs f p = true := by
  intro n
  induction n with
  | zero => intro g P disp _ h; simp [walk] at h
  | succ n ih =>
    intro g P disp hd h
    unfold walk at h
    cases hg : getFile fs g with
    | none => simp [hg] at h
    | some hh =>
      simp only [hg, List.mem_flatMap] at h
      obtain ⟨x, _, hx⟩ := h
      have hE : lookupE fs g (P ++ [x]) = lookupK hh.entries (P ++ [x]) := by unfold lookupE; rw [hg]
      have hstep := resolve_step x hd
      rw [hE] at hstep
      cases hl : lookupK hh.entries (P ++ [x]) with
      | none => simp [hl] at hx
      | some e =>
        rw [hl] at hx hstep
        cases e with
        | dataset c => simp at hx
        | ext g' t => exact absurd hl (hne g hh _ g' t hg)
        | group o a =>
          simp only [List.mem_append] at hx hstep
          rcases hx with hx | hx
          · by_cases hf : fmtOK a = true
            · simp only [hf, if_true, List.mem_singleton, Item.path.injEq] at hx
              subst hx
              rw [isCooler_of_resolve hstep]
              simp [isCoolerAt, hE, hl, coolerEntry, hf]
            · simp [hf] at hx
          · exact ih g (P ++ [x]) (disp ++ [x]) hstep hx
        | soft t =>
          simp only at hx hstep
          have hstab := hst g hh _ t hg hl
          rw [hstab] at hstep
          cases hr : resolve fs g t with
          | none =>
            rw [hr] at hx
            simp at hx
          | some l1 =>
            obtain ⟨g', Q⟩ := l1
            rw [hr] at hx
            simp only at hx
            have hstep' : resolveN fs LINKFUEL f (disp ++ [x]) = some (g', Q) := by rw [hstep]; exact hr
            cases hq : lookupE fs g' Q with
            | none => simp [hq] at hx
            | some eq =>
              rw [hq] at hx
              cases eq with
              | group o a =>
                simp only [List.mem_append] at hx
                rcases hx with hx | hx
                · by_cases hf : fmtOK a = true
                  · simp only [hf, if_true, List.mem_singleton, Item.path.injEq] at hx
                    subst hx
                    rw [isCooler_of_resolve hstep']
                    simp [isCoolerAt, hq, coolerEntry, hf]
                  · simp [hf] at hx
                · exact ih g' Q (disp ++ [x]) hstep' hx
              | dataset c => simp at hx
              | soft t' => simp at hx
              | ext g'' t' => simp at hx

/-- completeness of a traversal that never ran out of recursion budget -/
theorem walk_soft_complete :
    ∀ (r : Path) (n : Nat) (g : String) (P disp : Path) (l : Loc),
      resolveN fs LINKFUEL f disp = some (g, P) →
      Item.fuel ∉ walk fs Variant.spec n g P disp → r ≠ [] →
      resolveN fs LINKFUEL f (disp ++ r) = some l → isCoolerAt fs l = true →
      Item.path (disp ++ r) ∈ walk fs Variant.spec n g P disp := by
  intro r
  induction r with
  | nil => intro n g P disp l _ _ hr; exact absurd rfl hr
  | cons x r ih =>
    intro n g P disp l hd hnf _ hres hcool
    cases n with
    | zero => simp [walk] at hnf
    | succ n =>
      have e : disp ++ x :: r = (disp ++ [x]) ++ r := by simp
      rw [e, resolveN_append] at hres
      obtain ⟨l1, hl1⟩ := foldl_some_of_foldl hres
      have hstep := resolve_step x hd
      rw [hl1] at hstep
      -- the file of the current location exists
      have hfile : ∃ hh, getFile fs g = some hh := by
        cases hgg : getFile fs g with
        | some hh => exact ⟨hh, rfl⟩
        | none =>
          exfalso
          rw [lookupE_absent hgg] at hstep
          simp at hstep
      obtain ⟨hh, hg⟩ := hfile
      have hE : lookupE fs g (P ++ [x]) = lookupK hh.entries (P ++ [x]) := by unfold lookupE; rw [hg]
      rw [hE] at hstep
      -- membership in the traversal of `(g, P)`
      have hmem : ∀ it, (lookupK hh.entries (P ++ [x])).isSome →
          it ∈ (match lookupK hh.entries (P ++ [x]) with
            | none => []
            | some (.dataset _) => []
            | some (.group _ a) =>
              (if fmtOK a then [Item.path (disp ++ [x])] else []) ++ walk fs Variant.spec n g (P ++ [x]) (disp ++ [x])
            | some (.soft t) =>
              match resolve fs g t with
              | none => []
              | some (g', Q) =>
                match lookupE fs g' Q with
                | some (.group _ a) =>
                  (if fmtOK a then [Item.path (disp ++ [x])] else []) ++ walk fs Variant.spec n g' Q (disp ++ [x])
                | _ => []
            | some (.ext g0 t) =>
              if g0 = g then [.fuel] else
              match resolve fs g0 t with
              | none => []
              | some (g', Q) =>
                let d := linkName fs Variant.spec g0 t (disp ++ [x])
                match lookupE fs g' Q with
                | some (.group _ a) =>
                  (if fmtOK a then [Item.path d] else []) ++ walk fs Variant.spec n g' Q d
                | _ => []) →
          it ∈ walk fs Variant.spec (n + 1) g P disp := by
        intro it hs hit
        simp only [walk, hg, List.mem_flatMap]
        exact ⟨x, (mem_childNames _ _ _).2 hs, hit⟩
      cases hl : lookupK hh.entries (P ++ [x]) with
      | none => rw [hl] at hstep; simp at hstep
      | some e0 =>
        rw [hl] at hstep hmem
        have hsome : (some e0 : Option Entry).isSome = true := rfl
        cases e0 with
        | ext g' t => exact absurd hl (hne g hh _ g' t hg)
        | dataset c =>
          simp only at hstep
          have hl1' : resolveN fs LINKFUEL f (disp ++ [x]) = some (g, P ++ [x]) := by rw [hl1]; exact hstep.symm ▸ rfl
          cases r with
          | nil =>
            simp only [List.foldl_nil] at hres
            rw [hl1] at hres
            have : l = (g, P ++ [x]) := by rw [← Option.some.inj hres]; exact Option.some.inj hstep
            subst this
            simp [isCoolerAt, hE, hl, coolerEntry] at hcool
          | cons y r' =>
            have := resolve_below_dataset hw hl1' (by rw [hE, hl]) y r'
            rw [resolveN_append] at this
            rw [this] at hres; simp at hres
        | group o a =>
          simp only at hstep
          have hl1' : resolveN fs LINKFUEL f (disp ++ [x]) = some (g, P ++ [x]) := by rw [hl1]; exact hstep.symm ▸ rfl
          by_cases hr : r = []
          · subst hr
            simp only [List.foldl_nil] at hres
            rw [hl1] at hres
            have : l = (g, P ++ [x]) := by rw [← Option.some.inj hres]; exact Option.some.inj hstep
            subst this
            have hf : fmtOK a = true := by simpa [isCoolerAt, hE, hl, coolerEntry] using hcool
            rw [e]
            simp only [List.append_nil]
            exact hmem _ hsome (by simp [hf])
          · have hsubnf : Item.fuel ∉ walk fs Variant.spec n g (P ++ [x]) (disp ++ [x]) := by
              intro hc
              exact hnf (hmem _ hsome (List.mem_append_right _ hc))
            rw [← resolveN_append] at hres
            have := ih n g (P ++ [x]) (disp ++ [x]) l hl1' hsubnf hr hres hcool
            rw [e]
            exact hmem _ hsome (List.mem_append_right _ this)
        | soft t =>
          simp only at hstep
          have hstab := hst g hh _ t hg hl
          rw [hstab] at hstep
          obtain ⟨g', Q⟩ := l1
          have hr0 : resolve fs g t = some (g', Q) := hstep.symm
          have hl1' : resolveN fs LINKFUEL f (disp ++ [x]) = some (g', Q) := hl1
          obtain ⟨eq, heq, hobj⟩ := resolveN_present hw _ _ _ _ _ hr0
          rcases hobj with ⟨o, a, rfl⟩ | ⟨c, rfl⟩
          · have hbranch : ∀ it, it ∈ (if fmtOK a then [Item.path (disp ++ [x])] else []) ++
                walk fs Variant.spec n g' Q (disp ++ [x]) → it ∈ walk fs Variant.spec (n + 1) g P disp := by
              intro it hit
              refine hmem it hsome ?_
              simp only [hr0, heq]
              exact hit
            by_cases hr : r = []
            · subst hr
              simp only [List.foldl_nil] at hres
              rw [hl1] at hres
              have : l = (g', Q) := (Option.some.inj hres).symm
              subst this
              have hf : fmtOK a = true := by simpa [isCoolerAt, heq, coolerEntry] using hcool
              rw [e]
              simp only [List.append_nil]
              exact hbranch _ (by simp [hf])
            · have hsubnf : Item.fuel ∉ walk fs Variant.spec n g' Q (disp ++ [x]) := by
                intro hc
                exact hnf (hbranch _ (List.mem_append_right _ hc))
              rw [← resolveN_append] at hres
              have := ih n g' Q (disp ++ [x]) l hl1' hsubnf hr hres hcool
              rw [e]
              exact hbranch _ (List.mem_append_right _ this)
          · cases r with
            | nil =>
              simp only [List.foldl_nil] at hres
              rw [hl1] at hres
              have : l = (g', Q) := (Option.some.inj hres).symm
              subst this
              simp [isCoolerAt, heq, coolerEntry] at hcool
            | cons y r' =>
              have := resolve_below_dataset hw hl1' heq y r'
              rw [resolveN_append] at this
              rw [this] at hres; simp at hres

end WalkSoft

/-- **list_exact with soft links**: in a well-formed file system without external links whose soft
links are nested less than `LINKFUEL` deep, whenever the traversal of file `f` completed (no
recursion-budget exhaustion, i.e. `listing` answers `.ok` — a cyclic namespace is the one case
excluded, and it is the one case the correspondence gives no verdict on), `list_coolers` names
exactly the paths `is_cooler` recognises: collections reached THROUGH a soft link are listed under
the link's path, a dangling link is skipped and is not recognised. -/
theorem list_exact_soft {fs : FS} (hw : WF fs) (hne : NoExt fs) (hst : StableLinks fs) {f : String} {h : H5File}
    (hg : getFile fs f = some h) (hnf : Item.fuel ∉ listItems fs Variant.spec f) (p : Path) :
    p ∈ listCoolers fs f ↔ isCooler fs f p = true := by
  have hroot : resolveN fs LINKFUEL f [] = some (f, []) := by
    rw [resolveN_nil]; unfold start; rw [hg]
  unfold listCoolers
  rw [mem_itemPaths]
  unfold listItems at hnf ⊢
  rw [List.mem_append] at hnf ⊢
  constructor
  · rintro (h1 | h1)
    · split at h1
      · rename_i hc
        simp only [List.mem_singleton, Item.path.injEq] at h1
        subst h1
        rw [isCooler_of_resolve hroot]; exact hc
      · simp at h1
    · exact walk_soft_sound hne hst f p _ f [] [] hroot h1
  · intro hc
    by_cases hp : p = []
    · subst hp
      left
      rw [isCooler_of_resolve hroot] at hc
      have : coolerEntry (lookupE fs f []) = true := hc
      simp [this]
    · right
      unfold isCooler isCoolerSpec isCoolerN at hc
      cases hr : resolveN fs LINKFUEL f p with
      | none => simp [hr] at hc
      | some l =>
        simp only [hr] at hc
        have := walk_soft_complete hw hne hst f p _ f [] [] l hroot (fun hh => hnf (Or.inr hh)) hp
          (by simpa using hr) hc
        simpa using this

/-- the same in terms of the model of `fileops.list_coolers` itself -/
theorem listing_exact_soft {fs : FS} (hw : WF fs) (hne : NoExt fs) (hst : StableLinks fs) {f : String}
    {ps : List Path} (hl : listing fs Variant.spec f = .ok ps) (p : Path) :
    p ∈ ps ↔ isCooler fs f p = true := by
  unfold listing at hl
  cases hg : getFile fs f with
  | none => simp [hg] at hl
  | some h =>
    simp only [hg] at hl
    split at hl
    · simp at hl
    · rename_i hc
      simp only [Listing.ok.injEq] at hl
      subst hl
      have hnf : Item.fuel ∉ listItems fs Variant.spec f := by
        intro hm; apply hc; simpa using hm
      exact list_exact_soft hw hne hst hg hnf p

/-! decidable forms of the two hypotheses, for concrete file systems -/

def noExtB (fs : FS) : Bool :=
  fs.all (fun gh => gh.2.entries.all (fun ke => match ke.2 with | .ext _ _ => false | _ => true))

def stableB (fs : FS) : Bool :=
  fs.all (fun gh => gh.2.entries.all (fun ke =>
    match ke.2 with
    | .soft t => decide (resolveN fs (LINKFUEL - 1) gh.1 t = resolveN fs LINKFUEL gh.1 t)
    | _ => true))

theorem noExt_of_b {fs : FS} (h : noExtB fs = true) : NoExt fs := by
  intro g hh k g' t hg hl
  unfold noExtB at h
  rw [List.all_eq_true] at h
  have h1 := h _ (getFile_mem hg)
  rw [List.all_eq_true] at h1
  have := h1 _ (lookupK_mem hl)
  simp at this

theorem stable_of_b {fs : FS} (h : stableB fs = true) : StableLinks fs := by
  intro g hh k t hg hl
  unfold stableB at h
  rw [List.all_eq_true] at h
  have h1 := h _ (getFile_mem hg)
  rw [List.all_eq_true] at h1
  have := h1 _ (lookupK_mem hl)
  simpa using this

/-- non-vacuity: a collection, a soft link to it, a soft link to that link, a soft link INTO a group
whose child is a collection, and a dangling link — all hypotheses hold, the listing names the
collections under the links' paths as well -/
def fsSoft : FS := run Variant.spec []
  [.create "A" ["a", "b"] .a 1, .ln "A" ["a", "b"] "A" ["c"] true false, .ln "A" ["c"] "A" ["d"] true false,
   .ln "A" ["a"] "A" ["e"] true false, .ln "A" ["zz"] "A" ["y"] true false]

example : noExtB fsSoft = true ∧ stableB fsSoft = true ∧
    listing fsSoft Variant.spec "A" = .ok [["a", "b"], ["c"], ["d"], ["e", "b"]] ∧
    isCooler fsSoft "A" ["e", "b"] = true ∧ isCooler fsSoft "A" ["y"] = false := by decide

example (p : Path) : p ∈ [["a", "b"], ["c"], ["d"], ["e", "b"]] ↔ isCooler fsSoft "A" p = true :=
  listing_exact_soft (run_wf Variant.spec _ [] wf_nil) (noExt_of_b (by decide)) (stable_of_b (by decide))
    (by decide) p

/-! ### creating at a name that is an untraversable link -/

/-- `create` at a group path whose own name is a link that cannot be traversed (a cycle of links) is
refused with RuntimeError and leaves the opened file system exactly as it was — trivially the frame
property: nothing is touched.  (h5py's `create_group` reports "too many links" there instead of the
ValueError that makes `create` delete the name; a link that merely dangles IS replaced.) -/
theorem create_at_untraversable_refused {fs1 : FS} {f : String} {hh : H5File} {p : Path} {x : String} {c : Nat}
    {h1 : H5File} {P : Path} (hm : mkdirP fs1 f hh [] p.dropLast = .ok (h1, P))
    (hu : untraversableAt fs1 f h1 (P ++ [x]) = true) : createAt fs1 f hh p x c = (fs1, .err .runtime) := by
  unfold createAt
  simp [hm, hu]

example :
    let fs := run Variant.current [] [.create "B" ["c"] .a 3, .ln "B" ["a", "b"] "B" ["a"] true false]
    createCooler fs "B" ["a"] .a 31 = (fs, .err .runtime) ∧
    -- a dangling link is replaced
    (createCooler (run Variant.current [] [.ln "B" ["zz"] "B" ["a"] true false]) "B" ["a"] .a 31).2 = .ok := by
  decide

end Cooler.C15
