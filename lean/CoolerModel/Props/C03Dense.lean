import CoolerModel.Props.C03Core
import CoolerModel.Props.GroupSumLemmas
/-!
# C03 (continued) — dense output

`coo_matrix(...).toarray()` SUMS the entries emitted at one coordinate, so the dense array equals the
sub-block of the full matrix exactly because the engines emit every element once (`fillLower_nodup`,
`direct_correct`).  Here: cell `(r,c)` of the dense output = value of the full matrix at
`(i0+r, j0+c)` (stored value, mirrored in symmetric-upper mode, else 0).
-/
set_option linter.unusedSimpArgs false
set_option linter.unusedVariables false

namespace Cooler.C03
open Cooler

theorem foldl_add_eq (l : List Int) (z : Int) : l.foldl (· + ·) z = z + l.foldl (· + ·) 0 := by
  induction l generalizing z with
  | nil => simp
  | cons x rest ih =>
    simp only [List.foldl_cons]
    rw [ih (z + x), ih (0 + x)]
    omega

/-- the dense cell is the per-key total of the emitted entries -/
theorem cellSum_eq_sumAt (out : Pixels) (b : Box) (r c : Nat) :
    cellSum out b r c = sumAt out (b.i0 + r) (b.j0 + c) := by
  unfold cellSum
  induction out with
  | nil => simp [sumAt]
  | cons p rest ih =>
    by_cases h : p.i = b.i0 + r ∧ p.j = b.j0 + c
    · have hb : (p.i == b.i0 + r && p.j == b.j0 + c) = true := by simp [h.1, h.2]
      simp only [List.filter_cons, hb, if_true]
      simp only [List.map_cons, List.foldl_cons, sumAt, if_pos h]
      rw [foldl_add_eq, ih]; omega
    · have hb : (p.i == b.i0 + r && p.j == b.j0 + c) = false := by
        rw [Bool.eq_false_iff]
        simp only [ne_eq, Bool.and_eq_true, beq_iff_eq]; exact h
      simp only [List.filter_cons, hb, Bool.false_eq_true, if_false]
      simp only [sumAt, if_neg h]
      rw [ih]; omega

theorem sumAt_filter_inBox (l : Pixels) (b : Box) (x y : Nat)
    (hx : b.i0 ≤ x ∧ x < b.i1) (hy : b.j0 ≤ y ∧ y < b.j1) :
    sumAt (l.filter (inBox b)) x y = sumAt l x y := by
  induction l with
  | nil => rfl
  | cons p rest ih =>
    by_cases hb : inBox b p = true
    · simp only [List.filter_cons, hb, if_true, sumAt, ih]
    · have hb' : inBox b p = false := by simpa using hb
      simp only [List.filter_cons, hb', Bool.false_eq_true, if_false, sumAt, ih]
      have : ¬ (p.i = x ∧ p.j = y) := by
        rintro ⟨rfl, rfl⟩
        apply hb
        rw [inBox_iff]; omega
      simp [this]

/-- in a strictly sorted table the per-key total is the stored value (or 0) -/
theorem sumAt_eq_find (ps : Pixels) (hs : StrictSorted ps) (x y : Nat) :
    sumAt ps x y = match ps.find? (fun p => p.i == x && p.j == y) with
      | some p => p.v
      | none => 0 := by
  induction ps with
  | nil => simp [sumAt]
  | cons p rest ih =>
    have hs' : StrictSorted rest := (List.pairwise_cons.mp hs).2
    have hp := (List.pairwise_cons.mp hs).1
    by_cases h : p.i = x ∧ p.j = y
    · have hb : (p.i == x && p.j == y) = true := by simp [h.1, h.2]
      simp only [List.find?_cons, hb]
      simp only [sumAt, if_pos h]
      have : ¬ hasKey rest x y := by
        rintro ⟨q, hq, hk⟩
        have := hp q hq
        unfold keyLt at this; omega
      rw [sumAt_eq_zero_of_not_hasKey rest x y this]; omega
    · have hb : (p.i == x && p.j == y) = false := by
        rw [Bool.eq_false_iff]
        simp only [ne_eq, Bool.and_eq_true, beq_iff_eq]; exact h
      simp only [List.find?_cons, hb]
      simp only [sumAt, if_neg h, ih hs']
      omega

@[simp] theorem swap_v (p : Px) : p.swap.v = p.v := rfl

theorem sumAt_map_swap (l : Pixels) (x y : Nat) : sumAt (l.map Px.swap) x y = sumAt l y x := by
  induction l with
  | nil => rfl
  | cons p rest ih =>
    simp only [List.map_cons, sumAt, ih, swap_i, swap_j, swap_v]
    have : (p.j = x ∧ p.i = y) ↔ (p.i = y ∧ p.j = x) := ⟨fun h => ⟨h.2, h.1⟩, fun h => ⟨h.2, h.1⟩⟩
    simp only [this]

theorem sumAt_filter_offdiag (l : Pixels) (x y : Nat) (h : x ≠ y) :
    sumAt (l.filter fun p => decide (p.i ≠ p.j)) x y = sumAt l x y := by
  induction l with
  | nil => rfl
  | cons p rest ih =>
    by_cases hd : p.i ≠ p.j
    · have hb : decide (p.i ≠ p.j) = true := by simpa using hd
      simp only [List.filter_cons, hb, if_true, sumAt, ih]
    · have hb : decide (p.i ≠ p.j) = false := by simpa using hd
      simp only [List.filter_cons, hb, Bool.false_eq_true, if_false, sumAt, ih]
      have : ¬ (p.i = x ∧ p.j = y) := by
        rintro ⟨rfl, rfl⟩; exact hd h
      simp [this]

theorem sumAt_triu_lower (ps : Pixels) (ht : Triu ps) (x y : Nat) (h : y < x) : sumAt ps x y = 0 := by
  apply sumAt_eq_zero_of_not_hasKey
  rintro ⟨p, hp, rfl, rfl⟩
  have := ht p hp
  omega

/-- per-key total of the symmetric completion = stored value at `(min, max)` -/
theorem sumAt_symCompletion (ps : Pixels) (ht : Triu ps) (x y : Nat) :
    sumAt (symCompletion ps) x y = sumAt ps (min x y) (max x y) := by
  unfold symCompletion
  rw [sumAt_append, sumAt_map_swap]
  by_cases hxy : x = y
  · subst hxy
    have : sumAt (ps.filter fun p => decide (p.i ≠ p.j)) x x = 0 := by
      apply sumAt_eq_zero_of_not_hasKey
      rintro ⟨p, hp, h1, h2⟩
      have := (List.mem_filter.mp hp).2
      simp only [decide_eq_true_eq] at this
      omega
    rw [this]
    simp
  · rw [sumAt_filter_offdiag ps y x (fun h => hxy h.symm)]
    by_cases hlt : x < y
    · rw [sumAt_triu_lower ps ht y x hlt]
      have h1 : min x y = x := by omega
      have h2 : max x y = y := by omega
      rw [h1, h2]; omega
    · have hgt : y < x := by omega
      rw [sumAt_triu_lower ps ht x y hgt]
      have h1 : min x y = y := by omega
      have h2 : max x y = x := by omega
      rw [h1, h2]; omega

theorem fullValue_eq_sumAt (symm : Bool) (ps : Pixels) (hs : StrictSorted ps) (x y : Nat) :
    fullValue symm ps x y = if symm then sumAt ps (min x y) (max x y) else sumAt ps x y := by
  unfold fullValue
  cases symm with
  | true => simp only [if_true]; rw [sumAt_eq_find ps hs]; rfl
  | false => simp only [Bool.false_eq_true, if_false]; rw [sumAt_eq_find ps hs]; rfl

/-- **dense_correct**: any output that is, up to order, the sub-block of the full matrix gives the
dense array whose cell `(r,c)` is the full-matrix value at `(i0+r, j0+c)`. -/
theorem dense_of_perm (symm : Bool) (ps : Pixels) (hs : StrictSorted ps) (ht : symm = true → Triu ps)
    (b : Box) (out : Pixels) (hperm : out.Perm (specWindow symm ps b)) :
    denseOf out b = specDense symm ps b := by
  unfold denseOf specDense
  apply List.map_congr_left
  intro r hr
  apply List.map_congr_left
  intro c hc
  have hr' : r < b.i1 - b.i0 := List.mem_range.mp hr
  have hc' : c < b.j1 - b.j0 := List.mem_range.mp hc
  rw [cellSum_eq_sumAt, sumAt_perm hperm, fullValue_eq_sumAt symm ps hs]
  unfold specWindow
  rw [sumAt_filter_inBox _ b _ _ (by omega) (by omega)]
  cases symm with
  | true => simp only [if_true]; exact sumAt_symCompletion ps (ht rfl) _ _
  | false => simp

/-- dense output of the fill-lower engine (symmetric-upper storage) -/
theorem dense_correct_symm (ps : Pixels) (offs : List Nat) (n : Nat) (hv : ValidSymm ps offs n)
    (spansOf : Box → List (Nat × Nat)) (hsp : ∀ c, validSpans offs c (spansOf c) = true)
    (b : Box) (h0 : b.i0 ≤ b.i1) (h1 : b.j0 ≤ b.j1) (hi : b.i1 ≤ n) (hj : b.j1 ≤ n)
    (out : Pixels) (hout : queryFill ps offs spansOf b = some out) :
    denseOf out b = specDense true ps b :=
  dense_of_perm true ps hv.sorted (fun _ => hv.triu) b out
    (fillLower_correct ps offs n hv spansOf hsp b h0 h1 hi hj out hout)

/-- dense output of the direct engine (square storage) -/
theorem dense_correct_square (ps : Pixels) (hs : StrictSorted ps) (offs : List Nat) (n : Nat)
    (ho : OffsOK ps offs n) (b : Box) (hb : b.i1 ≤ n) (spans : List (Nat × Nat))
    (hv : validSpans offs b spans = true) :
    denseOf (queryDirect ps offs b spans) b = specDense false ps b := by
  apply dense_of_perm false ps hs (by intro h; cases h) b
  rw [direct_eq_spec ps (StrictSorted.rowSorted hs) offs n ho b hb spans hv]

/-- sparse and dense outputs describe the same values -/
theorem sparse_dense_agree (symm : Bool) (ps : Pixels) (hs : StrictSorted ps) (ht : symm = true → Triu ps)
    (b : Box) (o1 o2 : Pixels) (h1 : o1.Perm (specWindow symm ps b)) (h2 : o2.Perm (specWindow symm ps b)) :
    denseOf o1 b = denseOf o2 b := by
  rw [dense_of_perm symm ps hs ht b o1 h1, dense_of_perm symm ps hs ht b o2 h2]

end Cooler.C03
