import CoolerModel.Props.C05Core
/-!
# C05 — `aggregate_records(sort=False)`: grouping in order of first appearance

`groupFirst` (pandas `groupby(sort=False)`) lists the groups in order of first appearance instead of key
order.  `C05Core` shows that it stores the same COUNT under every key; here the statement is completed:
the same sum under every key, every key once, and therefore exactly the same cells as the sorted
aggregation (`groupFirst_perm_groupCells`) — only their order differs, and that order is the order of
first appearance of the keys (`groupFirst_keys`).
-/
namespace Cooler.C05
open Cooler Cooler.Sanitize

theorem sumAt_bumpCell (k : Key) (v : Int) (l : List Cell) (k' : Key) :
    sumAt (bumpCell k v l) k' = sumAt l k' + if k = k' then v else 0 := by
  induction l with
  | nil => simp [bumpCell, sumAt]
  | cons d l ih =>
    unfold bumpCell
    split
    · rename_i h; subst h
      simp only [sumAt]
      split <;> omega
    · simp only [sumAt, ih]; omega

theorem sumAt_foldl_bump (l : List (Key × Int)) (acc : List Cell) (k : Key) :
    sumAt (l.foldl (fun acc kv => bumpCell kv.1 kv.2 acc) acc) k = sumAt acc k + sumOf l k := by
  induction l generalizing acc with
  | nil => simp [sumOf]
  | cons x l ih =>
    rw [List.foldl_cons, ih, sumAt_bumpCell]
    simp only [sumOf]
    split <;> omega

/-- order-of-appearance grouping stores the same sum under every key -/
theorem sumAt_groupFirst (l : List (Key × Int)) (k : Key) :
    sumAt (groupFirst l) k = sumAt (groupCells l) k := by
  unfold groupFirst
  rw [sumAt_foldl_bump, sumAt_groupCells]
  simp [sumAt]

/-! ### every key once -/

def KeysNodup (l : List Cell) : Prop := (l.map Cell.k).Nodup

theorem keys_bumpCell (k : Key) (v : Int) (l : List Cell) :
    (bumpCell k v l).map Cell.k = if k ∈ l.map Cell.k then l.map Cell.k else l.map Cell.k ++ [k] := by
  induction l with
  | nil => simp [bumpCell]
  | cons d l ih =>
    unfold bumpCell
    by_cases h : k = d.k
    · rw [if_pos h]; subst h; simp
    · rw [if_neg h]
      simp only [List.map_cons, ih, List.mem_cons]
      have hne : ¬ (k = d.k) := h
      by_cases hm : k ∈ l.map Cell.k
      · simp [hm]
      · simp [hm, hne]

theorem keysNodup_bumpCell {k : Key} {v : Int} {l : List Cell} (h : KeysNodup l) : KeysNodup (bumpCell k v l) := by
  unfold KeysNodup at *
  rw [keys_bumpCell]
  split
  · exact h
  · rename_i hm
    rw [List.nodup_append]
    refine ⟨h, by simp, ?_⟩
    intro a ha b hb
    simp only [List.mem_singleton] at hb
    subst hb
    intro e; subst e; exact hm ha

theorem keysNodup_foldl_bump (l : List (Key × Int)) (acc : List Cell) (h : KeysNodup acc) :
    KeysNodup (l.foldl (fun acc kv => bumpCell kv.1 kv.2 acc) acc) := by
  induction l generalizing acc with
  | nil => exact h
  | cons x l ih => exact ih _ (keysNodup_bumpCell h)

theorem groupFirst_keysNodup (l : List (Key × Int)) : KeysNodup (groupFirst l) := by
  unfold groupFirst
  exact keysNodup_foldl_bump l [] (by simp [KeysNodup])

theorem sortedCells_keysNodup {l : List Cell} (h : SortedCells l) : KeysNodup l := by
  unfold KeysNodup SortedCells at *
  rw [List.nodup_iff_pairwise_ne, List.pairwise_map]
  exact h.imp fun hlt => klt_ne hlt

/-! ### positivity of the stored counts -/

theorem bumpCell_pos {k : Key} {v : Int} {l : List Cell} (hn : ∀ c ∈ l, 1 ≤ c.n) :
    ∀ c ∈ bumpCell k v l, 1 ≤ c.n := by
  induction l with
  | nil => intro c hc; simp [bumpCell] at hc; subst hc; simp
  | cons d l ih =>
    intro c hc
    unfold bumpCell at hc
    split at hc
    · rcases List.mem_cons.mp hc with h | h
      · subst h; simp
      · exact hn c (List.mem_cons_of_mem _ h)
    · rcases List.mem_cons.mp hc with h | h
      · subst h; exact hn _ (List.mem_cons_self ..)
      · exact ih (fun c hc => hn c (List.mem_cons_of_mem _ hc)) c h

theorem foldl_bump_pos (l : List (Key × Int)) (acc : List Cell) (hn : ∀ c ∈ acc, 1 ≤ c.n) :
    ∀ c ∈ l.foldl (fun acc kv => bumpCell kv.1 kv.2 acc) acc, 1 ≤ c.n := by
  induction l generalizing acc with
  | nil => exact hn
  | cons x l ih => exact ih _ (bumpCell_pos hn)

theorem groupFirst_pos (l : List (Key × Int)) : ∀ c ∈ groupFirst l, 1 ≤ c.n := by
  unfold groupFirst
  exact foldl_bump_pos l [] (by simp)

/-! ### a list of cells with distinct keys is determined by its per-key counts and sums -/

theorem countAt_sumAt_of_mem {l : List Cell} (hk : KeysNodup l) {c : Cell} (hc : c ∈ l) :
    countAt l c.k = c.n ∧ sumAt l c.k = c.s := by
  induction l with
  | nil => simp at hc
  | cons d l ih =>
    unfold KeysNodup at hk
    rw [List.map_cons, List.nodup_cons] at hk
    rcases List.mem_cons.mp hc with h | h
    · subst h
      have hz : ∀ e ∈ l, e.k ≠ c.k := fun e he heq => hk.1 (heq ▸ List.mem_map_of_mem he)
      have hs : sumAt l c.k = 0 := by
        clear ih hc hk
        induction l with
        | nil => rfl
        | cons e l ih2 =>
          simp only [sumAt]
          rw [if_neg (hz e (List.mem_cons_self ..)), ih2 (fun e he => hz e (List.mem_cons_of_mem _ he))]; rfl
      simp only [countAt, sumAt, if_true, countAt_zero_of_not_mem hz, hs]
      omega
    · have hne : d.k ≠ c.k := fun heq => hk.1 (heq ▸ List.mem_map_of_mem h)
      have := ih hk.2 h
      simp only [countAt, sumAt, if_neg hne]
      omega

theorem exists_mem_of_countAt_pos {l : List Cell} {k : Key} (h : 1 ≤ countAt l k) : ∃ c ∈ l, c.k = k := by
  false_or_by_contra
  rename_i hne
  have : countAt l k = 0 := countAt_zero_of_not_mem (fun c hc heq => hne ⟨c, hc, heq⟩)
  omega

theorem cells_ext {A B : List Cell} (hA : KeysNodup A) (hB : KeysNodup B)
    (pA : ∀ c ∈ A, 1 ≤ c.n) (pB : ∀ c ∈ B, 1 ≤ c.n)
    (hc : ∀ k, countAt A k = countAt B k) (hs : ∀ k, sumAt A k = sumAt B k) : A.Perm B := by
  have sub : ∀ {X Y : List Cell}, KeysNodup X → KeysNodup Y → (∀ c ∈ X, 1 ≤ c.n) →
      (∀ k, countAt X k = countAt Y k) → (∀ k, sumAt X k = sumAt Y k) → ∀ c, c ∈ X → c ∈ Y := by
    intro X Y hX hY pX hcc hss c hcX
    have ⟨h1, h2⟩ := countAt_sumAt_of_mem hX hcX
    have hpos : 1 ≤ countAt Y c.k := by rw [← hcc, h1]; exact pX c hcX
    obtain ⟨d, hd, hdk⟩ := exists_mem_of_countAt_pos hpos
    have ⟨g1, g2⟩ := countAt_sumAt_of_mem hY hd
    rw [hdk] at g1 g2
    have hn : d.n = c.n := by rw [← g1, ← hcc, h1]
    have hs' : d.s = c.s := by rw [← g2, ← hss, h2]
    have : d = c := by
      cases d; cases c; simp only [Cell.mk.injEq]; exact ⟨hdk, hn, hs'⟩
    exact this ▸ hd
  have nd : ∀ {X : List Cell}, KeysNodup X → X.Nodup := by
    intro X hX
    unfold KeysNodup List.Nodup at hX
    exact List.Pairwise.of_map Cell.k (fun a b hab e => hab (e ▸ rfl)) hX
  have ndA : A.Nodup := nd hA
  have ndB : B.Nodup := nd hB
  rw [List.perm_ext_iff_of_nodup ndA ndB]
  intro c
  exact ⟨sub hA hB pA hc hs c, sub hB hA pB (fun k => (hc k).symm) (fun k => (hs k).symm) c⟩

/-- **groupFirst_perm_groupCells.**  `aggregate_records(sort=False)` stores exactly the cells (key, number
of records, sum of the value column) that the sorted aggregation stores; only their order differs. -/
theorem groupFirst_perm_groupCells (l : List (Key × Int)) : (groupFirst l).Perm (groupCells l) :=
  cells_ext (groupFirst_keysNodup l) (sortedCells_keysNodup (groupCells_sorted l)) (groupFirst_pos l)
    (groupCells_pos l) (countAt_groupFirst l) (sumAt_groupFirst l)

/-- the same through `aggregateRecords`: the `sort` flag changes the order of the output only -/
theorem aggregateRecords_sort_irrelevant (outs : List Out) :
    (aggregateRecords false outs).Perm (aggregateRecords true outs) := by
  unfold aggregateRecords
  simp only [Bool.false_eq_true, if_false, if_true]
  exact groupFirst_perm_groupCells _

/-- keys in order of first appearance -/
def firstKeys (ks : List Key) : List Key := ks.foldl (fun acc k => if k ∈ acc then acc else acc ++ [k]) []

theorem keys_foldl_bump (l : List (Key × Int)) (acc : List Cell) :
    (l.foldl (fun acc kv => bumpCell kv.1 kv.2 acc) acc).map Cell.k
      = (l.map Prod.fst).foldl (fun acc k => if k ∈ acc then acc else acc ++ [k]) (acc.map Cell.k) := by
  induction l generalizing acc with
  | nil => rfl
  | cons x l ih => rw [List.foldl_cons, ih, keys_bumpCell, List.map_cons, List.foldl_cons]

/-- **groupFirst_keys.**  The groups come out in the order in which their keys first appear in the input. -/
theorem groupFirst_keys (l : List (Key × Int)) : (groupFirst l).map Cell.k = firstKeys (l.map Prod.fst) := by
  unfold groupFirst firstKeys
  rw [keys_foldl_bump]; rfl

/-- non-vacuity: three records, two keys, first appearance order (2,3) then (0,1) -/
example : groupFirst [((2, 3), 5), ((0, 1), 1), ((2, 3), 7)] = [⟨(2, 3), 2, 12⟩, ⟨(0, 1), 1, 1⟩] ∧
    groupCells [((2, 3), 5), ((0, 1), 1), ((2, 3), 7)] = [⟨(0, 1), 1, 1⟩, ⟨(2, 3), 2, 12⟩] := by decide

end Cooler.C05
