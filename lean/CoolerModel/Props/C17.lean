import CoolerModel.Model.Scool
/-!
# C17 — every cell of a single-cell file reads back as the matrix given for it

All statements are about `createScool`, `readPixels`, `readBins`, `readExtras`, `sharedIds`,
`isScoolFile`, `listScoolCells` of `Model/Scool.lean`, which the correspondence harness runs against
`cooler.create_scool`, `Cooler(file::/cells/x)`, h5py object identity, `is_scool_file` and
`list_scool_cells`.

Domain (`Dom`): cell names are distinct valid HDF5 link names (non-empty, no '/', not ".") that a
cooler URI can address (no "::"), at least
one cell for the recognition theorem; with per-cell bin tables the two dictionaries have the same
keys and every table has the common three main columns.  Pixel tables are arbitrary lists
(including empty ones): rejecting malformed pixel tables is `create`'s validation (C13).
-/
namespace Cooler.C17
open Cooler Cooler.Scool

/-! ## small list facts -/

theorem zipPx_map (px : Pixels) : zipPx (px.map Px.i) (px.map Px.j) (px.map Px.v) = px := by
  induction px with
  | nil => rfl
  | cons p ps ih => simp [zipPx, ih]

theorem lookup_map_key {α β} (g : α → String) (h : α → β) :
    ∀ (l : List α) (a : α), (l.map g).Nodup → a ∈ l →
      (l.map fun e => (g e, h e)).lookup (g a) = some (h a) := by
  intro l
  induction l with
  | nil => intro a _ ha; cases ha
  | cons x xs ih =>
    intro a hnd ha
    simp only [List.map_cons, List.nodup_cons, List.mem_map, not_exists, not_and] at hnd
    simp only [List.map_cons, List.lookup_cons]
    rcases List.mem_cons.mp ha with rfl | ha'
    · simp
    · have : (g a == g x) = false := by simpa using hnd.1 a ha'
      rw [this]
      exact ih a hnd.2 ha'

theorem lookup_none_of_not_mem {β} :
    ∀ (l : List (String × β)) (k : String), k ∉ l.map Prod.fst → l.lookup k = none := by
  intro l
  induction l with
  | nil => intro k _; rfl
  | cons x xs ih =>
    obtain ⟨x1, x2⟩ := x
    intro k hk
    simp only [List.map_cons, List.mem_cons, not_or] at hk
    simp only [List.lookup_cons]
    have : (k == x1) = false := by simpa using hk.1
    rw [this]
    exact ih k hk.2

theorem lookup_some_of_mem {β} :
    ∀ (l : List (String × β)) (k : String), k ∈ l.map Prod.fst → ∃ v, l.lookup k = some v ∧ (k, v) ∈ l := by
  intro l
  induction l with
  | nil => intro k hk; cases hk
  | cons x xs ih =>
    obtain ⟨x1, x2⟩ := x
    intro k hk
    simp only [List.lookup_cons]
    by_cases h : k = x1
    · subst h; exact ⟨x2, by simp, by simp⟩
    · have hb : (k == x1) = false := by simpa using h
      rw [hb]
      simp only [List.map_cons, List.mem_cons] at hk
      rcases hk with hk | hk
      · exact absurd hk h
      · obtain ⟨v, h1, h2⟩ := ih k hk
        exact ⟨v, h1, List.mem_cons_of_mem _ h2⟩

theorem lookup_of_mem_nodup {β} :
    ∀ (l : List (String × β)) (k : String) (v : β), (l.map Prod.fst).Nodup → (k, v) ∈ l → l.lookup k = some v := by
  intro l
  induction l with
  | nil => intro k v _ h; cases h
  | cons x xs ih =>
    obtain ⟨x1, x2⟩ := x
    intro k v hnd h
    simp only [List.map_cons, List.nodup_cons] at hnd
    simp only [List.lookup_cons]
    rcases List.mem_cons.mp h with h | h
    · cases h; simp
    · have : k ≠ x1 := by
        intro hk
        apply hnd.1
        rw [← hk]
        exact List.mem_map.mpr ⟨(k, v), h, rfl⟩
      have hb : (k == x1) = false := by simpa using this
      rw [hb]
      exact ih k v hnd.2 h

theorem filter_ne_of_not_mem {β} (name : String) :
    ∀ (l : List (String × β)), name ∉ l.map Prod.fst → l.filter (fun p => p.1 != name) = l := by
  intro l h
  apply List.filter_eq_self.mpr
  intro p hp
  have : p.1 ≠ name := fun e => h (e ▸ List.mem_map.mpr ⟨p, hp, rfl⟩)
  simpa using this

theorem zip_self_all (l : List String) : (l.zip l).all (fun p => p.1 == p.2) = true := by
  induction l with
  | nil => rfl
  | cons x xs ih => simp [ih]

theorem sortNames_perm (l : List String) : (sortNames l).Perm l := List.mergeSort_perm _ _

theorem mem_sortNames {l : List String} {a : String} : a ∈ sortNames l ↔ a ∈ l := List.mem_mergeSort

theorem sortNames_nodup {l : List String} (h : l.Nodup) : (sortNames l).Nodup :=
  (sortNames_perm l).nodup_iff.mpr h

theorem cellName_valid {k : String} (h : validName k = true) : cellName k = k := by
  unfold validName at h
  simp only [Bool.and_eq_true, Bool.not_eq_true', bne_iff_ne] at h
  unfold cellName
  rw [h.1.1.2]
  rfl

/-! ## one `append_scool` creation -/

/-- the root links every cell is tied to -/
structure RootLinks (f : SFile) (rc : Table) (dc ds de : DS) : Prop where
  chroms : f.tables.lookup "chroms" = some rc
  bins : ∃ rb, f.tables.lookup "bins" = some rb ∧ rb.cols.lookup "chrom" = some dc ∧
    rb.cols.lookup "start" = some ds ∧ rb.cols.lookup "end" = some de

theorem appendCell_ok {f : SFile} {rc : Table} {dc ds de : DS} (hr : RootLinks f rc dc ds de)
    (name : String) (t : BinsIn) (px : Pixels) (symm : Bool) :
    appendCell f name t px symm = .ok
      { f with
        cellsId := some (f.cellsId.getD f.next)
        cells := f.cells.filter (fun p => p.1 != name) ++
          [(name, mkColl (if f.cellsId.isSome then f.next else f.next + 1) rc dc ds de t px symm)]
        next := (if f.cellsId.isSome then f.next else f.next + 1) + cellBlock t } := by
  obtain ⟨rb, h1, h2, h3, h4⟩ := hr.bins
  unfold appendCell
  simp only [hr.chroms, h1, h2, h3, h4]

/-! ## the representation invariant of the loop -/

/-- one written cell: link name, first object id of its block, the table and pixels it was given -/
structure Entry where
  name : String
  gid : Nat
  t : BinsIn
  px : Pixels

def Entry.link (rc : Table) (dc ds de : DS) (symm : Bool) (e : Entry) : String × Coll :=
  (e.name, mkColl e.gid rc dc ds de e.t e.px symm)

/-- `/cells` holds exactly the collections of the entries, each in its own block of object ids:
blocks are disjoint, start at or after `lo` and end at or before `f.next` -/
structure Rep (f : SFile) (rc : Table) (dc ds de : DS) (symm : Bool) (lo : Nat) (L : List Entry) : Prop where
  cells : f.cells = L.map (Entry.link rc dc ds de symm)
  disj : L.Pairwise fun a b => a.gid + cellBlock a.t ≤ b.gid
  bound : ∀ e ∈ L, lo ≤ e.gid ∧ e.gid + cellBlock e.t ≤ f.next

theorem link_names (rc : Table) (dc ds de : DS) (symm : Bool) (L : List Entry) :
    (L.map (Entry.link rc dc ds de symm)).map Prod.fst = L.map Entry.name := by
  simp [Entry.link, List.map_map, Function.comp_def]

/-- the loop, for keys that are distinct valid names not yet present -/
theorem appendCells_spec (binsDict : List (String × BinsIn)) (pixels : List (String × Pixels)) (symm : Bool)
    (rc : Table) (dc ds de : DS) (lo : Nat) :
    ∀ (ks : List String) (f : SFile) (L : List Entry),
      RootLinks f rc dc ds de → Rep f rc dc ds de symm lo L → lo ≤ f.next →
      ks.Nodup → (∀ k ∈ ks, validName k = true) → (∀ k ∈ ks, k ∉ L.map Entry.name) →
      (∀ k ∈ ks, ∃ t px, binsDict.lookup k = some t ∧ pixels.lookup k = some px) →
      ∃ f' L', appendCells binsDict pixels symm f ks = .ok f' ∧
        Rep f' rc dc ds de symm lo (L ++ L') ∧ RootLinks f' rc dc ds de ∧
        L'.map Entry.name = ks ∧
        (∀ e ∈ L', binsDict.lookup e.name = some e.t ∧ pixels.lookup e.name = some e.px) ∧
        f'.attrs = f.attrs ∧ f'.tables = f.tables ∧
        (f.cellsId.isSome ∨ ks ≠ [] → f'.cellsId.isSome) := by
  intro ks
  induction ks with
  | nil =>
    intro f L hr hrep _ _ _ _ _
    exact ⟨f, [], rfl, by simpa using hrep, hr, rfl, by simp, rfl, rfl, by simp⟩
  | cons k rest ih =>
    intro f L hr hrep hlo hnd hval hfresh hlook
    obtain ⟨t, px, hb, hp⟩ := hlook k (by simp)
    have hname : cellName k = k := cellName_valid (hval k (by simp))
    simp only [appendCells, hb, hp, hname, appendCell_ok hr]
    -- the file after this cell
    have hkL : k ∉ (f.cells).map Prod.fst := by
      rw [hrep.cells, link_names]; exact hfresh k (by simp)
    rw [filter_ne_of_not_mem k f.cells hkL]
    generalize hgdef : (if f.cellsId.isSome then f.next else f.next + 1) = g
    have hg : f.next ≤ g := by rw [← hgdef]; split <;> omega
    have hr1 : RootLinks { f with cellsId := some (f.cellsId.getD f.next),
                                  cells := f.cells ++ [(k, mkColl g rc dc ds de t px symm)],
                                  next := g + cellBlock t } rc dc ds de := ⟨hr.chroms, hr.bins⟩
    have hrep1 : Rep { f with cellsId := some (f.cellsId.getD f.next),
                              cells := f.cells ++ [(k, mkColl g rc dc ds de t px symm)],
                              next := g + cellBlock t } rc dc ds de symm lo (L ++ [⟨k, g, t, px⟩]) := by
      refine ⟨?_, ?_, ?_⟩
      · simp only [hrep.cells, List.map_append, List.map_cons, List.map_nil, Entry.link]
      · rw [List.pairwise_append]
        refine ⟨hrep.disj, by simp, ?_⟩
        intro a ha b hb'
        simp only [List.mem_singleton] at hb'
        subst hb'
        have := (hrep.bound a ha).2
        simp only
        omega
      · intro x hx
        rcases List.mem_append.mp hx with hx | hx
        · have := hrep.bound x hx
          simp only
          omega
        · simp only [List.mem_singleton] at hx
          subst hx
          have := Nat.le_trans hlo hg
          simp only
          omega
    simp only [List.nodup_cons] at hnd
    have hfresh1 : ∀ k' ∈ rest, k' ∉ (L ++ [(⟨k, g, t, px⟩ : Entry)]).map Entry.name := by
      intro k' hk' hm
      simp only [List.map_append, List.map_cons, List.map_nil, List.mem_append, List.mem_singleton] at hm
      rcases hm with hm | hm
      · exact hfresh k' (List.mem_cons_of_mem _ hk') hm
      · subst hm; exact hnd.1 hk'
    obtain ⟨f', L', h1, h2, h3, h4, h5, h6, h7, h8⟩ :=
      ih _ (L ++ [⟨k, g, t, px⟩]) hr1 hrep1 (by simp only; have := Nat.le_trans hlo hg; omega) hnd.2
        (fun k' hk' => hval k' (List.mem_cons_of_mem _ hk')) hfresh1
        (fun k' hk' => hlook k' (List.mem_cons_of_mem _ hk'))
    refine ⟨f', ⟨k, g, t, px⟩ :: L', h1, by simpa using h2, h3, by simp [h4], ?_, h6, h7, ?_⟩
    · intro x hx
      rcases List.mem_cons.mp hx with rfl | hx
      · exact ⟨hb, hp⟩
      · exact h5 x hx
    · intro _
      exact h8 (Or.inl rfl)

/-! ## the root -/

theorem initRoot_links (t : BinsIn) (n : Nat) :
    RootLinks (initRoot t n)
      ⟨1, [("name", ⟨2, .strs ((chromsOf t.rows).map Prod.fst)⟩), ("length", ⟨3, .nats ((chromsOf t.rows).map Prod.snd)⟩)]⟩
      ⟨5, .nats (chromCodes t.rows)⟩ ⟨6, .nats (t.rows.map BinRow.start)⟩ ⟨7, .nats (t.rows.map BinRow.stop)⟩ := by
  constructor
  · simp [initRoot]
  · refine ⟨_, by simp [initRoot, List.lookup]; rfl, ?_, ?_, ?_⟩ <;> simp [List.lookup]

/-- abbreviations for the root objects of a table -/
def rootChroms (rows : List BinRow) : Table :=
  ⟨1, [("name", ⟨2, .strs ((chromsOf rows).map Prod.fst)⟩), ("length", ⟨3, .nats ((chromsOf rows).map Prod.snd)⟩)]⟩
def rootChromCol (rows : List BinRow) : DS := ⟨5, .nats (chromCodes rows)⟩
def rootStartCol (rows : List BinRow) : DS := ⟨6, .nats (rows.map BinRow.start)⟩
def rootEndCol (rows : List BinRow) : DS := ⟨7, .nats (rows.map BinRow.stop)⟩

/-! ## the domain and the main decomposition -/

/-- the property's domain -/
structure Dom (bins : BinsArg) (pixels : List (String × Pixels)) : Prop where
  keysNodup : (pixels.map Prod.fst).Nodup
  keysValid : ∀ k ∈ pixels.map Prod.fst, validName k = true
  perCell : ∀ d, bins = .perCell d →
    d ≠ [] ∧ (d.map Prod.fst).Nodup ∧ sortNames (d.map Prod.fst) = sortNames (pixels.map Prod.fst) ∧
    ∀ p ∈ d, p.2.rows = commonRows bins

theorem binsDict_lookup {bins : BinsArg} {pixels : List (String × Pixels)} (dom : Dom bins pixels) :
    ∀ k ∈ pixels.map Prod.fst, ∃ t px, (binsDictOf bins pixels).lookup k = some t ∧ pixels.lookup k = some px := by
  intro k hk
  obtain ⟨px, hpx, hmem⟩ := lookup_some_of_mem pixels k hk
  cases bins with
  | common t =>
    refine ⟨t, px, ?_, hpx⟩
    have := lookup_map_key (fun p : String × Pixels => p.1) (fun _ => t) pixels (k, px) dom.keysNodup hmem
    simpa [binsDictOf] using this
  | perCell d =>
    obtain ⟨_, _, hs, _⟩ := dom.perCell d rfl
    have : k ∈ d.map Prod.fst := by
      rw [← mem_sortNames, hs, mem_sortNames]; exact hk
    obtain ⟨t, ht, _⟩ := lookup_some_of_mem d k this
    exact ⟨t, px, ht, hpx⟩

/-- the executable domain test the driver reports is sound for `Dom` -/
theorem dom_of_domB {bins : BinsArg} {pixels : List (String × Pixels)} (h : domB bins pixels = true) :
    Dom bins pixels := by
  unfold domB at h
  simp only [Bool.and_eq_true, decide_eq_true_eq, List.all_eq_true] at h
  refine ⟨h.1.1, ?_, ?_⟩
  · intro k hk; exact h.1.2 k hk
  · intro d hd
    subst hd
    have h2 := h.2
    simp only [Bool.and_eq_true, Bool.not_eq_true', List.isEmpty_eq_false_iff, decide_eq_true_eq,
      beq_iff_eq, List.all_eq_true] at h2
    exact ⟨h2.1.1.1, h2.1.1.2, h2.1.2, fun p hp => h2.2 p hp⟩

/-- **create_scool succeeds on the domain** and the file it leaves is described by a list of entries,
one per given cell, each holding the table and the pixels supplied *for that key*. -/
theorem createScool_rep {bins : BinsArg} {pixels : List (String × Pixels)} (symm : Bool) (dom : Dom bins pixels) :
    ∃ f L, createScool bins pixels symm = .ok f ∧
      Rep f (rootChroms (commonRows bins)) (rootChromCol (commonRows bins)) (rootStartCol (commonRows bins))
        (rootEndCol (commonRows bins)) symm (8 + (rootExtras bins).length) L ∧
      RootLinks f (rootChroms (commonRows bins)) (rootChromCol (commonRows bins)) (rootStartCol (commonRows bins))
        (rootEndCol (commonRows bins)) ∧
      L.map Entry.name = sortNames (pixels.map Prod.fst) ∧
      (∀ e ∈ L, (binsDictOf bins pixels).lookup e.name = some e.t ∧ pixels.lookup e.name = some e.px) ∧
      f.attrs = (initRoot ⟨commonRows bins, rootExtras bins⟩ pixels.length).attrs ∧
      f.tables = (initRoot ⟨commonRows bins, rootExtras bins⟩ pixels.length).tables ∧
      (pixels ≠ [] → f.cellsId.isSome) := by
  have hks : (sortNames (pixels.map Prod.fst)).Nodup := sortNames_nodup dom.keysNodup
  have hval : ∀ k ∈ sortNames (pixels.map Prod.fst), validName k = true :=
    fun k hk => dom.keysValid k (mem_sortNames.mp hk)
  have hlook : ∀ k ∈ sortNames (pixels.map Prod.fst),
      ∃ t px, (binsDictOf bins pixels).lookup k = some t ∧ pixels.lookup k = some px :=
    fun k hk => binsDict_lookup dom k (mem_sortNames.mp hk)
  have hne : pixels ≠ [] → sortNames (pixels.map Prod.fst) ≠ [] := by
    intro h hs
    have := (sortNames_perm (pixels.map Prod.fst)).length_eq
    rw [hs] at this
    cases pixels with
    | nil => exact h rfl
    | cons _ _ => simp at this
  -- the common root
  let root : BinsIn := ⟨commonRows bins, rootExtras bins⟩
  have hrl := initRoot_links root pixels.length
  have hrep0 : Rep (initRoot root pixels.length) (rootChroms (commonRows bins)) (rootChromCol (commonRows bins))
      (rootStartCol (commonRows bins)) (rootEndCol (commonRows bins)) symm (8 + (rootExtras bins).length) [] :=
    ⟨rfl, by simp, by simp⟩
  obtain ⟨f, L, h1, h2, h3, h4, h5, h6, h7, h8⟩ :=
    appendCells_spec (binsDictOf bins pixels) pixels symm _ _ _ _ (8 + (rootExtras bins).length)
      (sortNames (pixels.map Prod.fst)) (initRoot root pixels.length) [] hrl hrep0
      (by show 8 + (rootExtras bins).length ≤ 8 + root.extras.length; exact Nat.le_refl _)
      hks hval (by simp) hlook
  rw [List.nil_append] at h2
  refine ⟨f, L, ?_, h2, h3, h4, h5, h6, h7, fun h => h8 (Or.inr (hne h))⟩
  cases bins with
  | common t => exact h1
  | perCell d =>
    obtain ⟨hd, _, hs, _⟩ := dom.perCell d rfl
    cases d with
    | nil => exact absurd rfl hd
    | cons p rest =>
      unfold createScool
      simp only [hs, zip_self_all, if_true]
      exact h1

/-! ## reading a cell back -/

theorem lookup_binAttrs (rows : List BinRow) (rest : Attrs) (k : String)
    (h1 : k ≠ "bin-type") (h2 : k ≠ "bin-size") : (binAttrs rows ++ rest).lookup k = rest.lookup k := by
  have b1 : (k == "bin-type") = false := by simpa using h1
  have b2 : (k == "bin-size") = false := by simpa using h2
  unfold binAttrs
  cases getBinsize (binTable rows) <;> simp [List.lookup_cons, b1, b2]

theorem attr_nnz (rows : List BinRow) (rest : Attrs) (n : Nat) (h : rest.lookup "nnz" = some (.nat n)) :
    attrNat (binAttrs rows ++ rest) "nnz" = some n := by
  unfold attrNat
  rw [lookup_binAttrs rows rest "nnz" (by decide) (by decide), h]

theorem attr_nbins (rows : List BinRow) (rest : Attrs) (n : Nat) (h : rest.lookup "nbins" = some (.nat n)) :
    attrNat (binAttrs rows ++ rest) "nbins" = some n := by
  unfold attrNat
  rw [lookup_binAttrs rows rest "nbins" (by decide) (by decide), h]

theorem attr_format (rows : List BinRow) (rest : Attrs) (v : AttrVal) (h : rest.lookup "format" = some v) :
    (binAttrs rows ++ rest).lookup "format" = some v := by
  rw [lookup_binAttrs rows rest "format" (by decide) (by decide), h]

theorem cell_of_rep {f : SFile} {rc : Table} {dc ds de : DS} {symm : Bool} {lo : Nat} {L : List Entry}
    (hrep : Rep f rc dc ds de symm lo L) (hnd : (L.map Entry.name).Nodup) (hc : f.cellsId.isSome)
    (e : Entry) (he : e ∈ L) :
    cell f e.name = some (mkColl e.gid rc dc ds de e.t e.px symm) := by
  unfold cell
  rw [if_pos hc, hrep.cells]
  exact lookup_map_key Entry.name (fun e => mkColl e.gid rc dc ds de e.t e.px symm) L e hnd he

theorem readPixels_mkColl {f : SFile} {x : String} {gid : Nat} {rc : Table} {dc ds de : DS} {t : BinsIn}
    {px : Pixels} {symm : Bool} (h : cell f x = some (mkColl gid rc dc ds de t px symm)) :
    readPixels f x = some px := by
  unfold readPixels
  rw [h]
  have hn : attrNat (mkColl gid rc dc ds de t px symm).attrs "nnz" = some px.length :=
    attr_nnz _ _ _ (by simp [List.lookup])
  simp only [hn]
  simp [mkColl, col, List.lookup, Data.getNats, Data.getInts, zipPx_map]

/-! ### the bin table seen through the links -/

theorem mem_chromNames : ∀ (rows : List BinRow) (r : BinRow), r ∈ rows → r.chrom ∈ chromNames rows := by
  intro rows
  induction rows with
  | nil => intro r h; cases h
  | cons x xs ih =>
    intro r hr
    unfold chromNames chromsOf
    split
    · rename_i hany
      rcases List.mem_cons.mp hr with rfl | h
      · simp only [List.any_eq_true, beq_iff_eq] at hany
        obtain ⟨q, hq, hqc⟩ := hany
        have := ih q hq
        rw [hqc] at this
        exact this
      · exact ih r h
    · rcases List.mem_cons.mp hr with rfl | h
      · simp
      · simp only [List.map_cons, List.mem_cons]
        right; exact ih r h

theorem getElem?_idxOf_of_mem : ∀ (l : List String) (a : String), a ∈ l → l[l.idxOf a]? = some a := by
  intro l
  induction l with
  | nil => intro a h; cases h
  | cons x xs ih =>
    intro a ha
    by_cases h : x = a
    · subst h; simp
    · have hb : (x == a) = false := by simpa using h
      rcases List.mem_cons.mp ha with h' | h'
      · exact absurd h'.symm h
      · simp [List.idxOf_cons, hb, ih a h']

theorem zipRows_spec (names : List String) :
    ∀ (rows : List BinRow), (∀ r ∈ rows, names[names.idxOf r.chrom]? = some r.chrom) →
      zipRows names (rows.map fun r => names.idxOf r.chrom) (rows.map BinRow.start) (rows.map BinRow.stop) =
        rows.map fun r => (some r.chrom, r.start, r.stop) := by
  intro rows
  induction rows with
  | nil => intro _; rfl
  | cons r rs ih =>
    intro h
    simp only [List.map_cons, zipRows]
    rw [h r (by simp), ih (fun q hq => h q (List.mem_cons_of_mem _ hq))]

theorem readBins_mkColl {f : SFile} {x : String} {gid : Nat} {rows : List BinRow} {t : BinsIn}
    {px : Pixels} {symm : Bool}
    (h : cell f x = some (mkColl gid (rootChroms rows) (rootChromCol rows) (rootStartCol rows) (rootEndCol rows) t px symm))
    (hrows : t.rows = rows) :
    readBins f x = some (rows.map fun r => (some r.chrom, r.start, r.stop)) := by
  unfold readBins
  rw [h]
  have hn : attrNat (mkColl gid (rootChroms rows) (rootChromCol rows) (rootStartCol rows) (rootEndCol rows) t px symm).attrs
      "nbins" = some rows.length := by
    rw [← hrows]; exact attr_nbins _ _ _ (by simp [List.lookup])
  simp only [hn]
  have hz := zipRows_spec (chromNames rows) rows
    (fun r hr => getElem?_idxOf_of_mem _ _ (mem_chromNames rows r hr))
  simp [mkColl, col, List.lookup, rootChroms, rootChromCol, rootStartCol, rootEndCol, Data.getNats,
    Data.getStrs, chromCodes]
  have hcn : List.map Prod.fst (chromsOf rows) = chromNames rows := rfl
  rw [hcn, hz]
  exact List.take_of_length_le (by simp)

/-- **scool_cell_reads**: in the file `create_scool` leaves, every given cell `x` reads, through the
ordinary interface, as exactly the pixel table supplied under the key `x` (also when that table is
empty), over the common bin table. -/
theorem scool_cell_reads {bins : BinsArg} {pixels : List (String × Pixels)} (symm : Bool)
    (dom : Dom bins pixels) :
    ∃ f, createScool bins pixels symm = .ok f ∧
      ∀ x px, (x, px) ∈ pixels →
        readPixels f x = some px ∧
        readBins f x = some ((commonRows bins).map fun r => (some r.chrom, r.start, r.stop)) := by
  obtain ⟨f, L, hf, hrep, _, hnames, hent, _, _, hcid⟩ := createScool_rep symm dom
  refine ⟨f, hf, ?_⟩
  intro x px hx
  have hne : pixels ≠ [] := by intro h; rw [h] at hx; cases hx
  have hndL : (L.map Entry.name).Nodup := by rw [hnames]; exact sortNames_nodup dom.keysNodup
  have hxk : x ∈ L.map Entry.name := by
    rw [hnames, mem_sortNames]; exact List.mem_map.mpr ⟨(x, px), hx, rfl⟩
  obtain ⟨e, he, hex⟩ := List.mem_map.mp hxk
  have hcell := cell_of_rep hrep hndL (hcid hne) e he
  rw [hex] at hcell
  have hpx : e.px = px := by
    have h1 := (hent e he).2
    rw [hex, lookup_of_mem_nodup pixels x px dom.keysNodup hx] at h1
    exact (Option.some.inj h1).symm
  have hrows : e.t.rows = commonRows bins := by
    have h1 := (hent e he).1
    cases bins with
    | common t =>
      have := lookup_map_key (fun p : String × Pixels => p.1) (fun _ => t) pixels (x, px) dom.keysNodup hx
      simp only [binsDictOf] at h1
      rw [hex] at h1
      simp only at this
      rw [this] at h1
      rw [← Option.some.inj h1]; rfl
    | perCell d =>
      obtain ⟨_, _, _, hall⟩ := dom.perCell d rfl
      simp only [binsDictOf] at h1
      obtain ⟨v, hv, hmem⟩ := lookup_some_of_mem d e.name (by
        apply Classical.byContradiction
        intro hnot
        rw [lookup_none_of_not_mem d e.name hnot] at h1
        cases h1)
      rw [hv] at h1
      rw [← Option.some.inj h1]
      exact hall _ hmem
  refine ⟨?_, readBins_mkColl hcell hrows⟩
  rw [← hpx]
  exact readPixels_mkColl hcell

/-- **scool_bins_shared**: the chromosome table and the three main bin columns of every cell are the
root's own objects (same object ids): the common table is stored once. -/
theorem scool_bins_shared {bins : BinsArg} {pixels : List (String × Pixels)} (symm : Bool)
    (dom : Dom bins pixels) :
    ∃ f, createScool bins pixels symm = .ok f ∧ sharedIds f.tables = some (1, 5, 6, 7) ∧
      ∀ x ∈ pixels.map Prod.fst, ∃ c, cell f x = some c ∧ sharedIds c.tables = sharedIds f.tables := by
  obtain ⟨f, L, hf, hrep, hrl, hnames, _, _, htab, hcid⟩ := createScool_rep symm dom
  have hroot : sharedIds f.tables = some (1, 5, 6, 7) := by
    rw [htab]
    simp [sharedIds, initRoot, List.lookup]
  refine ⟨f, hf, hroot, ?_⟩
  intro x hx
  have hne : pixels ≠ [] := by intro h; rw [h] at hx; cases hx
  have hndL : (L.map Entry.name).Nodup := by rw [hnames]; exact sortNames_nodup dom.keysNodup
  have hxk : x ∈ L.map Entry.name := by rw [hnames, mem_sortNames]; exact hx
  obtain ⟨e, he, hex⟩ := List.mem_map.mp hxk
  have hcell := cell_of_rep hrep hndL (hcid hne) e he
  rw [hex] at hcell
  refine ⟨_, hcell, ?_⟩
  rw [hroot]
  simp [sharedIds, mkColl, List.lookup, rootChroms, rootChromCol, rootStartCol, rootEndCol]

/-! ### per-cell columns -/

theorem extras_filter (g : Nat) :
    ∀ (ex : List (String × List String)) (k : Nat), (∀ n ∈ ex.map Prod.fst, mainCols.contains n = false) →
      ((ex.zipIdx k).map fun p => (p.1.1, (⟨g + p.2, .strs p.1.2⟩ : DS))).filter (fun p => !mainCols.contains p.1) =
        (ex.zipIdx k).map fun p => (p.1.1, (⟨g + p.2, .strs p.1.2⟩ : DS)) := by
  intro ex k h
  apply List.filter_eq_self.mpr
  intro p hp
  obtain ⟨q, hq, rfl⟩ := List.mem_map.mp hp
  have : q.1 ∈ ex := (List.mem_zipIdx hq).2.2 ▸ List.getElem_mem _
  have := h q.1.1 (List.mem_map.mpr ⟨q.1, this, rfl⟩)
  simp only [this]
  rfl

theorem readExtras_mkColl {f : SFile} {x : String} {gid : Nat} {rc : Table} {dc ds de : DS} {t : BinsIn}
    {px : Pixels} {symm : Bool} (h : cell f x = some (mkColl gid rc dc ds de t px symm))
    (hex : ∀ n ∈ t.extras.map Prod.fst, mainCols.contains n = false) :
    readExtras f x = some (t.extras.zipIdx.map fun p => (p.1.1, (⟨gid + 9 + p.2, .strs p.1.2⟩ : DS))) := by
  have hx := extras_filter (gid + 9) t.extras 0 hex
  have hb : (mkColl gid rc dc ds de t px symm).tables.lookup "bins" =
      some ⟨gid + 1, [("chrom", dc), ("start", ds), ("end", de)] ++
        (t.extras.zipIdx.map fun p => (p.1.1, (⟨gid + 9 + p.2, .strs p.1.2⟩ : DS)))⟩ := by
    simp [mkColl, List.lookup_cons]
  have hm : List.filter (fun p : String × DS => !mainCols.contains p.1) [("chrom", dc), ("start", ds), ("end", de)] = [] := by
    simp [mainCols]
  unfold readExtras
  rw [h]
  simp only [hb, List.filter_append, hx, hm, List.nil_append]

theorem zipIdx_values (g : Nat) (ex : List (String × List String)) (k : Nat) :
    ((ex.zipIdx k).map fun p => (p.1.1, (⟨g + p.2, .strs p.1.2⟩ : DS))).map (fun p => (p.1, p.2.data)) =
      ex.map fun p => (p.1, Data.strs p.2) := by
  induction ex generalizing k with
  | nil => rfl
  | cons x xs ih => simp [List.zipIdx_cons, ih]

theorem zipIdx_ids (g : Nat) (ex : List (String × List String)) :
    ∀ p ∈ (ex.zipIdx.map fun p => (p.1.1, (⟨g + p.2, .strs p.1.2⟩ : DS))), g ≤ p.2.id ∧ p.2.id < g + ex.length := by
  intro p hp
  obtain ⟨q, hq, rfl⟩ := List.mem_map.mp hp
  have := (List.mem_zipIdx hq).2.1
  simp only
  omega

/-- **scool_extra_cols_per_cell**: the further bin columns a cell shows are exactly the ones supplied
for *that* cell (names and values), and each is stored in an object of the cell's own: its id is not
below the first id free after the root was written (so it is none of the root's objects), and the
columns of two different cells never share an object. -/
theorem scool_extra_cols_per_cell {bins : BinsArg} {pixels : List (String × Pixels)} (symm : Bool)
    (dom : Dom bins pixels)
    (hex : ∀ p ∈ binsDictOf bins pixels, ∀ n ∈ p.2.extras.map Prod.fst, mainCols.contains n = false) :
    ∃ f, createScool bins pixels symm = .ok f ∧
      (∀ x ∈ pixels.map Prod.fst, ∃ t cols, (binsDictOf bins pixels).lookup x = some t ∧
        readExtras f x = some cols ∧
        cols.map (fun p => (p.1, p.2.data)) = t.extras.map (fun p => (p.1, Data.strs p.2)) ∧
        ∀ p ∈ cols, 8 + (rootExtras bins).length ≤ p.2.id) ∧
      (∀ x ∈ pixels.map Prod.fst, ∀ y ∈ pixels.map Prod.fst, x ≠ y →
        ∀ cx cy, readExtras f x = some cx → readExtras f y = some cy →
          ∀ p ∈ cx, ∀ q ∈ cy, p.2.id ≠ q.2.id) := by
  obtain ⟨f, L, hf, hrep, _, hnames, hent, _, _, hcid⟩ := createScool_rep symm dom
  have hndL : (L.map Entry.name).Nodup := by rw [hnames]; exact sortNames_nodup dom.keysNodup
  -- what `readExtras` returns for the cell of an entry
  have key : ∀ e ∈ L, pixels ≠ [] →
      readExtras f e.name = some (e.t.extras.zipIdx.map fun p => (p.1.1, (⟨e.gid + 9 + p.2, .strs p.1.2⟩ : DS))) := by
    intro e he hne
    have hcell := cell_of_rep hrep hndL (hcid hne) e he
    apply readExtras_mkColl hcell
    have h1 := (hent e he).1
    obtain ⟨v, hv, hmem⟩ := lookup_some_of_mem (binsDictOf bins pixels) e.name (by
      apply Classical.byContradiction
      intro hnot
      rw [lookup_none_of_not_mem _ e.name hnot] at h1
      cases h1)
    rw [hv] at h1
    have := hex _ hmem
    rw [Option.some.inj h1] at this
    exact this
  have entry_of : ∀ x ∈ pixels.map Prod.fst, ∃ e ∈ L, e.name = x := by
    intro x hx
    have hxk : x ∈ L.map Entry.name := by rw [hnames, mem_sortNames]; exact hx
    obtain ⟨e, he, hex'⟩ := List.mem_map.mp hxk
    exact ⟨e, he, hex'⟩
  refine ⟨f, hf, ?_, ?_⟩
  · intro x hx
    have hne : pixels ≠ [] := by intro h; rw [h] at hx; cases hx
    obtain ⟨e, he, rfl⟩ := entry_of x hx
    refine ⟨e.t, _, (hent e he).1, key e he hne, zipIdx_values _ _ _, ?_⟩
    intro p hp
    have h1 := (zipIdx_ids (e.gid + 9) e.t.extras p hp).1
    have h2 := (hrep.bound e he).1
    omega
  · intro x hx y hy hxy cx cy hcx hcy p hp q hq
    have hne : pixels ≠ [] := by intro h; rw [h] at hx; cases hx
    obtain ⟨e1, he1, rfl⟩ := entry_of x hx
    obtain ⟨e2, he2, rfl⟩ := entry_of y hy
    rw [key e1 he1 hne] at hcx
    rw [key e2 he2 hne] at hcy
    rw [← Option.some.inj hcx] at hp
    rw [← Option.some.inj hcy] at hq
    have hp' := zipIdx_ids (e1.gid + 9) e1.t.extras p hp
    have hq' := zipIdx_ids (e2.gid + 9) e2.t.extras q hq
    -- the two blocks are disjoint
    have hdis : e1.gid + cellBlock e1.t ≤ e2.gid ∨ e2.gid + cellBlock e2.t ≤ e1.gid := by
      have hpw := hrep.disj
      have hne12 : e1 ≠ e2 := fun h => hxy (by rw [h])
      obtain ⟨l1, l2, hL⟩ := List.mem_iff_append.mp he1
      rw [hL] at he2 hpw
      rcases List.mem_append.mp he2 with h2 | h2
      · right
        exact (List.pairwise_append.mp hpw).2.2 e2 h2 e1 (by simp)
      · rcases List.mem_cons.mp h2 with h2 | h2
        · exact absurd h2.symm hne12
        · left
          exact (List.pairwise_cons.mp (List.pairwise_append.mp hpw).2.1).1 e2 h2
    unfold cellBlock at hdis
    omega

/-! ## recognition and listing -/

/-- **scool_listing**: with at least one cell the file is recognised as a single-cell file and
`list_scool_cells` returns the paths `/cells/<name>` of exactly the given names, each once (as a
rearrangement: the order `natsorted` puts them in is not part of the property). -/
theorem scool_listing {bins : BinsArg} {pixels : List (String × Pixels)} (symm : Bool)
    (dom : Dom bins pixels) (hne : pixels ≠ [])
    (sort : List String → List String) (hsort : ∀ l, (sort l).Perm l) :
    ∃ f, createScool bins pixels symm = .ok f ∧ isScoolFile f = true ∧
      ∃ l, listScoolCells sort f = .ok l ∧ l.Perm (pixels.map fun p => "/cells/" ++ p.1) := by
  obtain ⟨f, L, hf, hrep, hrl, hnames, _, hattrs, htab, hcid⟩ := createScool_rep symm dom
  have hfmt : f.attrs.lookup "format" = some (.str MAGIC_SCOOL) := by
    rw [hattrs]
    exact attr_format _ _ _ (by simp [List.lookup])
  have hallc : ∀ p ∈ f.cells, isCoolerAttrs p.2.attrs = true := by
    intro p hp
    rw [hrep.cells] at hp
    obtain ⟨e, _, rfl⟩ := List.mem_map.mp hp
    unfold isCoolerAttrs Entry.link
    simp only [mkColl]
    rw [attr_format _ _ (.str MAGIC) (by simp [List.lookup])]
    simp
  have hlen : f.cells.length > 0 := by
    rw [hrep.cells, List.length_map]
    have h1 : L.length = (L.map Entry.name).length := by simp
    rw [h1, hnames, (sortNames_perm _).length_eq]
    cases pixels with
    | nil => exact absurd rfl hne
    | cons _ _ => simp
  have hscool : isScoolFile f = true := by
    unfold isScoolFile
    obtain ⟨rb, hb, _⟩ := hrl.bins
    simp only [hfmt, hrl.chroms, hb, hcid hne, hlen]
    simp only [beq_self_eq_true, if_true, Option.isSome_some, Bool.and_self, Bool.not_true]
    simpa using hallc
  refine ⟨f, hf, hscool, ?_⟩
  unfold listScoolCells
  rw [if_pos hscool]
  refine ⟨_, rfl, ?_⟩
  have hroot : isCoolerAttrs f.attrs = false := by
    unfold isCoolerAttrs; rw [hfmt]; decide
  have hfil : f.cells.filter (fun p => isCoolerAttrs p.2.attrs) = f.cells :=
    List.filter_eq_self.mpr hallc
  have hpaths : coolerPaths f = (sortNames (pixels.map Prod.fst)).map fun n => "/cells/" ++ n := by
    unfold coolerPaths
    rw [hroot, hfil, hrep.cells, ← hnames]
    simp [Entry.link, List.map_map, Function.comp_def]
  have hnoroot : ∀ l : List String, (l.map fun n => "/cells/" ++ n).erase "/" = l.map fun n => "/cells/" ++ n := by
    intro l
    apply List.erase_of_not_mem
    intro h
    obtain ⟨n, _, hn⟩ := List.mem_map.mp h
    have := congrArg String.length hn
    simp [String.length_append] at this
    have h6 : "/cells/".length = 7 := by decide
    have h1 : "/".length = 1 := by decide
    omega
  rw [hpaths, hnoroot]
  refine (hsort _).trans ?_
  have := (sortNames_perm (pixels.map Prod.fst)).map (fun n => "/cells/" ++ n)
  simpa [List.map_map, Function.comp_def] using this

/-! ## what `create_scool` rejects -/

theorem createScool_no_bins (pixels : List (String × Pixels)) (symm : Bool) :
    createScool (.perCell []) pixels symm = .error .value := rfl

/-! ## non-vacuity and concrete behaviour -/

def exRows : List BinRow := [⟨"a", 0, 10⟩, ⟨"a", 10, 15⟩, ⟨"b", 0, 8⟩]
/-- three cells with *different* tables, one empty; "cell10" sorts before "cell2" lexicographically -/
def exPixels : List (String × Pixels) :=
  [("cell2", [⟨0, 0, 1⟩, ⟨0, 2, 2⟩]), ("cell10", []), ("a b.c-d", [⟨1, 1, 5⟩])]
def exCommon : BinsArg := .common ⟨exRows, [("weight", ["0.5", "1.5", "2.5"])]⟩
def exPerCell : BinsArg := .perCell [
  ("cell10", ⟨exRows, [("weight", ["1", "1", "1"])]⟩),
  ("a b.c-d", ⟨exRows, []⟩),
  ("cell2", ⟨exRows, [("weight", ["2", "2", "2"]), ("mask", ["0", "1", "0"])]⟩)]

theorem ex_sorted : sortNames (exPixels.map Prod.fst) = ["a b.c-d", "cell10", "cell2"] := by
  simp [exPixels, sortNames, List.mergeSort, List.MergeSort.Internal.splitInTwo]

example : Dom exCommon exPixels :=
  ⟨by decide, by decide, by intro d h; cases h⟩

example : Dom exPerCell exPixels := by
  refine ⟨by decide, by decide, ?_⟩
  intro d h
  cases h
  refine ⟨by decide, by decide, ?_, ?_⟩
  · rw [ex_sorted]
    simp [sortNames, List.mergeSort, List.MergeSort.Internal.splitInTwo]
  intro p hp
  simp only [List.mem_cons, List.not_mem_nil, or_false] at hp
  rcases hp with rfl | rfl | rfl <;> rfl

/-- the hypothesis of `scool_extra_cols_per_cell` about column names is satisfiable -/
example : ∀ p ∈ binsDictOf exPerCell exPixels, ∀ n ∈ p.2.extras.map Prod.fst, mainCols.contains n = false := by
  decide

/-- outside the domain (observation): keys containing '/' are reduced to their last component, so
two of them can collide and only the later one survives -/
example : validName "x/c1" = false ∧ validName "" = false ∧ validName "." = false ∧
    validName "a::b" = false ∧ validName "a b.c-d" = true ∧ validName "a:b" = true := by
  decide

end Cooler.C17
