import CoolerModel.Model.Merge
import CoolerModel.Props.GroupSumLemmas
import CoolerModel.Props.C02Core
import CoolerModel.Props.C03
/-!
# C07 — merging coolers is the exact element-wise aggregate of the inputs

The epoch partition (`merge_breakpoints`) is a free unit: `merger_eq_spec` holds for EVERY partition
that is a strictly increasing chain from 0 beyond which no input has records.
-/
set_option linter.unusedSimpArgs false
set_option linter.unusedVariables false

namespace Cooler.C07
open Cooler Cooler.Merge

/-- per-input form of the partition contract -/
def ValidPartition (inputs : List Pixels) (a : Nat) (bs : List Nat) : Prop :=
  chainIncr a bs = true ∧ ∀ ps ∈ inputs, off ps ((a :: bs).getLast?.getD 0) = ps.length

theorem chainIncr_last_ge : ∀ (bs : List Nat) (a : Nat), chainIncr a bs = true →
    a ≤ (a :: bs).getLast?.getD 0 := by
  intro bs
  induction bs with
  | nil => intro a _; simp
  | cons b rest ih =>
    intro a h
    simp only [chainIncr, Bool.and_eq_true, decide_eq_true_eq] at h
    have := ih b h.2
    rw [List.getLast?_cons_cons]
    omega

/-! ## rows of an epoch -/

theorem mem_epochRows (inputs : List Pixels) (hs : ∀ ps ∈ inputs, RowSorted ps) (a b : Nat) (hab : a ≤ b)
    (p : Px) (hp : p ∈ epochRows inputs a b) : a ≤ p.i ∧ p.i < b := by
  unfold epochRows at hp
  simp only [List.mem_flatten, List.mem_map] at hp
  obtain ⟨l, ⟨ps, hps, rfl⟩, hpl⟩ := hp
  rw [rowsSlice_eq_filter ps (hs ps hps) a b hab] at hpl
  simpa using (List.mem_filter.mp hpl).2

theorem sumAt_epochRows_append (inputs : List Pixels) {a b c : Nat} (hab : a ≤ b) (hbc : b ≤ c) (i j : Nat) :
    sumAt (epochRows inputs a b) i j + sumAt (epochRows inputs b c) i j = sumAt (epochRows inputs a c) i j := by
  unfold epochRows
  induction inputs with
  | nil => simp [sumAt]
  | cons ps rest ih =>
    simp only [List.map_cons, List.flatten_cons, sumAt_append]
    rw [← rowsSlice_append ps hab hbc, sumAt_append]
    omega

theorem hasKey_epochRows_append (inputs : List Pixels) {a b c : Nat} (hab : a ≤ b) (hbc : b ≤ c) (i j : Nat) :
    hasKey (epochRows inputs a c) i j ↔ hasKey (epochRows inputs a b) i j ∨ hasKey (epochRows inputs b c) i j := by
  unfold epochRows
  induction inputs with
  | nil => simp [hasKey_nil]
  | cons ps rest ih =>
    simp only [List.map_cons, List.flatten_cons, hasKey_append]
    rw [← rowsSlice_append ps hab hbc, hasKey_append, ih]
    constructor
    · rintro ((h | h) | (h | h))
      · exact Or.inl (Or.inl h)
      · exact Or.inr (Or.inl h)
      · exact Or.inl (Or.inr h)
      · exact Or.inr (Or.inr h)
    · rintro ((h | h) | (h | h))
      · exact Or.inl (Or.inl h)
      · exact Or.inr (Or.inl h)
      · exact Or.inl (Or.inr h)
      · exact Or.inr (Or.inr h)

theorem epochRows_self (inputs : List Pixels) (a : Nat) : epochRows inputs a a = [] := by
  unfold epochRows
  induction inputs with
  | nil => rfl
  | cons ps rest ih =>
    simp only [List.map_cons, List.flatten_cons, ih, List.append_nil]
    unfold rowsSlice slicePx; simp

/-- what one epoch contributes -/
theorem epochOut_flatten (inputs : List Pixels) (a b : Nat) :
    (epochOut inputs a b).flatten = groupSum (epochRows inputs a b) := by
  unfold epochOut
  split
  · rename_i h; rw [h]; rfl
  · simp

theorem mem_groupSum_row (l : Pixels) (p : Px) (hp : p ∈ groupSum l) : ∃ q ∈ l, q.i = p.i ∧ q.j = p.j :=
  (hasKey_groupSum l p.i p.j).mp ⟨p, hp, rfl, rfl⟩

/-- the stream over a chain of epochs: strictly sorted, rows inside the chain's range, and the key set
and per-key totals of all the rows of the range -/
theorem mergerFrom_spec (inputs : List Pixels) (hs : ∀ ps ∈ inputs, RowSorted ps) :
    ∀ (bs : List Nat) (a : Nat), chainIncr a bs = true →
      let e := (a :: bs).getLast?.getD 0
      let out := (mergerFrom inputs a bs).flatten
      StrictSorted out ∧ (∀ p ∈ out, a ≤ p.i ∧ p.i < e) ∧
        (∀ i j, sumAt out i j = sumAt (epochRows inputs a e) i j) ∧
        (∀ i j, hasKey out i j ↔ hasKey (epochRows inputs a e) i j) := by
  intro bs
  induction bs with
  | nil =>
    intro a _
    simp only [mergerFrom, List.flatten_nil, List.getLast?_singleton, Option.getD_some, epochRows_self]
    refine ⟨by simp [StrictSorted], by simp, fun _ _ => trivial, fun _ _ => trivial⟩
  | cons b rest ih =>
    intro a h
    simp only [chainIncr, Bool.and_eq_true, decide_eq_true_eq] at h
    obtain ⟨hab, hrest⟩ := h
    have hbe := chainIncr_last_ge rest b hrest
    obtain ⟨ih1, ih2, ih3, ih4⟩ := ih b hrest
    simp only [List.getLast?_cons_cons] at *
    simp only [mergerFrom, List.flatten_append, epochOut_flatten]
    have hrows1 : ∀ p ∈ groupSum (epochRows inputs a b), a ≤ p.i ∧ p.i < b := by
      intro p hp
      obtain ⟨q, hq, hqi, _⟩ := mem_groupSum_row _ p hp
      have := mem_epochRows inputs hs a b (by omega) q hq
      omega
    refine ⟨?_, ?_, ?_, ?_⟩
    · unfold StrictSorted
      rw [List.pairwise_append]
      refine ⟨groupSum_sorted _, ih1, ?_⟩
      intro p hp q hq
      have h1 := hrows1 p hp
      have h2 := ih2 q hq
      unfold keyLt; omega
    · intro p hp
      rcases List.mem_append.mp hp with h1 | h1
      · have := hrows1 p h1; omega
      · have := ih2 p h1; omega
    · intro i j
      rw [sumAt_append, sumAt_groupSum, ih3, sumAt_epochRows_append inputs (by omega) hbe]
    · intro i j
      rw [hasKey_append, hasKey_groupSum, ih4, hasKey_epochRows_append inputs (Nat.le_of_lt hab) hbe]

theorem off_zero (ps : Pixels) : off ps 0 = 0 := by
  unfold off; rw [List.countP_eq_zero]; intro p _; simp

theorem epochRows_all (inputs : List Pixels) (e : Nat) (he : ∀ ps ∈ inputs, off ps e = ps.length) :
    epochRows inputs 0 e = inputs.flatten := by
  unfold epochRows
  congr 1
  conv => rhs; rw [← List.map_id inputs]
  apply List.map_congr_left
  intro ps hps
  unfold rowsSlice slicePx
  rw [off_zero, he ps hps]
  simp

/-- **merger_eq_spec**: for strictly sorted inputs and ANY valid partition (any buffer size), the chunk
stream the merger hands to `create` concatenates to the exact per-pixel aggregate of the inputs, in
storage order. -/
theorem merger_eq_spec (inputs : List Pixels) (hs : ∀ ps ∈ inputs, StrictSorted ps)
    (bs : List Nat) (hv : ValidPartition inputs 0 bs) :
    (merger inputs (0 :: bs)).flatten = mergeSpec inputs := by
  obtain ⟨hc, he⟩ := hv
  have hrs : ∀ ps ∈ inputs, RowSorted ps := fun ps h => C03.StrictSorted.rowSorted (hs ps h)
  obtain ⟨h1, _, h3, h4⟩ := mergerFrom_spec inputs hrs bs 0 hc
  unfold merger mergeSpec
  rw [epochRows_all inputs _ he] at h3 h4
  exact groupSum_eq_of _ _ h1 h4 h3

/-- hence the stream is a valid input for `create` (strictly sorted; see C02.create_valid) -/
theorem merger_stream_sorted (inputs : List Pixels) (hs : ∀ ps ∈ inputs, StrictSorted ps)
    (bs : List Nat) (hv : ValidPartition inputs 0 bs) :
    StrictSorted (merger inputs (0 :: bs)).flatten := by
  rw [merger_eq_spec inputs hs bs hv]; exact groupSum_sorted _

/-- **merge_buffer_independent**: two valid partitions (two buffer sizes) give the same table -/
theorem merge_buffer_independent (inputs : List Pixels) (hs : ∀ ps ∈ inputs, StrictSorted ps)
    (b1 b2 : List Nat) (h1 : ValidPartition inputs 0 b1) (h2 : ValidPartition inputs 0 b2) :
    (merger inputs (0 :: b1)).flatten = (merger inputs (0 :: b2)).flatten := by
  rw [merger_eq_spec inputs hs b1 h1, merger_eq_spec inputs hs b2 h2]

/-! ## algebra of the aggregate -/

/-- **merge_comm**: the order of the inputs does not matter -/
theorem merge_comm (in1 in2 : List Pixels) (h : in1.Perm in2) : mergeSpec in1 = mergeSpec in2 := by
  unfold mergeSpec
  apply groupSum_perm
  have := List.Perm.flatMap_right (fun x : Pixels => x) h
  simpa [List.flatMap_id'] using this

/-- **merge_assoc**: merging a merge with further inputs is merging everything at once -/
theorem merge_assoc (a b : List Pixels) :
    mergeSpec (mergeSpec a :: b) = mergeSpec (a ++ b) := by
  unfold mergeSpec
  simp only [List.flatten_cons, List.flatten_append]
  apply groupSum_eq_of _ _ (groupSum_sorted _)
  · intro i j
    rw [hasKey_groupSum, hasKey_append, hasKey_groupSum, hasKey_append]
  · intro i j
    rw [sumAt_groupSum, sumAt_append, sumAt_groupSum, sumAt_append]

theorem merge_single (a : Pixels) (h : StrictSorted a) : mergeSpec [a] = a := by
  unfold mergeSpec; simp [groupSum_of_sorted a h]

theorem total_cons (p : Px) (l : Pixels) : total (p :: l) = p.v + total l := by
  unfold total
  have := C02.foldl_add_append [p.v] (l.map Px.v) 0
  simp only [List.singleton_append, List.foldl_cons, List.foldl_nil] at this
  simp only [List.map_cons, List.foldl_cons]
  rw [this]; omega

theorem total_append (a b : Pixels) : total (a ++ b) = total a + total b := by
  induction a with
  | nil => simp [total]
  | cons p rest ih => simp only [List.cons_append, total_cons, ih]; omega

theorem total_insertPx (p : Px) (l : Pixels) : total (insertPx p l) = p.v + total l := by
  induction l with
  | nil => simp [insertPx, total_cons]
  | cons q rest ih =>
    unfold insertPx
    split
    · simp [total_cons]
    · split
      · simp only [total_cons]; omega
      · simp only [total_cons, ih]; omega

/-- **merge_sum**: the recorded total of the merge is the sum of the inputs' totals -/
theorem total_groupSum (l : Pixels) : total (groupSum l) = total l := by
  unfold groupSum
  induction l with
  | nil => rfl
  | cons p rest ih => simp only [List.foldr_cons, total_insertPx, ih, total_cons]

theorem total_flatten (ls : List Pixels) : total ls.flatten = ((ls.map total).foldl (· + ·) 0) := by
  induction ls with
  | nil => simp [total]
  | cons a rest ih =>
    simp only [List.flatten_cons, total_append, ih, List.map_cons]
    have := C02.foldl_add_append [total a] (rest.map total) 0
    simp only [List.singleton_append, List.foldl_cons, List.foldl_nil] at this
    simp only [List.foldl_cons]
    rw [this]; omega

theorem merge_sum (inputs : List Pixels) :
    total (mergeSpec inputs) = (inputs.map total).foldl (· + ·) 0 := by
  unfold mergeSpec; rw [total_groupSum, total_flatten]

/-- every stored value is the exact per-pixel aggregate: key present iff present in some input, and
value = sum over the inputs -/
theorem merge_pointwise (inputs : List Pixels) (i j : Nat) :
    sumAt (mergeSpec inputs) i j = sumAt inputs.flatten i j ∧
    (hasKey (mergeSpec inputs) i j ↔ hasKey inputs.flatten i j) :=
  ⟨sumAt_groupSum _ i j, hasKey_groupSum _ i j⟩

/-- non-vacuity: two concrete inputs with an empty leading row range and a valid partition -/
example : ValidPartition [[⟨1, 1, 2⟩, ⟨1, 2, 3⟩], [⟨1, 1, 5⟩, ⟨2, 2, 1⟩]] 0 [1, 2, 3] := by
  refine ⟨by decide, ?_⟩
  intro ps hps
  simp at hps
  rcases hps with rfl | rfl <;> decide

example : (merger [[⟨1, 1, 2⟩, ⟨1, 2, 3⟩], [⟨1, 1, 5⟩, ⟨2, 2, 1⟩]] [0, 1, 2, 3]).flatten
    = [⟨1, 1, 7⟩, ⟨1, 2, 3⟩, ⟨2, 2, 1⟩] := by decide

end Cooler.C07
