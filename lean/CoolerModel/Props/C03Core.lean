import CoolerModel.Props.CSRLemmas
/-!
# C03 — a 2-D range query equals the same slice of the full matrix

Statements are about `Model/CSR.lean`.  `ps` is the stored pixel table, `offs` the stored
`bin1_offset` array, `n` the number of bins.  Spans (`get_spans`) are a free unit: every theorem
holds for ANY span list satisfying the contract `validSpans`.
-/
set_option linter.unusedSimpArgs false
set_option linter.unusedVariables false

namespace Cooler.C03
open Cooler

/-! ## helpers -/

theorem inBox_iff (b : Box) (p : Px) :
    inBox b p = true ↔ b.i0 ≤ p.i ∧ p.i < b.i1 ∧ b.j0 ≤ p.j ∧ p.j < b.j1 := by
  simp [inBox, and_assoc]

theorem inBox_eq (b : Box) (p : Px) :
    inBox b p = (decide (b.i0 ≤ p.i ∧ p.i < b.i1) && inCols b.j0 b.j1 p) := by
  simp [inBox, inCols, Bool.and_assoc]

theorem spansChain_le : ∀ (spans : List (Nat × Nat)) (a e : Nat), spansChain a spans = some e → a ≤ e := by
  intro spans
  induction spans with
  | nil => intro a e h; simp [spansChain] at h; omega
  | cons s rest ih =>
    intro a e h
    obtain ⟨s0, s1⟩ := s
    simp only [spansChain] at h
    split at h
    · rename_i hc
      have := ih s1 e h
      omega
    · exact absurd h (by simp)

/-- over a chain of consecutive spans the per-span direct reads concatenate to the rows `[a, e)` -/
theorem chain_direct (ps : Pixels) (hs : RowSorted ps) (offs : List Nat) (n : Nat)
    (ho : OffsOK ps offs n) (j0 j1 : Nat) :
    ∀ (spans : List (Nat × Nat)) (a e : Nat), spansChain a spans = some e → e ≤ n →
      spans.flatMap (fun s => csrDirect ps offs j0 j1 s.1 s.2)
        = ps.filter (fun p => decide (a ≤ p.i ∧ p.i < e) && inCols j0 j1 p) := by
  intro spans
  induction spans with
  | nil =>
    intro a e h _
    simp only [spansChain, Option.some.injEq] at h
    subst h
    simp only [List.flatMap_nil]
    symm
    rw [List.filter_eq_nil_iff]
    intro p _
    simp only [Bool.and_eq_true, decide_eq_true_eq, not_and]
    intro h; omega
  | cons s rest ih =>
    intro a e h he
    obtain ⟨s0, s1⟩ := s
    simp only [spansChain] at h
    split at h
    · rename_i hc
      obtain ⟨rfl, hle⟩ := hc
      have hle2 := spansChain_le rest s1 e h
      rw [List.flatMap_cons, ih s1 e h he, csrDirect_eq_filter ps hs offs n ho j0 j1 s0 s1 (by omega)]
      have e1 : ∀ (A : Px → Bool), ps.filter (fun p => A p && inCols j0 j1 p)
          = (ps.filter A).filter (inCols j0 j1) := by
        intro A
        rw [List.filter_filter]
        apply List.filter_congr
        intro p _
        rw [Bool.and_comm]
      rw [e1, e1, e1, ← List.filter_append, filter_rows_append ps hs hle hle2]
    · exact absurd h (by simp)

/-- rows `[e, i1)` hold no record when the row pointer does not move -/
theorem empty_tail (ps : Pixels) (hs : RowSorted ps) {e i1 : Nat} (h : e ≤ i1)
    (hoff : off ps e = off ps i1) : ps.filter (fun p => decide (e ≤ p.i ∧ p.i < i1)) = [] := by
  rw [← rowsSlice_eq_filter ps hs e i1 h]
  unfold rowsSlice slicePx
  rw [hoff]; simp

/-- all spans together read exactly the stored records of the box, in storage order -/
theorem spans_direct (ps : Pixels) (hs : RowSorted ps) (offs : List Nat) (n : Nat)
    (ho : OffsOK ps offs n) (b : Box) (hb : b.i1 ≤ n) (spans : List (Nat × Nat))
    (hv : validSpans offs b spans = true) :
    spans.flatMap (fun s => csrDirect ps offs b.j0 b.j1 s.1 s.2) = ps.filter (inBox b) := by
  unfold validSpans at hv
  split at hv
  · rename_i hempty
    simp only [List.isEmpty_iff] at hv
    subst hv
    simp only [List.flatMap_nil]
    symm
    rw [List.filter_eq_nil_iff]
    intro p _
    rw [inBox_iff]
    omega
  · rename_i hne
    simp only [Bool.and_eq_true, decide_eq_true_eq] at hv
    obtain ⟨⟨ha, hoffa⟩, hv⟩ := hv
    split at hv
    · rename_i e hch
      simp only [Bool.and_eq_true, decide_eq_true_eq] at hv
      obtain ⟨he, hoffs⟩ := hv
      have hie := spansChain_le spans (spansStart b.i0 spans) e hch
      rw [chain_direct ps hs offs n ho b.j0 b.j1 spans (spansStart b.i0 spans) e hch (by omega)]
      have hoff : off ps e = off ps b.i1 := by
        rw [← ho e (by omega), ← ho b.i1 hb]; exact hoffs
      have hoff0 : off ps b.i0 = off ps (spansStart b.i0 spans) := by
        rw [← ho b.i0 (by omega), ← ho (spansStart b.i0 spans) (by omega)]; exact hoffa
      have htail := empty_tail ps hs he hoff
      have hhead := empty_tail ps hs ha hoff0
      have hsplit := filter_rows_append ps hs hie he
      rw [htail, List.append_nil] at hsplit
      have hsplit0 := filter_rows_append ps hs ha (Nat.le_trans hie he)
      rw [hhead, List.nil_append] at hsplit0
      have e1 : ∀ (A : Px → Bool), ps.filter (fun p => A p && inCols b.j0 b.j1 p)
          = (ps.filter A).filter (inCols b.j0 b.j1) := by
        intro A
        rw [List.filter_filter]
        apply List.filter_congr
        intro p _
        rw [Bool.and_comm]
      rw [e1, hsplit, hsplit0, ← e1]
      apply List.filter_congr
      intro p _
      rw [inBox_eq]
    · exact absurd hv (by simp)

/-! ## direct engine (square storage; `as_pixels` output in either mode) -/

/-- **direct_correct**: `DirectRangeQuery2D(...).get()` returns exactly the stored records inside the
window, in storage order, whatever valid row spans were chosen. -/
theorem direct_correct (ps : Pixels) (hs : RowSorted ps) (offs : List Nat) (n : Nat)
    (ho : OffsOK ps offs n) (b : Box) (hb : b.i1 ≤ n) (spans : List (Nat × Nat))
    (hv : validSpans offs b spans = true) :
    queryDirect ps offs b spans = ps.filter (inBox b) := by
  unfold queryDirect
  simp only [csrRead, Bool.false_eq_true, if_false]
  exact spans_direct ps hs offs n ho b hb spans hv

/-- hence the result does not depend on the read chunk size -/
theorem direct_chunk_independent (ps : Pixels) (hs : RowSorted ps) (offs : List Nat) (n : Nat)
    (ho : OffsOK ps offs n) (b : Box) (hb : b.i1 ≤ n) (sp1 sp2 : List (Nat × Nat))
    (h1 : validSpans offs b sp1 = true) (h2 : validSpans offs b sp2 = true) :
    queryDirect ps offs b sp1 = queryDirect ps offs b sp2 := by
  rw [direct_correct ps hs offs n ho b hb sp1 h1, direct_correct ps hs offs n ho b hb sp2 h2]

/-- and equals L0 in square mode -/
theorem direct_eq_spec (ps : Pixels) (hs : RowSorted ps) (offs : List Nat) (n : Nat)
    (ho : OffsOK ps offs n) (b : Box) (hb : b.i1 ≤ n) (spans : List (Nat × Nat))
    (hv : validSpans offs b spans = true) :
    queryDirect ps offs b spans = specWindow false ps b := by
  rw [direct_correct ps hs offs n ho b hb spans hv]; simp [specWindow]

/-- the model's own span choice satisfies the contract -/
theorem rowSpans_chain : ∀ (k a : Nat),
    spansChain a ((List.range' a k).map fun i => (i, i + 1)) = some (a + k) := by
  intro k
  induction k with
  | zero => intro a; simp [spansChain]
  | succ k ih =>
    intro a
    rw [List.range'_succ, List.map_cons]
    simp only [spansChain, true_and, Nat.le_add_right, if_true]
    rw [ih (a + 1)]
    congr 1; omega

theorem rowSpans_valid (offs : List Nat) (b : Box) : validSpans offs b (rowSpans b) = true := by
  unfold validSpans rowSpans
  split
  · simp
  · rename_i h
    have hk : b.i1 - b.i0 = (b.i1 - b.i0 - 1) + 1 := by omega
    have hstart : spansStart b.i0 ((List.range' b.i0 (b.i1 - b.i0)).map fun i => (i, i + 1)) = b.i0 := by
      rw [hk, List.range'_succ, List.map_cons]; rfl
    rw [hstart, rowSpans_chain]
    have : b.i0 + (b.i1 - b.i0) = b.i1 := by omega
    simp [this]

/-! ## fill-lower engine (symmetric-upper storage) -/

theorem swap_swap (p : Px) : p.swap.swap = p := by cases p; rfl

theorem swap_eq_iff (p q : Px) : p.swap = q ↔ p = q.swap := by
  constructor
  · intro h; rw [← h, swap_swap]
  · intro h; rw [h, swap_swap]

theorem swap_injective : ∀ p q : Px, p.swap = q.swap → p = q := by
  intro p q h
  have := congrArg Px.swap h
  rwa [swap_swap, swap_swap] at this

theorem flatMap_append_perm {α β : Type} (l : List α) (f g : α → List β) :
    (l.flatMap fun a => f a ++ g a).Perm (l.flatMap f ++ l.flatMap g) := by
  induction l with
  | nil => simp
  | cons a l ih =>
    simp only [List.flatMap_cons]
    have h1 : (f a ++ g a ++ List.flatMap (fun a => f a ++ g a) l).Perm
        (f a ++ g a ++ (List.flatMap f l ++ List.flatMap g l)) := List.Perm.append_left _ ih
    refine h1.trans ?_
    have h2 : (g a ++ (List.flatMap f l ++ List.flatMap g l)).Perm
        (List.flatMap f l ++ (g a ++ List.flatMap g l)) := by
      rw [← List.append_assoc, ← List.append_assoc]
      exact List.Perm.append_right _ List.perm_append_comm
    simp only [List.append_assoc]
    exact List.Perm.append_left _ h2

/-- content of one sub-box after reflection: the stored records in the box plus the mirror images of
those that are off the diagonal and whose column lies below the box's row end -/
def reflSpec (ps : Pixels) (c : Box) : Pixels :=
  ps.filter (inBox c) ++ ((ps.filter (inBox c)).filter (toDuplex c.i1)).map Px.swap

def pieceSpec (ps : Pixels) (t : Task) : Pixels :=
  if t.1 then (reflSpec ps t.2).map Px.swap else reflSpec ps t.2

theorem spans_reflect_perm (ps : Pixels) (hs : RowSorted ps) (offs : List Nat) (n : Nat)
    (ho : OffsOK ps offs n) (c : Box) (hc : c.i1 ≤ n) (spans : List (Nat × Nat))
    (hv : validSpans offs c spans = true) :
    (spans.flatMap fun s => csrRead ps offs c s.1 s.2 true).Perm (reflSpec ps c) := by
  simp only [csrRead, if_true]
  refine (flatMap_append_perm spans _ _).trans ?_
  unfold reflSpec
  rw [spans_direct ps hs offs n ho c hc spans hv]
  apply List.Perm.append_left
  have : (spans.flatMap fun s =>
      ((csrDirect ps offs c.j0 c.j1 s.1 s.2).filter (toDuplex c.i1)).map Px.swap)
      = ((spans.flatMap fun s => csrDirect ps offs c.j0 c.j1 s.1 s.2).filter (toDuplex c.i1)).map Px.swap := by
    rw [List.filter_flatMap, List.map_flatMap]
  rw [this, spans_direct ps hs offs n ho c hc spans hv]

theorem runTask_perm (ps : Pixels) (hs : RowSorted ps) (offs : List Nat) (n : Nat)
    (ho : OffsOK ps offs n) (spansOf : Box → List (Nat × Nat))
    (hsp : ∀ c, validSpans offs c (spansOf c) = true) (t : Task) (hc : t.2.i1 ≤ n) :
    (runTask ps offs spansOf t).Perm (pieceSpec ps t) := by
  unfold runTask pieceSpec
  have := spans_reflect_perm ps hs offs n ho t.2 hc (spansOf t.2) (hsp t.2)
  split
  · exact this.map _
  · exact this

theorem mem_reflSpec (ps : Pixels) (c : Box) (q : Px) :
    q ∈ reflSpec ps c ↔
      (q ∈ ps ∧ inBox c q = true) ∨
      (q.swap ∈ ps ∧ inBox c q.swap = true ∧ q.j ≠ q.i ∧ q.i < c.i1) := by
  unfold reflSpec
  simp only [List.mem_append, List.mem_filter, List.mem_map, toDuplex, Bool.and_eq_true,
    decide_eq_true_eq]
  constructor
  · rintro (h | ⟨p, ⟨⟨hp, hb⟩, hd⟩, rfl⟩)
    · exact Or.inl h
    · right
      rw [swap_swap]
      exact ⟨hp, hb, hd.1, hd.2⟩
  · rintro (h | ⟨hp, hb, h1, h2⟩)
    · exact Or.inl h
    · right
      exact ⟨q.swap, ⟨⟨hp, hb⟩, h1, h2⟩, swap_swap q⟩

theorem mem_pieceSpec (ps : Pixels) (t : Task) (q : Px) :
    q ∈ pieceSpec ps t ↔
      (if t.1 then q.swap ∈ reflSpec ps t.2 else q ∈ reflSpec ps t.2) := by
  unfold pieceSpec
  split
  · simp only [List.mem_map]
    constructor
    · rintro ⟨p, hp, rfl⟩; rwa [swap_swap]
    · intro h; exact ⟨q.swap, h, swap_swap q⟩
  · rfl

theorem mem_specWindow_symm (ps : Pixels) (b : Box) (q : Px) :
    q ∈ specWindow true ps b ↔
      inBox b q = true ∧ (q ∈ ps ∨ (q.swap ∈ ps ∧ q.j ≠ q.i)) := by
  unfold specWindow symCompletion
  simp only [if_true, List.mem_filter, List.mem_append, List.mem_map, decide_eq_true_eq]
  constructor
  · rintro ⟨h | ⟨p, ⟨hp, hd⟩, rfl⟩, hb⟩
    · exact ⟨hb, Or.inl h⟩
    · refine ⟨hb, Or.inr ?_⟩
      rw [swap_swap]; exact ⟨hp, hd⟩
  · rintro ⟨hb, h | ⟨hp, hd⟩⟩
    · exact ⟨Or.inl h, hb⟩
    · exact ⟨Or.inr ⟨q.swap, ⟨hp, hd⟩, swap_swap q⟩, hb⟩

/-- **tasks_total**: for every well-formed window the case split succeeds (the
`"This shouldn't happen"` branch is unreachable) and produces one of three shapes. -/
theorem tasks_cases (b : Box) (h0 : b.i0 ≤ b.i1) (h1 : b.j0 ≤ b.j1) :
    ∃ ts, fillLowerTasks b = some ts ∧
      (let T := decide (b.i1 > b.j1)
       let c : Box := if b.i1 > b.j1 then b.transpose else b
       c.i1 ≤ c.j1 ∧
       ((ts = [(T, c)] ∧ (c.i0 = c.j0 ∨ (c.i0 < c.j0 ∧ c.i1 ≤ c.j0))) ∨
        (ts = [(T, ⟨c.i0, c.j0, c.j0, c.j1⟩), (T, ⟨c.j0, c.i1, c.j0, c.j1⟩)] ∧
            c.i0 < c.j0 ∧ c.j0 < c.i1) ∨
        (ts = [(!T, ⟨c.j0, c.i0, c.i0, c.i1⟩), (T, ⟨c.i0, c.i1, c.i0, c.j1⟩)] ∧ c.j0 < c.i0))) := by
  unfold fillLowerTasks
  by_cases hT : b.i1 > b.j1
  · have hle : b.j1 ≤ b.i1 := by omega
    simp only [hT, decide_true, if_true, Box.transpose]
    by_cases e1 : b.j0 = b.i0
    · simp [e1, hle]
    · by_cases e2 : b.j0 < b.i0
      · by_cases e3 : b.j1 ≤ b.i0
        · simp [e1, e2, e3, hle]
        · have e3' : b.i0 < b.j1 := by omega
          simp [e1, e2, e3, e3', hle]
      · have e2' : b.i0 < b.j0 := by omega
        have e4 : b.i0 ≤ b.j0 := by omega
        simp [e1, e2, e2', e4, hle]
  · have hle : b.i1 ≤ b.j1 := by omega
    simp only [hT, decide_false, if_false, Bool.false_eq_true]
    by_cases e1 : b.i0 = b.j0
    · simp [e1, hle]
    · by_cases e2 : b.i0 < b.j0
      · by_cases e3 : b.i1 ≤ b.j0
        · simp [e1, e2, e3, hle]
        · have e3' : b.j0 < b.i1 := by omega
          simp [e1, e2, e3, e3', hle]
      · have e2' : b.j0 < b.i0 := by omega
        have e4 : b.j0 ≤ b.i0 := by omega
        simp [e1, e2, e2', e4, hle]

theorem flatMap_perm_congr {α β : Type} (l : List α) (f g : α → List β)
    (h : ∀ a ∈ l, (f a).Perm (g a)) : (l.flatMap f).Perm (l.flatMap g) := by
  induction l with
  | nil => simp
  | cons a l ih =>
    simp only [List.flatMap_cons]
    exact (h a (by simp)).append (ih fun x hx => h x (List.mem_cons_of_mem _ hx))

@[simp] theorem swap_i (p : Px) : p.swap.i = p.j := rfl
@[simp] theorem swap_j (p : Px) : p.swap.j = p.i := rfl

/-- well-formed symmetric-upper store: strictly sorted, upper triangular, offsets = row pointer -/
structure ValidSymm (ps : Pixels) (offs : List Nat) (n : Nat) : Prop where
  sorted : StrictSorted ps
  triu : Triu ps
  offsOK : OffsOK ps offs n

theorem StrictSorted.rowSorted {ps : Pixels} (h : StrictSorted ps) : RowSorted ps := by
  unfold StrictSorted RowSorted at *
  exact h.imp (fun {a b} hab => by unfold keyLt at hab; omega)

theorem StrictSorted.nodup {ps : Pixels} (h : StrictSorted ps) : ps.Nodup := by
  unfold StrictSorted at h
  exact h.imp (fun {a b} hab heq => by subst heq; unfold keyLt at hab; omega)

/-- the engine's output is, up to order, the concatenation of the per-sub-box contents -/
theorem queryFill_perm (ps : Pixels) (offs : List Nat) (n : Nat) (hv : ValidSymm ps offs n)
    (spansOf : Box → List (Nat × Nat)) (hsp : ∀ c, validSpans offs c (spansOf c) = true)
    (b : Box) (h0 : b.i0 ≤ b.i1) (h1 : b.j0 ≤ b.j1) (hi : b.i1 ≤ n) (hj : b.j1 ≤ n) :
    ∃ ts out, fillLowerTasks b = some ts ∧ queryFill ps offs spansOf b = some out ∧
      out.Perm (ts.flatMap (pieceSpec ps)) := by
  obtain ⟨ts, hts, hshape⟩ := tasks_cases b h0 h1
  refine ⟨ts, ts.flatMap (runTask ps offs spansOf), hts, by simp [queryFill, hts], ?_⟩
  apply flatMap_perm_congr
  intro t ht
  apply runTask_perm ps (StrictSorted.rowSorted hv.sorted) offs n hv.offsOK spansOf hsp
  -- every sub-box has its row end within the table
  simp only at hshape
  by_cases hT : b.i1 > b.j1
  · simp only [hT, if_true, decide_true, Box.transpose] at hshape
    rcases hshape with ⟨_, (⟨rfl, _⟩ | ⟨rfl, _, _⟩ | ⟨rfl, _⟩)⟩ <;>
      simp only [List.mem_cons, List.mem_nil_iff, or_false] at ht <;>
      rcases ht with rfl | rfl <;> simp only [] <;> omega
  · simp only [hT, if_false, decide_false] at hshape
    rcases hshape with ⟨_, (⟨rfl, _⟩ | ⟨rfl, _, _⟩ | ⟨rfl, _⟩)⟩ <;>
      simp only [List.mem_cons, List.mem_nil_iff, or_false] at ht <;>
      rcases ht with rfl | rfl <;> simp only [] <;> omega

/-- **fillLower_mem**: an entry is emitted iff it lies in the window and belongs to the symmetric
completion of the stored upper triangle. -/
theorem fillLower_mem (ps : Pixels) (offs : List Nat) (n : Nat) (hv : ValidSymm ps offs n)
    (spansOf : Box → List (Nat × Nat)) (hsp : ∀ c, validSpans offs c (spansOf c) = true)
    (b : Box) (h0 : b.i0 ≤ b.i1) (h1 : b.j0 ≤ b.j1) (hi : b.i1 ≤ n) (hj : b.j1 ≤ n)
    (out : Pixels) (hout : queryFill ps offs spansOf b = some out) (q : Px) :
    q ∈ out ↔ q ∈ specWindow true ps b := by
  obtain ⟨ts, out', hts, hq, hperm⟩ := queryFill_perm ps offs n hv spansOf hsp b h0 h1 hi hj
  rw [hq] at hout
  simp only [Option.some.injEq] at hout
  subst hout
  rw [hperm.mem_iff, mem_specWindow_symm]
  obtain ⟨ts', hts', hshape⟩ := tasks_cases b h0 h1
  rw [hts] at hts'
  simp only [Option.some.injEq] at hts'
  subst hts'
  have ht1 : q ∈ ps → q.i ≤ q.j := fun h => hv.triu q h
  have ht2 : q.swap ∈ ps → q.j ≤ q.i := fun h => hv.triu q.swap h
  have hd : q.i = q.j → (q ∈ ps ↔ q.swap ∈ ps) := by
    intro h
    have : q.swap = q := by cases q; simp only [Px.swap] at *; subst h; rfl
    rw [this]
  simp only at hshape
  by_cases hT : b.i1 > b.j1
  · simp only [hT, if_true, decide_true, Box.transpose] at hshape
    rcases hshape with ⟨hle, (⟨rfl, hc⟩ | ⟨rfl, hc1, hc2⟩ | ⟨rfl, hc⟩)⟩ <;>
      simp only [List.flatMap_cons, List.flatMap_nil, List.append_nil, List.mem_append,
        mem_pieceSpec, mem_reflSpec, inBox_iff, swap_i, swap_j, swap_swap, if_true, if_false,
        Bool.not_true, Bool.false_eq_true] <;>
      by_cases m1 : q ∈ ps <;> by_cases m2 : q.swap ∈ ps <;>
      simp only [m1, m2, true_and, false_and, or_false, false_or, and_false, true_or, or_true,
        and_true] <;>
      simp only [m1, m2, iff_false, iff_true, not_true_eq_false, not_false_eq_true, imp_false,
        implies_true] at hd <;>
      (try have := ht1 m1) <;> (try have := ht2 m2) <;> omega
  · simp only [hT, if_false, decide_false] at hshape
    rcases hshape with ⟨hle, (⟨rfl, hc⟩ | ⟨rfl, hc1, hc2⟩ | ⟨rfl, hc⟩)⟩ <;>
      simp only [List.flatMap_cons, List.flatMap_nil, List.append_nil, List.mem_append,
        mem_pieceSpec, mem_reflSpec, inBox_iff, swap_i, swap_j, swap_swap, if_true, if_false,
        Bool.not_false, Bool.false_eq_true] <;>
      by_cases m1 : q ∈ ps <;> by_cases m2 : q.swap ∈ ps <;>
      simp only [m1, m2, true_and, false_and, or_false, false_or, and_false, true_or, or_true,
        and_true] <;>
      simp only [m1, m2, iff_false, iff_true, not_true_eq_false, not_false_eq_true, imp_false,
        implies_true] at hd <;>
      (try have := ht1 m1) <;> (try have := ht2 m2) <;> omega

theorem nodup_map_swap {l : Pixels} (h : l.Nodup) : (l.map Px.swap).Nodup := by
  unfold List.Nodup at *
  exact h.map Px.swap (fun a b hab heq => hab (swap_injective a b heq))

theorem symCompletion_nodup (ps : Pixels) (hn : ps.Nodup) (ht : Triu ps) : (symCompletion ps).Nodup := by
  unfold symCompletion
  rw [List.nodup_append]
  refine ⟨hn, nodup_map_swap (hn.sublist List.filter_sublist), ?_⟩
  intro a ha b hb heq
  simp only [List.mem_map, List.mem_filter, decide_eq_true_eq] at hb
  obtain ⟨p, ⟨hp, hne⟩, rfl⟩ := hb
  have h1 := ht a ha
  have h2 := ht p hp
  subst heq
  simp only [swap_i, swap_j] at h1
  omega

theorem reflSpec_nodup (ps : Pixels) (hn : ps.Nodup) (ht : Triu ps) (c : Box) : (reflSpec ps c).Nodup := by
  unfold reflSpec
  rw [List.nodup_append]
  refine ⟨hn.sublist List.filter_sublist,
    nodup_map_swap ((hn.sublist List.filter_sublist).sublist List.filter_sublist), ?_⟩
  intro a ha b hb heq
  simp only [List.mem_map, List.mem_filter, toDuplex, Bool.and_eq_true, decide_eq_true_eq] at ha hb
  obtain ⟨p, ⟨⟨hp, _⟩, hne, _⟩, rfl⟩ := hb
  have h1 := ht a ha.1
  have h2 := ht p hp
  subst heq
  simp only [swap_i, swap_j] at h1
  omega

theorem pieceSpec_nodup (ps : Pixels) (hn : ps.Nodup) (ht : Triu ps) (t : Task) : (pieceSpec ps t).Nodup := by
  unfold pieceSpec
  split
  · exact nodup_map_swap (reflSpec_nodup ps hn ht t.2)
  · exact reflSpec_nodup ps hn ht t.2

/-- **fillLower_nodup**: no element is emitted twice (sub-boxes are disjoint; mirrored entries are
strictly lower, direct ones upper). -/
theorem fillLower_nodup (ps : Pixels) (offs : List Nat) (n : Nat) (hv : ValidSymm ps offs n)
    (spansOf : Box → List (Nat × Nat)) (hsp : ∀ c, validSpans offs c (spansOf c) = true)
    (b : Box) (h0 : b.i0 ≤ b.i1) (h1 : b.j0 ≤ b.j1) (hi : b.i1 ≤ n) (hj : b.j1 ≤ n)
    (out : Pixels) (hout : queryFill ps offs spansOf b = some out) : out.Nodup := by
  obtain ⟨ts, out', hts, hq, hperm⟩ := queryFill_perm ps offs n hv spansOf hsp b h0 h1 hi hj
  rw [hq] at hout
  simp only [Option.some.injEq] at hout
  subst hout
  rw [hperm.nodup_iff]
  have hn := StrictSorted.nodup hv.sorted
  obtain ⟨ts', hts', hshape⟩ := tasks_cases b h0 h1
  rw [hts] at hts'
  simp only [Option.some.injEq] at hts'
  subst hts'
  simp only at hshape
  have key : ∀ t1 t2 : Task, (∀ q, q ∈ pieceSpec ps t1 → q ∈ pieceSpec ps t2 → False) →
      (List.flatMap (pieceSpec ps) [t1, t2]).Nodup := by
    intro t1 t2 hdis
    simp only [List.flatMap_cons, List.flatMap_nil, List.append_nil]
    rw [List.nodup_append]
    refine ⟨pieceSpec_nodup ps hn hv.triu t1, pieceSpec_nodup ps hn hv.triu t2, ?_⟩
    intro a ha b hb heq
    subst heq
    exact hdis a ha hb
  by_cases hT : b.i1 > b.j1
  · simp only [hT, if_true, decide_true, Box.transpose] at hshape
    rcases hshape with ⟨hle, (⟨rfl, hc⟩ | ⟨rfl, hc1, hc2⟩ | ⟨rfl, hc⟩)⟩
    · simpa using pieceSpec_nodup ps hn hv.triu _
    · apply key
      intro q
      have ht1 : q ∈ ps → q.i ≤ q.j := fun h => hv.triu q h
      have ht2 : q.swap ∈ ps → q.j ≤ q.i := fun h => hv.triu q.swap h
      simp only [mem_pieceSpec, mem_reflSpec, inBox_iff, swap_i, swap_j, swap_swap, if_true,
        if_false, Bool.not_true, Bool.false_eq_true]
      by_cases m1 : q ∈ ps <;> by_cases m2 : q.swap ∈ ps <;>
        simp only [m1, m2, true_and, false_and, or_false, false_or, and_false, true_or, or_true,
          and_true] <;>
        (try have := ht1 m1) <;> (try have := ht2 m2) <;> intro ha hb <;> omega
    · apply key
      intro q
      have ht1 : q ∈ ps → q.i ≤ q.j := fun h => hv.triu q h
      have ht2 : q.swap ∈ ps → q.j ≤ q.i := fun h => hv.triu q.swap h
      simp only [mem_pieceSpec, mem_reflSpec, inBox_iff, swap_i, swap_j, swap_swap, if_true,
        if_false, Bool.not_true, Bool.false_eq_true]
      by_cases m1 : q ∈ ps <;> by_cases m2 : q.swap ∈ ps <;>
        simp only [m1, m2, true_and, false_and, or_false, false_or, and_false, true_or, or_true,
          and_true] <;>
        (try have := ht1 m1) <;> (try have := ht2 m2) <;> intro ha hb <;> omega
  · simp only [hT, if_false, decide_false] at hshape
    rcases hshape with ⟨hle, (⟨rfl, hc⟩ | ⟨rfl, hc1, hc2⟩ | ⟨rfl, hc⟩)⟩
    · simpa using pieceSpec_nodup ps hn hv.triu _
    · apply key
      intro q
      have ht1 : q ∈ ps → q.i ≤ q.j := fun h => hv.triu q h
      have ht2 : q.swap ∈ ps → q.j ≤ q.i := fun h => hv.triu q.swap h
      simp only [mem_pieceSpec, mem_reflSpec, inBox_iff, swap_i, swap_j, swap_swap, if_true,
        if_false, Bool.not_false, Bool.false_eq_true]
      by_cases m1 : q ∈ ps <;> by_cases m2 : q.swap ∈ ps <;>
        simp only [m1, m2, true_and, false_and, or_false, false_or, and_false, true_or, or_true,
          and_true] <;>
        (try have := ht1 m1) <;> (try have := ht2 m2) <;> intro ha hb <;> omega
    · apply key
      intro q
      have ht1 : q ∈ ps → q.i ≤ q.j := fun h => hv.triu q h
      have ht2 : q.swap ∈ ps → q.j ≤ q.i := fun h => hv.triu q.swap h
      simp only [mem_pieceSpec, mem_reflSpec, inBox_iff, swap_i, swap_j, swap_swap, if_true,
        if_false, Bool.not_false, Bool.false_eq_true]
      by_cases m1 : q ∈ ps <;> by_cases m2 : q.swap ∈ ps <;>
        simp only [m1, m2, true_and, false_and, or_false, false_or, and_false, true_or, or_true,
          and_true] <;>
        (try have := ht1 m1) <;> (try have := ht2 m2) <;> intro ha hb <;> omega

/-- **fillLower_correct**: the output is, up to order, exactly the sub-block of the symmetric
completion — every element once, nothing else — for every window and every valid span choice. -/
theorem fillLower_correct (ps : Pixels) (offs : List Nat) (n : Nat) (hv : ValidSymm ps offs n)
    (spansOf : Box → List (Nat × Nat)) (hsp : ∀ c, validSpans offs c (spansOf c) = true)
    (b : Box) (h0 : b.i0 ≤ b.i1) (h1 : b.j0 ≤ b.j1) (hi : b.i1 ≤ n) (hj : b.j1 ≤ n)
    (out : Pixels) (hout : queryFill ps offs spansOf b = some out) :
    out.Perm (specWindow true ps b) := by
  have hspec : (specWindow true ps b).Nodup := by
    unfold specWindow
    simp only [if_true]
    exact (symCompletion_nodup ps (StrictSorted.nodup hv.sorted) hv.triu).sublist List.filter_sublist
  rw [List.perm_ext_iff_of_nodup
    (fillLower_nodup ps offs n hv spansOf hsp b h0 h1 hi hj out hout) hspec]
  intro q
  exact fillLower_mem ps offs n hv spansOf hsp b h0 h1 hi hj out hout q

/-- the engine always produces a result on a well-formed window -/
theorem fillLower_total (ps : Pixels) (offs : List Nat) (spansOf : Box → List (Nat × Nat))
    (b : Box) (h0 : b.i0 ≤ b.i1) (h1 : b.j0 ≤ b.j1) : (queryFill ps offs spansOf b).isSome = true := by
  obtain ⟨ts, hts, _⟩ := tasks_cases b h0 h1
  simp [queryFill, hts]

/-- **chunk_independent**: two valid span choices give the same entries -/
theorem fill_chunk_independent (ps : Pixels) (offs : List Nat) (n : Nat) (hv : ValidSymm ps offs n)
    (sp1 sp2 : Box → List (Nat × Nat))
    (h1 : ∀ c, validSpans offs c (sp1 c) = true) (h2 : ∀ c, validSpans offs c (sp2 c) = true)
    (b : Box) (hb0 : b.i0 ≤ b.i1) (hb1 : b.j0 ≤ b.j1) (hi : b.i1 ≤ n) (hj : b.j1 ≤ n)
    (o1 o2 : Pixels) (e1 : queryFill ps offs sp1 b = some o1) (e2 : queryFill ps offs sp2 b = some o2) :
    o1.Perm o2 :=
  (fillLower_correct ps offs n hv sp1 h1 b hb0 hb1 hi hj o1 e1).trans
    (fillLower_correct ps offs n hv sp2 h2 b hb0 hb1 hi hj o2 e2).symm

/-- non-vacuity: a concrete symmetric-upper store with its index satisfies `ValidSymm` -/
example : ValidSymm [⟨0, 0, 5⟩, ⟨0, 2, 1⟩, ⟨1, 1, 7⟩, ⟨2, 3, 4⟩]
    (csrIndex [⟨0, 0, 5⟩, ⟨0, 2, 1⟩, ⟨1, 1, 7⟩, ⟨2, 3, 4⟩] 4) 4 :=
  ⟨by unfold StrictSorted; decide, by unfold Triu; decide, offsOK_csrIndex _ _⟩

end Cooler.C03
