import CoolerModel.Model.Coarsen
import CoolerModel.Props.GroupSumLemmas
import CoolerModel.Props.C04
import CoolerModel.Props.C07
/-!
# C08 (core) — coarsening by k is exact block aggregation within each chromosome

Every statement is about the definitions of `Model/Coarsen.lean`, which the correspondence harness
executes against `cooler.coarsen_cooler`, `CoolerCoarsener` and `_greedy_prune_partition`.

The span partition (`_greedy_prune_partition`) is a free unit: `coarsen_eq_spec` holds for EVERY list
of edges satisfying `validPrunedEdges` (a strictly increasing chain of coarse-row boundaries from 0 to
`nnz`); `prune_contract` shows the modelled unit satisfies it.  No bound on the number of chromosomes,
bins, pixels, on `k ≥ 1` or on the chunk size anywhere.
-/
set_option linter.unusedSimpArgs false
set_option linter.unusedVariables false

namespace Cooler.C08
open Cooler Cooler.Coarsen Cooler.Merge

/-! ## arithmetic -/

theorem eq_of_forall_lt_iff {x y : Nat} (h : ∀ m, m < x ↔ m < y) : x = y := by
  have h1 := h x
  have h2 := h y
  omega

theorem ceilDiv_zero {k : Nat} (hk : 1 ≤ k) : ceilDiv 0 k = 0 := by
  unfold ceilDiv
  exact Nat.div_eq_of_lt (by omega)

/-- `⌈⌈n/a⌉/b⌉ = ⌈n/(a·b)⌉` -/
theorem ceilDiv_ceilDiv {a b : Nat} (ha : 1 ≤ a) (hb : 1 ≤ b) (n : Nat) :
    ceilDiv (ceilDiv n a) b = ceilDiv n (a * b) := by
  apply eq_of_forall_lt_iff
  intro m
  have hab : 1 ≤ a * b := Nat.mul_le_mul ha hb
  rw [C04.lt_ceilDiv_iff hb, C04.lt_ceilDiv_iff ha, C04.lt_ceilDiv_iff hab]
  have : m * b * a = m * (a * b) := by rw [Nat.mul_assoc, Nat.mul_comm b a]
  rw [this]

theorem div_lt_ceilDiv {k : Nat} (hk : 1 ≤ k) {x n : Nat} (h : x < n) : x / k < ceilDiv n k := by
  rw [C04.lt_ceilDiv_iff hk]
  have := Nat.div_mul_le_self x k
  omega

/-! ## the map old bin id ↦ new bin id -/

/-- **cmap_monotone**: a larger old id never gets a smaller new id (over any list of chromosome bin
counts) — this is what keeps re-binned spans in storage order -/
theorem cmapCounts_mono (k : Nat) (hk : 1 ≤ k) :
    ∀ (counts : List Nat) (x y : Nat), x ≤ y → cmapCounts k counts x ≤ cmapCounts k counts y := by
  intro counts
  induction counts with
  | nil => intro x y h; simpa [cmapCounts] using h
  | cons n rest ih =>
    intro x y hxy
    simp only [cmapCounts]
    by_cases hx : x < n
    · by_cases hy : y < n
      · simp only [hx, hy, if_true]; exact Nat.div_le_div_right hxy
      · simp only [hx, hy, if_true, if_false]
        have := div_lt_ceilDiv hk hx
        omega
    · have hy : ¬ y < n := by omega
      simp only [hx, hy, if_false]
      have := ih (x - n) (y - n) (by omega)
      omega

theorem cmap_monotone (k : Nat) (hk : 1 ≤ k) (gs : List (List Bin)) (x y : Nat) (h : x ≤ y) :
    cmapG k gs x ≤ cmapG k gs y := cmapCounts_mono k hk _ x y h

/-- the old ids at which a coarse row starts: `m·k` inside a chromosome, and the total -/
def EdgeRow (k : Nat) : List Nat → Nat → Prop
  | [], r => r = 0
  | n :: rest, r => (r < n ∧ r % k = 0) ∨ (n ≤ r ∧ EdgeRow k rest (r - n))

/-- **edge_boundary**: at an edge row `r` the coarse id jumps: every old id below `r` maps strictly below
`cmap r` (and, by monotonicity, every id `≥ r` maps to `≥ cmap r`) -/
theorem edge_boundary (k : Nat) (hk : 1 ≤ k) :
    ∀ (counts : List Nat) (r : Nat), EdgeRow k counts r →
      ∀ x, x < r → cmapCounts k counts x < cmapCounts k counts r := by
  intro counts
  induction counts with
  | nil => intro r hr x hx; simp only [EdgeRow] at hr; omega
  | cons n rest ih =>
    intro r hr x hx
    simp only [cmapCounts]
    rcases hr with ⟨h1, h2⟩ | ⟨h1, h2⟩
    · have hxn : x < n := by omega
      simp only [h1, hxn, if_true]
      rw [Nat.div_lt_iff_lt_mul (by omega), Nat.div_mul_cancel (Nat.dvd_of_mod_eq_zero h2)]
      exact hx
    · have hrn : ¬ r < n := by omega
      simp only [hrn, if_false]
      by_cases hxn : x < n
      · simp only [hxn, if_true]
        have := div_lt_ceilDiv hk hxn
        omega
      · simp only [hxn, if_false]
        have := ih (r - n) h2 (x - n) (by omega)
        omega

theorem edgeRow_total (k : Nat) : ∀ (counts : List Nat), EdgeRow k counts counts.sum := by
  intro counts
  induction counts with
  | nil => simp [EdgeRow]
  | cons n rest ih =>
    right
    refine ⟨by simp, ?_⟩
    have : (n :: rest).sum - n = rest.sum := by simp
    rw [this]; exact ih

/-- row `chrom_offset[i] + m·k` (with `m·k` inside chromosome `i`) is an edge row -/
theorem edgeRow_stride (k : Nat) (hk : 1 ≤ k) :
    ∀ (counts : List Nat) (i m : Nat) (hi : i < counts.length), m * k < counts[i] →
      EdgeRow k counts ((counts.take i).sum + m * k) := by
  intro counts
  induction counts with
  | nil => intro i m hi; simp at hi
  | cons n rest ih =>
    intro i m hi hm
    cases i with
    | zero =>
      left
      simp only [List.take_zero, List.sum_nil, Nat.zero_add, List.getElem_cons_zero] at hm ⊢
      exact ⟨hm, Nat.mul_mod_left m k⟩
    | succ i =>
      right
      simp only [List.take_succ_cons, List.sum_cons, List.getElem_cons_succ] at hm ⊢
      refine ⟨by omega, ?_⟩
      have : n + (rest.take i).sum + m * k - n = (rest.take i).sum + m * k := by omega
      rw [this]
      exact ih i m (by simpa using hi) hm

/-- new ids stay inside the new table -/
theorem cmapCounts_lt (k : Nat) (hk : 1 ≤ k) :
    ∀ (counts : List Nat) (x : Nat), x < counts.sum →
      cmapCounts k counts x < (counts.map (fun n => ceilDiv n k)).sum := by
  intro counts
  induction counts with
  | nil => intro x hx; simp at hx
  | cons n rest ih =>
    intro x hx
    simp only [cmapCounts, List.map_cons, List.sum_cons] at hx ⊢
    by_cases hxn : x < n
    · simp only [hxn, if_true]
      have := div_lt_ceilDiv hk hxn
      omega
    · simp only [hxn, if_false]
      have := ih (x - n) (by omega)
      omega

/-- **cmap_closed_form**: inside chromosome `c` the new id is
`newChromOffset c + (old − oldChromOffset c) / k` -/
theorem cmap_closed_form (k : Nat) :
    ∀ (counts : List Nat) (c t : Nat) (hc : c < counts.length), t < counts[c] →
      cmapCounts k counts ((counts.take c).sum + t)
        = ((counts.take c).map (fun n => ceilDiv n k)).sum + t / k := by
  intro counts
  induction counts with
  | nil => intro c t hc; simp at hc
  | cons n rest ih =>
    intro c t hc ht
    cases c with
    | zero => simp only [List.getElem_cons_zero] at ht; simp [cmapCounts, ht]
    | succ c =>
      simp only [List.getElem_cons_succ] at ht
      simp only [cmapCounts, List.take_succ_cons, List.sum_cons, List.map_cons]
      have h1 : ¬ n + (rest.take c).sum + t < n := by omega
      have h2 : n + (rest.take c).sum + t - n = (rest.take c).sum + t := by omega
      simp only [h1, if_false, h2]
      rw [ih c t (by simpa using hc) ht]
      omega

/-! ## prefix sums, the index -/

theorem prefixSumsFrom_length : ∀ (l : List Nat) (acc : Nat), (prefixSumsFrom acc l).length = l.length + 1 := by
  intro l
  induction l with
  | nil => intro _; rfl
  | cons x rest ih => intro acc; simp [prefixSumsFrom, ih]

theorem prefixSumsFrom_getD : ∀ (l : List Nat) (acc c : Nat), c ≤ l.length →
    (prefixSumsFrom acc l).getD c 0 = acc + (l.take c).sum := by
  intro l
  induction l with
  | nil => intro acc c hc; have : c = 0 := by simpa using hc
           subst this; simp [prefixSumsFrom]
  | cons x rest ih =>
    intro acc c hc
    cases c with
    | zero => simp [prefixSumsFrom]
    | succ c =>
      simp only [prefixSumsFrom, List.getD_cons_succ, List.take_succ_cons, List.sum_cons]
      rw [ih (acc + x) c (by simpa using hc)]
      omega

theorem prefixSums_getD (l : List Nat) (c : Nat) (hc : c ≤ l.length) :
    (prefixSums l).getD c 0 = (l.take c).sum := by
  unfold prefixSums; rw [prefixSumsFrom_getD l 0 c hc]; omega

theorem sum_take_le (l : List Nat) (c : Nat) : (l.take c).sum ≤ l.sum := by
  have := List.sum_append (l₁ := l.take c) (l₂ := l.drop c)
  rw [List.take_append_drop] at this
  omega

theorem sum_take_succ (l : List Nat) (c : Nat) (hc : c < l.length) :
    (l.take (c + 1)).sum = (l.take c).sum + l[c] := by
  rw [List.take_add_one, List.sum_append]
  simp [List.getElem?_eq_getElem hc]

theorem csrIndex_getD (px : Pixels) (n r : Nat) (hr : r ≤ n) : (csrIndex px n).getD r 0 = off px r := by
  have := offsOK_csrIndex px n r hr
  simpa [offAt] using this

theorem csrIndex_length (px : Pixels) (n : Nat) : (csrIndex px n).length = n + 1 := by simp [csrIndex]

theorem csrIndex_getLast (px : Pixels) (n : Nat) : (csrIndex px n).getLast?.getD 0 = off px n := by
  rw [List.getLast?_eq_getElem?, csrIndex_length]
  have : n + 1 - 1 = n := by omega
  rw [this, ← List.getD_eq_getElem?_getD]
  exact csrIndex_getD px n n (Nat.le_refl _)

theorem coarsenEdges_getLast (k : Nat) (co b1 : List Nat) :
    (coarsenEdges k co b1).getLast?.getD 0 = b1.getLast?.getD 0 := by
  unfold coarsenEdges
  simp [List.getLast?_append]

/-- what the theorems need of the stored `indexes/chrom_offset`: entry `c` is the number of bins on the
chromosomes before `c` (satisfied by `prefixSums counts` and by `chromOffsets` of a well-formed table) -/
def OffsSpec (counts co : List Nat) : Prop :=
  co.length = counts.length + 1 ∧ ∀ c, c ≤ counts.length → co.getD c 0 = (counts.take c).sum

theorem offsSpec_prefixSums (counts : List Nat) : OffsSpec counts (prefixSums counts) :=
  ⟨prefixSumsFrom_length counts 0, fun c hc => prefixSums_getD counts c hc⟩

/-- every span edge the coarsener computes is the row pointer of an edge row -/
theorem mem_coarsenEdges (k : Nat) (hk : 1 ≤ k) (counts co : List Nat) (hco : OffsSpec counts co)
    (px : Pixels) (e : Nat) (he : e ∈ coarsenEdges k co (csrIndex px counts.sum)) :
    ∃ r, r ≤ counts.sum ∧ EdgeRow k counts r ∧ e = off px r := by
  unfold coarsenEdges at he
  rcases List.mem_append.mp he with h | h
  · simp only [List.mem_flatMap, List.mem_range, List.mem_map] at h
    obtain ⟨i, hi, m, hm, rfl⟩ := h
    rw [hco.1] at hi
    have hi' : i < counts.length := by omega
    rw [hco.2 i (by omega), hco.2 (i + 1) (by omega)] at hm
    rw [hco.2 i (by omega)]
    rw [C04.lt_ceilDiv_iff hk, sum_take_succ counts i hi', csrIndex_length] at hm
    have hle := sum_take_le counts (i + 1)
    rw [sum_take_succ counts i hi'] at hle
    have hmk : m * k < counts[i] := by omega
    refine ⟨(counts.take i).sum + m * k, by omega, edgeRow_stride k hk counts i m hi' hmk, ?_⟩
    exact csrIndex_getD px _ _ (by omega)
  · simp only [List.mem_singleton] at h
    subst h
    exact ⟨counts.sum, Nat.le_refl _, edgeRow_total k counts, csrIndex_getLast px _⟩

/-! ## the stream over a chain of edge rows -/

/-- `f` jumps at `r`: every id below `r` maps strictly below `f r` -/
def Boundary (f : Nat → Nat) (r : Nat) : Prop := ∀ x, x < r → f x < f r

/-- the chunk stream over row boundaries `a < b₁ < b₂ < …` -/
def aggFrom (f : Nat → Nat) (px : Pixels) : Nat → List Nat → List Pixels
  | _, [] => []
  | a, b :: rest => groupSum ((rowsSlice px a b).map (rekey f)) :: aggFrom f px b rest

theorem mem_rowsSlice (px : Pixels) (hs : RowSorted px) (a b : Nat) (hab : a ≤ b) (p : Px)
    (hp : p ∈ rowsSlice px a b) : p ∈ px ∧ a ≤ p.i ∧ p.i < b := by
  rw [rowsSlice_eq_filter px hs a b hab] at hp
  have := List.mem_filter.mp hp
  exact ⟨this.1, by simpa using this.2⟩

theorem rowsSlice_self (px : Pixels) (a : Nat) : rowsSlice px a a = [] := by
  unfold rowsSlice slicePx; simp

theorem sumAt_map_append (f : Nat → Nat) (a b : Pixels) (i j : Nat) :
    sumAt ((a ++ b).map (rekey f)) i j = sumAt (a.map (rekey f)) i j + sumAt (b.map (rekey f)) i j := by
  rw [List.map_append, sumAt_append]

theorem hasKey_map_append (f : Nat → Nat) (a b : Pixels) (i j : Nat) :
    hasKey ((a ++ b).map (rekey f)) i j ↔ hasKey (a.map (rekey f)) i j ∨ hasKey (b.map (rekey f)) i j := by
  rw [List.map_append, hasKey_append]

/-- the stream over a chain of boundaries: strictly sorted, rows inside the chain's coarse range, and
the key set and per-key totals of all the re-keyed records of the row range (template: `C07.mergerFrom_spec`) -/
theorem aggFrom_spec (f : Nat → Nat) (hmono : ∀ x y, x ≤ y → f x ≤ f y) (px : Pixels) (hs : RowSorted px) :
    ∀ (bs : List Nat) (a : Nat), chainIncr a bs = true → (∀ r ∈ bs, Boundary f r) →
      let e := (a :: bs).getLast?.getD 0
      let out := (aggFrom f px a bs).flatten
      StrictSorted out ∧ (∀ p ∈ out, f a ≤ p.i ∧ p.i < f e) ∧
        (∀ i j, sumAt out i j = sumAt ((rowsSlice px a e).map (rekey f)) i j) ∧
        (∀ i j, hasKey out i j ↔ hasKey ((rowsSlice px a e).map (rekey f)) i j) := by
  intro bs
  induction bs with
  | nil =>
    intro a _ _
    simp only [aggFrom, List.flatten_nil, List.getLast?_singleton, Option.getD_some, rowsSlice_self,
      List.map_nil]
    refine ⟨by simp [StrictSorted], by simp, fun _ _ => trivial, fun _ _ => trivial⟩
  | cons b rest ih =>
    intro a h hb
    simp only [chainIncr, Bool.and_eq_true, decide_eq_true_eq] at h
    obtain ⟨hab, hrest⟩ := h
    have hbe := C07.chainIncr_last_ge rest b hrest
    obtain ⟨ih1, ih2, ih3, ih4⟩ := ih b hrest (fun r hr => hb r (List.mem_cons_of_mem _ hr))
    have hbb : Boundary f b := hb b (by simp)
    simp only [List.getLast?_cons_cons] at *
    simp only [aggFrom, List.flatten_cons]
    have hrows1 : ∀ p ∈ groupSum ((rowsSlice px a b).map (rekey f)), f a ≤ p.i ∧ p.i < f b := by
      intro p hp
      obtain ⟨q, hq, hqi, _⟩ := C07.mem_groupSum_row _ p hp
      obtain ⟨q0, hq0, rfl⟩ := List.mem_map.mp hq
      obtain ⟨_, h1, h2⟩ := mem_rowsSlice px hs a b (by omega) q0 hq0
      simp only [rekey] at hqi
      have := hmono a q0.i h1
      have := hbb q0.i h2
      omega
    have hfbe := hmono b _ hbe
    refine ⟨?_, ?_, ?_, ?_⟩
    · unfold StrictSorted
      rw [List.pairwise_append]
      refine ⟨groupSum_sorted _, ih1, ?_⟩
      intro p hp q hq
      have h1 := hrows1 p hp
      have h2 := ih2 q hq
      unfold keyLt; omega
    · intro p hp
      rcases List.mem_append.mp hp with h1 | h1
      · have := hrows1 p h1; omega
      · have := ih2 p h1
        have := hmono a b (by omega)
        omega
    · intro i j
      rw [sumAt_append, sumAt_groupSum, ih3, ← sumAt_map_append, rowsSlice_append px (by omega) hbe]
    · intro i j
      rw [hasKey_append, hasKey_groupSum, ih4, ← hasKey_map_append, rowsSlice_append px (Nat.le_of_lt hab) hbe]

/-- the stream over offsets `es = rs.map (off px)` is the stream over the rows `rs` -/
theorem stream_eq_aggFrom (f : Nat → Nat) (px : Pixels) :
    ∀ (bs : List Nat) (a : Nat),
      coarsenStream f px ((a :: bs).map (off px)) = aggFrom f px a bs := by
  intro bs
  induction bs with
  | nil => intro a; simp [coarsenStream, spansOf, aggFrom]
  | cons b rest ih =>
    intro a
    have := ih b
    simp only [coarsenStream, spansOf, List.map_cons, List.tail_cons, List.zip_cons_cons, aggFrom] at this ⊢
    rw [this]
    rfl

theorem off_lt_imp_lt (px : Pixels) {a b : Nat} (h : off px a < off px b) : a < b := by
  apply Nat.lt_of_not_le
  intro hba
  have := off_mono px hba
  omega

/-- lift a chain of edges (values) to a chain of edge rows -/
theorem lift_chain (px : Pixels) (P : Nat → Prop) :
    ∀ (es : List Nat) (e0 : Nat), chainIncr e0 es = true →
      (∀ e ∈ e0 :: es, ∃ r, P r ∧ e = off px r) →
      ∃ (r0 : Nat) (rs : List Nat), e0 :: es = (r0 :: rs).map (off px) ∧ chainIncr r0 rs = true ∧
        ∀ r ∈ r0 :: rs, P r := by
  intro es
  induction es with
  | nil =>
    intro e0 _ h
    obtain ⟨r, hr, he⟩ := h e0 (by simp)
    exact ⟨r, [], by simp [he], rfl, by simpa using hr⟩
  | cons e1 rest ih =>
    intro e0 hc h
    simp only [chainIncr, Bool.and_eq_true, decide_eq_true_eq] at hc
    obtain ⟨r1, rs, heq, hch, hP⟩ := ih e1 hc.2 (fun e he => h e (List.mem_cons_of_mem _ he))
    obtain ⟨r0, hr0, he0⟩ := h e0 (by simp)
    refine ⟨r0, r1 :: rs, ?_, ?_, ?_⟩
    · rw [List.map_cons, ← heq, he0]
    · simp only [chainIncr, Bool.and_eq_true, decide_eq_true_eq]
      refine ⟨?_, hch⟩
      have h1 : e1 = off px r1 := by
        have := congrArg List.head? heq
        simpa using this
      apply off_lt_imp_lt px
      rw [← he0, ← h1]; exact hc.1
    · intro r hr
      rcases List.mem_cons.mp hr with rfl | hr
      · exact hr0
      · exact hP r hr

theorem off_eq_length (px : Pixels) (n : Nat) (hr : InRange n px) : off px n = px.length := by
  unfold off
  rw [List.countP_eq_length]
  intro p hp
  simpa using (hr p hp).1

theorem getLast_map_off (px : Pixels) (r0 : Nat) (rs : List Nat) :
    ((r0 :: rs).map (off px)).getLast?.getD 0 = off px ((r0 :: rs).getLast?.getD 0) := by
  rw [List.getLast?_map]
  cases h : (r0 :: rs).getLast? with
  | none => simp at h
  | some x => simp

/-- **coarsen_eq_spec** (core form, over the chromosome bin counts): for a strictly sorted in-range pixel
table, ANY re-binning function that agrees with `cmap` on the table's ids, and ANY span edges satisfying
the contract, the chunk stream concatenates to the L0 aggregate, in storage order. -/
theorem coarsen_eq_spec_counts (k : Nat) (hk : 1 ≤ k) (counts : List Nat) (px : Pixels)
    (hs : StrictSorted px) (hr : InRange counts.sum px)
    (rb : Nat → Nat) (hrb : ∀ x, x < counts.sum → rb x = cmapCounts k counts x)
    (co : List Nat) (hco : OffsSpec counts co) (es : List Nat)
    (hv : validPrunedEdges (coarsenEdges k co (csrIndex px counts.sum)) es = true) :
    (coarsenStream rb px es).flatten = groupSum (px.map (rekey (cmapCounts k counts))) := by
  have hrs : RowSorted px := C03.StrictSorted.rowSorted hs
  let f := cmapCounts k counts
  -- the stream does not see the difference between `rb` and `cmap`
  have hcongr : coarsenStream rb px es = coarsenStream f px es := by
    unfold coarsenStream
    apply List.map_congr_left
    intro s _
    unfold aggregateSpan
    congr 1
    apply List.map_congr_left
    intro p hp
    have hpm : p ∈ px := by
      unfold slicePx at hp
      exact List.mem_of_mem_drop (List.mem_of_mem_take hp)
    have := hr p hpm
    simp only [rekey, hrb p.i this.1, hrb p.j this.2, f]
  rw [hcongr]
  -- unpack the contract
  cases es with
  | nil => simp [validPrunedEdges] at hv
  | cons e0 rest =>
    simp only [validPrunedEdges, Bool.and_eq_true, decide_eq_true_eq, List.all_eq_true,
      List.contains_iff_mem] at hv
    obtain ⟨⟨⟨h0, hchain⟩, hlast⟩, hmem⟩ := hv
    obtain ⟨r0, rs, heq, hch, hP⟩ := lift_chain px (fun r => r ≤ counts.sum ∧ EdgeRow k counts r) rest e0 hchain
      (fun e he => by
        obtain ⟨r, h1, h2, h3⟩ := mem_coarsenEdges k hk counts co hco px e (hmem e he)
        exact ⟨r, ⟨h1, h2⟩, h3⟩)
    rw [heq, stream_eq_aggFrom]
    have hbound : ∀ r ∈ rs, Boundary f r := fun r hr' =>
      edge_boundary k hk counts r (hP r (List.mem_cons_of_mem _ hr')).2
    obtain ⟨g1, _, g3, g4⟩ := aggFrom_spec f (cmapCounts_mono k hk counts) px hrs rs r0 hch hbound
    -- the chain covers the whole table
    have hfirst : off px r0 = 0 := by
      have := congrArg List.head? heq
      simp only [List.head?_cons, List.map_cons, Option.some.injEq] at this
      omega
    have hend : off px ((r0 :: rs).getLast?.getD 0) = px.length := by
      rw [← getLast_map_off, ← heq, hlast, coarsenEdges_getLast, csrIndex_getLast, off_eq_length px _ hr]
    have hall : rowsSlice px r0 ((r0 :: rs).getLast?.getD 0) = px := by
      unfold rowsSlice slicePx
      rw [hfirst, hend]; simp
    simp only [hall] at g3 g4
    exact groupSum_eq_of _ _ g1 g4 g3

/-! ## algebra of the aggregate -/

theorem sumAt_map_insertPx (f : Nat → Nat) (p : Px) (l : Pixels) (i j : Nat) :
    sumAt ((insertPx p l).map (rekey f)) i j = sumAt ((p :: l).map (rekey f)) i j := by
  induction l with
  | nil => simp [insertPx]
  | cons q rest ih =>
    unfold insertPx
    split
    · rfl
    · split
      · rename_i _ hk
        unfold sameKey at hk
        simp only [List.map_cons, sumAt, rekey, hk.1, hk.2]
        split <;> omega
      · simp only [List.map_cons, sumAt] at ih ⊢
        rw [ih]; omega

theorem hasKey_map_insertPx (f : Nat → Nat) (p : Px) (l : Pixels) (i j : Nat) :
    hasKey ((insertPx p l).map (rekey f)) i j ↔ hasKey ((p :: l).map (rekey f)) i j := by
  induction l with
  | nil => simp [insertPx]
  | cons q rest ih =>
    unfold insertPx
    split
    · exact Iff.rfl
    · split
      · rename_i _ hk
        unfold sameKey at hk
        simp only [List.map_cons, hasKey_cons, rekey, hk.1, hk.2]
        constructor
        · rintro (h | h)
          · exact Or.inl h
          · exact Or.inr (Or.inr h)
        · rintro (h | h | h)
          · exact Or.inl h
          · exact Or.inl h
          · exact Or.inr h
      · simp only [List.map_cons, hasKey_cons] at ih ⊢
        rw [ih]
        constructor
        · rintro (h | h | h)
          · exact Or.inr (Or.inl h)
          · exact Or.inl h
          · exact Or.inr (Or.inr h)
        · rintro (h | h | h)
          · exact Or.inr (Or.inl h)
          · exact Or.inl h
          · exact Or.inr (Or.inr h)

theorem sumAt_map_groupSum (f : Nat → Nat) (a : Pixels) (i j : Nat) :
    sumAt ((groupSum a).map (rekey f)) i j = sumAt (a.map (rekey f)) i j := by
  induction a with
  | nil => rfl
  | cons p rest ih =>
    have : groupSum (p :: rest) = insertPx p (groupSum rest) := rfl
    rw [this, sumAt_map_insertPx]
    simp only [List.map_cons, sumAt, ih]

theorem hasKey_map_groupSum (f : Nat → Nat) (a : Pixels) (i j : Nat) :
    hasKey ((groupSum a).map (rekey f)) i j ↔ hasKey (a.map (rekey f)) i j := by
  induction a with
  | nil => exact Iff.rfl
  | cons p rest ih =>
    have : groupSum (p :: rest) = insertPx p (groupSum rest) := rfl
    rw [this, hasKey_map_insertPx]
    simp only [List.map_cons, hasKey_cons, ih]

/-- G3: re-keying an aggregate and aggregating again is aggregating the re-keyed records -/
theorem groupSum_map_groupSum (f : Nat → Nat) (a : Pixels) :
    groupSum ((groupSum a).map (rekey f)) = groupSum (a.map (rekey f)) :=
  groupSum_eq_of _ _ (groupSum_sorted _)
    (fun i j => by rw [hasKey_groupSum, hasKey_map_groupSum])
    (fun i j => by rw [sumAt_groupSum, sumAt_map_groupSum])

theorem total_map_rekey (f : Nat → Nat) (l : Pixels) : total (l.map (rekey f)) = total l := by
  unfold total
  rw [List.map_map]
  rfl

/-- **coarsen_total**: the total of the value column is preserved -/
theorem coarsen_total (k : Nat) (gs : List (List Bin)) (px : Pixels) :
    total (coarsenSpecG k gs px) = total px := by
  unfold coarsenSpecG
  rw [C07.total_groupSum, total_map_rekey]

/-- every stored value of the result is the sum of exactly the old pixels that fall into it -/
theorem coarsen_pointwise (k : Nat) (gs : List (List Bin)) (px : Pixels) (i j : Nat) :
    sumAt (coarsenSpecG k gs px) i j = sumAt (px.map (rekey (cmapG k gs))) i j ∧
    (hasKey (coarsenSpecG k gs px) i j ↔ ∃ p ∈ px, cmapG k gs p.i = i ∧ cmapG k gs p.j = j) := by
  unfold coarsenSpecG
  refine ⟨sumAt_groupSum _ i j, ?_⟩
  rw [hasKey_groupSum]
  unfold hasKey
  constructor
  · rintro ⟨q, hq, h⟩
    obtain ⟨p, hp, rfl⟩ := List.mem_map.mp hq
    exact ⟨p, hp, h⟩
  · rintro ⟨p, hp, h⟩
    exact ⟨rekey (cmapG k gs) p, List.mem_map_of_mem hp, h⟩

/-- the result is sorted and duplicate-free (`create` input contract, see C02) -/
theorem coarsen_sorted (k : Nat) (gs : List (List Bin)) (px : Pixels) :
    StrictSorted (coarsenSpecG k gs px) := groupSum_sorted _

/-- an upper-triangular source stays upper triangular (monotone re-keying) -/
theorem coarsen_triu (k : Nat) (hk : 1 ≤ k) (gs : List (List Bin)) (px : Pixels) (ht : Triu px) :
    Triu (coarsenSpecG k gs px) := by
  intro p hp
  obtain ⟨q, hq, hqi, hqj⟩ := C07.mem_groupSum_row _ p hp
  obtain ⟨q0, hq0, rfl⟩ := List.mem_map.mp hq
  simp only [rekey] at hqi hqj
  have := cmap_monotone k hk gs q0.i q0.j (ht q0 hq0)
  omega

theorem coarsenGroupSpec_length (k : Nat) (g : List Bin) : (coarsenGroupSpec k g).length = ceilDiv g.length k := by
  simp [coarsenGroupSpec]

theorem coarsenGroupsSpec_counts (k : Nat) (gs : List (List Bin)) :
    (coarsenGroupsSpec k gs).map List.length = (gs.map List.length).map (fun n => ceilDiv n k) := by
  simp [coarsenGroupsSpec, List.map_map, Function.comp_def, coarsenGroupSpec_length]

/-- bin ids of the result lie inside the new table -/
theorem coarsen_inRange (k : Nat) (hk : 1 ≤ k) (gs : List (List Bin)) (px : Pixels)
    (hr : InRange (gs.map List.length).sum px) :
    InRange ((coarsenGroupsSpec k gs).map List.length).sum (coarsenSpecG k gs px) := by
  intro p hp
  obtain ⟨q, hq, hqi, hqj⟩ := C07.mem_groupSum_row _ p hp
  obtain ⟨q0, hq0, rfl⟩ := List.mem_map.mp hq
  simp only [rekey] at hqi hqj
  rw [coarsenGroupsSpec_counts]
  have h1 := cmapCounts_lt k hk _ q0.i (hr q0 hq0).1
  have h2 := cmapCounts_lt k hk _ q0.j (hr q0 hq0).2
  unfold cmapG at hqi hqj
  omega

/-! ## composition and commutation with merging -/

theorem cmapCounts_compose (k1 k2 : Nat) (h1 : 1 ≤ k1) (h2 : 1 ≤ k2) :
    ∀ (counts : List Nat) (x : Nat),
      cmapCounts k2 (counts.map (fun n => ceilDiv n k1)) (cmapCounts k1 counts x)
        = cmapCounts (k1 * k2) counts x := by
  intro counts
  induction counts with
  | nil => intro x; rfl
  | cons n rest ih =>
    intro x
    simp only [cmapCounts, List.map_cons]
    by_cases hx : x < n
    · have := div_lt_ceilDiv h1 hx
      simp only [hx, this, if_true, Nat.div_div_eq_div_mul]
    · have hn : ¬ ceilDiv n k1 + cmapCounts k1 rest (x - n) < ceilDiv n k1 := by omega
      simp only [hx, if_false, hn, Nat.add_sub_cancel_left, ih, ceilDiv_ceilDiv h1 h2]

/-- **coarsen_compose** (pixel table): coarsening by `k₁` and then by `k₂` — over the coarsened table —
is coarsening by `k₁·k₂`, for EVERY table (fixed or variable width) and every `k₁, k₂ ≥ 1`:
per chromosome `(x / k₁) / k₂ = x / (k₁·k₂)` and `⌈⌈n/k₁⌉/k₂⌉ = ⌈n/(k₁·k₂)⌉` -/
theorem coarsen_compose_pixels (k1 k2 : Nat) (h1 : 1 ≤ k1) (h2 : 1 ≤ k2) (gs : List (List Bin)) (px : Pixels) :
    coarsenSpecG k2 (coarsenGroupsSpec k1 gs) (coarsenSpecG k1 gs px) = coarsenSpecG (k1 * k2) gs px := by
  unfold coarsenSpecG
  rw [groupSum_map_groupSum, List.map_map]
  congr 1
  apply List.map_congr_left
  intro p _
  simp only [Function.comp, rekey, cmapG, coarsenGroupsSpec_counts, cmapCounts_compose k1 k2 h1 h2]

/-- **coarsen_merge_commute**: coarsening the merge of several coolers over one table equals merging
their coarsenings -/
theorem coarsen_merge_commute (k : Nat) (gs : List (List Bin)) (inputs : List Pixels) :
    coarsenSpecG k gs (mergeSpec inputs) = mergeSpec (inputs.map (coarsenSpecG k gs)) := by
  unfold coarsenSpecG mergeSpec
  rw [groupSum_map_groupSum]
  have : inputs.map (fun px => groupSum (px.map (rekey (cmapG k gs))))
      = (inputs.map (List.map (rekey (cmapG k gs)))).map groupSum := by
    rw [List.map_map]; rfl
  rw [this, groupSum_flatten_groupSum, List.map_flatten]

/-! ## independence of the schedule -/

theorem batchesAux_flatten {α : Type} (b : Nat) (hb : 1 ≤ b) :
    ∀ (fuel : Nat) (l : List α), l.length ≤ fuel → (batchesAux b fuel l).flatten = l := by
  intro fuel
  induction fuel with
  | zero => intro l hl; have : l = [] := List.eq_nil_of_length_eq_zero (by omega)
            subst this; rfl
  | succ fuel ih =>
    intro l hl
    unfold batchesAux
    split
    · rename_i h; simp [h]
    · rw [List.flatten_cons, ih (l.drop b) (by simp; omega), List.take_append_drop]

theorem batches_flatten {α : Type} (b : Nat) (hb : 1 ≤ b) (l : List α) : (batches b l).flatten = l :=
  batchesAux_flatten b hb l.length l (Nat.le_refl _)

/-- **coarsen_map_independent**: with ANY map functor that returns its results in input order (the
`Pool.map` primitive) and any batch size `≥ 1` (= number of workers), `__iter__` yields the sequential
stream -/
theorem coarsen_map_independent
    (mapf : ((Nat × Nat) → Pixels) → List (Nat × Nat) → List Pixels)
    (hmap : ∀ f l, mapf f l = l.map f) (b : Nat) (hb : 1 ≤ b) (rb : Nat → Nat) (px : Pixels) (es : List Nat) :
    coarsenIter mapf b rb px es = coarsenStream rb px es := by
  unfold coarsenIter coarsenStream
  simp only [hmap]
  conv => rhs; rw [← batches_flatten b hb (spansOf es)]
  rw [List.map_flatten, List.flatMap_def]

/-! ## the new bin table -/

theorem strided_length {α : Type} [Inhabited α] (a k : Nat) (l : List α) :
    (strided a k l).length = ceilDiv (l.length - a) k := by simp [strided]

/-- the index used by `strided` is in range: `default` is never observed -/
theorem strided_index_lt {k : Nat} (hk : 1 ≤ k) (a n m : Nat) (hm : m < ceilDiv (n - a) k) : a + m * k < n := by
  rw [C04.lt_ceilDiv_iff hk] at hm; omega

/-- `len(l[k-1::k]) = ⌊n/k⌋` -/
theorem ceilDiv_sub_pred {k : Nat} (hk : 1 ≤ k) (n : Nat) : ceilDiv (n - (k - 1)) k = n / k := by
  apply eq_of_forall_lt_iff
  intro m
  rw [C04.lt_ceilDiv_iff hk]
  have : m < n / k ↔ (m + 1) * k ≤ n := by
    rw [← Nat.le_div_iff_mul_le (by omega)]; omega
  rw [this, Nat.add_mul]
  omega

theorem lt_div_iff {k : Nat} (hk : 1 ≤ k) (m n : Nat) : m < n / k ↔ (m + 1) * k ≤ n := by
  rw [← Nat.le_div_iff_mul_le (by omega)]; omega

theorem getD_of_lt {α : Type} (l : List α) (d : α) (i : Nat) (h : i < l.length) : l.getD i d = l[i] := by
  rw [List.getD_eq_getElem?_getD, List.getElem?_eq_getElem h]; rfl

theorem get_idx_congr {α : Type} (g : List α) {i j : Nat} (h : i = j) (hi : i < g.length) (hj : j < g.length) :
    g[i] = g[j] := by subst h; rfl

theorem lastStop_getD (g : List Bin) (h : 0 < g.length) :
    lastStop g = (g.getD (g.length - 1) default).stop := by
  rw [C04.lastStop_eq g h, getD_of_lt _ _ _ (by omega)]

/-- **coarsenGroup_eq_spec**: the code's construction (`iloc[::k]`, `iloc[k-1::k]`, chromosome length
appended when one end is missing) is the block specification, for every group, every `k ≥ 1`, provided
the chromosome length is the end of the group's last bin -/
theorem coarsenGroup_eq_spec (k : Nat) (hk : 1 ≤ k) (g : List Bin) (clen : Nat) (hc : clen = lastStop g) :
    coarsenGroup k clen g = coarsenGroupSpec k g := by
  have hE := ceilDiv_sub_pred hk g.length
  have h1 := C04.div_le_ceilDiv hk g.length
  have h2 := C04.ceilDiv_le_div_succ hk g.length
  let F : Nat → Nat := fun m => (g.getD (min ((m + 1) * k) g.length - 1) default).stop
  have hends : (strided (k - 1) k g).map Bin.stop = (List.range (g.length / k)).map F := by
    unfold strided
    rw [hE, List.map_map]
    apply List.map_congr_left
    intro m hm
    have hm' := (lt_div_iff hk m g.length).mp (List.mem_range.mp hm)
    simp only [Function.comp, F]
    have : min ((m + 1) * k) g.length - 1 = k - 1 + m * k := by
      rw [Nat.min_eq_left hm', Nat.add_mul]; omega
    rw [this]
  have hends' : (if ((strided (k - 1) k g).map Bin.stop).length < (strided 0 k g).length
      then (strided (k - 1) k g).map Bin.stop ++ [clen] else (strided (k - 1) k g).map Bin.stop)
        = (List.range (ceilDiv g.length k)).map F := by
    rw [hends]
    simp only [List.length_map, List.length_range, strided_length, Nat.sub_zero]
    split
    · rename_i hlt
      have hC : ceilDiv g.length k = g.length / k + 1 := by omega
      rw [hC, List.range_succ, List.map_append]
      congr 1
      simp only [List.map_cons, List.map_nil, F]
      have hn : ¬ (g.length / k + 1) * k ≤ g.length := by
        rw [← lt_div_iff hk]; omega
      have hpos : 0 < g.length := by
        have : 0 < ceilDiv g.length k := by omega
        have := (C04.lt_ceilDiv_iff hk 0 g.length).mp this
        omega
      rw [Nat.min_eq_right (by omega), hc, lastStop_getD g hpos]
    · rename_i hge
      have hC : ceilDiv g.length k = g.length / k := by omega
      rw [hC]
  unfold coarsenGroup
  simp only []
  rw [hends']
  unfold coarsenGroupSpec strided
  simp only [Nat.sub_zero, Nat.zero_add]
  rw [List.zipWith_map, List.zipWith_self]

theorem spec_getElem (k : Nat) (g : List Bin) (m : Nat) (hm : m < (coarsenGroupSpec k g).length) :
    (coarsenGroupSpec k g)[m] = ⟨(g.getD (m * k) default).chrom, (g.getD (m * k) default).start,
      (g.getD (min ((m + 1) * k) g.length - 1) default).stop⟩ := by
  simp [coarsenGroupSpec]

/-- index facts of block `m`: first old bin `m·k`, last old bin `min((m+1)·k, n) − 1` -/
theorem block_bounds {k : Nat} (hk : 1 ≤ k) (n m : Nat) (hm : m < ceilDiv n k) :
    m * k < n ∧ min ((m + 1) * k) n - 1 < n ∧ m * k ≤ min ((m + 1) * k) n - 1 := by
  have h := (C04.lt_ceilDiv_iff hk m n).mp hm
  rw [Nat.add_mul]
  by_cases hc : m * k + 1 * k ≤ n
  · rw [Nat.min_eq_left hc]; omega
  · rw [Nat.min_eq_right (by omega)]; omega

theorem tiles_of_getElem : ∀ (l : List Bin) (s : Nat),
    (∀ i (h : i < l.length), l[i].start < l[i].stop) →
    (∀ h : 0 < l.length, l[0].start = s) →
    (∀ i (h : i + 1 < l.length), l[i].stop = l[i + 1].start) → TilesFrom s l := by
  intro l
  induction l with
  | nil => intro _ _ _ _; trivial
  | cons b rest ih =>
    intro s hpos hhead hnext
    refine ⟨hhead (by simp), hpos 0 (by simp), ?_⟩
    apply ih
    · intro i h; exact hpos (i + 1) (by simpa using h)
    · intro h; have := hnext 0 (by simpa using h); simpa using this.symm
    · intro i h; exact hnext (i + 1) (by simpa using h)

theorem tiles_stop_mono (g : List Bin) (s0 : Nat) (ht : TilesFrom s0 g) (i j : Nat) (hij : i ≤ j)
    (hj : j < g.length) : g[i].stop ≤ g[j].stop := by
  by_cases h : i = j
  · subst h; exact Nat.le_refl _
  · have hs := C04.tiles_stops_sorted g s0 ht
    have := List.pairwise_iff_getElem.mp hs i j (by simp; omega) (by simpa using hj) (by omega)
    simp only [List.getElem_map] at this
    omega

theorem tiles_start_mono (g : List Bin) (s0 : Nat) (ht : TilesFrom s0 g) (i j : Nat) (hij : i ≤ j)
    (hj : j < g.length) : g[i].start ≤ g[j].start := by
  by_cases h : i = j
  · subst h; exact Nat.le_refl _
  · have hs := C04.tiles_starts_sorted g s0 ht
    have := List.pairwise_iff_getElem.mp hs i j (by simp; omega) (by simpa using hj) (by omega)
    simp only [List.getElem_map] at this
    omega

theorem tiles_start_lt_iff (g : List Bin) (s0 : Nat) (ht : TilesFrom s0 g) (i j : Nat)
    (hi : i < g.length) (hj : j < g.length) : g[i].start ≤ g[j].start ↔ i ≤ j := by
  constructor
  · intro h
    apply Nat.le_of_not_lt
    intro hji
    have hs := C04.tiles_starts_sorted g s0 ht
    have := List.pairwise_iff_getElem.mp hs j i (by simpa using hj) (by simpa using hi) hji
    simp only [List.getElem_map] at this
    omega
  · intro h; exact tiles_start_mono g s0 ht i j h hj

/-- start / end / chromosome of new bin `m` in terms of in-range old bins -/
theorem spec_fields {k : Nat} (hk : 1 ≤ k) (g : List Bin) (m : Nat) (hm : m < (coarsenGroupSpec k g).length) :
    ∃ (ha : m * k < g.length) (he : min ((m + 1) * k) g.length - 1 < g.length),
      (coarsenGroupSpec k g)[m].start = g[m * k].start ∧
      (coarsenGroupSpec k g)[m].chrom = g[m * k].chrom ∧
      (coarsenGroupSpec k g)[m].stop = g[min ((m + 1) * k) g.length - 1].stop := by
  have hm' : m < ceilDiv g.length k := by simpa [coarsenGroupSpec_length] using hm
  obtain ⟨ha, he, _⟩ := block_bounds hk g.length m hm'
  refine ⟨ha, he, ?_⟩
  rw [spec_getElem, getD_of_lt _ _ _ ha, getD_of_lt _ _ _ he]
  exact ⟨rfl, rfl, rfl⟩

theorem spec_tiles {k : Nat} (hk : 1 ≤ k) (g : List Bin) (s0 : Nat) (ht : TilesFrom s0 g) :
    TilesFrom s0 (coarsenGroupSpec k g) := by
  apply tiles_of_getElem
  · intro m hm
    obtain ⟨ha, he, h1, _, h3⟩ := spec_fields hk g m hm
    have hm' : m < ceilDiv g.length k := by simpa [coarsenGroupSpec_length] using hm
    obtain ⟨_, _, hle⟩ := block_bounds hk g.length m hm'
    have := C04.tiles_pos g s0 ht (m * k) ha
    have := tiles_stop_mono g s0 ht (m * k) _ hle he
    omega
  · intro h
    obtain ⟨ha, he, h1, _, _⟩ := spec_fields hk g 0 h
    rw [h1]
    simp only [Nat.zero_mul]
    exact C04.tiles_head g s0 ht (by omega)
  · intro m hm
    obtain ⟨ha, he, _, _, h3⟩ := spec_fields hk g m (by omega)
    obtain ⟨ha', _, h1', _, _⟩ := spec_fields hk g (m + 1) hm
    rw [h3, h1']
    have hlt : (m + 1) * k < g.length := ha'
    have hmin : min ((m + 1) * k) g.length = (m + 1) * k := Nat.min_eq_left (Nat.le_of_lt hlt)
    have hpos : 1 ≤ (m + 1) * k := Nat.mul_le_mul (show 1 ≤ m + 1 by omega) hk
    generalize (m + 1) * k = X at *
    have hX : X - 1 + 1 < g.length := by omega
    have := C04.tiles_next g s0 ht (X - 1) hX
    rw [get_idx_congr g (show min X g.length - 1 = X - 1 by rw [hmin]) he (by omega), this,
      get_idx_congr g (show X - 1 + 1 = X by omega) hX hlt]

theorem spec_lastStop {k : Nat} (hk : 1 ≤ k) (g : List Bin) (hne : g ≠ []) :
    lastStop (coarsenGroupSpec k g) = lastStop g := by
  have hn : 0 < g.length := List.length_pos_iff.mpr hne
  have hC : 0 < ceilDiv g.length k := (C04.lt_ceilDiv_iff hk 0 g.length).mpr (by omega)
  have hlen := coarsenGroupSpec_length k g
  rw [C04.lastStop_eq _ (by omega), C04.lastStop_eq g hn]
  obtain ⟨_, he, _, _, h3⟩ := spec_fields hk g ((coarsenGroupSpec k g).length - 1) (by omega)
  rw [h3]
  have := C20.le_ceilDiv_mul (L := g.length) hk
  have e1 : (coarsenGroupSpec k g).length - 1 + 1 = ceilDiv g.length k := by omega
  rw [get_idx_congr g (show min (((coarsenGroupSpec k g).length - 1 + 1) * k) g.length - 1 = g.length - 1 by
    rw [e1, Nat.min_eq_right this]) he (by omega)]

theorem spec_ne_nil {k : Nat} (hk : 1 ≤ k) (g : List Bin) (hne : g ≠ []) : coarsenGroupSpec k g ≠ [] := by
  have hn : 0 < g.length := List.length_pos_iff.mpr hne
  have hC : 0 < ceilDiv g.length k := (C04.lt_ceilDiv_iff hk 0 g.length).mpr (by omega)
  intro h
  have := congrArg List.length h
  rw [coarsenGroupSpec_length] at this
  simp at this; omega

theorem spec_valid {k : Nat} (hk : 1 ≤ k) (g : List Bin) (hv : ValidChrom g) : ValidChrom (coarsenGroupSpec k g) :=
  ⟨spec_ne_nil hk g hv.1, spec_tiles hk g 0 hv.2⟩

theorem spec_chrom {k : Nat} (hk : 1 ≤ k) (g : List Bin) (c : Nat) (hc : ∀ x ∈ g, x.chrom = c) :
    ∀ x ∈ coarsenGroupSpec k g, x.chrom = c := by
  intro x hx
  obtain ⟨m, hm, rfl⟩ := List.getElem_of_mem hx
  obtain ⟨ha, _, _, h2, _⟩ := spec_fields hk g m hm
  rw [h2]; exact hc _ (List.getElem_mem ha)

/-- a chromosome with no more than `k` bins becomes one bin -/
theorem spec_one_bin {k : Nat} (hk : 1 ≤ k) (g : List Bin) (hne : g ≠ []) (hle : g.length ≤ k) :
    (coarsenGroupSpec k g).length = 1 := by
  have hn : 0 < g.length := List.length_pos_iff.mpr hne
  rw [coarsenGroupSpec_length]
  have h0 : 0 < ceilDiv g.length k := (C04.lt_ceilDiv_iff hk 0 g.length).mpr (by omega)
  have h1 : ¬ 1 < ceilDiv g.length k := by
    rw [C04.lt_ceilDiv_iff hk]; omega
  omega

theorem tiles_drop : ∀ (g : List Bin) (s : Nat), TilesFrom s g → ∀ (i : Nat) (h : i < g.length),
    TilesFrom g[i].start (g.drop i) := by
  intro g
  induction g with
  | nil => intro _ _ i h; simp at h
  | cons b rest ih =>
    intro s ht i h
    cases i with
    | zero =>
      simp only [List.getElem_cons_zero, List.drop_zero]
      exact ⟨rfl, ht.2.1, ht.2.2⟩
    | succ i =>
      simp only [List.getElem_cons_succ, List.drop_succ_cons]
      exact ih b.stop ht.2.2 i (by simpa using h)

theorem tiles_take : ∀ (g : List Bin) (s : Nat), TilesFrom s g → ∀ (j : Nat), TilesFrom s (g.take j) := by
  intro g
  induction g with
  | nil => intro _ _ j; simp [TilesFrom]
  | cons b rest ih =>
    intro s ht j
    cases j with
    | zero => simp [TilesFrom]
    | succ j =>
      simp only [List.take_succ_cons]
      exact ⟨ht.1, ht.2.1, ih b.stop ht.2.2 j⟩

/-- the blocks `g[m·k : (m+1)·k]` partition the chromosome -/
theorem blocks_take (k : Nat) (g : List Bin) : ∀ (C : Nat),
    ((List.range C).flatMap fun m => (g.drop (m * k)).take k) = g.take (C * k) := by
  intro C
  induction C with
  | zero => simp
  | succ C ih =>
    rw [List.range_succ, List.flatMap_append, ih]
    simp only [List.flatMap_cons, List.flatMap_nil, List.append_nil]
    rw [Nat.add_mul, Nat.one_mul, List.take_add]

/-- **coarsenBins_spec** (one chromosome): the new bins form a valid tiling of the same chromosome
(same length, same id), there are `⌈n/k⌉` of them (one if `n ≤ k`), and new bin `m` is exactly the union of
the consecutive old bins `g[m·k : (m+1)·k]` — `k` of them except possibly in the last group — which
together partition the chromosome. -/
theorem coarsenBins_spec (k : Nat) (hk : 1 ≤ k) (g : List Bin) (hv : ValidChrom g) :
    ValidChrom (coarsenGroupSpec k g) ∧ lastStop (coarsenGroupSpec k g) = lastStop g ∧
    (coarsenGroupSpec k g).length = ceilDiv g.length k ∧
    (g.length ≤ k → (coarsenGroupSpec k g).length = 1) ∧
    (∀ c, (∀ x ∈ g, x.chrom = c) → ∀ x ∈ coarsenGroupSpec k g, x.chrom = c) ∧
    ((List.range (coarsenGroupSpec k g).length).flatMap fun m => (g.drop (m * k)).take k) = g ∧
    ∀ (m : Nat) (hm : m < (coarsenGroupSpec k g).length),
      (g.drop (m * k)).take k ≠ [] ∧ ((g.drop (m * k)).take k).length ≤ k ∧
      (m + 1 < (coarsenGroupSpec k g).length → ((g.drop (m * k)).take k).length = k) ∧
      TilesFrom (coarsenGroupSpec k g)[m].start ((g.drop (m * k)).take k) ∧
      lastStop ((g.drop (m * k)).take k) = (coarsenGroupSpec k g)[m].stop := by
  obtain ⟨hne, ht⟩ := hv
  refine ⟨spec_valid hk g ⟨hne, ht⟩, spec_lastStop hk g hne, coarsenGroupSpec_length k g,
    spec_one_bin hk g hne, fun c hc => spec_chrom hk g c hc, ?_, ?_⟩
  · rw [blocks_take, coarsenGroupSpec_length]
    exact List.take_of_length_le (C20.le_ceilDiv_mul hk)
  · intro m hm
    have hm' : m < ceilDiv g.length k := by simpa [coarsenGroupSpec_length] using hm
    obtain ⟨ha, he, h1, _, h3⟩ := spec_fields hk g m hm
    have hlen : ((g.drop (m * k)).take k).length = min k (g.length - m * k) := by simp
    have hpos : 0 < ((g.drop (m * k)).take k).length := by rw [hlen]; omega
    refine ⟨List.ne_nil_of_length_pos hpos, by rw [hlen]; omega, ?_, ?_, ?_⟩
    · intro hm1
      rw [coarsenGroupSpec_length] at hm1
      have := (C04.lt_ceilDiv_iff hk (m + 1) g.length).mp hm1
      rw [Nat.add_mul] at this
      rw [hlen]; omega
    · rw [h1]
      exact tiles_take _ _ (tiles_drop g 0 ht (m * k) ha) k
    · rw [C04.lastStop_eq _ hpos, h3]
      simp only [List.getElem_take, List.getElem_drop]
      have hidx : m * k + (((g.drop (m * k)).take k).length - 1) = min ((m + 1) * k) g.length - 1 := by
        rw [hlen, Nat.add_mul]; omega
      rw [get_idx_congr g hidx (by omega) he]

/-- non-vacuity: a variable-width chromosome of five bins, `k = 2`: bins `[0,7) [7,12) [12,20)` -/
example : ValidChrom [(⟨0, 0, 3⟩ : Bin), ⟨0, 3, 7⟩, ⟨0, 7, 8⟩, ⟨0, 8, 12⟩, ⟨0, 12, 20⟩] ∧
    coarsenGroupSpec 2 [(⟨0, 0, 3⟩ : Bin), ⟨0, 3, 7⟩, ⟨0, 7, 8⟩, ⟨0, 8, 12⟩, ⟨0, 12, 20⟩]
      = [⟨0, 0, 7⟩, ⟨0, 7, 12⟩, ⟨0, 12, 20⟩] ∧
    coarsenGroup 2 20 [(⟨0, 0, 3⟩ : Bin), ⟨0, 3, 7⟩, ⟨0, 7, 8⟩, ⟨0, 8, 12⟩, ⟨0, 12, 20⟩]
      = [⟨0, 0, 7⟩, ⟨0, 7, 12⟩, ⟨0, 12, 20⟩] := by decide

/-- table level: with chromosome lengths equal to the ends of the last bins, `coarsen_bins` is the L0 table -/
theorem coarsenBins_eq_spec (k : Nat) (hk : 1 ≤ k) (lens : List Nat) (gs : List (List Bin))
    (hl : ∀ g ∈ gs, lens.getD (groupChrom g) 0 = lastStop g) :
    coarsenGroups k lens gs = coarsenGroupsSpec k gs := by
  unfold coarsenGroups coarsenGroupsSpec
  apply List.map_congr_left
  intro g hg
  exact coarsenGroup_eq_spec k hk g _ (hl g hg)

/-- **coarsen_compose** (bin table): groups of `k₂` groups of `k₁` old bins are groups of `k₁·k₂` old bins -/
theorem coarsenGroupSpec_compose (k1 k2 : Nat) (h1 : 1 ≤ k1) (h2 : 1 ≤ k2) (g : List Bin) :
    coarsenGroupSpec k2 (coarsenGroupSpec k1 g) = coarsenGroupSpec (k1 * k2) g := by
  have h12 : 1 ≤ k1 * k2 := Nat.mul_le_mul h1 h2
  apply List.ext_getElem
  · rw [coarsenGroupSpec_length, coarsenGroupSpec_length, coarsenGroupSpec_length, ceilDiv_ceilDiv h1 h2]
  · intro m hm1 hm2
    obtain ⟨ha, he, s1, c1, e1⟩ := spec_fields h2 (coarsenGroupSpec k1 g) m hm1
    obtain ⟨ha', he', s2, c2, e2⟩ := spec_fields h12 g m hm2
    obtain ⟨hb, _, s3, c3, _⟩ := spec_fields h1 g (m * k2) ha
    obtain ⟨_, hf, _, _, e3⟩ := spec_fields h1 g (min ((m + 1) * k2) (coarsenGroupSpec k1 g).length - 1) he
    have hmul : m * k2 * k1 = m * (k1 * k2) := by rw [Nat.mul_assoc, Nat.mul_comm k2 k1]
    have hidx : min ((min ((m + 1) * k2) (coarsenGroupSpec k1 g).length - 1 + 1) * k1) g.length
        = min ((m + 1) * (k1 * k2)) g.length := by
      have hmul' : (m + 1) * k2 * k1 = (m + 1) * (k1 * k2) := by rw [Nat.mul_assoc, Nat.mul_comm k2 k1]
      have hn' : 0 < (coarsenGroupSpec k1 g).length := by omega
      by_cases hc : (m + 1) * k2 ≤ (coarsenGroupSpec k1 g).length
      · rw [Nat.min_eq_left hc]
        have hpos : 1 ≤ (m + 1) * k2 := Nat.mul_le_mul (show 1 ≤ m + 1 by omega) h2
        have : (m + 1) * k2 - 1 + 1 = (m + 1) * k2 := by omega
        rw [this, hmul']
      · have hlt : (coarsenGroupSpec k1 g).length < (m + 1) * k2 := Nat.lt_of_not_le hc
        rw [Nat.min_eq_right (Nat.le_of_lt hlt)]
        have e : (coarsenGroupSpec k1 g).length - 1 + 1 = (coarsenGroupSpec k1 g).length := by omega
        rw [e]
        have hge : g.length ≤ (coarsenGroupSpec k1 g).length * k1 := by
          rw [coarsenGroupSpec_length]; exact C20.le_ceilDiv_mul (L := g.length) h1
        have hgt : (coarsenGroupSpec k1 g).length * k1 ≤ (m + 1) * k2 * k1 :=
          Nat.mul_le_mul_right _ (Nat.le_of_lt hlt)
        rw [Nat.min_eq_right hge, Nat.min_eq_right (by rw [← hmul']; exact Nat.le_trans hge hgt)]
    have key : ∀ (x y : Bin), x.chrom = y.chrom → x.start = y.start → x.stop = y.stop → x = y := by
      intro x y a b c; cases x; cases y; simp_all
    apply key
    · rw [c1, c3, c2]; simp only [hmul]
    · rw [s1, s3, s2]; simp only [hmul]
    · rw [e1, e3, e2]; simp only [hidx]

theorem coarsenGroupsSpec_compose (k1 k2 : Nat) (h1 : 1 ≤ k1) (h2 : 1 ≤ k2) (gs : List (List Bin)) :
    coarsenGroupsSpec k2 (coarsenGroupsSpec k1 gs) = coarsenGroupsSpec (k1 * k2) gs := by
  unfold coarsenGroupsSpec
  rw [List.map_map]
  apply List.map_congr_left
  intro g _
  exact coarsenGroupSpec_compose k1 k2 h1 h2 g

/-- **coarsen_compose**: bins and pixels, for every table and `k₁, k₂ ≥ 1` -/
theorem coarsen_compose (k1 k2 : Nat) (h1 : 1 ≤ k1) (h2 : 1 ≤ k2) (gs : List (List Bin)) (px : Pixels) :
    coarsenGroupsSpec k2 (coarsenGroupsSpec k1 gs) = coarsenGroupsSpec (k1 * k2) gs ∧
    coarsenSpecG k2 (coarsenGroupsSpec k1 gs) (coarsenSpecG k1 gs px) = coarsenSpecG (k1 * k2) gs px :=
  ⟨coarsenGroupsSpec_compose k1 k2 h1 h2 gs, coarsen_compose_pixels k1 k2 h1 h2 gs px⟩

example : coarsenSpecG 3 (coarsenGroupsSpec 2 [[⟨0, 0, 1⟩, ⟨0, 1, 2⟩, ⟨0, 2, 3⟩, ⟨0, 3, 4⟩, ⟨0, 4, 5⟩, ⟨0, 5, 6⟩, ⟨0, 6, 7⟩], [⟨1, 0, 1⟩, ⟨1, 1, 2⟩]])
    (coarsenSpecG 2 [[⟨0, 0, 1⟩, ⟨0, 1, 2⟩, ⟨0, 2, 3⟩, ⟨0, 3, 4⟩, ⟨0, 4, 5⟩, ⟨0, 5, 6⟩, ⟨0, 6, 7⟩], [⟨1, 0, 1⟩, ⟨1, 1, 2⟩]]
      [⟨0, 5, 1⟩, ⟨1, 6, 2⟩, ⟨6, 7, 4⟩, ⟨7, 8, 8⟩])
    = [⟨0, 0, 1⟩, ⟨0, 1, 2⟩, ⟨1, 2, 4⟩, ⟨2, 2, 8⟩] := by decide

/-! ## the per-chromosome view of a well-formed table -/

/-- groups `c0, c0+1, …`: non-empty, group `i` carries chromosome id `c0 + i` -/
def WFfrom (c0 : Nat) (gs : List (List Bin)) : Prop :=
  ∀ (i : Nat) (h : i < gs.length), gs[i] ≠ [] ∧ ∀ x ∈ gs[i], x.chrom = c0 + i

theorem WF.from (gs : List (List Bin)) (h : WF gs) : WFfrom 0 gs := by
  intro i hi
  obtain ⟨h1, h2⟩ := h i hi
  exact ⟨h1.1, fun x hx => by rw [h2 x hx]; omega⟩

theorem WFfrom.tail {c0 : Nat} {g : List Bin} {rest : List (List Bin)} (h : WFfrom c0 (g :: rest)) :
    WFfrom (c0 + 1) rest := by
  intro i hi
  have := h (i + 1) (by simpa using hi)
  simp only [List.getElem_cons_succ] at this
  exact ⟨this.1, fun x hx => by rw [this.2 x hx]; omega⟩

theorem WFfrom.chrom_ge {c0 : Nat} {gs : List (List Bin)} (h : WFfrom c0 gs) :
    ∀ x ∈ gs.flatten, c0 ≤ x.chrom := by
  intro x hx
  obtain ⟨g, hg, hxg⟩ := List.mem_flatten.mp hx
  obtain ⟨i, hi, rfl⟩ := List.getElem_of_mem hg
  rw [(h i hi).2 x hxg]; omega

theorem chromOrder_block (c : Nat) (R : BinTable) : ∀ (g : List Bin), g ≠ [] → (∀ x ∈ g, x.chrom = c) →
    chromOrder (g ++ R) = c :: (chromOrder R).filter (· ≠ c) := by
  intro g
  induction g with
  | nil => intro h; exact absurd rfl h
  | cons b rest ih =>
    intro _ hc
    have hb : b.chrom = c := hc b (by simp)
    cases rest with
    | nil => simp [chromOrder, hb]
    | cons b' rest' =>
      have := ih (by simp) (fun x hx => hc x (List.mem_cons_of_mem _ hx))
      simp only [List.cons_append, chromOrder, hb] at this ⊢
      rw [this]
      simp [List.filter_filter]

/-- **groups_flatten**: the `groupby` view of the concatenation of well-formed groups is the groups -/
theorem groups_flatten : ∀ (gs : List (List Bin)) (c0 : Nat), WFfrom c0 gs → groups gs.flatten = gs := by
  intro gs
  induction gs with
  | nil => intro _ _; rfl
  | cons g rest ih =>
    intro c0 h
    have ih' := ih (c0 + 1) h.tail
    obtain ⟨hne, hc⟩ := h 0 (by simp)
    simp only [List.getElem_cons_zero, Nat.add_zero] at hne hc
    have hR : ∀ x ∈ rest.flatten, x.chrom ≠ c0 := by
      intro x hx
      have := h.tail.chrom_ge x hx
      omega
    unfold groups at ih' ⊢
    rw [List.flatten_cons, chromOrder_block c0 _ g hne hc]
    have hfil : (chromOrder rest.flatten).filter (· ≠ c0) = chromOrder rest.flatten := by
      rw [List.filter_eq_self]
      intro a ha
      obtain ⟨x, hx, hxa⟩ := (C04.mem_chromOrder _ a).mp ha
      have := hR x hx
      simp; omega
    rw [hfil, List.map_cons]
    congr 1
    · unfold groupOf
      rw [List.filter_append]
      have h1 : g.filter (fun x => decide (x.chrom = c0)) = g := by
        rw [List.filter_eq_self]; intro x hx; simpa using hc x hx
      have h2 : rest.flatten.filter (fun x => decide (x.chrom = c0)) = [] := by
        rw [List.filter_eq_nil_iff]; intro x hx; simpa using hR x hx
      rw [h1, h2, List.append_nil]
    · conv => rhs; rw [← ih']
      apply List.map_congr_left
      intro c' hc'
      obtain ⟨x, hx, hxa⟩ := (C04.mem_chromOrder _ c').mp hc'
      have hne' : c' ≠ c0 := by have := hR x hx; omega
      unfold groupOf
      rw [List.filter_append]
      have h1 : g.filter (fun x => decide (x.chrom = c')) = [] := by
        rw [List.filter_eq_nil_iff]; intro y hy; have := hc y hy; simp; omega
      rw [h1, List.nil_append]

theorem countP_chrom_lt : ∀ (gs : List (List Bin)) (c0 : Nat), WFfrom c0 gs → ∀ (c : Nat), c ≤ gs.length →
    gs.flatten.countP (fun x => decide (x.chrom < c0 + c)) = ((gs.map List.length).take c).sum := by
  intro gs
  induction gs with
  | nil => intro _ _ c hc; simp
  | cons g rest ih =>
    intro c0 h c hc
    obtain ⟨_, hg⟩ := h 0 (by simp)
    simp only [List.getElem_cons_zero, Nat.add_zero] at hg
    cases c with
    | zero =>
      simp only [Nat.add_zero, List.take_zero, List.sum_nil]
      rw [List.countP_eq_zero]
      intro x hx
      have := h.chrom_ge x hx
      simp; omega
    | succ c =>
      simp only [List.flatten_cons, List.countP_append, List.map_cons, List.take_succ_cons, List.sum_cons]
      have h1 : g.countP (fun x => decide (x.chrom < c0 + (c + 1))) = g.length := by
        rw [List.countP_eq_length]; intro x hx; have := hg x hx; simp; omega
      have := ih (c0 + 1) h.tail c (by simpa using hc)
      have e : c0 + 1 + c = c0 + (c + 1) := by omega
      rw [e] at this
      rw [h1, this]

/-- the stored `indexes/chrom_offset` of a well-formed table has the prefix-sum meaning -/
theorem offsSpec_chromOffsets (gs : List (List Bin)) (h : WF gs) :
    OffsSpec (gs.map List.length) (chromOffsets gs.flatten gs.length) := by
  refine ⟨by simp [chromOffsets], ?_⟩
  intro c hc
  simp only [List.length_map] at hc
  rw [C04.chromOffsets_getD _ _ c hc]
  have := countP_chrom_lt gs 0 (WF.from gs h) c hc
  simpa using this

theorem sum_counts_eq_length (gs : List (List Bin)) : (gs.map List.length).sum = gs.flatten.length := by
  rw [List.length_flatten]

/-- bin `x` of the flat table is bin `t` of chromosome `c`, with `x = chrom_offset[c] + t` -/
theorem flatten_locate : ∀ (gs : List (List Bin)) (x : Nat), x < gs.flatten.length →
    ∃ (c t : Nat) (hc : c < gs.length) (ht : t < gs[c].length),
      x = ((gs.map List.length).take c).sum + t ∧ gs.flatten[x]? = some gs[c][t] := by
  intro gs
  induction gs with
  | nil => intro x hx; simp at hx
  | cons g rest ih =>
    intro x hx
    by_cases hxg : x < g.length
    · refine ⟨0, x, by simp, by simpa using hxg, by simp, ?_⟩
      simp only [List.flatten_cons, List.getElem_cons_zero]
      rw [List.getElem?_append_left hxg, List.getElem?_eq_getElem hxg]
    · simp only [List.flatten_cons, List.length_append] at hx
      obtain ⟨c, t, hc, ht, hx', hget⟩ := ih (x - g.length) (by omega)
      refine ⟨c + 1, t, by simpa using hc, by simpa using ht, ?_, ?_⟩
      · simp only [List.map_cons, List.take_succ_cons, List.sum_cons]; omega
      · simp only [List.flatten_cons, List.getElem_cons_succ]
        rw [List.getElem?_append_right (by omega)]
        exact hget

/-! ## re-binning through the new table equals `cmap` -/

theorem lt_succ_div_mul {k : Nat} (hk : 1 ≤ k) (t : Nat) : t < (t / k + 1) * k := by
  have := Nat.lt_mul_div_succ t (show 0 < k by omega)
  rw [Nat.mul_comm] at this
  exact this

/-- old bin `t` lies inside new bin `t / k` -/
theorem old_in_new {k : Nat} (hk : 1 ≤ k) (g : List Bin) (hv : ValidChrom g) (t : Nat) (ht : t < g.length) :
    ∃ (hm : t / k < (coarsenGroupSpec k g).length),
      (coarsenGroupSpec k g)[t / k].start ≤ g[t].start ∧ g[t].stop ≤ (coarsenGroupSpec k g)[t / k].stop := by
  have hm : t / k < (coarsenGroupSpec k g).length := by
    rw [coarsenGroupSpec_length]; exact div_lt_ceilDiv hk ht
  obtain ⟨ha, he, h1, _, h3⟩ := spec_fields hk g (t / k) hm
  refine ⟨hm, ?_, ?_⟩
  · rw [h1]; exact tiles_start_mono g 0 hv.2 _ _ (Nat.div_mul_le_self t k) ht
  · rw [h3]
    apply tiles_stop_mono g 0 hv.2 _ _ _ he
    have := lt_succ_div_mul hk t
    have hmin : t < min ((t / k + 1) * k) g.length := by
      rw [Nat.lt_min]; exact ⟨this, ht⟩
    omega

/-- fixed-width path, one chromosome: if the NEW chromosome is uniform of width `b`, then
`⌊start / b⌋ = t / k` for old bin `t` -/
theorem fixed_rebin {k : Nat} (hk : 1 ≤ k) (g : List Bin) (hv : ValidChrom g) (b : Nat)
    (hu : UniformChrom b (coarsenGroupSpec k g)) (t : Nat) (ht : t < g.length) :
    g[t].start / b = t / k := by
  have hv' := spec_valid hk g hv
  have hb := C04.one_le_of_uniform _ b hv' hu
  obtain ⟨hm, h1, h2⟩ := old_in_new hk g hv t ht
  obtain ⟨u1, u2⟩ := C04.uniform_get _ b _ 0 hu (t / k) hm
  simp only [Nat.zero_add] at u1 u2
  have hpos := C04.tiles_pos g 0 hv.2 t ht
  apply Nat.div_eq_of_lt_le
  · rw [u1] at h1; exact h1
  · rw [u2] at h2
    have : min ((t / k + 1) * b) (lastStop (coarsenGroupSpec k g)) ≤ (t / k + 1) * b := Nat.min_le_left _ _
    omega

/-- variable-width path, one chromosome: `searchsorted(new starts, start of old bin t, "right") = t/k + 1` -/
theorem var_rebin {k : Nat} (hk : 1 ≤ k) (g : List Bin) (hv : ValidChrom g) (t : Nat) (ht : t < g.length) :
    ssRight ((coarsenGroupSpec k g).map Bin.start) g[t].start = t / k + 1 := by
  have hv' := spec_valid hk g hv
  have hsorted := C04.tiles_starts_sorted _ 0 hv'.2
  obtain ⟨hm, h1, _⟩ := old_in_new hk g hv t ht
  have hle := C04.ssRight_le_length ((coarsenGroupSpec k g).map Bin.start) g[t].start
  simp only [List.length_map] at hle
  have lo := (C04.ssRight_iff _ hsorted g[t].start (t / k) (by simpa using hm)).mp
    (by simpa using h1)
  by_cases hnext : t / k + 1 < (coarsenGroupSpec k g).length
  · have hiff := C04.ssRight_iff _ hsorted g[t].start (t / k + 1) (by simpa using hnext)
    obtain ⟨ha, _, s1, _, _⟩ := spec_fields hk g (t / k + 1) hnext
    simp only [List.getElem_map] at hiff
    rw [s1, tiles_start_lt_iff g 0 hv.2 _ _ ha ht] at hiff
    have := lt_succ_div_mul hk t
    have : ¬ (t / k + 1 < ssRight ((coarsenGroupSpec k g).map Bin.start) g[t].start) := by
      intro h; have := hiff.mpr h; omega
    omega
  · omega

theorem ssRight_shift (A s : Nat) (l : List Nat) : ssRight (l.map (A + ·)) (A + s) = ssRight l s := by
  unfold ssRight
  rw [List.countP_map]
  apply List.countP_congr
  intro x _
  simp

/-- counting `≤ v` over consecutive blocks separated by `v`: everything before block `c` counts, nothing
after it does -/
theorem ssRight_blocks (v : Nat) : ∀ (Ls : List (List Nat)) (c : Nat) (hc : c < Ls.length),
    (∀ (c' : Nat) (h : c' < Ls.length), c' < c → ∀ y ∈ Ls[c'], y ≤ v) →
    (∀ (c' : Nat) (h : c' < Ls.length), c < c' → ∀ y ∈ Ls[c'], v < y) →
    ssRight Ls.flatten v = ((Ls.map List.length).take c).sum + ssRight Ls[c] v := by
  intro Ls
  induction Ls with
  | nil => intro c hc; simp at hc
  | cons l rest ih =>
    intro c hc hlo hhi
    cases c with
    | zero =>
      simp only [List.flatten_cons, List.take_zero, List.sum_nil, Nat.zero_add, List.getElem_cons_zero]
      unfold ssRight
      rw [List.countP_append]
      have : rest.flatten.countP (fun y => decide (y ≤ v)) = 0 := by
        rw [List.countP_eq_zero]
        intro y hy
        obtain ⟨l', hl', hyl⟩ := List.mem_flatten.mp hy
        obtain ⟨i, hi, rfl⟩ := List.getElem_of_mem hl'
        have := hhi (i + 1) (by simpa using hi) (by omega) y (by simpa using hyl)
        simp; omega
      omega
    | succ c =>
      simp only [List.flatten_cons, List.map_cons, List.take_succ_cons, List.sum_cons, List.getElem_cons_succ]
      have hl : ssRight l v = l.length := by
        unfold ssRight
        rw [List.countP_eq_length]
        intro y hy
        have := hlo 0 (by simp) (by omega) y (by simpa using hy)
        simpa using this
      have := ih c (by simpa using hc)
        (fun c' h hlt y hy => hlo (c' + 1) (by simpa using h) (by omega) y (by simpa using hy))
        (fun c' h hlt y hy => hhi (c' + 1) (by simpa using h) (by omega) y (by simpa using hy))
      unfold ssRight at this hl ⊢
      rw [List.countP_append, hl, this]
      omega

theorem sum_take_mono (l : List Nat) {a b : Nat} (h : a ≤ b) : (l.take a).sum ≤ (l.take b).sum := by
  have : l.take a = (l.take b).take a := by rw [List.take_take, Nat.min_eq_left h]
  rw [this]
  exact sum_take_le _ _

theorem wf_spec {k : Nat} (hk : 1 ≤ k) (gs : List (List Bin)) (h : WF gs) : WF (coarsenGroupsSpec k gs) := by
  intro c hc
  have hc' : c < gs.length := by simpa [coarsenGroupsSpec] using hc
  obtain ⟨h1, h2⟩ := h c hc'
  simp only [coarsenGroupsSpec, List.getElem_map]
  exact ⟨spec_valid hk _ h1, spec_chrom hk _ c h2⟩

/-- **rebin_correct**: for every well-formed table (fixed or variable width), every `k ≥ 1` and every old
bin `x`, re-binning the START of `x` through the `GenomeSegmentation` of the NEW table — on the
fixed-width path whenever `get_binsize` reports a size for the new table (sound by
`C20.getBinsize_truthful`), by `searchsorted` on absolute starts otherwise — gives `cmap x`. -/
theorem rebin_correct (k : Nat) (hk : 1 ≤ k) (gs : List (List Bin)) (hwf : WF gs) (x : Nat)
    (hx : x < gs.flatten.length) :
    rebinId (mkSeg (gs.map lastStop) (coarsenGroupsSpec k gs).flatten) gs.flatten x = cmapG k gs x := by
  obtain ⟨c, t, hc, ht, hxeq, hget⟩ := flatten_locate gs x hx
  obtain ⟨hvc, hchrom⟩ := hwf c hc
  have hwf' := wf_spec hk gs hwf
  have hgroups : groups (coarsenGroupsSpec k gs).flatten = coarsenGroupsSpec k gs :=
    groups_flatten _ 0 (WF.from _ hwf')
  have hlen' : (coarsenGroupsSpec k gs).length = gs.length := by simp [coarsenGroupsSpec]
  have hc' : c < (coarsenGroupsSpec k gs).length := by omega
  have hgc : (coarsenGroupsSpec k gs)[c] = coarsenGroupSpec k gs[c] := by simp [coarsenGroupsSpec]
  -- the target value
  have hcm : cmapG k gs x = (((gs.map List.length).take c).map (fun n => ceilDiv n k)).sum + t / k := by
    unfold cmapG
    rw [hxeq]
    exact cmap_closed_form k _ c t (by simpa using hc) (by simpa using ht)
  have hoff : ((((coarsenGroupsSpec k gs).map List.length)).take c).sum
      = (((gs.map List.length).take c).map (fun n => ceilDiv n k)).sum := by
    rw [coarsenGroupsSpec_counts, List.map_take]
  unfold rebinId
  rw [hget]
  simp only []
  rw [hchrom _ (List.getElem_mem ht), hcm]
  unfold rebin mkSeg
  simp only [getBinsize, hgroups]
  cases hb : getBinsizeG (coarsenGroupsSpec k gs) with
  | some b =>
    simp only []
    rw [prefixSums_getD _ c (by simp [coarsenGroupsSpec]; omega), hoff]
    congr 1
    have hu := C20.getBinsize_truthful _ b (fun g hg => by
      obtain ⟨i, hi, rfl⟩ := List.getElem_of_mem hg
      exact (hwf' i hi).1) hb _ (List.getElem_mem hc')
    rw [hgc] at hu
    exact fixed_rebin hk gs[c] hvc b hu t ht
  | none =>
    simp only []
    rw [prefixSums_getD _ c (by simp; omega)]
    -- blocks of absolute starts, one per new chromosome
    let A : Nat → Nat := fun c' => (prefixSums (gs.map lastStop)).getD c' 0
    let F : Bin → Nat := fun b => A b.chrom + b.start
    have hflat : (coarsenGroupsSpec k gs).flatten.map F = ((coarsenGroupsSpec k gs).map (List.map F)).flatten := by
      rw [List.map_flatten]
    have hA : ∀ c', c' ≤ gs.length → A c' = ((gs.map lastStop).take c').sum := by
      intro c' h; exact prefixSums_getD _ c' (by simpa using h)
    have hAc : ((gs.map lastStop).take c).sum = A c := (hA c (by omega)).symm
    have hAsucc : ∀ c' (h : c' < gs.length), A (c' + 1) = A c' + lastStop gs[c'] := by
      intro c' h
      rw [hA (c' + 1) (by omega), hA c' (by omega), sum_take_succ _ c' (by simpa using h)]
      simp
    have hAmono : ∀ a b, a ≤ b → b ≤ gs.length → A a ≤ A b := by
      intro a b hab hb
      rw [hA a (by omega), hA b hb]; exact sum_take_mono _ hab
    -- entries of block c'
    have hentry : ∀ (c' : Nat) (h : c' < gs.length), ∀ y ∈ ((coarsenGroupsSpec k gs).map (List.map F))[c']'(by simp [coarsenGroupsSpec]; omega),
        A c' ≤ y ∧ y < A (c' + 1) := by
      intro c' h y hy
      simp only [List.getElem_map] at hy
      obtain ⟨b, hb', rfl⟩ := List.mem_map.mp hy
      obtain ⟨hv1, hch1⟩ := hwf' c' (by omega)
      have hb'' : b ∈ coarsenGroupSpec k gs[c'] := by simpa [coarsenGroupsSpec] using hb'
      have hvs := spec_valid hk gs[c'] (hwf c' h).1
      obtain ⟨i, hi, rfl⟩ := List.getElem_of_mem hb''
      have h1 := C04.tiles_pos _ 0 hvs.2 i hi
      have h2 := C04.tiles_stop_le _ 0 hvs.2 i hi
      rw [spec_lastStop hk gs[c'] (hwf c' h).1.1] at h2
      have hcc : ((coarsenGroupSpec k gs[c'])[i]).chrom = c' := by
        apply hch1; simp [coarsenGroupsSpec]
      simp only [F, hcc, hAsucc c' h]
      omega
    have hs_lt : gs[c][t].start < lastStop gs[c] := by
      have := C04.tiles_pos _ 0 hvc.2 t ht
      have := C04.tiles_stop_le _ 0 hvc.2 t ht
      omega
    have hblocks := ssRight_blocks (A c + gs[c][t].start) ((coarsenGroupsSpec k gs).map (List.map F)) c
      (by simp [coarsenGroupsSpec]; omega)
      (fun c' h hlt y hy => by
        have h' : c' < gs.length := by simpa [coarsenGroupsSpec] using h
        have := hentry c' h' y hy
        have := hAmono (c' + 1) c (by omega) (by omega)
        omega)
      (fun c' h hlt y hy => by
        have h' : c' < gs.length := by simpa [coarsenGroupsSpec] using h
        have := hentry c' h' y hy
        have := hAmono (c + 1) c' (by omega) (by omega)
        have := hAsucc c hc
        omega)
    rw [hAc, hflat, hblocks]
    -- block c
    have hblk : ((coarsenGroupsSpec k gs).map (List.map F))[c]'(by simp [coarsenGroupsSpec]; omega)
        = ((coarsenGroupSpec k gs[c]).map Bin.start).map (A c + ·) := by
      simp only [List.getElem_map, hgc, List.map_map]
      apply List.map_congr_left
      intro b hb'
      have := (hwf' c hc').2 b (by rw [hgc]; exact hb')
      simp [F, this]
    rw [hblk, ssRight_shift, var_rebin hk gs[c] hvc t ht]
    have : ((List.map List.length (List.map (List.map F) (coarsenGroupsSpec k gs))).take c).sum
        = (((gs.map List.length).take c).map (fun n => ceilDiv n k)).sum := by
      rw [← hoff]; simp [List.map_map, Function.comp_def]
    rw [this]
    omega

/-! ## the modelled `_greedy_prune_partition` satisfies the contract -/

theorem cumlenFrom_eq : ∀ (l : List Nat) (a : Nat), (a :: l).Pairwise (· ≤ ·) → cumlenFrom a (a :: l) = a :: l := by
  intro l
  induction l with
  | nil => intro a _; rfl
  | cons b rest ih =>
    intro a h
    have hab : a ≤ b := (List.pairwise_cons.mp h).1 b (by simp)
    have := ih b (List.pairwise_cons.mp h).2
    simp only [cumlenFrom]
    have e : a + (b - a) = b := by omega
    rw [e, this]

theorem mem_insertU (x y : Nat) : ∀ (l : List Nat), y ∈ insertU x l ↔ y = x ∨ y ∈ l := by
  intro l
  induction l with
  | nil => simp [insertU]
  | cons z rest ih =>
    unfold insertU
    split
    · simp
    · split
      · rename_i _ h; subst h; simp
      · simp only [List.mem_cons, ih]
        constructor
        · rintro (h | h | h)
          · exact Or.inr (Or.inl h)
          · exact Or.inl h
          · exact Or.inr (Or.inr h)
        · rintro (h | h | h)
          · exact Or.inr (Or.inl h)
          · exact Or.inl h
          · exact Or.inr (Or.inr h)

theorem insertU_sorted (x : Nat) : ∀ (l : List Nat), l.Pairwise (· < ·) → (insertU x l).Pairwise (· < ·) := by
  intro l
  induction l with
  | nil => intro _; simp [insertU]
  | cons z rest ih =>
    intro h
    have hz := (List.pairwise_cons.mp h).1
    have hrest := (List.pairwise_cons.mp h).2
    unfold insertU
    split
    · rename_i hlt
      refine List.pairwise_cons.mpr ⟨?_, h⟩
      intro y hy
      rcases List.mem_cons.mp hy with rfl | hy
      · exact hlt
      · have := hz y hy; omega
    · split
      · exact h
      · refine List.pairwise_cons.mpr ⟨?_, ih hrest⟩
        intro y hy
        rcases (mem_insertU x y rest).mp hy with rfl | hy
        · omega
        · exact hz y hy

theorem mem_uniq (y : Nat) : ∀ (l : List Nat), y ∈ uniq l ↔ y ∈ l := by
  intro l
  induction l with
  | nil => simp [uniq]
  | cons x rest ih =>
    have : uniq (x :: rest) = insertU x (uniq rest) := rfl
    rw [this, mem_insertU, ih]; simp

theorem uniq_sorted : ∀ (l : List Nat), (uniq l).Pairwise (· < ·) := by
  intro l
  induction l with
  | nil => simp [uniq]
  | cons x rest ih => exact insertU_sorted x _ ih

/-- counting a downward-closed predicate along a NON-decreasing list (cf. `C04.lt_countP_iff`) -/
theorem lt_countP_iff_le (p : Nat → Bool) (hp : ∀ x y, x ≤ y → p y = true → p x = true) :
    ∀ (xs : List Nat), xs.Pairwise (· ≤ ·) → ∀ (k : Nat) (hk : k < xs.length),
      (k < xs.countP p ↔ p xs[k] = true) := by
  intro xs
  induction xs with
  | nil => intro _ k hk; simp at hk
  | cons x rest ih =>
    intro hs k hk
    have hx : ∀ y ∈ rest, x ≤ y := (List.pairwise_cons.mp hs).1
    have hs' := (List.pairwise_cons.mp hs).2
    have hzero : p x = false → rest.countP p = 0 := by
      intro hpx
      rw [List.countP_eq_zero]
      intro y hy hpy
      have := hp x y (hx y hy) hpy
      simp [hpx] at this
    rw [List.countP_cons]
    cases k with
    | zero =>
      simp only [List.getElem_cons_zero]
      cases hpx : p x with
      | true => simp
      | false => simp [hzero hpx]
    | succ k =>
      simp only [List.getElem_cons_succ]
      have hk' : k < rest.length := by simpa using hk
      cases hpx : p x with
      | true =>
        simp only [if_true]
        rw [← ih hs' k hk']
        omega
      | false =>
        simp only [hzero hpx, Bool.false_eq_true, if_false]
        constructor
        · intro h; omega
        · intro h
          have := hp x rest[k] (hx _ (List.getElem_mem hk')) h
          simp [hpx] at this

theorem ssLeft_spec (xs : List Nat) (hs : xs.Pairwise (· ≤ ·)) (c j : Nat) (hj : j < xs.length) :
    xs[j] < c ↔ j < ssLeft xs c := by
  unfold ssLeft
  rw [lt_countP_iff_le _ (by intro x y hxy h; simp at h ⊢; omega) xs hs j hj]
  simp

theorem le_getLast_of_sorted : ∀ (l : List Nat), l.Pairwise (· ≤ ·) → ∀ x ∈ l, x ≤ l.getLast?.getD 0 := by
  intro l
  induction l with
  | nil => intro _ x hx; simp at hx
  | cons a rest ih =>
    intro h x hx
    cases rest with
    | nil => simp at hx; subst hx; simp
    | cons b rest' =>
      rw [List.getLast?_cons_cons]
      have hb := ih (List.pairwise_cons.mp h).2
      rcases List.mem_cons.mp hx with rfl | hx
      · have h1 : x ≤ b := (List.pairwise_cons.mp h).1 b (by simp)
        have h2 := hb b (by simp)
        omega
      · exact hb x hx

theorem getLast_mem : ∀ (l : List Nat), l ≠ [] → l.getLast?.getD 0 ∈ l := by
  intro l hne
  rw [List.getLast?_eq_some_getLast hne]
  simp [List.getLast_mem]

theorem chainIncr_of_pairwise : ∀ (l : List Nat) (a : Nat), (a :: l).Pairwise (· < ·) → chainIncr a l = true := by
  intro l
  induction l with
  | nil => intro _ _; rfl
  | cons b rest ih =>
    intro a h
    simp only [chainIncr, Bool.and_eq_true, decide_eq_true_eq]
    exact ⟨(List.pairwise_cons.mp h).1 b (by simp), ih b (List.pairwise_cons.mp h).2⟩

/-- a strictly increasing list of edges that contains 0 and the last edge, all of whose elements are edges
bounded by the last edge, satisfies the contract -/
theorem valid_of_sorted (edges out : List Nat) (hs : out.Pairwise (· < ·)) (h0 : 0 ∈ out)
    (hN : edges.getLast?.getD 0 ∈ out) (hmem : ∀ e ∈ out, e ∈ edges)
    (hle : ∀ e ∈ out, e ≤ edges.getLast?.getD 0) : validPrunedEdges edges out = true := by
  cases out with
  | nil => simp at h0
  | cons p0 rest =>
    simp only [validPrunedEdges, Bool.and_eq_true, decide_eq_true_eq, List.all_eq_true, List.contains_iff_mem]
    have hp0 : p0 = 0 := by
      rcases List.mem_cons.mp h0 with h | h
      · exact h.symm
      · have := (List.pairwise_cons.mp hs).1 0 h; omega
    refine ⟨⟨⟨hp0, chainIncr_of_pairwise rest p0 hs⟩, ?_⟩, hmem⟩
    have hs' : (p0 :: rest).Pairwise (· ≤ ·) := hs.imp (fun h => Nat.le_of_lt h)
    have h1 := le_getLast_of_sorted _ hs' _ hN
    have h2 := hle _ (getLast_mem (p0 :: rest) (by simp))
    omega

/-- **prune_contract**: for every non-decreasing list of edges starting at 0 and every chunk size `≥ 1`
the modelled `_greedy_prune_partition` returns a strictly increasing sub-list of the edges from 0 to the
last edge (with `nnz = 0`: `[0]`). -/
theorem prune_contract (edges : List Nat) (hs : edges.Pairwise (· ≤ ·)) (h0 : edges.head? = some 0)
    (maxlen : Nat) (hm : 1 ≤ maxlen) : validPrunedEdges edges (greedyPrune edges maxlen) = true := by
  cases edges with
  | nil => simp at h0
  | cons e0 rest =>
    simp only [List.head?_cons, Option.some.injEq] at h0
    subst h0
    let E := (0 :: rest)
    have hcum : cumlenFrom 0 (0 :: rest) = 0 :: rest := cumlenFrom_eq rest 0 hs
    let nnz := E.getLast?.getD 0
    have hlenpos : 0 < E.length := by simp [E]
    have hlast_mem : nnz ∈ E := getLast_mem E (by simp [E])
    have hle_last : ∀ x ∈ E, x ≤ nnz := le_getLast_of_sorted E hs
    -- positions found by searchsorted stay inside the array
    have hidx_lt : ∀ c, c ≤ nnz → ssLeft E c < E.length := by
      intro c hc
      have hlast : E[E.length - 1]'(by omega) = nnz := by
        show E[E.length - 1]'(by omega) = E.getLast?.getD 0
        rw [List.getLast?_eq_getElem?, List.getElem?_eq_getElem (by omega)]; rfl
      have := (ssLeft_spec E hs c (E.length - 1) (by omega)).mpr
      have hn : ¬ (E.length - 1 < ssLeft E c) := by
        intro h; have := this h; omega
      omega
    unfold greedyPrune
    simp only [hcum]
    show validPrunedEdges E ((uniq (((List.range (ceilDiv nnz maxlen)).map (fun i => maxlen * i) ++ [nnz]).map (ssLeft E))).map
      fun i => E.getD i 0) = true
    let cuts := (List.range (ceilDiv nnz maxlen)).map (fun i => maxlen * i) ++ [nnz]
    have hcuts_le : ∀ c ∈ cuts, c ≤ nnz := by
      intro c hc
      rcases List.mem_append.mp hc with h | h
      · obtain ⟨i, hi, rfl⟩ := List.mem_map.mp h
        have := (C04.lt_ceilDiv_iff hm i nnz).mp (List.mem_range.mp hi)
        rw [Nat.mul_comm]; omega
      · simp at h; omega
    have hcuts0 : 0 ∈ cuts := by
      by_cases hz : nnz = 0
      · apply List.mem_append_right; simp [hz]
      · apply List.mem_append_left
        apply List.mem_map.mpr
        refine ⟨0, ?_, by simp⟩
        rw [List.mem_range, C04.lt_ceilDiv_iff hm]; omega
    have hidx : ∀ i ∈ uniq (cuts.map (ssLeft E)), ∃ c ∈ cuts, i = ssLeft E c := by
      intro i hi
      rw [mem_uniq] at hi
      obtain ⟨c, hc, rfl⟩ := List.mem_map.mp hi
      exact ⟨c, hc, rfl⟩
    have hget : ∀ i, i < E.length → E.getD i 0 = E[i]! := by
      intro i hi
      rw [getD_of_lt _ _ _ hi, getElem!_pos E i hi]
    apply valid_of_sorted
    · -- strictly increasing
      rw [List.pairwise_map]
      apply List.Pairwise.imp_of_mem _ (uniq_sorted _)
      intro i1 i2 h1 h2 hlt
      obtain ⟨c2, hc2, rfl⟩ := hidx i2 h2
      have hi2 := hidx_lt c2 (hcuts_le c2 hc2)
      have hi1 : i1 < E.length := by omega
      rw [getD_of_lt _ _ _ hi1, getD_of_lt _ _ _ hi2]
      have a1 := (ssLeft_spec E hs c2 i1 hi1).mpr hlt
      have a2 : ¬ E[ssLeft E c2] < c2 := by
        intro h; have := (ssLeft_spec E hs c2 _ hi2).mp h; omega
      omega
    · apply List.mem_map.mpr
      refine ⟨0, ?_, by simp [E]⟩
      rw [mem_uniq]
      apply List.mem_map.mpr
      refine ⟨0, hcuts0, ?_⟩
      unfold ssLeft; rw [List.countP_eq_zero]; intro x _; simp
    · apply List.mem_map.mpr
      have hi := hidx_lt nnz (Nat.le_refl _)
      refine ⟨ssLeft E nnz, ?_, ?_⟩
      · rw [mem_uniq]
        exact List.mem_map.mpr ⟨nnz, by simp [cuts], rfl⟩
      · rw [getD_of_lt _ _ _ hi]
        have a2 : ¬ E[ssLeft E nnz] < nnz := by
          intro h; have := (ssLeft_spec E hs nnz _ hi).mp h; omega
        have := hle_last _ (List.getElem_mem hi)
        omega
    · intro e he
      obtain ⟨i, hi, rfl⟩ := List.mem_map.mp he
      obtain ⟨c, hc, rfl⟩ := hidx i hi
      have := hidx_lt c (hcuts_le c hc)
      rw [getD_of_lt _ _ _ this]
      exact List.getElem_mem _
    · intro e he
      obtain ⟨i, hi, rfl⟩ := List.mem_map.mp he
      obtain ⟨c, hc, rfl⟩ := hidx i hi
      have := hidx_lt c (hcuts_le c hc)
      rw [getD_of_lt _ _ _ this]
      exact hle_last _ (List.getElem_mem _)

/-- non-vacuity: edges with repeated values (empty coarse rows), chunk sizes 2 and 100, and `nnz = 0` -/
example : greedyPrune [0, 2, 2, 4, 5] 2 = [0, 2, 4, 5] ∧ greedyPrune [0, 2, 2, 4, 5] 100 = [0, 5] ∧
    greedyPrune [0, 0, 0] 3 = [0] ∧ validPrunedEdges [0, 2, 2, 4, 5] [0, 4, 5] = true ∧
    validPrunedEdges [0, 2, 2, 4, 5] [0, 3, 5] = false := by decide

/-- non-vacuity of `rebin_correct` on the FIXED-width path: the coarsened table is reported uniform (20) -/
example :
    let gs : List (List Bin) := [[⟨0, 0, 10⟩, ⟨0, 10, 20⟩, ⟨0, 20, 25⟩], [⟨1, 0, 10⟩, ⟨1, 10, 12⟩]]
    wfB gs = true ∧ getBinsize (coarsenGroupsSpec 2 gs).flatten = some 20 ∧
    (List.range 5).map (rebinId (mkSeg (gs.map lastStop) (coarsenGroupsSpec 2 gs).flatten) gs.flatten) = [0, 0, 1, 2, 2] ∧
    (List.range 5).map (cmapG 2 gs) = [0, 0, 1, 2, 2] := by decide

/-! ## the property at the level of tables -/

theorem groupChrom_wf (gs : List (List Bin)) (hwf : WF gs) (c : Nat) (hc : c < gs.length) :
    groupChrom gs[c] = c := by
  obtain ⟨h1, h2⟩ := hwf c hc
  unfold groupChrom
  cases h : gs[c] with
  | nil => exact absurd h h1.1
  | cons b rest =>
    simp only [List.head?_cons, Option.map_some, Option.getD_some]
    apply h2; rw [h]; simp

/-- on a well-formed table `coarsen_bins` returns the L0 table -/
theorem coarsenBins_wf (k : Nat) (hk : 1 ≤ k) (gs : List (List Bin)) (hwf : WF gs) :
    coarsenBins k (gs.map lastStop) gs.flatten = (coarsenGroupsSpec k gs).flatten ∧
    coarsenBinsSpec k gs.flatten = (coarsenGroupsSpec k gs).flatten := by
  unfold coarsenBins coarsenBinsSpec
  rw [groups_flatten gs 0 (WF.from gs hwf)]
  refine ⟨?_, rfl⟩
  rw [coarsenBins_eq_spec k hk]
  intro g hg
  obtain ⟨c, hc, rfl⟩ := List.getElem_of_mem hg
  rw [groupChrom_wf gs hwf c hc, getD_of_lt _ _ _ (by simpa using hc)]
  simp

/-- **coarsen_eq_spec**: for every well-formed table (any number of chromosomes, fixed or variable width),
every `k ≥ 1`, every strictly sorted in-range pixel table and ANY span edges satisfying the contract
`validPrunedEdges` w.r.t. the coarsener's row edges, the chunk stream of `CoolerCoarsener.__iter__` —
re-binned through the new table's `GenomeSegmentation` as the code does — concatenates to the L0
aggregate `groupSum (px.map (rekey cmap))`, in storage order. -/
theorem coarsen_eq_spec (k : Nat) (hk : 1 ≤ k) (gs : List (List Bin)) (hwf : WF gs) (px : Pixels)
    (hs : StrictSorted px) (hr : InRange gs.flatten.length px) (es : List Nat)
    (hv : validPrunedEdges (coarsenEdges k (chromOffsets gs.flatten gs.length)
      (csrIndex px gs.flatten.length)) es = true) :
    (coarsenStream (rebinId (mkSeg (gs.map lastStop) (coarsenBins k (gs.map lastStop) gs.flatten))
      gs.flatten) px es).flatten = coarsenSpec k gs.flatten px := by
  rw [(coarsenBins_wf k hk gs hwf).1]
  unfold coarsenSpec coarsenSpecG
  rw [groups_flatten gs 0 (WF.from gs hwf)]
  have hsum := sum_counts_eq_length gs
  apply coarsen_eq_spec_counts k hk (gs.map List.length) px hs (by rw [hsum]; exact hr) _ _
    (chromOffsets gs.flatten gs.length) (offsSpec_chromOffsets gs hwf) es (by rw [hsum]; exact hv)
  intro x hx
  rw [hsum] at hx
  exact rebin_correct k hk gs hwf x hx

/-- non-vacuity of `coarsen_eq_spec`: the D1 regression table (variable width, coarsened bins look
uniform, last one longer), `k = 2`, spans cut at `[0, 2, 5]` -/
example :
    let gs : List (List Bin) := [[⟨0, 0, 10⟩, ⟨0, 10, 20⟩, ⟨0, 20, 30⟩, ⟨0, 30, 40⟩, ⟨0, 40, 65⟩, ⟨0, 65, 70⟩],
      [⟨1, 0, 10⟩, ⟨1, 10, 20⟩]]
    let px : Pixels := [⟨0, 5, 1⟩, ⟨1, 1, 2⟩, ⟨4, 6, 3⟩, ⟨5, 5, 1⟩, ⟨6, 7, 4⟩]
    wfB gs = true ∧ strictSortedB px = true ∧ inRangeB 8 px = true ∧
    validPrunedEdges (coarsenEdges 2 (chromOffsets gs.flatten 2) (csrIndex px 8)) [0, 2, 5] = true ∧
    (coarsenStream (rebinId (mkSeg (gs.map lastStop) (coarsenBins 2 (gs.map lastStop) gs.flatten))
      gs.flatten) px [0, 2, 5]).flatten = [⟨0, 0, 2⟩, ⟨0, 2, 1⟩, ⟨2, 2, 1⟩, ⟨2, 3, 3⟩, ⟨3, 3, 4⟩] := by decide

theorem wfFrom_iff : ∀ (gs : List (List Bin)) (c0 : Nat), wfFrom c0 gs = true ↔
    ∀ (i : Nat) (h : i < gs.length), ValidChrom gs[i] ∧ ∀ x ∈ gs[i], x.chrom = c0 + i := by
  intro gs
  induction gs with
  | nil => intro c0; simp [wfFrom]
  | cons g rest ih =>
    intro c0
    simp only [wfFrom, Bool.and_eq_true, decide_eq_true_eq, List.all_eq_true, beq_iff_eq, ih]
    constructor
    · rintro ⟨⟨h1, h2⟩, h3⟩ i hi
      cases i with
      | zero => exact ⟨h1, by simpa using h2⟩
      | succ i =>
        have := h3 i (by simpa using hi)
        simp only [List.getElem_cons_succ]
        exact ⟨this.1, fun x hx => by rw [this.2 x hx]; omega⟩
    · intro h
      have h0 := h 0 (by simp)
      simp only [List.getElem_cons_zero, Nat.add_zero] at h0
      refine ⟨⟨h0.1, h0.2⟩, ?_⟩
      intro i hi
      have := h (i + 1) (by simpa using hi)
      simp only [List.getElem_cons_succ] at this
      exact ⟨this.1, fun x hx => by rw [this.2 x hx]; omega⟩

/-- the executable twin used by the driver decides `WF` -/
theorem wfB_iff (gs : List (List Bin)) : wfB gs = true ↔ WF gs := by
  unfold wfB WF
  rw [wfFrom_iff]
  simp

/-- **coarsener_stream_sorted**: the stream is a valid input for `create` (strictly sorted, hence no
duplicate pixel) -/
theorem coarsener_stream_sorted (k : Nat) (hk : 1 ≤ k) (gs : List (List Bin)) (hwf : WF gs) (px : Pixels)
    (hs : StrictSorted px) (hr : InRange gs.flatten.length px) (es : List Nat)
    (hv : validPrunedEdges (coarsenEdges k (chromOffsets gs.flatten gs.length)
      (csrIndex px gs.flatten.length)) es = true) :
    StrictSorted (coarsenStream (rebinId (mkSeg (gs.map lastStop) (coarsenBins k (gs.map lastStop) gs.flatten))
      gs.flatten) px es).flatten := by
  rw [coarsen_eq_spec k hk gs hwf px hs hr es hv]
  exact groupSum_sorted _

/-- **coarsen_chunk_independent**: two valid span partitions (two chunk sizes) give the same table -/
theorem coarsen_chunk_independent (k : Nat) (hk : 1 ≤ k) (gs : List (List Bin)) (hwf : WF gs) (px : Pixels)
    (hs : StrictSorted px) (hr : InRange gs.flatten.length px) (e1 e2 : List Nat)
    (h1 : validPrunedEdges (coarsenEdges k (chromOffsets gs.flatten gs.length)
      (csrIndex px gs.flatten.length)) e1 = true)
    (h2 : validPrunedEdges (coarsenEdges k (chromOffsets gs.flatten gs.length)
      (csrIndex px gs.flatten.length)) e2 = true) :
    (coarsenStream (rebinId (mkSeg (gs.map lastStop) (coarsenBins k (gs.map lastStop) gs.flatten))
      gs.flatten) px e1).flatten =
    (coarsenStream (rebinId (mkSeg (gs.map lastStop) (coarsenBins k (gs.map lastStop) gs.flatten))
      gs.flatten) px e2).flatten := by
  rw [coarsen_eq_spec k hk gs hwf px hs hr e1 h1, coarsen_eq_spec k hk gs hwf px hs hr e2 h2]

/-- **no_group_split**: every span edge the coarsener computes separates the stored pixels by COARSE row:
there is a coarse row `R` such that every pixel stored before the edge belongs to a coarse row `< R` and
every pixel stored from the edge on to a coarse row `≥ R`.  Hence no coarse row — and no group of old
pixels that aggregate into one new pixel — is ever split between two spans, whatever sub-list of the
edges the pruning keeps. -/
theorem no_group_split (k : Nat) (hk : 1 ≤ k) (gs : List (List Bin)) (hwf : WF gs) (px : Pixels)
    (hs : StrictSorted px) (hr : InRange gs.flatten.length px) (e : Nat)
    (he : e ∈ coarsenEdges k (chromOffsets gs.flatten gs.length) (csrIndex px gs.flatten.length)) :
    ∃ R, (∀ p ∈ px.take e, cmapG k gs p.i < R) ∧ (∀ p ∈ px.drop e, R ≤ cmapG k gs p.i) := by
  have hsum := sum_counts_eq_length gs
  have hrs : RowSorted px := C03.StrictSorted.rowSorted hs
  rw [← hsum] at he
  obtain ⟨r, hrN, hedge, rfl⟩ := mem_coarsenEdges k hk _ _ (offsSpec_chromOffsets gs hwf) px e he
  refine ⟨cmapG k gs r, ?_, ?_⟩
  · intro p hp
    have h1 : px.take (off px r) = rowsSlice px 0 r := by
      unfold rowsSlice slicePx; rw [C07.off_zero]; simp
    rw [h1] at hp
    obtain ⟨_, _, h2⟩ := mem_rowsSlice px hrs 0 r (by omega) p hp
    exact edge_boundary k hk _ r hedge p.i h2
  · intro p hp
    have h1 : px.drop (off px r) = rowsSlice px r gs.flatten.length := by
      unfold rowsSlice slicePx
      rw [off_eq_length px _ hr, List.take_of_length_le (by simp)]
    rw [h1] at hp
    obtain ⟨_, h2, _⟩ := mem_rowsSlice px hrs r _ (by omega) p hp
    exact cmap_monotone k hk gs r p.i h2

/-! ## end to end: the modelled `coarsen_cooler` is the specification -/

/-- an entry of the `i`-th strided slice is the row pointer of row `s_i + m·k`, inside chromosome `i` -/
theorem edge_elem (k : Nat) (hk : 1 ≤ k) (counts co : List Nat) (hco : OffsSpec counts co) (px : Pixels)
    (i : Nat) (hi : i < co.length - 1) (m : Nat)
    (hm : m < ceilDiv (min (co.getD (i + 1) 0) (csrIndex px counts.sum).length - co.getD i 0) k) :
    (csrIndex px counts.sum).getD (co.getD i 0 + m * k) 0 = off px ((counts.take i).sum + m * k) ∧
    (counts.take i).sum + m * k < (counts.take (i + 1)).sum ∧ (counts.take (i + 1)).sum ≤ counts.sum := by
  rw [hco.1] at hi
  have hi' : i < counts.length := by omega
  rw [hco.2 i (by omega), hco.2 (i + 1) (by omega)] at hm
  rw [hco.2 i (by omega)]
  rw [C04.lt_ceilDiv_iff hk, sum_take_succ counts i hi', csrIndex_length] at hm
  have hle := sum_take_le counts (i + 1)
  rw [sum_take_succ counts i hi'] at hle ⊢
  exact ⟨csrIndex_getD px _ _ (by omega), by omega, hle⟩

theorem coarsenEdges_sorted (k : Nat) (hk : 1 ≤ k) (counts co : List Nat) (hco : OffsSpec counts co)
    (px : Pixels) : (coarsenEdges k co (csrIndex px counts.sum)).Pairwise (· ≤ ·) := by
  unfold coarsenEdges
  rw [List.pairwise_append]
  refine ⟨?_, by simp, ?_⟩
  · rw [List.pairwise_flatMap]
    constructor
    · intro i hi
      rw [List.pairwise_map]
      apply List.Pairwise.imp_of_mem _ List.pairwise_lt_range
      intro m1 m2 h1 h2 hlt
      obtain ⟨e1, _, _⟩ := edge_elem k hk counts co hco px i (List.mem_range.mp hi) m1 (List.mem_range.mp h1)
      obtain ⟨e2, _, _⟩ := edge_elem k hk counts co hco px i (List.mem_range.mp hi) m2 (List.mem_range.mp h2)
      rw [e1, e2]
      apply off_mono
      have := Nat.mul_le_mul_right k (Nat.le_of_lt hlt)
      omega
    · apply List.Pairwise.imp_of_mem _ List.pairwise_lt_range
      intro i j hi hj hij x hx y hy
      obtain ⟨m1, h1, rfl⟩ := List.mem_map.mp hx
      obtain ⟨m2, h2, rfl⟩ := List.mem_map.mp hy
      obtain ⟨e1, a1, _⟩ := edge_elem k hk counts co hco px i (List.mem_range.mp hi) m1 (List.mem_range.mp h1)
      obtain ⟨e2, _, _⟩ := edge_elem k hk counts co hco px j (List.mem_range.mp hj) m2 (List.mem_range.mp h2)
      rw [e1, e2]
      apply off_mono
      have := sum_take_mono counts (show i + 1 ≤ j by omega)
      omega
  · intro x hx y hy
    simp only [List.mem_singleton] at hy
    subst hy
    simp only [List.mem_flatMap, List.mem_map] at hx
    obtain ⟨i, hi, m, hm, rfl⟩ := hx
    obtain ⟨e1, a1, a2⟩ := edge_elem k hk counts co hco px i (List.mem_range.mp hi) m (List.mem_range.mp hm)
    rw [e1, csrIndex_getLast]
    apply off_mono; omega

theorem coarsenEdges_head (k : Nat) (hk : 1 ≤ k) (counts co : List Nat) (hco : OffsSpec counts co)
    (hpos : ∀ n ∈ counts, 1 ≤ n) (px : Pixels) :
    (coarsenEdges k co (csrIndex px counts.sum)).head? = some 0 := by
  unfold coarsenEdges
  cases counts with
  | nil =>
    have : co.length - 1 = 0 := by rw [hco.1]; rfl
    rw [this]
    simp only [List.range_zero, List.flatMap_nil, List.nil_append, List.head?_cons, csrIndex_getLast]
    simp [C07.off_zero]
  | cons n rest =>
    have hl : co.length - 1 = rest.length + 1 := by rw [hco.1]; simp
    have hn : 1 ≤ n := hpos n (by simp)
    have h0 : co.getD 0 0 = 0 := by simpa using hco.2 0 (by simp)
    have h1 : co.getD 1 0 = n := by simpa using hco.2 1 (by simp)
    rw [hl, List.range_succ_eq_map, List.flatMap_cons]
    simp only [h0, h1, Nat.zero_add, Nat.sub_zero, csrIndex_length]
    have hc : 0 < ceilDiv (min n ((n :: rest).sum + 1)) k := by
      rw [C04.lt_ceilDiv_iff hk]
      simp only [List.sum_cons, Nat.zero_mul]
      omega
    obtain ⟨c', hc'⟩ := Nat.exists_eq_succ_of_ne_zero (Nat.pos_iff_ne_zero.mp hc)
    rw [hc', List.range_succ_eq_map]
    simp only [List.map_cons, Nat.zero_mul, List.cons_append, List.head?_cons, Option.some.injEq]
    rw [csrIndex_getD px _ 0 (by omega), C07.off_zero]

/-- **coarsen_correct**: the whole modelled pipeline (`coarsen_bins`, row edges, the modelled greedy
pruning with any chunk size `≥ 1`, re-binning through the new table, per-span group-by) returns exactly
the L0 bin table and the L0 pixel table. -/
theorem coarsen_correct (k cs : Nat) (hk : 1 ≤ k) (hcs : 1 ≤ cs) (gs : List (List Bin)) (hwf : WF gs)
    (px : Pixels) (hs : StrictSorted px) (hr : InRange gs.flatten.length px) :
    coarsen k cs (gs.map lastStop) gs.flatten px
      = (coarsenBinsSpec k gs.flatten, coarsenSpec k gs.flatten px) := by
  unfold coarsen
  simp only [List.length_map]
  have hsum := sum_counts_eq_length gs
  have hco := offsSpec_chromOffsets gs hwf
  have hpos : ∀ n ∈ gs.map List.length, 1 ≤ n := by
    intro n hn
    obtain ⟨g, hg, rfl⟩ := List.mem_map.mp hn
    obtain ⟨c, hc, rfl⟩ := List.getElem_of_mem hg
    exact List.length_pos_iff.mpr (hwf c hc).1.1
  have h1 := coarsenEdges_sorted k hk _ _ hco px
  have h2 := coarsenEdges_head k hk _ _ hco hpos px
  rw [hsum] at h1 h2
  have hv := prune_contract _ h1 h2 cs hcs
  rw [coarsen_eq_spec k hk gs hwf px hs hr _ hv, (coarsenBins_wf k hk gs hwf).1, (coarsenBins_wf k hk gs hwf).2]

end Cooler.C08
