import CoolerModel.Model.CreateSteps
/-!
# C13 — invalid input or a failed write never yields a cooler nor harms its neighbours

Property: with the default checks, pixel input containing an out-of-range bin id, a lower-triangle
pixel in symmetric-upper mode or a pixel duplicated within a chunk is rejected with an error.  If
creation stops for this or any other reason at any chunk, the destination — when it did not
already hold a cooler — is not recognised or listed as a cooler, and every other collection stored
in the same file still reads back unchanged.

Model: `Model/CreateSteps.lean` (`validatePixels`; `createSteps`, `run`, `runUntil`; pipelines).
A fault = the run stops after a strict prefix of the step list (`run_fault`).

Main theorems
* `validate_accepts_iff`, `validate_rejects` (+ one theorem per invalid kind, `validate_error_class`,
  `validate_sorted_output`)
* `format_last` — every strict prefix leaves the target without a `format` attribute, unless it is
  the destination's own old attribute, which only a ROOT destination keeps (`root_old_format_kept`,
  `nonroot_old_format_dropped` state the two sides exactly)
* `partial_not_cooler` — after any fault a destination that was no cooler is neither recognised nor listed
* `frame_other_collections`, `frame_after_run`, `frame_listed`, `root_unrelated_attrs_kept`
* `complete_is_cooler` — no fault ⇒ the destination is a cooler
* `pipeline_dest_untouched`, `pipeline_partial_not_cooler`, `pipeline_frame`,
  `unordered_sortpass_fault_dest_untouched` — creation through a temporary file / from other coolers
* `bad_metadata_never_completes`, `bad_metadata_not_cooler` — `metadata` that `json.dumps` rejects (`Cfg.infoOk =
  false`): `write_info` raises before it writes any attribute, so no creation completes and none leaves a cooler
* `bad_opts_dest_untouched` (+ `runP_stops_at_check`, `optsPre_isPre`, `unorderedPreBadOpts_isPre`) — an option
  `create()` rejects on entry (unknown `h5opts` key): the call raises and the destination file is exactly as before
-/
namespace Cooler.C13
open Cooler Cooler.CreateSteps

/-! ## 1. the validator -/

/-- L0: every id lies in `[0, n)` -/
def InRange (n : Nat) (c : Chunk) : Prop := ∀ r ∈ c, 0 ≤ r.1 ∧ r.1 < n ∧ 0 ≤ r.2.1 ∧ r.2.1 < n
/-- L0: upper triangular -/
def Triu (c : Chunk) : Prop := ∀ r ∈ c, r.1 ≤ r.2.1
/-- L0: the (bin1, bin2) keys of the chunk are pairwise distinct -/
def KeysDistinct (c : Chunk) : Prop := (c.map keyOf).Nodup

theorem hasDup_iff (l : List (Int × Int)) : hasDup l = true ↔ ¬ l.Nodup := by
  induction l with
  | nil => simp [hasDup]
  | cons a l ih =>
    simp only [hasDup, Bool.or_eq_true, List.nodup_cons, ih, List.contains_iff_mem]
    by_cases h : a ∈ l <;> simp [h]

theorem any_isNeg_iff (c : Chunk) : c.any isNeg = true ↔ ∃ r ∈ c, r.1 < 0 ∨ r.2.1 < 0 := by
  simp [List.any_eq_true, isNeg]

theorem any_isExcess_iff (n : Nat) (c : Chunk) :
    c.any (isExcess n) = true ↔ ∃ r ∈ c, (n : Int) ≤ r.1 ∨ (n : Int) ≤ r.2.1 := by
  simp [List.any_eq_true, isExcess]

theorem any_isTril_iff (c : Chunk) : c.any isTril = true ↔ ∃ r ∈ c, r.2.1 < r.1 := by
  simp [List.any_eq_true, isTril]

theorem not_inRange_iff (n : Nat) (c : Chunk) :
    ¬ InRange n c ↔ (c.any isNeg = true ∨ c.any (isExcess n) = true) := by
  rw [any_isNeg_iff, any_isExcess_iff]
  unfold InRange
  constructor
  · intro h
    simp only [Classical.not_forall] at h
    obtain ⟨r, hr, hh⟩ := h
    by_cases h1 : r.1 < 0 ∨ r.2.1 < 0
    · exact Or.inl ⟨r, hr, h1⟩
    · exact Or.inr ⟨r, hr, by omega⟩
  · rintro (⟨r, hr, h⟩ | ⟨r, hr, h⟩) hall <;> have := hall r hr <;> omega

theorem not_triu_iff (c : Chunk) : ¬ Triu c ↔ c.any isTril = true := by
  rw [any_isTril_iff]; unfold Triu
  constructor
  · intro h
    simp only [Classical.not_forall] at h
    obtain ⟨r, hr, hh⟩ := h
    exact ⟨r, hr, by omega⟩
  · rintro ⟨r, hr, h⟩ hall; have := hall r hr; omega

/-- closed form: the validator rejects iff one of the enabled checks fires -/
theorem validateCore_eq (n : Nat) (b t d e : Bool) (c : Chunk) :
    validateCore n b t d e c =
      if (b && (c.any isNeg || c.any (isExcess n))) || (t && c.any isTril) || (d && hasDup (c.map keyOf))
      then .error .badInput else .ok (if e then sortChunk c else c) := by
  unfold validateCore
  generalize c.any isNeg = A
  generalize c.any (isExcess n) = B
  generalize c.any isTril = C
  generalize hasDup (c.map keyOf) = D
  cases b <;> cases t <;> cases d <;> cases A <;> cases B <;> cases C <;> cases D <;> rfl

/-- the validator either raises `BadInputError` or returns the chunk (sorted under `ensure_sorted`) -/
theorem validate_cases (n : Nat) (symm b t d e : Bool) (c : Chunk) :
    validatePixels n symm b t d e c = .error .badInput ∨
    validatePixels n symm b t d e c = .ok (if e then sortChunk c else c) := by
  unfold validatePixels
  rw [validateCore_eq]
  split <;> simp

/-- acceptance under arbitrary check flags -/
theorem validate_accepts_iff_flags (n : Nat) (symm b t d e : Bool) (c : Chunk) :
    validatePixels n symm b t d e c = .ok (if e then sortChunk c else c) ↔
      (b = true → InRange n c) ∧ (t = true → symm = true → Triu c) ∧ (d = true → KeysDistinct c) := by
  have hr : InRange n c ↔ (c.any isNeg || c.any (isExcess n)) = false := by
    have := not_inRange_iff n c
    rw [Bool.or_eq_false_iff]
    constructor
    · intro h
      refine ⟨?_, ?_⟩ <;> (apply Bool.eq_false_iff.mpr; intro hx; exact (this.mpr (by simp [hx])) h)
    · intro ⟨h1, h2⟩
      apply Classical.byContradiction
      intro h
      rcases this.mp h with hx | hx
      · rw [h1] at hx; exact Bool.noConfusion hx
      · rw [h2] at hx; exact Bool.noConfusion hx
  have ht : Triu c ↔ c.any isTril = false := by
    have := not_triu_iff c
    constructor
    · intro h; apply Bool.eq_false_iff.mpr; intro hx; exact (this.mpr hx) h
    · intro h1; apply Classical.byContradiction; intro h; rw [this.mp h] at h1; exact Bool.noConfusion h1
  have hd : KeysDistinct c ↔ hasDup (c.map keyOf) = false := by
    have := hasDup_iff (c.map keyOf)
    unfold KeysDistinct
    constructor
    · intro h; apply Bool.eq_false_iff.mpr; intro hx; exact (this.mp hx) h
    · intro h1; apply Classical.byContradiction; intro h; rw [this.mpr h] at h1; exact Bool.noConfusion h1
  rw [hr, ht, hd]
  unfold validatePixels
  rw [validateCore_eq]
  generalize (c.any isNeg || c.any (isExcess n)) = A
  generalize c.any isTril = C
  generalize hasDup (c.map keyOf) = D
  generalize (if e = true then sortChunk c else c) = X
  cases b <;> cases t <;> cases symm <;> cases d <;> cases A <;> cases C <;> cases D <;> simp

/-- **validate_accepts_iff.**  With the default checks the validator accepts a chunk (returning it
unchanged) iff every id lies in `[0, n)`, the chunk is upper triangular when the matrix is
symmetric-upper, and its keys are pairwise distinct WITHIN the chunk. -/
theorem validate_accepts_iff (n : Nat) (symm : Bool) (c : Chunk) :
    validatePixels n symm true true true false c = .ok c ↔
      InRange n c ∧ (symm = true → Triu c) ∧ KeysDistinct c := by
  have := validate_accepts_iff_flags n symm true true true false c
  simpa using this

/-- the executable twin used by the driver agrees with the L0 reading -/
theorem acceptsSpec_iff (n : Nat) (symm b t d : Bool) (c : Chunk) :
    acceptsSpec n symm b t d c = true ↔
      (b = true → InRange n c) ∧ (t = true → symm = true → Triu c) ∧ (d = true → KeysDistinct c) := by
  unfold acceptsSpec InRange Triu KeysDistinct
  have hd := hasDup_iff (c.map keyOf)
  cases b <;> cases t <;> cases symm <;> cases d <;> cases h4 : hasDup (c.map keyOf) <;>
    simp_all [List.all_eq_true]

theorem validate_rejects_neg (n : Nat) (symm t d e : Bool) (c : Chunk) (r : Rec) (hr : r ∈ c)
    (h : r.1 < 0 ∨ r.2.1 < 0) : validatePixels n symm true t d e c = .error .badInput := by
  have : c.any isNeg = true := (any_isNeg_iff c).mpr ⟨r, hr, h⟩
  unfold validatePixels; rw [validateCore_eq]; simp [this]

theorem validate_rejects_excess (n : Nat) (symm t d e : Bool) (c : Chunk) (r : Rec) (hr : r ∈ c)
    (h : (n : Int) ≤ r.1 ∨ (n : Int) ≤ r.2.1) : validatePixels n symm true t d e c = .error .badInput := by
  have : c.any (isExcess n) = true := (any_isExcess_iff n c).mpr ⟨r, hr, h⟩
  unfold validatePixels; rw [validateCore_eq]; simp [this]

theorem validate_rejects_tril (n : Nat) (b d e : Bool) (c : Chunk) (r : Rec) (hr : r ∈ c)
    (h : r.2.1 < r.1) : validatePixels n true b true d e c = .error .badInput := by
  have : c.any isTril = true := (any_isTril_iff c).mpr ⟨r, hr, h⟩
  unfold validatePixels; rw [validateCore_eq]; simp [this]

theorem validate_rejects_dup (n : Nat) (symm b t e : Bool) (l1 l2 l3 : Chunk) (r r' : Rec)
    (h : keyOf r = keyOf r') :
    validatePixels n symm b t true e (l1 ++ r :: l2 ++ r' :: l3) = .error .badInput := by
  have : hasDup ((l1 ++ r :: l2 ++ r' :: l3).map keyOf) = true := by
    rw [hasDup_iff]
    intro hnd
    simp only [List.map_append, List.map_cons, List.append_assoc, List.cons_append] at hnd
    have h2 := (List.nodup_append.mp hnd).2.1
    have h3 := (List.nodup_cons.mp h2).1
    exact h3 (by simp [h])
  generalize l1 ++ r :: l2 ++ r' :: l3 = c at this
  unfold validatePixels; rw [validateCore_eq, this]; simp

/-- **validate_rejects.**  With the default checks, a chunk that contains an id `< 0`, an id `≥ n`,
a lower-triangle record in symmetric-upper mode, or two records with the same key is rejected
with `BadInputError`. -/
theorem validate_rejects (n : Nat) (symm : Bool) (c : Chunk)
    (h : (∃ r ∈ c, r.1 < 0 ∨ r.2.1 < 0) ∨ (∃ r ∈ c, (n : Int) ≤ r.1 ∨ (n : Int) ≤ r.2.1) ∨
         (symm = true ∧ ∃ r ∈ c, r.2.1 < r.1) ∨ ¬ KeysDistinct c) :
    validatePixels n symm true true true false c = .error .badInput := by
  rcases validate_cases n symm true true true false c with he | hok
  · exact he
  · exfalso
    have hacc := (validate_accepts_iff n symm c).mp (by simpa using hok)
    obtain ⟨hr, ht, hd⟩ := hacc
    rcases h with ⟨r, hr', h⟩ | ⟨r, hr', h⟩ | ⟨hs, r, hr', h⟩ | h
    · have := hr r hr'; omega
    · have := hr r hr'; omega
    · have := ht hs r hr'; omega
    · exact h hd

/-- whatever the flags, the only exception class the validator raises is `BadInputError` -/
theorem validate_error_class (n : Nat) (symm b t d e : Bool) (c : Chunk) (x : Err)
    (h : validatePixels n symm b t d e c = .error x) : x = .badInput := by
  rcases validate_cases n symm b t d e c with he | hok
  · rw [he] at h; injection h with h; exact h.symm
  · rw [hok] at h; cases h

/-! `ensure_sorted`: the accepted chunk is returned as a sorted permutation -/

theorem insertSorted_perm (r : Rec) (c : Chunk) : (insertSorted r c).Perm (r :: c) := by
  induction c with
  | nil => exact List.Perm.refl _
  | cons x xs ih =>
    unfold insertSorted
    split
    · exact List.Perm.refl _
    · exact (List.Perm.cons x ih).trans (List.Perm.swap r x xs)

theorem sortChunk_perm (c : Chunk) : (sortChunk c).Perm c := by
  induction c with
  | nil => exact List.Perm.refl _
  | cons x xs ih => exact (insertSorted_perm x _).trans (List.Perm.cons x ih)

theorem keyLe_total (a b : Rec) : keyLe a b = true ∨ keyLe b a = true := by
  unfold keyLe; simp only [Bool.or_eq_true, Bool.and_eq_true, decide_eq_true_eq]; omega

theorem keyLe_trans (a b c : Rec) (h1 : keyLe a b = true) (h2 : keyLe b c = true) : keyLe a c = true := by
  unfold keyLe at *; simp only [Bool.or_eq_true, Bool.and_eq_true, decide_eq_true_eq] at *; omega

theorem insertSorted_sorted (r : Rec) (c : Chunk) (h : c.Pairwise (fun a b => keyLe a b = true)) :
    (insertSorted r c).Pairwise (fun a b => keyLe a b = true) := by
  induction c with
  | nil => simp [insertSorted]
  | cons x xs ih =>
    unfold insertSorted
    have hx := List.pairwise_cons.mp h
    split
    · rename_i hle
      refine List.pairwise_cons.mpr ⟨?_, h⟩
      intro y hy
      rcases List.mem_cons.mp hy with rfl | hy
      · exact hle
      · exact keyLe_trans _ _ _ hle (hx.1 y hy)
    · rename_i hle
      have hxr : keyLe x r = true := by rcases keyLe_total r x with h | h; exact absurd h hle; exact h
      refine List.pairwise_cons.mpr ⟨?_, ih hx.2⟩
      intro y hy
      have := (insertSorted_perm r xs).mem_iff.mp hy
      rcases List.mem_cons.mp this with rfl | hy
      · exact hxr
      · exact hx.1 y hy

theorem sortChunk_sorted (c : Chunk) : (sortChunk c).Pairwise (fun a b => keyLe a b = true) := by
  induction c with
  | nil => simp [sortChunk]
  | cons x xs ih => exact insertSorted_sorted x _ ih

/-- under `ensure_sorted` an accepted chunk is handed to the writer as a key-sorted permutation -/
theorem validate_sorted_output (n : Nat) (symm b t d : Bool) (c c' : Chunk)
    (h : validatePixels n symm b t d true c = .ok c') :
    c'.Perm c ∧ c'.Pairwise (fun a b => keyLe a b = true) := by
  rcases validate_cases n symm b t d true c with he | hok
  · rw [he] at h; cases h
  · rw [hok] at h; injection h with h; subst h
    exact ⟨sortChunk_perm c, sortChunk_sorted c⟩

/-! non-vacuity of the validator theorems -/
-- the validator: one accepted chunk and one chunk of each invalid kind
example : validatePixels 3 true true true true false [(0, 0, 1), (0, 2, 5), (1, 1, 2)] =
    .ok [(0, 0, 1), (0, 2, 5), (1, 1, 2)] := by rfl
example : validatePixels 3 true true true true false [(0, 0, 1), (0, 3, 5)] = .error .badInput := by rfl
example : validatePixels 3 true true true true false [(0, 0, 1), (-1, 2, 5)] = .error .badInput := by rfl
example : validatePixels 3 true true true true false [(0, 0, 1), (2, 1, 5)] = .error .badInput := by rfl
example : validatePixels 3 true true true true false [(0, 1, 1), (1, 1, 2), (0, 1, 7)] = .error .badInput := by rfl
-- square mode: a lower-triangle record is valid
example : validatePixels 3 false true true true false [(0, 0, 1), (2, 1, 5)] = .ok [(0, 0, 1), (2, 1, 5)] := by rfl
-- `ensure_sorted` sorts (stably) instead of rejecting
example : validatePixels 3 true true true true true [(1, 1, 2), (0, 2, 5), (0, 0, 1)] =
    .ok [(0, 0, 1), (0, 2, 5), (1, 1, 2)] := by rfl
-- a duplicate that straddles two chunks is NOT seen by the validator (outside the property)
example : validatePixels 3 true true true true false [(0, 1, 1)] = .ok [(0, 1, 1)] ∧
    validatePixels 3 true true true true false [(0, 1, 7)] = .ok [(0, 1, 7)] := ⟨rfl, rfl⟩


/-! ## 2. the file model and the steps of `create()` -/

theorem lookup_modifyAt (p q : Path) (g : Coll → Coll) (f : File) :
    lookup (modifyAt p g f) q = if q = p then (lookup f q).map g else lookup f q := by
  induction f with
  | nil => simp [modifyAt, lookup]
  | cons e f ih =>
    obtain ⟨k, c⟩ := e
    unfold modifyAt at ih ⊢
    simp only [List.map_cons]
    by_cases hk : k = p
    · subst hk
      by_cases hq : k = q
      · subst hq; simp [lookup]
      · have : ¬ q = k := fun h => hq h.symm
        simp only [if_true, lookup, hq, if_false, ih, this]
    · by_cases hq : k = q
      · subst hq; simp [lookup, hk]
      · simp only [hk, if_false, lookup, hq, ih]

theorem lookup_filter_keep (pred : Path → Bool) (q : Path) (hq : pred q = true) (f : File) :
    lookup (f.filter fun e => pred e.1) q = lookup f q := by
  induction f with
  | nil => simp [lookup]
  | cons e f ih =>
    obtain ⟨k, c⟩ := e
    by_cases hk : k = q
    · subst hk; simp [hq, lookup]
    · by_cases hp : pred k = true
      · simp [hp, lookup, hk, ih]
      · simp [hp, lookup, hk, ih]

theorem lookup_append_some (q : Path) (c : Coll) (f g : File) (h : lookup f q = some c) :
    lookup (f ++ g) q = some c := by
  induction f with
  | nil => simp [lookup] at h
  | cons e f ih =>
    obtain ⟨k, d⟩ := e
    by_cases hk : k = q
    · simp_all [lookup]
    · simp only [lookup, hk, if_false, List.cons_append] at h ⊢
      exact ih h

theorem lookup_addIfMissing_some (p q : Path) (c : Coll) (f : File) (h : lookup f q = some c) :
    lookup (addIfMissing p f) q = some c := by
  unfold addIfMissing
  split
  · exact h
  · exact lookup_append_some q c f _ h

theorem lookup_foldl_addIfMissing_some (ps : List Path) (q : Path) (c : Coll) (f : File)
    (h : lookup f q = some c) :
    lookup (ps.foldl (fun f p => addIfMissing p f) f) q = some c := by
  induction ps generalizing f with
  | nil => simpa using h
  | cons p ps ih => exact ih _ (lookup_addIfMissing_some p q c f h)

theorem isUnder_self (t : Path) : isUnder t t = true := by
  unfold isUnder; induction t with
  | nil => rfl
  | cons a t ih => simp [List.isPrefixOf, ih]

/-! ### running examples (non-vacuity) -/

/-- an old cooler as a neighbour -/
def exColl (id : Nat) : Coll :=
  { fmt := some MAGIC, info := some id, chroms := some id, bins := some id,
    pixels := some ⟨[(0, 1)], [5]⟩, indexes := some id }

/-- a file holding `/a`, `/b/c` and an unrelated root attribute -/
def exFile : File :=
  [([], { other := [("note", 7)] }), (["a"], exColl 10), (["b"], Coll.empty), (["b", "c"], exColl 11)]

def exCfg : Cfg := { target := ["x", "y"], mode := .a, n := 3, symm := true }

/-- two valid chunks, then a chunk whose second record has bin2_id = n -/
def exStream : List Ev := [.chunk [(0, 0, 1), (0, 2, 5)], .chunk [(1, 1, 2)], .chunk [(1, 2, 4), (2, 3, 1)]]

def exValid : List Ev := [.chunk [(0, 0, 1), (0, 2, 5)], .chunk [(1, 1, 2)], .chunk [(1, 2, 4), (2, 2, 1)]]

/-! ### frame: what a step leaves alone -/

theorem footprint_ne_target {t p : Path} (h : footprint t p = false) : p ≠ t := by
  intro hp; subst hp
  unfold footprint at h
  split at h
  · rename_i ht; subst ht; simp at h
  · rw [isUnder_self] at h; exact Bool.noConfusion h

theorem lookup_resetGroup_frame (t p : Path) (c : Coll) (f : File)
    (hfp : footprint t p = false) (h : lookup f p = some c) :
    lookup (resetGroup t f) p = some c := by
  have hne := footprint_ne_target hfp
  unfold resetGroup
  unfold footprint at hfp
  split
  · rename_i ht
    simp only [ht, if_true, Bool.or_eq_false_iff, decide_eq_false_iff_not] at hfp
    rw [lookup_modifyAt]
    simp only [hfp.1, if_false]
    rw [lookup_filter_keep (fun q => !isTablePath q) p (by simp [hfp.2])]
    exact h
  · rename_i ht
    simp only [ht, if_false] at hfp
    have hne' : ¬ t = p := fun h => hne h.symm
    simp only [lookup, hne', if_false]
    apply lookup_foldl_addIfMissing_some
    unfold removeUnder
    rw [lookup_filter_keep (fun q => !isUnder t q) p (by simp [hfp])]
    exact h

theorem lookupFS_onTarget_ne (cfg : Cfg) (g : Coll → Coll) (fs : FS) (p : Path) (hne : p ≠ cfg.target) :
    lookupFS (onTarget cfg g fs) p = lookupFS fs p := by
  cases fs with
  | none => rfl
  | some f => simp [onTarget, lookupFS, lookup_modifyAt, hne]

/-- one step, append mode: an existing group outside the footprint of the target is unchanged -/
theorem step_frame (cfg : Cfg) (hm : cfg.mode ≠ .w) (p : Path) (c : Coll)
    (hfp : footprint cfg.target p = false) (s : Step) (fs : FS) (h : lookupFS fs p = some c) :
    lookupFS (s.eff cfg fs) p = some c := by
  have hne := footprint_ne_target hfp
  cases s with
  | openFile =>
    cases fs with
    | none => simp [lookupFS] at h
    | some f =>
      unfold Step.eff
      cases hmode : cfg.mode with
      | w => exact absurd hmode hm
      | a => simpa using h
      | rplus => simpa using h
  | resetTarget =>
    cases fs with
    | none => simp [lookupFS] at h
    | some f => exact lookup_resetGroup_frame cfg.target p c f hfp h
  | pull _ => exact h
  | validate _ => exact h
  | checkFits _ => exact h
  | _ => unfold Step.eff; rw [lookupFS_onTarget_ne cfg _ fs p hne]; exact h

theorem exec_frame (cfg : Cfg) (hm : cfg.mode ≠ .w) (p : Path) (c : Coll)
    (hfp : footprint cfg.target p = false) (steps : List Step) (fs : FS) (h : lookupFS fs p = some c) :
    lookupFS (exec cfg steps fs) p = some c := by
  induction steps generalizing fs with
  | nil => exact h
  | cons s ss ih => exact ih _ (step_frame cfg hm p c hfp s fs h)

/-! ### the `format` attribute -/

/-- steps of the body of `create()`: everything except opening the file, resetting the target and `write_info` -/
def isTableStep : Step → Bool
  | .openFile => false
  | .resetTarget => false
  | .writeInfo => false
  | _ => true

theorem fmtAt_onTarget (cfg : Cfg) (g : Coll → Coll) (hg : ∀ c, (g c).fmt = c.fmt) (fs : FS) (q : Path) :
    fmtAt (onTarget cfg g fs) q = fmtAt fs q := by
  cases fs with
  | none => rfl
  | some f =>
    simp only [fmtAt, onTarget, lookupFS, Option.map_some, lookup_modifyAt]
    split
    · cases lookup f q <;> simp [hg]
    · rfl

/-- a table step never touches a `format` attribute, anywhere -/
theorem tableStep_fmt (cfg : Cfg) (s : Step) (hs : isTableStep s = true) (fs : FS) (q : Path) :
    fmtAt (s.eff cfg fs) q = fmtAt fs q := by
  cases s <;> first
    | exact Bool.noConfusion hs
    | rfl
    | (simp only [Step.eff]; apply fmtAt_onTarget; intro c; rfl)

theorem tableSteps_fmt (cfg : Cfg) (steps : List Step) (hs : ∀ s ∈ steps, isTableStep s = true)
    (fs : FS) (q : Path) : fmtAt (exec cfg steps fs) q = fmtAt fs q := by
  induction steps generalizing fs with
  | nil => rfl
  | cons s ss ih =>
    have h1 := tableStep_fmt cfg s (hs s (by simp)) fs q
    have h2 := ih (fun x hx => hs x (by simp [hx])) (s.eff cfg fs)
    simp only [exec, List.foldl_cons] at h2 ⊢
    rw [h2, h1]

/-- opening: the target's `format` attribute is kept or (mode "w": the file is truncated) gone -/
theorem open_fmt (cfg : Cfg) (fs : FS) (q : Path) :
    fmtAt (Step.openFile.eff cfg fs) q = none ∨ Step.openFile.eff cfg fs = fs := by
  unfold Step.eff
  cases cfg.mode <;> cases fs <;> simp
  all_goals (unfold fmtAt lookupFS lookup; by_cases hq : ([] : Path) = q <;> simp [hq, Coll.empty, lookup])

theorem open_keep (cfg : Cfg) (hm : cfg.mode ≠ .w) (f : File) :
    Step.openFile.eff cfg (some f) = some f := by
  unfold Step.eff
  cases h : cfg.mode <;> simp_all

/-- resetting a non-root target leaves an empty group: no attribute at all -/
theorem reset_fmt_nonroot (cfg : Cfg) (ht : cfg.target ≠ []) (fs : FS) :
    fmtAt (Step.resetTarget.eff cfg fs) cfg.target = none := by
  cases fs with
  | none => rfl
  | some f => simp [Step.eff, fmtAt, lookupFS, resetGroup, ht, lookup, Coll.empty]

/-- resetting the root target deletes its four tables and KEEPS its attributes -/
theorem reset_fmt_root (cfg : Cfg) (ht : cfg.target = []) (fs : FS) :
    fmtAt (Step.resetTarget.eff cfg fs) [] = fmtAt fs [] := by
  cases fs with
  | none => rfl
  | some f =>
    simp only [Step.eff, fmtAt, lookupFS, resetGroup, ht, if_true, Option.map_some, lookup_modifyAt]
    rw [lookup_filter_keep (fun q => !isTablePath q) [] (by simp [isTablePath])]
    cases lookup f [] <;> simp [clearTables]

/-! ### shape of the step list: `write_info` is the last step and only the last -/

def bodySteps (cfg : Cfg) (evs : List Ev) : List Step :=
  [Step.writeChroms, .writeBins, .preparePixels] ++ chunkSteps cfg 0 evs

theorem createSteps_eq (cfg : Cfg) (evs : List Ev) :
    createSteps cfg evs = .openFile :: .resetTarget :: bodySteps cfg evs := rfl

theorem chunkSteps_prefix_table (cfg : Cfg) (evs : List Ev) :
    ∀ (nnz k : Nat), k < (chunkSteps cfg nnz evs).length →
      ∀ s ∈ (chunkSteps cfg nnz evs).take k, isTableStep s = true := by
  induction evs with
  | nil =>
    intro nnz k hk s hs
    unfold chunkSteps at hk hs
    by_cases h0 : nnz = 0
    · simp only [h0, if_true, List.cons_append, List.nil_append, List.length_cons, List.length_nil] at hk hs
      match k, hk with
      | 0, _ => simp at hs
      | 1, _ => simp at hs; subst hs; rfl
      | 2, _ => simp at hs; rcases hs with rfl | rfl <;> rfl
    · simp only [h0, if_false, List.nil_append, List.length_cons, List.length_nil] at hk hs
      match k, hk with
      | 0, _ => simp at hs
      | 1, _ => simp at hs; subst hs; rfl
  | cons ev evs ih =>
    intro nnz k hk s hs
    cases ev with
    | raise =>
      unfold chunkSteps at hk hs
      simp only [List.length_cons, List.length_nil] at hk
      have : k = 0 := by omega
      subst this; simp at hs
    | chunk c =>
      unfold chunkSteps at hk hs
      simp only [List.length_append, List.length_cons, List.length_nil] at hk
      rw [List.take_append] at hs
      rcases List.mem_append.mp hs with h | h
      · have := List.mem_of_mem_take h
        simp at this
        rcases this with rfl | rfl | rfl | rfl | rfl <;> rfl
      · simp only [List.length_cons, List.length_nil] at h
        have hl : k - (0 + 1 + 1 + 1 + 1 + 1) < (chunkSteps cfg (nnz + (written cfg c).length) evs).length ∨
            (chunkSteps cfg (nnz + (written cfg c).length) evs).length = 0 := by omega
        rcases hl with hl | hl
        · exact ih _ _ hl s h
        · rw [List.length_eq_zero_iff.mp hl] at h; simp at h

theorem bodySteps_prefix_table (cfg : Cfg) (evs : List Ev) (k : Nat) (hk : k < (bodySteps cfg evs).length) :
    ∀ s ∈ (bodySteps cfg evs).take k, isTableStep s = true := by
  intro s hs
  unfold bodySteps at hk hs
  simp only [List.length_append, List.length_cons, List.length_nil] at hk
  rw [List.take_append] at hs
  rcases List.mem_append.mp hs with h | h
  · have := List.mem_of_mem_take h
    simp at this
    rcases this with rfl | rfl | rfl <;> rfl
  · simp only [List.length_cons, List.length_nil] at h
    have hl : k - (0 + 1 + 1 + 1) < (chunkSteps cfg 0 evs).length ∨ (chunkSteps cfg 0 evs).length = 0 := by omega
    rcases hl with hl | hl
    · exact chunkSteps_prefix_table cfg evs 0 _ hl s h
    · rw [List.length_eq_zero_iff.mp hl] at h; simp at h

theorem runUntil_zero (cfg : Cfg) (steps : List Step) (fs : FS) : runUntil cfg 0 steps fs = fs := rfl

theorem runUntil_succ (cfg : Cfg) (k : Nat) (s : Step) (ss : List Step) (fs : FS) :
    runUntil cfg (k + 1) (s :: ss) fs = runUntil cfg k ss (s.eff cfg fs) := rfl

/-- **format_last.**  After ANY strict prefix of the steps of `create()` the target group carries no
`format` attribute — unless it is the destination's own OLD attribute, which survives only when the
target is the root group (the code deletes the root's four tables but never clears its attributes)
or when nothing but opening the file has happened yet (`k ≤ 1`). -/
theorem format_last (cfg : Cfg) (evs : List Ev) (fs : FS) (k : Nat)
    (hk : k < (createSteps cfg evs).length) :
    fmtAt (runUntil cfg k (createSteps cfg evs) fs) cfg.target = none ∨
    (fmtAt (runUntil cfg k (createSteps cfg evs) fs) cfg.target = fmtAt fs cfg.target ∧
      (cfg.target = [] ∨ k ≤ 1)) := by
  rw [createSteps_eq] at hk ⊢
  match k, hk with
  | 0, _ => exact Or.inr ⟨rfl, Or.inr (by omega)⟩
  | 1, _ =>
    rw [runUntil_succ, runUntil_zero]
    rcases open_fmt cfg fs cfg.target with h | h
    · exact Or.inl h
    · exact Or.inr ⟨by rw [h], Or.inr (by omega)⟩
  | k + 2, hk =>
    rw [runUntil_succ, runUntil_succ]
    simp only [List.length_cons] at hk
    unfold runUntil
    rw [tableSteps_fmt cfg _ (bodySteps_prefix_table cfg evs k (by omega))]
    by_cases ht : cfg.target = []
    · rw [ht, reset_fmt_root cfg ht]
      rcases open_fmt cfg fs [] with h | h
      · exact Or.inl h
      · exact Or.inr ⟨by rw [h], Or.inl rfl⟩
    · exact Or.inl (reset_fmt_nonroot cfg ht _)

theorem isCooler_eq_false_iff (fs : FS) (p : Path) : isCooler fs p = false ↔ fmtAt fs p ≠ some MAGIC := by
  unfold isCooler fmtAt Coll.isCooler
  cases lookupFS fs p <;> simp

theorem not_mem_listCoolers (fs : FS) (p : Path) (h : isCooler fs p = false) : p ∉ listCoolers fs := by
  unfold listCoolers
  cases fs with
  | none => simp
  | some f =>
    simp only [List.mem_filter, not_and]
    intro _; rw [h]; exact Bool.false_ne_true

/-- a destination that was not a cooler is not one after any strict prefix -/
theorem prefix_not_cooler (cfg : Cfg) (evs : List Ev) (fs : FS) (k : Nat)
    (hk : k < (createSteps cfg evs).length) (h0 : isCooler fs cfg.target = false) :
    isCooler (runUntil cfg k (createSteps cfg evs) fs) cfg.target = false := by
  rw [isCooler_eq_false_iff] at h0 ⊢
  rcases format_last cfg evs fs k hk with h | ⟨h, _⟩
  · rw [h]; simp
  · rw [h]; exact h0

/-- exactness of the "unless" clause: a root destination in an existing file opened without
truncation keeps whatever `format` attribute it had through every strict prefix (so a root that
WAS a cooler is still recognised after a failed re-creation, with half-written tables) -/
theorem root_old_format_kept (cfg : Cfg) (evs : List Ev) (f : File) (k : Nat)
    (ht : cfg.target = []) (hm : cfg.mode ≠ .w) (hk : k < (createSteps cfg evs).length) :
    fmtAt (runUntil cfg k (createSteps cfg evs) (some f)) [] = fmtAt (some f) [] := by
  rw [createSteps_eq] at hk ⊢
  match k, hk with
  | 0, _ => rfl
  | 1, _ => rw [runUntil_succ, runUntil_zero, open_keep cfg hm]
  | k + 2, hk =>
    rw [runUntil_succ, runUntil_succ]
    simp only [List.length_cons] at hk
    unfold runUntil
    rw [tableSteps_fmt cfg _ (bodySteps_prefix_table cfg evs k (by omega)), reset_fmt_root cfg ht,
      open_keep cfg hm]

/-- a non-root destination loses its old `format` attribute as soon as the target has been reset:
an OLD cooler stored there is no longer recognised after a fault at any chunk -/
theorem nonroot_old_format_dropped (cfg : Cfg) (evs : List Ev) (fs : FS) (k : Nat)
    (ht : cfg.target ≠ []) (h2 : 2 ≤ k) (hk : k < (createSteps cfg evs).length) :
    fmtAt (runUntil cfg k (createSteps cfg evs) fs) cfg.target = none := by
  rcases format_last cfg evs fs k hk with h | ⟨_, h | h⟩
  · exact h
  · exact absurd h ht
  · omega

/-! ### faults = strict prefixes -/

theorem run_fault (cfg : Cfg) (steps : List Step) (fs fs' : FS) (e : Fault)
    (h : run cfg steps fs = (fs', some e)) :
    ∃ k, k < steps.length ∧ fs' = runUntil cfg k steps fs := by
  induction steps generalizing fs with
  | nil => simp [run] at h
  | cons s ss ih =>
    unfold run at h
    split at h
    · refine ⟨0, by simp, ?_⟩
      simp only [Prod.mk.injEq] at h
      exact h.1.symm
    · obtain ⟨k, hk, hfs⟩ := ih _ h
      exact ⟨k + 1, by simp; omega, by rw [runUntil_succ]; exact hfs⟩

theorem run_ok (cfg : Cfg) (steps : List Step) (fs fs' : FS) (h : run cfg steps fs = (fs', none)) :
    fs' = exec cfg steps fs := by
  induction steps generalizing fs with
  | nil => simp [run] at h; exact h.symm
  | cons s ss ih =>
    unfold run at h
    split at h
    · simp at h
    · exact ih _ h

/-- **partial_not_cooler.**  If `create()` raises — the iterator raised before some chunk, the
validator rejected a chunk, a column write failed — and the destination did not already hold a
cooler, the destination is neither recognised nor listed as a cooler. -/
theorem partial_not_cooler (cfg : Cfg) (evs : List Ev) (fs fs' : FS) (e : Fault)
    (hrun : run cfg (createSteps cfg evs) fs = (fs', some e))
    (h0 : isCooler fs cfg.target = false) :
    isCooler fs' cfg.target = false ∧ cfg.target ∉ listCoolers fs' := by
  obtain ⟨k, hk, rfl⟩ := run_fault cfg _ fs fs' e hrun
  have := prefix_not_cooler cfg evs fs k hk h0
  exact ⟨this, not_mem_listCoolers _ _ this⟩

/-! non-vacuity of `format_last` / `partial_not_cooler` -/
-- the faulty run: the validator rejects chunk 2 (22 steps; the run stops after 15 of them)
example : (createSteps exCfg exStream).length = 22 := by decide
example : (run exCfg (createSteps exCfg exStream) (some exFile)).2 = some (.err .badInput) := by decide
example : (run exCfg (createSteps exCfg exStream) (some exFile)).1 =
    runUntil exCfg 16 (createSteps exCfg exStream) (some exFile) := by decide
-- … leaves a half-written target: three tables, the rows of chunks 0 and 1, no attribute
example : lookupFS (run exCfg (createSteps exCfg exStream) (some exFile)).1 ["x", "y"] =
    some { chroms := some 1, bins := some 2, pixels := some ⟨[(0, 0), (0, 2), (1, 1)], [1, 5, 2]⟩ } := by decide
example : isCooler (run exCfg (createSteps exCfg exStream) (some exFile)).1 ["x", "y"] = false := by decide
example : listCoolers (run exCfg (createSteps exCfg exStream) (some exFile)).1 = [["a"], ["b", "c"]] := by decide
-- format_last / partial_not_cooler hypotheses are met, for every strict prefix
example : isCooler (some exFile) exCfg.target = false := by decide
example : ∀ k, k < 22 → fmtAt (runUntil exCfg k (createSteps exCfg exStream) (some exFile)) ["x", "y"] = none := by
  decide
-- iterator exception before chunk 1, and a count that does not fit int32 in chunk 1 (torn write)
example : (run exCfg (createSteps exCfg [.chunk [(0, 0, 1)], .raise]) (some exFile)).2 = some .iter := by decide
example : (run exCfg (createSteps exCfg [.chunk [(0, 0, 1)], .chunk [(1, 1, 2147483648)]]) (some exFile)) =
    (runUntil exCfg 13 (createSteps exCfg [.chunk [(0, 0, 1)], .chunk [(1, 1, 2147483648)]]) (some exFile),
      some (.err .value)) := by decide
example : lookupFS (run exCfg (createSteps exCfg [.chunk [(0, 0, 1)], .chunk [(1, 1, 2147483648)]]) (some exFile)).1
    ["x", "y"] = some { chroms := some 1, bins := some 2, pixels := some ⟨[(0, 0), (1, 1)], [1]⟩ } := by decide
-- a new file, default mode "w"
example : isCooler (run { exCfg with mode := .w } (createSteps { exCfg with mode := .w } exStream) none).1
    ["x", "y"] = false := by decide
-- the "unless" clause is real: a ROOT destination that already was a cooler is still recognised
-- after a failed re-creation (its attributes are never cleared) …
example : isCooler (run { exCfg with target := [] } (createSteps { exCfg with target := [] } exStream)
    (some (([], exColl 9) :: exFile.tail))).1 [] = true := by decide
-- … whereas a non-root destination holding an old cooler is no longer recognised
example : isCooler (run { exCfg with target := ["a"] } (createSteps { exCfg with target := ["a"] } exStream)
    (some exFile)).1 ["a"] = false := by decide
-- and a root destination that was no cooler keeps its unrelated attribute and the other groups
example : lookupFS (run { exCfg with target := [] } (createSteps { exCfg with target := [] } exStream)
    (some exFile)).1 [] = some ({ other := [("note", 7)], chroms := some 1, bins := some 2, pixels := some ⟨[(0, 0), (0, 2), (1, 1)], [1, 5, 2]⟩ } : Coll) ∧
    listCoolers (run { exCfg with target := [] } (createSteps { exCfg with target := [] } exStream)
      (some exFile)).1 = [["a"], ["b", "c"]] := by decide
-- mode "w" on an existing file truncates it (documented; the frame theorem is about append mode)
example : lookupFS (runUntil { exCfg with mode := .w } 1 (createSteps { exCfg with mode := .w } exStream)
    (some exFile)) ["a"] = none := by decide

/-- **frame_other_collections.**  Append mode ("a" / "r+"): every group that exists in the file and
lies outside the footprint of the target (the target and what is below it; for the root target the
root itself and its four table children) reads back unchanged after ANY prefix of the steps. -/
theorem frame_other_collections (cfg : Cfg) (evs : List Ev) (fs : FS) (p : Path) (c : Coll) (k : Nat)
    (hm : cfg.mode ≠ .w) (hfp : footprint cfg.target p = false) (h : lookupFS fs p = some c) :
    lookupFS (runUntil cfg k (createSteps cfg evs) fs) p = some c :=
  exec_frame cfg hm p c hfp _ fs h

/-- the same after a run that stops at a fault or completes: neighbours stay coolers, stay listed
(see `frame_listed`) and keep their content -/
theorem frame_after_run (cfg : Cfg) (evs : List Ev) (fs fs' : FS) (r : Option Fault) (p : Path) (c : Coll)
    (hm : cfg.mode ≠ .w) (hfp : footprint cfg.target p = false) (h : lookupFS fs p = some c)
    (hrun : run cfg (createSteps cfg evs) fs = (fs', r)) :
    lookupFS fs' p = some c := by
  cases r with
  | none => rw [run_ok cfg _ fs fs' hrun]; exact exec_frame cfg hm p c hfp _ fs h
  | some e =>
    obtain ⟨k, _, rfl⟩ := run_fault cfg _ fs fs' e hrun
    exact frame_other_collections cfg evs fs p c k hm hfp h

/-! non-vacuity of `frame_other_collections` -/
-- frame: hypotheses met and the neighbours (and the root with its attribute) are unchanged
example : footprint exCfg.target ["a"] = false ∧ footprint exCfg.target ["b", "c"] = false ∧
    footprint exCfg.target [] = false := by decide
example : lookupFS (run exCfg (createSteps exCfg exStream) (some exFile)).1 ["b", "c"] = some (exColl 11) ∧
    lookupFS (run exCfg (createSteps exCfg exStream) (some exFile)).1 [] = some { other := [("note", 7)] } := by
  decide

/-! ### listing -/

theorem lookup_some_mem_keys (f : File) (p : Path) (c : Coll) (h : lookup f p = some c) :
    p ∈ f.map (·.1) := by
  induction f with
  | nil => simp [lookup] at h
  | cons e f ih =>
    obtain ⟨k, d⟩ := e
    by_cases hk : k = p
    · simp [hk]
    · simp only [lookup, hk, if_false] at h
      simp [ih h]

theorem mem_listCoolers_iff (fs : FS) (p : Path) : p ∈ listCoolers fs ↔ isCooler fs p = true := by
  unfold listCoolers
  cases fs with
  | none => simp [isCooler, lookupFS]
  | some f =>
    simp only [List.mem_filter, List.mem_eraseDups]
    constructor
    · exact fun h => h.2
    · intro h
      refine ⟨?_, h⟩
      unfold isCooler lookupFS at h
      cases hl : lookup f p with
      | none => simp [hl] at h
      | some c => exact lookup_some_mem_keys f p c hl

/-- a neighbour that was recognised / listed as a cooler still is, after any prefix -/
theorem frame_listed (cfg : Cfg) (evs : List Ev) (fs : FS) (p : Path) (k : Nat)
    (hm : cfg.mode ≠ .w) (hfp : footprint cfg.target p = false) (h : p ∈ listCoolers fs) :
    p ∈ listCoolers (runUntil cfg k (createSteps cfg evs) fs) ∧
    lookupFS (runUntil cfg k (createSteps cfg evs) fs) p = lookupFS fs p := by
  rw [mem_listCoolers_iff] at h ⊢
  cases hl : lookupFS fs p with
  | none => simp [isCooler, hl] at h
  | some c =>
    have := frame_other_collections cfg evs fs p c k hm hfp hl
    refine ⟨?_, this⟩
    unfold isCooler at h ⊢
    rw [this]; rw [hl] at h; exact h

/-! ### a complete run yields a cooler (so the fault enumeration is not vacuous) -/

theorem run_ok_no_raise (cfg : Cfg) (steps : List Step) (fs fs' : FS)
    (h : run cfg steps fs = (fs', none)) : Step.pull .raise ∉ steps := by
  induction steps generalizing fs with
  | nil => simp
  | cons s ss ih =>
    unfold run at h
    split at h
    · simp at h
    · rename_i hf
      intro hm
      rcases List.mem_cons.mp hm with rfl | hm
      · simp [Step.fails] at hf
      · exact ih _ h hm

theorem chunkSteps_shape (cfg : Cfg) (evs : List Ev) : ∀ nnz,
    Step.pull .raise ∈ chunkSteps cfg nnz evs ∨
    ∃ pre, chunkSteps cfg nnz evs = pre ++ [.writeInfo] ∧ ∀ s ∈ pre, isTableStep s = true := by
  induction evs with
  | nil =>
    intro nnz
    right
    unfold chunkSteps
    by_cases h0 : nnz = 0
    · exact ⟨[.trim, .writeIndexes], by simp [h0], by simp [isTableStep]⟩
    · exact ⟨[.writeIndexes], by simp [h0], by simp [isTableStep]⟩
  | cons ev evs ih =>
    intro nnz
    cases ev with
    | raise => left; simp [chunkSteps]
    | chunk c =>
      unfold chunkSteps
      rcases ih (nnz + (written cfg c).length) with h | ⟨pre, hp, ht⟩
      · left; exact List.mem_append_right _ h
      · right
        refine ⟨[.pull (.chunk c), .validate c, .appendIds nnz (written cfg c), .checkFits (written cfg c),
          .appendCounts nnz (written cfg c)] ++ pre, by simp [hp], ?_⟩
        intro s hs
        rcases List.mem_append.mp hs with h | h
        · simp at h; rcases h with rfl | rfl | rfl | rfl | rfl <;> rfl
        · exact ht s h

theorem tableStep_exists (cfg : Cfg) (s : Step) (hs : isTableStep s = true) (fs : FS)
    (h : (lookupFS fs cfg.target).isSome = true) : (lookupFS (s.eff cfg fs) cfg.target).isSome = true := by
  cases fs with
  | none => simp [lookupFS] at h
  | some f =>
    simp only [lookupFS] at h
    cases s <;> first
      | exact Bool.noConfusion hs
      | exact h
      | (simp only [Step.eff, onTarget, Option.map_some, lookupFS, lookup_modifyAt, if_true, Option.isSome_map]; exact h)

theorem tableSteps_exists (cfg : Cfg) (steps : List Step) (hs : ∀ s ∈ steps, isTableStep s = true) (fs : FS)
    (h : (lookupFS fs cfg.target).isSome = true) :
    (lookupFS (exec cfg steps fs) cfg.target).isSome = true := by
  induction steps generalizing fs with
  | nil => exact h
  | cons s ss ih =>
    exact ih (fun x hx => hs x (by simp [hx])) _ (tableStep_exists cfg s (hs s (by simp)) fs h)

/-- a well-formed file has a root group -/
def WF (fs : FS) : Prop := ∀ f, fs = some f → (lookup f []).isSome = true

theorem reset_exists (cfg : Cfg) (f : File) (hr : (lookup f []).isSome = true) :
    (lookupFS (Step.resetTarget.eff cfg (some f)) cfg.target).isSome = true := by
  simp only [Step.eff, Option.map_some, lookupFS, resetGroup]
  by_cases ht : cfg.target = []
  · simp only [ht, if_true, lookup_modifyAt, Option.isSome_map]
    rw [lookup_filter_keep (fun q => !isTablePath q) [] (by simp [isTablePath])]
    exact hr
  · simp [ht, lookup]

/-- **complete_is_cooler.**  A run in which no step fails ends with the destination recognised and
listed as a cooler. -/
theorem complete_is_cooler (cfg : Cfg) (evs : List Ev) (fs fs' : FS) (hwf : WF fs)
    (hrun : run cfg (createSteps cfg evs) fs = (fs', none)) :
    isCooler fs' cfg.target = true ∧ cfg.target ∈ listCoolers fs' := by
  have hnr := run_ok_no_raise cfg _ fs fs' hrun
  have hfs := run_ok cfg _ fs fs' hrun
  -- opening succeeded and produced an existing file with a root
  have hopen : ∃ f, Step.openFile.eff cfg fs = some f ∧ (lookup f []).isSome = true := by
    rw [createSteps_eq] at hrun
    unfold run at hrun
    split at hrun
    · simp at hrun
    · rename_i hf
      simp only [Step.fails] at hf
      unfold Step.eff
      cases hm : cfg.mode <;> cases hfs0 : fs <;> simp_all [lookup, WF]
  obtain ⟨f, hf, hroot⟩ := hopen
  rcases chunkSteps_shape cfg evs 0 with h | ⟨pre, hp, ht⟩
  · exact absurd (by rw [createSteps_eq]; simp [bodySteps, h]) hnr
  · have hsteps : createSteps cfg evs =
        (.openFile :: .resetTarget :: ([.writeChroms, .writeBins, .preparePixels] ++ pre)) ++ [.writeInfo] := by
      rw [createSteps_eq]; simp [bodySteps, hp]
    have hex : (lookupFS (exec cfg ([Step.writeChroms, .writeBins, .preparePixels] ++ pre)
        (Step.resetTarget.eff cfg (some f))) cfg.target).isSome = true := by
      apply tableSteps_exists
      · intro s hs
        rcases List.mem_append.mp hs with h | h
        · simp at h; rcases h with rfl | rfl | rfl <;> rfl
        · exact ht s h
      · exact reset_exists cfg f hroot
    have hc : isCooler fs' cfg.target = true := by
      rw [hfs, hsteps]
      simp only [exec, List.foldl_append, List.foldl_cons, List.foldl_nil, hf] at hex ⊢
      generalize List.foldl (fun fs s => Step.eff cfg s fs) _ pre = X at hex ⊢
      cases X with
      | none => simp [lookupFS] at hex
      | some g =>
        simp only [lookupFS] at hex
        simp only [Step.eff, onTarget, Option.map_some, isCooler, lookupFS, lookup_modifyAt, if_true]
        cases hl : lookup g cfg.target with
        | none => simp [hl] at hex
        | some c => simp [Coll.isCooler]
    exact ⟨hc, (mem_listCoolers_iff _ _).mpr hc⟩

/-! non-vacuity of `complete_is_cooler` -/
-- the complete run on a valid stream yields a cooler (complete_is_cooler is not vacuous)
example : (run exCfg (createSteps exCfg exValid) (some exFile)).2 = none ∧
    isCooler (run exCfg (createSteps exCfg exValid) (some exFile)).1 ["x", "y"] = true ∧
    listCoolers (run exCfg (createSteps exCfg exValid) (some exFile)).1 = [["x", "y"], ["a"], ["b", "c"]] := by
  decide

/-! ### pipelines: unordered ingestion (temporary file), merge and coarsen as producers -/

theorem execP_pre_dest (cfg : Cfg) (steps : List PStep) (hs : ∀ s ∈ steps, s.isPre = true) (y : Sys) :
    (execP cfg steps y).dest = y.dest := by
  induction steps generalizing y with
  | nil => rfl
  | cons s ss ih =>
    have h1 : (s.eff cfg y).dest = y.dest := by
      cases s with
      | temp tc s => rfl
      | check ok => rfl
      | dest s => exact Bool.noConfusion (hs (.dest s) (by simp))
    have h2 := ih (fun x hx => hs x (by simp [hx])) (s.eff cfg y)
    simp only [execP, List.foldl_cons] at h2 ⊢
    rw [h2, h1]

theorem execP_map_dest (cfg : Cfg) (l : List Step) (y : Sys) :
    (execP cfg (l.map .dest) y).dest = exec cfg l y.dest := by
  induction l generalizing y with
  | nil => rfl
  | cons s ss ih =>
    have := ih (PStep.eff cfg (.dest s) y)
    simp only [execP, exec, List.map_cons, List.foldl_cons] at this ⊢
    rw [this]; rfl

/-- the destination after `k` pipeline steps is the destination after `k - |pre|` steps of the final
`create()`: in particular it is UNTOUCHED while the pipeline works on its temporary file / checks its
inputs (`k ≤ |pre|`) -/
theorem pipeline_dest (pre : List PStep) (hpre : ∀ s ∈ pre, s.isPre = true) (cfg : Cfg) (evs : List Ev)
    (y : Sys) (k : Nat) :
    (runUntilP cfg k (pipeline pre cfg evs) y).dest =
      runUntil cfg (k - pre.length) (createSteps cfg evs) y.dest := by
  unfold runUntilP pipeline runUntil
  rw [List.take_append, ← List.map_take]
  have : execP cfg (List.take k pre ++ List.map PStep.dest (List.take (k - pre.length) (createSteps cfg evs))) y
      = execP cfg (List.map PStep.dest (List.take (k - pre.length) (createSteps cfg evs))) (execP cfg (List.take k pre) y) := by
    simp [execP, List.foldl_append]
  rw [this, execP_map_dest, execP_pre_dest cfg _ (fun s hs => hpre s (List.mem_of_mem_take hs))]

theorem pipeline_dest_untouched (pre : List PStep) (hpre : ∀ s ∈ pre, s.isPre = true) (cfg : Cfg)
    (evs : List Ev) (y : Sys) (k : Nat) (hk : k ≤ pre.length) :
    (runUntilP cfg k (pipeline pre cfg evs) y).dest = y.dest := by
  rw [pipeline_dest pre hpre, show k - pre.length = 0 by omega]; rfl

theorem runP_fault (cfg : Cfg) (steps : List PStep) (y y' : Sys) (e : Fault)
    (h : runP cfg steps y = (y', some e)) :
    ∃ k, k < steps.length ∧ y' = runUntilP cfg k steps y := by
  induction steps generalizing y with
  | nil => simp [runP] at h
  | cons s ss ih =>
    unfold runP at h
    split at h
    · refine ⟨0, by simp, ?_⟩
      simp only [Prod.mk.injEq] at h
      exact h.1.symm
    · obtain ⟨k, hk, hy⟩ := ih _ h
      exact ⟨k + 1, by simp; omega, by rw [hy]; rfl⟩

/-- **pipeline_partial_not_cooler.**  Creation through a pipeline (sort pass into a temporary file,
input checks of merge/coarsen, then the final `create()`): whatever step raises — inside the
temporary file or in the destination — a destination that did not hold a cooler is neither
recognised nor listed as one. -/
theorem pipeline_partial_not_cooler (pre : List PStep) (hpre : ∀ s ∈ pre, s.isPre = true) (cfg : Cfg)
    (evs : List Ev) (y y' : Sys) (e : Fault)
    (hrun : runP cfg (pipeline pre cfg evs) y = (y', some e))
    (h0 : isCooler y.dest cfg.target = false) :
    isCooler y'.dest cfg.target = false ∧ cfg.target ∉ listCoolers y'.dest := by
  obtain ⟨k, hk, rfl⟩ := runP_fault cfg _ y y' e hrun
  rw [pipeline_dest pre hpre]
  have hk' : k - pre.length < (createSteps cfg evs).length := by
    simp only [pipeline, List.length_append, List.length_map] at hk
    have : 0 < (createSteps cfg evs).length := by rw [createSteps_eq]; simp
    omega
  have := prefix_not_cooler cfg evs y.dest _ hk' h0
  exact ⟨this, not_mem_listCoolers _ _ this⟩

/-- **pipeline_frame.**  … and every other group of the destination file reads back unchanged after
any prefix of the pipeline (append mode). -/
theorem pipeline_frame (pre : List PStep) (hpre : ∀ s ∈ pre, s.isPre = true) (cfg : Cfg)
    (evs : List Ev) (y : Sys) (p : Path) (c : Coll) (k : Nat)
    (hm : cfg.mode ≠ .w) (hfp : footprint cfg.target p = false) (h : lookupFS y.dest p = some c) :
    lookupFS (runUntilP cfg k (pipeline pre cfg evs) y).dest p = some c := by
  rw [pipeline_dest pre hpre]
  exact frame_other_collections cfg evs y.dest p c _ hm hfp h

theorem unorderedPre_isPre (tcfg : Nat → Cfg) (evs : List Ev) : ∀ i, ∀ s ∈ unorderedPre tcfg i evs, s.isPre = true := by
  induction evs with
  | nil => intro i s hs; simp [unorderedPre] at hs
  | cons ev evs ih =>
    intro i s hs
    cases ev with
    | raise => simp [unorderedPre] at hs; subst hs; rfl
    | chunk c =>
      simp only [unorderedPre, List.cons_append, List.mem_cons, List.mem_append, List.mem_map] at hs
      rcases hs with rfl | ⟨a, _, rfl⟩ | h
      · rfl
      · rfl
      · exact ih _ s h

theorem producerPre_isPre (ok : Bool) : ∀ s ∈ producerPre ok, s.isPre = true := by
  intro s hs; simp [producerPre] at hs; subst hs; rfl

/-- unordered ingestion: an invalid chunk or an iterator exception is met during the sort pass, in the
temporary file: the destination file is exactly as before -/
theorem unordered_sortpass_fault_dest_untouched (tcfg : Nat → Cfg) (chunks : List Ev) (cfg : Cfg)
    (merged : List Ev) (y : Sys) (k : Nat) (hk : k ≤ (unorderedPre tcfg 0 chunks).length) :
    (runUntilP cfg k (pipeline (unorderedPre tcfg 0 chunks) cfg merged) y).dest = y.dest :=
  pipeline_dest_untouched _ (unorderedPre_isPre tcfg chunks 0) cfg merged y k hk

/-! ### unrelated attributes of a root destination -/

theorem step_other_root (cfg : Cfg) (ht : cfg.target = []) (hm : cfg.mode ≠ .w) (s : Step) (f : File) :
    ∃ f', s.eff cfg (some f) = some f' ∧ (lookup f' []).map (·.other) = (lookup f []).map (·.other) := by
  cases s with
  | openFile => exact ⟨f, open_keep cfg hm f, rfl⟩
  | resetTarget =>
    refine ⟨_, rfl, ?_⟩
    simp only [resetGroup, ht, if_true, lookup_modifyAt]
    rw [lookup_filter_keep (fun q => !isTablePath q) [] (by simp [isTablePath])]
    cases lookup f [] <;> simp [clearTables]
  | pull _ => exact ⟨f, rfl, rfl⟩
  | validate _ => exact ⟨f, rfl, rfl⟩
  | checkFits _ => exact ⟨f, rfl, rfl⟩
  | _ =>
    refine ⟨_, rfl, ?_⟩
    simp only [ht, lookup_modifyAt, if_true]
    cases lookup f [] <;> simp

/-- a root destination keeps its unrelated attributes through every prefix (and the complete run) -/
theorem root_unrelated_attrs_kept (cfg : Cfg) (ht : cfg.target = []) (hm : cfg.mode ≠ .w)
    (steps : List Step) (f : File) :
    ∃ f', exec cfg steps (some f) = some f' ∧ (lookup f' []).map (·.other) = (lookup f []).map (·.other) := by
  induction steps generalizing f with
  | nil => exact ⟨f, rfl, rfl⟩
  | cons s ss ih =>
    obtain ⟨f1, h1, e1⟩ := step_other_root cfg ht hm s f
    obtain ⟨f2, h2, e2⟩ := ih f1
    refine ⟨f2, ?_, by rw [e2, e1]⟩
    simp only [exec, List.foldl_cons] at h2 ⊢
    rw [h1]; exact h2

/-! non-vacuity of the pipeline theorems -/
-- unordered ingestion: chunk 2 is rejected during the sort pass, inside the temporary file:
-- the destination file is exactly as before, and the temporary file holds two complete coolers
def exTcfg (i : Nat) : Cfg := { target := [toString i], mode := .a, n := 3, symm := true }
example : (runP exCfg (pipeline (unorderedPre exTcfg 0 exStream) exCfg []) ⟨some exFile, none⟩).2 =
    some (.err .badInput) := by decide
example : (runP exCfg (pipeline (unorderedPre exTcfg 0 exStream) exCfg []) ⟨some exFile, none⟩).1.dest =
    some exFile := by decide
example : listCoolers (runP exCfg (pipeline (unorderedPre exTcfg 0 exStream) exCfg []) ⟨some exFile, none⟩).1.temp =
    [["1"], ["0"]] := by decide
-- merge / coarsen: an input check fails before `create()` is entered
example : (runP exCfg (pipeline (producerPre false) exCfg exValid) ⟨some exFile, none⟩) =
    (⟨some exFile, none⟩, some (.err .value)) := by decide

/-! ### option faults: metadata that is not JSON compatible, an option `create()` rejects on entry -/

theorem run_ok_info (cfg : Cfg) (hi : cfg.infoOk = false) (steps : List Step) (fs fs' : FS)
    (h : run cfg steps fs = (fs', none)) : Step.writeInfo ∉ steps := by
  induction steps generalizing fs with
  | nil => simp
  | cons s ss ih =>
    unfold run at h
    split at h
    · simp at h
    · rename_i hf
      intro hm
      rcases List.mem_cons.mp hm with rfl | hm
      · simp [Step.fails, hi] at hf
      · exact ih _ h hm

/-- **bad_metadata_never_completes.**  With `metadata` that `json.dumps` rejects, no creation completes:
whatever the stream, some step raises (at the latest `write_info`, before it writes any attribute). -/
theorem bad_metadata_never_completes (cfg : Cfg) (hi : cfg.infoOk = false) (evs : List Ev) (fs : FS) :
    (run cfg (createSteps cfg evs) fs).2 ≠ none := by
  intro hn
  have hrun : run cfg (createSteps cfg evs) fs = ((run cfg (createSteps cfg evs) fs).1, none) := by
    rw [← hn]
  have h1 := run_ok_info cfg hi _ fs _ hrun
  have h2 := run_ok_no_raise cfg _ fs _ hrun
  rcases chunkSteps_shape cfg evs 0 with h | ⟨pre, hp, _⟩
  · exact h2 (by rw [createSteps_eq]; simp [bodySteps, h])
  · exact h1 (by rw [createSteps_eq]; simp [bodySteps, hp])

/-- **bad_metadata_not_cooler.**  … hence such a creation never leaves a cooler where there was none -/
theorem bad_metadata_not_cooler (cfg : Cfg) (hi : cfg.infoOk = false) (evs : List Ev) (fs : FS)
    (h0 : isCooler fs cfg.target = false) :
    isCooler (run cfg (createSteps cfg evs) fs).1 cfg.target = false ∧
      cfg.target ∉ listCoolers (run cfg (createSteps cfg evs) fs).1 := by
  cases he : (run cfg (createSteps cfg evs) fs).2 with
  | none => exact absurd he (bad_metadata_never_completes cfg hi evs fs)
  | some e =>
    exact partial_not_cooler cfg evs fs _ e (by rw [← he]) h0

theorem optsPre_isPre (ok : Bool) : ∀ s ∈ optsPre ok, s.isPre = true := by
  intro s hs
  cases ok <;> simp [optsPre] at hs
  subst hs; rfl

theorem unorderedPreBadOpts_isPre (tcfg : Nat → Cfg) (evs : List Ev) :
    ∀ s ∈ unorderedPreBadOpts tcfg evs, s.isPre = true := by
  intro s hs
  cases evs with
  | nil => simp [unorderedPreBadOpts] at hs; subst hs; rfl
  | cons ev evs =>
    cases ev with
    | raise => simp [unorderedPreBadOpts] at hs; subst hs; rfl
    | chunk c => simp [unorderedPreBadOpts] at hs; rcases hs with rfl | rfl <;> rfl

/-- a run through preparatory steps that end in a failing check stops at or before that check -/
theorem runP_stops_at_check (cfg : Cfg) (rest : List PStep) : ∀ (pre : List PStep) (y : Sys),
    ∃ k, k ≤ pre.length ∧ ∃ e,
      runP cfg (pre ++ .check false :: rest) y = (runUntilP cfg k (pre ++ .check false :: rest) y, some e) := by
  intro pre
  induction pre with
  | nil => intro y; exact ⟨0, by simp, .err .value, by simp [runP, PStep.fails, runUntilP, execP]⟩
  | cons s ss ih =>
    intro y
    cases hf : s.fails cfg y with
    | some e => exact ⟨0, by simp, e, by simp [runP, hf, runUntilP, execP]⟩
    | none =>
      obtain ⟨k, hk, e, he⟩ := ih (s.eff cfg y)
      refine ⟨k + 1, by simp; omega, e, ?_⟩
      simp only [List.cons_append, runP, hf, he]
      rfl

/-- **bad_opts_dest_untouched.**  An option rejected on entry of `create()` (after any preparatory steps
`pre`: input checks of merge/coarsen, the pull of chunk 0 in unordered ingestion): the call raises and
the destination file is exactly as before. -/
theorem bad_opts_dest_untouched (pre : List PStep) (hpre : ∀ s ∈ pre, s.isPre = true) (cfg : Cfg)
    (evs : List Ev) (y : Sys) :
    (runP cfg (pipeline (pre ++ [.check false]) cfg evs) y).2 ≠ none ∧
      (runP cfg (pipeline (pre ++ [.check false]) cfg evs) y).1.dest = y.dest := by
  have hpre' : ∀ s ∈ pre ++ [PStep.check false], s.isPre = true := by
    intro s hs
    rcases List.mem_append.mp hs with h | h
    · exact hpre s h
    · simp at h; subst h; rfl
  obtain ⟨k, hk, e, he⟩ := runP_stops_at_check cfg ((createSteps cfg evs).map .dest) pre y
  have heq : pipeline (pre ++ [.check false]) cfg evs = pre ++ .check false :: (createSteps cfg evs).map .dest := by
    simp [pipeline]
  rw [heq, he]
  refine ⟨by simp, ?_⟩
  rw [← heq]
  exact pipeline_dest_untouched _ hpre' cfg evs y k (by simp; omega)

/-! non-vacuity -/
def exCfgBadMeta : Cfg := { exCfg with infoOk := false }
-- a VALID stream with metadata that is not JSON compatible: every table is written, `write_info` raises
example : (run exCfgBadMeta (createSteps exCfgBadMeta exValid) (some exFile)).2 = some .type := by decide
example : isCooler (run exCfgBadMeta (createSteps exCfgBadMeta exValid) (some exFile)).1 ["x", "y"] = false := by decide
example : ((lookupFS (run exCfgBadMeta (createSteps exCfgBadMeta exValid) (some exFile)).1 ["x", "y"]).map
    fun c => c.indexes.isSome) = some true := by decide
-- an unknown storage option: ordered creation, merge (after its input check), unordered ingestion
example : (runP exCfg (pipeline (optsPre false) exCfg exValid) ⟨some exFile, none⟩) =
    (⟨some exFile, none⟩, some (.err .value)) := by decide
example : (runP exCfg (pipeline (producerPre true ++ optsPre false) exCfg exValid) ⟨some exFile, none⟩) =
    (⟨some exFile, none⟩, some (.err .value)) := by decide
example : (runP exCfg (pipeline (unorderedPreBadOpts exTcfg exValid) exCfg []) ⟨some exFile, none⟩) =
    (⟨some exFile, none⟩, some (.err .value)) := by decide

end Cooler.C13
