import CoolerModel.Props.C02Core
import CoolerModel.Props.C07Core
import CoolerModel.Props.C06
/-!
# C02 (continued) — producers other than plain creation

The chunk streams that the merger (C07) and the unordered-ingestion pipeline (C06) hand to `create`
concatenate to strictly sorted, in-range, upper-triangular tables whenever their inputs are; with
`create_valid` every collection they write satisfies the schema predicate.
-/
set_option linter.unusedSimpArgs false
set_option linter.unusedVariables false

namespace Cooler.C02
open Cooler Cooler.Merge Cooler.Unordered

theorem mem_groupSum_key (l : Pixels) (p : Px) (hp : p ∈ groupSum l) : ∃ q ∈ l, q.i = p.i ∧ q.j = p.j :=
  (hasKey_groupSum l p.i p.j).mp ⟨p, hp, rfl, rfl⟩

theorem groupSum_inRange (n : Nat) (l : Pixels) (h : InRange n l) : InRange n (groupSum l) := by
  intro p hp
  obtain ⟨q, hq, h1, h2⟩ := mem_groupSum_key l p hp
  have := h q hq
  omega

theorem groupSum_triu (l : Pixels) (h : Triu l) : Triu (groupSum l) := by
  intro p hp
  obtain ⟨q, hq, h1, h2⟩ := mem_groupSum_key l p hp
  have := h q hq
  omega

theorem inRange_flatten (n : Nat) (ls : List Pixels) (h : ∀ l ∈ ls, InRange n l) : InRange n ls.flatten := by
  intro p hp
  obtain ⟨l, hl, hpl⟩ := List.mem_flatten.mp hp
  exact h l hl p hpl

theorem triu_flatten (ls : List Pixels) (h : ∀ l ∈ ls, Triu l) : Triu ls.flatten := by
  intro p hp
  obtain ⟨l, hl, hpl⟩ := List.mem_flatten.mp hp
  exact h l hl p hpl

/-- **merge_valid**: merging valid inputs over a common axis (any valid epoch partition, i.e. any merge
buffer) writes a valid collection. -/
theorem merge_valid (nchroms : Nat) (binChrom : List Nat) (symm : Bool) (inputs : List Pixels)
    (hbs : NonDecr binChrom) (hbn : ∀ c ∈ binChrom, c < nchroms)
    (hs : ∀ ps ∈ inputs, StrictSorted ps) (hr : ∀ ps ∈ inputs, InRange binChrom.length ps)
    (ht : symm = true → ∀ ps ∈ inputs, Triu ps)
    (bs : List Nat) (hv : C07.ValidPartition inputs 0 bs) :
    ValidCooler (createStore nchroms binChrom symm (merger inputs (0 :: bs))) := by
  apply create_valid nchroms binChrom symm _ hbs hbn
  · exact C07.merger_stream_sorted inputs hs bs hv
  · rw [C07.merger_eq_spec inputs hs bs hv]
    exact groupSum_inRange _ _ (inRange_flatten _ _ hr)
  · intro hsym
    rw [C07.merger_eq_spec inputs hs bs hv]
    exact groupSum_triu _ (triu_flatten _ (ht hsym))

/-- **unordered_valid**: unordered ingestion of in-range (upper-triangular) records, in one or two
passes over any valid grouping, writes a valid collection. -/
theorem unordered_valid (nchroms : Nat) (binChrom : List Nat) (symm : Bool) (chunks : List Pixels)
    (edges : Option (List Nat)) (he : ∀ es, edges = some es → validEdges chunks.length es = true)
    (hbs : NonDecr binChrom) (hbn : ∀ c ∈ binChrom, c < nchroms)
    (hr : ∀ ch ∈ chunks, InRange binChrom.length ch) (ht : symm = true → ∀ ch ∈ chunks, Triu ch) :
    ValidCooler (createStore nchroms binChrom symm [createFromUnordered chunks edges]) := by
  rw [C06.unordered_eq_aggregate chunks edges he]
  apply create_valid nchroms binChrom symm _ hbs hbn
  · simp only [List.flatten_cons, List.flatten_nil, List.append_nil]
    exact groupSum_sorted _
  · simp only [List.flatten_cons, List.flatten_nil, List.append_nil]
    exact groupSum_inRange _ _ (inRange_flatten _ _ hr)
  · intro hsym
    simp only [List.flatten_cons, List.flatten_nil, List.append_nil]
    exact groupSum_triu _ (triu_flatten _ (ht hsym))

end Cooler.C02
